(** Model of src/frontend/lexer.rs (code-shaped, executable, no proofs in this file).
    The Rust index cursor [start] into [src] is the suffix [rest] of the source plus the position [pos]. *)
From Pakhi Require Import Base Float64 Syntax Tables.
Local Open Scope N_scope.

Fixpoint assoc_N {A} (k : N) (l : list (N * A)) : option A :=
  match l with [] => None | (k', v) :: r => if N.eqb k k' then Some v else assoc_N k r end.

Fixpoint assoc_text {A} (k : text) (l : list (text * A)) : option A :=
  match l with [] => None | (k', v) :: r => if text_eqb k k' then Some v else assoc_text k r end.

Definition mem_N (k : N) (l : list N) : bool := existsb (N.eqb k) l.

Fixpoint in_ranges (c : N) (l : list (N * N)) : bool :=
  match l with [] => false | (a, b) :: r => ((a <=? c) && (c <=? b)) || in_ranges c r end.

Definition is_numeric (c : char) : bool := in_ranges c numeric_ranges.      (* char::is_numeric *)

Definition is_ascii_whitespace (c : char) : bool := mem_N c [32; 9; 10; 12; 13].
Definition is_ascii_punctuation (c : char) : bool :=
  ((33 <=? c) && (c <=? 47)) || ((58 <=? c) && (c <=? 64)) || ((91 <=? c) && (c <=? 96)) || ((123 <=? c) && (c <=? 126)).
Definition is_ascii_control (c : char) : bool := (c <=? 31) || (c =? 127).

Definition is_valid_identifier_char (c : char) : bool :=
  mem_N c ident_extra_chars
  || (negb (is_ascii_whitespace c) && negb (is_ascii_punctuation c) && negb (is_ascii_control c)).

Definition c_quote : N := 34.
Definition c_hash : N := 35.
Definition c_backslash : N := 92.
Definition c_newline : N := 10.
Definition c_gt : N := 62.

(* consume_num: scans digits and dots, translating to the ascii spelling *)
Fixpoint num_scan (rest : text) (in_frac : bool) (line : N) (file : text) : outcome (text * nat) :=
  match rest with
  | [] => Ok ([], O)
  | c :: r =>
      if c =? c_dot then
        if in_frac then err ESyntax line file
        else do '(s, n) <- num_scan r true line file; Ok (c_dot :: s, S n)
      else if is_numeric c then
        match assoc_N c lexer_digits with
        | Some d => do '(s, n) <- num_scan r in_frac line file; Ok (digit_char d :: s, S n)
        | None => err ESyntax line file
        end
      else Ok ([], O)
  end.

Definition consume_num_tail (sign body : text) (k : nat) (line : N) (file : text) : outcome (f64 * nat) :=
  do '(s, n) <- num_scan body false line file;
  match parse_f64 (sign ++ s) with
  | Some v => Ok (v, (k + n)%nat)
  | None => err ESyntax line file
  end.

Definition consume_num (rest : text) (line : N) (file : text) : outcome (f64 * nat) :=
  match rest with
  | c :: r => if c =? c_minus then consume_num_tail [c_minus] r 1 line file
              else consume_num_tail [] rest 0 line file
  | [] => consume_num_tail [] [] 0 line file
  end.

(* consume_string: [rest] starts after the opening quote; returns contents and whether it was closed *)
Fixpoint string_scan (rest : text) : text * bool :=
  match rest with
  | [] => ([], false)
  | c :: r => if c =? c_quote then ([], true) else let '(s, closed) := string_scan r in (c :: s, closed)
  end.

Definition count_newlines (s : text) : N := N.of_nat (length (filter (N.eqb c_newline) s)).

(* skip_comment_block: [rest] starts after the opening '#'; returns chars skipped (without the opening '#',
   with the closing one) and lines skipped.  Recursion on fuel because of the 2-character escape step. *)
Fixpoint comment_scan (fuel : nat) (rest : text) : option (nat * N) :=
  match fuel with
  | O => None
  | S f =>
    match rest with
    | [] => None
    | c :: r =>
        if c =? c_hash then Some (1%nat, 0)
        else if (c =? c_backslash) && (match r with d :: _ => d =? c_hash | [] => false end) then
          match comment_scan f (tl r) with Some (n, l) => Some (S (S n), l) | None => None end
        else
          match comment_scan f r with
          | Some (n, l) => Some (S n, if c =? c_newline then l + 1 else l)
          | None => None
          end
    end
  end.

Fixpoint ident_scan (rest : text) : text :=
  match rest with
  | c :: r => if is_valid_identifier_char c then c :: ident_scan r else []
  | [] => []
  end.

Definition after_operand (prev : option tkind) : bool :=
  match prev with Some k => mem_N (tk_tag k) minus_binary_after | None => false end.

Definition tok (k : tkind) (lex : text) (line : N) (file : text) : token := mkTok k lex line file.

(* consume: token (None for blanks), characters consumed, lines consumed *)
Definition consume (rest : text) (line : N) (file : text) (prev : option tkind) : outcome (option token * nat * N) :=
  match rest with
  | [] => Panic SiteIndex
  | c :: r =>
    if (c =? c_minus) || (match assoc_N c lexer_digits with Some _ => true | None => false end) then
      let next_is_numeric := match r with d :: _ => is_numeric d | [] => false end in
      if is_numeric c || (next_is_numeric && negb (after_operand prev)) then
        do '(v, n) <- consume_num rest line file;
        Ok (Some (tok (TNum v) (firstn n rest) line file), n, 0)
      else if (match r with d :: _ => d =? c_gt | [] => false end) then
        Ok (Some (tok TMap (firstn 2 rest) line file), 2%nat, 0)
      else Ok (Some (tok TMinus [c] line file), 1%nat, 0)
    else match assoc_N c single_ops with
    | Some k => Ok (Some (tok k [c] line file), 1%nat, 0)
    | None =>
    match assoc_N c double_ops with
    | Some (d, k2, k1) =>
        if (match r with x :: _ => x =? d | [] => false end)
        then Ok (Some (tok k2 (firstn 2 rest) line file), 2%nat, 0)
        else Ok (Some (tok k1 [c] line file), 1%nat, 0)
    | None =>
    if c =? c_hash then
      match comment_scan (S (length r)) r with
      | Some (n, l) => Ok (Some (tok TComment (firstn (S n) rest) line file), S n, l)
      | None => err ESyntax line file
      end
    else if c =? c_quote then
      let '(s, closed) := string_scan r in
      if closed then Ok (Some (tok (TStr s) s line file), S (S (length s)), count_newlines s)
      else err ESyntax line file
    else if mem_N c [32; 13; 9] then Ok (None, 1%nat, 0)
    else if c =? c_newline then Ok (None, 1%nat, 1)
    else
      let id := ident_scan rest in
      match id with
      | [] => err ESyntax line file
      | _ =>
        match assoc_text id keywords with
        | Some k => Ok (Some (tok k id line file), length id, 0)
        | None => Ok (Some (tok TIdent id line file), length id, 0)
        end
      end
    end end
  end.

Definition eot (file : text) : token := mkTok TEOT [] 0 file.

(* tokenize, also returning the span (start, length) of every token *)
Fixpoint lex_loop (fuel : nat) (rest : text) (pos : nat) (line : N) (file : text) (prev : option tkind)
  : outcome (list (token * (nat * nat))) :=
  match rest with
  | [] => Ok [(eot file, (pos, O))]
  | _ =>
    match fuel with
    | O => OutOfFuel
    | S f =>
      do '(t, c, l) <- consume rest line file prev;
      match t with
      | Some tk =>
          do ts <- lex_loop f (skipn c rest) (pos + c) (line + l) file (Some (t_kind tk));
          Ok ((tk, (pos, c)) :: ts)
      | None => lex_loop f (skipn c rest) (pos + c) (line + l) file prev
      end
    end
  end.

Definition tokenize_spans (src : text) (file : text) : outcome (list (token * (nat * nat))) :=
  lex_loop (S (length src)) src O 1 file None.

Definition tokenize (src : text) (file : text) : outcome (list token) :=
  do ts <- tokenize_spans src file; Ok (map fst ts).
