(** C03 -- break and continue act on exactly the innermost loop and restore scopes.
    One-step lemmas of the machine, valid for every machine state, and -- inside function bodies, for every statement
    vector the parser can produce -- the frame invariant (FrameInv.v, NoPanic.v): the innermost loop entered by the
    running call always records the height of the scope stack at its entry and the statement after its own closing
    continue, the program position is inside that loop's block, so break and continue cut the scope stack exactly to
    the recorded height (C03_break_exact, C03_continue_exact).  The top level is a frame too ([top_frame]: the whole vector,
    one global scope below the blocks), and C03_frame_invariant_at_every_top_level_boundary shows its invariant at every
    statement boundary of every run of every accepted program, under any collection schedule: so the two "exact" theorems
    apply at top level as well (C03_break_exact_at_top_level). *)
From Pakhi Require Import Base Float64 Syntax Tables Lexer Parser Interp.
From Pakhi.Proofs Require Import Scope Control WF WFOps Frames FrameInv NoPanic ParseOk TopLevel ChainWalk Shape BlockRun.
Local Open Scope nat_scope.

(* every run, observed with any fuel (= at every statement boundary), is well formed and satisfies the frame invariant of
   the top level: scope height = 1 + static block depth of the position; every active loop records that height at its
   entry and its own closing continue; the position is inside each active loop; loops properly nested; no pending call *)
Theorem C03_frame_invariant_at_every_top_level_boundary : forall fs cwd main_path pfuel src code platform w fuel sched,
  front fs cwd main_path pfuel src = Ok code ->
  let m := snd (run code fuel sched 0 (init_machine platform w)) in
  mwf code m /\ finv code (top_frame code) m.
Proof.
  intros fs cwd main_path pfuel src code platform w fuel sched H.
  destruct (front_output_ok fs cwd main_path pfuel src code H) as [Hok Hne].
  apply (tinv_run code Hok fuel sched 0); [apply mwf_init; assumption|apply tinv_init].
Qed.
Print Assumptions C03_frame_invariant_at_every_top_level_boundary.

Theorem C03_break_exact_at_top_level : forall code m l ls, finv code (top_frame code) m -> m_loops m = l :: ls ->
  m_loop_base m < length (m_loops m) ->
  finv code (top_frame code) (set_pc (set_loops (set_scopes m (truncate (l_depth l) (m_scopes m))) ls) (l_end l)) /\
  l_depth l <= length (m_scopes m).
Proof. intros code m l ls. apply finv_break. apply top_frame_static. Qed.
Print Assumptions C03_break_exact_at_top_level.

Theorem C03_continue_exact_at_top_level : forall code m l ls, finv code (top_frame code) m -> m_loops m = l :: ls ->
  m_loop_base m < length (m_loops m) ->
  finv code (top_frame code) (set_pc (set_scopes m (truncate (l_depth l) (m_scopes m))) (l_start l)) /\ l_depth l <= length (m_scopes m).
Proof. intros code m l ls. apply finv_continue. apply top_frame_static. Qed.
Print Assumptions C03_continue_exact_at_top_level.

(* entering a loop records its end -- the statement after the closing আবার; of this loop's own block, found by
   bracket matching and therefore independent of any loop, continue statement or block inside the body -- and the
   scope depth at entry *)
Theorem C03_loop_entry_records_end_and_depth : forall code fuel m pre lp bp body bq cp post,
  code = pre ++ FLoop lp :: FBlockStart bp :: body ++ FBlockEnd bq :: FContinue cp :: post -> balanced body ->
  m_pc m = length pre ->
  interp code (S fuel) m =
    Ok (set_pc (set_loops m (mkLoop (length pre + 1) (length pre + length body + 4) (length (m_scopes m)) :: m_loops m))
               (length pre + 1)).
Proof. exact loop_enter_records_end. Qed.
Print Assumptions C03_loop_entry_records_end_and_depth.

Theorem C03_break_ends_innermost_loop : forall code fuel m p l ls,
  stmt_at code (m_pc m) = Some (FBreak p) -> m_loops m = l :: ls -> m_loop_base m < length (m_loops m) ->
  interp code (S fuel) m = Ok (set_pc (set_loops (set_scopes m (truncate (l_depth l) (m_scopes m))) ls) (l_end l)).
Proof. exact break_innermost. Qed.
Print Assumptions C03_break_ends_innermost_loop.

Theorem C03_continue_restarts_innermost_loop : forall code fuel m p l ls,
  stmt_at code (m_pc m) = Some (FContinue p) -> m_loops m = l :: ls -> m_loop_base m < length (m_loops m) ->
  interp code (S fuel) m = Ok (set_pc (set_scopes m (truncate (l_depth l) (m_scopes m))) (l_start l)).
Proof. exact continue_innermost. Qed.
Print Assumptions C03_continue_restarts_innermost_loop.

(* every scope opened inside the loop body is discarded, no scope outside it is touched *)
Theorem C03_scopes_restored : forall (inner outer : list scope), truncate (length outer) (inner ++ outer) = outer.
Proof. exact loop_exit_scopes. Qed.
Print Assumptions C03_scopes_restored.

(* with no enclosing loop in the current function both are located runtime errors, not panics *)
Theorem C03_break_outside_loop_is_error : forall code fuel m p, stmt_at code (m_pc m) = Some (FBreak p) ->
  length (m_loops m) <= m_loop_base m -> interp code (S fuel) m = fail_here code ERuntime m.
Proof. exact break_outside_loop. Qed.
Print Assumptions C03_break_outside_loop_is_error.

Theorem C03_continue_outside_loop_is_error : forall code fuel m p, stmt_at code (m_pc m) = Some (FContinue p) ->
  length (m_loops m) <= m_loop_base m -> interp code (S fuel) m = fail_here code ERuntime m.
Proof. exact continue_outside_loop. Qed.
Print Assumptions C03_continue_outside_loop_is_error.

(* under the frame invariant the cut is exact: the scope stack after break / continue has exactly the height recorded
   when the loop was entered, every loop entered by the caller is untouched, and the invariant holds again *)
Theorem C03_break_exact : forall code F m l ls, frame_static code F -> finv code F m -> m_loops m = l :: ls ->
  m_loop_base m < length (m_loops m) ->
  finv code F (set_pc (set_loops (set_scopes m (truncate (l_depth l) (m_scopes m))) ls) (l_end l)) /\
  l_depth l <= length (m_scopes m).
Proof. exact finv_break. Qed.
Print Assumptions C03_break_exact.

Theorem C03_continue_exact : forall code F m l ls, frame_static code F -> finv code F m -> m_loops m = l :: ls ->
  m_loop_base m < length (m_loops m) ->
  finv code F (set_pc (set_scopes m (truncate (l_depth l) (m_scopes m))) (l_start l)) /\ l_depth l <= length (m_scopes m).
Proof. exact finv_continue. Qed.
Print Assumptions C03_continue_exact.

(* entering a loop establishes what break and continue rely on *)
Theorem C03_loop_entry_establishes_invariant : forall code F m p bp cp pc2, frame_static code F -> finv code F m ->
  stmt_at code (m_pc m) = Some (FLoop p) -> stmt_at code (S (m_pc m)) = Some (FBlockStart bp) ->
  skip_block_from code m (S (m_pc m)) = Ok pc2 -> stmt_at code pc2 = Some (FContinue cp) ->
  finv code F (set_pc (set_loops m (mkLoop (S (m_pc m)) (S pc2) (length (m_scopes m)) :: m_loops m)) (S (m_pc m))).
Proof. exact finv_enter_loop. Qed.
Print Assumptions C03_loop_entry_establishes_invariant.

(* every forward scan of the interpreter ends at the same block depth and never passes a shallower position *)
Theorem C03_skip_block_keeps_depth : forall code m pc pc', skip_block_from code m pc = Ok pc' ->
  pc < pc' /\ (exists q p, pc' = S q /\ stmt_at code q = Some (FBlockEnd p)) /\ sd code pc' = sd code pc /\
  (forall k, pc <= k -> k <= pc' -> (sd code pc <= sd code k)%Z).
Proof. exact skip_from_sd. Qed.
Print Assumptions C03_skip_block_keeps_depth.

(** what one statement does to the position and the loop stack: one of five shapes -- forward without passing a
    shallower position, loop stack untouched (next statement; the jumps of a false condition, an else, a function
    definition); a closing brace; entering a loop (its record pushed, body's opening brace next); the continue or the
    break of exactly the innermost loop record.  Nothing else touches the loop stack. *)
Theorem C03_one_statement_has_one_of_five_shapes : forall code, code_ok code -> forall fuel m m',
  mwf code m -> interp code fuel m = Ok m' -> shape code m m'.
Proof. exact step_shape. Qed.
Print Assumptions C03_one_statement_has_one_of_five_shapes.

(** a loop body runs alone, however deeply the break / continue is nested in it: from inside the body's block (a, z) the
    machine stays inside -- its own nested loops come and go above the stack [L0] it entered with, whose top is this
    loop's record -- until it arrives behind the closing brace (on the loop's closing continue) with stack [L0], or
    stands at a break / continue with stack [L0]: that of this loop, C03_break_exact / C03_continue_exact apply *)
Theorem C03_a_loop_body_runs_alone : forall code, code_ok code -> forall fuel F a z L0 outer,
  frame_static code F -> region code a z -> L0 = outer ++ f_lower F ->
  forall n m m', mwf code m -> finv code F m -> inblk a z L0 m -> steps code fuel n m = Ok m' ->
  inblk a z L0 m' \/
  exists k mk, k <= n /\ steps code fuel k m = Ok mk /\ left_block code a z L0 mk /\
               forall j mj, j < k -> steps code fuel j m = Ok mj -> inblk a z L0 mj.
Proof. exact block_run. Qed.
Print Assumptions C03_a_loop_body_runs_alone.
