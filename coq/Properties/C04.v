(** C04 -- Variables are block scoped: declare, shadow, assign, expire. *)
From Pakhi Require Import Base Float64 Syntax Tables Lexer Interp.
From Pakhi.Proofs Require Import FrameInv LoopIter Assoc Scope.

Theorem C04_declare_visible : forall x v ss ss', declare x v ss = Ok ss' -> lookup_var x ss' = Some v.
Proof. exact declare_lookup_same. Qed.
Print Assumptions C04_declare_visible.

Theorem C04_declare_frames_other_names : forall x y v ss ss', declare x v ss = Ok ss' -> y <> x -> lookup_var y ss' = lookup_var y ss.
Proof. exact declare_lookup_other. Qed.
Print Assumptions C04_declare_frames_other_names.

(* shadowing lasts exactly until the block ends: outer scopes are untouched by an inner declaration *)
Theorem C04_shadow_outer_intact : forall x v ss ss', declare x v ss = Ok ss' -> tl ss' = tl ss /\ length ss' = length ss.
Proof. exact declare_outer_unchanged. Qed.
Print Assumptions C04_shadow_outer_intact.

(* assignment updates the innermost visible declaration of the name and nothing else *)
Theorem C04_assign_innermost : forall x v ss,
  match assign_var x v ss with
  | Some ss' =>
      exists pre s post, ss = pre ++ s :: post /\ Forall (fun t => alist_has x t = false) pre /\ alist_has x s = true /\
                         ss' = pre ++ alist_set x v s :: post
  | None => Forall (fun t => alist_has x t = false) ss
  end.
Proof. exact assign_var_spec. Qed.
Print Assumptions C04_assign_innermost.

Theorem C04_assign_then_read : forall x v ss ss', assign_var x v ss = Some ss' -> lookup_var x ss' = Some v.
Proof. exact assign_lookup_same. Qed.
Print Assumptions C04_assign_then_read.

Theorem C04_assign_frames_other_names : forall x y v ss ss', assign_var x v ss = Some ss' -> y <> x -> lookup_var y ss' = lookup_var y ss.
Proof. exact assign_lookup_other. Qed.
Print Assumptions C04_assign_frames_other_names.

(* no visible declaration: assigning fails exactly when reading fails *)
Theorem C04_undeclared : forall x v ss, lookup_var x ss = None <-> assign_var x v ss = None.
Proof. exact assign_undeclared. Qed.
Print Assumptions C04_undeclared.

Theorem C04_read_undeclared_is_error : forall code fuel x p m, lookup_var x (m_scopes m) = None ->
  eval code (S fuel) (EVar x p) m = fail_here code ERuntime m.
Proof. exact eval_undeclared. Qed.
Print Assumptions C04_read_undeclared_is_error.

Theorem C04_assign_undeclared_is_error : forall code fuel m x xp e p v m1,
  stmt_at code (m_pc m) = Some (FAssign AReassign x xp [] (Some e) p) ->
  eval code fuel e m = Ok (v, m1) -> lookup_var x (m_scopes m1) = None ->
  interp code (S fuel) m = fail_here code ERuntime m1.
Proof. exact interp_assign_undeclared. Qed.
Print Assumptions C04_assign_undeclared_is_error.

Theorem C04_declaration_without_initialiser_is_nil : forall code fuel m x xp p,
  stmt_at code (m_pc m) = Some (FAssign AFirst x xp [] None p) -> m_scopes m <> [] ->
  exists m', interp code (S fuel) m = Ok m' /\ lookup_var x (m_scopes m') = Some VNil /\ m_pc m' = S (m_pc m) /\
             tl (m_scopes m') = tl (m_scopes m) /\ m_heap m' = m_heap m /\ m_out m' = m_out m.
Proof. exact interp_declare_nil. Qed.
Print Assumptions C04_declaration_without_initialiser_is_nil.

(* each loop iteration starts with a fresh body scope: under the frame invariant (which holds inside every function body and
   at every top-level boundary, C03) a continue -- the closing one or one taken anywhere in the body -- and the statement after
   it leave a NEW EMPTY scope on top of exactly the scopes that were open when the loop was entered *)
Theorem C04_each_iteration_starts_with_a_fresh_scope : forall code F fuel m p l ls, frame_static code F -> finv code F m ->
  stmt_at code (m_pc m) = Some (FContinue p) -> m_loops m = l :: ls -> m_loop_base m < length (m_loops m) ->
  exists m1, interp code (S fuel) m = Ok m1 /\
             interp code (S fuel) m1 = Ok (next (set_scopes m1 ([] :: m_scopes m1))) /\
             m_scopes m1 = truncate (l_depth l) (m_scopes m) /\ length (m_scopes m1) = l_depth l /\
             m_pc m1 = l_start l /\ m_loops m1 = m_loops m.
Proof. exact continue_then_fresh_scope. Qed.
Print Assumptions C04_each_iteration_starts_with_a_fresh_scope.

(* a block (and so every loop iteration, whose body is a block) starts with an empty scope and discards it at the end *)
Theorem C04_block_opens_fresh_scope : forall code fuel m p, stmt_at code (m_pc m) = Some (FBlockStart p) ->
  interp code (S fuel) m = Ok (next (set_scopes m ([] :: m_scopes m))).
Proof. exact interp_block_start. Qed.
Print Assumptions C04_block_opens_fresh_scope.

Theorem C04_block_end_discards_scope : forall code fuel m p s r, stmt_at code (m_pc m) = Some (FBlockEnd p) -> m_scopes m = s :: r -> r <> [] ->
  interp code (S fuel) m = Ok (next (set_scopes m r)).
Proof. exact interp_block_end. Qed.
Print Assumptions C04_block_end_discards_scope.
