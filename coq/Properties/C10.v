(** C10 -- The tokenizer is total and loses nothing: every character, the right line.
    This file only restates theorems proved under Proofs/ and prints their assumptions. *)
From Pakhi Require Import Base Float64 Syntax Tables Lexer.
From Pakhi.Proofs Require Import LexTotal LexLayout LexSpans.

Theorem C10_lexer_total : forall src file,
  match tokenize src file with
  | Ok ts => 1 <= length ts <= S (length src)
  | Err e => e_kind e = ESyntax /\ e_file e = file
  | Panic _ => False
  | OutOfFuel => False
  end.
Proof. exact lexer_total. Qed.
Print Assumptions C10_lexer_total.

(* On success the tokens in order account for every non-blank character of the source exactly once.
   [accounts file rest pos line ts] (Proofs/LexSpans.v) says: rest = blanks ++ text(t1) ++ blanks ++ text(t2) ++ ... ++ blanks,
   where text(t) is the lexeme (with its quotes for a string literal, the whole #...# block for a comment), the blanks are
   spaces, tabs, CRs and newlines only, each token's span is where its text stands, its line is the true line, and the
   list ends with the single end marker. *)
Theorem C10_tokens_account_for_every_character : forall src file ts,
  tokenize_spans src file = Ok ts -> accounts file src 0 1%N ts.
Proof. exact lexer_accounts_for_source. Qed.
Print Assumptions C10_tokens_account_for_every_character.

(* every token before the end marker carries the 1-based number of the line it is written on (1 + the number of
   newlines before its first character -- also after strings and comments that span lines), and its span holds its text *)
Theorem C10_line_numbers_and_spans : forall src file ts t st ln,
  tokenize_spans src file = Ok ts -> In (t, (st, ln)) ts -> t <> eot file ->
  t_line t = (1 + count_newlines (firstn st src))%N /\ firstn ln (skipn st src) = token_text t.
Proof. exact lexer_lines_and_spans. Qed.
Print Assumptions C10_line_numbers_and_spans.

(* one step of the tokenizer: a blank, or a token whose text is exactly the characters consumed *)
Theorem C10_one_token : forall rest line file prev t n l, rest <> [] ->
  consume rest line file prev = Ok (t, n, l) ->
  match t with
  | None => exists c r, rest = c :: r /\ is_blank c = true /\ n = 1 /\ l = count_newlines [c]
  | Some tk => firstn n rest = token_text tk /\ n = length (token_text tk) /\ t_line tk = line /\ t_file tk = file /\
               l = count_newlines (token_text tk) /\ tk <> eot file
  end.
Proof. exact consume_accounts. Qed.
Print Assumptions C10_one_token.

(* the plain token list is the span list without the spans *)
Theorem C10_tokenize_is_spans : forall src file, tokenize src file = (do ts <- tokenize_spans src file; Ok (map fst ts)).
Proof. reflexivity. Qed.
Print Assumptions C10_tokenize_is_spans.

(* the classification tables are the language's: regenerated from lexer.rs on every run and compared here *)
Theorem C10_keyword_table :
  map (fun w => assoc_text w keywords)
      [[2472;2494;2478]; [2479;2470;2495]; [2437;2469;2476;2494]; [2482;2497;2474]; [2475;2494;2434]; [2475;2503;2480;2468];
       [2469;2494;2478;2494;2451]; [2438;2476;2494;2480]; [2470;2503;2454;2494;2451]; [95;2470;2503;2454;2494;2451];
       [2488;2468;2509;2479]; [2478;2495;2469;2509;2479;2494]; [2478;2465;2495;2441;2482]]%N
  = map Some [TVar; TIf; TElse; TLoop; TFunction; TReturn; TBreak; TContinue; TPrint; TPrintNoEol; TBool true; TBool false; TImport]
  /\ length keywords = 13.
Proof. vm_compute. split; reflexivity. Qed.
Print Assumptions C10_keyword_table.

Theorem C10_operator_tables :
  map (fun c => assoc_N c single_ops) [43; 42; 47; 37; 38; 124; 64; 59; 44; 40; 41; 123; 125; 91; 93]%N
  = map Some [TPlus; TMul; TDiv; TRem; TAnd; TOr; TAt; TSemi; TComma; TLParen; TRParen; TLCurly; TRCurly; TLSquare; TRSquare]
  /\ length single_ops = 15 /\
  map (fun c => assoc_N c double_ops) [33; 61; 60; 62]%N
  = map Some [(61, TNotEq, TNot); (61, TEqEq, TEqual); (61, TLe, TLt); (61, TGe, TGt)]%N /\ length double_ops = 4.
Proof. vm_compute. repeat split; reflexivity. Qed.
Print Assumptions C10_operator_tables.
