(** C10 -- The tokenizer is total and loses nothing: every character, the right line.
    This file only restates theorems proved under Proofs/ and prints their assumptions. *)
From Pakhi Require Import Base Float64 Syntax Tables Lexer.
From Pakhi.Proofs Require Import LexTotal.

Theorem C10_lexer_total : forall src file,
  match tokenize src file with
  | Ok ts => 1 <= length ts <= S (length src)
  | Err e => e_kind e = ESyntax /\ e_file e = file
  | Panic _ => False
  | OutOfFuel => False
  end.
Proof. exact lexer_total. Qed.
Print Assumptions C10_lexer_total.
