(** C05 -- Calls bind by position, return the executed return value, and unwind cleanly. *)
From Pakhi Require Import Base Float64 Syntax Tables Lexer Interp.
From Pakhi.Proofs Require Import CallValue Assoc Scope Control WF WFOps FrameInv NoPanic SkelDefs Skeleton.
Local Open Scope nat_scope.

(* the value of a call: the callee's body ran from its opening brace with exactly the positional bindings in a fresh scope
   on top of the caller's; the call loop stopped with the cursor resting on the return statement that was executed; the
   call's value is the value of that statement's operand evaluated there *)
Theorem C05_call_value_is_the_executed_return_operand : forall code fuel name np args p m v m',
  is_builtin name = false ->
  eval code (S fuel) (ECall (EVar name np) args p) m = Ok (v, m') ->
  exists start params env m1 bp m3 re rp m4 ra rets,
    lookup_var name (m_scopes m) = Some (VFun start params) /\
    bind_args (eval code fuel) params args [] m = Ok (env, m1) /\
    stmt_at code start = Some (FBlockStart bp) /\
    call_loop code fuel (mkM start (env :: m_scopes m1) (m_loops m1) (length (m_loops m)) (m_pc m1 :: m_ret m1) (m_heap m1) (m_out m1) (m_world m1) (m_collections m1)) = Ok m3 /\
    stmt_at code (m_pc m3) = Some (FReturn re rp) /\
    eval code fuel re m3 = Ok (v, m4) /\
    m_ret m3 = ra :: rets /\ m_pc m' = ra /\ m_ret m' = rets /\ m_heap m' = m_heap m4 /\ m_out m' = m_out m4 /\ m_world m' = m_world m4.
Proof. exact call_value. Qed.
Print Assumptions C05_call_value_is_the_executed_return_operand.

(* a bare `ফেরত;` and the closing `ফেরত;` of a definition carry the nil literal (parser: ENil), whose value is nil *)
Theorem C05_bare_return_is_nil : forall code fuel q m, eval code (S fuel) (ENil q) m = Ok (VNil, m).
Proof. exact bare_return_is_nil. Qed.
Print Assumptions C05_bare_return_is_nil.

Theorem C05_arguments_bound_by_position : forall ev p ps a args env m v m1,
  ev a m = Ok (v, m1) -> bind_args ev (p :: ps) (a :: args) env m = bind_args ev ps args (alist_set p v env) m1.
Proof. exact bind_positional. Qed.
Print Assumptions C05_arguments_bound_by_position.

Theorem C05_missing_arguments_are_nil : forall ev ps env m,
  bind_args ev ps [] env m = Ok (fold_left (fun e p => alist_set p VNil e) ps env, m).
Proof. exact bind_missing_are_nil. Qed.
Print Assumptions C05_missing_arguments_are_nil.

Theorem C05_surplus_arguments_ignored : forall ev ps args extra env m,
  length args = length ps -> bind_args ev ps (args ++ extra) env m = bind_args ev ps args env m.
Proof. exact bind_surplus_ignored. Qed.
Print Assumptions C05_surplus_arguments_ignored.

Theorem C05_binding_is_kept : forall ev ps args env m env' m' x v,
  bind_args ev ps args env m = Ok (env', m') -> ~ In x ps -> alist_get x env = Some v -> alist_get x env' = Some v.
Proof. exact bind_args_keeps. Qed.
Print Assumptions C05_binding_is_kept.

(* after the call returns -- from any depth of blocks, conditionals and loops inside the callee, whatever it called --
   the caller's scope stack has its height at the call (the callee's scopes are the discarded prefix), the caller's loop
   base is reinstated and no loop entered by the callee is left on the loop stack *)
Theorem C05_call_unwinds : forall code fuel name np args p m v m',
  is_builtin name = false ->
  eval code (S fuel) (ECall (EVar name np) args p) m = Ok (v, m') ->
  length (m_scopes m') = length (m_scopes m) /\ m_loop_base m' = m_loop_base m /\
  length (m_loops m') <= length (m_loops m) /\
  (exists pre, exists m4, m_scopes m4 = pre ++ m_scopes m' /\ m_heap m' = m_heap m4 /\ m_out m' = m_out m4).
Proof. exact call_restores_heights. Qed.
Print Assumptions C05_call_unwinds.

(* rebinding a parameter or declaring a local in the callee acts on the callee's own scope, never on a caller's *)
Theorem C05_callee_declaration_is_local : forall x v ss ss', declare x v ss = Ok ss' -> tl ss' = tl ss /\ length ss' = length ss.
Proof. exact declare_outer_unchanged. Qed.
Print Assumptions C05_callee_declaration_is_local.

Theorem C05_parameter_rebinding_is_local : forall x v inner outer ss', alist_has x inner = true ->
  assign_var x v (inner :: outer) = Some ss' -> tl ss' = outer.
Proof. exact assign_inner_keeps_outer. Qed.
Print Assumptions C05_parameter_rebinding_is_local.

(* the general form: any expression -- with calls nested to any depth, recursion, returns from inside loops and blocks
   -- evaluated on a well-formed machine over a statement vector the parser can produce leaves the caller's program
   position, scope-stack height, loop stack, loop base and return stack exactly as they were *)
Theorem C05_expression_restores_caller : forall code, code_ok code -> forall fuel e m v m',
  mwf code m -> expr_ok e = true -> eval code fuel e m = Ok (v, m') ->
  m_pc m' = m_pc m /\ length (m_scopes m') = length (m_scopes m) /\ m_loops m' = m_loops m /\
  m_loop_base m' = m_loop_base m /\ m_ret m' = m_ret m.
Proof. exact eval_restores_caller. Qed.
Print Assumptions C05_expression_restores_caller.

(* while a body runs, the frame invariant holds at every statement: the scope-stack height is the height at the call
   plus the static block depth of the position *)
Theorem C05_frame_invariant_preserved : forall code, code_ok code -> forall fuel m m', mwf code m -> interp code fuel m = Ok m' ->
  mwf code m' /\ forall F, frame_static code F -> finv code F m -> finv code F m'.
Proof. exact interp_keeps_invariants. Qed.
Print Assumptions C05_frame_invariant_preserved.

(* an expression -- calls of any depth included -- leaves every scope of the caller with exactly the names it had, in the
   same order: nothing a callee declares (parameters, locals, nested functions) outlives the call, and nothing the caller
   had declared is lost; only values can change (a callee may assign to a caller's variable) *)
Theorem C05_calls_keep_the_names_of_every_scope : forall code, code_ok code -> forall fuel e m v m',
  mwf code m -> expr_ok e = true -> eval code fuel e m = Ok (v, m') -> skel (m_scopes m') = skel (m_scopes m).
Proof. exact expressions_keep_the_names_of_every_scope. Qed.
Print Assumptions C05_calls_keep_the_names_of_every_scope.

Theorem C05_visible_names_stay_visible : forall code, code_ok code -> forall fuel e m v m' x,
  mwf code m -> expr_ok e = true -> eval code fuel e m = Ok (v, m') ->
  holder x (m_scopes m') = holder x (m_scopes m) /\ (lookup_var x (m_scopes m') = None <-> lookup_var x (m_scopes m) = None).
Proof. exact visible_names_stay_visible. Qed.
Print Assumptions C05_visible_names_stay_visible.
