(** C09 -- Numbers keep their value across literal, print and conversion.
    PARTIAL.  Proved: the digit tables of the source are the intended bijections (regenerated and re-checked on every run);
    a literal's value is parse::<f64> of its ASCII spelling, converted once (no double rounding, leading zeros of the
    fraction are part of the spelling); _স্ট্রিং yields the same text as printing; infinities and NaN are unprintable;
    _সংখ্যা rejects what the float grammar rejects.
    NOT proved: that the model of parse::<f64> rounds to nearest-even (it is SpecFloat's binary_normalize / SFdiv on exact
    integers, whose correctness is Flocq's, not connected here), that the model of f64::to_string (flt2dec Dragon) prints
    shortest digits that read back to the same double, and the plain-decimal shape of the printed text.  These are Rust
    std functions: modelled, and tied by the f64 stream (bit-exact on >= 10^4 values per run) and by the numbers stream,
    whose direct check of read-back equality on the implementation is the test of the round-trip statement. *)
From Pakhi Require Import Base Float64 Syntax Tables Lexer Interp.
From Pakhi.Proofs Require Import Num.
Local Open Scope nat_scope.

Theorem C09_digit_tables :
  map (fun i => assoc_N (2534 + i) lexer_digits) [0;1;2;3;4;5;6;7;8;9]%N = map Some [0;1;2;3;4;5;6;7;8;9]%Z /\
  map (fun i => assoc_N (2534 + i) builtins_bn_to_en) [0;1;2;3;4;5;6;7;8;9]%N = map (fun i => Some (48 + i)%N) [0;1;2;3;4;5;6;7;8;9]%N /\
  map (fun i => assoc_N (48 + i) builtins_en_to_bn) [0;1;2;3;4;5;6;7;8;9]%N = map (fun i => Some (2534 + i)%N) [0;1;2;3;4;5;6;7;8;9]%N /\
  map (fun i => assoc_N (48 + i) print_char_map) [0;1;2;3;4;5;6;7;8;9]%N = map (fun i => Some (2534 + i)%N) [0;1;2;3;4;5;6;7;8;9]%N /\
  assoc_N 45 print_char_map = Some 45%N /\ assoc_N 46 print_char_map = Some 46%N /\
  length lexer_digits = 10 /\ length builtins_bn_to_en = 10 /\ length builtins_en_to_bn = 10 /\ length print_char_map = 12.
Proof. exact digit_tables. Qed.
Print Assumptions C09_digit_tables.

Theorem C09_literal_is_one_conversion_of_its_spelling : forall rest line file v n, consume_num rest line file = Ok (v, n) ->
  exists sign body s k, num_scan body false line file = Ok (s, k) /\ parse_f64 (sign ++ s) = Some v /\
    ((sign = [c_minus] /\ rest = c_minus :: body /\ n = S k) \/ (sign = [] /\ rest = body /\ n = k)).
Proof. exact literal_value. Qed.
Print Assumptions C09_literal_is_one_conversion_of_its_spelling.

Theorem C09_to_string_is_print : forall x s, to_bn_num x = Some s -> map_chars builtins_en_to_bn (f64_to_string x) = s.
Proof. exact to_string_is_print. Qed.
Print Assumptions C09_to_string_is_print.

Theorem C09_to_string_builtin : forall code m x, builtin_op code 0 [VNum x] m = Ok (VStr (map_chars builtins_en_to_bn (f64_to_string x)), m).
Proof. reflexivity. Qed.
Print Assumptions C09_to_string_builtin.

Theorem C09_nonfinite_unprintable : forall s, to_bn_num (S754_infinity s) = None /\ to_bn_num S754_nan = None.
Proof. exact nonfinite_unprintable. Qed.
Print Assumptions C09_nonfinite_unprintable.

Theorem C09_to_num_of_non_number_is_error : forall code m s, parse_f64 (map_chars builtins_bn_to_en s) = None ->
  builtin_op code 1 [VStr s] m = fail_here code ERuntime m.
Proof. exact to_num_rejects. Qed.
Print Assumptions C09_to_num_of_non_number_is_error.

Theorem C09_to_num_of_number : forall code m s x, parse_f64 (map_chars builtins_bn_to_en s) = Some x ->
  builtin_op code 1 [VStr s] m = Ok (VNum x, m).
Proof. exact to_num_accepts. Qed.
Print Assumptions C09_to_num_of_number.

(* regression instances of the statement: ১.০৫, ০.০০১, ২.২৮, ১.৫, -০ lex to the doubles nearest 1.05, 0.001, 2.28, 1.5, -0 *)
Theorem C09_literal_examples :
  map (fun s => option_map f64_to_bits (match tokenize s [] with Ok (t :: _) => match t_kind t with TNum x => Some x | _ => None end | _ => None end))
      [[2535;46;2534;2539]; [2534;46;2534;2534;2535]; [2536;46;2536;2542]; [2535;46;2539]; [45;2534]]%N
  = [Some 4607407598781385933; Some 4562254508917369340; Some 4612316522375219773; Some 4609434218613702656; Some 9223372036854775808]%Z.
Proof. exact literal_examples. Qed.
Print Assumptions C09_literal_examples.
