(** C09 -- Numbers keep their value across literal, print and conversion.
    PARTIAL.  Proved: the digit tables of the source are the intended bijections (regenerated and re-checked on every run);
    a literal's value is parse::<f64> of its ASCII spelling, converted once (no double rounding, leading zeros of the
    fraction are part of the spelling) -- and that value IS the double nearest to the decimal number the digits spell,
    ties to even (C09_literal_is_the_nearest_double, C09_plain_decimal_is_the_nearest_double: Proofs/NumNearest.v
    connects the model's two roundings, SpecFloat.binary_normalize and SpecFloat.SFdiv on the exact integers N and
    10^k, to Flocq's correctness theorems over the real numbers; this is the only place where the real-number axioms
    of Coq's standard library are used); the same holds for any plain decimal text given to _সংখ্যা; _স্ট্রিং yields the
    same text as printing; infinities and NaN are unprintable; _সংখ্যা rejects what the float grammar rejects.
    The printed text of every printable number is plain decimal -- optional '-', Bangla digits, optionally a point and
    more Bangla digits, never an exponent -- and the conversion built-in reads it as a number
    (C09_printed_text_is_plain_decimal, C09_printed_characters, C09_printed_text_reads_as_a_number; Proofs/NumShape.v).
    Every finite binary64 number IS printable (C09_finite_numbers_print_as_plain_decimal, Proofs/NumPrintable.v: every digit the
    shortest-representation model produces is a decimal digit -- the loop keeps remainder < scale, and the estimate of
    the decimal exponent is never too small, checked for all 2201 possible binary exponents by computation).
    Every number-producing operation of the model yields a valid binary64 from valid operands (C09_number_operations_preserve_validity,
    Proofs/NumValid.v, through Flocq's operations on binary_float) -- so the hypothesis of the printing theorem is met by
    every literal and by every result of arithmetic on valid numbers (the induction over whole runs that would put this
    into the machine invariant is not done: it would make every theorem about the machine depend on the real-number axioms).
    NOT proved: that the model of f64::to_string (flt2dec Dragon) prints shortest digits that read back to THE SAME
    double.  This is a Rust std function: modelled, and tied by the f64
    stream (bit-exact on >= 10^4 values per run) and by the numbers stream, whose direct check of read-back equality on
    the implementation is the test of the round-trip statement. *)
From Coq Require Import Reals.
From Flocq Require Import Core.Core IEEE754.BinarySingleNaN.
From Pakhi Require Import Base Float64 Syntax Tables Lexer Interp.
From Pakhi.Proofs Require Import Num NumText NumNearest NumShape NumPrintable NumValid.
Local Open Scope nat_scope.

Theorem C09_digit_tables :
  map (fun i => assoc_N (2534 + i) lexer_digits) [0;1;2;3;4;5;6;7;8;9]%N = map Some [0;1;2;3;4;5;6;7;8;9]%Z /\
  map (fun i => assoc_N (2534 + i) builtins_bn_to_en) [0;1;2;3;4;5;6;7;8;9]%N = map (fun i => Some (48 + i)%N) [0;1;2;3;4;5;6;7;8;9]%N /\
  map (fun i => assoc_N (48 + i) builtins_en_to_bn) [0;1;2;3;4;5;6;7;8;9]%N = map (fun i => Some (2534 + i)%N) [0;1;2;3;4;5;6;7;8;9]%N /\
  map (fun i => assoc_N (48 + i) print_char_map) [0;1;2;3;4;5;6;7;8;9]%N = map (fun i => Some (2534 + i)%N) [0;1;2;3;4;5;6;7;8;9]%N /\
  assoc_N 45 print_char_map = Some 45%N /\ assoc_N 46 print_char_map = Some 46%N /\
  length lexer_digits = 10 /\ length builtins_bn_to_en = 10 /\ length builtins_en_to_bn = 10 /\ length print_char_map = 12.
Proof. exact digit_tables. Qed.
Print Assumptions C09_digit_tables.

Theorem C09_literal_is_one_conversion_of_its_spelling : forall rest line file v n, consume_num rest line file = Ok (v, n) ->
  exists sign body s k, num_scan body false line file = Ok (s, k) /\ parse_f64 (sign ++ s) = Some v /\
    ((sign = [c_minus] /\ rest = c_minus :: body /\ n = S k) \/ (sign = [] /\ rest = body /\ n = k)).
Proof. exact literal_value. Qed.
Print Assumptions C09_literal_is_one_conversion_of_its_spelling.

Theorem C09_to_string_is_print : forall x s, to_bn_num x = Some s -> map_chars builtins_en_to_bn (f64_to_string x) = s.
Proof. exact to_string_is_print. Qed.
Print Assumptions C09_to_string_is_print.

Theorem C09_to_string_builtin : forall code m x, builtin_op code 0 [VNum x] m = Ok (VStr (map_chars builtins_en_to_bn (f64_to_string x)), m).
Proof. reflexivity. Qed.
Print Assumptions C09_to_string_builtin.

Theorem C09_nonfinite_unprintable : forall s, to_bn_num (S754_infinity s) = None /\ to_bn_num S754_nan = None.
Proof. exact nonfinite_unprintable. Qed.
Print Assumptions C09_nonfinite_unprintable.

Theorem C09_to_num_of_non_number_is_error : forall code m s, parse_f64 (map_chars builtins_bn_to_en s) = None ->
  builtin_op code 1 [VStr s] m = fail_here code ERuntime m.
Proof. exact to_num_rejects. Qed.
Print Assumptions C09_to_num_of_non_number_is_error.

Theorem C09_to_num_of_number : forall code m s x, parse_f64 (map_chars builtins_bn_to_en s) = Some x ->
  builtin_op code 1 [VStr s] m = Ok (VNum x, m).
Proof. exact to_num_accepts. Qed.
Print Assumptions C09_to_num_of_number.

(* regression instances of the statement: ১.০৫, ০.০০১, ২.২৮, ১.৫, -০ lex to the doubles nearest 1.05, 0.001, 2.28, 1.5, -0 *)
Theorem C09_literal_examples :
  map (fun s => option_map f64_to_bits (match tokenize s [] with Ok (t :: _) => match t_kind t with TNum x => Some x | _ => None end | _ => None end))
      [[2535;46;2534;2539]; [2534;46;2534;2534;2535]; [2536;46;2536;2542]; [2535;46;2539]; [45;2534]]%N
  = [Some 4607407598781385933; Some 4562254508917369340; Some 4612316522375219773; Some 4609434218613702656; Some 9223372036854775808]%Z.
Proof. exact literal_examples. Qed.
Print Assumptions C09_literal_examples.

(** a plain decimal text -- optional '-', integer digits, optionally a point and fraction digits -- denotes the binary64
    number nearest to the decimal number it spells, ties to even.  [decimal_text neg ip dotted fp] is the text,
    [dec_real neg N k] the real number (+-) N / 10^k, [rnd64] rounding to nearest-even in binary64 (Flocq's [round] with
    the format's exponent function), [SF2R radix2 v] the real value of the double v, [fits64] "no overflow". *)
Theorem C09_plain_decimal_is_the_nearest_double : forall neg ip dotted fp,
  all_digits ip -> all_digits fp -> ip ++ fp <> [] -> (dotted = false -> fp = []) ->
  let N := digits_val 0 (ip ++ fp) in
  let k := Z.of_nat (length fp) in
  (- 400 <= Z.of_nat (length (strip_zeros (ip ++ fp))) - k)%Z ->
  fits64 (dec_real neg N k) ->
  exists v, parse_f64 (decimal_text neg ip dotted fp) = Some v /\ SF2R radix2 v = rnd64 (dec_real neg N k).
Proof. exact plain_decimal_is_nearest. Qed.
Print Assumptions C09_plain_decimal_is_the_nearest_double.

(* texts with at most 300 integer digits do not overflow *)
Theorem C09_reasonable_text_fits : forall neg ip fp, all_digits ip -> all_digits fp -> (length ip <= 300)%nat ->
  fits64 (dec_real neg (digits_val 0 (ip ++ fp)) (Z.of_nat (length fp))).
Proof. exact reasonable_text_fits. Qed.
Print Assumptions C09_reasonable_text_fits.

(* the literal the lexer accepts: its token's value is that nearest double *)
Theorem C09_literal_is_the_nearest_double : forall rest line file v n, consume_num rest line file = Ok (v, n) ->
  exists neg ip dotted fp,
    all_digits ip /\ all_digits fp /\ ip ++ fp <> [] /\ (dotted = false -> fp = []) /\
    parse_f64 (decimal_text neg ip dotted fp) = Some v /\
    ((length ip <= 300)%nat -> (length fp <= 300)%nat ->
     SF2R radix2 v = rnd64 (dec_real neg (digits_val 0 (ip ++ fp)) (Z.of_nat (length fp)))).
Proof. exact literal_of_reasonable_length_is_nearest. Qed.
Print Assumptions C09_literal_is_the_nearest_double.

(** what a printed number looks like: [plain_ascii]: an optional '-', one or more digits, and -- if there is a point -- one
    or more digits after it; the printed text is that text with every digit replaced by its Bangla digit *)
Theorem C09_printed_text_is_plain_decimal : forall x s, to_bn_num x = Some s ->
  plain_ascii (f64_to_string x) /\ s = map_chars print_char_map (f64_to_string x).
Proof. exact printable_is_plain. Qed.
Print Assumptions C09_printed_text_is_plain_decimal.

Theorem C09_printed_characters : forall x s, to_bn_num x = Some s ->
  Forall (fun c => c = 45%N \/ c = 46%N \/ is_bn_digit c = true) s.
Proof. exact printed_characters. Qed.
Print Assumptions C09_printed_characters.

(* read back through the conversion built-in (which maps Bangla digits to ASCII and parses): always a number *)
Theorem C09_printed_text_reads_as_a_number : forall x s, to_bn_num x = Some s ->
  exists y, parse_f64 (map_chars builtins_bn_to_en s) = Some y.
Proof. exact printed_text_reads_as_a_number. Qed.
Print Assumptions C09_printed_text_reads_as_a_number.

(* the digits the shortest-representation model produces are never negative and there is at least one *)
Theorem C09_shortest_digits_are_digits : forall m e, let '(ds, _) := format_shortest m e in Forall (fun d => (0 <= d)%Z) ds /\ ds <> [].
Proof. exact format_shortest_digits. Qed.
Print Assumptions C09_shortest_digits_are_digits.

(** every finite number prints: [bounded prec emax m e] says (m, e) is a binary64 number (mantissa below 2^53, exponent in
    range, normalised); its text is plain decimal, in Bangla digits, and the conversion built-in reads it as a number *)
Theorem C09_finite_numbers_print_as_plain_decimal : forall sg m e, bounded Float64.prec Float64.emax m e = true ->
  exists s, to_bn_num (S754_finite sg m e) = Some s /\ plain_ascii (f64_to_string (S754_finite sg m e)) /\
            s = map_chars print_char_map (f64_to_string (S754_finite sg m e)) /\
            exists y, parse_f64 (map_chars builtins_bn_to_en s) = Some y.
Proof. exact finite_numbers_print_as_plain_decimal. Qed.
Print Assumptions C09_finite_numbers_print_as_plain_decimal.

Theorem C09_shortest_digits_are_decimal_digits : forall m e, bounded Float64.prec Float64.emax m e = true ->
  let '(ds, _) := format_shortest m e in Forall (fun d => (0 <= d <= 9)%Z) ds.
Proof. exact format_shortest_le9. Qed.
Print Assumptions C09_shortest_digits_are_decimal_digits.

(** the numbers of the model are binary64 numbers: [valid x] is SpecFloat's [valid_binary 53 1024 x = true] *)
Theorem C09_number_operations_preserve_validity :
  (forall x y, valid x -> valid y -> valid (f_add x y)) /\ (forall x y, valid x -> valid y -> valid (f_sub x y)) /\
  (forall x y, valid x -> valid y -> valid (f_mul x y)) /\ (forall x y, valid x -> valid y -> valid (f_div x y)) /\
  (forall x y, valid x -> valid y -> valid (f_rem x y)) /\ (forall x, valid x -> valid (f_neg x)) /\
  (forall n, valid (f_of_Z n)) /\ (forall s v, parse_f64 s = Some v -> valid v).
Proof.
  split; [exact f_add_valid|]. split; [exact f_sub_valid|]. split; [exact f_mul_valid|]. split; [exact f_div_valid|].
  split; [exact f_rem_valid|]. split; [exact f_neg_valid|]. split; [exact f_of_Z_valid|exact parse_f64_valid].
Qed.
Print Assumptions C09_number_operations_preserve_validity.

(* every literal the lexer accepts is a valid binary64 number, and every valid number that is not an infinity or NaN prints *)
Theorem C09_literals_are_valid_numbers : forall rest line file v n, consume_num rest line file = Ok (v, n) -> valid v.
Proof. exact literal_valid. Qed.
Print Assumptions C09_literals_are_valid_numbers.

Theorem C09_valid_finite_numbers_print : forall x, valid x -> (forall s, x <> S754_infinity s) -> x <> S754_nan ->
  exists s, to_bn_num x = Some s.
Proof. exact valid_numbers_print. Qed.
Print Assumptions C09_valid_finite_numbers_print.

Theorem C09_finite_arithmetic_results_print : forall x y r, valid x -> valid y ->
  r = f_add x y \/ r = f_sub x y \/ r = f_mul x y \/ r = f_div x y \/ r = f_rem x y \/ r = f_neg x ->
  finite64 r -> exists s, to_bn_num r = Some s.
Proof. exact arithmetic_results_print. Qed.
Print Assumptions C09_finite_arithmetic_results_print.

Theorem C09_finite_literals_print : forall rest line file v n,
  consume_num rest line file = Ok (v, n) -> finite64 v -> exists s, to_bn_num v = Some s.
Proof. exact finite_literals_print. Qed.
Print Assumptions C09_finite_literals_print.
