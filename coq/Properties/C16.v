(** C16 -- List built-ins behave like operations on a mathematical sequence.
    [builtin_op code k] is the operation that the built-in name dispatches to (table builtin_ops regenerated from
    call_built_in_function): 2 = _লিস্ট-পুশ, 3 = _লিস্ট-পপ, 4 = _লিস্ট-লেন.  [only_list_changed h h' a l']: list a
    holds l' and every other list, every record, the free lists and the allocation counter are unchanged. *)
From Pakhi Require Import Base Float64 Syntax Tables Lexer Interp.
From Pakhi.Proofs Require Import ListOps TableFacts ListHistory.
Local Open Scope nat_scope.

(* ANY history of the five operations, written as built-in calls on the list an alias holds (address [a]): the slot holds the
   sequence obtained by folding the abstract operations ([seq_step]: append, insert-at shifts the tail right, remove-last,
   remove-at shifts it left, length) over the initial one; rejected operations are errors that change nothing; every other
   list, every record, the output and the variables are untouched *)
Theorem C16_any_history : forall code a ops m l, nth_error (h_lists (m_heap m)) a = Some l ->
  let m' := run_ops code a ops m in
  nth_error (h_lists (m_heap m')) a = Some (seq_run ops l) /\
  (forall b, b <> a -> nth_error (h_lists (m_heap m')) b = nth_error (h_lists (m_heap m)) b) /\
  h_recs (m_heap m') = h_recs (m_heap m) /\ length (h_lists (m_heap m')) = length (h_lists (m_heap m)) /\
  m_out m' = m_out m /\ m_scopes m' = m_scopes m.
Proof. exact history. Qed.
Print Assumptions C16_any_history.

Theorem C16_length_after_any_history : forall code a ops m l, nth_error (h_lists (m_heap m)) a = Some l ->
  builtin_op code 4 [VList a] (run_ops code a ops m) = Ok (VNum (f_of_nat (length (seq_run ops l))), run_ops code a ops m).
Proof. exact length_after_history. Qed.
Print Assumptions C16_length_after_any_history.

(* each operation against its specification, including the rejected ones *)
Theorem C16_each_operation_meets_its_specification : forall code a o m l, nth_error (h_lists (m_heap m)) a = Some l ->
  match seq_step l o with
  | Some l' => exists v m', builtin_op code (fst (op_call a o)) (snd (op_call a o)) m = Ok (v, m') /\ same_but_heap m m' /\
                            only_list_changed (m_heap m) (m_heap m') a l' /\ (o = LLen -> v = VNum (f_of_nat (length l)))
  | None => exists e, builtin_op code (fst (op_call a o)) (snd (op_call a o)) m = Err e
  end.
Proof. exact op_step. Qed.
Print Assumptions C16_each_operation_meets_its_specification.

Example C16_history_instance :
  let one := VNum (f_of_nat 1) in let two := VNum (f_of_nat 2) in let three := VNum (f_of_nat 3) in
  seq_run [LAppend one; LAppend three; LInsert (f_of_nat 1) two; LRemove (f_of_nat 7); LPopLast; LRemove (f_of_nat 0); LLen] [] = [two].
Proof. vm_compute. reflexivity. Qed.

Theorem C16_append : forall code m a l, nth_error (h_lists (m_heap m)) a = Some l -> forall v,
  exists m', builtin_op code 2 [VList a; v] m = Ok (VNil, m') /\ same_but_heap m m' /\
             only_list_changed (m_heap m) (m_heap m') a (l ++ [v]).
Proof. exact push_appends. Qed.
Print Assumptions C16_append.

Theorem C16_insert_at : forall code m a l, nth_error (h_lists (m_heap m)) a = Some l -> forall x v i,
  valid_index x (S (length l)) = Some i ->
  exists m', builtin_op code 2 [VList a; VNum x; v] m = Ok (VNil, m') /\ same_but_heap m m' /\
             only_list_changed (m_heap m) (m_heap m') a (firstn i l ++ v :: skipn i l).
Proof. exact push_at_inserts. Qed.
Print Assumptions C16_insert_at.

Theorem C16_insert_at_invalid_position : forall code m a l, nth_error (h_lists (m_heap m)) a = Some l -> forall x v,
  valid_index x (S (length l)) = None -> builtin_op code 2 [VList a; VNum x; v] m = fail_here code ERuntime m.
Proof. exact push_at_invalid. Qed.
Print Assumptions C16_insert_at_invalid_position.

Theorem C16_remove_last : forall code m a l, nth_error (h_lists (m_heap m)) a = Some l ->
  exists m', builtin_op code 3 [VList a] m = Ok (VNil, m') /\ same_but_heap m m' /\
             only_list_changed (m_heap m) (m_heap m') a (removelast l).
Proof. exact pop_removes_last. Qed.
Print Assumptions C16_remove_last.

Theorem C16_remove_at : forall code m a l, nth_error (h_lists (m_heap m)) a = Some l -> forall x i,
  valid_index x (length l) = Some i ->
  exists m', builtin_op code 3 [VList a; VNum x] m = Ok (VNil, m') /\ same_but_heap m m' /\
             only_list_changed (m_heap m) (m_heap m') a (firstn i l ++ skipn (S i) l).
Proof. exact pop_at_removes. Qed.
Print Assumptions C16_remove_at.

Theorem C16_remove_at_invalid_position : forall code m a l, nth_error (h_lists (m_heap m)) a = Some l -> forall x,
  valid_index x (length l) = None -> builtin_op code 3 [VList a; VNum x] m = fail_here code ERuntime m.
Proof. exact pop_at_invalid. Qed.
Print Assumptions C16_remove_at_invalid_position.

Theorem C16_length : forall code m a l, nth_error (h_lists (m_heap m)) a = Some l ->
  builtin_op code 4 [VList a] m = Ok (VNum (f_of_nat (length l)), m).
Proof. exact len_counts. Qed.
Print Assumptions C16_length.

Theorem C16_non_list_argument_is_error : forall code m v w, (forall a, v <> VList a) ->
  builtin_op code 2 [v; w] m = fail_here code ERuntime m /\
  builtin_op code 3 [v] m = fail_here code ERuntime m /\
  builtin_op code 4 [v] m = fail_here code ERuntime m.
Proof. exact list_ops_reject_non_lists. Qed.
Print Assumptions C16_non_list_argument_is_error.

(* a valid position lies inside the list; NaN and negative positions are invalid *)
Theorem C16_valid_position : forall x len i, valid_index x len = Some i -> i < len.
Proof. exact valid_index_spec. Qed.
Print Assumptions C16_valid_position.

Theorem C16_nan_and_negative_positions_invalid : forall len mm e, valid_index S754_nan len = None /\ valid_index (S754_finite true mm e) len = None.
Proof. intros; split; reflexivity. Qed.
Print Assumptions C16_nan_and_negative_positions_invalid.

(* the names dispatch to these operations in the current source *)
Theorem C16_dispatch :
  assoc_text [95;2482;2495;2488;2509;2463;45;2474;2497;2486]%N builtin_ops = Some 2 /\
  assoc_text [95;2482;2495;2488;2509;2463;45;2474;2474]%N builtin_ops = Some 3 /\
  assoc_text [95;2482;2495;2488;2509;2463;45;2482;2503;2472]%N builtin_ops = Some 4.
Proof. vm_compute. repeat split. Qed.
Print Assumptions C16_dispatch.
