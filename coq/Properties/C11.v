(** C11 -- Layout does not matter: optional blanks, newlines and comments are inert.
    PARTIAL.  Proved on the tokenizer/parser model: a blank (space, tab, CR, newline) yields no token; the kinds and
    lexemes of all tokens are independent of the line and position counters; any run of leading blanks of any kind and
    length leaves the token sequence unchanged (applied at any token boundary the tokenizer has reached, this is "changing
    the amount or kind of whitespace between two tokens"); '-' directly after an operand-ending token is the binary
    operator; the parser drops comment tokens.  C11_only_reported_positions_move (Proofs/Compose.v, from Sim2.v): two
    statement vectors that differ only in the line/file metadata of their statements and expressions -- what two layouts
    of one token sequence produce -- run alike: same output, same world, same result, errors of the same kind located at
    the mapped position.  Proofs/LexFuse.v: one step of the tokenizer looks at the text of the token it makes and at most at
    one character behind it, and [nofuse prev p tail] names, per kind of token text p, what that character must not be;
    then the token is the same whatever follows (C11_token_boundary_is_local) and a run of blanks after it can be removed
    (C11_blanks_between_tokens_are_optional): removing blanks where the two tokens cannot fuse, for every pair of tokens.
    A comment block in front of any text is one comment token whatever follows (C11_comment_block_is_one_token), and the
    parser drops a comment token at a statement start (C11_parser_drops_comments): comment blocks between statements are
    inert.  Stream-only: which positions INSIDE a statement tolerate a comment (the parser drops them at statement starts
    only; the layout stream places them). *)
From Pakhi Require Import Base Float64 Syntax Tables Lexer Parser Interp.
From Pakhi.Proofs Require Import LexLayout LexSpans LexFuse WF Sim2Defs Sim2 Compose.
Local Open Scope nat_scope.

Theorem C11_only_reported_positions_move : forall pi code platform w fuel schedA schedB,
  code_ok code -> code <> [] ->
  match fst (run (map (smap idn pi) code) fuel schedA 0 (init_machine platform w)), fst (run code fuel schedB 0 (init_machine platform w)) with
  | OutOfFuel, _ | _, OutOfFuel => True
  | Ok nA, Ok nB => m_out nA = m_out nB ++ [] /\ m_world nA = m_world nB
  | Err eA, Err eB =>
      e_kind eA = e_kind eB /\ e_tag eA = e_tag eB /\ e_out eA = e_out eB ++ [] /\
      (mkPos (e_line eA) (e_file eA) = pi (mkPos (e_line eB) (e_file eB)) \/
       (e_kind eB = EUnexpected /\ e_line eA = e_line eB /\ e_file eA = e_file eB))
  | Panic sA, Panic sB => sA = sB
  | _, _ => False
  end.
Proof.
  intros pi code platform w fuel sA sB Hc Hne.
  apply (rename_invisible idn pi code platform w fuel sA sB Hc Hne); unfold idn; auto.
Qed.
Print Assumptions C11_only_reported_positions_move.

Theorem C11_blank_is_no_token : forall c r line file prev, is_blank c = true ->
  consume (c :: r) line file prev = Ok (None, 1, if N.eqb c 10 then 1%N else 0%N).
Proof. exact consume_blank. Qed.
Print Assumptions C11_blank_is_no_token.

Theorem C11_one_token_independent_of_line : forall rest l1 l2 file prev,
  same_step (consume rest l1 file prev) (consume rest l2 file prev).
Proof. exact consume_line_irrelevant. Qed.
Print Assumptions C11_one_token_independent_of_line.

Theorem C11_tokens_independent_of_line_and_position : forall fuel rest p1 p2 l1 l2 file prev,
  same_tokens (lex_loop fuel rest p1 l1 file prev) (lex_loop fuel rest p2 l2 file prev).
Proof. exact lex_loop_counters_irrelevant. Qed.
Print Assumptions C11_tokens_independent_of_line_and_position.

Theorem C11_any_run_of_blanks_is_inert : forall blanks, forallb is_blank blanks = true -> forall fuel rest pos line file prev,
  same_tokens (lex_loop (length blanks + fuel) (blanks ++ rest) pos line file prev) (lex_loop fuel rest pos line file prev).
Proof. exact leading_blanks_inert. Qed.
Print Assumptions C11_any_run_of_blanks_is_inert.

Theorem C11_minus_after_operand_is_binary : forall d r line file k,
  mem_N (tk_tag k) minus_binary_after = true -> N.eqb d c_gt = false ->
  consume (c_minus :: d :: r) line file (Some k) = Ok (Some (tok TMinus [c_minus] line file), 1, 0%N).
Proof. exact minus_after_operand_is_binary. Qed.
Print Assumptions C11_minus_after_operand_is_binary.

Theorem C11_operand_ending_tokens : forall x s b,
  mem_N (tk_tag (TNum x)) minus_binary_after = true /\ mem_N (tk_tag (TStr s)) minus_binary_after = true /\
  mem_N (tk_tag TIdent) minus_binary_after = true /\ mem_N (tk_tag (TBool b)) minus_binary_after = true /\
  mem_N (tk_tag TRParen) minus_binary_after = true /\ mem_N (tk_tag TRSquare) minus_binary_after = true.
Proof. exact operand_ending_kinds. Qed.
Print Assumptions C11_operand_ending_tokens.

(* ৫-১ : number, minus operator, number *)
Example C11_five_minus_one :
  option_map (map (fun t => tk_tag (t_kind t))) (match tokenize [2539; 45; 2535]%N [] with Ok ts => Some ts | _ => None end)
  = Some [0; 9; 0; 41]%N.
Proof. vm_compute. reflexivity. Qed.

Theorem C11_parser_drops_comments : forall fs cwd main_path fuel s p, pos_here s = Ok p -> tk_is (hk s) TComment = true ->
  pstmt fs cwd main_path (S fuel) s = pstmt fs cwd main_path fuel (adv s).
Proof. exact parser_drops_comments. Qed.
Print Assumptions C11_parser_drops_comments.

(* a comment block is one token (C10_one_token) whose text is the whole #...# block: the parser never sees its inside *)

(** removing a blank where two tokens cannot fuse.  [nofuse prev p tail]: p is the text of a token, tail what follows;
    a number must not be followed by a digit or '.', a lone '-' not by '>' nor -- unless it follows an operand -- by a
    digit, the one-character form of a two-character operator not by its second character, an identifier or keyword
    not by an identifier character; strings, comments and the other operators by anything *)
Theorem C11_token_boundary_is_local : forall rest line file prev tk n dl, consume rest line file prev = Ok (Some tk, n, dl) ->
  forall tail', nofuse prev (firstn n rest) tail' ->
  consume (firstn n rest ++ tail') line file prev = Ok (Some tk, n, dl).
Proof. exact consume_local. Qed.
Print Assumptions C11_token_boundary_is_local.

Theorem C11_blanks_between_tokens_are_optional : forall p blanks tail line file prev tk dl,
  consume (p ++ blanks ++ tail) line file prev = Ok (Some tk, length p, dl) ->
  forallb is_blank blanks = true -> nofuse prev p tail ->
  forall fuel pos,
    same_tokens (lex_loop (S (length blanks + fuel)) (p ++ blanks ++ tail) pos line file prev)
                (lex_loop (S fuel) (p ++ tail) pos line file prev).
Proof. exact blanks_between_tokens_are_optional. Qed.
Print Assumptions C11_blanks_between_tokens_are_optional.

(* the examples of the property text: in `৫-১` the number ৫ may be followed by '-', and the '-' -- after a number, a closing
   bracket or a closing parenthesis -- by the digit ১; in `নাম-১` nothing may be removed (the '-' would be part of the name) *)
Example C11_nofuse_examples :
  nofuse None [2539]%N [45; 2535]%N /\ nofuse (Some (TNum (S754_zero false))) [45]%N [2535]%N /\
  nofuse (Some TRSquare) [45]%N [2535]%N /\ nofuse (Some TRParen) [45]%N [2535]%N /\
  ~ nofuse (Some TEqual) [45]%N [2535]%N /\ ~ nofuse None [2472; 2494; 2478]%N [45; 2535]%N.
Proof.
  unfold nofuse, stops_num, ahead. vm_compute. repeat split; auto; intros H; repeat match goal with H : _ /\ _ |- _ => destruct H end; try discriminate.
  all: match goal with H : _ \/ _ |- _ => destruct H; discriminate end.
Qed.

(* a comment block that is a token on its own is the same token in front of any text *)
Theorem C11_comment_block_is_one_token : forall c rest line file prev tk l,
  consume (c_hash :: c) line file prev = Ok (Some tk, S (length c), l) ->
  consume (c_hash :: c ++ rest) line file prev = Ok (Some tk, S (length c), l) /\ t_kind tk = TComment.
Proof. exact comment_in_front. Qed.
Print Assumptions C11_comment_block_is_one_token.
