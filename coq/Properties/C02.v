(** C02 -- An if / else-if / else chain runs exactly one branch, in any context.
    The theorems are one-step lemmas of the flat statement machine that hold for EVERY machine state m: the
    successor depends on the code around the program counter and on the value of the condition only, so neither the
    context of the chain nor any earlier conditional, return or break can influence which branch runs (the machine
    has no field in which they could leave a flag).  Composing the steps over a whole chain needs the structured
    refinement theorem R of DESIGN.md (not proved); that composition is covered by the chains stream. *)
From Pakhi Require Import Base Float64 Syntax Tables Lexer Interp.
From Pakhi.Proofs Require Import Control.
Local Open Scope nat_scope.

(* skipping a block lands after the matching close, whatever is nested in it *)
Theorem C02_skip_block_lands_after : forall code pre p body q post m,
  code = pre ++ FBlockStart p :: body ++ FBlockEnd q :: post -> balanced body ->
  skip_block_from code m (length pre) = Ok (length pre + length body + 2).
Proof. exact skip_block_lands_after. Qed.
Print Assumptions C02_skip_block_lands_after.

(* a true condition: exactly its block is entered *)
Theorem C02_true_condition_enters_block : forall code fuel m c p m1, stmt_at code (m_pc m) = Some (FIf c p) ->
  eval code fuel c m = Ok (VBool true, m1) -> interp code (S fuel) m = Ok (next m1).
Proof. exact if_true. Qed.
Print Assumptions C02_true_condition_enters_block.

(* a false condition: its block is skipped; the next thing executed is the next condition of the chain, the else
   block, or the statement after the chain when there is no else *)
Theorem C02_false_condition_moves_to_next_branch : forall code fuel m c p m1 pre bp body bq post,
  code = pre ++ FIf c p :: FBlockStart bp :: body ++ FBlockEnd bq :: post -> balanced body ->
  m_pc m = length pre -> m_pc m1 = m_pc m ->
  eval code fuel c m = Ok (VBool false, m1) ->
  interp code (S fuel) m =
    Ok (set_pc m1 (match post with FElse _ :: _ => length pre + length body + 4 | _ => length pre + length body + 3 end)).
Proof. exact if_false. Qed.
Print Assumptions C02_false_condition_moves_to_next_branch.

(* after a branch has run (the only way an else statement is reached), every remaining branch is skipped, no further
   condition is evaluated, nothing but the program counter changes, and execution continues after the whole chain *)
Theorem C02_after_a_branch_the_rest_is_skipped : forall code fuel m ep pre tail post,
  code = pre ++ FElse ep :: tail ++ post -> chain_tail tail -> not_else post -> m_pc m = length pre ->
  interp code (S fuel) m = Ok (set_pc m (length pre + 1 + length tail)).
Proof. exact else_skips_rest_of_chain. Qed.
Print Assumptions C02_after_a_branch_the_rest_is_skipped.

(* a non-boolean condition is a runtime error located at the condition *)
Theorem C02_non_boolean_condition_is_error : forall code fuel m c p v m1, stmt_at code (m_pc m) = Some (FIf c p) ->
  eval code fuel c m = Ok (v, m1) -> (forall b, v <> VBool b) ->
  interp code (S fuel) m = fail_at ERuntime (expr_pos c) m1.
Proof. exact if_non_boolean. Qed.
Print Assumptions C02_non_boolean_condition_is_error.

(* non-vacuity: a three-way chain with an else is a [chain_tail] after its first else *)
Example C02_chain_shape_exists : forall c p q,
  chain_tail [FIf c p; FBlockStart q; FPrint c p; FBlockEnd q; FElse q; FBlockStart q; FBlockEnd q].
Proof.
  intros. apply (ct_more_if c p q [FPrint c p] q q [FBlockStart q; FBlockEnd q]).
  - apply bal_plain; [reflexivity|reflexivity|apply bal_nil].
  - apply (ct_last q [] q). apply bal_nil.
Qed.
