(** C02 -- An if / else-if / else chain runs exactly one branch, in any context.
    The theorems are one-step lemmas of the flat statement machine that hold for EVERY machine state m: the
    successor depends on the code around the program counter and on the value of the condition only, so neither the
    context of the chain nor any earlier conditional, return or break can influence which branch runs (the machine
    has no field in which they could leave a flag).  Proofs/ChainWalk.v composes them over a whole chain of any length
    (C02_chain_selects_first_true, C02_all_false_reaches_else, C02_all_false_without_else_continues_after_chain): the
    conditions are evaluated in order, each from the state its predecessor's evaluation left, the walk stops at the first
    true one and enters exactly its block; with C02_after_a_branch_the_rest_is_skipped (the block's normal end falls on the
    chain's next else, which jumps behind the chain) this is the property for every chain, context and history.
    Proofs/BlockRun.v closes the last gap: the selected block RUNS ALONE (C02_a_block_runs_alone) -- whatever it contains,
    every statement executed after its opening brace is one of its own until the machine leaves through its closing
    brace (arriving right behind it -- on the chain's next else, or behind the chain -- with the loop stack and the
    scope height it had at the opening brace) or by the break / continue of a loop that was open before (or with an
    error); it never lands in another branch. *)
From Pakhi Require Import Base Float64 Syntax Tables Lexer Interp.
From Pakhi.Proofs Require Import Control ChainWalk Frames WF WFOps FrameInv Shape BlockRun ChainRun.
Local Open Scope nat_scope.

(* a whole chain: conditions c_1 .. c_k false, c_{k+1} true -- k+1 statements later the machine is at the opening brace of
   branch k+1, in the state the evaluation of c_{k+1} left; no other condition was evaluated, no block entered *)
Theorem C02_chain_selects_first_true : forall code fuel fs b post m m' m1 pre,
  code = pre ++ false_prefix fs ++ br_code b ++ post -> Forall (fun be => balanced (br_body (fst be))) fs ->
  m_pc m = length pre -> falses code fuel fs m m' ->
  eval code fuel (br_c b) m' = Ok (VBool true, m1) ->
  steps code fuel (S (length fs)) m = Ok (next m1) /\
  (m_pc m1 = m_pc m' -> m_pc (next m1) = length pre + length (false_prefix fs) + 1 /\
                        stmt_at code (m_pc (next m1)) = Some (FBlockStart (br_bp b))).
Proof. exact chain_selects_first_true. Qed.
Print Assumptions C02_chain_selects_first_true.

(* every condition false and a final else: the machine stands at the else block *)
Theorem C02_all_false_reaches_else : forall code fuel fs bp body bq post m m' pre,
  code = pre ++ false_prefix fs ++ FBlockStart bp :: body ++ FBlockEnd bq :: post ->
  Forall (fun be => balanced (br_body (fst be))) fs -> m_pc m = length pre -> falses code fuel fs m m' ->
  steps code fuel (length fs) m = Ok m' /\ stmt_at code (m_pc m') = Some (FBlockStart bp).
Proof. exact chain_all_false_reaches_else. Qed.
Print Assumptions C02_all_false_reaches_else.

(* every condition false and no else: nothing runs, execution continues with the statement after the whole chain *)
Theorem C02_all_false_without_else_continues_after_chain : forall code fuel fs b post m m' m1 pre,
  code = pre ++ false_prefix fs ++ br_code b ++ post -> not_else post ->
  Forall (fun be => balanced (br_body (fst be))) fs -> balanced (br_body b) ->
  m_pc m = length pre -> falses code fuel fs m m' ->
  eval code fuel (br_c b) m' = Ok (VBool false, m1) -> m_pc m1 = m_pc m' ->
  steps code fuel (S (length fs)) m = Ok (set_pc m1 (length pre + length (false_prefix fs) + length (br_code b))).
Proof. exact chain_all_false_no_else. Qed.
Print Assumptions C02_all_false_without_else_continues_after_chain.

(* non-vacuity: `যদি মিথ্যা {দেখাও ..} অথবা যদি সত্য {} অথবা {}` from the initial machine *)
Example C02_chain_walk_instance :
  let p := mkPos 1 [] in
  let b1 := mkBr (EBool false p) p p [FPrint (EBool true p) p] p in
  let b2 := mkBr (EBool true p) p p [] p in
  let code := br_code b1 ++ FElse p :: br_code b2 ++ [FElse p; FBlockStart p; FBlockEnd p; FEOS p] in
  let m0 := init_machine [] (mkWorld [] [] []) in
  exists m', falses code 3 [(b1, p)] m0 m' /\ steps code 3 2 m0 = Ok (next m') /\ m_pc (next m') = 6 /\ m_out (next m') = [].
Proof.
  cbv zeta. eexists. split; [|split; [|split]].
  - eapply f_cons; [reflexivity|reflexivity|apply f_nil].
  - vm_compute. reflexivity.
  - reflexivity.
  - reflexivity.
Qed.

(* skipping a block lands after the matching close, whatever is nested in it *)
Theorem C02_skip_block_lands_after : forall code pre p body q post m,
  code = pre ++ FBlockStart p :: body ++ FBlockEnd q :: post -> balanced body ->
  skip_block_from code m (length pre) = Ok (length pre + length body + 2).
Proof. exact skip_block_lands_after. Qed.
Print Assumptions C02_skip_block_lands_after.

(* a true condition: exactly its block is entered *)
Theorem C02_true_condition_enters_block : forall code fuel m c p m1, stmt_at code (m_pc m) = Some (FIf c p) ->
  eval code fuel c m = Ok (VBool true, m1) -> interp code (S fuel) m = Ok (next m1).
Proof. exact if_true. Qed.
Print Assumptions C02_true_condition_enters_block.

(* a false condition: its block is skipped; the next thing executed is the next condition of the chain, the else
   block, or the statement after the chain when there is no else *)
Theorem C02_false_condition_moves_to_next_branch : forall code fuel m c p m1 pre bp body bq post,
  code = pre ++ FIf c p :: FBlockStart bp :: body ++ FBlockEnd bq :: post -> balanced body ->
  m_pc m = length pre -> m_pc m1 = m_pc m ->
  eval code fuel c m = Ok (VBool false, m1) ->
  interp code (S fuel) m =
    Ok (set_pc m1 (match post with FElse _ :: _ => length pre + length body + 4 | _ => length pre + length body + 3 end)).
Proof. exact if_false. Qed.
Print Assumptions C02_false_condition_moves_to_next_branch.

(* after a branch has run (the only way an else statement is reached), every remaining branch is skipped, no further
   condition is evaluated, nothing but the program counter changes, and execution continues after the whole chain *)
Theorem C02_after_a_branch_the_rest_is_skipped : forall code fuel m ep pre tail post,
  code = pre ++ FElse ep :: tail ++ post -> chain_tail tail -> not_else post -> m_pc m = length pre ->
  interp code (S fuel) m = Ok (set_pc m (length pre + 1 + length tail)).
Proof. exact else_skips_rest_of_chain. Qed.
Print Assumptions C02_after_a_branch_the_rest_is_skipped.

(* a non-boolean condition is a runtime error located at the condition *)
Theorem C02_non_boolean_condition_is_error : forall code fuel m c p v m1, stmt_at code (m_pc m) = Some (FIf c p) ->
  eval code fuel c m = Ok (v, m1) -> (forall b, v <> VBool b) ->
  interp code (S fuel) m = fail_at ERuntime (expr_pos c) m1.
Proof. exact if_non_boolean. Qed.
Print Assumptions C02_non_boolean_condition_is_error.

(** the selected block runs alone.  [inblk a z L0 m]: the position is after the opening brace at [a] and before [z], the
    position behind the closing brace; the loops entered since lie inside (a, z), below them the loop stack [L0] of the
    moment of entry.  [left_block]: at [z] with loop stack [L0], or at a break / continue with loop stack [L0]. *)
Theorem C02_a_block_is_a_region : forall code pre p body q post, code = pre ++ FBlockStart p :: body ++ FBlockEnd q :: post ->
  balanced body -> region code (length pre) (length pre + length body + 2).
Proof. exact region_of_block. Qed.
Print Assumptions C02_a_block_is_a_region.

Theorem C02_through_the_opening_brace : forall code F a z p f m m',
  finv code F m -> region code a z -> stmt_at code a = Some (FBlockStart p) -> m_pc m = a ->
  interp code f m = Ok m' -> inblk a z (m_loops m) m' /\ exists outer, m_loops m = outer ++ f_lower F.
Proof. exact block_enter. Qed.
Print Assumptions C02_through_the_opening_brace.

Theorem C02_a_block_runs_alone : forall code, code_ok code -> forall fuel F a z L0 outer,
  frame_static code F -> region code a z -> L0 = outer ++ f_lower F ->
  forall n m m', mwf code m -> finv code F m -> inblk a z L0 m -> steps code fuel n m = Ok m' ->
  inblk a z L0 m' \/
  exists k mk, k <= n /\ steps code fuel k m = Ok mk /\ left_block code a z L0 mk /\
               forall j mj, j < k -> steps code fuel j m = Ok mj -> inblk a z L0 mj.
Proof. exact block_run. Qed.
Print Assumptions C02_a_block_runs_alone.

Theorem C02_one_statement_inside_a_block : forall code, code_ok code -> forall F a z L0 outer f m m',
  mwf code m -> finv code F m -> region code a z -> L0 = outer ++ f_lower F -> inblk a z L0 m ->
  interp code f m = Ok m' ->
  inblk a z L0 m' \/
  (m_pc m' = z /\ m_loops m' = L0 /\ exists p, stmt_at code (m_pc m) = Some (FBlockEnd p)) \/
  (m_loops m = L0 /\ exists p, stmt_at code (m_pc m) = Some (FBreak p) \/ stmt_at code (m_pc m) = Some (FContinue p)).
Proof. exact block_step. Qed.
Print Assumptions C02_one_statement_inside_a_block.

Theorem C02_block_end_restores_the_scope_height : forall code F a z m0 m, finv code F m0 -> finv code F m ->
  region code a z -> m_pc m0 = a -> m_pc m = z -> length (m_scopes m) = length (m_scopes m0).
Proof. exact block_end_height. Qed.
Print Assumptions C02_block_end_restores_the_scope_height.

(** the property in one theorem: conditions c_1..c_k false and c_{k+1} true, inside any frame (function body or top level)
    whose invariant holds -- it does at every statement boundary of every run, C03_frame_invariant_at_every_top_level_boundary,
    interp_keeps_invariants --: after k+1 statements the machine is at the opening brace [a] of branch k+1, after k+2 inside
    that branch, and from then on, for any number n of further statements, it is still inside the branch or it has left it
    -- at [z], the position behind its closing brace (the chain's next else, or the statement after the chain), with the
    loop stack it had at the opening brace, or at a break / continue of a loop around the chain -- having been inside the
    branch at every statement before *)
Theorem C02_chain_runs_the_selected_branch_alone : forall code, code_ok code -> forall fuel F fs b post m m' m1 pre,
  frame_static code F -> mwf code m -> finv code F m ->
  code = pre ++ false_prefix fs ++ br_code b ++ post ->
  Forall (fun be => balanced (br_body (fst be))) fs -> balanced (br_body b) ->
  m_pc m = length pre -> falses code fuel fs m m' ->
  eval code fuel (br_c b) m' = Ok (VBool true, m1) ->
  let a := length pre + length (false_prefix fs) + 1 in
  let z := length pre + length (false_prefix fs) + length (br_code b) in
  exists m2 m3,
    steps code fuel (S (length fs)) m = Ok m2 /\ m_pc m2 = a /\ stmt_at code a = Some (FBlockStart (br_bp b)) /\
    steps code fuel (S (S (length fs))) m = Ok m3 /\ inblk a z (m_loops m2) m3 /\
    stmt_at code z = nth_error post 0 /\
    forall n m4, steps code fuel n m3 = Ok m4 ->
      inblk a z (m_loops m2) m4 \/
      exists k mk, k <= n /\ steps code fuel k m3 = Ok mk /\ left_block code a z (m_loops m2) mk /\
                   forall j mj, j < k -> steps code fuel j m3 = Ok mj -> inblk a z (m_loops m2) mj.
Proof. exact chain_runs_the_selected_branch_alone. Qed.
Print Assumptions C02_chain_runs_the_selected_branch_alone.

(* non-vacuity: a three-way chain with an else is a [chain_tail] after its first else *)
Example C02_chain_shape_exists : forall c p q,
  chain_tail [FIf c p; FBlockStart q; FPrint c p; FBlockEnd q; FElse q; FBlockStart q; FBlockEnd q].
Proof.
  intros. apply (ct_more_if c p q [FPrint c p] q q [FBlockStart q; FBlockEnd q]).
  - apply bal_plain; [reflexivity|reflexivity|apply bal_nil].
  - apply (ct_last q [] q). apply bal_nil.
Qed.
