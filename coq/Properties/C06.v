(** C06 -- Lists and records are shared by reference; indexed write then read agree. *)
From Pakhi Require Import Base Float64 Syntax Tables Lexer Interp.
From Pakhi.Proofs Require Import Assoc Scope ListOps HeapRW Unfold PathRW WF WFOps SkelDefs Skeleton.
Local Open Scope nat_scope.

(* Reference semantics: a value of list or record type *is* an address (VList a / VRec a).  Declaring another
   variable from it copies the address and nothing in the heap: both names now denote the same container, so any
   mutation through one (which goes to the heap at that address) is what the other reads.  Numbers, strings and
   booleans carry their payload in the value itself, so they are copied. *)
Theorem C06_alias_copies_the_address : forall code fuel m x y yp xp p v,
  stmt_at code (m_pc m) = Some (FAssign AFirst y yp [] (Some (EVar x xp)) p) ->
  lookup_var x (m_scopes m) = Some v -> m_scopes m <> [] -> y <> x ->
  exists m', interp code (S (S fuel)) m = Ok m' /\
             lookup_var y (m_scopes m') = Some v /\ lookup_var x (m_scopes m') = Some v /\ m_heap m' = m_heap m.
Proof.
  intros code fuel m x y yp xp p v Hs Hx Hne Hxy. rewrite interp_S. unfold interp_step. rewrite Hs.
  rewrite eval_S. unfold eval_step. rewrite Hx. cbn [bind].
  destruct (m_scopes m) as [|s r] eqn:E; [congruence|]. cbn [declare bind].
  eexists. split; [reflexivity|]. cbn [m_scopes set_scopes next set_pc m_heap]. split; [|split; [|reflexivity]].
  - simpl. rewrite alist_get_set_same. reflexivity.
  - rewrite <- Hx. simpl. rewrite alist_get_set_other by congruence. reflexivity.
Qed.
Print Assumptions C06_alias_copies_the_address.

(* x[i1]..[in] = v replaces exactly the addressed element of the container the path leads to (adds the key for a
   record); [put_list]/[put_rec] change that one arena slot only (C06_only_that_container_changes) *)
Theorem C06_indexed_write : forall pre m c ix v p m',
  assign_path m c (pre ++ [ix]) v p = Ok m' ->
  exists t, resolve (m_heap m) c pre = Some t /\
    match t, ix with
    | VList a, IxNum x => exists l i, nth_error (h_lists (m_heap m)) a = Some l /\ valid_index x (length l) = Some i /\
                                      m' = set_heap m (put_list (m_heap m) a (list_set l i v))
    | VRec a, IxKey k => exists r, nth_error (h_recs (m_heap m)) a = Some r /\
                                   m' = set_heap m (put_rec (m_heap m) a (alist_set k v r))
    | _, _ => False
    end.
Proof. exact assign_path_spec. Qed.
Print Assumptions C06_indexed_write.

Theorem C06_only_that_container_changes : forall h a l l' b r r',
  (nth_error (h_lists h) a = Some l -> only_list_changed h (put_list h a l') a l') /\
  (nth_error (h_recs h) b = Some r -> only_rec_changed h (put_rec h b r') b r').
Proof. intros. split; [apply put_list_spec|apply put_rec_spec]. Qed.
Print Assumptions C06_only_that_container_changes.

(* reading the same cell yields v, every other cell of that container is unchanged *)
Theorem C06_read_back : forall (l : list value) (r : list (text * value)) i j k k' v,
  (i < length l -> nth i (list_set l i v) VNil = v) /\ (i <> j -> nth j (list_set l i v) VNil = nth j l VNil) /\
  alist_get k (alist_set k v r) = Some v /\ (k' <> k -> alist_get k' (alist_set k v r) = alist_get k' r).
Proof.
  intros. split; [apply read_back_list|split; [apply read_back_other|split; [apply read_back_rec|apply read_back_rec_other]]].
Qed.
Print Assumptions C06_read_back.

(* + on two lists yields a new list whose address is neither operand's; the operands keep their contents, so later
   growth or element replacement of either never shows through the other *)
Theorem C06_concat_fresh : forall h la lb a b,
  nth_error (h_lists h) a = Some la -> nth_error (h_lists h) b = Some lb ->
  ~ In a (h_free_lists h) -> ~ In b (h_free_lists h) ->
  (forall f, In f (h_free_lists h) -> f < length (h_lists h)) ->
  let '(c, h') := alloc_list h (la ++ lb) in
  c <> a /\ c <> b /\ nth_error (h_lists h') c = Some (la ++ lb) /\
  nth_error (h_lists h') a = Some la /\ nth_error (h_lists h') b = Some lb /\ h_recs h' = h_recs h.
Proof. exact concat_fresh. Qed.
Print Assumptions C06_concat_fresh.

(* push and pop through any alias act on the one container at that address (C16 has the full set) *)
Theorem C06_push_through_alias : forall code m a l, nth_error (h_lists (m_heap m)) a = Some l -> forall v,
  exists m', builtin_op code 2 [VList a; v] m = Ok (VNil, m') /\ same_but_heap m m' /\
             only_list_changed (m_heap m) (m_heap m') a (l ++ [v]).
Proof. exact push_appends. Qed.
Print Assumptions C06_push_through_alias.

(* whole paths, every alias, every heap (cyclic and shared ones included): after x[i1]..[in] = v, ANY path from ANY root that
   leads to the written container and then takes the written index reads v -- the same path, or one through an alias
   created by assignment, argument passing, return or nesting: an alias is the same address --, and any path that does
   not read the written cell reads what it read before.  [avoids] excludes only paths that go THROUGH the written cell
   (x[0] = x; x[0][0] = 5), for which C06_path_through_the_written_cell shows the exclusion is necessary. *)
Theorem C06_write_then_read_any_path : forall pre m c ix v p m',
  assign_path m c (pre ++ [ix]) v p = Ok m' ->
  exists t w, resolve (m_heap m) c pre = Some t /\
    (forall c2 q, resolve (m_heap m) c2 q = Some t -> avoids (m_heap m) w c2 q -> resolve (m_heap m') c2 (q ++ [ix]) = Some v) /\
    (forall c2 q, avoids (m_heap m) w c2 q -> resolve (m_heap m') c2 q = resolve (m_heap m) c2 q) /\
    same_but_heap m m'.
Proof. exact write_then_read_any_path. Qed.
Print Assumptions C06_write_then_read_any_path.

Theorem C06_path_through_the_written_cell :
  let h := mkHeap [[VList 0; VBool true]] [] [] [] 1 in
  let five := VStr [53%N] in
  resolve h (VList 0) [IxNum f_zero] = Some (VList 0) /\
  ~ avoids h (CL 0 0) (VList 0) [IxNum f_zero] /\
  resolve (write h (CL 0 0) five) (VList 0) [IxNum f_zero; IxNum f_zero] = None /\
  resolve (write h (CL 0 0) five) (VList 0) [IxNum f_zero] = Some five.
Proof. exact path_through_the_written_cell. Qed.
Print Assumptions C06_path_through_the_written_cell.

(* the statement as a whole, and the read expression x[i1]..[in] as the same walk *)
Theorem C06_indexed_assignment_statement : forall code fuel m x xp i0 idx e p m',
  stmt_at code (m_pc m) = Some (FAssign AReassign x xp (i0 :: idx) (Some e) p) ->
  interp code (S fuel) m = Ok m' ->
  exists v m1 c pre ix m2 t w,
    eval code fuel e m = Ok (v, m1) /\ lookup_var x (m_scopes m1) <> None /\
    eval_indexes (eval code fuel) (i0 :: idx) m1 = Ok (pre ++ [ix], m2) /\
    lookup_var x (m_scopes m2) = Some c /\
    resolve (m_heap m2) c pre = Some t /\ selects (m_heap m2) w t ix /\
    m' = next (set_heap m2 (write (m_heap m2) w v)).
Proof. exact indexed_assignment_statement. Qed.
Print Assumptions C06_indexed_assignment_statement.

Theorem C06_index_expression_reads_the_path : forall code is path b m c t,
  stable code b m c -> Forall2 (fun ip ix => stable code (fst ip) m (index_value ix)) is path ->
  resolve (m_heap m) c path = Some t ->
  forall fuel, eval code (S (length is + fuel)) (index_chain b is) m = Ok (t, m).
Proof. exact index_chain_reads_the_path. Qed.
Print Assumptions C06_index_expression_reads_the_path.

(* the container written by  x[i1]..[in] = e  is the one x denotes after the index expressions have run, in the scope that
   held x before them: the index expressions (calls included) cannot add or remove a name in any scope, so the innermost
   scope holding x is the same before and after, and x is still there -- re-resolving the name (the model) and indexing
   the scope found before (the Rust code) read the same variable *)
Theorem C06_index_expressions_keep_the_target : forall code, code_ok code -> forall fuel is m path m2 x,
  mwf code m -> forallb expr_ok is = true ->
  eval_indexes (eval code fuel) is m = Ok (path, m2) ->
  skel (m_scopes m2) = skel (m_scopes m) /\ holder x (m_scopes m2) = holder x (m_scopes m) /\
  (lookup_var x (m_scopes m) <> None -> lookup_var x (m_scopes m2) <> None).
Proof. exact index_expressions_keep_the_target. Qed.
Print Assumptions C06_index_expressions_keep_the_target.
