(** C15 -- Module loading terminates: cyclic imports are rejected, acyclic ones load.
    Termination is a theorem: for every finite file map -- every list of (path, text) pairs -- and every main module,
    lexing + parsing + loading returns a statement list or an error value within a fuel bound computed from the sizes
    alone ([C15_loading_terminates], [C15_loading_a_file_list_terminates], [C15_loading_a_file_list_returns]).  The proof
    (Proofs/LoaderTerm.v) found that the loader did NOT terminate for the set {root imports a; a = import of b, then
    `_টাইপ = "a.pakhi";`; b = the module keyword alone}: the repair is a "fix:" commit of /repo (DESIGN D.9) and the model
    carries it.  The per-import theorems are as before (a file on the current import chain is rejected before it is
    read; bad extension and missing file are error values; an accepted import splices in place).
    PARTIAL: "an acyclic graph loads successfully, each import statement running its module once in source order" is
    stated per import (the splice theorem), not for whole graphs; the graphs stream enumerates import graphs (all
    65536 on 4 files in the thorough tier). *)
From Pakhi Require Import Base Float64 Syntax Tables Lexer Parser.
From Pakhi.Proofs Require Import Modules ImportChain ParseTerm LoaderTerm.
From Pakhi.Proofs Require Import Findings.
Local Open Scope nat_scope.

Theorem C15_cyclic_import_rejected_before_reading : forall fs cwd main_path alias module_path s1,
  ends_with module_path module_ext = true ->
  In (same_file_key (module_file_path main_path module_path)) (import_chain main_path alias (ps_mods s1)) ->
  import_tail fs cwd main_path alias module_path s1 = cyclic_err.
Proof. exact cyclic_import_rejected. Qed.
Print Assumptions C15_cyclic_import_rejected_before_reading.

(* the main module is always on the chain: a file importing the root, or the root importing itself, is a cycle *)
Theorem C15_root_is_on_every_chain : forall main_path alias mods, In (same_file_key main_path) (import_chain main_path alias mods).
Proof. intros. left. reflexivity. Qed.
Print Assumptions C15_root_is_on_every_chain.

Theorem C15_bad_extension_is_error : forall fs cwd main_path alias module_path s1, ends_with module_path module_ext = false ->
  import_tail fs cwd main_path alias module_path s1 = syntax_here s1.
Proof. exact bad_extension_is_error. Qed.
Print Assumptions C15_bad_extension_is_error.

Theorem C15_missing_file_is_error : forall fs cwd main_path alias module_path s1,
  ends_with module_path module_ext = true ->
  existsb (text_eqb (same_file_key (module_file_path main_path module_path))) (import_chain main_path alias (ps_mods s1)) = false ->
  fs (module_file_path main_path module_path) = None ->
  import_tail fs cwd main_path alias module_path s1 = Err (mkErr0 ERuntime 0 [] TagGeneric).
Proof. exact missing_file_is_error. Qed.
Print Assumptions C15_missing_file_is_error.

Theorem C15_accepted_import_loads_once_in_place : forall fs cwd main_path alias module_path s1 s2,
  import_tail fs cwd main_path alias module_path s1 = Ok s2 ->
  exists semi after src toks toks',
    ps_rest s1 = semi :: after /\ fs (module_file_path main_path module_path) = Some src /\
    tokenize src (module_file_path main_path module_path) = Ok toks /\
    expand_dirname cwd toks (module_file_path main_path module_path) = Ok toks' /\
    ps_rest s2 = semi :: filter (fun t => negb (tk_is (t_kind t) TEOT)) (prepend_names toks' alias false) ++ after /\
    tk_is (t_kind (last (filter (fun t => negb (tk_is (t_kind t) TEOT)) (prepend_names toks' alias false)) (Lexer.eot []))) TImport = false /\
    ps_mods s2 = (alias, same_file_key (module_file_path main_path module_path)) :: ps_mods s1.
Proof. exact import_splices_in_place. Qed.
Print Assumptions C15_accepted_import_loads_once_in_place.

(* the import statement of the parser model is exactly: read the path, then this tail *)
Theorem C15_import_statement : forall fs cwd main_path fuel alias s,
  named_module_import fs cwd main_path fuel alias s =
  (let s := adv (adv s) in
   do '(module_path, s1) <- (match hk s with
                             | TStr p => import_path_rest fuel p (adv s)
                             | _ => syntax_here s
                             end);
   import_tail fs cwd main_path alias module_path s1).
Proof. exact named_module_import_unfold. Qed.
Print Assumptions C15_import_statement.

(* the extension the source checks *)
Theorem C15_extension : module_ext = [46; 112; 97; 107; 104; 105]%N.
Proof. vm_compute. reflexivity. Qed.
Print Assumptions C15_extension.

(* every module an import statement is nested in is on its chain: inside the text of a module registered under the name
   a, import names read a/x (C14), and the chain of a/x -- and of a/b/x for the prefix a/b -- contains the file
   registered for a.  So a module importing itself, its importer, or any module it is nested in at any depth is rejected
   with the cyclic-dependency error before the file is read *)
Theorem C15_enclosing_module_is_on_the_chain : forall main_path a x mods f,
  assoc_text a mods = Some f -> In f (import_chain main_path (a ++ c_slash :: x) mods).
Proof. exact enclosing_module_is_on_the_chain. Qed.
Print Assumptions C15_enclosing_module_is_on_the_chain.

Theorem C15_import_of_an_enclosing_module_is_rejected : forall fs cwd main_path a x module_path s1,
  ends_with module_path module_ext = true ->
  assoc_text a (ps_mods s1) = Some (same_file_key (module_file_path main_path module_path)) ->
  import_tail fs cwd main_path (a ++ c_slash :: x) module_path s1 = cyclic_err.
Proof. exact import_of_an_enclosing_module_is_rejected. Qed.
Print Assumptions C15_import_of_an_enclosing_module_is_rejected.

Theorem C15_self_import_is_rejected : forall fs cwd main_path a module_path s1 s2 x later module_path2 s3,
  import_tail fs cwd main_path a module_path s1 = Ok s2 ->
  ps_mods s3 = later ++ ps_mods s2 -> assoc_text a later = None ->
  ends_with module_path2 module_ext = true ->
  same_file_key (module_file_path main_path module_path2) = same_file_key (module_file_path main_path module_path) ->
  import_tail fs cwd main_path (a ++ c_slash :: x) module_path2 s3 = cyclic_err.
Proof. exact self_import_is_rejected. Qed.
Print Assumptions C15_self_import_is_rejected.

(** Termination of loading.  [known] lists the keys of the files that can be read and [L] bounds the length of their
    texts: that is what "a finite set of module files" means for the file map [fs].  [fin x] is "x is not OutOfFuel". *)
Theorem C15_loading_terminates : forall fs cwd main_path known L,
  (forall p src, fs p = Some src -> In (same_file_key p) known /\ S (length src) <= L) ->
  forall src fuel, 50 * (S (length src) * (S L) ^ length known) + 50 <= fuel -> fin (front fs cwd main_path fuel src).
Proof. exact loader_terminates. Qed.
Print Assumptions C15_loading_terminates.

(* the hypothesis is met by every list of files *)
Theorem C15_a_file_list_is_a_finite_set : forall (files : list (text * text)) p src, assoc_text p files = Some src ->
  In (same_file_key p) (map fst files) /\ S (length src) <= S (list_max (map (fun e => length (snd e)) files)).
Proof. exact file_list_is_finite. Qed.
Print Assumptions C15_a_file_list_is_a_finite_set.

Theorem C15_loading_a_file_list_terminates : forall (files : list (text * text)) cwd main_path src fuel,
  50 * (S (length src) * (S (S (list_max (map (fun e => length (snd e)) files)))) ^ length files) + 50 <= fuel ->
  fin (front (fun p => assoc_text p files) cwd main_path fuel src).
Proof. exact loading_a_file_list_terminates. Qed.
Print Assumptions C15_loading_a_file_list_terminates.

(* with the no-panic theorem: a statement list or an error value, for all sufficiently large fuel *)
Theorem C15_loading_a_file_list_returns : forall (files : list (text * text)) cwd main_path src,
  main_path <> [] -> last main_path c_slash <> c_slash ->
  exists fuel, forall fuel', fuel <= fuel' ->
    (exists stmts, front (fun p => assoc_text p files) cwd main_path fuel' src = Ok stmts) \/
    (exists e, front (fun p => assoc_text p files) cwd main_path fuel' src = Err e).
Proof. exact loading_a_file_list_returns. Qed.
Print Assumptions C15_loading_a_file_list_returns.

(* every statement, an import included, keeps the lineage invariant and lowers the weight of the token vector *)
Theorem C15_every_statement_lowers_the_weight : forall fs cwd main_path known L,
  (forall p src, fs p = Some src -> In (same_file_key p) known /\ S (length src) <= L) ->
  forall f s l st s1, ParseTotal.inv s -> ParseTerm.eot s -> Inv known s l -> pstmt fs cwd main_path f s = Ok (st, s1) ->
  exists l1, ParseTotal.inv s1 /\ ParseTerm.eot s1 /\ Inv known s1 l1 /\ mu known L l1 <= mu known L l /\
             match st with FEOS _ => True | _ => mu known L l1 < mu known L l end.
Proof. exact pstmt_progress_all. Qed.
Print Assumptions C15_every_statement_lowers_the_weight.

(* finding D29: the root imports one file twice, under the names ক and ক/খ -- nothing is cyclic, yet the loader answers with the cyclic-dependency error; each import alone loads *)
Theorem C15_an_acyclic_graph_with_an_extending_import_name_is_refuted :
  loads (front d29_fs d29_cwd d29_main 2000 d29_p1) = true /\
  loads (front d29_fs d29_cwd d29_main 2000 d29_p2) = true /\
  is_cyclic_error (front d29_fs d29_cwd d29_main 2000 (d29_p1 ++ d29_p2)) = true.
Proof. exact slash_import_name_refutes_composition. Qed.
Print Assumptions C15_an_acyclic_graph_with_an_extending_import_name_is_refuted.
