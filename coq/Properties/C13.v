(** C13 -- Runtime faults stop the program with a located Pakhi error, never a panic.
    "Never a panic" is the theorem C13_never_a_panic: for every source text the front end accepts, every amount of
    fuel, every collection schedule and every world (file system, stdin), no step of the run is a [Panic] -- proved by
    the machine invariant of WFOps.v (no dangling address, non-empty scope stack, jump targets inside the vector) and
    the frame invariant of FrameInv.v (a call returns with at least the scopes it was entered with).  Native stack
    exhaustion (unbounded recursion, printing a cyclic container) is [OutOfFuel] in the model, not a panic.  The
    command-line exit status is tied by the cli stream only (process behaviour is not modelled). *)
From Pakhi Require Import Base Float64 Syntax Tables Lexer Parser Interp.
From Pakhi.Proofs Require Import Output Faults FsOps ListOps WF WFOps NoPanic ParseOk.
Local Open Scope nat_scope.

(* everything printed before the failing statement is preserved: the error value carries it, in order *)
Theorem C13_output_before_fault_is_preserved : forall code fuel m,
  match interp code fuel m with
  | Ok m' => ext (m_out m) (m_out m')
  | Err er => ext (m_out m) (e_out er)
  | _ => True
  end.
Proof. exact interp_preserves_output. Qed.
Print Assumptions C13_output_before_fault_is_preserved.

(* nothing after it runs *)
Theorem C13_execution_stops_at_fault : forall code fuel sched b m e s, stmt_at code (m_pc m) = Some s -> (forall p, s <> FEOS p) ->
  interp code fuel m = Err e -> run code (S fuel) sched b m = (Err e, m).
Proof. exact run_stops_at_first_error. Qed.
Print Assumptions C13_execution_stops_at_fault.

(* _এরর(m) reports exactly m, located at the statement *)
Theorem C13_user_error_exact : forall code m msg s, stmt_at code (m_pc m) = Some s ->
  builtin_op code 6 [VStr msg] m = Err (mkErr ERuntime (p_line (stmt_pos s)) (p_file (stmt_pos s)) (TagUser msg) (m_out m)).
Proof. exact user_error_exact. Qed.
Print Assumptions C13_user_error_exact.

(* the position stored in a statement is the (line, file) of its source -- the module's file for imported code -- so an
   error "here" names them: *)
Theorem C13_errors_are_located : forall code k m s, stmt_at code (m_pc m) = Some s ->
  @fail_here code machine k m = Err (mkErr k (p_line (stmt_pos s)) (p_file (stmt_pos s)) TagGeneric (m_out m)).
Proof. exact fail_here_located. Qed.
Print Assumptions C13_errors_are_located.

Theorem C13_undeclared_name : forall code ev cl x p m s, stmt_at code (m_pc m) = Some s -> lookup_var x (m_scopes m) = None ->
  eval_step code ev cl (EVar x p) m = Err (mkErr ERuntime (p_line (stmt_pos s)) (p_file (stmt_pos s)) TagGeneric (m_out m)).
Proof. exact undeclared_name_fault. Qed.
Print Assumptions C13_undeclared_name.

Theorem C13_operand_type_mismatch : forall code ev cl l r p m m1 m2 s b,
  ev l m = Ok (VStr s, m1) -> ev r m1 = Ok (VNum b, m2) ->
  eval_step code ev cl (EBin BAdd l r p) m = Err (mkErr EType (p_line (expr_pos l)) (p_file (expr_pos l)) TagGeneric (m_out m2)).
Proof. exact operand_type_fault. Qed.
Print Assumptions C13_operand_type_mismatch.

Theorem C13_index_out_of_range : forall code ev cl a i p m m1 m2 addr x l,
  ev a m = Ok (VList addr, m1) -> ev i m1 = Ok (VNum x, m2) ->
  nth_error (h_lists (m_heap m2)) addr = Some l -> valid_index x (length l) = None ->
  eval_step code ev cl (EIndex a i p) m = Err (mkErr ERuntime (p_line (expr_pos i)) (p_file (expr_pos i)) TagGeneric (m_out m2)).
Proof. exact index_out_of_range_fault. Qed.
Print Assumptions C13_index_out_of_range.

Theorem C13_missing_record_key : forall code ev cl a i p m m1 m2 addr k r,
  ev a m = Ok (VRec addr, m1) -> ev i m1 = Ok (VStr k, m2) ->
  nth_error (h_recs (m_heap m2)) addr = Some r -> alist_get k r = None ->
  eval_step code ev cl (EIndex a i p) m = Err (mkErr ERuntime (p_line (expr_pos i)) (p_file (expr_pos i)) TagGeneric (m_out m2)).
Proof. exact missing_key_fault. Qed.
Print Assumptions C13_missing_record_key.

(* wrong built-in arguments: list built-ins (C16), file built-ins never panic *)
Theorem C13_wrong_list_builtin_argument : forall code m v w, (forall a, v <> VList a) ->
  builtin_op code 2 [v; w] m = fail_here code ERuntime m /\
  builtin_op code 3 [v] m = fail_here code ERuntime m /\
  builtin_op code 4 [v] m = fail_here code ERuntime m.
Proof. exact list_ops_reject_non_lists. Qed.
Print Assumptions C13_wrong_list_builtin_argument.

Theorem C13_file_builtins_never_panic : forall code m op args, 10 <= op <= 16 ->
  match builtin_op code op args m with Panic _ => False | OutOfFuel => False | _ => True end.
Proof. exact fs_ops_never_panic. Qed.
Print Assumptions C13_file_builtins_never_panic.

(* the global statement: whatever the front end accepts runs without a panic, under every collection schedule *)
Theorem C13_never_a_panic : forall fs cwd main_path pfuel src code platform world fuel sched,
  front fs cwd main_path pfuel src = Ok code ->
  forall s, fst (run code fuel sched 0 (init_machine platform world)) <> Panic s.
Proof.
  intros fs cwd main_path pfuel src code platform world fuel sched H s.
  destruct (front_output_ok fs cwd main_path pfuel src code H) as [Hok Hne].
  apply run_no_panic; [exact Hok|]. apply mwf_init; assumption.
Qed.
Print Assumptions C13_never_a_panic.

(* and so does every single statement and expression from any well-formed machine *)
Theorem C13_statement_never_panics : forall code, code_ok code -> forall fuel m, mwf code m -> forall s, interp code fuel m <> Panic s.
Proof. exact interp_no_panic. Qed.
Print Assumptions C13_statement_never_panics.

Theorem C13_expression_never_panics : forall code, code_ok code -> forall fuel e m, mwf code m -> expr_ok e = true ->
  forall s, eval code fuel e m <> Panic s.
Proof. exact eval_no_panic. Qed.
Print Assumptions C13_expression_never_panics.

(* the parser's output is what the invariant needs *)
Theorem C13_parser_output_is_well_formed : forall fs cwd main_path pfuel src code,
  front fs cwd main_path pfuel src = Ok code -> code_ok code /\ code <> [].
Proof. exact front_output_ok. Qed.
Print Assumptions C13_parser_output_is_well_formed.
