(** C17 -- String built-ins: split and join are inverse; type names are total.
    [str_split] / [str_join] are the model of str::split / [String]::join that _স্ট্রিং-স্প্লিট (op 7) and
    _স্ট্রিং-জয়েন (op 8) apply; [type_name] is _টাইপ (op 9). *)
From Pakhi Require Import Base Float64 Syntax Tables Lexer Interp.
From Pakhi.Proofs Require Import SplitJoin SplitSpec.
Local Open Scope nat_scope.

Theorem C17_join_split : forall s sep, sep <> [] -> str_join (str_split s sep) sep = s.
Proof. exact join_split. Qed.
Print Assumptions C17_join_split.

Theorem C17_split_empty_separator_yields_characters : forall s, str_split s [] = map (fun c => [c]) s.
Proof. exact split_empty_sep. Qed.
Print Assumptions C17_split_empty_separator_yields_characters.

(* join then split returns the list: proved for every one-character separator that occurs in no element *)
Theorem C17_split_join_partial : forall c l, l <> [] -> Forall (fun x => ~ In c x) l -> str_split (str_join l [c]) [c] = l.
Proof. exact split_join_char. Qed.
Print Assumptions C17_split_join_partial.

(* the statement as worded ("when no element contains the separator") is false for separators that can straddle an
   inserted separator and its neighbours: l = ["a", ""], sep = "aa" -- the known finding D23 *)
Theorem C17_split_join_refuted :
  exists (l : list text) (sep : text), l <> [] /\ sep <> [] /\
    Forall (fun x => forall pre post, x <> pre ++ sep ++ post) l /\ str_split (str_join l sep) sep <> l.
Proof. exact split_join_refuted. Qed.
Print Assumptions C17_split_join_refuted.

(* the built-ins apply these functions *)
Theorem C17_split_builtin : forall code m s sep,
  builtin_op code 7 [VStr s; VStr sep] m =
  (let '(a, h') := alloc_list (m_heap m) (map VStr (str_split s sep)) in Ok (VList a, set_heap m h')).
Proof. reflexivity. Qed.
Print Assumptions C17_split_builtin.

Theorem C17_join_builtin : forall code m a l sep, nth_error (h_lists (m_heap m)) a = Some (map VStr l) ->
  builtin_op code 8 [VList a; VStr sep] m = Ok (VStr (str_join l sep), m).
Proof.
  intros code m a l sep H. unfold builtin_op. cbn [Nat.eqb]. unfold get_list. rewrite H. cbn [bind].
  assert (Hall : forall l0, forallb (fun v => match v with VStr _ => true | _ => false end) (map VStr l0) = true)
    by (induction l0; simpl; auto).
  rewrite Hall. rewrite map_map. rewrite map_id. reflexivity.
Qed.
Print Assumptions C17_join_builtin.

(* _টাইপ maps every value to one of seven pairwise distinct names, one per type *)
Theorem C17_type_names_total_and_distinct :
  length type_names = 7 /\
  forall i j, i < 7 -> j < 7 -> nth i type_names [] = nth j type_names [] -> i = j.
Proof.
  split; [vm_compute; reflexivity|].
  intros i j Hi Hj.
  do 7 (destruct i as [|i]; [do 7 (destruct j as [|j]; [vm_compute; intros H; first [reflexivity|discriminate H]|]); lia|]); lia.
Qed.
Print Assumptions C17_type_names_total_and_distinct.

Theorem C17_type_builtin : forall code m v, builtin_op code 9 [v] m = Ok (VStr (type_name v), m).
Proof. reflexivity. Qed.
Print Assumptions C17_type_builtin.

(* wrong argument counts and types are errors (the machine is returned unchanged in the error) *)
Theorem C17_wrong_arguments : forall code m,
  builtin_op code 9 [] m = fail_here code ERuntime m /\
  (forall v w, builtin_op code 9 [v; w] m = fail_here code ERuntime m) /\
  (forall v, builtin_op code 7 [v] m = fail_here code ERuntime m) /\
  (forall x s, builtin_op code 7 [VNum x; VStr s] m = fail_here code ERuntime m) /\
  (forall x s, builtin_op code 7 [VStr s; VNum x] m = fail_here code ERuntime m) /\
  (forall s t, builtin_op code 8 [VStr s; VStr t] m = fail_here code ERuntime m) /\
  (forall v, builtin_op code 8 [v] m = fail_here code ERuntime m).
Proof.
  intros code m. unfold builtin_op. cbn [Nat.eqb].
  repeat split; intros; try reflexivity; try (destruct v; reflexivity).
Qed.
Print Assumptions C17_wrong_arguments.

(* what the fields ARE: in every field but the last, followed by the separator, the separator occurs only at the very end
   (the separator that ends a field is the leftmost occurrence in what was left of the string); in the last field it does
   not occur.  With C17_join_split this determines the split: "exactly the fields between successive separator
   occurrences, empty fields included" *)
Theorem C17_split_fields_are_the_text_between_leftmost_occurrences : forall s sep, sep <> [] -> fields_ok sep (str_split s sep).
Proof. exact split_fields_ok. Qed.
Print Assumptions C17_split_fields_are_the_text_between_leftmost_occurrences.

(* the converse, for separators of any length: a non-empty list with such fields is what split returns on its join.
   This is "join then split returns the list" with the hypothesis it needs; "no element contains the separator" alone
   is not enough (C17_split_join_refuted, D23), and the D23 list indeed violates [fields_ok] *)
Theorem C17_split_join_general : forall sep l, sep <> [] -> l <> [] -> fields_ok sep l -> str_split (str_join l sep) sep = l.
Proof. exact split_join_general. Qed.
Print Assumptions C17_split_join_general.

Theorem C17_one_character_separators : forall c l, Forall (fun x => ~ In c x) l -> fields_ok [c] l.
Proof. exact no_char_fields_ok. Qed.
Print Assumptions C17_one_character_separators.

Theorem C17_d23_list_is_not_fields_ok : ~ fields_ok [97%N; 97%N] [[97%N]; []].
Proof. exact d23_is_not_fields_ok. Qed.
Print Assumptions C17_d23_list_is_not_fields_ok.
