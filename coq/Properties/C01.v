(** C01 -- Expressions evaluate to the value their operator tree denotes.
    Proved on the model: the parser inverts rendering for EVERY tree (C01_every_tree_reads_back, Proofs/ParseRender.v, by
    induction over trees against the fuelled recursive-descent parser: insert exactly the parentheses the precedence
    ladder requires -- left operands at least as tight, right operands strictly tighter, so a op b op c is the left-nested
    tree --, render, parse: the tree comes back, up to Group nodes and line/file metadata, all node kinds, any depth); what
    each operator denotes for every pair of operand values ([denote_bin]: IEEE-754
    binary64 via SpecFloat, fmod, concatenation, the equality table, a type error for every other combination), that
    grouping is transparent, and how the parser builds the tree (the precedence ladder table, one level per operator,
    left folding within a level, parentheses = a whole expression wrapped in a transparent Group node).  Tied to the code
    by the expr stream (random trees rendered from the precedence table, unparenthesised same-level and mixed-level chains)
    and the implementation-only check that redundant parentheses never change the result. *)
From Pakhi Require Import Base Float64 Syntax Tables Lexer Parser Interp.
From Pakhi.Proofs Require Import LadderFacts.
From Pakhi.Proofs Require Import ExprSem ParseRender.
Local Open Scope nat_scope.

(* the parser inverts rendering.  [wfb lvl e]: e needs no further parentheses at level lvl; [render e]: its tokens;
   [stop lvl k]: the next token k does not continue an expression at that level; [erase]: forget line/file metadata *)
Theorem C01_parser_inverts_rendering : forall last mods e lvl rest prev, lvl <= 8 -> wfb lvl e = true ->
  rest <> [] -> stop lvl (t_kind (hd last rest)) = true ->
  exists n e' t', pexpr n lvl (mkPs (render e ++ rest) prev last mods) = Ok (e', mkPs rest (Some t') last mods) /\ erase e' = erase e.
Proof. intros last mods e lvl rest prev Hl Hw. exact (parse_render_round_trip last mods (size e) e (le_n _) lvl Hl Hw rest prev). Qed.
Print Assumptions C01_parser_inverts_rendering.

(* every tree the grammar can express ([shape_ok]: no nil literal, index bases are variables, as many values as keys):
   [paren 0 e] inserts the parentheses the ladder requires (as Group nodes) and nothing else ([C01_paren_adds_only_groups]) *)
Theorem C01_every_tree_reads_back : forall e rest prev last mods, shape_ok e = true -> rest <> [] -> stop 0 (t_kind (hd last rest)) = true ->
  exists n e' t', expression n (mkPs (render (paren 0 e) ++ rest) prev last mods) = Ok (e', mkPs rest (Some t') last mods) /\
                  ungroup (erase e') = ungroup (erase e).
Proof. exact every_tree_reads_back. Qed.
Print Assumptions C01_every_tree_reads_back.

Theorem C01_paren_adds_only_groups : forall e lvl, ungroup (paren lvl e) = ungroup e.
Proof. exact paren_ungroup. Qed.
Print Assumptions C01_paren_adds_only_groups.

(* more fuel never changes a successful parse *)
Theorem C01_parse_fuel_monotone : forall f f' lvl s r, f <= f' -> pexpr f lvl s = Ok r -> pexpr f' lvl s = Ok r.
Proof. intros f f' lvl s r H. apply (proj1 (mono_ge f f' H)). Qed.
Print Assumptions C01_parse_fuel_monotone.

(* non-vacuity: a - b - c * d and (a - b) - (c * d) have different minimal renderings but the chain needs no parentheses *)
Example C01_paren_instances :
  let v x := EVar [x] p0 in
  let t := EBin BSub (EBin BSub (v 97%N) (v 98%N) p0) (EBin BMul (v 99%N) (v 100%N) p0) p0 in
  let u := EBin BSub (v 97%N) (EBin BSub (v 98%N) (v 99%N) p0) p0 in
  paren 0 t = t /\ wfb 0 t = true /\ wfb 0 u = false /\
  paren 0 u = EBin BSub (v 97%N) (EGroup (EBin BSub (v 98%N) (v 99%N) p0) p0) p0 /\
  map t_kind (render (paren 0 u)) = [TIdent; TMinus; TLParen; TIdent; TMinus; TIdent; TRParen].
Proof. vm_compute. repeat split. Qed.

Theorem C01_operators_left_operand_first : forall code ev cl o l r p m lv m1 rv m2,
  In o [BAdd; BSub; BEq; BNe; BLt; BLe; BGt; BGe] ->
  ev l m = Ok (lv, m1) -> ev r m1 = Ok (rv, m2) ->
  eval_step code ev cl (EBin o l r p) m = denote_bin o lv rv (expr_pos l) m2.
Proof. exact binop_left_first. Qed.
Print Assumptions C01_operators_left_operand_first.

Theorem C01_operators_right_operand_first : forall code ev cl o l r p m rv m1 lv m2,
  In o [BMul; BDiv; BRem; BAnd; BOr] ->
  ev r m = Ok (rv, m1) -> ev l m1 = Ok (lv, m2) ->
  eval_step code ev cl (EBin o l r p) m = denote_bin o lv rv (expr_pos l) m2.
Proof. exact binop_right_first. Qed.
Print Assumptions C01_operators_right_operand_first.

Theorem C01_unary_minus : forall code ev cl e p m x m1, ev e m = Ok (VNum x, m1) -> eval_step code ev cl (EUn UNeg e p) m = Ok (VNum (f_neg x), m1).
Proof. exact unary_minus. Qed.
Print Assumptions C01_unary_minus.

Theorem C01_unary_not : forall code ev cl e p m b m1, ev e m = Ok (VBool b, m1) -> eval_step code ev cl (EUn UNot e p) m = Ok (VBool (negb b), m1).
Proof. exact unary_not. Qed.
Print Assumptions C01_unary_not.

Theorem C01_unary_type_error : forall code ev cl o e p m v m1, ev e m = Ok (v, m1) ->
  (o = UNeg -> is_num v = false) -> (o = UNot -> forall b, v <> VBool b) ->
  eval_step code ev cl (EUn o e p) m = fail_at EType (expr_pos e) m1.
Proof. exact unary_type_error. Qed.
Print Assumptions C01_unary_type_error.

Theorem C01_equality_table :
  (forall a b, value_eqb (VNum a) (VNum b) = f_eqb a b) /\
  (forall a b, value_eqb (VBool a) (VBool b) = Bool.eqb a b) /\
  (forall a b, value_eqb (VStr a) (VStr b) = text_eqb a b) /\
  (forall a b, value_eqb (VList a) (VList b) = Nat.eqb a b) /\
  (forall a b, value_eqb (VRec a) (VRec b) = Nat.eqb a b) /\
  value_eqb VNil VNil = true /\
  (forall x s b a, value_eqb (VNum x) (VStr s) = false /\ value_eqb (VStr s) (VNum x) = false /\ value_eqb (VNum x) (VBool b) = false /\
                   value_eqb (VList a) (VRec a) = false /\ value_eqb (VRec a) (VList a) = false /\ value_eqb VNil (VNum x) = false /\
                   value_eqb (VStr s) (VList a) = false /\ value_eqb (VBool b) VNil = false).
Proof. exact equality_table. Qed.
Print Assumptions C01_equality_table.

Theorem C01_arithmetic_is_binary64 : f_add = SFadd 53 1024 /\ f_sub = SFsub 53 1024 /\ f_mul = SFmul 53 1024 /\ f_div = SFdiv 53 1024.
Proof. exact arithmetic_is_binary64. Qed.
Print Assumptions C01_arithmetic_is_binary64.

Theorem C01_grouping_is_transparent : forall code ev cl e p m, eval_step code ev cl (EGroup e p) m = ev e m.
Proof. exact group_transparent. Qed.
Print Assumptions C01_grouping_is_transparent.

Theorem C01_parentheses_parse_to_group : forall f s, tk_is (hk s) TLParen = true ->
  pprimary (S f) s = (do '(e, s1) <- pexpr f 0 (adv s); let s2 := adv s1 in do p <- pos_tok s2 (head s); Ok (EGroup e p, s2)).
Proof. exact parens_parse_to_group. Qed.
Print Assumptions C01_parentheses_parse_to_group.

Theorem C01_precedence_ladder : forall k,
  match k with
  | TOr => binop_at 0 k = Some BOr
  | TAnd => binop_at 1 k = Some BAnd
  | TEqEq => binop_at 2 k = Some BEq | TNotEq => binop_at 2 k = Some BNe
  | TLt => binop_at 3 k = Some BLt | TLe => binop_at 3 k = Some BLe | TGt => binop_at 3 k = Some BGt | TGe => binop_at 3 k = Some BGe
  | TPlus => binop_at 4 k = Some BAdd | TMinus => binop_at 4 k = Some BSub
  | TMul => binop_at 5 k = Some BMul | TDiv => binop_at 5 k = Some BDiv | TRem => binop_at 5 k = Some BRem
  | _ => forall lvl, binop_at lvl k = None
  end.
Proof. exact precedence_ladder. Qed.
Print Assumptions C01_precedence_ladder.

Theorem C01_one_level_per_operator : forall lvl1 lvl2 k o1 o2, binop_at lvl1 k = Some o1 -> binop_at lvl2 k = Some o2 -> lvl1 = lvl2 /\ o1 = o2.
Proof. exact operator_has_one_level. Qed.
Print Assumptions C01_one_level_per_operator.

Theorem C01_levels_fold_left : forall f lvl s, lvl < 6 ->
  pexpr (S f) lvl s = (do '(e, s1) <- pexpr f (S lvl) s; pbin f lvl e s1).
Proof. exact level_is_left_associative. Qed.
Print Assumptions C01_levels_fold_left.

Theorem C01_fold_step : forall f lvl e s o, binop_at lvl (hk s) = Some o ->
  pbin (S f) lvl e s = (do '(r, s1) <- pexpr f (S lvl) (adv s); do p <- pos_prev s1; pbin f lvl (EBin o e r p) s1).
Proof. exact fold_left_step. Qed.
Print Assumptions C01_fold_step.

(* 10 - 3 - 2 parses as (10 - 3) - 2, and 2 + 3 * 4 as 2 + (3 * 4): instances through the whole lexer + parser model *)
Example C01_left_assoc_and_precedence :
  match front (fun _ => None) [] [109%N] 200 [2470;2503;2454;2494;2451;32;2535;2534;32;45;32;2537;32;45;32;2536;59]%N with
  | Ok (FPrint (EBin BSub (EBin BSub (ENum _ _) (ENum _ _) _) (ENum _ _) _) _ :: _) => True | _ => False end /\
  match front (fun _ => None) [] [109%N] 200 [2470;2503;2454;2494;2451;32;2536;32;43;32;2537;32;42;32;2538;59]%N with
  | Ok (FPrint (EBin BAdd (ENum _ _) (EBin BMul (ENum _ _) (ENum _ _) _) _) _ :: _) => True | _ => False end.
Proof. vm_compute. split; exact I. Qed.

(* the ladder of the model is the ladder the source has NOW: [ladder] and [unary_kinds] are regenerated from parser.rs on
   every run (the chain of level functions and the token kinds each level's loop matches); the model's binop_at and unary
   level agree with them for every level and every token kind *)
Theorem C01_ladder_of_the_source_is_the_ladder_of_the_model : forall lvl k, (lvl < 6)%nat ->
  in_level k (nth lvl ladder []) = match binop_at lvl k with Some _ => true | None => false end.
Proof. exact ladder_is_binop_at. Qed.
Print Assumptions C01_ladder_of_the_source_is_the_ladder_of_the_model.

Theorem C01_no_operator_outside_the_ladder : forall lvl k, (6 <= lvl)%nat -> binop_at lvl k = None.
Proof. exact no_operator_outside_the_ladder. Qed.
Print Assumptions C01_no_operator_outside_the_ladder.

Theorem C01_unary_level_of_the_source : forall k,
  in_level k unary_kinds = match k with TNot | TMinus => true | _ => false end.
Proof. exact unary_kinds_are_the_unary_level. Qed.
Print Assumptions C01_unary_level_of_the_source.
