(** C07 -- Garbage collection is invisible: it never frees or alters reachable data.
    Only restatements of theorems proved under Proofs/, with their assumptions printed.

    The headline is C07_any_collection_schedule_is_invisible: for every program the front end accepts, every fuel,
    every world, any two collection schedules -- none, the interpreter's own allocation-counter trigger ([None]), a
    collection forced at every statement boundary, or any other pattern -- produce the same output, the same final world
    and the same result (the same error value: kind, line, file, message payload and the output before it).  It is proved
    by a lock-step simulation of the two runs through a partial bijection of container addresses (Proofs/SimDefs.v,
    Sim.v: every expression form, every built-in, every statement, calls to any depth) in which a collection on either
    side keeps the two machines related (Proofs/GCInvisible.v, from the exactness of mark and sweep below).  [OutOfFuel]
    (native stack exhaustion in the real interpreter) on either side is excluded: the model's printing depth budget
    depends on the arena size, which the two runs do not share. *)
From Pakhi Require Import Base Float64 Syntax Tables Lexer Parser Interp.
From Pakhi.Proofs Require Import GCMark GCSweep Alloc WF WFOps NoPanic ParseOk SimDefs Sim GCInvisible.

(* any two schedules, whole programs *)
Theorem C07_any_collection_schedule_is_invisible : forall fs cwd main_path pfuel src code platform world fuel sched1 sched2,
  front fs cwd main_path pfuel src = Ok code ->
  match fst (run code fuel sched1 0 (init_machine platform world)), fst (run code fuel sched2 0 (init_machine platform world)) with
  | OutOfFuel, _ | _, OutOfFuel => True
  | Ok n1, Ok n2 => m_out n1 = m_out n2 /\ m_world n1 = m_world n2
  | Err e1, Err e2 => e1 = e2
  | Panic s1, Panic s2 => s1 = s2
  | _, _ => False
  end.
Proof.
  intros fs cwd main_path pfuel src code platform world fuel s1 s2 H.
  destruct (front_output_ok fs cwd main_path pfuel src code H) as [Hok Hne].
  exact (gc_schedule_invisible code platform world fuel s1 s2 Hok Hne).
Qed.
Print Assumptions C07_any_collection_schedule_is_invisible.

(* the same from any pair of well-formed machines that differ only in where their containers live (addresses, free
   lists, garbage, arena sizes, allocation counters), with any boundary counters: the general form used for the above *)
Theorem C07_collections_invisible_from_any_related_states : forall code, code_ok code ->
  forall fuel sched1 sched2 b1 b2 p m1 m2, bij p -> mrel p m1 m2 -> mwf code m1 -> mwf code m2 ->
  same_end (fst (run code fuel sched1 b1 m1)) (fst (run code fuel sched2 b2 m2)).
Proof. exact run_sim. Qed.
Print Assumptions C07_collections_invisible_from_any_related_states.

(* a single collection keeps a machine related to its uncollected twin *)
Theorem C07_one_collection_keeps_the_machines_related : forall p m1 m2 h1', bij p -> mrel p m1 m2 ->
  wf_heap (m_heap m1) -> wf_scopes (m_heap m1) (m_scopes m1) -> collect (m_scopes m1) (m_heap m1) = Ok h1' ->
  exists q, bij q /\ mrel q (set_heap m1 h1') m2.
Proof. exact collect_left. Qed.
Print Assumptions C07_one_collection_keeps_the_machines_related.

(* one statement, one expression: related machines stay related, same error otherwise -- for every fuel *)
Theorem C07_no_statement_observes_addresses : forall code f,
  Sev (eval code f) /\ Scl (call_loop code f) /\ Scl (interp code f).
Proof. exact sim_fuel. Qed.
Print Assumptions C07_no_statement_observes_addresses.

(* non-vacuity of the schedule theorem: a program whose first list becomes garbage; collecting at every boundary and
   never collecting end in different heaps (the forced run has freed and not reused a slot) but the same output *)
Example C07_schedules_differ_inside_agree_outside :
  let p0 := mkPos 1 [] in
  let x := [120%N] in
  let code := [FAssign AFirst x p0 [] (Some (EList [EStr [97%N] p0] p0)) p0;
               FAssign AReassign x p0 [] (Some (EList [EStr [98%N] p0] p0)) p0;
               FPrint (EVar x p0) p0; FEOS p0] in
  let w0 := mkWorld [] [] [] in
  exists n1 n2, fst (run code 50 (Some [true]) 0 (init_machine [] w0)) = Ok n1 /\
                fst (run code 50 None 0 (init_machine [] w0)) = Ok n2 /\
                m_out n1 = m_out n2 /\ m_out n1 <> [] /\
                h_free_lists (m_heap n1) = [0] /\ h_free_lists (m_heap n2) = [].
Proof. cbv zeta. eexists. eexists. split; [vm_compute; reflexivity|]. split; [vm_compute; reflexivity|]. repeat split; discriminate. Qed.

(* the mark phase marks exactly what the variables of all open scopes can reach -- any heap shape, cycles included *)
Theorem C07_mark_exact : forall h ss, wf_heap h -> wf_scopes h ss ->
  exists m, gc_mark ss h = Some m /\ wf_marks h m /\ forall n, marked m n = true <-> reach h (is_root ss) n.
Proof. exact gc_mark_correct. Qed.
Print Assumptions C07_mark_exact.

(* a collection is total and leaves every reachable list and record exactly as it was (collect_post:
   same arena lengths, reachable slots unchanged, unreachable ones emptied and put on the free list) *)
Theorem C07_collect_keeps_reachable : forall h ss, wf_heap h -> wf_scopes h ss ->
  exists h', collect ss h = Ok h' /\ collect_post ss h h'.
Proof. exact collect_correct. Qed.
Print Assumptions C07_collect_keeps_reachable.

(* what is reachable before is reachable after, through the same containers *)
Theorem C07_reachability_unchanged : forall ss h h', collect_post ss h h' ->
  forall n, reach h (is_root ss) n <-> reach h' (is_root ss) n.
Proof. intros ss h h' P n. split; [apply (reach_preserved ss h h' P)|apply (reach_reflected ss h h' P)]. Qed.
Print Assumptions C07_reachability_unchanged.

(* the free lists never contain a reachable slot -- before and hence after any number of collections -- *)
Theorem C07_free_slots_unreachable : forall h ss h', wf_heap h -> wf_scopes h ss -> free_ok h ss ->
  collect ss h = Ok h' -> free_ok h' ss.
Proof. exact collect_free_ok. Qed.
Print Assumptions C07_free_slots_unreachable.

(* -- so no reachable container is ever handed out again to a new allocation *)
Theorem C07_alloc_never_reuses_live_list : forall h ss l, wf_heap h -> wf_scopes h ss -> free_ok h ss ->
  ~ reach h (is_root ss) (NL (fst (alloc_list h l))).
Proof. exact alloc_list_fresh. Qed.
Print Assumptions C07_alloc_never_reuses_live_list.

Theorem C07_alloc_never_reuses_live_record : forall h ss r, wf_heap h -> wf_scopes h ss -> free_ok h ss ->
  ~ reach h (is_root ss) (NR (fst (alloc_rec h r))).
Proof. exact alloc_rec_fresh. Qed.
Print Assumptions C07_alloc_never_reuses_live_record.

(* collections can be repeated: the invariants they need are re-established *)
Theorem C07_collect_preserves_wf : forall h ss h', wf_heap h -> wf_scopes h ss -> collect ss h = Ok h' ->
  wf_heap h' /\ wf_scopes h' ss.
Proof. exact collect_wf. Qed.
Print Assumptions C07_collect_preserves_wf.

(* non-vacuity: a cyclic, shared, list<->record heap with a free slot satisfies the hypotheses *)
Example C07_hypotheses_satisfiable :
  let h := mkHeap [[VList 1; VRec 0]; [VList 0]; []] [2] [[([107%N], VList 1)]] [] 0 in
  let ss := [[([120%N], VList 0)]] in
  wf_heap h /\ wf_scopes h ss /\
  exists h', collect ss h = Ok h' /\ h_lists h' = h_lists h /\ h_free_lists h' = [2].
Proof.
  cbv zeta. split; [|split].
  - split.
    + intros l [<-|[<-|[<-|[]]]]; repeat (constructor; [unfold wf_val; simpl; auto with arith|]); constructor.
    + intros r [<-|[]]; simpl; repeat (constructor; [unfold wf_val; simpl; auto with arith|]); constructor.
  - unfold wf_scopes; simpl. repeat (constructor; [unfold wf_val; simpl; auto with arith|]); constructor.
  - eexists. split; [vm_compute; reflexivity|]. split; reflexivity.
Qed.
