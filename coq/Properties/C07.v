(** C07 -- Garbage collection is invisible: it never frees or alters reachable data.
    Only restatements of theorems proved under Proofs/, with their assumptions printed. *)
From Pakhi Require Import Base Float64 Syntax Tables Lexer Interp.
From Pakhi.Proofs Require Import GCMark GCSweep Alloc.

(* the mark phase marks exactly what the variables of all open scopes can reach -- any heap shape, cycles included *)
Theorem C07_mark_exact : forall h ss, wf_heap h -> wf_scopes h ss ->
  exists m, gc_mark ss h = Some m /\ wf_marks h m /\ forall n, marked m n = true <-> reach h (is_root ss) n.
Proof. exact gc_mark_correct. Qed.
Print Assumptions C07_mark_exact.

(* a collection is total and leaves every reachable list and record exactly as it was (collect_post:
   same arena lengths, reachable slots unchanged, unreachable ones emptied and put on the free list) *)
Theorem C07_collect_keeps_reachable : forall h ss, wf_heap h -> wf_scopes h ss ->
  exists h', collect ss h = Ok h' /\ collect_post ss h h'.
Proof. exact collect_correct. Qed.
Print Assumptions C07_collect_keeps_reachable.

(* what is reachable before is reachable after, through the same containers *)
Theorem C07_reachability_unchanged : forall ss h h', collect_post ss h h' ->
  forall n, reach h (is_root ss) n <-> reach h' (is_root ss) n.
Proof. intros ss h h' P n. split; [apply (reach_preserved ss h h' P)|apply (reach_reflected ss h h' P)]. Qed.
Print Assumptions C07_reachability_unchanged.

(* the free lists never contain a reachable slot -- before and hence after any number of collections -- *)
Theorem C07_free_slots_unreachable : forall h ss h', wf_heap h -> wf_scopes h ss -> free_ok h ss ->
  collect ss h = Ok h' -> free_ok h' ss.
Proof. exact collect_free_ok. Qed.
Print Assumptions C07_free_slots_unreachable.

(* -- so no reachable container is ever handed out again to a new allocation *)
Theorem C07_alloc_never_reuses_live_list : forall h ss l, wf_heap h -> wf_scopes h ss -> free_ok h ss ->
  ~ reach h (is_root ss) (NL (fst (alloc_list h l))).
Proof. exact alloc_list_fresh. Qed.
Print Assumptions C07_alloc_never_reuses_live_list.

Theorem C07_alloc_never_reuses_live_record : forall h ss r, wf_heap h -> wf_scopes h ss -> free_ok h ss ->
  ~ reach h (is_root ss) (NR (fst (alloc_rec h r))).
Proof. exact alloc_rec_fresh. Qed.
Print Assumptions C07_alloc_never_reuses_live_record.

(* collections can be repeated: the invariants they need are re-established *)
Theorem C07_collect_preserves_wf : forall h ss h', wf_heap h -> wf_scopes h ss -> collect ss h = Ok h' ->
  wf_heap h' /\ wf_scopes h' ss.
Proof. exact collect_wf. Qed.
Print Assumptions C07_collect_preserves_wf.

(* non-vacuity: a cyclic, shared, list<->record heap with a free slot satisfies the hypotheses *)
Example C07_hypotheses_satisfiable :
  let h := mkHeap [[VList 1; VRec 0]; [VList 0]; []] [2] [[([107%N], VList 1)]] [] 0 in
  let ss := [[([120%N], VList 0)]] in
  wf_heap h /\ wf_scopes h ss /\
  exists h', collect ss h = Ok h' /\ h_lists h' = h_lists h /\ h_free_lists h' = [2].
Proof.
  cbv zeta. split; [|split].
  - split.
    + intros l [<-|[<-|[<-|[]]]]; repeat (constructor; [unfold wf_val; simpl; auto with arith|]); constructor.
    + intros r [<-|[]]; simpl; repeat (constructor; [unfold wf_val; simpl; auto with arith|]); constructor.
  - unfold wf_scopes; simpl. repeat (constructor; [unfold wf_val; simpl; auto with arith|]); constructor.
  - eexists. split; [vm_compute; reflexivity|]. split; reflexivity.
Qed.
