(** C08 -- Every collection reclaims all unreachable containers; heap stays bounded. *)
From Pakhi Require Import Base Float64 Syntax Tables Lexer Interp.
From Pakhi.Proofs Require Import GCMark GCSweep Alloc.
Local Open Scope nat_scope.

(* every unreachable list and record -- unreachable cycles included, reachability being the inductive [reach] --
   is emptied and put on the free list by one collection; [cp_nodup_*]: each exactly once *)
Theorem C08_reclaims_all : forall h ss, wf_heap h -> wf_scopes h ss ->
  exists h', collect ss h = Ok h' /\
    (forall a, a < length (h_lists h) -> ~ reach h (is_root ss) (NL a) -> nth a (h_lists h') [] = [] /\ In a (h_free_lists h')) /\
    (forall a, a < length (h_recs h) -> ~ reach h (is_root ss) (NR a) -> nth a (h_recs h') [] = [] /\ In a (h_free_recs h')) /\
    (NoDup (h_free_lists h) -> NoDup (h_free_lists h')) /\ (NoDup (h_free_recs h) -> NoDup (h_free_recs h')) /\
    length (h_lists h') = length (h_lists h) /\ length (h_recs h') = length (h_recs h).
Proof.
  intros h ss Hh Hs. destruct (collect_correct h ss Hh Hs) as (h' & E & P). exists h'. split; [exact E|].
  split; [|split; [|split; [|split; [|split]]]].
  - intros a Ha Hn. apply (cp_free_list _ _ _ P); assumption.
  - intros a Ha Hn. apply (cp_free_rec _ _ _ P); assumption.
  - apply (cp_nodup_list _ _ _ P).
  - apply (cp_nodup_rec _ _ _ P).
  - apply (cp_len_lists _ _ _ P).
  - apply (cp_len_recs _ _ _ P).
Qed.
Print Assumptions C08_reclaims_all.

(* reclaimed storage is reused by later allocations before the heap grows *)
Theorem C08_alloc_list_reuses : forall h l a fr, h_free_lists h = a :: fr -> a < length (h_lists h) ->
  let '(a', h') := alloc_list h l in
  a' = a /\ length (h_lists h') = length (h_lists h) /\ h_free_lists h' = fr /\
  nth a (h_lists h') [] = l /\ (forall b, b <> a -> nth b (h_lists h') [] = nth b (h_lists h) []) /\
  h_recs h' = h_recs h /\ h_free_recs h' = h_free_recs h.
Proof. exact alloc_list_reuses. Qed.
Print Assumptions C08_alloc_list_reuses.

Theorem C08_alloc_rec_reuses : forall h r a fr, h_free_recs h = a :: fr -> a < length (h_recs h) ->
  let '(a', h') := alloc_rec h r in
  a' = a /\ length (h_recs h') = length (h_recs h) /\ h_free_recs h' = fr /\
  nth a (h_recs h') [] = r /\ (forall b, b <> a -> nth b (h_recs h') [] = nth b (h_recs h) []) /\
  h_lists h' = h_lists h /\ h_free_lists h' = h_free_lists h.
Proof. exact alloc_rec_reuses. Qed.
Print Assumptions C08_alloc_rec_reuses.

(* the arenas grow only when the free list is empty, and then by exactly one slot *)
Theorem C08_list_arena_grows_only_when_no_free_slot : forall h l, h_free_lists h = [] ->
  let '(a', h') := alloc_list h l in
  a' = length (h_lists h) /\ h_lists h' = h_lists h ++ [l] /\ h_free_lists h' = [] /\
  h_recs h' = h_recs h /\ h_free_recs h' = h_free_recs h.
Proof. exact alloc_list_grows_only_when_no_free_slot. Qed.
Print Assumptions C08_list_arena_grows_only_when_no_free_slot.

Theorem C08_rec_arena_grows_only_when_no_free_slot : forall h r, h_free_recs h = [] ->
  let '(a', h') := alloc_rec h r in
  a' = length (h_recs h) /\ h_recs h' = h_recs h ++ [r] /\ h_free_recs h' = [] /\
  h_lists h' = h_lists h /\ h_free_lists h' = h_free_lists h.
Proof. exact alloc_rec_grows_only_when_no_free_slot. Qed.
Print Assumptions C08_rec_arena_grows_only_when_no_free_slot.

(* collections are triggered after a bounded amount of allocation: every allocation (also of an empty container)
   advances the counter, and a boundary at which the counter reached the threshold of the source collects *)
Theorem C08_every_allocation_counts : forall h l r,
  h_alloc h < h_alloc (snd (alloc_list h l)) /\ h_alloc h < h_alloc (snd (alloc_rec h r)).
Proof. exact alloc_counts. Qed.
Print Assumptions C08_every_allocation_counts.

Theorem C08_collect_when_due : forall boundary m,
  should_collect None boundary m = true <-> gc_threshold <= h_alloc (m_heap m).
Proof. exact collect_when_due. Qed.
Print Assumptions C08_collect_when_due.

Theorem C08_threshold_positive : 0 < gc_threshold.
Proof. exact gc_threshold_positive. Qed.
Print Assumptions C08_threshold_positive.
