(** C08 -- Every collection reclaims all unreachable containers; heap stays bounded. *)
From Pakhi Require Import Base Float64 Syntax Tables Lexer Interp.
From Pakhi Require Import Parser.
From Pakhi.Proofs Require Import GCMark GCSweep Alloc WF WFOps NoPanic ParseOk HeapPre GCInvisible HeapBound.
Local Open Scope nat_scope.

(** ** the bound, for whole runs (HeapBound.v) *)

(* Allocation accounting through every statement, calls of any depth included ([hstep]): the free lists only shrink, from
   the front; an arena grows only after its free list has run empty; every slot taken from a free list or added to an
   arena is paid for by at least one unit of the allocation counter. *)
Theorem C08_every_statement_pays_for_its_slots : forall code fuel m m', interp code fuel m = Ok m' ->
  let h := m_heap m in let h' := m_heap m' in
  exists pl pr, h_free_lists h = pl ++ h_free_lists h' /\ h_free_recs h = pr ++ h_free_recs h' /\
  length (h_lists h) <= length (h_lists h') /\ length (h_recs h) <= length (h_recs h') /\
  length (h_lists h') + length pl + length (h_recs h') + length pr + h_alloc h <= h_alloc h' + length (h_lists h) + length (h_recs h) /\
  (length (h_lists h) < length (h_lists h') -> h_free_lists h' = []) /\
  (length (h_recs h) < length (h_recs h') -> h_free_recs h' = []).
Proof. exact interp_hstep. Qed.
Print Assumptions C08_every_statement_pays_for_its_slots.

(* after a collection the occupied slots (arena length minus free-list length) are at most the reachable containers *)
Theorem C08_collection_leaves_only_live_slots : forall h ss h' live, wf_heap h -> wf_scopes h ss -> collect ss h = Ok h' ->
  (forall a, reach h (is_root ss) (NL a) -> In a live) ->
  length (h_lists h') - length (h_free_lists h') <= length live.
Proof. exact collect_occupied_le_live_lists. Qed.
Print Assumptions C08_collection_leaves_only_live_slots.

Theorem C08_collection_leaves_only_live_records : forall h ss h' live, wf_heap h -> wf_scopes h ss -> collect ss h = Ok h' ->
  (forall a, reach h (is_root ss) (NR a) -> In a live) ->
  length (h_recs h') - length (h_free_recs h') <= length live.
Proof. exact collect_occupied_le_live_recs. Qed.
Print Assumptions C08_collection_leaves_only_live_records.

(* The heap is bounded independently of the number of statements executed.  For every program the front end accepts: if
   at every statement boundary at most R lists and at most R records are reachable from the variables in scope, and no
   single top-level statement advances the allocation counter by more than A, then -- observed with ANY fuel, i.e. at
   every boundary of the run, after any number of loop iterations -- both arenas are at most R + threshold + A long. *)
Theorem C08_heap_bounded_at_every_boundary : forall fs cwd main_path pfuel src code platform w R A,
  front fs cwd main_path pfuel src = Ok code ->
  (forall m f m1, tstate code (init_machine platform w) m -> interp code f m = Ok m1 ->
                  h_alloc (m_heap m1) <= h_alloc (m_heap m) + A /\ live_lists_le m1 R /\ live_recs_le m1 R) ->
  forall fuel, let m := snd (run code fuel None 0 (init_machine platform w)) in
    length (h_lists (m_heap m)) <= R + gc_threshold + A /\ length (h_recs (m_heap m)) <= R + gc_threshold + A.
Proof.
  intros fs cwd main_path pfuel src code platform w R A H.
  destruct (front_output_ok fs cwd main_path pfuel src code H) as [Hok Hne].
  exact (heap_bounded_run code platform w R A Hok Hne).
Qed.
Print Assumptions C08_heap_bounded_at_every_boundary.

(* the same from any well-formed starting machine (initial arena length enters the bound) *)
Theorem C08_list_arena_bounded_from_any_state : forall code, code_ok code -> forall m0 R A,
  mwf code m0 -> NoDup (h_free_lists (m_heap m0)) -> h_alloc (m_heap m0) < gc_threshold ->
  length (h_lists (m_heap m0)) <= length (h_free_lists (m_heap m0)) + R + h_alloc (m_heap m0) ->
  (forall m f m1, tstate code m0 m -> interp code f m = Ok m1 ->
                  h_alloc (m_heap m1) <= h_alloc (m_heap m) + A /\ live_lists_le m1 R) ->
  forall m, tstate code m0 m ->
    length (h_lists (m_heap m)) <= Nat.max (length (h_lists (m_heap m0))) (R + gc_threshold + A).
Proof. exact list_arena_bounded. Qed.
Print Assumptions C08_list_arena_bounded_from_any_state.

(* non-vacuity: an endless top-level loop that allocates a list per iteration and drops the previous one.  Observed after
   about 1 500 and about 3 000 iterations (fuel 6 000 / 12 000 statements) the list arena has the same length, well under
   the threshold, and several collections have run. *)
Example C08_allocation_loop_runs_in_constant_heap :
  let p0 := mkPos 1 [] in
  let x := [120%N] in
  let code := [FAssign AFirst x p0 [] (Some (EList [] p0)) p0; FLoop p0; FBlockStart p0;
               FAssign AReassign x p0 [] (Some (EList [EStr [97%N] p0] p0)) p0; FBlockEnd p0; FContinue p0; FEOS p0] in
  let m6 := snd (run code (60 * 100) None 0 (init_machine [] (mkWorld [] [] []))) in
  let m12 := snd (run code (120 * 100) None 0 (init_machine [] (mkWorld [] [] []))) in
  length (h_lists (m_heap m6)) = length (h_lists (m_heap m12)) /\ length (h_lists (m_heap m12)) <= 501 /\
  2 <= m_collections m6 /\ m_collections m6 < m_collections m12.
Proof. vm_compute. repeat split; repeat constructor. Qed.


(* every unreachable list and record -- unreachable cycles included, reachability being the inductive [reach] --
   is emptied and put on the free list by one collection; [cp_nodup_*]: each exactly once *)
Theorem C08_reclaims_all : forall h ss, wf_heap h -> wf_scopes h ss ->
  exists h', collect ss h = Ok h' /\
    (forall a, a < length (h_lists h) -> ~ reach h (is_root ss) (NL a) -> nth a (h_lists h') [] = [] /\ In a (h_free_lists h')) /\
    (forall a, a < length (h_recs h) -> ~ reach h (is_root ss) (NR a) -> nth a (h_recs h') [] = [] /\ In a (h_free_recs h')) /\
    (NoDup (h_free_lists h) -> NoDup (h_free_lists h')) /\ (NoDup (h_free_recs h) -> NoDup (h_free_recs h')) /\
    length (h_lists h') = length (h_lists h) /\ length (h_recs h') = length (h_recs h).
Proof.
  intros h ss Hh Hs. destruct (collect_correct h ss Hh Hs) as (h' & E & P). exists h'. split; [exact E|].
  split; [|split; [|split; [|split; [|split]]]].
  - intros a Ha Hn. apply (cp_free_list _ _ _ P); assumption.
  - intros a Ha Hn. apply (cp_free_rec _ _ _ P); assumption.
  - apply (cp_nodup_list _ _ _ P).
  - apply (cp_nodup_rec _ _ _ P).
  - apply (cp_len_lists _ _ _ P).
  - apply (cp_len_recs _ _ _ P).
Qed.
Print Assumptions C08_reclaims_all.

(* reclaimed storage is reused by later allocations before the heap grows *)
Theorem C08_alloc_list_reuses : forall h l a fr, h_free_lists h = a :: fr -> a < length (h_lists h) ->
  let '(a', h') := alloc_list h l in
  a' = a /\ length (h_lists h') = length (h_lists h) /\ h_free_lists h' = fr /\
  nth a (h_lists h') [] = l /\ (forall b, b <> a -> nth b (h_lists h') [] = nth b (h_lists h) []) /\
  h_recs h' = h_recs h /\ h_free_recs h' = h_free_recs h.
Proof. exact alloc_list_reuses. Qed.
Print Assumptions C08_alloc_list_reuses.

Theorem C08_alloc_rec_reuses : forall h r a fr, h_free_recs h = a :: fr -> a < length (h_recs h) ->
  let '(a', h') := alloc_rec h r in
  a' = a /\ length (h_recs h') = length (h_recs h) /\ h_free_recs h' = fr /\
  nth a (h_recs h') [] = r /\ (forall b, b <> a -> nth b (h_recs h') [] = nth b (h_recs h) []) /\
  h_lists h' = h_lists h /\ h_free_lists h' = h_free_lists h.
Proof. exact alloc_rec_reuses. Qed.
Print Assumptions C08_alloc_rec_reuses.

(* the arenas grow only when the free list is empty, and then by exactly one slot *)
Theorem C08_list_arena_grows_only_when_no_free_slot : forall h l, h_free_lists h = [] ->
  let '(a', h') := alloc_list h l in
  a' = length (h_lists h) /\ h_lists h' = h_lists h ++ [l] /\ h_free_lists h' = [] /\
  h_recs h' = h_recs h /\ h_free_recs h' = h_free_recs h.
Proof. exact alloc_list_grows_only_when_no_free_slot. Qed.
Print Assumptions C08_list_arena_grows_only_when_no_free_slot.

Theorem C08_rec_arena_grows_only_when_no_free_slot : forall h r, h_free_recs h = [] ->
  let '(a', h') := alloc_rec h r in
  a' = length (h_recs h) /\ h_recs h' = h_recs h ++ [r] /\ h_free_recs h' = [] /\
  h_lists h' = h_lists h /\ h_free_lists h' = h_free_lists h.
Proof. exact alloc_rec_grows_only_when_no_free_slot. Qed.
Print Assumptions C08_rec_arena_grows_only_when_no_free_slot.

(* collections are triggered after a bounded amount of allocation: every allocation (also of an empty container)
   advances the counter, and a boundary at which the counter reached the threshold of the source collects *)
Theorem C08_every_allocation_counts : forall h l r,
  h_alloc h < h_alloc (snd (alloc_list h l)) /\ h_alloc h < h_alloc (snd (alloc_rec h r)).
Proof. exact alloc_counts. Qed.
Print Assumptions C08_every_allocation_counts.

Theorem C08_collect_when_due : forall boundary m,
  should_collect None boundary m = true <-> gc_threshold <= h_alloc (m_heap m).
Proof. exact collect_when_due. Qed.
Print Assumptions C08_collect_when_due.

Theorem C08_threshold_positive : 0 < gc_threshold.
Proof. exact gc_threshold_positive. Qed.
Print Assumptions C08_threshold_positive.
