(** C20 -- File and console built-ins agree with the file system and stdin.
    The theorems are about the wrappers over an *assumed* finite-map file system ([w_fs]) and input line list
    ([w_stdin]); the operating system itself is tied by the fs / stdin correspondence streams only. *)
From Pakhi Require Import Base Float64 Syntax Tables Lexer Interp.
From Pakhi.Proofs Require Import FsOps FsHistory.
Local Open Scope nat_scope.

Theorem C20_write_then_read : forall code m p c v m',
  builtin_op code 11 [VStr p; VStr c] m = Ok (v, m') ->
  v = VBool true /\
  builtin_op code 10 [VStr p] m' = Ok (VStr c, m') /\
  (forall q, q <> fs_norm (m_world m) p -> fs_get (m_world m') q = fs_get (m_world m) q) /\
  m_heap m' = m_heap m /\ m_out m' = m_out m /\ m_scopes m' = m_scopes m.
Proof. exact write_then_read. Qed.
Print Assumptions C20_write_then_read.

Theorem C20_delete_then_read_is_error : forall code m p v m',
  builtin_op code 12 [VStr p] m = Ok (v, m') -> builtin_op code 10 [VStr p] m' = fail_here code ERuntime m'.
Proof. exact delete_then_read. Qed.
Print Assumptions C20_delete_then_read_is_error.

Theorem C20_read_of_missing_path_is_error : forall code m p,
  (forall c, fs_get (m_world m) (fs_norm (m_world m) p) <> Some (FsFile c)) ->
  builtin_op code 10 [VStr p] m = fail_here code ERuntime m.
Proof. exact read_missing_is_error. Qed.
Print Assumptions C20_read_of_missing_path_is_error.

Theorem C20_created_directory_is_directory : forall code m p v m', fs_norm (m_world m) p <> [] ->
  builtin_op code 13 [VStr p] m = Ok (v, m') -> builtin_op code 16 [VStr p] m' = Ok (VStr text_dir, m').
Proof. exact mkdir_then_is_dir. Qed.
Print Assumptions C20_created_directory_is_directory.

Theorem C20_read_line_next : forall code m l r, w_stdin (m_world m) = l :: r ->
  builtin_op code 5 [] m = Ok (VStr (trim_end l), set_world m (mkWorld (w_fs (m_world m)) r (w_cwd (m_world m)))).
Proof. exact read_line_next. Qed.
Print Assumptions C20_read_line_next.

Theorem C20_trailing_blanks_removed : forall l, exists ws, l = trim_end l ++ ws /\ forallb is_whitespace ws = true /\
  (match rev (trim_end l) with c :: _ => is_whitespace c = false | [] => True end).
Proof. exact trim_end_spec. Qed.
Print Assumptions C20_trailing_blanks_removed.

Theorem C20_file_ops_never_panic : forall code m op args, 10 <= op <= 16 ->
  match builtin_op code op args m with Panic _ => False | OutOfFuel => False | _ => True end.
Proof. exact fs_ops_never_panic. Qed.
Print Assumptions C20_file_ops_never_panic.

(* histories.  Every file built-in changes the file system only inside its footprint -- the written or deleted path; the
   created directory and its ancestors; the removed directory and everything under it -- and never the working
   directory, the pending input, the output or the scopes *)
Theorem C20_every_operation_changes_only_its_footprint : forall code op args m v m', 10 <= op <= 16 ->
  builtin_op code op args m = Ok (v, m') ->
  (forall q, ~ footprint (w_cwd (m_world m)) op args q -> fs_get (m_world m') q = fs_get (m_world m) q) /\
  w_cwd (m_world m') = w_cwd (m_world m) /\ w_stdin (m_world m') = w_stdin (m_world m) /\
  m_out m' = m_out m /\ m_scopes m' = m_scopes m /\ m_pc m' = m_pc m.
Proof. exact fs_op_frame. Qed.
Print Assumptions C20_every_operation_changes_only_its_footprint.

(* so after ANY sequence of successful file operations that does not touch a path, a file written there before still
   reads back exactly, and a file deleted there before is still missing *)
Theorem C20_write_any_history_read : forall code m p c v m1 ops m2,
  builtin_op code 11 [VStr p; VStr c] m = Ok (v, m1) ->
  Forall (fun oa => 10 <= fst oa <= 16) ops -> fs_run code ops m1 = Some m2 ->
  Forall (fun oa => ~ footprint (w_cwd (m_world m)) (fst oa) (snd oa) (fs_norm (m_world m) p)) ops ->
  builtin_op code 10 [VStr p] m2 = Ok (VStr c, m2).
Proof. exact write_history_read. Qed.
Print Assumptions C20_write_any_history_read.

Theorem C20_delete_any_history_read : forall code m p v m1 ops m2,
  builtin_op code 12 [VStr p] m = Ok (v, m1) ->
  Forall (fun oa => 10 <= fst oa <= 16) ops -> fs_run code ops m1 = Some m2 ->
  Forall (fun oa => ~ footprint (w_cwd (m_world m)) (fst oa) (snd oa) (fs_norm (m_world m) p)) ops ->
  builtin_op code 10 [VStr p] m2 = fail_here code ERuntime m2.
Proof. exact delete_history_read. Qed.
Print Assumptions C20_delete_any_history_read.

(* the footprints are what one expects: removing directory d touches d/g and not f; creating d/e touches d and d/e *)
Example C20_footprints :
  let d := [100%N] in let f := [102%N] in let dg := [100; 47; 103]%N in let de := [100; 47; 101]%N in
  footprint [] 15 [VStr d] dg /\ ~ footprint [] 15 [VStr d] f /\
  footprint [] 13 [VStr de] d /\ footprint [] 13 [VStr de] de /\ ~ footprint [] 13 [VStr de] f /\
  ~ footprint [] 11 [VStr [103%N]; VStr []] f /\ ~ footprint [] 14 [VStr f] f.
Proof.
  unfold footprint; cbn. repeat split; try (right; reflexivity); try (left; reflexivity); try (right; left; reflexivity);
    try (intros [H|H]; discriminate); try (intros [H|[H|H]]; try discriminate; exact H); try (intros H; discriminate); try (intros H; exact H).
Qed.
