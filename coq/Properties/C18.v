(** C18 -- Output is exactly what the executed print statements denote, in order. *)
From Pakhi Require Import Base Float64 Syntax Tables Lexer Interp.
From Pakhi.Proofs Require Import OutputFrame Output Faults PrintFacts.
Local Open Scope nat_scope.

(* what was written stays written, in order: every statement and every expression only appends *)
(* no statement but a print statement writes: an expression that calls no user function (built-ins included: none of them
   writes) leaves the output exactly as it was, and so does every statement other than দেখাও / _দেখাও whose expressions call
   no user function -- a call runs other statements, to which this applies in turn *)
Theorem C18_expressions_without_user_calls_write_nothing : forall code f e m v m', nocall e = true ->
  eval code f e m = Ok (v, m') -> m_out m' = m_out m.
Proof. intros code f e m v m' Hn H. pose proof (eval_keeps_output code f e m Hn) as K. rewrite H in K. exact K. Qed.
Print Assumptions C18_expressions_without_user_calls_write_nothing.

Theorem C18_only_print_statements_write : forall code f m s m', stmt_at code (m_pc m) = Some s -> quiet s = true ->
  interp code f m = Ok m' -> m_out m' = m_out m.
Proof. intros code f m s m' Hs Hq H. pose proof (quiet_statement_keeps_output code f m s Hs Hq) as K. rewrite H in K. exact K. Qed.
Print Assumptions C18_only_print_statements_write.

Theorem C18_output_only_grows : forall code fuel e m,
  match eval code fuel e m with
  | Ok (_, m') => ext (m_out m) (m_out m')
  | Err er => ext (m_out m) (e_out er)
  | _ => True
  end.
Proof. exact eval_preserves_output. Qed.
Print Assumptions C18_output_only_grows.

(* scalars: strings verbatim, booleans as সত্য / মিথ্যা (spellings regenerated from the source); দেখাও ends with a newline *)
Theorem C18_scalars : forall code m s b,
  do_print code true (VStr s) m = Ok (next (emit m (CPrintln s))) /\ do_print code false (VStr s) m = Ok (next (emit m (CPrint s))) /\
  do_print code true (VBool b) m = Ok (next (emit m (CPrintln (if b then text_true else text_false)))) /\
  do_print code false (VBool b) m = Ok (next (emit m (CPrint (if b then text_true else text_false)))).
Proof. exact print_scalars. Qed.
Print Assumptions C18_scalars.

Theorem C18_numbers_as_in_C09 : forall code m x s, to_bn_num x = Some s ->
  do_print code true (VNum x) m = Ok (next (emit m (CPrintln s))) /\ do_print code false (VNum x) m = Ok (next (emit m (CPrint s))).
Proof. exact print_number. Qed.
Print Assumptions C18_numbers_as_in_C09.

Theorem C18_list_rendering : forall fuel h a l, nth_error (h_lists h) a = Some l ->
  render_nested (S fuel) h (VList a) =
  (do body <- (fix go (es : list value) : outcome (list chunk) :=
                 match es with
                 | [] => Ok []
                 | e :: [] => render_nested fuel h e
                 | e :: ((_ :: _) as r) => do c <- render_nested fuel h e; do cs <- go r; Ok (c ++ [CPrint [44; 32]%N] ++ cs)
                 end) l;
   Ok ([CPrint [91%N]] ++ body ++ [CPrint [93%N]])).
Proof. exact render_list_shape. Qed.
Print Assumptions C18_list_rendering.

Theorem C18_record_rendering : forall fuel h a r, nth_error (h_recs h) a = Some r ->
  render_nested (S fuel) h (VRec a) =
  (do body <- (fix go (es : list (text * value)) : outcome (list chunk) :=
                 match es with
                 | [] => Ok []
                 | (k, e) :: r => do c <- render_nested fuel h e; do cs <- go r;
                                  Ok ([CPrint ([34%N] ++ k ++ [34; 58]%N)] ++ c ++ [CPrint [44%N]] ++ cs)
                 end) r;
   Ok ([CPrint [64; 123]%N] ++ body ++ [CPrint [125%N]])).
Proof. exact render_record_shape. Qed.
Print Assumptions C18_record_rendering.

(* printing nil or a function is an error; a print statement that fails -- also deep inside a container -- has written nothing *)
Theorem C18_nil_and_function_unprintable : forall code eol m st ps,
  do_print code eol VNil m = fail_here code EType m /\ do_print code eol (VFun st ps) m = fail_here code EType m.
Proof. exact print_nil_or_function_is_error. Qed.
Print Assumptions C18_nil_and_function_unprintable.

Theorem C18_failing_print_writes_nothing : forall code eol v m e, do_print code eol v m = Err e -> e_out e = m_out m.
Proof. exact print_all_or_nothing. Qed.
Print Assumptions C18_failing_print_writes_nothing.

(* the spellings *)
Theorem C18_boolean_spellings : text_true = [2488; 2468; 2509; 2479]%N /\ text_false = [2478; 2495; 2469; 2509; 2479; 2494]%N.
Proof. vm_compute. split; reflexivity. Qed.
Print Assumptions C18_boolean_spellings.

(* the brackets, separators and key decoration the model writes are the literals the three renderers of the source write
   NOW ([fmt_*] are regenerated from interpreter.rs on every run) *)
Theorem C18_renderer_uses_the_literals_of_the_source :
  let h := mkHeap [[VStr [97%N]; VBool true]] [] [[([107%N], VList 0)]] [] 0 in
  render_nested 5 h (VRec 0) =
    Ok [CPrint fmt_rec_open; CPrint (fmt_key_prefix ++ [107%N] ++ fmt_key_suffix); CPrint fmt_list_open; CPrint [97%N]; CPrint fmt_list_sep;
        CPrint text_true; CPrint fmt_list_close; CPrint fmt_entry_end; CPrint fmt_rec_close].
Proof. exact renderer_uses_the_literals_of_the_source. Qed.
Print Assumptions C18_renderer_uses_the_literals_of_the_source.
