(** C14 -- Imported modules are namespaced: no name capture in either direction.
    The token-level theorems below say what an import does to the module's tokens (every identifier that is not a
    built-in function or the platform constant becomes alias/name, nothing else changes, the tokens are spliced after the
    import's terminator).  C14_qualified_module_code_behaves_like_the_original (Proofs/Compose.v, from the generalised
    simulation Sim2.v) is the semantic half: a statement vector whose names are all qualified by an alias in that way --
    and whose line/file metadata is anything at all -- runs exactly like the original: same output, same final world, same
    result, errors of the same kind and payload located at the mapped position; for every program, fuel, world and pair
    of collection schedules.  So a module's code refers to its own definitions whatever the alias, and moving definitions
    into a module and qualifying their uses cannot change behaviour.  Proofs/ParseEquiv.v connects the two halves for a
    module without import statements of its own: the parser never looks at the spelling of an identifier, so parsing the
    renamed tokens gives the renamed parse (C14_module_parse_is_the_renamed_parse: same statements, every name mapped by
    the qualification of C14_qualified_module_code_behaves_like_the_original, positions untouched, errors the same).
    What remains tied by the split-equiv stream only: that this holds for the module's tokens where they stand -- spliced
    between the importer's statements -- and through nested imports. *)
From Pakhi Require Import Base Float64 Syntax Tables Lexer Parser Interp.
From Pakhi.Proofs Require Import Modules WF Sim2Defs Sim2 Compose ParseTerm ParseEquiv.
Local Open Scope nat_scope.

Theorem C14_qualified_module_code_behaves_like_the_original : forall alias pi code platform w fuel schedA schedB,
  code_ok code -> code <> [] ->
  match fst (run (map (smap (qualify alias) pi) code) fuel schedA 0 (init_machine platform w)), fst (run code fuel schedB 0 (init_machine platform w)) with
  | OutOfFuel, _ | _, OutOfFuel => True
  | Ok nA, Ok nB => m_out nA = m_out nB ++ [] /\ m_world nA = m_world nB
  | Err eA, Err eB =>
      e_kind eA = e_kind eB /\ e_tag eA = e_tag eB /\ e_out eA = e_out eB ++ [] /\
      (mkPos (e_line eA) (e_file eA) = pi (mkPos (e_line eB) (e_file eB)) \/
       (e_kind eB = EUnexpected /\ e_line eA = e_line eB /\ e_file eA = e_file eB))
  | Panic sA, Panic sB => sA = sB
  | _, _ => False
  end.
Proof. exact module_qualification_invisible. Qed.
Print Assumptions C14_qualified_module_code_behaves_like_the_original.

(* the renaming: injective, leaves built-in functions and the platform constant alone, never produces a built-in name *)
Theorem C14_qualification_is_a_faithful_renaming : forall alias,
  (forall x y, qualify alias x = qualify alias y -> x = y) /\
  (forall x, is_builtin (qualify alias x) = is_builtin x) /\
  (forall x, is_builtin x = true -> qualify alias x = x) /\
  qualify alias platform_const = platform_const.
Proof. intros alias. repeat split; [apply qualify_inj|apply qualify_builtin|apply qualify_builtin_fix]. Qed.
Print Assumptions C14_qualification_is_a_faithful_renaming.

(* the general statement: ANY injective renaming that fixes the built-in names and the platform constant *)
Theorem C14_any_faithful_renaming_is_invisible : forall rho pi code platform w fuel schedA schedB,
  code_ok code -> code <> [] ->
  (forall x y, rho x = rho y -> x = y) -> (forall x, is_builtin (rho x) = is_builtin x) -> (forall x, is_builtin x = true -> rho x = x) ->
  rho platform_const = platform_const ->
  same_end2 pi [] (fst (run (map (smap rho pi) code) fuel schedA 0 (init_machine platform w))) (fst (run code fuel schedB 0 (init_machine platform w))).
Proof. exact rename_invisible. Qed.
Print Assumptions C14_any_faithful_renaming_is_invisible.

Theorem C14_renaming_touches_exactly_identifiers : forall alias ts pi,
  length (prepend_names ts alias pi) = length ts /\
  forall i t, nth_error ts i = Some t ->
    exists t', nth_error (prepend_names ts alias pi) i = Some t' /\
      t_kind t' = t_kind t /\ t_line t' = t_line t /\ t_file t' = t_file t /\
      (tk_is (t_kind t) TIdent = false -> t' = t) /\
      (t_lexeme t' = t_lexeme t \/ t_lexeme t' = alias ++ [c_slash] ++ t_lexeme t).
Proof. exact prepend_names_spec. Qed.
Print Assumptions C14_renaming_touches_exactly_identifiers.

Theorem C14_names_become_alias_slash_name : forall alias t pi, tk_is (t_kind t) TIdent = true -> exempt t = false ->
  t_lexeme (rename_tok alias pi t) = alias ++ [c_slash] ++ t_lexeme t.
Proof. exact identifiers_are_qualified. Qed.
Print Assumptions C14_names_become_alias_slash_name.

Theorem C14_builtins_and_constants_unqualified : forall alias t, tk_is (t_kind t) TIdent = true -> exempt t = true ->
  rename_tok alias false t = t.
Proof. exact builtins_stay_unqualified. Qed.
Print Assumptions C14_builtins_and_constants_unqualified.

(* the exemption list is the list of built-in functions of the source plus the platform constant *)
Theorem C14_exemption_table : length builtin_names = 17 /\ platform_const_parser = platform_const.
Proof. vm_compute. split; reflexivity. Qed.
Print Assumptions C14_exemption_table.

Theorem C14_equal_names_in_one_module_stay_equal_different_stay_different : forall alias x y,
  alias ++ [c_slash] ++ x = alias ++ [c_slash] ++ y -> x = y.
Proof. exact qualify_injective. Qed.
Print Assumptions C14_equal_names_in_one_module_stay_equal_different_stay_different.

Theorem C14_no_capture_between_importer_and_module : forall alias x y,
  firstn (length alias + 1) y <> alias ++ [c_slash] -> alias ++ [c_slash] ++ x <> y.
Proof. exact qualified_differs_from_unqualified. Qed.
Print Assumptions C14_no_capture_between_importer_and_module.

Theorem C14_no_capture_between_two_modules : forall a b x y, ~ In c_slash a -> ~ In c_slash b -> a <> b ->
  a ++ [c_slash] ++ x <> b ++ [c_slash] ++ y.
Proof. exact different_aliases_disjoint. Qed.
Print Assumptions C14_no_capture_between_two_modules.

Theorem C14_nested_import_names : forall a b x, a ++ [c_slash] ++ (b ++ [c_slash] ++ x) = (a ++ [c_slash] ++ b) ++ [c_slash] ++ x.
Proof. exact nested_qualification. Qed.
Print Assumptions C14_nested_import_names.

Theorem C14_dirname_denotes_directory_of_its_own_file : forall cwd ts loc ts', expand_dirname cwd ts loc = Ok ts' ->
  length ts' = length ts /\
  forall i t, nth_error ts i = Some t ->
    (tk_is (t_kind t) TIdent && text_eqb (t_lexeme t) dirname_const = false -> nth_error ts' i = Some t) /\
    (tk_is (t_kind t) TIdent && text_eqb (t_lexeme t) dirname_const = true ->
       exists d, dir_string cwd loc = Ok d /\ nth_error ts' i = Some (mkTok (TStr d) d (t_line t) (t_file t))).
Proof. exact dirname_expanded. Qed.
Print Assumptions C14_dirname_denotes_directory_of_its_own_file.

(* the module's code runs once, at the import point: its tokens are spliced right after the import's ';' *)
Theorem C14_module_spliced_at_import_point : forall fs cwd main_path alias module_path s1 s2,
  import_tail fs cwd main_path alias module_path s1 = Ok s2 ->
  exists semi after src toks toks',
    ps_rest s1 = semi :: after /\ fs (module_file_path main_path module_path) = Some src /\
    tokenize src (module_file_path main_path module_path) = Ok toks /\
    expand_dirname cwd toks (module_file_path main_path module_path) = Ok toks' /\
    ps_rest s2 = semi :: filter (fun t => negb (tk_is (t_kind t) TEOT)) (prepend_names toks' alias false) ++ after /\
    tk_is (t_kind (last (filter (fun t => negb (tk_is (t_kind t) TEOT)) (prepend_names toks' alias false)) (Lexer.eot []))) TImport = false /\
    ps_mods s2 = (alias, same_file_key (module_file_path main_path module_path)) :: ps_mods s1.
Proof. exact import_splices_in_place. Qed.
Print Assumptions C14_module_spliced_at_import_point.

(** the parser commutes with renaming identifiers, for any renaming [rho]: [sm rho s] is the parser state with every
    identifier token renamed, [smap rho idp] renames the names of a statement and leaves positions alone *)
Theorem C14_parser_commutes_with_renaming : forall rho fs cwd main_path f s, ParseTerm.eot s -> noimp s ->
  pprogram fs cwd main_path f (sm rho s) = omp rho (pprogram fs cwd main_path f s).
Proof. exact pprogram_equivariant. Qed.
Print Assumptions C14_parser_commutes_with_renaming.

(* what an import does to the tokens of a module without imports of its own is that renaming, with rho = qualification *)
Theorem C14_import_renaming_is_a_token_renaming : forall alias ts, Forall (fun t => t_kind t <> TImport) ts ->
  prepend_names ts alias false = map (tmap (qualify_name alias)) ts.
Proof. exact prepend_names_is_tmap. Qed.
Print Assumptions C14_import_renaming_is_a_token_renaming.

Theorem C14_module_parse_is_the_renamed_parse : forall fs cwd main_path alias f ts prev last mods,
  Forall (fun t => t_kind t <> TImport) ts -> t_kind last = TEOT ->
  pprogram fs cwd main_path f (mkPs (prepend_names ts alias false) (option_map (tmap (qualify_name alias)) prev) (tmap (qualify_name alias) last) mods) =
  omp (qualify_name alias) (pprogram fs cwd main_path f (mkPs ts prev last mods)).
Proof. exact module_parse_is_renamed_parse. Qed.
Print Assumptions C14_module_parse_is_the_renamed_parse.

(* and that qualification is the one of the semantic theorem above *)
Theorem C14_the_two_qualifications_agree : forall alias x, qualify_name alias x = qualify alias x.
Proof. exact qualify_name_is_qualify. Qed.
Print Assumptions C14_the_two_qualifications_agree.
