(** C14 -- Imported modules are namespaced: no name capture in either direction.
    PARTIAL: the renaming and splicing theorems below are proved; "moving definitions into a module does not change the
    program's behaviour" needs the simulation theorem S of DESIGN.md (behaviour is invariant under an injective
    renaming of names), which is not proved -- it is covered by the split-equiv metamorphic stream. *)
From Pakhi Require Import Base Float64 Syntax Tables Lexer Parser.
From Pakhi.Proofs Require Import Modules.
Local Open Scope nat_scope.

Theorem C14_renaming_touches_exactly_identifiers : forall alias ts pi,
  length (prepend_names ts alias pi) = length ts /\
  forall i t, nth_error ts i = Some t ->
    exists t', nth_error (prepend_names ts alias pi) i = Some t' /\
      t_kind t' = t_kind t /\ t_line t' = t_line t /\ t_file t' = t_file t /\
      (tk_is (t_kind t) TIdent = false -> t' = t) /\
      (t_lexeme t' = t_lexeme t \/ t_lexeme t' = alias ++ [c_slash] ++ t_lexeme t).
Proof. exact prepend_names_spec. Qed.
Print Assumptions C14_renaming_touches_exactly_identifiers.

Theorem C14_names_become_alias_slash_name : forall alias t pi, tk_is (t_kind t) TIdent = true -> exempt t = false ->
  t_lexeme (rename_tok alias pi t) = alias ++ [c_slash] ++ t_lexeme t.
Proof. exact identifiers_are_qualified. Qed.
Print Assumptions C14_names_become_alias_slash_name.

Theorem C14_builtins_and_constants_unqualified : forall alias t, tk_is (t_kind t) TIdent = true -> exempt t = true ->
  rename_tok alias false t = t.
Proof. exact builtins_stay_unqualified. Qed.
Print Assumptions C14_builtins_and_constants_unqualified.

(* the exemption list is the list of built-in functions of the source plus the platform constant *)
Theorem C14_exemption_table : length builtin_names = 17 /\ platform_const_parser = platform_const.
Proof. vm_compute. split; reflexivity. Qed.
Print Assumptions C14_exemption_table.

Theorem C14_equal_names_in_one_module_stay_equal_different_stay_different : forall alias x y,
  alias ++ [c_slash] ++ x = alias ++ [c_slash] ++ y -> x = y.
Proof. exact qualify_injective. Qed.
Print Assumptions C14_equal_names_in_one_module_stay_equal_different_stay_different.

Theorem C14_no_capture_between_importer_and_module : forall alias x y,
  firstn (length alias + 1) y <> alias ++ [c_slash] -> alias ++ [c_slash] ++ x <> y.
Proof. exact qualified_differs_from_unqualified. Qed.
Print Assumptions C14_no_capture_between_importer_and_module.

Theorem C14_no_capture_between_two_modules : forall a b x y, ~ In c_slash a -> ~ In c_slash b -> a <> b ->
  a ++ [c_slash] ++ x <> b ++ [c_slash] ++ y.
Proof. exact different_aliases_disjoint. Qed.
Print Assumptions C14_no_capture_between_two_modules.

Theorem C14_nested_import_names : forall a b x, a ++ [c_slash] ++ (b ++ [c_slash] ++ x) = (a ++ [c_slash] ++ b) ++ [c_slash] ++ x.
Proof. exact nested_qualification. Qed.
Print Assumptions C14_nested_import_names.

Theorem C14_dirname_denotes_directory_of_its_own_file : forall cwd ts loc ts', expand_dirname cwd ts loc = Ok ts' ->
  length ts' = length ts /\
  forall i t, nth_error ts i = Some t ->
    (tk_is (t_kind t) TIdent && text_eqb (t_lexeme t) dirname_const = false -> nth_error ts' i = Some t) /\
    (tk_is (t_kind t) TIdent && text_eqb (t_lexeme t) dirname_const = true ->
       exists d, dir_string cwd loc = Ok d /\ nth_error ts' i = Some (mkTok (TStr d) d (t_line t) (t_file t))).
Proof. exact dirname_expanded. Qed.
Print Assumptions C14_dirname_denotes_directory_of_its_own_file.

(* the module's code runs once, at the import point: its tokens are spliced right after the import's ';' *)
Theorem C14_module_spliced_at_import_point : forall fs cwd main_path alias module_path s1 s2,
  import_tail fs cwd main_path alias module_path s1 = Ok s2 ->
  exists semi after src toks toks',
    ps_rest s1 = semi :: after /\ fs (module_file_path main_path module_path) = Some src /\
    tokenize src (module_file_path main_path module_path) = Ok toks /\
    expand_dirname cwd toks (module_file_path main_path module_path) = Ok toks' /\
    ps_rest s2 = semi :: filter (fun t => negb (tk_is (t_kind t) TEOT)) (prepend_names toks' alias false) ++ after /\
    ps_mods s2 = (alias, same_file_key (module_file_path main_path module_path)) :: ps_mods s1.
Proof. exact import_splices_in_place. Qed.
Print Assumptions C14_module_spliced_at_import_point.
