(** C19 -- Independent program fragments compose: earlier code leaves no hidden state.
    The headline is C19_fragments_compose (Proofs/Compose.v, from the generalised simulation of Sim2Defs.v / Sim2.v): take
    the statement vector of P1;P2 -- c1 followed by c2 with its line/file metadata moved through any map pi -- and any
    machine state at the first statement of P2 in which the control stacks are neutral and the one open scope binds none of
    the names P2 mentions (whatever else P1 left there: variables, functions, containers anywhere in the arenas, free
    lists, garbage, allocation counter, output already written).  Then running on from that state and running P2 ALONE
    from the initial state end alike, under any two collection schedules: the output of P1;P2 is the output of P2 alone
    after what had been written, the final world is the same, and an error has the same kind and payload and is located at
    pi of the location in P2 alone.  C19_control_state_is_neutral_between_fragments (Proofs/TopLevel.v, the frame invariant
    of the top level) shows that whenever a run from the initial state stands at a position outside every block and loop,
    the control stacks ARE neutral and the free lists duplicate free -- whatever conditionals, returns, breaks, finished
    loops and collections came before; C19_fragments_compose_from_the_start (Proofs/Fragments.v) chains the two: observe
    the run of P1;P2 at the first statement of P2, and from there it is indistinguishable from P2 alone.
    C19_fragments_compose_when_they_share_no_names (at the end of this file; PrefixRun.v, FragmentsAlone.v, KeysOK.v) is
    the property with its own hypothesis: P1 alone terminates normally, P2 mentions none of the names P1 declares -- then
    P1;P2 passes through P1's final machine on P2's first statement and ends like P2 alone. *)
From Pakhi Require Import Base Float64 Syntax Tables Lexer Interp Parser.
From Pakhi.Proofs Require Import Scope Control GCMark GCSweep WF WFOps Frames FrameInv Sim2Defs Sim2 Compose TopLevel Fragments PrefixRun FragmentsAlone KeysOK.
From Pakhi.Proofs Require Import Findings.
Local Open Scope nat_scope.

Theorem C19_control_state_is_neutral_between_fragments : forall code, code_ok code -> forall platform w fuel sched, code <> [] ->
  let m := snd (run code fuel sched 0 (init_machine platform w)) in
  (sd code (m_pc m) = 0%Z /\ forall l, loop_ok code (top_frame code) l -> ~ inside (m_pc m) l) ->
  mwf code m /\ length (m_scopes m) = 1 /\ m_loops m = [] /\ m_loop_base m = 0 /\ m_ret m = [] /\
  (NoDup (h_free_lists (m_heap m)) /\ NoDup (h_free_recs (m_heap m))).
Proof. exact top_neutral. Qed.
Print Assumptions C19_control_state_is_neutral_between_fragments.

Theorem C19_fragments_compose_from_the_start : forall (N : text -> Prop) c1 c2 pi platform w fuel1 sched1 fuel schedA schedB bA,
  let codeA := c1 ++ map (smap idn pi) c2 in
  let mA := snd (run codeA fuel1 sched1 0 (init_machine platform w)) in
  code_ok codeA -> code_ok c2 -> c2 <> [] ->
  m_pc mA = length c1 -> closed_at codeA (length c1) ->
  (forall pc s, stmt_at c2 pc = Some s -> Forall N (snames s)) ->
  (forall g, m_scopes mA = [g] -> alist_get platform_const g = Some (VStr platform) /\
             forall x, N x -> x <> platform_const -> alist_get x g = None) ->
  same_end2 pi (m_out mA) (fst (run codeA fuel schedA bA mA)) (fst (run c2 fuel schedB 0 (init_machine platform (m_world mA)))).
Proof. exact compose_from_start. Qed.
Print Assumptions C19_fragments_compose_from_the_start.

Theorem C19_fragments_compose : forall (N : text -> Prop) c1 c2 pi mA platform fuel schedA schedB bA,
  let codeA := c1 ++ map (smap idn pi) c2 in
  code_ok codeA -> code_ok c2 -> c2 <> [] ->
  mwf codeA mA -> m_pc mA = length c1 -> m_loops mA = [] -> m_ret mA = [] -> m_loop_base mA = 0 ->
  NoDup (h_free_lists (m_heap mA)) -> NoDup (h_free_recs (m_heap mA)) ->
  (forall pc s, stmt_at c2 pc = Some s -> Forall N (snames s)) ->
  (exists g, m_scopes mA = [g] /\ alist_get platform_const g = Some (VStr platform) /\
             forall x, N x -> x <> platform_const -> alist_get x g = None) ->
  match fst (run codeA fuel schedA bA mA), fst (run c2 fuel schedB 0 (init_machine platform (m_world mA))) with
  | OutOfFuel, _ | _, OutOfFuel => True
  | Ok nA, Ok nB => m_out nA = m_out nB ++ m_out mA /\ m_world nA = m_world nB
  | Err eA, Err eB =>
      e_kind eA = e_kind eB /\ e_tag eA = e_tag eB /\ e_out eA = e_out eB ++ m_out mA /\
      (mkPos (e_line eA) (e_file eA) = pi (mkPos (e_line eB) (e_file eB)) \/
       (e_kind eB = EUnexpected /\ e_line eA = e_line eB /\ e_file eA = e_file eB))
  | Panic sA, Panic sB => sA = sB
  | _, _ => False
  end.
Proof. exact compose. Qed.
Print Assumptions C19_fragments_compose.

(* non-vacuity: P1 = `নাম a = [..];` has run; P2 = `দেখাও "x";` -- the state after P1 meets every hypothesis (checked by
   computation for the concrete vectors), and the two runs agree as the theorem says *)
Example C19_compose_instance :
  let p1 := mkPos 1 [] in let p2 := mkPos 2 [] in
  let c1 := [FAssign AFirst [97%N] p1 [] (Some (EList [EStr [98%N] p1] p1)) p1] in
  let c2 := [FPrint (EStr [120%N] p1) p1; FEOS p1] in
  let pi := fun _ : pos => p2 in
  let codeA := c1 ++ map (smap idn pi) c2 in
  let m0 := init_machine [] (mkWorld [] [] []) in
  let mA := match interp codeA 9 m0 with Ok m => m | _ => m0 end in
  m_pc mA = 1 /\ m_loops mA = [] /\ m_ret mA = [] /\ length (m_scopes mA) = 1 /\
  exists nA nB, fst (run codeA 9 None 1 mA) = Ok nA /\ fst (run c2 9 None 0 (init_machine [] (mkWorld [] [] []))) = Ok nB /\
                m_out nA = m_out nB ++ m_out mA /\ m_out nB <> [].
Proof. cbv zeta. split; [vm_compute; reflexivity|]. split; [vm_compute; reflexivity|]. split; [vm_compute; reflexivity|]. split; [vm_compute; reflexivity|]. eexists. eexists. split; [vm_compute; reflexivity|]. split; [vm_compute; reflexivity|]. split; [vm_compute; reflexivity|discriminate]. Qed.

(* conditionals leave nothing behind: the else step is a function of the code and the program counter alone; any two
   machine states at the same else statement continue at the same place, each otherwise unchanged *)
Theorem C19_no_residue_of_conditionals : forall code fuel m1 m2 ep pre tail post,
  code = pre ++ FElse ep :: tail ++ post -> chain_tail tail -> not_else post -> m_pc m1 = length pre -> m_pc m2 = length pre ->
  interp code (S fuel) m1 = Ok (set_pc m1 (length pre + 1 + length tail)) /\
  interp code (S fuel) m2 = Ok (set_pc m2 (length pre + 1 + length tail)).
Proof. intros. split; eapply else_skips_rest_of_chain; eauto. Qed.
Print Assumptions C19_no_residue_of_conditionals.

(* returns taken from inside loops and blocks leave nothing behind: loop base, scope height restored, no callee loop left *)
Theorem C19_no_residue_of_returns : forall code fuel name np args p m v m',
  is_builtin name = false ->
  eval code (S fuel) (ECall (EVar name np) args p) m = Ok (v, m') ->
  length (m_scopes m') = length (m_scopes m) /\ m_loop_base m' = m_loop_base m /\ length (m_loops m') <= length (m_loops m).
Proof. intros. edestruct call_restores_heights as (A & B & C & _); eauto. Qed.
Print Assumptions C19_no_residue_of_returns.

(* breaks taken from inside nested blocks leave nothing behind: the loop entry is removed, scopes cut to entry depth *)
Theorem C19_no_residue_of_breaks : forall code fuel m p l ls,
  stmt_at code (m_pc m) = Some (FBreak p) -> m_loops m = l :: ls -> m_loop_base m < length (m_loops m) ->
  interp code (S fuel) m = Ok (set_pc (set_loops (set_scopes m (truncate (l_depth l) (m_scopes m))) ls) (l_end l)).
Proof. exact break_innermost. Qed.
Print Assumptions C19_no_residue_of_breaks.

(* discarded containers leave nothing behind that a later fragment can observe: a collection keeps every reachable
   container unchanged and the free lists never hold a reachable slot *)
Theorem C19_no_residue_of_discarded_containers : forall h ss h', wf_heap h -> wf_scopes h ss -> free_ok h ss ->
  collect ss h = Ok h' -> free_ok h' ss /\ collect_post ss h h'.
Proof.
  intros h ss h' Hh Hs Hf Hc. split; [eapply collect_free_ok; eauto|].
  destruct (collect_correct h ss Hh Hs) as (h2 & E & P). rewrite E in Hc. injection Hc as <-. exact P.
Qed.
Print Assumptions C19_no_residue_of_discarded_containers.

(* P1;P2 reaches P2's first statement in exactly the machine in which P1, run as a program of its own, ends: every
   successful step of P1 alone is the step P1;P2 makes (same fuel, same collection schedule) *)
Theorem C19_p1_alone_is_a_prefix_of_p1_p2 : forall c1 c2 pe s0 r2,
  c2 = s0 :: r2 -> (forall p, s0 <> FElse p) -> Forall (fun s => is_eos s = false) c1 ->
  forall fuel sched b m m1 mlast,
  run (code1 c1 pe) fuel sched b m = (Ok m1, mlast) ->
  m_pc m1 = length c1 /\
  exists j, j <= fuel /\ run (codeA c1 c2) fuel sched b m = run (codeA c1 c2) (fuel - j) sched (b + j) m1.
Proof. exact p1_alone_is_a_prefix. Qed.
Print Assumptions C19_p1_alone_is_a_prefix_of_p1_p2.

(* end to end from "P1 alone terminates normally": P1;P2 passes through P1's final machine, and from there ends like P2
   alone -- the name hypothesis is about the final global scope of P1 ALONE *)
Theorem C19_fragments_compose_after_p1_alone : forall c1 c2 pe pi (N : text -> Prop) platform w fuel1 sched1 m1 mlast s0 r2,
  map (smap idn pi) c2 = s0 :: r2 -> (forall p, s0 <> FElse p) -> Forall (fun s => is_eos s = false) c1 ->
  code_ok (code1 c1 pe) -> code_ok (codeA c1 (map (smap idn pi) c2)) -> code_ok c2 -> c2 <> [] ->
  run (code1 c1 pe) fuel1 sched1 0 (init_machine platform w) = (Ok m1, mlast) ->
  closed_at (code1 c1 pe) (length c1) ->
  (forall pc s, stmt_at c2 pc = Some s -> Forall N (snames s)) ->
  (forall g, m_scopes m1 = [g] -> alist_get platform_const g = Some (VStr platform) /\
             forall x, N x -> x <> platform_const -> alist_get x g = None) ->
  (exists j, j <= fuel1 /\ run (codeA c1 (map (smap idn pi) c2)) fuel1 sched1 0 (init_machine platform w)
                           = run (codeA c1 (map (smap idn pi) c2)) (fuel1 - j) sched1 j m1) /\
  m_pc m1 = length c1 /\
  forall fuel schedA schedB bA,
    same_end2 pi (m_out m1) (fst (run (codeA c1 (map (smap idn pi) c2)) fuel schedA bA m1))
                            (fst (run c2 fuel schedB 0 (init_machine platform (m_world m1)))).
Proof. exact compose_after_p1_alone. Qed.
Print Assumptions C19_fragments_compose_after_p1_alone.

(* THE PROPERTY WITH ITS OWN HYPOTHESIS: "P1 terminates normally and P1 and P2 share no names".  D: the names P1 declares
   (variables, functions); P2 mentions names of N only; N and D are disjoint; P1 does not touch the platform constant.
   Then P1;P2 passes through the machine P1 alone ends in, positioned on P2's first statement, and from there ends like P2
   alone: same output after P1's, same final world, same result, errors of the same kind at the shifted position. *)
Theorem C19_fragments_compose_when_they_share_no_names : forall (c1 c2 : list fstmt) pe pi (N D : text -> Prop) platform w fuel1 sched1 m1 mlast s0 r2,
  let P1 := code1 c1 pe in
  let P12 := codeA c1 (map (smap idn pi) c2) in
  map (smap idn pi) c2 = s0 :: r2 -> (forall p, s0 <> FElse p) -> Forall (fun s => is_eos s = false) c1 ->
  code_ok P1 -> code_ok P12 -> code_ok c2 -> c2 <> [] ->
  run P1 fuel1 sched1 0 (init_machine platform w) = (Ok m1, mlast) ->
  closed_at P1 (length c1) ->
  (forall pc y yp idx init p, stmt_at P1 pc = Some (FAssign AFirst y yp idx init p) -> D y) ->
  (forall pc q f fp args ap sp, stmt_at P1 pc = Some (FFuncDef q) -> stmt_at P1 (S pc) = Some (FExpr (ECall (EVar f fp) args ap) sp) -> D f) ->
  ~ D platform_const ->
  (forall pc y yp idx init p, stmt_at P1 pc = Some (FAssign AReassign y yp idx init p) -> y <> platform_const) ->
  (forall pc s, stmt_at c2 pc = Some s -> Forall N (snames s)) ->
  (forall x, N x -> ~ D x) ->
  (exists j, j <= fuel1 /\ run P12 fuel1 sched1 0 (init_machine platform w) = run P12 (fuel1 - j) sched1 j m1) /\
  m_pc m1 = length c1 /\
  forall fuel schedA schedB bA,
    same_end2 pi (m_out m1) (fst (run P12 fuel schedA bA m1)) (fst (run c2 fuel schedB 0 (init_machine platform (m_world m1)))).
Proof. exact fragments_compose_when_names_are_disjoint. Qed.
Print Assumptions C19_fragments_compose_when_they_share_no_names.

(* on the way: at every statement boundary of every run, every bound name is a declared name of the program *)
Theorem C19_bound_names_are_declared_names : forall code, code_ok code -> forall platform (D : text -> Prop),
  (forall pc y yp idx init p, stmt_at code pc = Some (FAssign AFirst y yp idx init p) -> D y) ->
  (forall pc q f fp args ap sp, stmt_at code pc = Some (FFuncDef q) -> stmt_at code (S pc) = Some (FExpr (ECall (EVar f fp) args ap) sp) -> D f) ->
  ~ D platform_const ->
  (forall pc y yp idx init p, stmt_at code pc = Some (FAssign AReassign y yp idx init p) -> y <> platform_const) ->
  forall w fuel sched, code <> [] ->
  let m := snd (run code fuel sched 0 (init_machine platform w)) in K1 D m /\ K2 platform m.
Proof. exact bound_names_are_declared_names. Qed.
Print Assumptions C19_bound_names_are_declared_names.

(* finding D29: P1 imports a file under the name ক, P2 the same file under ক/খ; both load alone, P1;P2 ends in the cyclic-dependency error *)
Theorem C19_composition_is_refuted_for_extending_import_names :
  loads (front d29_fs d29_cwd d29_main 2000 d29_p1) = true /\
  loads (front d29_fs d29_cwd d29_main 2000 d29_p2) = true /\
  is_cyclic_error (front d29_fs d29_cwd d29_main 2000 (d29_p1 ++ d29_p2)) = true.
Proof. exact slash_import_name_refutes_composition. Qed.
Print Assumptions C19_composition_is_refuted_for_extending_import_names.
