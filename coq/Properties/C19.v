(** C19 -- Independent program fragments compose: earlier code leaves no hidden state.
    PARTIAL.  The full statement (P1;P2 prints out(P1) ++ out(P2 alone), same ending up to the line shift) needs the
    refinement theorem R and the simulation theorem S of DESIGN.md, which are not proved; it is covered by the compose
    stream (implementation-only metamorphic relation + model comparison).  What is proved here is that each kind of
    residue named in the property cannot exist in the machine: *)
From Pakhi Require Import Base Float64 Syntax Tables Lexer Interp.
From Pakhi.Proofs Require Import Scope Control GCMark GCSweep.
Local Open Scope nat_scope.

(* conditionals leave nothing behind: the else step is a function of the code and the program counter alone; any two
   machine states at the same else statement continue at the same place, each otherwise unchanged *)
Theorem C19_no_residue_of_conditionals : forall code fuel m1 m2 ep pre tail post,
  code = pre ++ FElse ep :: tail ++ post -> chain_tail tail -> not_else post -> m_pc m1 = length pre -> m_pc m2 = length pre ->
  interp code (S fuel) m1 = Ok (set_pc m1 (length pre + 1 + length tail)) /\
  interp code (S fuel) m2 = Ok (set_pc m2 (length pre + 1 + length tail)).
Proof. intros. split; eapply else_skips_rest_of_chain; eauto. Qed.
Print Assumptions C19_no_residue_of_conditionals.

(* returns taken from inside loops and blocks leave nothing behind: loop base, scope height restored, no callee loop left *)
Theorem C19_no_residue_of_returns : forall code fuel name np args p m v m',
  is_builtin name = false ->
  eval code (S fuel) (ECall (EVar name np) args p) m = Ok (v, m') ->
  length (m_scopes m') = length (m_scopes m) /\ m_loop_base m' = m_loop_base m /\ length (m_loops m') <= length (m_loops m).
Proof. intros. edestruct call_restores_heights as (A & B & C & _); eauto. Qed.
Print Assumptions C19_no_residue_of_returns.

(* breaks taken from inside nested blocks leave nothing behind: the loop entry is removed, scopes cut to entry depth *)
Theorem C19_no_residue_of_breaks : forall code fuel m p l ls,
  stmt_at code (m_pc m) = Some (FBreak p) -> m_loops m = l :: ls -> m_loop_base m < length (m_loops m) ->
  interp code (S fuel) m = Ok (set_pc (set_loops (set_scopes m (truncate (l_depth l) (m_scopes m))) ls) (l_end l)).
Proof. exact break_innermost. Qed.
Print Assumptions C19_no_residue_of_breaks.

(* discarded containers leave nothing behind that a later fragment can observe: a collection keeps every reachable
   container unchanged and the free lists never hold a reachable slot *)
Theorem C19_no_residue_of_discarded_containers : forall h ss h', wf_heap h -> wf_scopes h ss -> free_ok h ss ->
  collect ss h = Ok h' -> free_ok h' ss /\ collect_post ss h h'.
Proof.
  intros h ss h' Hh Hs Hf Hc. split; [eapply collect_free_ok; eauto|].
  destruct (collect_correct h ss Hh Hs) as (h2 & E & P). rewrite E in Hc. injection Hc as <-. exact P.
Qed.
Print Assumptions C19_no_residue_of_discarded_containers.
