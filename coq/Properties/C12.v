(** C12 -- The parser is total: any token stream yields an AST or an error value.
    Proved: no panic, for every source text, every file map (imports included), every fuel; every successful
    sub-parse consumes at least one token, so no loop of the parser can spin without progress.
    Not proved as a theorem: that a fuel linear in the number of tokens is never exhausted (the model runs on fuel
    supplied by the driver; an exhausted fuel would show as "hang" in the parse stream).  "Every documented form is
    accepted": for EXPRESSIONS this is C12_every_expression_form_is_accepted (Proofs/ParseRender.v): every expression tree
    the grammar can express -- literals, variables, lists, records, grouping, unary and binary operators, calls, indexing,
    nested in one another to any depth -- is accepted, with enough fuel, and parsed to that very tree; for statements it is
    covered by the parse stream (valid generated programs and every truncation of the documented statement forms). *)
From Pakhi Require Import Base Float64 Syntax Tables Lexer Parser.
From Pakhi.Proofs Require Import ParseTotal ParseRender.
Local Open Scope nat_scope.

Theorem C12_every_expression_form_is_accepted : forall e rest prev last mods, shape_ok e = true -> rest <> [] -> stop 0 (t_kind (hd last rest)) = true ->
  exists n e' t', expression n (mkPs (render (paren 0 e) ++ rest) prev last mods) = Ok (e', mkPs rest (Some t') last mods) /\
                  ungroup (erase e') = ungroup (erase e).
Proof. exact every_tree_reads_back. Qed.
Print Assumptions C12_every_expression_form_is_accepted.

Theorem C12_lex_and_parse_never_panic : forall fs cwd main_path fuel src,
  main_path <> [] -> last main_path c_slash <> c_slash ->
  no_panic (front fs cwd main_path fuel src).
Proof. exact front_never_panics. Qed.
Print Assumptions C12_lex_and_parse_never_panic.

(* for any token state at all (also vectors the tokenizer cannot produce): the expression parser never panics and a
   returned expression consumed at least one token *)
Theorem C12_expression_parser_total : forall fuel s,
  no_panic (expression fuel s) /\ (forall e s', expression fuel s = Ok (e, s') -> len s' < len s).
Proof. exact expression_total. Qed.
Print Assumptions C12_expression_parser_total.

(* every mutually recursive piece: no panic, progress (strict for those that must consume, weak for the loops) *)
Theorem C12_every_subparser_total : forall f, expr_parser_ok f.
Proof. exact expr_parser_total. Qed.
Print Assumptions C12_every_subparser_total.

(* sub-parsers only move the cursor forward *)
Theorem C12_subparsers_only_advance : forall f, expr_parser_adv f.
Proof. exact expr_parser_only_advances. Qed.
Print Assumptions C12_subparsers_only_advance.

(* statements and whole programs, for every token vector whose last token is not ';' (the tokenizer's end marker) *)
Theorem C12_statement_parser_total : forall fs cwd main_path fuel s, inv s ->
  no_panic (pstmt fs cwd main_path fuel s) /\ forall st s', pstmt fs cwd main_path fuel s = Ok (st, s') -> inv s'.
Proof. exact pstmt_total. Qed.
Print Assumptions C12_statement_parser_total.

Theorem C12_program_parser_total : forall fs cwd main_path fuel s, inv s -> no_panic (pprogram fs cwd main_path fuel s).
Proof. exact pprogram_total. Qed.
Print Assumptions C12_program_parser_total.

(* the import statement: missing file, bad extension, cycle, lexical error in the module are error values *)
Theorem C12_import_never_panics : forall fs cwd main_path fuel alias s, inv s ->
  no_panic (named_module_import fs cwd main_path fuel alias s) /\
  forall s2, named_module_import fs cwd main_path fuel alias s = Ok s2 -> inv s2.
Proof. exact named_module_import_total. Qed.
Print Assumptions C12_import_never_panics.
