(** C12 -- The parser is total: any token stream yields an AST or an error value.
    Proved: no panic, for every source text, every file map (imports included), every fuel; every successful
    sub-parse consumes at least one token, so no loop of the parser can spin without progress.
    Not proved as a theorem: that a fuel linear in the number of tokens is never exhausted (the model runs on fuel
    supplied by the driver; an exhausted fuel would show as "hang" in the parse stream), and that every documented
    form is accepted (valid generated programs in the parse stream). *)
From Pakhi Require Import Base Float64 Syntax Tables Lexer Parser.
From Pakhi.Proofs Require Import ParseTotal.
Local Open Scope nat_scope.

Theorem C12_lex_and_parse_never_panic : forall fs cwd main_path fuel src,
  main_path <> [] -> last main_path c_slash <> c_slash ->
  no_panic (front fs cwd main_path fuel src).
Proof. exact front_never_panics. Qed.
Print Assumptions C12_lex_and_parse_never_panic.

(* for any token state at all (also vectors the tokenizer cannot produce): the expression parser never panics and a
   returned expression consumed at least one token *)
Theorem C12_expression_parser_total : forall fuel s,
  no_panic (expression fuel s) /\ (forall e s', expression fuel s = Ok (e, s') -> len s' < len s).
Proof. exact expression_total. Qed.
Print Assumptions C12_expression_parser_total.

(* every mutually recursive piece: no panic, progress (strict for those that must consume, weak for the loops) *)
Theorem C12_every_subparser_total : forall f, expr_parser_ok f.
Proof. exact expr_parser_total. Qed.
Print Assumptions C12_every_subparser_total.

(* sub-parsers only move the cursor forward *)
Theorem C12_subparsers_only_advance : forall f, expr_parser_adv f.
Proof. exact expr_parser_only_advances. Qed.
Print Assumptions C12_subparsers_only_advance.

(* statements and whole programs, for every token vector whose last token is not ';' (the tokenizer's end marker) *)
Theorem C12_statement_parser_total : forall fs cwd main_path fuel s, inv s ->
  no_panic (pstmt fs cwd main_path fuel s) /\ forall st s', pstmt fs cwd main_path fuel s = Ok (st, s') -> inv s'.
Proof. exact pstmt_total. Qed.
Print Assumptions C12_statement_parser_total.

Theorem C12_program_parser_total : forall fs cwd main_path fuel s, inv s -> no_panic (pprogram fs cwd main_path fuel s).
Proof. exact pprogram_total. Qed.
Print Assumptions C12_program_parser_total.

(* the import statement: missing file, bad extension, cycle, lexical error in the module are error values *)
Theorem C12_import_never_panics : forall fs cwd main_path fuel alias s, inv s ->
  no_panic (named_module_import fs cwd main_path fuel alias s) /\
  forall s2, named_module_import fs cwd main_path fuel alias s = Ok s2 -> inv s2.
Proof. exact named_module_import_total. Qed.
Print Assumptions C12_import_never_panics.
