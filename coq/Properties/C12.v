(** C12 -- The parser is total: any token stream yields an AST or an error value.
    Proved: no panic, for every source text, every file map (imports included), every fuel; every successful
    sub-parse consumes at least one token, so no loop of the parser can spin without progress.
    Termination is a theorem too: 50 units of fuel per token plus 50 always suffice for a program without import
    statements (C12_expression_parser_terminates and the termination theorems below, Proofs/ParseTerm.v), and with imports for every finite set of module files
    (C15_loading_terminates, Proofs/LoaderTerm.v).  "Every program composed of the
    documented forms is accepted" IS a theorem: C12_every_expression_form_is_accepted (Proofs/ParseRender.v: every
    expression tree the grammar can express -- literals, variables, lists, records, grouping, unary and binary operators,
    calls, indexing, nested to any depth -- is parsed to that very tree) and C12_documented_programs_are_accepted
    (Proofs/StmtRender.v: every statement vector made of print / print-without-newline / declaration with and without
    initialiser / assignment to a variable and to an indexed path / call statement / block open and close / if / else /
    loop / break / continue / function marker / return with and without value, ending in the end marker, with well-formed
    expressions, is accepted from some fuel on and parsed to that very vector; blocks, chains, loops and function bodies
    are markers of the flat vector, so nesting to any depth is included).  Import statements are the subject of C14/C15. *)
From Pakhi Require Import Base Float64 Syntax Tables Lexer Parser.
From Pakhi.Proofs Require Import ParseTotal ParseRender StmtRender ParseTerm.
Local Open Scope nat_scope.

Theorem C12_documented_programs_are_accepted : forall fs cwd main_path ss, prog_ok ss = true ->
  existsb (fun t => tk_is (t_kind t) TIdent && text_eqb (t_lexeme t) dirname_const) (render_prog ss) = false ->
  exists n ss', (forall f, n <= f -> parse fs cwd main_path f (render_prog ss) = Ok ss') /\ map serase ss' = map serase ss.
Proof. exact parse_reads. Qed.
Print Assumptions C12_documented_programs_are_accepted.

(* each statement form, from some fuel on *)
Theorem C12_each_statement_form_is_accepted : forall fs cwd main_path last mods s rest prev,
  swf s = true -> is_eos_b s = false -> rest <> [] -> stmt_ok_after last s rest ->
  exists n s' prev', (forall f, n <= f -> pstmt fs cwd main_path f (mkPs (consumed s ++ leftover s ++ rest) prev last mods)
                                          = Ok (s', mkPs (leftover s ++ rest) prev' last mods)) /\ serase s' = serase s.
Proof. exact stmt_reads. Qed.
Print Assumptions C12_each_statement_form_is_accepted.

(* non-vacuity: `নাম x = [1, 2]; x[0] = x[1] - 1 - 2; যদি x[0] < 0 { দেখাও f(x); } অথবা { ফেরত; }` as a statement vector *)
Example C12_program_instance :
  let v := fun c : N => EVar [c] p0 in let n := fun z => ENum (Float64.f_of_Z z) p0 in
  let ss := [FAssign AFirst [120%N] p0 [] (Some (EList [n 1%Z; n 2%Z] p0)) p0;
             FAssign AReassign [120%N] p0 [EList [n 0%Z] p0] (Some (EBin BSub (EBin BSub (EIndex (v 120%N) (n 1%Z) p0) (n 1%Z) p0) (n 2%Z) p0)) p0;
             FIf (EBin BLt (EIndex (v 120%N) (n 0%Z) p0) (n 0%Z) p0) p0; FBlockStart p0; FPrint (ECall (v 102%N) [v 120%N] p0) p0; FBlockEnd p0;
             FElse p0; FBlockStart p0; FReturn (ENil p0) p0; FBlockEnd p0; FEOS p0] in
  prog_ok ss = true /\
  match parse (fun _ => None) [] [109%N] 60 (render_prog ss) with Ok ss' => map serase ss' = map serase ss | _ => False end.
Proof. vm_compute. split; reflexivity. Qed.

Theorem C12_every_expression_form_is_accepted : forall e rest prev last mods, shape_ok e = true -> rest <> [] -> stop 0 (t_kind (hd last rest)) = true ->
  exists n e' t', expression n (mkPs (render (paren 0 e) ++ rest) prev last mods) = Ok (e', mkPs rest (Some t') last mods) /\
                  ungroup (erase e') = ungroup (erase e).
Proof. exact every_tree_reads_back. Qed.
Print Assumptions C12_every_expression_form_is_accepted.

Theorem C12_lex_and_parse_never_panic : forall fs cwd main_path fuel src,
  main_path <> [] -> last main_path c_slash <> c_slash ->
  no_panic (front fs cwd main_path fuel src).
Proof. exact front_never_panics. Qed.
Print Assumptions C12_lex_and_parse_never_panic.

(* for any token state at all (also vectors the tokenizer cannot produce): the expression parser never panics and a
   returned expression consumed at least one token *)
Theorem C12_expression_parser_total : forall fuel s,
  no_panic (expression fuel s) /\ (forall e s', expression fuel s = Ok (e, s') -> len s' < len s).
Proof. exact expression_total. Qed.
Print Assumptions C12_expression_parser_total.

(* every mutually recursive piece: no panic, progress (strict for those that must consume, weak for the loops) *)
Theorem C12_every_subparser_total : forall f, expr_parser_ok f.
Proof. exact expr_parser_total. Qed.
Print Assumptions C12_every_subparser_total.

(* sub-parsers only move the cursor forward *)
Theorem C12_subparsers_only_advance : forall f, expr_parser_adv f.
Proof. exact expr_parser_only_advances. Qed.
Print Assumptions C12_subparsers_only_advance.

(* statements and whole programs, for every token vector whose last token is not ';' (the tokenizer's end marker) *)
Theorem C12_statement_parser_total : forall fs cwd main_path fuel s, inv s ->
  no_panic (pstmt fs cwd main_path fuel s) /\ forall st s', pstmt fs cwd main_path fuel s = Ok (st, s') -> inv s'.
Proof. exact pstmt_total. Qed.
Print Assumptions C12_statement_parser_total.

Theorem C12_program_parser_total : forall fs cwd main_path fuel s, inv s -> no_panic (pprogram fs cwd main_path fuel s).
Proof. exact pprogram_total. Qed.
Print Assumptions C12_program_parser_total.

(* the import statement: missing file, bad extension, cycle, lexical error in the module are error values *)
Theorem C12_import_never_panics : forall fs cwd main_path fuel alias s, inv s ->
  no_panic (named_module_import fs cwd main_path fuel alias s) /\
  forall s2, named_module_import fs cwd main_path fuel alias s = Ok s2 -> inv s2.
Proof. exact named_module_import_total. Qed.
Print Assumptions C12_import_never_panics.

(* TERMINATION.  The parser model recurses on fuel (one unit per nesting level of its calls).  For every token vector that
   ends with the end marker, 50 units per remaining token plus a constant always suffice: the result is a tree or an error
   value, never OutOfFuel -- with C12_*_total above: for every token sequence the parser terminates with a statement
   vector or a syntax error.  Statements and programs: for vectors without an import statement (an import splices in the
   tokens of another file; loading is C15). *)
Theorem C12_expression_parser_terminates : forall s, ParseTerm.eot s -> forall f, 50 * len s + 40 <= f -> fin (expression f s).
Proof. exact expression_terminates. Qed.
Print Assumptions C12_expression_parser_terminates.

Theorem C12_every_subparser_terminates : forall f, term_ok f.
Proof. exact expr_parser_terminates. Qed.
Print Assumptions C12_every_subparser_terminates.

Theorem C12_program_parser_terminates : forall fs cwd main_path f s, ParseTerm.eot s -> noimp s -> 50 * len s + 50 <= f ->
  fin (pprogram fs cwd main_path f s).
Proof. exact pprogram_terminates. Qed.
Print Assumptions C12_program_parser_terminates.

(* a statement other than the end marker consumes at least one token: the program loop cannot spin *)
Theorem C12_every_statement_consumes_a_token : forall fs cwd main_path f s st s1, ParseTerm.eot s -> noimp s ->
  pstmt fs cwd main_path f s = Ok (st, s1) -> advances s s1 /\ match st with FEOS _ => True | _ => len s1 < len s end.
Proof. exact pstmt_progress. Qed.
Print Assumptions C12_every_statement_consumes_a_token.

(* lexer + parser: for every source text without an import statement, 50 units of fuel per token plus 50 are enough *)
Theorem C12_front_end_terminates : forall fs cwd main_path src toks,
  tokenize src main_path = Ok toks -> Forall (fun t => t_kind t <> TImport) toks ->
  forall fuel, 50 * length toks + 50 <= fuel -> fin (front fs cwd main_path fuel src).
Proof. exact front_terminates. Qed.
Print Assumptions C12_front_end_terminates.

Theorem C12_front_end_terminates_in_source_length : forall fs cwd main_path src,
  match tokenize src main_path with Ok toks => Forall (fun t => t_kind t <> TImport) toks | _ => True end ->
  forall fuel, 50 * S (length src) + 50 <= fuel -> fin (front fs cwd main_path fuel src).
Proof. exact front_terminates_in_source_length. Qed.
Print Assumptions C12_front_end_terminates_in_source_length.

(* the bound is met by a real program: parsed with exactly that fuel *)
Example C12_termination_bound_instance :
  let src := [2470;2503;2454;2494;2451;32;2535;32;43;32;2536;32;42;32;40;2537;32;45;32;2535;41;59]%N in
  match front (fun _ => None) [] [109%N] (50 * S (length src) + 50) src with Ok (_ :: _ :: _) => True | _ => False end.
Proof. vm_compute. exact I. Qed.
