(** Model of src/frontend/parser.rs (code-shaped, executable, no proofs in this file).

    The Rust parser walks a token vector with an index [current]; an import splices the module's tokens
    into the vector after the import's ';'.  The model keeps the not yet consumed suffix [ps_rest], the last
    consumed token [ps_prev] (Rust reads [tokens[current - 1]] for positions) and the last token of the whole
    vector [ps_last] (Rust's [tok()] yields it for every index past the end).  [current >= tokens.len()] is
    [ps_rest = []].  The file system is the parameter [fs]; the working directory is [cwd]. *)
From Pakhi Require Import Base Float64 Syntax Tables Lexer.
Local Open Scope N_scope.

Record pstate := mkPs {
  ps_rest : list token;
  ps_prev : option token;
  ps_last : token;
  ps_mods : list (text * text)        (* import name -> file key *)
}.

Definition c_slash : N := 47.

(** ** Paths (std::path on '/'-separated text) *)
Fixpoint strip_trailing_slashes_rev (r : text) : text :=
  match r with c :: r' => if c =? c_slash then strip_trailing_slashes_rev r' else r | [] => [] end.

Fixpoint drop_last_component_rev (r : text) : text :=      (* r reversed, without trailing slashes *)
  match r with c :: r' => if c =? c_slash then r else drop_last_component_rev r' | [] => [] end.

(* Path::parent *)
Definition path_parent (p : text) : option text :=
  match p with
  | [] => None
  | _ =>
    let r := strip_trailing_slashes_rev (rev p) in
    match r with
    | [] => None                                   (* "/" *)
    | _ =>
      let d := drop_last_component_rev r in        (* reversed, ends (starts) with '/' or empty *)
      match d with
      | [] => Some []
      | _ => match strip_trailing_slashes_rev d with
             | [] => Some [c_slash]
             | d' => Some (rev d')
             end
      end
    end
  end.

Definition path_is_absolute (p : text) : bool := match p with c :: _ => c =? c_slash | [] => false end.

(* PathBuf::join *)
Definition path_join (base p : text) : text :=
  if path_is_absolute p then p
  else match base with
       | [] => p
       | _ => if (last base 0 =? c_slash) then base ++ p else base ++ [c_slash] ++ p
       end.

Definition ends_with (s suffix : text) : bool :=
  (length suffix <=? length s)%nat && text_eqb (skipn (length s - length suffix) s) suffix.

Section WithFs.
Variable fs : text -> option text.       (* path -> file content (io.read_src_code_from_file) *)
Variable cwd : text.                     (* std::env::current_dir() *)
Variable main_path : text.               (* Parser.main_module_path *)

Definition head (s : pstate) : token := match ps_rest s with t :: _ => t | [] => ps_last s end.      (* tok(current) *)
Definition head2 (s : pstate) : token :=                                                          (* tok(current + 1) *)
  match ps_rest s with _ :: t :: _ => t | _ => ps_last s end.
Definition adv (s : pstate) : pstate :=
  match ps_rest s with
  | t :: r => mkPs r (Some t) (ps_last s) (ps_mods s)
  | [] => s
  end.
Definition at_end (s : pstate) : bool := match ps_rest s with [] => true | _ => false end.
Definition hk (s : pstate) : tkind := t_kind (head s).
Definition tpos (t : token) : pos := mkPos (t_line t) (t_file t).

Definition unexpected {A} : outcome A := Err (mkErr0 EUnexpected 0 [] TagGeneric).

(* get_token_line_file_name(i) for a token already in hand *)
Definition pos_tok (s : pstate) (t : token) : outcome pos := if at_end s then unexpected else Ok (tpos t).
(* get_token_line_file_name(self.current) *)
Definition pos_here (s : pstate) : outcome pos := if at_end s then unexpected else Ok (tpos (head s)).
(* get_token_line_file_name(self.current - 1) *)
Definition pos_prev (s : pstate) : outcome pos :=
  if at_end s then unexpected
  else match ps_prev s with Some t => Ok (tpos t) | None => Panic SiteUnderflow end.
(* Err(SyntaxError(extract_err_meta()?)) *)
Definition syntax_here {A} (s : pstate) : outcome A :=
  if at_end s then unexpected else Err (mkErr0 ESyntax (t_line (head s)) (t_file (head s)) TagGeneric).

Definition binop_at (lvl : nat) (k : tkind) : option binop :=
  match lvl, k with
  | 0%nat, TOr => Some BOr
  | 1%nat, TAnd => Some BAnd
  | 2%nat, TNotEq => Some BNe | 2%nat, TEqEq => Some BEq
  | 3%nat, TGt => Some BGt | 3%nat, TGe => Some BGe | 3%nat, TLt => Some BLt | 3%nat, TLe => Some BLe
  | 4%nat, TPlus => Some BAdd | 4%nat, TMinus => Some BSub
  | 5%nat, TMul => Some BMul | 5%nat, TDiv => Some BDiv | 5%nat, TRem => Some BRem
  | _, _ => None
  end.

(** ** Expressions: levels 0 or, 1 and, 2 equality, 3 comparison, 4 addition, 5 multiplication, 6 unary, 7 call, 8 primary *)
Fixpoint pexpr (fuel : nat) (lvl : nat) (s : pstate) {struct fuel} : outcome (expr * pstate) :=
  match fuel with
  | O => OutOfFuel
  | S f =>
    match lvl with
    | 6%nat =>
        match hk s with
        | TNot | TMinus =>
            let o := match hk s with TNot => UNot | _ => UNeg end in
            do p <- pos_here s;
            do '(r, s1) <- pexpr f 6 (adv s);
            Ok (EUn o r p, s1)
        | _ => pexpr f 7 s
        end
    | 7%nat => do '(e, s1) <- pexpr f 8 s; pcalls f e s1
    | 8%nat => pprimary f s
    | _ => do '(e, s1) <- pexpr f (S lvl) s; pbin f lvl e s1
    end
  end
with pbin (fuel : nat) (lvl : nat) (e : expr) (s : pstate) {struct fuel} : outcome (expr * pstate) :=
  match fuel with
  | O => OutOfFuel
  | S f =>
    match binop_at lvl (hk s) with
    | Some o =>
        do '(r, s1) <- pexpr f (S lvl) (adv s);
        do p <- pos_prev s1;
        pbin f lvl (EBin o e r p) s1
    | None => Ok (e, s)
    end
  end
with pcalls (fuel : nat) (e : expr) (s : pstate) {struct fuel} : outcome (expr * pstate) :=
  match fuel with
  | O => OutOfFuel
  | S f =>
    match hk s with
    | TLParen =>
        let s1 := adv s in
        do p <- pos_prev s1;
        do '(args, s2) <- (match hk s1 with
                           | TRParen => Ok ([], s1)
                           | _ => pargs f s1
                           end);
        pcalls f (ECall e args p) (adv s2)
    | _ => Ok (e, s)
    end
  end
with pargs (fuel : nat) (s : pstate) {struct fuel} : outcome (list expr * pstate) :=
  match fuel with
  | O => OutOfFuel
  | S f =>
    do '(e, s1) <- pexpr f 0 s;
    match hk s1 with
    | TComma => do '(es, s2) <- pargs f (adv s1); Ok (e :: es, s2)
    | _ => Ok ([e], s1)
    end
  end
with pitems (fuel : nat) (s : pstate) {struct fuel} : outcome (list expr * pstate) :=      (* list literal body *)
  match fuel with
  | O => OutOfFuel
  | S f =>
    match hk s with
    | TRSquare => Ok ([], s)
    | _ =>
      do '(e, s1) <- pexpr f 0 s;
      let s2 := match hk s1 with TComma => adv s1 | _ => s1 end in
      do '(es, s3) <- pitems f s2;
      Ok (e :: es, s3)
    end
  end
with pentries (fuel : nat) (s : pstate) {struct fuel} : outcome (list expr * list expr * pstate) :=   (* record body *)
  match fuel with
  | O => OutOfFuel
  | S f =>
    match hk s with
    | TRCurly => Ok ([], [], s)
    | _ =>
      do '(k, s1) <- pexpr f 0 s;
      match hk s1 with
      | TMap =>
          do '(v, s2) <- pexpr f 0 (adv s1);
          let s3 := match hk s2 with TComma => adv s2 | _ => s2 end in
          do '(ks, vs, s4) <- pentries f s3;
          Ok (k :: ks, v :: vs, s4)
      | _ => syntax_here s1
      end
    end
  end
with pindexes (fuel : nat) (e : expr) (s : pstate) {struct fuel} : outcome (expr * pstate) :=   (* x[i][j] *)
  match fuel with
  | O => OutOfFuel
  | S f =>
    match hk s with
    | TLSquare =>
        let first := head s in
        do '(i, s1) <- pexpr f 0 (adv s);
        match hk s1 with
        | TRSquare =>
            let s2 := adv s1 in
            do p <- pos_tok s2 first;
            pindexes f (EIndex e i p) s2
        | _ => syntax_here s1
        end
    | _ => Ok (e, s)
    end
  end
with pprimary (fuel : nat) (s : pstate) {struct fuel} : outcome (expr * pstate) :=
  match fuel with
  | O => OutOfFuel
  | S f =>
    match hk s with
    | TBool b => let s1 := adv s in do p <- pos_prev s1; Ok (EBool b p, s1)
    | TNum x => let s1 := adv s in do p <- pos_prev s1; Ok (ENum x p, s1)
    | TStr x => let s1 := adv s in do p <- pos_prev s1; Ok (EStr x p, s1)
    | TIdent =>
        let first := head s in
        do p <- pos_tok s first;
        pindexes f (EVar (t_lexeme first) p) (adv s)
    | TLParen =>
        let first := head s in
        do '(e, s1) <- pexpr f 0 (adv s);
        let s2 := adv s1 in
        do p <- pos_tok s2 first;
        Ok (EGroup e p, s2)
    | TLSquare =>
        let first := head s in
        do '(es, s1) <- pitems f (adv s);
        let s2 := adv s1 in
        do p <- pos_tok s2 first;
        Ok (EList es p, s2)
    | TAt =>
        let first := head s in
        let s1 := adv s in
        match hk s1 with
        | TLCurly =>
            do '(ks, vs, s2) <- pentries f (adv s1);
            let s3 := adv s2 in
            do p <- pos_tok s3 first;
            Ok (ERec ks vs p, s3)
        | _ => syntax_here s1
        end
    | _ => syntax_here s
    end
  end.

Definition expression (fuel : nat) (s : pstate) := pexpr fuel 0 s.

(** ** Modules *)
Definition module_file_path (path : text) : text :=
  path_join (match path_parent main_path with Some d => d | None => [] end) path.

(* same_file_key: the canonical path when the file exists; the model identifies a file with its path text *)
Definition same_file_key (p : text) : text := p.

Definition abs_path (p : text) : text := if path_is_absolute p then p else path_join cwd p.

(* directory string that replaces _ডাইরেক্টরি in the tokens of file [loc] *)
Definition dir_string (loc : text) : outcome text :=
  match path_parent (abs_path loc) with
  | None => Panic SiteUnwrap
  | Some d => Ok (if ends_with d [c_slash] then d else d ++ [c_slash])
  end.

Definition expand_dirname (ts : list token) (loc : text) : outcome (list token) :=
  if existsb (fun t => tk_is (t_kind t) TIdent && text_eqb (t_lexeme t) dirname_const) ts then
    do d <- dir_string loc;
    Ok (map (fun t => if tk_is (t_kind t) TIdent && text_eqb (t_lexeme t) dirname_const
                      then mkTok (TStr d) d (t_line t) (t_file t) else t) ts)
  else Ok ts.

Definition is_builtin (name : text) : bool := existsb (text_eqb name) builtin_names.

Fixpoint prepend_names (ts : list token) (alias : text) (prev_import : bool) : list token :=
  match ts with
  | [] => []
  | t :: r =>
      let is_import_name := prev_import in
      let t' :=
        if tk_is (t_kind t) TIdent then
          if negb is_import_name && (is_builtin (t_lexeme t) || text_eqb (t_lexeme t) platform_const_parser) then t
          else mkTok (t_kind t) (alias ++ [c_slash] ++ t_lexeme t) (t_line t) (t_file t)
        else t in
      t' :: prepend_names r alias (tk_is (t_kind t) TImport)
  end.

(* prefixes of the import name that end before a '/' *)
Fixpoint slash_prefixes (acc_rev : text) (name : text) : list text :=
  match name with
  | [] => []
  | c :: r => (if c =? c_slash then [rev acc_rev] else []) ++ slash_prefixes (c :: acc_rev) r
  end.

Definition cyclic_err {A} : outcome A := Err (mkErr0 ERuntime 0 [] TagCyclic).

(* named_module_import, entered with head = the import name token *)
Fixpoint import_path_rest (fuel : nat) (acc : text) (s : pstate) : outcome (text * pstate) :=
  match fuel with
  | O => OutOfFuel
  | S f =>
    match hk s with
    | TSemi => Ok (acc, s)
    | TStr p => import_path_rest f (path_join acc p) (adv s)
    | TPlus => import_path_rest f acc (adv s)
    | _ => syntax_here s
    end
  end.

Definition named_module_import (fuel : nat) (alias : text) (s : pstate) : outcome pstate :=
  let s := adv (adv s) in
  do '(module_path, s1) <- (match hk s with
                            | TStr p => import_path_rest fuel p (adv s)
                            | _ => syntax_here s
                            end);
  if negb (ends_with module_path module_ext) then syntax_here s1 else
  let final := module_file_path module_path in
  let module_file := same_file_key final in
  let importing := same_file_key main_path ::
                   flat_map (fun pre => match assoc_text pre (ps_mods s1) with Some f => [f] | None => [] end)
                            (slash_prefixes [] alias) in
  if existsb (text_eqb module_file) importing then cyclic_err else
  let mods := (alias, module_file) :: ps_mods s1 in
  match fs final with
  | None => Err (mkErr0 ERuntime 0 [] TagGeneric)
  | Some src =>
      do toks <- tokenize src final;
      do toks <- expand_dirname toks final;
      let toks := prepend_names toks alias false in
      let ins := filter (fun t => negb (tk_is (t_kind t) TEOT)) toks in
      (* a module whose text stops right after the module keyword is rejected: the import name would be a token
         of the importing file *)
      let tl := last ins (eot []) in
      if tk_is (t_kind tl) TImport then Err (mkErr0 ESyntax (t_line tl) (t_file tl) TagGeneric) else
      match ps_rest s1 with
      | semi :: after =>
          let new_rest := semi :: ins ++ after in
          Ok (mkPs new_rest (ps_prev s1) (last new_rest (ps_last s1)) mods)
      | [] => Panic SiteVecRange
      end
  end.

(** ** Statements *)
Fixpoint pindex_list (fuel : nat) (s : pstate) : outcome (list expr * pstate) :=    (* while tok != '=' *)
  match fuel with
  | O => OutOfFuel
  | S f =>
    match hk s with
    | TEqual => Ok ([], s)
    | _ =>
      do '(i, s1) <- expression f s;
      match i with
      | EList _ _ => do '(is, s2) <- pindex_list f s1; Ok (i :: is, s2)
      | _ => syntax_here s1
      end
    end
  end.

Fixpoint pstmt (fuel : nat) (s : pstate) {struct fuel} : outcome (fstmt * pstate) :=
  match fuel with
  | O => OutOfFuel
  | S f =>
    do p <- pos_here s;
    match hk s with
    | TPrint => do '(e, s1) <- expression f (adv s); Ok (FPrint e p, adv s1)
    | TPrintNoEol => do '(e, s1) <- expression f (adv s); Ok (FPrintNoEol e p, adv s1)
    | TVar =>
        let s1 := adv s in
        match hk s1 with
        | TIdent =>
            let name := head s1 in
            let s2 := adv s1 in
            do '(init, s3) <- (match hk s2 with
                               | TSemi => Ok (None, s2)
                               | _ => do '(e, s3) <- expression f (adv s2); Ok (Some e, s3)
                               end);
            match hk s3 with
            | TSemi => Ok (FAssign AFirst (t_lexeme name) (tpos name) [] init p, adv s3)
            | _ =>
                if at_end s3 then unexpected
                else match ps_prev s3 with
                     | Some t => Err (mkErr0 ESyntax (t_line t) (t_file t) TagGeneric)
                     | None => Panic SiteUnderflow
                     end
            end
        | _ => syntax_here s1
        end
    | TIdent =>
        match t_kind (head2 s) with
        | TLParen => do '(e, s1) <- expression f s; Ok (FExpr e p, s1)
        | TEqual | TLSquare =>
            let name := head s in
            do '(idx, s1) <- pindex_list f (adv s);
            do '(e, s2) <- expression f (adv s1);
            Ok (FAssign AReassign (t_lexeme name) (tpos name) idx (Some e) p, adv s2)
        | _ => do '(e, s1) <- expression f s; Ok (FExpr e p, s1)
        end
    | TLCurly => let s1 := adv s in do q <- pos_prev s1; Ok (FBlockStart q, s1)
    | TRCurly => let s1 := adv s in do q <- pos_prev s1; Ok (FBlockEnd q, s1)
    | TIf => do '(c, s1) <- expression f (adv s); do q <- pos_prev s1; Ok (FIf c q, s1)
    | TElse => let s1 := adv s in do q <- pos_prev s1; Ok (FElse q, s1)
    | TLoop => let s1 := adv s in do q <- pos_prev s1; Ok (FLoop q, s1)
    | TContinue => Ok (FContinue p, adv (adv s))
    | TBreak => Ok (FBreak p, adv (adv s))
    | TFunction => let s1 := adv s in do q <- pos_prev s1; Ok (FFuncDef q, s1)
    | TReturn =>
        let s1 := adv s in
        do '(e, s2) <- (match hk s1 with
                        | TSemi => Ok (ENil p, s1)
                        | _ => expression f s1
                        end);
        Ok (FReturn e p, adv s2)
    | TComment => pstmt f (adv s)
    | TImport =>
        let s1 := adv s in
        match hk s1 with
        | TIdent =>
            do s2 <- named_module_import f (t_lexeme (head s1)) s1;
            pstmt f (adv s2)
        | _ => syntax_here s1
        end
    | TEOT => Ok (FEOS p, s)
    | _ => syntax_here s
    end
  end.

Fixpoint pprogram (fuel : nat) (s : pstate) {struct fuel} : outcome (list fstmt) :=
  match fuel with
  | O => OutOfFuel
  | S f =>
    do '(st, s1) <- pstmt f s;
    match st with
    | FEOS _ => Ok [st]
    | _ =>
      if at_end s1 then unexpected
      else
        let s2 := match hk s1 with TSemi => adv s1 | _ => s1 end in
        do r <- pprogram f s2; Ok (st :: r)
    end
  end.

Definition parse (fuel : nat) (tokens : list token) : outcome (list fstmt) :=
  match tokens with
  | [] => unexpected                                  (* statements(): current >= tokens.len() *)
  | t0 :: _ =>
    do toks <- expand_dirname tokens main_path;
    pprogram fuel (mkPs toks None (last toks t0) [])
  end.

End WithFs.

(* lexer + parser on the main module *)
Definition front (fs : text -> option text) (cwd main_path : text) (fuel : nat) (src : text) : outcome (list fstmt) :=
  do toks <- tokenize src main_path;
  parse fs cwd main_path fuel toks.
