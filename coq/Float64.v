(** IEEE-754 binary64 as Coq's executable specification [SpecFloat.spec_float] at prec 53, emax 1024,
    together with models of the Rust std functions the interpreter uses on f64:
    [f64::to_string] (flt2dec shortest + positional formatting), [str::parse::<f64>], [as usize], [%]. *)
From Coq Require Import ZArith NArith List Bool Lia.
From Coq Require Export Floats.SpecFloat.
From Pakhi Require Import Base.
Import ListNotations.
Local Open Scope Z_scope.

Definition f64 := spec_float.
Definition prec := 53.
Definition emax := 1024.

Definition f_add := SFadd prec emax.
Definition f_sub := SFsub prec emax.
Definition f_mul := SFmul prec emax.
Definition f_div := SFdiv prec emax.
Definition f_eqb := SFeqb.            (* Rust ==: NaN <> NaN, 0 == -0 *)
Definition f_ltb := SFltb.
Definition f_leb := SFleb.
Definition f_zero : f64 := S754_zero false.
Definition f_minus_one : f64 := S754_finite true (2 ^ 52) (-52).
Definition f_neg (x : f64) : f64 := f_mul x f_minus_one.     (* n * -1.0 *)

Definition f_of_Z (n : Z) : f64 := binary_normalize prec emax n 0 false.
Definition f_of_nat (n : nat) : f64 := f_of_Z (Z.of_nat n).   (* len as f64 *)

(* Rust [%] on f64 is C fmod: exact, sign of the dividend *)
Definition f_rem (x y : f64) : f64 :=
  match x, y with
  | S754_nan, _ | _, S754_nan => S754_nan
  | S754_infinity _, _ => S754_nan
  | _, S754_zero _ => S754_nan
  | S754_zero s, _ => S754_zero s
  | S754_finite _ _ _, S754_infinity _ => x
  | S754_finite sx mx ex, S754_finite _ my ey =>
      let e := Z.min ex ey in
      let X := Zpos mx * 2 ^ (ex - e) in
      let Y := Zpos my * 2 ^ (ey - e) in
      let R := X mod Y in
      if R =? 0 then S754_zero sx
      else binary_normalize prec emax (if sx then - R else R) e sx
  end.

(* Rust [x as usize] on a 64-bit target: saturating, NaN -> 0 *)
Definition usize_max : Z := 2 ^ 64 - 1.
Definition f_to_usize (x : f64) : Z :=
  match x with
  | S754_nan => 0
  | S754_zero _ => 0
  | S754_infinity s => if s then 0 else usize_max
  | S754_finite s m e =>
      if s then 0 else
      let v := if 0 <=? e then Zpos m * 2 ^ e else Zpos m / 2 ^ (- e) in
      Z.min v usize_max
  end.

(* [x >= 0.0] in Rust *)
Definition f_nonneg (x : f64) : bool := f_leb f_zero x.

(** ** Decimal to binary64, correctly rounded (round to nearest even) *)

(* value = (-1)^neg * m * 10^e10, m >= 0 *)
Definition dec_to_f64 (neg : bool) (m : Z) (e10 : Z) : f64 :=
  if m <=? 0 then S754_zero neg
  else if 0 <=? e10 then binary_normalize prec emax (if neg then - (m * 10 ^ e10) else m * 10 ^ e10) 0 neg
  else match m with
       | Zpos mp => SFdiv prec emax (S754_finite neg mp 0) (S754_finite false (Z.to_pos (10 ^ (- e10))) 0)
       | _ => S754_zero neg
       end.

(* number of decimal digits of m > 0 is at most [length ds]; used to clamp absurd exponents so that
   text such as "1e999999999" does not make the model compute 10^999999999 *)
Definition dec_to_f64_clamped (neg : bool) (m : Z) (ndigits : Z) (e10 : Z) : f64 :=
  if m <=? 0 then S754_zero neg
  else if 400 <? e10 then S754_infinity neg                   (* m >= 1 *)
  else if ndigits + e10 <? -400 then S754_zero neg             (* m < 10^ndigits *)
  else dec_to_f64 neg m e10.

(** ** Text helpers *)
Definition c_minus : N := 45%N.
Definition c_plus : N := 43%N.
Definition c_dot : N := 46%N.
Definition c_0 : N := 48%N.

Definition is_ascii_digit (c : N) : bool := (48 <=? c)%N && (c <=? 57)%N.
Definition digit_val (c : N) : Z := Z.of_N c - 48.

Fixpoint digits_val (acc : Z) (ds : text) : Z :=
  match ds with [] => acc | d :: r => digits_val (acc * 10 + digit_val d) r end.

Fixpoint span_digits (s : text) : text * text :=
  match s with
  | c :: r => if is_ascii_digit c then let '(a, b) := span_digits r in (c :: a, b) else ([], s)
  | [] => ([], [])
  end.

Definition lower (c : N) : N := if (65 <=? c)%N && (c <=? 90)%N then (c + 32)%N else c.

(** ** [str::parse::<f64>] (core::num::dec2flt grammar)
    Float ::= Sign? ( 'inf' | 'infinity' | 'nan' | Number ), case-insensitive specials
    Number ::= ( Digit+ | Digit+ '.' Digit* | Digit* '.' Digit+ ) Exp? ; Exp ::= [eE] Sign? Digit+ *)
Definition parse_special (s : text) : option (bool -> f64) :=
  let l := map lower s in
  if text_eqb l [105;110;102]%N then Some (fun neg => S754_infinity neg)
  else if text_eqb l [105;110;102;105;110;105;116;121]%N then Some (fun neg => S754_infinity neg)
  else if text_eqb l [110;97;110]%N then Some (fun _ => S754_nan)
  else None.

Definition parse_exp (s : text) : option Z :=
  match s with
  | [] => Some 0
  | c :: r =>
      if (lower c =? 101)%N then
        let '(neg, r) := match r with
                         | d :: r' => if (d =? c_minus)%N then (true, r') else if (d =? c_plus)%N then (false, r') else (false, r)
                         | [] => (false, r)
                         end in
        let '(ds, rest) := span_digits r in
        match ds, rest with
        | _ :: _, [] =>
            (* clamp the exponent value: beyond +-100000 the result is the same as at the clamp *)
            let v := digits_val 0 (firstn 8 ds) in
            let v := if (8 <? length ds)%nat then 100000000 else v in
            Some (if neg then - v else v)
        | _, _ => None
        end
      else None
  end.

Fixpoint strip_zeros (ds : text) : text :=
  match ds with c :: r => if (c =? c_0)%N then strip_zeros r else ds | [] => [] end.

Definition parse_f64 (s : text) : option f64 :=
  let '(neg, body) := match s with
                      | c :: r => if (c =? c_minus)%N then (true, r) else if (c =? c_plus)%N then (false, r) else (false, s)
                      | [] => (false, s)
                      end in
  match parse_special body with
  | Some f => Some (f neg)
  | None =>
      let '(ip, r1) := span_digits body in
      let '(fp, r2) := match r1 with
                       | c :: r => if (c =? c_dot)%N then span_digits r else ([], r1)
                       | [] => ([], r1)
                       end in
      let has_dot := match r1 with c :: _ => (c =? c_dot)%N | [] => false end in
      match ip, fp with
      | [], [] => None
      | _, _ =>
          match parse_exp r2 with
          | None => None
          | Some ex =>
              let ds := strip_zeros (ip ++ fp) in
              let m := digits_val 0 ds in
              let e10 := ex - Z.of_nat (length fp) in
              Some (dec_to_f64_clamped neg m (Z.of_nat (length ds)) e10)
          end
      end
  end.

(** ** [f64::to_string]: core::num::flt2dec::strategy::dragon::format_shortest + digits_to_dec_str *)

Definition decode (m : positive) (e : Z) : Z * Z * Z * Z * bool :=
  let mz := Zpos m in
  if mz <? 2 ^ 52 then (mz * 2, 1, 1, e - 1, true)                    (* subnormal: mantissa is shifted, always even *)
  else if mz =? 2 ^ 52 then (mz * 4, 1, 2, e - 2, true)               (* power of two: asymmetric interval *)
  else (mz * 2, 1, 1, e - 1, Z.even mz).

Definition estimate_scaling_factor (mant exp : Z) : Z :=
  let nbits := if mant - 1 =? 0 then 0 else Z.log2 (mant - 1) + 1 in
  Z.shiftr ((nbits + exp) * 1292913986) 32.

Definition lt_rounding (inclusive : bool) (x y : Z) : bool := if inclusive then x <=? y else x <? y.

Fixpoint round_up_rev (ds : list Z) : list Z * bool :=   (* digits least-significant first; returns carry *)
  match ds with
  | [] => ([], true)
  | d :: r => if d =? 9 then let '(r', c) := round_up_rev r in (0 :: r', c) else (d + 1 :: r, false)
  end.

Fixpoint gen_digits (fuel : nat) (inclusive : bool) (mant minus plus scale : Z) (acc : list Z) : list Z * Z * bool * bool :=
  match fuel with
  | O => (acc, mant, false, false)
  | S f =>
    let d := mant / scale in
    let mant := mant mod scale in
    let acc := d :: acc in
    let down := lt_rounding inclusive mant minus in
    let up := lt_rounding inclusive scale (mant + plus) in
    if down || up then (acc, mant, down, up)
    else gen_digits f inclusive (mant * 10) (minus * 10) (plus * 10) scale acc
  end.

(* digits (most significant first) and decimal exponent k: value = 0.d1d2... * 10^k *)
Definition format_shortest (m : positive) (e : Z) : list Z * Z :=
  let '(mant, minus, plus, exp, inclusive) := decode m e in
  let k := estimate_scaling_factor (mant + plus) exp in
  let '(mant, minus, plus, scale) :=
    if exp <? 0 then (mant, minus, plus, 2 ^ (- exp)) else (mant * 2 ^ exp, minus * 2 ^ exp, plus * 2 ^ exp, 1) in
  let '(mant, minus, plus, scale) :=
    if 0 <=? k then (mant, minus, plus, scale * 10 ^ k) else (mant * 10 ^ (- k), minus * 10 ^ (- k), plus * 10 ^ (- k), scale) in
  let '(k, mant, minus, plus) :=
    if lt_rounding inclusive scale (mant + plus) then (k + 1, mant, minus, plus) else (k, mant * 10, minus * 10, plus * 10) in
  let '(acc, mant, down, up) := gen_digits 40 inclusive mant minus plus scale [] in
  if up && (negb down || (scale <=? mant * 2)) then
    let '(acc', carry) := round_up_rev acc in
    if carry then (1 :: rev acc' , k + 1)
    else (rev acc', k)
  else (rev acc, k).

Definition digit_char (d : Z) : N := Z.to_N (48 + d).
Definition zeros (n : Z) : text := repeat c_0 (Z.to_nat n).

Definition digits_to_dec_str (ds : list Z) (k : Z) : text :=
  let n := Z.of_nat (length ds) in
  let cs := map digit_char ds in
  if k <=? 0 then [c_0; c_dot] ++ zeros (- k) ++ cs
  else if k <? n then firstn (Z.to_nat k) cs ++ [c_dot] ++ skipn (Z.to_nat k) cs
  else cs ++ zeros (k - n).

Definition f64_to_string (x : f64) : text :=
  match x with
  | S754_zero s => (if s then [c_minus] else []) ++ [c_0]
  | S754_infinity s => (if s then [c_minus] else []) ++ [105; 110; 102]%N
  | S754_nan => [78; 97; 78]%N
  | S754_finite s m e =>
    let '(ds, k) := format_shortest m e in
    (if s then [c_minus] else []) ++ digits_to_dec_str ds k
  end.

(* bit pattern, for the correspondence check (numbers cross the boundary as IEEE bits) *)
Definition f64_to_bits (x : f64) : Z :=
  match x with
  | S754_zero s => if s then 2 ^ 63 else 0
  | S754_infinity s => (if s then 2 ^ 63 else 0) + 2047 * 2 ^ 52
  | S754_nan => 2047 * 2 ^ 52 + 2 ^ 51
  | S754_finite s m e =>
      let sb := if s then 2 ^ 63 else 0 in
      if Zpos m <? 2 ^ 52 then sb + Zpos m                         (* subnormal, e = -1074 *)
      else sb + (e + 1075) * 2 ^ 52 + (Zpos m - 2 ^ 52)
  end.

Definition f64_of_bits (b : Z) : f64 :=
  let s := 2 ^ 63 <=? b in
  let b := b mod 2 ^ 63 in
  let ex := b / 2 ^ 52 in
  let fr := b mod 2 ^ 52 in
  if ex =? 2047 then (if fr =? 0 then S754_infinity s else S754_nan)
  else if ex =? 0 then (match fr with Zpos p => S754_finite s p (-1074) | _ => S754_zero s end)
  else S754_finite s (Z.to_pos (fr + 2 ^ 52)) (ex - 1075).
