(** Tokens and abstract syntax of Pakhi, as produced by src/frontend/lexer.rs and parser.rs. *)
From Pakhi Require Import Base Float64.

Inductive tkind :=
| TNum (x : f64) | TStr (s : text) | TIdent | TIf | TElse | TLoop | TVar | TFunction | TPlus | TMinus | TMul | TDiv | TRem
| TAt | TSemi | TMap | TComment | TComma | TLParen | TRParen | TLCurly | TRCurly | TLSquare | TRSquare | TEqual | TLt | TGt
| TEqEq | TNotEq | TLe | TGe | TAnd | TOr | TNot | TBool (b : bool) | TBreak | TContinue | TReturn | TPrint | TImport
| TPrintNoEol | TEOT.

Record token := mkTok { t_kind : tkind; t_lexeme : text; t_line : N; t_file : text }.

(* kind comparison ignoring payloads is never needed by the parser: it compares with payload-free kinds
   or matches on Num/String/Bool; [tk_is] covers the payload-free comparison *)
Definition tk_tag (k : tkind) : N :=
  match k with
  | TNum _ => 0 | TStr _ => 1 | TIdent => 2 | TIf => 3 | TElse => 4 | TLoop => 5 | TVar => 6 | TFunction => 7
  | TPlus => 8 | TMinus => 9 | TMul => 10 | TDiv => 11 | TRem => 12 | TAt => 13 | TSemi => 14 | TMap => 15
  | TComment => 16 | TComma => 17 | TLParen => 18 | TRParen => 19 | TLCurly => 20 | TRCurly => 21
  | TLSquare => 22 | TRSquare => 23 | TEqual => 24 | TLt => 25 | TGt => 26 | TEqEq => 27 | TNotEq => 28
  | TLe => 29 | TGe => 30 | TAnd => 31 | TOr => 32 | TNot => 33 | TBool _ => 34 | TBreak => 35
  | TContinue => 36 | TReturn => 37 | TPrint => 38 | TImport => 39 | TPrintNoEol => 40 | TEOT => 41
  end%N.
Definition tk_is (a b : tkind) : bool := N.eqb (tk_tag a) (tk_tag b).

Record pos := mkPos { p_line : N; p_file : text }.

Inductive binop := BOr | BAnd | BEq | BNe | BLt | BLe | BGt | BGe | BAdd | BSub | BMul | BDiv | BRem.
Inductive unop := UNeg | UNot.

Inductive expr :=
| ENil (p : pos) | EBool (b : bool) (p : pos) | ENum (x : f64) (p : pos) | EStr (s : text) (p : pos)
| EVar (x : text) (p : pos) | EList (es : list expr) (p : pos) | ERec (ks vs : list expr) (p : pos)
| EGroup (e : expr) (p : pos) | EUn (o : unop) (e : expr) (p : pos) | EBin (o : binop) (l r : expr) (p : pos)
| ECall (f : expr) (args : list expr) (p : pos) | EIndex (e i : expr) (p : pos).

Definition expr_pos (e : expr) : pos :=
  match e with
  | ENil p | EBool _ p | ENum _ p | EStr _ p | EVar _ p | EList _ p | ERec _ _ p | EGroup _ p
  | EUn _ _ p | EBin _ _ _ p | ECall _ _ p | EIndex _ _ p => p
  end.

Inductive akind := AFirst | AReassign.

(* the flat statement vector that parser::parse returns *)
Inductive fstmt :=
| FPrint (e : expr) (p : pos) | FPrintNoEol (e : expr) (p : pos)
| FAssign (k : akind) (x : text) (xp : pos) (idx : list expr) (init : option expr) (p : pos)
| FExpr (e : expr) (p : pos) | FBlockStart (p : pos) | FBlockEnd (p : pos) | FFuncDef (p : pos)
| FReturn (e : expr) (p : pos) | FIf (c : expr) (p : pos) | FLoop (p : pos) | FContinue (p : pos) | FBreak (p : pos)
| FElse (p : pos) | FEOS (p : pos).

Definition stmt_pos (s : fstmt) : pos :=
  match s with
  | FPrint _ p | FPrintNoEol _ p | FAssign _ _ _ _ _ p | FExpr _ p | FBlockStart p | FBlockEnd p | FFuncDef p
  | FReturn _ p | FIf _ p | FLoop p | FContinue p | FBreak p | FElse p | FEOS p => p
  end.
