(** One case line in, one result line out: the same protocol as harness/src/main.rs. *)
From Pakhi Require Import Base Float64 Syntax Lexer Parser Show.
Open Scope N_scope.

Definition cmd_is (w : text) (s : list N) : bool := text_eqb w s.
Definition bad : text := [98;97;100].

Definition do_lex (args : list text) : text :=
  match args with
  | file :: src :: _ => show_outcome show_tokens (tokenize (dec_text src) (dec_text file))
  | _ => bad
  end.

(* files: n then n pairs (path, content); the first file is the main module *)
Fixpoint take_files (n : nat) (args : list text) : list (text * text) :=
  match n, args with
  | S n', p :: c :: r => (dec_text p, dec_text c) :: take_files n' r
  | _, _ => []
  end.
Definition parse_files (args : list text) : list (text * text) :=
  match args with n :: r => take_files (N.to_nat (parse_dec n)) r | [] => [] end.

Definition fs_of (files : list (text * text)) (p : text) : option text := assoc_text p files.

(* the oracle runs with the scratch directory as working directory; its name never reaches an observable
   unless the program uses _ডাইরেক্টরি, and those streams pass the directory explicitly *)
Definition default_cwd : text := [47;119].   (* "/w" *)

(* fuel bounds the recursion depth of the parser model: statements nest in the continuation of pprogram and every
   token adds at most one ladder descent; generous, and an exhausted fuel shows up as "hang" in the comparison *)
Definition parse_fuel (files : list (text * text)) : nat :=
  (64 + 24 * (S (length files)) * fold_left (fun acc f => acc + length (snd f)) files 0)%nat.

Definition do_parse (args : list text) : text :=
  match parse_files args with
  | (main, src) :: rest =>
      show_outcome show_program (front (fs_of ((main, src) :: rest)) default_cwd main (parse_fuel ((main, src) :: rest)) src)
  | [] => bad
  end.

Definition run_case (line : text) : text :=
  match split_on 32 line with
  | cmd :: args =>
      if cmd_is cmd [108;101;120] then do_lex args
      else if cmd_is cmd [112;97;114;115;101] then do_parse args
      else [98;97;100;45;99;111;109;109;97;110;100]
  | [] => bad
  end.
