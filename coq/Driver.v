(** One case line in, one result line out: the same protocol as harness/src/main.rs. *)
From Pakhi Require Import Base Float64 Syntax Lexer Show.
Open Scope N_scope.

Definition cmd_is (w : text) (s : list N) : bool := text_eqb w s.

Definition do_lex (args : list text) : text :=
  match args with
  | file :: src :: _ => show_outcome show_tokens (tokenize (dec_text src) (dec_text file))
  | _ => [98;97;100]
  end.

Definition run_case (line : text) : text :=
  match split_on 32 line with
  | cmd :: args =>
      if cmd_is cmd [108;101;120] then do_lex args
      else [98;97;100;45;99;111;109;109;97;110;100]
  | [] => [98;97;100]
  end.
