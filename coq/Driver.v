(** One case line in, one result line out: the same protocol as harness/src/main.rs. *)
From Pakhi Require Import Base Float64 Syntax Lexer Parser Interp Show.
Local Open Scope N_scope.

Definition cmd_is (w : text) (s : list N) : bool := text_eqb w s.
Definition bad : text := [98;97;100].

Definition do_lex (args : list text) : text :=
  match args with
  | file :: src :: _ => show_outcome show_tokens (tokenize (dec_text src) (dec_text file))
  | _ => bad
  end.

(* files: n then n pairs (path, content); the first file is the main module *)
Fixpoint take_files (n : nat) (args : list text) : list (text * text) :=
  match n, args with
  | S n', p :: c :: r => (dec_text p, dec_text c) :: take_files n' r
  | _, _ => []
  end.
Definition parse_files (args : list text) : list (text * text) :=
  match args with n :: r => take_files (N.to_nat (parse_dec n)) r | [] => [] end.

(* the oracle runs with the scratch directory as working directory; its name never reaches an observable
   unless the program uses _ডাইরেক্টরি, and those streams pass the directory explicitly *)
Definition default_cwd : text := [47;119].   (* "/w" *)

(* the files of a case are given by paths relative to the working directory; an absolute spelling of such a path (an
   import written with _ডাইরেক্টরি) names the same file *)
Fixpoint strip_prefix (pre p : text) : option text :=
  match pre, p with
  | [], _ => Some p
  | a :: pre', b :: p' => if N.eqb a b then strip_prefix pre' p' else None
  | _ :: _, [] => None
  end.
Definition fs_of (files : list (text * text)) (p : text) : option text :=
  match assoc_text p files with
  | Some c => Some c
  | None => match strip_prefix (default_cwd ++ [47]) p with Some rel => assoc_text rel files | None => None end
  end.

(* fuel bounds the recursion depth of the parser model: statements nest in the continuation of pprogram and every
   token adds at most one ladder descent; generous, and an exhausted fuel shows up as "hang" in the comparison *)
Definition parse_fuel (files : list (text * text)) : nat :=
  (64 + 24 * (S (length files)) * fold_left (fun acc f => acc + length (snd f)) files 0)%nat.

Definition do_parse (args : list text) : text :=
  match parse_files args with
  | (main, src) :: rest =>
      show_outcome show_program (front (fs_of ((main, src) :: rest)) default_cwd main (parse_fuel ((main, src) :: rest)) src)
  | [] => bad
  end.

(* ---- run ---- *)
Definition linux : text := [108;105;110;117;120].

(* every proper directory prefix of a path *)
Definition parent_dirs (p : text) : list text := removelast (path_prefixes [] p).
Definition world_of (files : list (text * text)) : world :=
  let dirs := flat_map (fun f => parent_dirs (fst f)) files in
  let fs0 := fold_left (fun acc d => alist_set d FsDir acc) dirs [] in
  mkWorld (fold_left (fun acc f => alist_set (fst f) (FsFile (snd f)) acc) files fs0) [] default_cwd.

Definition parse_sched (s : text) : option (list bool) :=
  match s with
  | [110] => None
  | [101] => Some []
  | bits => Some (map (fun c => c =? 49) bits)
  end.

Definition has_flag (flags : text) (c : N) : bool := existsb (N.eqb c) flags.

Definition show_res {A} (r : outcome A) : text :=
  match r with
  | Ok _ => [111;107]
  | Err e => show_err e
  | Panic _ => [112;97;110;105;99]
  | OutOfFuel => [115;116;101;112;108;105;109;105;116]
  end.

Definition bar : text := [32;124;32].

Definition do_run (args : list text) : text :=
  match args with
  | budget :: sched :: flags :: rest =>
    match parse_files rest with
    | (main, src) :: more =>
        let files := (main, src) :: more in
        let fuel := match budget with [45] => N.to_nat 3000000 | _ => (3 * N.to_nat (parse_dec budget) + 1000)%nat end in
        match front (fs_of files) default_cwd main (parse_fuel files) src with
        | Ok code =>
            let m0 := init_machine linux (world_of files) in
            let '(r, m) := run code fuel (parse_sched sched) 0 m0 in
            let out := match r with Err e => e_out e | _ => m_out m end in
            show_out out ++ bar ++ [114;101;115;32] ++ show_res r ++
            (if has_flag flags 104 then
               bar ++ [104;101;97;112;32] ++ show_state (m_scopes m) (m_heap m) ++ [32;99;111;108;108;101;99;116;105;111;110;115;61] ++
               (match parse_sched sched with
                | None => [48;43] ++ show_nat (m_collections m)
                | Some _ => show_nat (m_collections m) ++ [43;48]
                end)
             else []) ++
            (if has_flag flags 102 then bar ++ [102;115;32] ++ join [sp] (map show_fsnode (w_fs (m_world m))) else [])
        | other => show_out [] ++ bar ++ [114;101;115;32] ++ show_res other ++
                   (if has_flag flags 102 then bar ++ [102;115;32] ++ join [sp] (map show_fsnode (w_fs (world_of files))) else [])
        end
    | [] => bad
    end
  | _ => bad
  end.

(* ---- direct collector runs on synthetic heaps (hook H2) ---- *)
Definition parse_value (s : text) : value :=
  match s with
  | 78 :: t => VNum (f64_of_bits (parse_hex t))
  | 66 :: t => VBool (match t with [49] => true | _ => false end)
  | 83 :: t => VStr (dec_text t)
  | 76 :: t => VList (N.to_nat (parse_dec t))
  | 82 :: t => VRec (N.to_nat (parse_dec t))
  | _ => VNil
  end.

Definition pnat (s : text) : nat := N.to_nat (parse_dec s).

(* reads n items with a reader that consumes tokens *)
Fixpoint read_n {A} (fuel : nat) (n : nat) (rd : list text -> A * list text) (toks : list text) : list A * list text :=
  match n with
  | O => ([], toks)
  | S n' => let '(a, r) := rd toks in let '(l, r') := read_n fuel n' rd r in (a :: l, r')
  end.
Definition read_counted {A} (rd : list text -> A * list text) (toks : list text) : list A * list text :=
  match toks with n :: r => read_n 0 (pnat n) rd r | [] => ([], []) end.
Definition rd_value (toks : list text) : value * list text := match toks with v :: r => (parse_value v, r) | [] => (VNil, []) end.
Definition rd_nat (toks : list text) : nat * list text := match toks with v :: r => (pnat v, r) | [] => (O, []) end.
Definition rd_entry (toks : list text) : (text * value) * list text :=
  match toks with k :: v :: r => ((dec_text k, parse_value v), r) | _ => (([], VNil), []) end.

Definition do_gc (args : list text) : text :=
  let '(scopes, r1) := read_counted (read_counted rd_entry) args in
  let '(lists, r2) := read_counted (read_counted rd_value) r1 in
  let '(fl, r3) := read_counted rd_nat r2 in
  let '(recs, r4) := read_counted (read_counted rd_entry) r3 in
  let '(fr, _) := read_counted rd_nat r4 in
  (* later duplicates of a key win, as HashMap::insert *)
  let norm {A} (l : list (text * A)) := fold_left (fun acc kv => alist_set (fst kv) (snd kv) acc) l [] in
  let scopes := map norm scopes in
  let recs := map norm recs in
  let h := mkHeap lists (rev fl) recs (rev fr) 0 in
  match collect (rev scopes) h with
  | Ok h' => [111;107;32] ++ show_state (rev scopes) h'
  | Err e => show_err e
  | Panic _ => [112;97;110;105;99]
  | OutOfFuel => [104;97;110;103]
  end.

(* ---- std-library oracles for f64 ---- *)
Definition nan_bits : Z := 9221120237041090560%Z.
Definition bits_out (x : f64) : text := show_hex16 (match x with S754_nan => nan_bits | _ => f64_to_bits x end).
Definition b01 (b : bool) : N := if b then 49 else 48.
Definition do_f64 (args : list text) : text :=
  match args with
  | [[112;114;105;110;116]; b] => [111;107;32] ++ enc_text (f64_to_string (f64_of_bits (parse_hex b)))
  | [[112;97;114;115;101]; t] => match parse_f64 (dec_text t) with Some x => [111;107;32] ++ bits_out x | None => [110;111;110;101] end
  | [[117;115;105;122;101]; b] => [111;107;32] ++ show_Z (f_to_usize (f64_of_bits (parse_hex b)))
  | [[97;114;105;116;104]; op; a; b] =>
      let x := f64_of_bits (parse_hex a) in let y := f64_of_bits (parse_hex b) in
      let r := if cmd_is op [97;100;100] then f_add x y else if cmd_is op [115;117;98] then f_sub x y
               else if cmd_is op [109;117;108] then f_mul x y else if cmd_is op [100;105;118] then f_div x y
               else if cmd_is op [114;101;109] then f_rem x y else S754_nan in
      [111;107;32] ++ bits_out r ++ [32; b01 (f_ltb x y); b01 (f_leb x y); b01 (f_eqb x y)]
  | _ => bad
  end.

Definition run_case (line : text) : text :=
  match split_on 32 line with
  | cmd :: args =>
      if cmd_is cmd [108;101;120] then do_lex args
      else if cmd_is cmd [112;97;114;115;101] then do_parse args
      else if cmd_is cmd [114;117;110] then do_run args
      else if cmd_is cmd [103;99] then do_gc args
      else if cmd_is cmd [102;54;52] then do_f64 args
      else [98;97;100;45;99;111;109;109;97;110;100]
  | [] => bad
  end.
