(** One case line in, one result line out: the same protocol as harness/src/main.rs. *)
From Pakhi Require Import Base Float64 Syntax Lexer Parser Interp Show.
Local Open Scope N_scope.

Definition cmd_is (w : text) (s : list N) : bool := text_eqb w s.
Definition bad : text := [98;97;100].

Definition do_lex (args : list text) : text :=
  match args with
  | file :: src :: _ => show_outcome show_tokens (tokenize (dec_text src) (dec_text file))
  | _ => bad
  end.

(* files: n then n pairs (path, content); the first file is the main module *)
Fixpoint take_files (n : nat) (args : list text) : list (text * text) :=
  match n, args with
  | S n', p :: c :: r => (dec_text p, dec_text c) :: take_files n' r
  | _, _ => []
  end.
Definition parse_files (args : list text) : list (text * text) :=
  match args with n :: r => take_files (N.to_nat (parse_dec n)) r | [] => [] end.

Definition fs_of (files : list (text * text)) (p : text) : option text := assoc_text p files.

(* the oracle runs with the scratch directory as working directory; its name never reaches an observable
   unless the program uses _ডাইরেক্টরি, and those streams pass the directory explicitly *)
Definition default_cwd : text := [47;119].   (* "/w" *)

(* fuel bounds the recursion depth of the parser model: statements nest in the continuation of pprogram and every
   token adds at most one ladder descent; generous, and an exhausted fuel shows up as "hang" in the comparison *)
Definition parse_fuel (files : list (text * text)) : nat :=
  (64 + 24 * (S (length files)) * fold_left (fun acc f => acc + length (snd f)) files 0)%nat.

Definition do_parse (args : list text) : text :=
  match parse_files args with
  | (main, src) :: rest =>
      show_outcome show_program (front (fs_of ((main, src) :: rest)) default_cwd main (parse_fuel ((main, src) :: rest)) src)
  | [] => bad
  end.

(* ---- run ---- *)
Definition linux : text := [108;105;110;117;120].

(* every proper directory prefix of a path *)
Definition parent_dirs (p : text) : list text := removelast (path_prefixes [] p).
Definition world_of (files : list (text * text)) : world :=
  let dirs := flat_map (fun f => parent_dirs (fst f)) files in
  let fs0 := fold_left (fun acc d => alist_set d FsDir acc) dirs [] in
  mkWorld (fold_left (fun acc f => alist_set (fst f) (FsFile (snd f)) acc) files fs0) [].

Definition parse_sched (s : text) : option (list bool) :=
  match s with
  | [110] => None
  | [101] => Some []
  | bits => Some (map (fun c => c =? 49) bits)
  end.

Definition has_flag (flags : text) (c : N) : bool := existsb (N.eqb c) flags.

Definition show_res {A} (r : outcome A) : text :=
  match r with
  | Ok _ => [111;107]
  | Err e => show_err e
  | Panic _ => [112;97;110;105;99]
  | OutOfFuel => [115;116;101;112;108;105;109;105;116]
  end.

Definition bar : text := [32;124;32].

Definition do_run (args : list text) : text :=
  match args with
  | budget :: sched :: flags :: rest =>
    match parse_files rest with
    | (main, src) :: more =>
        let files := (main, src) :: more in
        let fuel := match budget with [45] => N.to_nat 3000000 | _ => (3 * N.to_nat (parse_dec budget) + 1000)%nat end in
        match front (fs_of files) default_cwd main (parse_fuel files) src with
        | Ok code =>
            let m0 := init_machine linux (world_of files) in
            let '(r, m) := run code fuel (parse_sched sched) 0 m0 in
            let out := match r with Err e => e_out e | _ => m_out m end in
            show_out out ++ bar ++ [114;101;115;32] ++ show_res r ++
            (if has_flag flags 104 then
               bar ++ [104;101;97;112;32] ++ show_state (m_scopes m) (m_heap m) ++ [32;99;111;108;108;101;99;116;105;111;110;115;61] ++
               (match parse_sched sched with
                | None => [48;43] ++ show_nat (m_collections m)
                | Some _ => show_nat (m_collections m) ++ [43;48]
                end)
             else []) ++
            (if has_flag flags 102 then bar ++ [102;115;32] ++ join [sp] (map show_fsnode (w_fs (m_world m))) else [])
        | other => show_out [] ++ bar ++ [114;101;115;32] ++ show_res other ++
                   (if has_flag flags 102 then bar ++ [102;115;32] ++ join [sp] (map show_fsnode (w_fs (world_of files))) else [])
        end
    | [] => bad
    end
  | _ => bad
  end.

Definition run_case (line : text) : text :=
  match split_on 32 line with
  | cmd :: args =>
      if cmd_is cmd [108;101;120] then do_lex args
      else if cmd_is cmd [112;97;114;115;101] then do_parse args
      else if cmd_is cmd [114;117;110] then do_run args
      else [98;97;100;45;99;111;109;109;97;110;100]
  | [] => bad
  end.
