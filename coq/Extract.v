From Coq Require Extraction.
From Coq Require Import ExtrOcamlBasic.
From Pakhi Require Import Driver.
Extraction Language OCaml.
Extraction "model.ml" run_case.
