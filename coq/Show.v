(** Canonical text rendering of model results and parsing of case lines, in Gallina, so that the extracted
    driver and the in-Coq replay ([Eval vm_compute]) print exactly the same lines as the Rust oracle. *)
From Pakhi Require Import Base Float64 Syntax Interp.
Local Open Scope N_scope.

Definition sp : N := 32.
Definition str (l : list N) : text := l.

(* decimal rendering of N *)
Fixpoint show_pos_fuel (fuel : nat) (n : N) (acc : text) : text :=
  match fuel with
  | O => acc
  | S f => let acc' := (48 + n mod 10) :: acc in
           if n / 10 =? 0 then acc' else show_pos_fuel f (n / 10) acc'
  end.
Definition show_N (n : N) : text := show_pos_fuel (S (N.to_nat (N.log2 n))) n [].
Definition show_nat (n : nat) : text := show_N (N.of_nat n).
Definition show_Z (z : Z) : text := match z with Zneg p => 45 :: show_N (Npos p) | _ => show_N (Z.to_N z) end.

Fixpoint join (sep : text) (l : list text) : text :=
  match l with [] => [] | [x] => x | x :: r => x ++ sep ++ join sep r end.

Definition enc_text (s : text) : text :=
  match s with [] => [45] | _ => join [44] (map show_N s) end.

Definition hex_digit (d : Z) : N := Z.to_N (if (d <? 10)%Z then 48 + d else 87 + d)%Z.
Fixpoint show_hex_n (k : nat) (z : Z) (acc : text) : text :=
  match k with O => acc | S k' => show_hex_n k' (z / 16)%Z (hex_digit (z mod 16)%Z :: acc) end.
Definition show_hex16 (z : Z) : text := show_hex_n 16 z [].
Definition show_bits (x : f64) : text := show_hex16 (f64_to_bits x).

(* parsing *)
Fixpoint split_on_aux (sep : N) (s : text) (cur : text) : list text :=
  match s with
  | [] => [rev cur]
  | c :: r => if c =? sep then rev cur :: split_on_aux sep r [] else split_on_aux sep r (c :: cur)
  end.
Definition split_on (sep : N) (s : text) : list text := split_on_aux sep s [].

Definition parse_dec (s : text) : N := fold_left (fun acc c => acc * 10 + (c - 48)) s 0.
Definition dec_text (s : text) : text :=
  match s with [45] => [] | _ => map parse_dec (split_on 44 s) end.
Definition hex_val (c : N) : Z := Z.of_N (if c <=? 57 then c - 48 else c - 87).
Definition parse_hex (s : text) : Z := fold_left (fun acc c => acc * 16 + hex_val c)%Z s 0%Z.

Definition kind_name (k : tkind) : text * text :=
  let n (s : list N) := (s, @nil N) in
  match k with
  | TNum x => ([78;117;109], show_bits x)
  | TStr s => ([83;116;114;105;110;103], enc_text s)
  | TBool b => ([66;111;111;108], [if b then 49 else 48])
  | TIdent => n [73;100;101;110;116;105;102;105;101;114]
  | TIf => n [73;102] | TElse => n [69;108;115;101] | TLoop => n [76;111;111;112] | TVar => n [86;97;114]
  | TFunction => n [70;117;110;99;116;105;111;110] | TPlus => n [80;108;117;115] | TMinus => n [77;105;110;117;115]
  | TMul => n [77;117;108;116;105;112;108;121] | TDiv => n [68;105;118;105;115;105;111;110]
  | TRem => n [82;101;109;97;105;110;100;101;114] | TAt => n [65;116] | TSemi => n [83;101;109;105;99;111;108;111;110]
  | TMap => n [77;97;112] | TComment => n [67;111;109;109;101;110;116] | TComma => n [67;111;109;109;97]
  | TLParen => n [80;97;114;101;110;83;116;97;114;116] | TRParen => n [80;97;114;101;110;69;110;100]
  | TLCurly => n [67;117;114;108;121;66;114;97;99;101;83;116;97;114;116] | TRCurly => n [67;117;114;108;121;66;114;97;99;101;69;110;100]
  | TLSquare => n [83;113;117;97;114;101;66;114;97;99;101;83;116;97;114;116] | TRSquare => n [83;113;117;97;114;101;66;114;97;99;101;69;110;100]
  | TEqual => n [69;113;117;97;108] | TLt => n [76;101;115;115;84;104;97;110] | TGt => n [71;114;101;97;116;101;114;84;104;97;110]
  | TEqEq => n [69;113;117;97;108;69;113;117;97;108] | TNotEq => n [78;111;116;69;113;117;97;108]
  | TLe => n [76;101;115;115;84;104;97;110;79;114;69;113;117;97;108] | TGe => n [71;114;101;97;116;101;114;84;104;97;110;79;114;69;113;117;97;108]
  | TAnd => n [65;110;100] | TOr => n [79;114] | TNot => n [78;111;116] | TBreak => n [66;114;101;97;107]
  | TContinue => n [67;111;110;116;105;110;117;101] | TReturn => n [82;101;116;117;114;110] | TPrint => n [80;114;105;110;116]
  | TImport => n [73;109;112;111;114;116] | TPrintNoEol => n [80;114;105;110;116;78;111;69;79;76] | TEOT => n [69;79;84]
  end.

Definition show_ekind (k : ekind) : text :=
  match k with
  | ESyntax => [83;121;110;116;97;120] | EType => [84;121;112;101] | ERuntime => [82;117;110;116;105;109;101]
  | EUnexpected => [85;110;101;120;112;101;99;116;101;100]
  end.

(* "err Kind line file msg"; msg is "*" (wildcard) unless the model knows the exact text *)
Definition show_err (e : perr) : text :=
  [101;114;114;32] ++ show_ekind (e_kind e) ++ [sp] ++ show_N (e_line e) ++ [sp] ++ enc_text (e_file e) ++ [sp] ++
  match e_tag e with TagUser m => enc_text m | _ => [42] end.

Definition show_outcome {A} (f : A -> text) (x : outcome A) : text :=
  match x with
  | Ok a => f a
  | Err e => show_err e
  | Panic _ => [112;97;110;105;99]
  | OutOfFuel => [104;97;110;103]
  end.

Definition show_token (t : token) : text :=
  let '(k, p) := kind_name (t_kind t) in
  k ++ [58] ++ p ++ [58] ++ enc_text (t_lexeme t) ++ [58] ++ show_N (t_line t) ++ [58] ++ enc_text (t_file t).

Definition show_tokens (ts : list token) : text := [111;107;32] ++ join [sp] (map show_token ts).

(** AST rendering (same S-expression format as harness/src/main.rs) *)
Definition show_pos (p : pos) : text := show_N (p_line p) ++ [47] ++ enc_text (p_file p).
Definition paren (l : list text) : text := [40] ++ join [sp] l ++ [41].
Definition brack (l : list text) : text := [91] ++ join [sp] l ++ [93].

Definition binop_names (o : binop) : text * text :=
  let dash := [45] in
  match o with
  | BOr => ([79;114], dash) | BAnd => ([65;110;100], dash)
  | BEq => ([69;113;117;97;108;105;116;121], fst (kind_name TEqEq)) | BNe => ([69;113;117;97;108;105;116;121], fst (kind_name TNotEq))
  | BLt => ([67;111;109;112;97;114;105;115;111;110], fst (kind_name TLt)) | BLe => ([67;111;109;112;97;114;105;115;111;110], fst (kind_name TLe))
  | BGt => ([67;111;109;112;97;114;105;115;111;110], fst (kind_name TGt)) | BGe => ([67;111;109;112;97;114;105;115;111;110], fst (kind_name TGe))
  | BAdd => ([65;100;100;79;114;83;117;98], fst (kind_name TPlus)) | BSub => ([65;100;100;79;114;83;117;98], fst (kind_name TMinus))
  | BMul => ([77;117;108;79;114;68;105;118;79;114;82;101;109;97;105;110;100;101;114], fst (kind_name TMul))
  | BDiv => ([77;117;108;79;114;68;105;118;79;114;82;101;109;97;105;110;100;101;114], fst (kind_name TDiv))
  | BRem => ([77;117;108;79;114;68;105;118;79;114;82;101;109;97;105;110;100;101;114], fst (kind_name TRem))
  end.

Fixpoint show_expr (e : expr) : text :=
  match e with
  | ENil p => paren [[110;105;108]; show_pos p]
  | EBool b p => paren [[98;111;111;108]; [if b then 49 else 48]; show_pos p]
  | ENum x p => paren [[110;117;109]; show_bits x; show_pos p]
  | EStr s p => paren [[115;116;114]; enc_text s; show_pos p]
  | EVar x p => paren [[118;97;114]; fst (kind_name TIdent); enc_text x; show_pos p; show_pos p]
  | EList es p => paren [[108;105;115;116]; brack (map show_expr es); show_pos p]
  | ERec ks vs p => paren [[114;101;99]; brack (map show_expr ks); brack (map show_expr vs); show_pos p]
  | EGroup e1 p => paren [[103;114;111;117;112]; show_expr e1; show_pos p]
  | EUn o e1 p => paren [[117;110]; fst (kind_name (match o with UNeg => TMinus | UNot => TNot end)); show_expr e1; show_pos p]
  | EBin o l r p => let '(v, k) := binop_names o in paren [[98;105;110]; v; k; show_expr l; show_expr r; show_pos p]
  | ECall f args p => paren [[99;97;108;108]; show_expr f; brack (map show_expr args); show_pos p]
  | EIndex a i p => paren [[105;110;100;101;120]; show_expr a; show_expr i; show_pos p]
  end.

Definition show_stmt (s : fstmt) : text :=
  match s with
  | FPrint e p => paren [[112;114;105;110;116]; show_expr e; show_pos p]
  | FPrintNoEol e p => paren [[112;114;105;110;116;110]; show_expr e; show_pos p]
  | FAssign k x xp idx init p =>
      paren [[97;115;115;105;103;110]; (match k with AFirst => [70;105;114;115;116] | AReassign => [82;101] end); enc_text x; show_pos xp;
             brack (map show_expr idx); (match init with Some e => show_expr e | None => [110;111;110;101] end); show_pos p]
  | FExpr e p => paren [[101;120;112;114]; show_expr e; show_pos p]
  | FBlockStart p => paren [[98;115]; show_pos p]
  | FBlockEnd p => paren [[98;101]; show_pos p]
  | FFuncDef p => paren [[102;117;110;99;100;101;102]; show_pos p]
  | FReturn e p => paren [[114;101;116;117;114;110]; show_expr e; show_pos p]
  | FIf c p => paren [[105;102]; show_expr c; show_pos p]
  | FLoop p => paren [[108;111;111;112]; show_pos p]
  | FContinue p => paren [[99;111;110;116;105;110;117;101]; show_pos p]
  | FBreak p => paren [[98;114;101;97;107]; show_pos p]
  | FElse p => paren [[101;108;115;101]; show_pos p]
  | FEOS p => paren [[101;111;115]; show_pos p]
  end.

Definition show_program (ss : list fstmt) : text := [111;107;32] ++ join [sp] (map show_stmt ss).

(** Run results *)

Definition show_chunk (c : chunk) : text :=
  match c with CPrint s => [112;58] ++ enc_text s | CPrintln s => [108;58] ++ enc_text s end.
Definition show_out (out_newest_first : list chunk) : text :=
  [111;117;116;32] ++ join [sp] (map show_chunk (rev out_newest_first)).

Fixpoint text_ltb (a b : text) : bool :=
  match a, b with
  | [], [] => false
  | [], _ :: _ => true
  | _ :: _, [] => false
  | x :: a', y :: b' => if x <? y then true else if y <? x then false else text_ltb a' b'
  end.
Fixpoint insert_sorted {A} (k : text) (v : A) (l : list (text * A)) : list (text * A) :=
  match l with
  | [] => [(k, v)]
  | (k', v') :: r => if text_ltb k k' then (k, v) :: l else (k', v') :: insert_sorted k v r
  end.
Definition sort_entries {A} (l : list (text * A)) : list (text * A) :=
  fold_left (fun acc kv => insert_sorted (fst kv) (snd kv) acc) l [].

Definition show_value (v : value) : text :=
  match v with
  | VNum x => [78] ++ show_bits x
  | VBool b => [66; if b then 49 else 48]
  | VStr s => [83] ++ enc_text s
  | VList a => [76] ++ show_nat a
  | VRec a => [82] ++ show_nat a
  | VFun st ps => [70] ++ show_nat st ++ [40] ++ join [59] (map enc_text ps) ++ [41]
  | VNil => [90]
  end.
Definition show_entries (l : list (text * value)) : text :=
  [123] ++ join [sp] (map (fun kv => enc_text (fst kv) ++ [61] ++ show_value (snd kv)) (sort_entries l)) ++ [125].
Definition show_nats (l : list nat) : text := [91] ++ join [sp] (map show_nat l) ++ [93].

(* same text as verif_hooks::dump_state; scopes outermost first, free lists in Vec order *)
Definition show_state (scopes : list scope) (h : heap) : text :=
  [115;99;111;112;101;115;61;91] ++ join [sp] (map show_entries (rev scopes)) ++
  [93;32;108;105;115;116;115;61;91] ++ join [sp] (map (fun l => [91] ++ join [sp] (map show_value l) ++ [93]) (h_lists h)) ++
  [93;32;102;114;101;101;95;108;105;115;116;115;61] ++ show_nats (rev (h_free_lists h)) ++
  [32;114;101;99;115;61;91] ++ join [sp] (map show_entries (h_recs h)) ++
  [93;32;102;114;101;101;95;114;101;99;115;61] ++ show_nats (rev (h_free_recs h)) ++
  [32;97;108;108;111;99;61] ++ show_nat (h_alloc h).

Definition show_fsnode (kv : text * fsnode) : text :=
  match snd kv with
  | FsDir => [68;58] ++ enc_text (fst kv)
  | FsFile c => [70;58] ++ enc_text (fst kv) ++ [58] ++ enc_text c
  | FsBinary => [70;58] ++ enc_text (fst kv) ++ [58;66;73;78]
  end.
