(** Model of src/backend/interpreter.rs, built_ins.rs and mark_sweep.rs (code-shaped, executable, no proofs
    in this file).  Conventions: scopes, loops and free lists are Rust Vecs whose *last* element is the innermost /
    most recent one; the model keeps them as lists whose *head* is that element.  HashMaps are association lists
    (insert replaces in place or appends).  Every Rust operation that can panic is an explicit [Panic]. *)
From Pakhi Require Import Base Float64 Syntax Tables Lexer.
Local Open Scope nat_scope.

Inductive value :=
| VNum (x : f64) | VBool (b : bool) | VStr (s : text) | VList (a : nat) | VRec (a : nat)
| VFun (start : nat) (params : list text) | VNil.

Definition scope := list (text * value).
Record heap := mkHeap {
  h_lists : list (list value); h_free_lists : list nat;      (* free lists: head = last pushed *)
  h_recs : list (list (text * value)); h_free_recs : list nat;
  h_alloc : nat }.
Record loop_env := mkLoop { l_start : nat; l_end : nat; l_depth : nat }.

(* the world outside the interpreter: file system and stdin, as far as the built-ins can see them *)
Inductive fsnode := FsFile (content : text) | FsDir | FsBinary.    (* FsBinary: file whose content is not UTF-8 *)
Record world := mkWorld { w_fs : list (text * fsnode); w_stdin : list text; w_cwd : text }.

Record machine := mkM {
  m_pc : nat; m_scopes : list scope; m_loops : list loop_env; m_loop_base : nat;
  m_ret : list nat; m_heap : heap; m_out : list chunk (* newest first *); m_world : world;
  m_collections : nat }.

Definition set_pc (m : machine) (pc : nat) : machine :=
  mkM pc (m_scopes m) (m_loops m) (m_loop_base m) (m_ret m) (m_heap m) (m_out m) (m_world m) (m_collections m).
Definition set_scopes (m : machine) (s : list scope) : machine :=
  mkM (m_pc m) s (m_loops m) (m_loop_base m) (m_ret m) (m_heap m) (m_out m) (m_world m) (m_collections m).
Definition set_loops (m : machine) (l : list loop_env) : machine :=
  mkM (m_pc m) (m_scopes m) l (m_loop_base m) (m_ret m) (m_heap m) (m_out m) (m_world m) (m_collections m).
Definition set_heap (m : machine) (h : heap) : machine :=
  mkM (m_pc m) (m_scopes m) (m_loops m) (m_loop_base m) (m_ret m) h (m_out m) (m_world m) (m_collections m).
Definition set_world (m : machine) (w : world) : machine :=
  mkM (m_pc m) (m_scopes m) (m_loops m) (m_loop_base m) (m_ret m) (m_heap m) (m_out m) w (m_collections m).
Definition emit (m : machine) (c : chunk) : machine :=
  mkM (m_pc m) (m_scopes m) (m_loops m) (m_loop_base m) (m_ret m) (m_heap m) (c :: m_out m) (m_world m) (m_collections m).
Definition next (m : machine) : machine := set_pc m (S (m_pc m)).

(** ** Association lists (HashMap) *)
Fixpoint alist_get {A} (k : text) (l : list (text * A)) : option A :=
  match l with [] => None | (k', v) :: r => if text_eqb k k' then Some v else alist_get k r end.
Fixpoint alist_set {A} (k : text) (v : A) (l : list (text * A)) : list (text * A) :=
  match l with
  | [] => [(k, v)]
  | (k', v') :: r => if text_eqb k k' then (k, v) :: r else (k', v') :: alist_set k v r
  end.
Definition alist_has {A} (k : text) (l : list (text * A)) : bool :=
  match alist_get k l with Some _ => true | None => false end.

(** ** Scopes (head = innermost) *)
Fixpoint lookup_var (x : text) (ss : list scope) : option value :=
  match ss with
  | [] => None
  | s :: r => match alist_get x s with Some v => Some v | None => lookup_var x r end
  end.

(* declare in the innermost scope: scopes[len - 1].insert *)
Definition declare (x : text) (v : value) (ss : list scope) : outcome (list scope) :=
  match ss with
  | s :: r => Ok (alist_set x v s :: r)
  | [] => Panic SiteUnderflow
  end.

(* assign to the innermost scope that has the name; None when no scope has it *)
Fixpoint assign_var (x : text) (v : value) (ss : list scope) : option (list scope) :=
  match ss with
  | [] => None
  | s :: r => if alist_has x s then Some (alist_set x v s :: r)
              else match assign_var x v r with Some r' => Some (s :: r') | None => None end
  end.

(* Vec::truncate(n) on a list whose head is the last element *)
Definition truncate {A} (n : nat) (l : list A) : list A := skipn (length l - n) l.

(** ** Heap *)
Definition alloc_list (h : heap) (l : list value) : nat * heap :=
  let cnt := h_alloc h + length l + 1 in
  match h_free_lists h with
  | a :: fr => (a, mkHeap (list_set (h_lists h) a l) fr (h_recs h) (h_free_recs h) cnt)
  | [] => (length (h_lists h), mkHeap (h_lists h ++ [l]) [] (h_recs h) (h_free_recs h) cnt)
  end.

Definition alloc_rec (h : heap) (r : list (text * value)) : nat * heap :=
  let cnt := h_alloc h + length r + 1 in
  match h_free_recs h with
  | a :: fr => (a, mkHeap (h_lists h) (h_free_lists h) (list_set (h_recs h) a r) fr cnt)
  | [] => (length (h_recs h), mkHeap (h_lists h) (h_free_lists h) (h_recs h ++ [r]) [] cnt)
  end.

Definition get_list (h : heap) (a : nat) : outcome (list value) :=
  match nth_error (h_lists h) a with Some l => Ok l | None => Panic SiteIndex end.
Definition get_rec (h : heap) (a : nat) : outcome (list (text * value)) :=
  match nth_error (h_recs h) a with Some l => Ok l | None => Panic SiteIndex end.
Definition put_list (h : heap) (a : nat) (l : list value) : heap :=
  mkHeap (list_set (h_lists h) a l) (h_free_lists h) (h_recs h) (h_free_recs h) (h_alloc h).
Definition put_rec (h : heap) (a : nat) (r : list (text * value)) : heap :=
  mkHeap (h_lists h) (h_free_lists h) (list_set (h_recs h) a r) (h_free_recs h) (h_alloc h).

(** ** Garbage collector (mark_sweep.rs) *)
Inductive node := NL (a : nat) | NR (a : nat).
Record marks := mkMarks { ml : list bool; mr : list bool }.

Definition node_of (v : value) : option node :=
  match v with VList a => Some (NL a) | VRec a => Some (NR a) | _ => None end.
Definition children (h : heap) (n : node) : list value :=
  match n with
  | NL a => nth a (h_lists h) []
  | NR a => map snd (nth a (h_recs h) [])
  end.
Definition marked (m : marks) (n : node) : bool :=
  match n with NL a => nth a (ml m) false | NR a => nth a (mr m) false end.
Definition mark (m : marks) (n : node) : marks :=
  match n with
  | NL a => mkMarks (list_set (ml m) a true) (mr m)
  | NR a => mkMarks (ml m) (list_set (mr m) a true)
  end.

(* mark_all_reachable_from_list / _from_record *)
Fixpoint mark_elems (fuel : nat) (h : heap) (m : marks) (es : list value) : option marks :=
  match fuel with
  | O => None
  | S f =>
    (fix go (m : marks) (es : list value) : option marks :=
       match es with
       | [] => Some m
       | v :: r =>
         match node_of v with
         | None => go m r
         | Some n =>
           if marked m n then go m r
           else match mark_elems f h (mark m n) (children h n) with
                | Some m' => go m' r
                | None => None
                end
         end
       end) m es
  end.

(* find_root_objects: every list / record value of every variable of every scope *)
Definition root_values (ss : list scope) : list value := flat_map (fun s => map snd s) ss.

(* gc_mark: each root is marked and traversed (even if already marked) *)
Fixpoint mark_roots (fuel : nat) (h : heap) (m : marks) (roots : list node) : option marks :=
  match roots with
  | [] => Some m
  | n :: r =>
      match mark_elems fuel h (mark m n) (children h n) with
      | Some m' => mark_roots fuel h m' r
      | None => None
      end
  end.

Definition is_list_node (n : node) : bool := match n with NL _ => true | NR _ => false end.

Definition roots_of (ss : list scope) : list node :=
  let ns := flat_map (fun v => match node_of v with Some n => [n] | None => [] end) (root_values ss) in
  filter is_list_node ns ++ filter (fun n => negb (is_list_node n)) ns.

Definition gc_mark (ss : list scope) (h : heap) : option marks :=
  let m0 := mkMarks (repeat false (length (h_lists h))) (repeat false (length (h_recs h))) in
  mark_roots (S (length (h_lists h) + length (h_recs h))) h m0 (roots_of ss).

(* gc_sweep: unmarked slots are emptied and pushed on the free list unless already there.
   [free] has its head = last pushed; indices are visited in ascending order. *)
Fixpoint sweep {A} (i : nat) (slots : list (list A)) (ms : list bool) (free : list nat) : list (list A) * list nat :=
  match slots, ms with
  | s :: slots', alive :: ms' =>
      let free' := if alive then free else if existsb (Nat.eqb i) free then free else i :: free in
      let '(rest, free'') := sweep (S i) slots' ms' free' in
      ((if alive then s else []) :: rest, free'')
  | _, _ => (slots, free)
  end.

Definition collect (ss : list scope) (h : heap) : outcome heap :=
  match gc_mark ss h with
  | None => OutOfFuel
  | Some m =>
      let '(ls, fl) := sweep 0 (h_lists h) (ml m) (h_free_lists h) in
      let '(rs, fr) := sweep 0 (h_recs h) (mr m) (h_free_recs h) in
      Ok (mkHeap ls fl rs fr (h_alloc h))
  end.

(** ** Values *)
Definition value_eqb (a b : value) : bool :=          (* derived PartialEq of DataType *)
  match a, b with
  | VNum x, VNum y => f_eqb x y
  | VBool x, VBool y => Bool.eqb x y
  | VStr x, VStr y => text_eqb x y
  | VList x, VList y => Nat.eqb x y
  | VRec x, VRec y => Nat.eqb x y
  | VFun s1 p1, VFun s2 p2 => Nat.eqb s1 s2 && (Nat.eqb (length p1) (length p2) && forallb (fun '(x, y) => text_eqb x y) (combine p1 p2))
  | VNil, VNil => true
  | _, _ => false
  end.

Definition map_chars (tbl : list (N * N)) (s : text) : text :=
  map (fun c => match assoc_N c tbl with Some d => d | None => c end) s.

(* to_bn_num: every character of f64::to_string must be in the table *)
Definition to_bn_num (x : f64) : option text :=
  let s := f64_to_string x in
  if forallb (fun c => match assoc_N c print_char_map with Some _ => true | None => false end) s
  then Some (map_chars print_char_map s) else None.
Definition to_bn_bool (b : bool) : text := if b then text_true else text_false.

(* valid_list_index *)
Definition valid_index (x : f64) (len : nat) : option nat :=
  if f_nonneg x then
    let i := f_to_usize x in if (i <? Z.of_nat len)%Z then Some (Z.to_nat i) else None
  else None.

(** ** Text built-ins *)
Fixpoint starts_with (s p : text) : bool :=
  match p, s with
  | [], _ => true
  | c :: p', d :: s' => N.eqb c d && starts_with s' p'
  | _ :: _, [] => false
  end.

(* str::split with a non-empty pattern: leftmost, non-overlapping occurrences *)
Fixpoint split_go (fuel : nat) (s : text) (sep : text) (cur_rev : text) : list text :=
  match fuel with
  | O => [rev cur_rev]
  | S f =>
    match s with
    | [] => [rev cur_rev]
    | c :: r =>
        if starts_with s sep then rev cur_rev :: split_go f (skipn (length sep) s) sep []
        else split_go f r sep (c :: cur_rev)
    end
  end.
Definition str_split (s sep : text) : list text :=
  match sep with
  | [] => map (fun c => [c]) s          (* split("") minus the empty first and last field *)
  | _ => split_go (S (length s)) s sep []
  end.
Fixpoint str_join (l : list text) (sep : text) : text :=
  match l with [] => [] | [x] => x | x :: r => x ++ sep ++ str_join r sep end.

(* char::is_whitespace (White_Space) for trim_end *)
Definition is_whitespace (c : N) : bool :=
  let c := c in
  (((9 <=? c) && (c <=? 13)) || (c =? 32) || (c =? 133) || (c =? 160) || (c =? 5760) || ((8192 <=? c) && (c <=? 8202))
   || (c =? 8232) || (c =? 8233) || (c =? 8239) || (c =? 8287) || (c =? 12288))%N.
Fixpoint drop_ws (r : text) : text := match r with c :: r' => if is_whitespace c then drop_ws r' else r | [] => [] end.
Definition trim_end (s : text) : text := rev (drop_ws (rev s)).

Definition type_name (v : value) : text :=
  nth (match v with VNum _ => 0 | VBool _ => 1 | VStr _ => 2 | VList _ => 3 | VRec _ => 4 | VFun _ _ => 5 | VNil => 6 end) type_names [].

(** ** File system of the model (paths are compared as text; parents must exist) *)
Definition fs_get (w : world) (p : text) : option fsnode := alist_get p (w_fs w).
Definition fs_parent (p : text) : text :=                        (* "" for a path without '/' *)
  let r := rev p in
  let fix drop (r : text) := match r with c :: r' => if N.eqb c 47 then r' else drop r' | [] => [] end in
  rev (drop r).
Definition fs_parent_ok (w : world) (p : text) : bool :=
  match fs_parent p with
  | [] => true
  | d => match fs_get w d with Some FsDir => true | _ => false end
  end.
Definition fs_set (w : world) (p : text) (n : fsnode) : world := mkWorld (alist_set p n (w_fs w)) (w_stdin w) (w_cwd w).
Fixpoint alist_remove {A} (p : text -> bool) (l : list (text * A)) : list (text * A) :=
  match l with [] => [] | (k, v) :: r => if p k then alist_remove p r else (k, v) :: alist_remove p r end.
Definition is_under (d : text) (p : text) : bool := starts_with p (d ++ [47%N]).
(* create_dir_all: every missing ancestor; fails when a component is a file *)
Fixpoint path_prefixes (acc_rev : text) (p : text) : list text :=
  match p with
  | [] => [rev acc_rev]
  | c :: r => (if N.eqb c 47 then match acc_rev with [] => [] | _ => [rev acc_rev] end else []) ++ path_prefixes (c :: acc_rev) r
  end.
Fixpoint mkdirs (w : world) (ps : list text) : option world :=
  match ps with
  | [] => Some w
  | p :: r => match fs_get w p with
              | Some FsDir => mkdirs w r
              | Some _ => None
              | None => mkdirs (fs_set w p FsDir) r
              end
  end.
Definition dir_entries (w : world) (d : text) : list text :=
  flat_map (fun '(k, _) => if is_under d k then
                             let rest := skipn (S (length d)) k in
                             if existsb (N.eqb 47) rest then [] else [rest]
                           else []) (w_fs w).

(* an absolute path below the working directory names the same file as the relative one *)
Definition fs_norm (w : world) (p : text) : text :=
  let pre := w_cwd w ++ [47%N] in
  if starts_with p pre then skipn (length pre) p else p.

(** ** Evaluation *)
Section Run.
Variable code : list fstmt.

Definition stmt_at (pc : nat) : option fstmt := nth_error code pc.

(* extract_err_meta_stmt(self.current) *)
Definition here (m : machine) : outcome pos :=
  match stmt_at (m_pc m) with
  | Some s => Ok (stmt_pos s)
  | None => Err (mkErr EUnexpected 0 [] TagGeneric (m_out m))
  end.
Definition unexpected_at {A} (m : machine) : outcome A := Err (mkErr EUnexpected 0 [] TagGeneric (m_out m)).
Definition fail_here {A} (k : ekind) (m : machine) : outcome A :=
  match stmt_at (m_pc m) with
  | Some s => let p := stmt_pos s in Err (mkErr k (p_line p) (p_file p) TagGeneric (m_out m))
  | None => unexpected_at m
  end.
Definition fail_at {A} (k : ekind) (p : pos) (m : machine) : outcome A := Err (mkErr k (p_line p) (p_file p) TagGeneric (m_out m)).

(* skip_block: from pc, returns the index after the BlockEnd that closes the first BlockStart.
   Running off the end: extract_err_meta_stmt(len - 1) is asked with current = len, hence UnexpectedError. *)
Fixpoint skip_block (fuel : nat) (m : machine) (pc : nat) (depth : nat) : outcome nat :=
  match fuel with
  | O => OutOfFuel
  | S f =>
    match stmt_at pc with
    | None => unexpected_at m
    | Some (FBlockStart _) => skip_block f m (S pc) (S depth)
    | Some (FBlockEnd p) =>
        match depth with
        | O => fail_at ERuntime p m
        | S O => Ok (S pc)
        | S d => skip_block f m (S pc) d
        end
    | Some _ => skip_block f m (S pc) depth
    end
  end.
Definition skip_block_from (m : machine) (pc : nat) : outcome nat := skip_block (S (length code - pc)) m pc 0.

(* check_printable *)
Fixpoint printable (fuel : nat) (h : heap) (v : value) : outcome bool :=
  match fuel with
  | O => OutOfFuel
  | S f =>
    match v with
    | VNum x => Ok (match to_bn_num x with Some _ => true | None => false end)
    | VBool _ | VStr _ => Ok true
    | VList a => do l <- get_list h a;
                 fold_left (fun (acc : outcome bool) (e : value) => do b <- acc; if b then printable f h e else Ok false) l (Ok true)
    | VRec a => do r <- get_rec h a;
                fold_left (fun (acc : outcome bool) (e : text * value) => do b <- acc; if b then printable f h (snd e) else Ok false) r (Ok true)
    | _ => Ok false
    end
  end.

(* print_datatype: the chunks, oldest first *)
Fixpoint render_nested (fuel : nat) (h : heap) (v : value) : outcome (list chunk) :=
  match fuel with
  | O => OutOfFuel
  | S f =>
    match v with
    | VNum x => match to_bn_num x with Some s => Ok [CPrint s] | None => Panic SiteAssert end
    | VBool b => Ok [CPrint (to_bn_bool b)]
    | VStr s => Ok [CPrint s]
    | VList a =>
        do l <- get_list h a;
        do body <- (fix go (es : list value) : outcome (list chunk) :=
                      match es with
                      | [] => Ok []
                      | e :: [] => render_nested f h e
                      | e :: ((_ :: _) as r) => do c <- render_nested f h e; do cs <- go r; Ok (c ++ [CPrint [44; 32]%N] ++ cs)
                      end) l;
        Ok ([CPrint [91%N]] ++ body ++ [CPrint [93%N]])
    | VRec a =>
        do r <- get_rec h a;
        do body <- (fix go (es : list (text * value)) : outcome (list chunk) :=
                      match es with
                      | [] => Ok []
                      | (k, e) :: r => do c <- render_nested f h e; do cs <- go r;
                                       Ok ([CPrint ([34%N] ++ k ++ [34; 58]%N)] ++ c ++ [CPrint [44%N]] ++ cs)
                      end) r;
        Ok ([CPrint [64; 123]%N] ++ body ++ [CPrint [125%N]])
    | _ => Panic SiteAssert
    end
  end.

Definition println_last (cs : list chunk) : list chunk :=      (* the last write of a দেখাও is println *)
  match rev cs with
  | CPrint s :: r => rev (CPrintln s :: r)
  | _ => cs
  end.

Definition emit_all (m : machine) (cs : list chunk) : machine := fold_left emit cs m.

Definition depth_fuel (m : machine) : nat := S (S (length (h_lists (m_heap m)) + length (h_recs (m_heap m)))).

(* interpret_print_stmt / interpret_print_no_eol after the operand was evaluated *)
Definition do_print (eol : bool) (v : value) (m : machine) : outcome machine :=
  let h := m_heap m in
  match v with
  | VNum x =>
      match to_bn_num x with
      | Some s => Ok (next (emit m (if eol then CPrintln s else CPrint s)))
      | None => fail_here ERuntime m
      end
  | VBool b => Ok (next (emit m (if eol then CPrintln (to_bn_bool b) else CPrint (to_bn_bool b))))
  | VStr s => Ok (next (emit m (if eol then CPrintln s else CPrint s)))
  | VList _ | VRec _ =>
      do ok <- printable (depth_fuel m) h v;
      if ok then
        do cs <- render_nested (depth_fuel m) h v;
        Ok (next (emit_all m (if eol then println_last cs else cs)))
      else fail_here ERuntime m
  | _ => fail_here EType m
  end.

Inductive index := IxNum (x : f64) | IxKey (k : text).

(* the walker of reassign_to_list_or_record *)
Fixpoint assign_path (m : machine) (container : value) (path : list index) (v : value) (p : pos) : outcome machine :=
  match path with
  | [] => Panic SiteUnderflow                               (* evaluated_indexes.len() - 1 *)
  | ix :: rest =>
    match container, ix with
    | VList a, IxNum x =>
        do l <- get_list (m_heap m) a;
        match valid_index x (length l) with
        | None => fail_at ERuntime p m
        | Some i =>
            match rest with
            | [] => Ok (set_heap m (put_list (m_heap m) a (list_set l i v)))
            | _ => assign_path m (nth i l VNil) rest v p
            end
        end
    | VRec a, IxKey k =>
        do r <- get_rec (m_heap m) a;
        match rest with
        | [] => Ok (set_heap m (put_rec (m_heap m) a (alist_set k v r)))
        | _ => match alist_get k r with
               | Some c => assign_path m c rest v p
               | None => fail_at ERuntime p m
               end
        end
    | VList _, _ => fail_at ERuntime p m
    | VRec _, _ => fail_at ERuntime p m
    | _, _ => fail_at EType p m
    end
  end.

Definition rt_err {A} (m : machine) : outcome A := fail_here ERuntime m.

Definition is_builtin (name : text) : bool := existsb (text_eqb name) builtin_names.

(* the built-in operations, after the arguments were evaluated; [op] is the operation the name dispatches to
   (table builtin_ops, regenerated from the arms of call_built_in_function).
   Errors are RuntimeError at the current statement. *)
Definition builtin_op (op : nat) (args : list value) (m : machine) : outcome (value * machine) :=
  let h := m_heap m in
  let w := m_world m in
  let is n := Nat.eqb op n in
  if is 0 then (* _স্ট্রিং *)
    match args with
    | [VNum x] => Ok (VStr (map_chars builtins_en_to_bn (f64_to_string x)), m)
    | _ => rt_err m
    end
  else if is 1 then (* _সংখ্যা *)
    match args with
    | [VStr s] => match parse_f64 (map_chars builtins_bn_to_en s) with Some x => Ok (VNum x, m) | None => rt_err m end
    | _ => rt_err m
    end
  else if is 2 then (* _লিস্ট-পুশ *)
    match args with
    | [VList a; v] => do l <- get_list h a; Ok (VNil, set_heap m (put_list h a (l ++ [v])))
    | [VList a; VNum x; v] =>
        do l <- get_list h a;
        if f_nonneg x && (f_to_usize x <=? Z.of_nat (length l))%Z
        then Ok (VNil, set_heap m (put_list h a (insert_at l (Z.to_nat (f_to_usize x)) v)))
        else rt_err m
    | _ => rt_err m
    end
  else if is 3 then (* _লিস্ট-পপ *)
    match args with
    | [VList a] => do l <- get_list h a; Ok (VNil, set_heap m (put_list h a (removelast l)))
    | [VList a; VNum x] =>
        do l <- get_list h a;
        match valid_index x (length l) with
        | Some i => Ok (VNil, set_heap m (put_list h a (remove_at l i)))
        | None => rt_err m
        end
    | _ => rt_err m
    end
  else if is 4 then (* _লিস্ট-লেন *)
    match args with
    | [VList a] => do l <- get_list h a; Ok (VNum (f_of_nat (length l)), m)
    | _ => rt_err m
    end
  else if is 5 then (* _রিড-লাইন *)
    match args with
    | [] => match w_stdin w with
            | l :: r => Ok (VStr (trim_end l), set_world m (mkWorld (w_fs w) r (w_cwd w)))
            | [] => Ok (VStr [], m)
            end
    | _ => rt_err m
    end
  else if is 6 then (* _এরর *)
    do p <- here m;
    match args with
    | [VStr msg] => Err (mkErr ERuntime (p_line p) (p_file p) (TagUser msg) (m_out m))
    | _ => Err (mkErr ERuntime (p_line p) (p_file p) TagGeneric (m_out m))
    end
  else if is 7 then (* _স্ট্রিং-স্প্লিট *)
    match args with
    | [VStr s; VStr sep] =>
        let '(a, h') := alloc_list h (map VStr (str_split s sep)) in Ok (VList a, set_heap m h')
    | _ => rt_err m
    end
  else if is 8 then (* _স্ট্রিং-জয়েন *)
    match args with
    | [VList a; VStr sep] =>
        do l <- get_list h a;
        if forallb (fun v => match v with VStr _ => true | _ => false end) l
        then Ok (VStr (str_join (map (fun v => match v with VStr s => s | _ => [] end) l) sep), m)
        else rt_err m
    | _ => rt_err m
    end
  else if is 9 then (* _টাইপ *)
    match args with
    | [v] => Ok (VStr (type_name v), m)
    | _ => rt_err m
    end
  else if is 10 then (* _রিড-ফাইল *)
    match args with
    | [VStr p0] => let p := fs_norm w p0 in match fs_get w p with Some (FsFile c) => Ok (VStr c, m) | _ => rt_err m end
    | _ => rt_err m
    end
  else if is 11 then (* _রাইট-ফাইল *)
    match args with
    | [VStr p0; VStr c] => let p := fs_norm w p0 in
        match fs_get w p with
        | Some FsDir => rt_err m
        | _ => if fs_parent_ok w p && negb (text_eqb p []) then Ok (VBool true, set_world m (fs_set w p (FsFile c))) else rt_err m
        end
    | _ => rt_err m
    end
  else if is 12 then (* _ডিলিট-ফাইল *)
    match args with
    | [VStr p0] => let p := fs_norm w p0 in
        match fs_get w p with
        | Some (FsFile _) | Some FsBinary => Ok (VBool true, set_world m (mkWorld (alist_remove (text_eqb p) (w_fs w)) (w_stdin w) (w_cwd w)))
        | _ => rt_err m
        end
    | _ => rt_err m
    end
  else if is 13 then (* _নতুন-ডাইরেক্টরি *)
    match args with
    | [VStr p0] => let p := fs_norm w p0 in match p with
                  | [] => Ok (VBool true, m)
                  | _ => match mkdirs w (path_prefixes [] p) with
                         | Some w' => Ok (VBool true, set_world m w')
                         | None => rt_err m
                         end
                  end
    | _ => rt_err m
    end
  else if is 14 then (* _রিড-ডাইরেক্টরি *)
    match args with
    | [VStr p0] => let p := fs_norm w p0 in
        match fs_get w p with
        | Some FsDir =>
            let '(a, h') := alloc_list h (map VStr (dir_entries w p)) in Ok (VList a, set_heap m h')
        | _ => rt_err m
        end
    | _ => rt_err m
    end
  else if is 15 then (* _ডিলিট-ডাইরেক্টরি *)
    match args with
    | [VStr p0] => let p := fs_norm w p0 in
        match fs_get w p with
        | Some FsDir => Ok (VBool true, set_world m (mkWorld (alist_remove (fun k => text_eqb k p || is_under p k) (w_fs w)) (w_stdin w) (w_cwd w)))
        | _ => rt_err m
        end
    | _ => rt_err m
    end
  else if is 16 then (* _ফাইল-নাকি-ডাইরেক্টরি *)
    match args with
    | [VStr p0] => let p := fs_norm w p0 in
        match fs_get w p with
        | Some FsDir => Ok (VStr text_dir, m)
        | Some _ => Ok (VStr text_file, m)
        | None => rt_err m
        end
    | _ => rt_err m
    end
  else Panic SiteUnwrap.

Definition call_builtin (name : text) (fpos : pos) (args : list value) (m : machine) : outcome (value * machine) :=
  match assoc_text name builtin_ops with
  | Some op => builtin_op op args m
  | None => fail_at ERuntime fpos m          (* "Built-in function not defined", located at the function token *)
  end.

(* the loops of the evaluator over lists of sub-expressions, parameterised by the evaluator of one expression *)
Section EvalLoops.
Variable ev : expr -> machine -> outcome (value * machine).

(* list literals and built-in arguments: left to right *)
Fixpoint eval_list (es : list expr) (m : machine) : outcome (list value * machine) :=
  match es with
  | [] => Ok ([], m)
  | e1 :: r => do '(v, m1) <- ev e1 m; do '(vs, m2) <- eval_list r m1; Ok (v :: vs, m2)
  end.

(* record literals: a key that is not a string is skipped together with its value *)
Fixpoint eval_rec (ks vs : list expr) (acc : list (text * value)) (m : machine) : outcome (list (text * value) * machine) :=
  match ks with
  | [] => Ok (acc, m)
  | k :: ks' =>
      do '(kv, m1) <- ev k m;
      match kv with
      | VStr key =>
          match vs with
          | v :: vs' => do '(vv, m2) <- ev v m1; eval_rec ks' vs' (alist_set key vv acc) m2
          | [] => Panic SiteIndex
          end
      | _ => eval_rec ks' (tl vs) acc m1
      end
  end.

(* parameters are bound by position: a missing argument is nil, a surplus argument is not evaluated *)
Fixpoint bind_args (ps : list text) (as_ : list expr) (env : scope) (m : machine) : outcome (scope * machine) :=
  match ps with
  | [] => Ok (env, m)
  | p1 :: ps' =>
      match as_ with
      | a1 :: as' => do '(v, m1) <- ev a1 m; bind_args ps' as' (alist_set p1 v env) m1
      | [] => bind_args ps' [] (alist_set p1 VNil env) m
      end
  end.

(* evaluate_all_indexes: every index of an indexed assignment is a one-element list literal *)
Fixpoint eval_indexes (is : list expr) (m : machine) : outcome (list index * machine) :=
  match is with
  | [] => Ok ([], m)
  | i1 :: r =>
      do '(iv, m1) <- ev i1 m;
      match iv with
      | VList a =>
          do l <- get_list (m_heap m1) a;
          match l with
          | VNum x :: _ => do '(p, m2) <- eval_indexes r m1; Ok (IxNum x :: p, m2)
          | VStr k :: _ => do '(p, m2) <- eval_indexes r m1; Ok (IxKey k :: p, m2)
          | _ => fail_at ERuntime (expr_pos i1) m1
          end
      | _ => fail_at ERuntime (expr_pos i1) m1
      end
  end.
End EvalLoops.

(* interpret_else_stmt: skip every remaining branch of the chain *)
Section SkipChain.
Variable m : machine.
Fixpoint skip_chain (k : nat) (pc : nat) : outcome machine :=
  match k with
  | O => OutOfFuel
  | S k' =>
    let pc1 := match stmt_at pc with Some (FIf _ _) => S pc | _ => pc end in
    do pc2 <- skip_block_from m pc1;
    match stmt_at pc2 with
    | Some (FElse _) => skip_chain k' (S pc2)
    | _ => Ok (set_pc m pc2)
    end
  end.
End SkipChain.

(* One layer of the mutually recursive evaluator, with the recursive occurrences as parameters (open recursion):
   [ev] evaluates a sub-expression, [cl] runs a function body until its cursor rests on a Return, [ip] interprets one
   statement.  The fixpoints below tie the knot on fuel. *)
Definition eval_step (ev : expr -> machine -> outcome (value * machine)) (cl : machine -> outcome machine)
                     (e : expr) (m : machine) : outcome (value * machine) :=
    match e with
    | ENil _ => Ok (VNil, m)
    | EBool b _ => Ok (VBool b, m)
    | ENum x _ => Ok (VNum x, m)
    | EStr s _ => Ok (VStr s, m)
    | EVar x _ => match lookup_var x (m_scopes m) with Some v => Ok (v, m) | None => rt_err m end
    | EList es _ =>
        do '(vs, m1) <- eval_list (ev) es m;
        let '(a, h') := alloc_list (m_heap m1) vs in Ok (VList a, set_heap m1 h')
    | EGroup e1 _ => ev e1 m
    | ERec ks vs _ =>
        do '(r, m1) <- eval_rec (ev) ks vs [] m;
        let '(a, h') := alloc_rec (m_heap m1) r in Ok (VRec a, set_heap m1 h')
    | EUn o e1 _ =>
        let p := expr_pos e1 in
        do '(v, m1) <- ev e1 m;
        match v, o with
        | VNum x, UNeg => Ok (VNum (f_neg x), m1)
        | VBool b, UNot => Ok (VBool (negb b), m1)
        | _, _ => fail_at EType p m1
        end
    | EBin o l r _ =>
        let p := expr_pos l in
        match o with
        | BAnd | BOr =>
            do '(rv, m1) <- ev r m;
            do '(lv, m2) <- ev l m1;
            match rv, lv with
            | VBool a, VBool b => Ok (VBool (match o with BAnd => a && b | _ => a || b end), m2)
            | _, _ => fail_at EType p m2
            end
        | BAdd | BSub =>
            do '(lv, m1) <- ev l m;
            do '(rv, m2) <- ev r m1;
            match lv, rv with
            | VNum a, VNum b => Ok (VNum (match o with BAdd => f_add a b | _ => f_sub a b end), m2)
            | VStr a, VStr b => match o with BAdd => Ok (VStr (a ++ b), m2) | _ => fail_at EType p m2 end
            | VList a, VList b =>
                do la <- get_list (m_heap m2) a;
                do lb <- get_list (m_heap m2) b;
                match o with
                | BAdd => let '(c, h') := alloc_list (m_heap m2) (la ++ lb) in Ok (VList c, set_heap m2 h')
                | _ => fail_at EType p m2
                end
            | _, _ => fail_at EType p m2
            end
        | BMul | BDiv | BRem =>
            do '(rv, m1) <- ev r m;
            do '(lv, m2) <- ev l m1;
            match rv, lv with
            | VNum b, VNum a => Ok (VNum (match o with BMul => f_mul a b | BDiv => f_div a b | _ => f_rem a b end), m2)
            | _, _ => fail_at EType p m2
            end
        | BEq | BNe =>
            do '(lv, m1) <- ev l m;
            do '(rv, m2) <- ev r m1;
            Ok (VBool (match o with BEq => value_eqb lv rv | _ => negb (value_eqb lv rv) end), m2)
        | BLt | BLe | BGt | BGe =>
            do '(lv, m1) <- ev l m;
            do '(rv, m2) <- ev r m1;
            match lv, rv with
            | VNum a, VNum b =>
                Ok (VBool (match o with BLt => f_ltb a b | BLe => f_leb a b | BGt => f_ltb b a | _ => f_leb b a end), m2)
            | _, _ => fail_at EType p m2
            end
        end
    | EIndex a i _ =>
        let p := expr_pos i in
        do '(av, m1) <- ev a m;
        do '(iv, m2) <- ev i m1;
        match av, iv with
        | VList x, VNum n =>
            do l <- get_list (m_heap m2) x;
            match valid_index n (length l) with
            | Some k => Ok (nth k l VNil, m2)
            | None => fail_at ERuntime p m2
            end
        | VRec x, VStr k =>
            do r <- get_rec (m_heap m2) x;
            match alist_get k r with Some v => Ok (v, m2) | None => fail_at ERuntime p m2 end
        | _, VNum _ => fail_at ERuntime p m2
        | VList _, _ => fail_at EType p m2
        | _, VStr _ => fail_at ERuntime p m2
        | VRec _, _ => fail_at EType p m2
        | _, _ => fail_at ERuntime p m2
        end
    | ECall fe args _ =>
        let env_count := length (m_scopes m) in
        let loop_count := length (m_loops m) in
        let callers_base := m_loop_base m in
        match fe with
        | EVar name np =>
            if is_builtin name then
              do '(vs, m1) <- eval_list (ev) args m;
              call_builtin name np vs m1
            else
              do fv <- (match lookup_var name (m_scopes m) with Some v => Ok v | None => rt_err m end);
              match fv with
              | VFun start params =>
                  (* bind parameters by position; surplus arguments are not evaluated *)
                  do '(env, m1) <- bind_args (ev) params args [] m;
                  let m2 := mkM start (env :: m_scopes m1) (m_loops m1) loop_count (m_pc m1 :: m_ret m1) (m_heap m1) (m_out m1) (m_world m1) (m_collections m1) in
                  match stmt_at start with
                  | Some (FBlockStart _) =>
                      do m3 <- cl m2;
                      match stmt_at (m_pc m3) with
                      | Some (FReturn re _) =>
                          let rv := ev re m3 in
                          match m_ret m3 with
                          | [] => Panic SiteUnwrap
                          | ra :: rets =>
                              match rv with
                              | Ok (v, m4) =>
                                  (* env_count_after_fn_call - env_count_before_fn_call *)
                                  if length (m_scopes m4) <? env_count then Panic SiteUnderflow
                                  else Ok (v, mkM ra (truncate env_count (m_scopes m4)) (truncate loop_count (m_loops m4)) callers_base rets
                                                  (m_heap m4) (m_out m4) (m_world m4) (m_collections m4))
                              | Err e => Err e
                              | Panic s => Panic s
                              | OutOfFuel => OutOfFuel
                              end
                          end
                      | _ => rt_err m3
                      end
                  | Some _ => unexpected_at m2
                  | None => Panic SiteIndex
                  end
              | _ => fail_at ERuntime np m
              end
        | _ => rt_err m
        end
    end.

(* the loop of interpret_func_call_expr: interpret statements until the cursor rests on a Return *)
Definition call_loop_step (ip cl : machine -> outcome machine) (m : machine) : outcome machine :=
    match stmt_at (m_pc m) with
    | None => Panic SiteIndex
    | Some (FReturn _ _) => Ok m
    | Some _ => do m1 <- ip m; cl m1
    end.

(* interpret(): one statement *)
Definition interp_step (ev : expr -> machine -> outcome (value * machine)) (m : machine) : outcome machine :=
    match stmt_at (m_pc m) with
    | None => Panic SiteIndex
    | Some s =>
      match s with
      | FPrint e _ => do '(v, m1) <- ev e m; do_print true v m1
      | FPrintNoEol e _ => do '(v, m1) <- ev e m; do_print false v m1
      | FAssign AFirst x _ _ init _ =>
          match init with
          | Some e => do '(v, m1) <- ev e m; do ss <- declare x v (m_scopes m1); Ok (next (set_scopes m1 ss))
          | None => do ss <- declare x VNil (m_scopes m); Ok (next (set_scopes m ss))
          end
      | FAssign AReassign x _ idx init _ =>
          match init with
          | None => Panic SiteUnwrap
          | Some e =>
            do '(v, m1) <- ev e m;
            match idx with
            | [] =>
                match assign_var x v (m_scopes m1) with
                | Some ss => Ok (next (set_scopes m1 ss))
                | None => rt_err m1
                end
            | _ =>
                match lookup_var x (m_scopes m1) with
                | None => rt_err m1
                | Some _ =>
                    (* find_var_env_index fixes the scope BEFORE the index expressions are evaluated (an undeclared
                       name is reported first); evaluate_all_indexes: every index is a one-element list literal;
                       get_var_from_env reads the variable AFTER them, so an index expression that rebinds x decides
                       which container is written.  The Rust code reads scopes[found].get(x).unwrap(): the model
                       re-resolves the name -- the same scope, because an expression leaves every scope with the names
                       it had (Skeleton.v) -- and panics like the unwrap if it is gone (proved unreachable) *)
                    do '(path, m2) <- eval_indexes (ev) idx m1;
                    do p <- here m2;
                    match lookup_var x (m_scopes m2) with
                    | None => Panic SiteUnwrap
                    | Some container =>
                        do m3 <- assign_path m2 container path v p;
                        Ok (next m3)
                    end
                end
            end
          end
      | FExpr e _ => do '(_, m1) <- ev e m; Ok (next m1)
      | FIf c _ =>
          do '(v, m1) <- ev c m;
          match v with
          | VBool true => Ok (next m1)
          | VBool false =>
              do pc' <- skip_block_from m1 (S (m_pc m1));
              match stmt_at pc' with
              | Some (FElse _) => Ok (set_pc m1 (S pc'))
              | _ => Ok (set_pc m1 pc')
              end
          | _ => fail_at ERuntime (expr_pos c) m1
          end
      | FElse _ =>
          (* reached only after a branch of the chain ran: skip every remaining branch *)
          skip_chain m (S (length code)) (S (m_pc m))
      | FFuncDef _ =>
          let pc1 := S (m_pc m) in
          match stmt_at pc1 with
          | None => Panic SiteIndex
          | Some (FExpr (ECall fe args _) sp) =>
              match fe with
              | EVar fname fp =>
                  match (fix names (as_ : list expr) : option (list text) :=
                           match as_ with
                           | [] => Some []
                           | EVar x _ :: r => match names r with Some l => Some (x :: l) | None => None end
                           | _ => None
                           end) args with
                  | None => fail_at ERuntime fp m
                  | Some params =>
                      do ss <- declare fname (VFun (S pc1) params) (m_scopes m);
                      do pc2 <- skip_block_from m (S pc1);
                      match stmt_at pc2 with
                      | Some (FReturn _ _) => Ok (set_pc (set_scopes m ss) (S pc2))
                      | Some _ => fail_at ERuntime (stmt_pos (last code (FEOS (mkPos 0 [])))) m
                      | None => unexpected_at m
                      end
                  end
              | _ => fail_at ERuntime sp m
              end
          | Some s1 => fail_at ERuntime (stmt_pos s1) m
          end
      | FLoop p =>
          let start := S (m_pc m) in
          match stmt_at start with
          | Some (FBlockStart _) =>                (* the loop's own block comes first *)
              do pc2 <- skip_block_from m start;
              match stmt_at pc2 with
              | Some (FContinue _) =>
                  Ok (set_pc (set_loops m (mkLoop start (S pc2) (length (m_scopes m)) :: m_loops m)) start)
              | _ => fail_at ERuntime p m
              end
          | _ => fail_at ERuntime p m
          end
      | FContinue _ =>
          if length (m_loops m) <=? m_loop_base m then rt_err m
          else match m_loops m with
               | l :: _ => Ok (set_pc (set_scopes m (truncate (l_depth l) (m_scopes m))) (l_start l))
               | [] => Panic SiteUnderflow
               end
      | FBreak _ =>
          if length (m_loops m) <=? m_loop_base m then rt_err m
          else match m_loops m with
               | l :: ls => Ok (set_pc (set_loops (set_scopes m (truncate (l_depth l) (m_scopes m))) ls) (l_end l))
               | [] => Panic SiteUnwrap
               end
      | FBlockStart _ => Ok (next (set_scopes m ([] :: m_scopes m)))
      | FBlockEnd _ =>
          if length (m_scopes m) <=? 1 then rt_err m
          else Ok (next (set_scopes m (tl (m_scopes m))))
      | FReturn _ _ | FEOS _ => rt_err m
      end
    end.

(* one fuel unit per nesting level.  All arguments are taken before the match so that the extracted OCaml code builds
   the closures [eval f], [call_loop f], [interp f] without running them. *)
Fixpoint eval (fuel : nat) (e : expr) (m : machine) {struct fuel} : outcome (value * machine) :=
  match fuel with
  | O => OutOfFuel
  | S f => eval_step (eval f) (call_loop f) e m
  end
with call_loop (fuel : nat) (m : machine) {struct fuel} : outcome machine :=
  match fuel with
  | O => OutOfFuel
  | S f => call_loop_step (interp f) (call_loop f) m
  end
with interp (fuel : nat) (m : machine) {struct fuel} : outcome machine :=
  match fuel with
  | O => OutOfFuel
  | S f => interp_step (eval f) m
  end.

(* Interpreter::run with the collection schedule made explicit:
   [sched = None]: the allocation-counter trigger of the code; [Some bits]: collect after the n-th top-level
   statement iff bits[n mod len] (the hook H1 of the harness), counter reset at every boundary *)
Definition should_collect (sched : option (list bool)) (boundary : nat) (m : machine) : bool :=
  match sched with
  | None => gc_threshold <=? h_alloc (m_heap m)
  | Some [] => false
  | Some bits => nth (boundary mod length bits) bits false
  end.

Definition reset_alloc (h : heap) : heap := mkHeap (h_lists h) (h_free_lists h) (h_recs h) (h_free_recs h) 0.

Fixpoint run (fuel : nat) (sched : option (list bool)) (boundary : nat) (m : machine) {struct fuel} : outcome machine * machine :=
  match fuel with
  | O => (OutOfFuel, m)
  | S f =>
    match stmt_at (m_pc m) with
    | None => (Panic SiteIndex, m)
    | Some (FEOS _) => (Ok m, m)
    | Some _ =>
      match interp f m with
      | Ok m1 =>
          let m2 :=
            if should_collect sched boundary m1 then
              match collect (m_scopes m1) (m_heap m1) with
              | Ok h' => Ok (mkM (m_pc m1) (m_scopes m1) (m_loops m1) (m_loop_base m1) (m_ret m1) (reset_alloc h') (m_out m1) (m_world m1) (S (m_collections m1)))
              | Err e => Err e | Panic s => Panic s | OutOfFuel => OutOfFuel
              end
            else Ok (match sched with Some _ => set_heap m1 (reset_alloc (m_heap m1)) | None => m1 end) in
          match m2 with
          | Ok m2' => run f sched (S boundary) m2'
          | other => (other, m1)
          end
      | other => (other, m)
      end
    end
  end.

End Run.

Definition empty_heap : heap := mkHeap [] [] [] [] 0.

Definition init_machine (platform : text) (w : world) : machine :=
  mkM 0 [[(platform_const, VStr platform)]] [] 0 [] empty_heap [] w 0.
