(** C13: the interpreter never panics.  For every statement vector that satisfies [code_ok] (the parser's output
    does, see ParseOk.v), every amount of fuel and every well-formed machine, evaluation, the call loop, one statement
    and the whole run return a value, an error or run out of fuel -- never [Panic].  Along the way: an expression leaves
    the program position, the height of the scope stack, the loop stack and the return stack as they were (calls
    included), and inside a function body the frame invariant of FrameInv.v holds at every step.
    (The layers are in NoPanicStep.v; the induction on fuel, shared with the scope-skeleton invariant, in Skeleton.v.) *)
From Pakhi Require Import Base Float64 Syntax Tables Lexer Interp.
From Pakhi.Proofs Require Import Unfold Frames WF WFOps FrameInv Scope SkelDefs.
From Pakhi.Proofs Require Export NoPanicStep.
From Pakhi.Proofs Require Import Skeleton.
From Coq Require Import Lia ZArith.
Local Open Scope nat_scope.

Section NoPanic.
Variable code : list fstmt.
Hypothesis Hcode : code_ok code.

Notation vok := (vok code).
Notation eok := (eok code).
Notation hok := (hok code).
Notation sok := (sok code).
Notation mwf := (mwf code).
Notation good := (good code).
Notation Qe := (Qe code).
Notation finv := (finv code).
Notation frame_static := (frame_static code).
Notation Pe := (Pe code).
Notation Pcl := (Pcl code).
Notation Pip := (Pip code).

Theorem no_panic_fuel : forall f, Pe (eval code f) /\ Pcl (call_loop code f) /\ Pip (interp code f).
Proof. intros f. apply (all_invariants_fuel code Hcode f). Qed.

(** ** the whole run, under any collection schedule *)
Theorem run_no_panic : forall fuel sched boundary m, mwf m ->
  forall s, fst (run code fuel sched boundary m) <> Panic s.
Proof.
  induction fuel as [|f IH]; intros sched boundary m Hm s; cbn [run]; [discriminate|].
  destruct (stmt_at code (m_pc m)) as [st|] eqn:Hs.
  2:{ pose proof (w_pc code m Hm) as Hpc. unfold stmt_at in Hs. apply nth_error_None in Hs. lia. }
  match goal with
  | |- fst (match st with
            | FPrint _ _ => ?B | FPrintNoEol _ _ => _ | FAssign _ _ _ _ _ _ => _ | FExpr _ _ => _ | FBlockStart _ => _ | FBlockEnd _ => _
            | FFuncDef _ => _ | FReturn _ _ => _ | FIf _ _ => _ | FLoop _ => _ | FContinue _ => _ | FBreak _ => _ | FElse _ => _ | FEOS _ => _
            end) <> _ => assert (Step : fst B <> Panic s)
  end.
  { destruct (no_panic_fuel f) as (_ & _ & Hi). specialize (Hi m Hm).
    destruct (interp code f m) as [m1| | |]; simpl in Hi; try contradiction; try discriminate.
    destruct Hi as (W1 & _ & _).
    assert (Hreset : forall h, hok h -> hle (m_heap m1) h -> mwf (mkM (m_pc m1) (m_scopes m1) (m_loops m1) (m_loop_base m1) (m_ret m1) (reset_alloc h) (m_out m1) (m_world m1) (S (m_collections m1)))
                                                          /\ mwf (set_heap m1 (reset_alloc h))).
    { intros h [H1 H2 H3 H4] Hle.
      assert (hok (reset_alloc h)) by (constructor; simpl; auto).
      assert (hle (m_heap m1) (reset_alloc h)) by exact Hle.
      destruct W1 as [A B C D E]. split; constructor; simpl; auto; eapply sok_mono; eauto. }
    destruct (should_collect sched boundary m1).
    - pose proof (collect_ok code (m_scopes m1) (m_heap m1) (w_h code m1 W1) (w_sc code m1 W1)) as Hc.
      destruct (collect (m_scopes m1) (m_heap m1)) as [h'| | |]; simpl in Hc; try contradiction; try discriminate.
      destruct Hc as (C1 & C2 & C3 & C4). apply IH. apply (Hreset h' C1 C3).
    - destruct sched; apply IH; [|exact W1]. apply (Hreset (m_heap m1) (w_h code m1 W1) (hle_refl _)). }
  destruct st; try exact Step. cbn [fst]. intros Hx; discriminate Hx.
Qed.


(** ** corollaries *)
Lemma mwf_init platform w : code <> [] -> mwf (init_machine platform w).
Proof.
  intros Hne. constructor; simpl.
  - destruct code; [congruence|simpl; lia].
  - lia.
  - constructor; [|constructor]. constructor; [exact I|constructor].
  - constructor; simpl; constructor.
  - constructor.
Qed.

(* an expression -- calls of any depth included -- gives the caller back its position, scope-stack height, loop stack
   and return stack *)
Theorem eval_restores_caller fuel e m v m' : mwf m -> expr_ok e = true -> eval code fuel e m = Ok (v, m') ->
  m_pc m' = m_pc m /\ length (m_scopes m') = length (m_scopes m) /\ m_loops m' = m_loops m /\
  m_loop_base m' = m_loop_base m /\ m_ret m' = m_ret m.
Proof.
  intros Hm He H. destruct (no_panic_fuel fuel) as (Pe_ & _ & _). specialize (Pe_ e m Hm He). rewrite H in Pe_.
  destruct Pe_ as [(_ & S & _) _]. exact S.
Qed.

Theorem eval_no_panic fuel e m : mwf m -> expr_ok e = true -> forall s, eval code fuel e m <> Panic s.
Proof.
  intros Hm He s H. destruct (no_panic_fuel fuel) as (Pe_ & _ & _). specialize (Pe_ e m Hm He). rewrite H in Pe_. exact Pe_.
Qed.

Theorem interp_no_panic fuel m : mwf m -> forall s, interp code fuel m <> Panic s.
Proof.
  intros Hm s H. destruct (no_panic_fuel fuel) as (_ & _ & Pi_). specialize (Pi_ m Hm). rewrite H in Pi_. exact Pi_.
Qed.

(* a statement keeps the machine well-formed and, inside a function body, keeps the frame invariant *)
Theorem interp_keeps_invariants fuel m m' : mwf m -> interp code fuel m = Ok m' ->
  mwf m' /\ forall F, frame_static F -> finv F m -> finv F m'.
Proof.
  intros Hm H. destruct (no_panic_fuel fuel) as (_ & _ & Pi_). specialize (Pi_ m Hm). rewrite H in Pi_.
  destruct Pi_ as (W & _ & Fr). split; assumption.
Qed.

End NoPanic.
