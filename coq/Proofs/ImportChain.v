(** C15: the chain of an import contains the files of ALL modules it is nested in.  A module imported under the name A
    has every import statement of its own text read under a name A/x (the renaming of C14 prefixes the import name too),
    and the chain of A/x contains the file registered for A -- and for every further prefix A/b of a deeper name A/b/x.
    Hence a module that imports itself, its importer, or any module it is nested in, at any depth, is rejected before the
    file is read.  (Termination of loading for every finite file map is not proved: see DESIGN.md.) *)
From Pakhi Require Import Base Float64 Syntax Tables Lexer Parser.
From Pakhi.Proofs Require Import Assoc Modules.
From Coq Require Import Lia.
Local Open Scope nat_scope.

Lemma prefix_is_slash_prefix : forall pre x acc, In (rev acc ++ pre) (slash_prefixes acc (pre ++ c_slash :: x)).
Proof.
  induction pre as [|c p IH]; intros x acc.
  - cbn [app slash_prefixes]. rewrite N.eqb_refl. rewrite app_nil_r. left. reflexivity.
  - cbn [app slash_prefixes]. apply in_or_app. right.
    replace (rev acc ++ c :: p) with (rev (c :: acc) ++ p) by (cbn [rev]; rewrite <- app_assoc; reflexivity).
    apply IH.
Qed.

Lemma assoc_text_app_none {A} k (l1 l2 : list (text * A)) : assoc_text k l1 = None -> assoc_text k (l1 ++ l2) = assoc_text k l2.
Proof.
  induction l1 as [|[k' v] r IH]; intros H; [reflexivity|]. cbn [app assoc_text] in *.
  destruct (text_eqb k k'); [discriminate|]. apply IH. exact H.
Qed.

Section Import.
Variable fs : text -> option text.
Variable cwd main_path : text.

(* the file registered for any '/'-prefix of the import name is on the chain *)
Theorem enclosing_module_is_on_the_chain a x mods f :
  assoc_text a mods = Some f -> In f (import_chain main_path (a ++ c_slash :: x) mods).
Proof.
  intros H. unfold import_chain. right. apply in_flat_map. exists a. split.
  - apply (prefix_is_slash_prefix a x []).
  - rewrite H. left. reflexivity.
Qed.

(* an import, anywhere inside the text of a module registered as [a], of the file registered for [a]: rejected *)
Theorem import_of_an_enclosing_module_is_rejected a x module_path s1 :
  ends_with module_path module_ext = true ->
  assoc_text a (ps_mods s1) = Some (same_file_key (module_file_path main_path module_path)) ->
  import_tail fs cwd main_path (a ++ c_slash :: x) module_path s1 = cyclic_err.
Proof.
  intros He Ha. apply cyclic_import_rejected; [exact He|]. apply enclosing_module_is_on_the_chain. exact Ha.
Qed.

(* right after module [a] has been accepted, an import of the same file from inside it (a file importing itself through
   any import name) is rejected, whatever was registered in between under other names *)
Theorem self_import_is_rejected a module_path s1 s2 x later module_path2 s3 :
  import_tail fs cwd main_path a module_path s1 = Ok s2 ->
  ps_mods s3 = later ++ ps_mods s2 -> assoc_text a later = None ->
  ends_with module_path2 module_ext = true ->
  same_file_key (module_file_path main_path module_path2) = same_file_key (module_file_path main_path module_path) ->
  import_tail fs cwd main_path (a ++ c_slash :: x) module_path2 s3 = cyclic_err.
Proof.
  intros H1 Hm Hl He Hk.
  destruct (import_splices_in_place fs cwd main_path a module_path s1 s2 H1) as (semi & after & src & toks & toks' & _ & _ & _ & _ & _ & _ & Hmods).
  apply import_of_an_enclosing_module_is_rejected; [exact He|].
  rewrite Hm, Hmods, Hk. rewrite assoc_text_app_none by exact Hl. cbn [assoc_text]. rewrite text_eqb_refl. reflexivity.
Qed.
End Import.
