(** C19: the names a program binds are names it declares.  At every statement boundary of every run of a program, every name
    bound in any scope is the target of a declaration or the name of a function definition written in the program (or the
    platform constant), and the platform constant is still bound, in the global scope, to the platform string -- provided
    the program never assigns to it.  With FragmentsAlone.v: if P2 mentions none of the names P1 declares, P1;P2 ends like
    P2 alone -- the hypothesis of C19 in its syntactic form. *)
From Pakhi Require Import Base Float64 Syntax Tables Lexer Parser Interp.
From Pakhi.Proofs Require Import Assoc Scope Unfold Frames WF WFOps FrameInv SkelDefs NoPanicStep Skeleton NoPanic HeapRW ViewKeep
  GCMark GCSweep SimDefs GCInvisible HeapPre HeapBound TopLevel Sim Sim2Defs Sim2 Compose PrefixRun FragmentsAlone.
From Coq Require Import Lia ZArith.
Local Open Scope nat_scope.

Lemma alist_set_keys_in {A} y (v : A) s k : In k (map fst (alist_set y v s)) -> k = y \/ In k (map fst s).
Proof.
  induction s as [|[k' v'] r IH]; cbn [alist_set map fst]; [intros [<-|[]]; auto|].
  destruct (text_eqb y k') eqn:E; cbn [map fst].
  - apply text_eqb_eq in E. subst. intros [<-|H]; [left; reflexivity|right; right; exact H].
  - intros [<-|H]; [right; left; reflexivity|]. destruct (IH H) as [->|H2]; [left; reflexivity|right; right; exact H2].
Qed.

Lemma alist_get_in {A} x (s : list (text * A)) v : alist_get x s = Some v -> In x (map fst s).
Proof.
  induction s as [|[k w] r IH]; cbn [alist_get map fst]; [discriminate|].
  destruct (text_eqb x k) eqn:E; [apply text_eqb_eq in E; subst; left; reflexivity|]. intros H. right. apply IH. exact H.
Qed.

Lemma last_skipn {A} k (l : list A) d : skipn k l <> [] -> last (skipn k l) d = last l d.
Proof.
  revert l. induction k as [|k IH]; intros l H; [reflexivity|]. destruct l as [|a r]; [reflexivity|]. cbn [skipn] in *.
  rewrite IH by exact H. destruct r; [destruct k; cbn in H; congruence|reflexivity].
Qed.

Lemma Forall_skipn' {A} (P : A -> Prop) k : forall l, Forall P l -> Forall P (skipn k l).
Proof. induction k as [|k IH]; intros l H; [exact H|]. destruct l; [constructor|]. cbn [skipn]. apply IH. inversion H; assumption. Qed.

Section Keys.
Variable code : list fstmt.
Hypothesis Hcode : code_ok code.
Variable platform : text.
Variable D : text -> Prop.
(* every declared name and every function name of the program is in D; the platform constant is not, and is never assigned to *)
Hypothesis Hdecl : forall pc y yp idx init p, stmt_at code pc = Some (FAssign AFirst y yp idx init p) -> D y.
Hypothesis Hfun : forall pc q f fp args ap sp, stmt_at code pc = Some (FFuncDef q) ->
  stmt_at code (S pc) = Some (FExpr (ECall (EVar f fp) args ap) sp) -> D f.
Hypothesis HDp : ~ D platform_const.
Hypothesis Hre : forall pc y yp idx init p, stmt_at code pc = Some (FAssign AReassign y yp idx init p) -> y <> platform_const.

Notation mwf := (mwf code).
Definition pview (ss : list scope) : list (option value) := view _ (alist_get platform_const) ss.

Definition K1 (m : machine) : Prop := Forall (Forall (fun k => D k \/ k = platform_const)) (skel (m_scopes m)).
Definition K2 (m : machine) : Prop := last (pview (m_scopes m)) None = Some (VStr platform).

Lemma assign_pview : forall pc y yp idx init p v ss ss', stmt_at code pc = Some (FAssign AReassign y yp idx init p) ->
  assign_var y v ss = Some ss' -> pview ss' = pview ss.
Proof.
  intros pc y yp idx init p v ss ss' Hs. pose proof (Hre _ _ _ _ _ _ Hs) as Hy. clear Hs. revert ss'.
  induction ss as [|s r IH]; intros ss' H; cbn [assign_var] in H; [discriminate|].
  destruct (alist_has y s).
  - injection H as <-. unfold pview, view. cbn [map]. rewrite alist_get_set_other by (intros E; apply Hy; congruence). reflexivity.
  - destruct (assign_var y v r) as [r'|]; [|discriminate]. injection H as <-. unfold pview, view in *. cbn [map]. rewrite (IH r' eq_refl). reflexivity.
Qed.

Lemma K_of_same_scopes m m' : m_scopes m' = m_scopes m -> K1 m /\ K2 m -> K1 m' /\ K2 m'.
Proof. unfold K1, K2. intros ->. auto. Qed.

Lemma K_of_eval f e m v m1 : mwf m -> expr_ok e = true -> eval code f e m = Ok (v, m1) -> K1 m /\ K2 m -> K1 m1 /\ K2 m1.
Proof.
  intros W He H [A B]. unfold K1, K2 in *.
  rewrite (expressions_keep_the_names_of_every_scope code Hcode f e m v m1 W He H).
  unfold pview. rewrite (expressions_keep_the_view code Hcode _ (alist_get platform_const) assign_pview f e m v m1 W He H). auto.
Qed.

(* declaring (or defining a function) y in the innermost scope, y in D *)
Lemma K_declare m s r y v : m_scopes m = s :: r -> D y -> K1 m /\ K2 m ->
  forall m', m_scopes m' = alist_set y v s :: r -> K1 m' /\ K2 m'.
Proof.
  intros Es Hy [A B] m' Es'. unfold K1, K2 in *. rewrite Es in A, B. rewrite Es'. unfold skel, pview, view in *. cbn [map] in *.
  inversion A as [|? ? As Ar]; subst. split.
  - constructor; [|exact Ar]. apply Forall_forall. intros k Hk. apply alist_set_keys_in in Hk as [->|Hk]; [left; exact Hy|].
    rewrite Forall_forall in As. apply As. exact Hk.
  - assert (Hne : y <> platform_const) by (intros ->; exact (HDp Hy)).
    rewrite alist_get_set_other by (intros E; apply Hne; congruence). exact B.
Qed.

Lemma K_suffix m m' k : m_scopes m' = skipn k (m_scopes m) -> m_scopes m' <> [] -> K1 m /\ K2 m -> K1 m' /\ K2 m'.
Proof.
  intros Es Hne [A B]. unfold K1, K2 in *. rewrite Es. split.
  - unfold skel in *. rewrite <- skipn_map. apply Forall_skipn'. exact A.
  - unfold pview, view in *. rewrite <- skipn_map. rewrite last_skipn; [exact B|].
    rewrite skipn_map. rewrite <- Es. destruct (m_scopes m'); [congruence|discriminate].
Qed.

Lemma K_push m m' : m_scopes m' = [] :: m_scopes m -> m_scopes m <> [] -> K1 m /\ K2 m -> K1 m' /\ K2 m'.
Proof.
  intros Es Hne [A B]. unfold K1, K2 in *. rewrite Es. unfold skel, pview, view in *. cbn [map]. split; [constructor; [constructor|exact A]|].
  destruct (m_scopes m); [congruence|]. exact B.
Qed.

(** one top-level statement *)
Lemma K_step f m m' : mwf m -> K1 m /\ K2 m -> interp code f m = Ok m' -> K1 m' /\ K2 m'.
Proof.
  intros W HK H. destruct (interp_keeps_invariants code Hcode f m m' W H) as [W' _].
  destruct f as [|f]; [discriminate|]. rewrite interp_S in H. unfold interp_step in H.
  destruct (stmt_at code (m_pc m)) as [s|] eqn:Hs; [|discriminate].
  pose proof (code_stmt_ok code Hcode _ _ Hs) as Hok.
  destruct s; cbn [stmt_ok] in Hok.
  - destruct (eval code f e m) as [[v m1]| | |] eqn:E; cbn [bind] in H; try discriminate.
    pose proof (do_print_scopes code true v m1) as Dp. rewrite H in Dp. eapply K_of_same_scopes; [exact Dp|]. exact (K_of_eval f e m v m1 W Hok E HK).
  - destruct (eval code f e m) as [[v m1]| | |] eqn:E; cbn [bind] in H; try discriminate.
    pose proof (do_print_scopes code false v m1) as Dp. rewrite H in Dp. eapply K_of_same_scopes; [exact Dp|]. exact (K_of_eval f e m v m1 W Hok E HK).
  - destruct k.
    + pose proof (Hdecl _ _ _ _ _ _ Hs) as Hy. destruct init as [e|].
      * apply andb_true_iff in Hok as [Hidx He].
        destruct (eval code f e m) as [[v m1]| | |] eqn:E; cbn [bind] in H; try discriminate.
        pose proof (K_of_eval f e m v m1 W He E HK) as HK1.
        destruct (m_scopes m1) as [|s1 r1] eqn:Es1; cbn [declare bind] in H; [discriminate|]. injection H as <-.
        eapply (K_declare m1 s1 r1 x v Es1 Hy HK1). reflexivity.
      * destruct (m_scopes m) as [|s1 r1] eqn:Es1; cbn [declare bind] in H; [discriminate|]. injection H as <-.
        eapply (K_declare m s1 r1 x VNil Es1 Hy HK). reflexivity.
    + destruct init as [e|]; [|discriminate]. apply andb_true_iff in Hok as [Hidx He].
      destruct (eval code f e m) as [[v m1]| | |] eqn:E; cbn [bind] in H; try discriminate.
      pose proof (K_of_eval f e m v m1 W He E HK) as HK1.
      destruct (no_panic_fuel code Hcode f) as (Pe_ & _ & _). pose proof (Pe_ e m W He) as P1. rewrite E in P1. destruct P1 as [(W1 & _ & _) _]. cbn [snd] in W1.
      destruct idx as [|i0 idx'].
      * destruct (assign_var x v (m_scopes m1)) as [ss|] eqn:Ea; [|unfold rt_err, fail_here, unexpected_at in H; destruct (stmt_at code (m_pc m1)); discriminate].
        injection H as <-. destruct HK1 as [A B]. unfold K1, K2 in *. cbn [next set_pc set_scopes m_scopes].
        rewrite (assign_var_skel _ _ _ _ Ea). rewrite (assign_pview _ _ _ _ _ _ _ _ _ Hs Ea). auto.
      * destruct (lookup_var x (m_scopes m1)); [|unfold rt_err, fail_here, unexpected_at in H; destruct (stmt_at code (m_pc m1)); discriminate].
        destruct (skeleton_fuel code Hcode f) as (Se_ & _ & _). destruct (view_fuel code Hcode _ (alist_get platform_const) assign_pview f) as (Ve_ & _ & _).
        pose proof (eval_indexes_skel code (eval code f) Pe_ Se_ (i0 :: idx') m1 W1 Hidx) as Ks.
        pose proof (eval_indexes_view code _ (alist_get platform_const) (eval code f) Pe_ Ve_ (i0 :: idx') m1 W1 Hidx) as Kv.
        destruct (eval_indexes (eval code f) (i0 :: idx') m1) as [[path m2]| | |]; cbn [bind] in H; try discriminate. cbn [Ske Vke snd] in Ks, Kv.
        unfold here in H. destruct (stmt_at code (m_pc m2)) eqn:Es2; cbn [bind] in H; [|discriminate].
        destruct (lookup_var x (m_scopes m2)) as [c|]; [|discriminate].
        destruct (assign_path m2 c path v (stmt_pos f0)) as [m3| | |] eqn:Ea; cbn [bind] in H; try discriminate. injection H as <-.
        assert (Hsc : m_scopes m3 = m_scopes m2).
        { destruct path as [|ix rest]; [discriminate|].
          destruct (exists_last (l := ix :: rest) ltac:(discriminate)) as (pre & lst & Hp). rewrite Hp in Ea.
          apply assign_path_spec in Ea. destruct Ea as (t & _ & Ht).
          destruct t; try contradiction; destruct lst; try contradiction.
          - destruct Ht as (l & i & _ & _ & ->). reflexivity.
          - destruct Ht as (r & _ & ->). reflexivity. }
        destruct HK1 as [A B]. unfold K1, K2, pview in *. cbn [next set_pc m_scopes]. rewrite Hsc, Ks, Kv. auto.
  - destruct (eval code f e m) as [[v m1]| | |] eqn:E; cbn [bind] in H; try discriminate. injection H as <-.
    eapply K_of_same_scopes; [reflexivity|]. exact (K_of_eval f e m v m1 W Hok E HK).
  - injection H as <-. apply (K_push m); [reflexivity| |exact HK]. pose proof (w_ne code m W) as Q. intros E0. rewrite E0 in Q. cbn in Q. lia.
  - destruct (length (m_scopes m) <=? 1) eqn:El; [unfold rt_err, fail_here, unexpected_at in H; rewrite Hs in H; discriminate|]. injection H as <-.
    apply Nat.leb_gt in El. apply (K_suffix m _ 1); [destruct (m_scopes m); reflexivity| |exact HK].
    cbn [next set_pc set_scopes m_scopes]. destruct (m_scopes m) as [|? [|? ?]]; cbn in *; try lia; discriminate.
  - (* function definition *)
    destruct (stmt_at code (S (m_pc m))) as [s1|] eqn:Hs1; [|discriminate].
    destruct s1; try discriminate. destruct e; try discriminate. destruct e; try discriminate.
    pose proof (Hfun _ _ _ _ _ _ _ Hs Hs1) as Hy.
    match type of H with context [match ?n with Some _ => _ | None => _ end] => destruct n as [params|] end; [|discriminate].
    destruct (m_scopes m) as [|s1 r1] eqn:Es1; cbn [declare bind] in H; [discriminate|].
    destruct (skip_block_from code m (S (S (m_pc m)))) as [pc2| | |]; cbn [bind] in H; try discriminate.
    destruct (stmt_at code pc2) as [[]|]; try discriminate. injection H as <-.
    eapply (K_declare m s1 r1 x _ Es1 Hy HK). reflexivity.
  - unfold rt_err, fail_here, unexpected_at in H; rewrite Hs in H; discriminate.
  - destruct (eval code f c m) as [[v m1]| | |] eqn:E; cbn [bind] in H; try discriminate.
    pose proof (K_of_eval f c m v m1 W Hok E HK) as HK1.
    destruct v; try discriminate. destruct b.
    + injection H as <-. exact HK1.
    + destruct (skip_block_from code m1 (S (m_pc m1))) as [pc'| | |]; cbn [bind] in H; try discriminate.
      destruct (stmt_at code pc') as [[]|]; injection H as <-; exact HK1.
  - destruct (stmt_at code (S (m_pc m))) as [[]|]; try discriminate.
    destruct (skip_block_from code m (S (m_pc m))) as [pc2| | |]; cbn [bind] in H; try discriminate.
    destruct (stmt_at code pc2) as [[]|]; try discriminate. injection H as <-. exact HK.
  - destruct (length (m_loops m) <=? m_loop_base m); [unfold rt_err, fail_here, unexpected_at in H; rewrite Hs in H; discriminate|].
    destruct (m_loops m) as [|l ls]; [discriminate|]. injection H as <-.
    apply (K_suffix m _ (length (m_scopes m) - l_depth l)); [reflexivity| |exact HK].
    pose proof (w_ne code _ W') as Q. intros E. rewrite E in Q. cbn in Q. lia.
  - destruct (length (m_loops m) <=? m_loop_base m); [unfold rt_err, fail_here, unexpected_at in H; rewrite Hs in H; discriminate|].
    destruct (m_loops m) as [|l ls]; [discriminate|]. injection H as <-.
    apply (K_suffix m _ (length (m_scopes m) - l_depth l)); [reflexivity| |exact HK].
    pose proof (w_ne code _ W') as Q. intros E. rewrite E in Q. cbn in Q. lia.
  - assert (G : forall k pc, match skip_chain code m k pc with Ok m0 => m_scopes m0 = m_scopes m | _ => True end).
    { induction k as [|k IH]; intros pc; cbn [skip_chain]; [exact I|].
      destruct (skip_block_from code m _) as [pc2| | |]; cbn [bind]; try exact I.
      destruct (stmt_at code pc2) as [[]|]; try reflexivity. apply IH. }
    specialize (G (S (length code)) (S (m_pc m))). rewrite H in G. eapply K_of_same_scopes; [exact G|exact HK].
  - unfold rt_err, fail_here, unexpected_at in H; rewrite Hs in H; discriminate.
Qed.

(** at every statement boundary of every run from the initial machine *)
Theorem bound_names_are_declared_names w fuel sched : code <> [] ->
  let m := snd (run code fuel sched 0 (init_machine platform w)) in K1 m /\ K2 m.
Proof.
  intros Hne. pose proof (mwf_init code Hcode platform w Hne) as W0.
  cbv zeta. apply (run_invariant code Hcode (fun m => K1 m /\ K2 m)).
  - intros f m m' W HK H. eapply K_step; eauto.
  - intros s b m m' W HK Hb. destruct (boundary_fields _ _ _ _ Hb) as (_ & E2 & _). eapply K_of_same_scopes; eauto.
  - exact W0.
  - split; [|reflexivity]. unfold K1, skel. cbn. constructor; [|constructor]. constructor; [|constructor]. right. reflexivity.
Qed.
End Keys.

(** ** C19 with its hypothesis in syntactic form *)
Theorem fragments_compose_when_names_are_disjoint (c1 c2 : list fstmt) pe pi (N D : text -> Prop) platform w fuel1 sched1 m1 mlast s0 r2 :
  let P1 := code1 c1 pe in
  let P12 := codeA c1 (map (smap idn pi) c2) in
  map (smap idn pi) c2 = s0 :: r2 -> (forall p, s0 <> FElse p) -> Forall (fun s => is_eos s = false) c1 ->
  code_ok P1 -> code_ok P12 -> code_ok c2 -> c2 <> [] ->
  (* P1, run as a program of its own, terminates normally, at a place outside every block and loop *)
  run P1 fuel1 sched1 0 (init_machine platform w) = (Ok m1, mlast) ->
  closed_at P1 (length c1) ->
  (* the names P1 declares (variables, functions) are in D; it never declares or assigns the platform constant *)
  (forall pc y yp idx init p, stmt_at P1 pc = Some (FAssign AFirst y yp idx init p) -> D y) ->
  (forall pc q f fp args ap sp, stmt_at P1 pc = Some (FFuncDef q) -> stmt_at P1 (S pc) = Some (FExpr (ECall (EVar f fp) args ap) sp) -> D f) ->
  ~ D platform_const ->
  (forall pc y yp idx init p, stmt_at P1 pc = Some (FAssign AReassign y yp idx init p) -> y <> platform_const) ->
  (* P2 mentions names of N only, and none of them is declared by P1 *)
  (forall pc s, stmt_at c2 pc = Some s -> Forall N (snames s)) ->
  (forall x, N x -> ~ D x) ->
  (exists j, j <= fuel1 /\ run P12 fuel1 sched1 0 (init_machine platform w) = run P12 (fuel1 - j) sched1 j m1) /\
  m_pc m1 = length c1 /\
  forall fuel schedA schedB bA,
    same_end2 pi (m_out m1) (fst (run P12 fuel schedA bA m1)) (fst (run c2 fuel schedB 0 (init_machine platform (m_world m1)))).
Proof.
  intros P1 P12 Hc Hs Hno Hok1 Hok12 Hok2 Hne Hrun Hclosed Hdecl Hfun HDp Hre Hnames Hdisj.
  apply (compose_after_p1_alone c1 c2 pe pi N platform w fuel1 sched1 m1 mlast s0 r2); auto.
  intros g Hg.
  assert (Hne1 : P1 <> []) by (unfold P1, code1; destruct c1; discriminate).
  pose proof (bound_names_are_declared_names P1 Hok1 platform D Hdecl Hfun HDp Hre w fuel1 sched1 Hne1) as HK. cbv zeta in HK.
  fold P1 in Hrun. rewrite Hrun in HK. cbn [snd] in HK. rewrite (run_ok_snd _ _ _ _ _ _ _ Hrun) in HK.
  destruct HK as [A B]. unfold K1, K2, pview, ViewKeep.view, skel in A, B. rewrite Hg in A, B. cbn [map last] in A, B.
  split; [exact B|].
  intros x Hx Hxp. destruct (alist_get x g) as [v|] eqn:E; [|reflexivity]. exfalso.
  apply alist_get_in in E. inversion A as [|? ? Ag _]; subst. rewrite Forall_forall in Ag. destruct (Ag x E) as [Hd|Hp]; [exact (Hdisj x Hx Hd)|exact (Hxp Hp)].
Qed.
