(** C01: the precedence ladder of the parser model IS the one the source has now.  [ladder] and [unary_kinds] are
    regenerated from parser.rs on every run (tools/gen_tables.py reads the chain expression -> or -> and -> equality ->
    comparison -> addition -> multiplication -> unary -> call and, for each binary level, the token kinds of its loop,
    refusing any level that is not the left-folding loop over the next level); the lemmas below tie the hand-written
    [binop_at] and the unary level of [pexpr] to them, so a moved or re-levelled operator in the source breaks them. *)
From Pakhi Require Import Base Float64 Syntax Tables Lexer Parser.
From Coq Require Import Lia.
Local Open Scope nat_scope.

Definition in_level (k : tkind) (lv : list tkind) : bool := existsb (tk_is k) lv.

Lemma ladder_has_six_levels : length ladder = 6.
Proof. reflexivity. Qed.

Theorem ladder_is_binop_at : forall lvl k, lvl < 6 ->
  in_level k (nth lvl ladder []) = match binop_at lvl k with Some _ => true | None => false end.
Proof.
  intros lvl k H. do 6 (destruct lvl as [|lvl]; [destruct k; reflexivity|]). lia.
Qed.

Theorem no_operator_outside_the_ladder : forall lvl k, 6 <= lvl -> binop_at lvl k = None.
Proof. intros lvl k H. do 6 (destruct lvl as [|lvl]; [lia|]). destruct k; reflexivity. Qed.

Theorem unary_kinds_are_the_unary_level : forall k,
  in_level k unary_kinds = match k with TNot | TMinus => true | _ => false end.
Proof. destruct k; reflexivity. Qed.
