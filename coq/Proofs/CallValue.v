(** C05: the value of a call.  Inversion of the call case of the evaluator: whenever a call of a user function returns a
    value, the callee's body was run from its opening brace with exactly the positional bindings in a fresh scope on top of
    the caller's, the call loop stopped with the cursor resting on a return statement -- the one that was executed --, and
    the call's value is the value of that statement's operand evaluated there (nil for a bare `ফেরত;` and for the closing
    `ফেরত;` of the definition, whose operand the parser makes the nil literal). *)
From Pakhi Require Import Base Float64 Syntax Tables Lexer Interp.
From Pakhi.Proofs Require Import Unfold.
From Coq Require Import Lia.
Local Open Scope nat_scope.

Section CallValue.
Variable code : list fstmt.

Theorem call_value fuel name np args p m v m' :
  is_builtin name = false ->
  eval code (S fuel) (ECall (EVar name np) args p) m = Ok (v, m') ->
  exists start params env m1 bp m3 re rp m4 ra rets,
    lookup_var name (m_scopes m) = Some (VFun start params) /\
    bind_args (eval code fuel) params args [] m = Ok (env, m1) /\
    stmt_at code start = Some (FBlockStart bp) /\
    call_loop code fuel (mkM start (env :: m_scopes m1) (m_loops m1) (length (m_loops m)) (m_pc m1 :: m_ret m1) (m_heap m1) (m_out m1) (m_world m1) (m_collections m1)) = Ok m3 /\
    stmt_at code (m_pc m3) = Some (FReturn re rp) /\
    eval code fuel re m3 = Ok (v, m4) /\
    m_ret m3 = ra :: rets /\ m_pc m' = ra /\ m_ret m' = rets /\ m_heap m' = m_heap m4 /\ m_out m' = m_out m4 /\ m_world m' = m_world m4.
Proof.
  intros Hb H. rewrite eval_S in H. unfold eval_step in H. rewrite Hb in H.
  destruct (lookup_var name (m_scopes m)) as [fv|] eqn:El; [|unfold rt_err, fail_here, unexpected_at in H; destruct (stmt_at code (m_pc m)); discriminate].
  cbn [bind] in H. destruct fv; try discriminate.
  destruct (bind_args (eval code fuel) params args [] m) as [[env m1]| | |] eqn:Eb; try discriminate. cbn [bind] in H.
  destruct (stmt_at code start) as [s0|] eqn:Es; [|discriminate]. destruct s0; try discriminate.
  match type of H with context [call_loop code fuel ?mm] => destruct (call_loop code fuel mm) as [m3| | |] eqn:Ec; try discriminate end.
  cbn [bind] in H.
  destruct (stmt_at code (m_pc m3)) as [s3|] eqn:E3; [|unfold rt_err, fail_here, unexpected_at in H; rewrite E3 in H; discriminate].
  destruct s3; try (unfold rt_err, fail_here, unexpected_at in H; rewrite E3 in H; discriminate).
  destruct (m_ret m3) as [|ra rets] eqn:Er; [discriminate|].
  destruct (eval code fuel e m3) as [[rv m4]| | |] eqn:Ee; try discriminate.
  destruct (length (m_scopes m4) <? length (m_scopes m)); [discriminate|].
  injection H as <- <-.
  exists start, params, env, m1, p0, m3, e, p1, m4, ra, rets. repeat split; auto.
Qed.

(* a bare return, and the closing return of a definition, carry the nil literal: the call's value is nil *)
Theorem bare_return_is_nil fuel q m : eval code (S fuel) (ENil q) m = Ok (VNil, m).
Proof. reflexivity. Qed.
End CallValue.
