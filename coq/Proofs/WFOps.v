(** C13: the machine invariant [mwf] and its preservation by printing, indexed assignment, the built-ins and the
    collector.  None of them can panic on a well-formed machine. *)
From Pakhi Require Import Base Float64 Syntax Tables Lexer Interp.
From Pakhi.Proofs Require Import TableFacts Unfold Frames WF.
From Coq Require Import Lia ZArith.
Local Open Scope nat_scope.

Section WFOps.
Variable code : list fstmt.

Notation vok := (vok code).
Notation eok := (eok code).
Notation hok := (hok code).
Notation sok := (sok code).

Definition lwf (l : loop_env) : Prop := l_start l < length code /\ l_end l < length code /\ 1 <= l_depth l.

Record mwf (m : machine) : Prop := {
  w_pc : m_pc m < length code;
  w_ne : 1 <= length (m_scopes m);
  w_sc : sok (m_heap m) (m_scopes m);
  w_h : hok (m_heap m);
  w_lp : Forall lwf (m_loops m) }.

(* what an expression leaves untouched *)
Definition sf (m m' : machine) : Prop :=
  m_pc m' = m_pc m /\ length (m_scopes m') = length (m_scopes m) /\ m_loops m' = m_loops m /\
  m_loop_base m' = m_loop_base m /\ m_ret m' = m_ret m.
Definition good (m m' : machine) : Prop := mwf m' /\ sf m m' /\ hle (m_heap m) (m_heap m').
Definition Qe (m : machine) (r : value * machine) : Prop := good m (snd r) /\ vok (m_heap (snd r)) (fst r).

Lemma sf_refl m : sf m m. Proof. repeat split. Qed.
Lemma sf_trans a b c : sf a b -> sf b c -> sf a c.
Proof. intros (A1 & A2 & A3 & A4 & A5) (B1 & B2 & B3 & B4 & B5). repeat split; congruence. Qed.
Lemma good_refl m : mwf m -> good m m.
Proof. intros H. split; [exact H|]. split; [apply sf_refl|apply hle_refl]. Qed.
Lemma good_trans a b c : good a b -> good b c -> good a c.
Proof. intros (_ & S1 & L1) (W & S2 & L2). split; [exact W|]. split; [eapply sf_trans; eauto|eapply hle_trans; eauto]. Qed.

Lemma mwf_set_heap m h' : mwf m -> hok h' -> hle (m_heap m) h' -> mwf (set_heap m h').
Proof.
  intros [H1 H2 H3 H4 H5] Hh Hle. constructor; simpl; auto. eapply sok_mono; eauto.
Qed.
Lemma mwf_set_world m w : mwf m -> mwf (set_world m w).
Proof. intros [H1 H2 H3 H4 H5]. constructor; simpl; auto. Qed.

Lemma Qe_same m v : mwf m -> vok (m_heap m) v -> Qe m (v, m).
Proof. intros H Hv. split; [apply good_refl; exact H|exact Hv]. Qed.
Lemma Qe_heap m v h' : mwf m -> hok h' -> hle (m_heap m) h' -> vok h' v -> Qe m (v, set_heap m h').
Proof.
  intros H Hh Hle Hv. split; [|exact Hv]. split; [apply mwf_set_heap; auto|]. split; [repeat split|exact Hle].
Qed.
Lemma Qe_world m v w : mwf m -> vok (m_heap m) v -> Qe m (v, set_world m w).
Proof.
  intros H Hv. split; [|exact Hv]. split; [apply mwf_set_world; auto|]. split; [repeat split|apply hle_refl].
Qed.

(* errors *)
Lemma post_fail_here {A} (Q : A -> Prop) k m : post Q (fail_here code k m).
Proof. unfold fail_here, unexpected_at. destruct (stmt_at code (m_pc m)); exact I. Qed.
Lemma post_rt_err {A} (Q : A -> Prop) m : post Q (rt_err code m).
Proof. apply post_fail_here. Qed.
Lemma post_fail_at {A} (Q : A -> Prop) k p m : post Q (fail_at k p m).
Proof. exact I. Qed.
Lemma post_unexpected {A} (Q : A -> Prop) m : post Q (unexpected_at m).
Proof. exact I. Qed.

(** ** Built-ins *)
Lemma map_VStr_ok h (l : list text) : Forall (vok h) (map VStr l).
Proof. induction l; simpl; constructor; simpl; auto. Qed.

Lemma builtin_ops_in_range : forallb (fun kv => snd kv <? 17) builtin_ops = true.
Proof. vm_compute. reflexivity. Qed.

Lemma assoc_text_in {A} k (l : list (text * A)) v : assoc_text k l = Some v -> In v (map snd l).
Proof.
  induction l as [|[k1 v1] r IH]; simpl; [discriminate|]. destruct (text_eqb k k1).
  - intros H. injection H as <-. auto.
  - intros H. right. auto.
Qed.

Ltac fin := first [apply post_rt_err | apply post_fail_here | apply post_fail_at | exact I].

Lemma builtin_ok op args m : mwf m -> Forall (vok (m_heap m)) args -> op < 17 ->
  post (Qe m) (builtin_op code op args m).
Proof.
  intros Hm Ha Hop. pose proof (w_h m Hm) as Hh.
  unfold builtin_op.
  let rec go n := lazymatch n with
                  | O => idtac
                  | S ?k => destruct op as [|op]; [cbn [Nat.eqb]|go k]
                  end in go 17; try lia.
  - (* _স্ট্রিং *)
    destruct args as [|[] [|? ?]]; try fin. apply Qe_same; simpl; auto.
  - (* _সংখ্যা *)
    destruct args as [|[] [|? ?]]; try fin. destruct (parse_f64 _); try fin. apply Qe_same; simpl; auto.
  - (* push *)
    destruct args as [|a1 [|a2 [|a3 [|a4 r]]]]; try fin; destruct a1; try fin.
    + inversion Ha as [|? ? Ha1 Ha']; subst. inversion Ha' as [|? ? Ha2 _]; subst. simpl in Ha1.
      destruct (get_list_ok code _ _ Hh Ha1) as (l & -> & Hl). cbn [bind].
      destruct (put_list_ok code (m_heap m) a (l ++ [a2]) Hh) as (P1 & P2 & _).
      { apply Forall_app; split; auto. }
      destruct a2; apply Qe_heap; simpl; auto.
    + destruct a2; try fin.
      inversion Ha as [|? ? Ha1 Ha']; subst. inversion Ha' as [|? ? _ Ha'']; subst. inversion Ha'' as [|? ? Ha3 _]; subst. simpl in Ha1.
      destruct (get_list_ok code _ _ Hh Ha1) as (l & -> & Hl). cbn [bind].
      destruct (f_nonneg x && _)%bool; try fin.
      destruct (put_list_ok code (m_heap m) a (insert_at l (Z.to_nat (f_to_usize x)) a3) Hh) as (P1 & P2 & _).
      { apply insert_at_Forall; auto. }
      apply Qe_heap; simpl; auto.
    + destruct a2; fin.
  - (* pop *)
    destruct args as [|a1 [|a2 [|a3 r]]]; try fin; destruct a1; try fin.
    + inversion Ha as [|? ? Ha1 _]; subst. simpl in Ha1.
      destruct (get_list_ok code _ _ Hh Ha1) as (l & -> & Hl). cbn [bind].
      destruct (put_list_ok code (m_heap m) a (removelast l) Hh) as (P1 & P2 & _).
      { apply removelast_Forall; auto. }
      apply Qe_heap; simpl; auto.
    + destruct a2; try fin. inversion Ha as [|? ? Ha1 _]; subst. simpl in Ha1.
      destruct (get_list_ok code _ _ Hh Ha1) as (l & -> & Hl). cbn [bind].
      destruct (valid_index x (length l)); try fin.
      destruct (put_list_ok code (m_heap m) a (remove_at l n) Hh) as (P1 & P2 & _).
      { apply remove_at_Forall; auto. }
      apply Qe_heap; simpl; auto.
    + destruct a2; fin.
  - (* len *)
    destruct args as [|a1 [|a2 r]]; try fin; destruct a1; try fin.
    inversion Ha as [|? ? Ha1 _]; subst. simpl in Ha1.
    destruct (get_list_ok code _ _ Hh Ha1) as (l & -> & Hl). cbn [bind]. apply Qe_same; simpl; auto.
  - (* read-line *)
    destruct args; try fin. destruct (w_stdin (m_world m)); [apply Qe_same|apply Qe_world]; simpl; auto.
  - (* _এরর *)
    unfold here. destruct (stmt_at code (m_pc m)); cbn [bind]; try fin.
    destruct args as [|[] [|? ?]]; exact I.
  - (* split *)
    destruct args as [|a1 [|a2 [|a3 r]]]; try fin; destruct a1; try fin; destruct a2; try fin.
    destruct (alloc_list (m_heap m) (map VStr (str_split s s0))) as [a h'] eqn:E.
    destruct (alloc_list_ok code _ _ _ _ Hh (map_VStr_ok _ _) E) as (P1 & P2 & P3).
    apply Qe_heap; simpl; auto.
  - (* join *)
    destruct args as [|a1 [|a2 [|a3 r]]]; try fin; destruct a1; try fin; destruct a2; try fin.
    inversion Ha as [|? ? Ha1 _]; subst. simpl in Ha1.
    destruct (get_list_ok code _ _ Hh Ha1) as (l & -> & Hl). cbn [bind].
    destruct (forallb _ l); try fin. apply Qe_same; simpl; auto.
  - (* type *)
    destruct args as [|a1 [|a2 r]]; try fin. apply Qe_same; simpl; auto.
  - (* read-file *)
    destruct args as [|[] [|? ?]]; try fin. destruct (fs_get _ _) as [[]|]; try fin. apply Qe_same; simpl; auto.
  - (* write-file *)
    destruct args as [|a1 [|a2 [|a3 r]]]; try fin; destruct a1; try fin; destruct a2; try fin.
    destruct (fs_get _ _) as [[]|]; try fin; destruct (_ && _)%bool; try fin; apply Qe_world; simpl; auto.
  - (* delete-file *)
    destruct args as [|[] [|? ?]]; try fin. destruct (fs_get _ _) as [[]|]; try fin; apply Qe_world; simpl; auto.
  - (* mkdir *)
    destruct args as [|[] [|? ?]]; try fin. destruct (fs_norm _ _); [apply Qe_same; simpl; auto|].
    destruct (mkdirs _ _); try fin. apply Qe_world; simpl; auto.
  - (* read-dir *)
    destruct args as [|[] [|? ?]]; try fin. destruct (fs_get _ _) as [[]|]; try fin.
    destruct (alloc_list (m_heap m) _) as [a h'] eqn:E.
    destruct (alloc_list_ok code _ _ _ _ Hh (map_VStr_ok _ _) E) as (P1 & P2 & P3).
    apply Qe_heap; simpl; auto.
  - (* rmdir *)
    destruct args as [|[] [|? ?]]; try fin. destruct (fs_get _ _) as [[]|]; try fin. apply Qe_world; simpl; auto.
  - (* file-or-dir *)
    destruct args as [|[] [|? ?]]; try fin. destruct (fs_get _ _) as [[]|]; try fin; apply Qe_same; simpl; auto.
Qed.

Lemma call_builtin_ok name fp args m : mwf m -> Forall (vok (m_heap m)) args ->
  post (Qe m) (call_builtin code name fp args m).
Proof.
  intros Hm Ha. unfold call_builtin. destruct (assoc_text name builtin_ops) as [op|] eqn:E; [|exact I].
  apply builtin_ok; auto.
  pose proof builtin_ops_in_range as Hr. rewrite forallb_forall in Hr.
  apply assoc_text_in in E. apply in_map_iff in E as ([k o] & <- & Hin). specialize (Hr _ Hin). simpl in Hr.
  apply Nat.ltb_lt in Hr. exact Hr.
Qed.

(** ** Printing: the pre-check makes the renderer's assertions unreachable *)
Lemma fold_printable_true {A} (f : A -> outcome bool) (l : list A) : forall acc,
  fold_left (fun (a : outcome bool) (e : A) => do b <- a; if b then f e else Ok false) l acc = Ok true ->
  acc = Ok true /\ Forall (fun e => f e = Ok true) l.
Proof.
  induction l as [|x r IH]; simpl; intros acc H; [auto|].
  destruct (IH _ H) as [H1 H2]. destruct acc as [[]| | |]; simpl in H1; try discriminate.
  split; auto.
Qed.

Lemma fold_printable_post {A} (P : A -> Prop) (f : A -> outcome bool) (l : list A) :
  (forall e, P e -> post (fun _ => True) (f e)) -> Forall P l -> forall acc, post (fun _ => True) acc ->
  post (fun _ => True) (fold_left (fun (a : outcome bool) (e : A) => do b <- a; if b then f e else Ok false) l acc).
Proof.
  intros Hf Hl. induction Hl as [|x r Hx Hr IH]; simpl; intros acc Ha; [exact Ha|].
  apply IH. destruct acc as [[]| | |]; simpl in *; auto.
Qed.

Lemma printable_no_panic fuel : forall h v, hok h -> vok h v -> post (fun _ => True) (printable fuel h v).
Proof.
  induction fuel as [|f IH]; intros h v Hh Hv; [exact I|]. cbn [printable].
  destruct v; try exact I.
  - simpl in Hv. destruct (get_list_ok code _ _ Hh Hv) as (l & -> & Hl). cbn [bind].
    apply (fold_printable_post (vok h)); auto. exact I.
  - simpl in Hv. destruct (get_rec_ok code _ _ Hh Hv) as (r & -> & Hr). cbn [bind].
    apply (fold_printable_post (eok h) (fun e => printable f h (snd e))); auto. exact I.
Qed.

Lemma render_no_panic fuel : forall h v, hok h -> vok h v -> printable fuel h v = Ok true ->
  post (fun _ => True) (render_nested fuel h v).
Proof.
  induction fuel as [|f IH]; intros h v Hh Hv Hp; [exact I|]. cbn [printable] in Hp. cbn [render_nested].
  destruct v; try discriminate; try exact I.
  - destruct (to_bn_num x); [exact I|discriminate].
  - simpl in Hv. destruct (get_list_ok code _ _ Hh Hv) as (l & E & Hl). rewrite E in *. cbn [bind] in *.
    apply fold_printable_true in Hp as [_ Hall].
    eapply post_bind with (Q1 := fun _ => True); [|intros; exact I].
    clear E. induction l as [|e r IHl]; [exact I|].
    inversion Hl; subst. inversion Hall; subst.
    destruct r as [|e2 r2]; [apply IH; auto|].
    eapply post_bind with (Q1 := fun _ => True); [apply IH; auto|]. intros c _.
    eapply post_bind with (Q1 := fun _ => True); [apply IHl; auto|]. intros; exact I.
  - simpl in Hv. destruct (get_rec_ok code _ _ Hh Hv) as (r & E & Hr). rewrite E in *. cbn [bind] in *.
    apply fold_printable_true in Hp as [_ Hall].
    eapply post_bind with (Q1 := fun _ => True); [|intros; exact I].
    clear E. induction r as [|[k e] r IHr]; [exact I|].
    inversion Hr; subst. inversion Hall; subst.
    eapply post_bind with (Q1 := fun _ => True); [apply IH; auto|]. intros c _.
    eapply post_bind with (Q1 := fun _ => True); [apply IHr; auto|]. intros; exact I.
Qed.

(* what a statement that only moves to the next one leaves untouched *)
Definition moved (m m' : machine) : Prop :=
  m_pc m' = S (m_pc m) /\ m_scopes m' = m_scopes m /\ m_heap m' = m_heap m /\ m_loops m' = m_loops m /\
  m_loop_base m' = m_loop_base m /\ m_ret m' = m_ret m.

Lemma emit_all_fields cs : forall m, m_pc (emit_all m cs) = m_pc m /\ m_scopes (emit_all m cs) = m_scopes m /\
  m_heap (emit_all m cs) = m_heap m /\ m_loops (emit_all m cs) = m_loops m /\ m_loop_base (emit_all m cs) = m_loop_base m /\
  m_ret (emit_all m cs) = m_ret m.
Proof.
  unfold emit_all. induction cs as [|c r IH]; intros m; simpl; [repeat split|].
  destruct (IH (emit m c)) as (A & B & C & D & E & F). simpl in *. repeat split; assumption.
Qed.

Lemma do_print_ok eol v m : hok (m_heap m) -> vok (m_heap m) v -> post (moved m) (do_print code eol v m).
Proof.
  intros Hh Hv. unfold do_print. destruct v; try fin.
  - destruct (to_bn_num x); try fin. simpl. repeat split.
  - simpl. repeat split.
  - simpl. repeat split.
  - pose proof (printable_no_panic (depth_fuel m) _ _ Hh Hv) as Hp.
    destruct (printable (depth_fuel m) (m_heap m) (VList a)) as [[]| | |] eqn:E; simpl in Hp; try contradiction; cbn [bind]; try fin.
    pose proof (render_no_panic (depth_fuel m) _ _ Hh Hv E) as Hr.
    destruct (render_nested (depth_fuel m) (m_heap m) (VList a)) as [cs| | |]; simpl in Hr; try contradiction; cbn [bind]; try fin.
    simpl. destruct (emit_all_fields (if eol then println_last cs else cs) m) as (A & B & C & D & E2 & F).
    unfold moved. simpl. rewrite A, B, C, D, E2, F. repeat split.
  - pose proof (printable_no_panic (depth_fuel m) _ _ Hh Hv) as Hp.
    destruct (printable (depth_fuel m) (m_heap m) (VRec a)) as [[]| | |] eqn:E; simpl in Hp; try contradiction; cbn [bind]; try fin.
    pose proof (render_no_panic (depth_fuel m) _ _ Hh Hv E) as Hr.
    destruct (render_nested (depth_fuel m) (m_heap m) (VRec a)) as [cs| | |]; simpl in Hr; try contradiction; cbn [bind]; try fin.
    simpl. destruct (emit_all_fields (if eol then println_last cs else cs) m) as (A & B & C & D & E2 & F).
    unfold moved. simpl. rewrite A, B, C, D, E2, F. repeat split.
Qed.

(** ** Indexed assignment *)
Lemma assign_path_ok path : forall m c v p, path <> [] -> hok (m_heap m) -> vok (m_heap m) c -> vok (m_heap m) v ->
  post (fun m' => exists h', m' = set_heap m h' /\ hok h' /\ hle (m_heap m) h') (assign_path m c path v p).
Proof.
  induction path as [|ix rest IH]; intros m c v p Hne Hh Hc Hv; [congruence|]. cbn [assign_path].
  destruct c; try exact I; destruct ix; try exact I.
  - simpl in Hc. destruct (get_list_ok code _ _ Hh Hc) as (l & -> & Hl). cbn [bind].
    destruct (valid_index x (length l)) as [i|]; [|exact I].
    destruct rest as [|ix2 rest2].
    + destruct (put_list_ok code (m_heap m) a (list_set l i v) Hh) as (P1 & P2 & _); [apply list_set_Forall; auto|].
      simpl. eexists. split; [reflexivity|]. split; assumption.
    + apply IH; auto; [discriminate|]. apply nth_Forall; simpl; auto.
  - simpl in Hc. destruct (get_rec_ok code _ _ Hh Hc) as (r & -> & Hr). cbn [bind].
    destruct rest as [|ix2 rest2].
    + destruct (put_rec_ok code (m_heap m) a (alist_set k v r) Hh) as (P1 & P2 & _); [apply alist_set_ok; auto|].
      simpl. eexists. split; [reflexivity|]. split; assumption.
    + destruct (alist_get k r) as [c|] eqn:E; [|exact I]. apply IH; auto; [discriminate|].
      destruct (alist_get_ok _ _ _ _ Hr E) as [k' Hk]. exact Hk.
Qed.

(** ** The collector *)
Lemma sweep_ok {A} (P : list A -> Prop) : P [] -> forall (slots : list (list A)) ms i free,
  Forall P slots ->
  let '(slots', free') := sweep i slots ms free in
  Forall P slots' /\ length slots' = length slots /\ (forall x, In x free' -> In x free \/ x < i + length slots).
Proof.
  intros Pnil. induction slots as [|s slots IH]; intros ms i free Hf.
  - destruct ms; simpl; repeat split; auto.
  - destruct ms as [|alive ms]; simpl.
    + repeat split; auto.
    + inversion Hf; subst.
      set (free1 := if alive then free else if existsb (Nat.eqb i) free then free else i :: free).
      specialize (IH ms (S i) free1 H2). destruct (sweep (S i) slots ms free1) as [rest free2].
      destruct IH as (I1 & I2 & I3). split; [|split].
      * constructor; auto. destruct alive; auto.
      * simpl. lia.
      * intros x Hx. destruct (I3 x Hx) as [Hx1|Hx1]; [|right; lia].
        unfold free1 in Hx1. destruct alive; auto. destruct (existsb (Nat.eqb i) free); auto.
        destruct Hx1 as [<-|]; auto. right. lia.
Qed.

Lemma collect_ok ss h : hok h -> sok h ss ->
  post (fun h' => hok h' /\ sok h' ss /\ hle h h' /\ hle h' h) (collect ss h).
Proof.
  intros [H1 H2 H3 H4] Hs. unfold collect. destruct (gc_mark ss h) as [mk|]; [|exact I].
  pose proof (sweep_ok (fun l => Forall (vok h) l) (Forall_nil _) (h_lists h) (ml mk) 0 (h_free_lists h) H1) as A.
  destruct (sweep 0 (h_lists h) (ml mk) (h_free_lists h)) as [ls fl]. destruct A as (A1 & A2 & A3).
  pose proof (sweep_ok (fun l => Forall (eok h) l) (Forall_nil _) (h_recs h) (mr mk) 0 (h_free_recs h) H2) as B.
  destruct (sweep 0 (h_recs h) (mr mk) (h_free_recs h)) as [rs fr]. destruct B as (B1 & B2 & B3).
  simpl.
  assert (Hle : hle h (mkHeap ls fl rs fr (h_alloc h)) /\ hle (mkHeap ls fl rs fr (h_alloc h)) h) by (unfold hle; simpl; lia).
  destruct Hle as [Hle Hle'].
  split; [|split; [eapply sok_mono; eauto|split; assumption]].
  constructor; simpl.
  - eapply Forall_impl; [|exact A1]. intros x. apply Forall_vok_mono. exact Hle.
  - eapply Forall_impl; [|exact B1]. intros x. apply Forall_eok_mono. exact Hle.
  - apply Forall_forall. intros x Hx. destruct (A3 x Hx) as [Hx1|Hx1]; [|lia].
    rewrite Forall_forall in H3. specialize (H3 x Hx1). lia.
  - apply Forall_forall. intros x Hx. destruct (B3 x Hx) as [Hx1|Hx1]; [|lia].
    rewrite Forall_forall in H4. specialize (H4 x Hx1). lia.
Qed.

End WFOps.
