(** C19: P1;P2 reaches P2's first statement in exactly the machine in which P1 alone ends.
    [code1 = c1 ++ [end marker]] is P1 as a program of its own, [codeA = c1 ++ c2] is P1 followed by P2.  Every step of the
    run of code1 that succeeds is also the step codeA makes: the evaluator consults the statement vector only at
    positions where code1 holds a statement of c1 (a successful step never reads the end marker as anything but "not an
    else"), and there the two vectors agree.  So if P1 alone terminates normally in machine m1, the run of P1;P2 -- same
    fuel, same collection schedule -- passes through m1, positioned on P2's first statement; what follows is Compose.v.
    No invariant of the machine is needed for this, only that c2 does not begin with an else branch (which would fuse with a
    chain at the end of P1; a fragment beginning with অথবা is not a program). *)
From Pakhi Require Import Base Float64 Syntax Tables Lexer Interp.
From Pakhi.Proofs Require Import Unfold FsOps WF.
From Coq Require Import Lia.
Local Open Scope nat_scope.

(* "whenever x succeeds, y succeeds with the same result" *)
Definition le1 {A} (x y : outcome A) : Prop := forall r, x = Ok r -> y = Ok r.

Lemma le1_refl {A} (x : outcome A) : le1 x x. Proof. intros r H. exact H. Qed.
Lemma le1_bind {A B} (x y : outcome A) (f g : A -> outcome B) : le1 x y -> (forall a, le1 (f a) (g a)) -> le1 (bind x f) (bind y g).
Proof.
  intros Hx Hf r H. destruct x as [a| | |]; cbn [bind] in H; try discriminate.
  rewrite (Hx a eq_refl). cbn [bind]. apply Hf. exact H.
Qed.
Lemma le1_err {A} e (y : outcome A) : le1 (Err e) y. Proof. intros r H. discriminate. Qed.
Lemma le1_panic {A} s (y : outcome A) : le1 (Panic s) y. Proof. intros r H. discriminate. Qed.
Lemma le1_oof {A} (y : outcome A) : le1 OutOfFuel y. Proof. intros r H. discriminate. Qed.

Section Prefix.
Variable c1 c2 : list fstmt.
Variable pe : pos.
Variable s0 : fstmt.
Variable r2 : list fstmt.
Hypothesis Hc2 : c2 = s0 :: r2.
Hypothesis Hs0 : forall p, s0 <> FElse p.

Definition code1 : list fstmt := c1 ++ [FEOS pe].
Definition codeA : list fstmt := c1 ++ c2.
Notation L := (length c1).

Lemma stmt_lt pc : pc < L -> stmt_at codeA pc = stmt_at code1 pc.
Proof. intros H. unfold stmt_at, codeA, code1. rewrite !nth_error_app1 by exact H. reflexivity. Qed.
Lemma stmt1_L : stmt_at code1 L = Some (FEOS pe).
Proof. unfold stmt_at, code1. rewrite nth_error_app2 by lia. rewrite Nat.sub_diag. reflexivity. Qed.
Lemma stmtA_L : stmt_at codeA L = Some s0.
Proof. unfold stmt_at, codeA. rewrite nth_error_app2 by lia. rewrite Nat.sub_diag, Hc2. reflexivity. Qed.
Lemma stmt1_beyond pc : L < pc -> stmt_at code1 pc = None.
Proof. intros H. unfold stmt_at, code1. apply nth_error_None. rewrite app_length. simpl. lia. Qed.

(* a statement of code1 that is not the end marker is a statement of c1, and codeA has it too *)
Lemma stmt1_some pc s : stmt_at code1 pc = Some s -> (forall p, s <> FEOS p) -> pc < L /\ stmt_at codeA pc = Some s.
Proof.
  intros H Hn. destruct (Nat.lt_trichotomy pc L) as [Hl|[->|Hg]].
  - split; [exact Hl|]. rewrite stmt_lt by exact Hl. exact H.
  - rewrite stmt1_L in H. injection H as <-. exfalso. eapply Hn. reflexivity.
  - rewrite stmt1_beyond in H by exact Hg. discriminate.
Qed.
(* wherever code1 has a statement, codeA has one *)
Lemma stmt1_any pc s : stmt_at code1 pc = Some s -> exists s', stmt_at codeA pc = Some s'.
Proof.
  intros H. destruct (Nat.lt_trichotomy pc L) as [Hl|[->|Hg]].
  - exists s. rewrite stmt_lt by exact Hl. exact H.
  - exists s0. apply stmtA_L.
  - rewrite stmt1_beyond in H by exact Hg. discriminate.
Qed.

Ltac not_eos := let p := fresh in intros p; discriminate.

(** ** the scanners *)
Lemma skip_block_le : forall f m pc d r, skip_block code1 f m pc d = Ok r -> forall f', f <= f' -> skip_block codeA f' m pc d = Ok r.
Proof.
  induction f as [|f IH]; intros m pc d r H f' Hf; [discriminate|].
  destruct f' as [|f']; [lia|]. cbn [skip_block] in *.
  destruct (Nat.lt_trichotomy pc L) as [Hl|[->|Hg]].
  - rewrite stmt_lt by exact Hl. destruct (stmt_at code1 pc) as [s|]; [|discriminate].
    destruct s; try (apply (IH _ _ _ _ H); lia).
    destruct d as [|[|d]]; [discriminate|exact H|apply (IH _ _ _ _ H); lia].
  - (* the scan reached the end marker of code1: it runs off the end, not a success *)
    exfalso. rewrite stmt1_L in H. destruct f as [|f0]; [discriminate|]. cbn [skip_block] in H.
    rewrite stmt1_beyond in H by lia. discriminate.
  - rewrite stmt1_beyond in H by exact Hg. discriminate.
Qed.

Lemma skip_block_from_le m pc : le1 (skip_block_from code1 m pc) (skip_block_from codeA m pc).
Proof.
  intros r H. unfold skip_block_from in *. apply (skip_block_le _ _ _ _ _ H).
  unfold code1, codeA. rewrite !app_length, Hc2. simpl. lia.
Qed.

(* where a successful scan of code1 ends, codeA has "an else" exactly if code1 has *)
Lemma else_test_le pc (A : Type) (a b : A) :
  match stmt_at code1 pc with Some (FElse _) => a | _ => b end = match stmt_at codeA pc with Some (FElse _) => a | _ => b end \/ L < pc.
Proof.
  destruct (Nat.lt_trichotomy pc L) as [Hl|[->|Hg]]; [left|left|right; exact Hg].
  - rewrite stmt_lt by exact Hl. reflexivity.
  - rewrite stmt1_L, stmtA_L. destruct s0; try reflexivity. exfalso. eapply Hs0. reflexivity.
Qed.

Lemma skip_block_from_bound m pc r : skip_block_from code1 m pc = Ok r -> r <= L.
Proof.
  unfold skip_block_from. generalize (S (length code1 - pc)) as f. intros f. generalize 0 as d. revert pc.
  induction f as [|f IH]; intros pc d H; [discriminate|]. cbn [skip_block] in H.
  destruct (Nat.lt_trichotomy pc L) as [Hl|[->|Hg]].
  - destruct (stmt_at code1 pc) as [s|]; [|discriminate].
    destruct s; try (apply (IH _ _ H)).
    destruct d as [|[|d]]; [discriminate|injection H as <-; lia|apply (IH _ _ H)].
  - exfalso. rewrite stmt1_L in H. destruct f as [|f0]; [discriminate|]. cbn [skip_block] in H.
    rewrite stmt1_beyond in H by lia. discriminate.
  - rewrite stmt1_beyond in H by exact Hg. discriminate.
Qed.

Lemma skip_chain_le m : forall k pc r, skip_chain code1 m k pc = Ok r -> forall k', k <= k' -> skip_chain codeA m k' pc = Ok r.
Proof.
  induction k as [|k IH]; intros pc r H k' Hk; [discriminate|]. destruct k' as [|k']; [lia|]. cbn [skip_chain] in *.
  destruct (Nat.lt_trichotomy pc L) as [Hl|[->|Hg]].
  - rewrite stmt_lt by exact Hl.
    set (pc1 := match stmt_at code1 pc with Some (FIf _ _) => S pc | _ => pc end) in *.
    destruct (skip_block_from code1 m pc1) as [pc2| | |] eqn:E; cbn [bind] in H; try discriminate.
    rewrite (skip_block_from_le m pc1 pc2 E). cbn [bind].
    pose proof (skip_block_from_bound m pc1 pc2 E) as Hb.
    destruct (else_test_le pc2 _ (skip_chain codeA m k' (S pc2)) (Ok (set_pc m pc2))) as [Ht|Ht]; [|lia].
    rewrite <- Ht. destruct (stmt_at code1 pc2) as [[]|]; try exact H. apply (IH _ _ H). lia.
  - exfalso. rewrite stmt1_L in H.
    destruct (skip_block_from code1 m L) as [pc2| | |] eqn:E; cbn [bind] in H; try discriminate.
    unfold skip_block_from in E. cbn [skip_block] in E. rewrite stmt1_L in E.
    destruct (length code1 - L) as [|f0]; [discriminate|]. cbn [skip_block] in E. rewrite stmt1_beyond in E by lia. discriminate.
  - rewrite stmt1_beyond in H by exact Hg.
    destruct (skip_block_from code1 m pc) as [pc2| | |] eqn:E; cbn [bind] in H; try discriminate.
    unfold skip_block_from in E. cbn [skip_block] in E. rewrite stmt1_beyond in E by exact Hg. discriminate.
Qed.
(** ** printing and the built-ins: a success does not depend on the statement vector *)
Lemma fail_here_le {A} k m (y : outcome A) : le1 (fail_here code1 k m) y.
Proof. intros r H. exfalso. exact (fail_here_not_ok code1 _ _ _ H). Qed.
Lemma rt_err_le {A} m (y : outcome A) : le1 (rt_err code1 m) y.
Proof. apply fail_here_le. Qed.

Lemma do_print_le eol v m : le1 (do_print code1 eol v m) (do_print codeA eol v m).
Proof.
  unfold do_print. cbv zeta. destruct v; try apply fail_here_le; try apply le1_refl.
  - destruct (to_bn_num x); [apply le1_refl|apply fail_here_le].
  - apply le1_bind; [apply le1_refl|]. intros ok. destruct ok; [apply le1_refl|apply fail_here_le].
  - apply le1_bind; [apply le1_refl|]. intros ok. destruct ok; [apply le1_refl|apply fail_here_le].
Qed.

Lemma builtin_le op args m : le1 (builtin_op code1 op args m) (builtin_op codeA op args m).
Proof.
  intros r. unfold builtin_op.
  repeat match goal with
  | |- (if Nat.eqb ?a ?b then _ else _) = _ -> _ => destruct (Nat.eqb a b)
  end;
  repeat match goal with
  | |- Ok _ = Ok _ -> _ => intros H; exact H
  | |- rt_err code1 _ = Ok _ -> _ => intros H; exfalso; exact (fail_here_not_ok code1 _ _ _ H)
  | |- fail_here code1 _ _ = Ok _ -> _ => intros H; exfalso; exact (fail_here_not_ok code1 _ _ _ H)
  | |- Panic _ = Ok _ -> _ => intros H; discriminate H
  | |- Err _ = Ok _ -> _ => intros H; discriminate H
  | |- fail_at _ _ _ = Ok _ -> _ => intros H; discriminate H
  | |- match ?x with _ => _ end = Ok _ -> _ => is_var x; destruct x
  | |- bind (get_list ?h ?a) _ = Ok _ -> _ => unfold get_list; destruct (nth_error (h_lists h) a); cbn [bind]
  | |- bind (here code1 ?mm) _ = Ok _ -> _ => unfold here at 1; destruct (stmt_at code1 (m_pc mm)); cbn [bind]
  | |- match fs_get ?a ?b with _ => _ end = Ok _ -> _ => destruct (fs_get a b) as [[?| |]|]
  | |- (if ?c then _ else _) = Ok _ -> _ => destruct c
  | |- match valid_index ?a ?b with _ => _ end = Ok _ -> _ => destruct (valid_index a b)
  | |- match parse_f64 ?a with _ => _ end = Ok _ -> _ => destruct (parse_f64 a)
  | |- match w_stdin ?a with _ => _ end = Ok _ -> _ => destruct (w_stdin a)
  | |- match mkdirs ?a ?b with _ => _ end = Ok _ -> _ => destruct (mkdirs a b)
  | |- (let '(_, _) := alloc_list ?a ?b in _) = Ok _ -> _ => destruct (alloc_list a b)
  | |- (let p := _ in _) = Ok _ -> _ => cbv zeta
  end.
Qed.

Lemma call_builtin_le name p args m : le1 (call_builtin code1 name p args m) (call_builtin codeA name p args m).
Proof. unfold call_builtin. destruct (assoc_text name builtin_ops); [apply builtin_le|apply le1_refl]. Qed.

(** ** the evaluator, one layer *)
Section Layers.
Variable ev1 ev2 : expr -> machine -> outcome (value * machine).
Variable cl1 cl2 ip1 ip2 : machine -> outcome machine.
Hypothesis He : forall e m, le1 (ev1 e m) (ev2 e m).
Hypothesis Hcl : forall m, le1 (cl1 m) (cl2 m).

Lemma fail_at_le {A} k p m (y : outcome A) : le1 (fail_at k p m) y.
Proof. apply le1_err. Qed.

Lemma eval_list_le es : forall m, le1 (eval_list ev1 es m) (eval_list ev2 es m).
Proof.
  induction es as [|e r IH]; intros m; cbn [eval_list]; [apply le1_refl|].
  apply le1_bind; [apply He|]. intros [v m1]. apply le1_bind; [apply IH|]. intros [vs m2]. apply le1_refl.
Qed.
Lemma eval_rec_le ks : forall vs acc m, le1 (eval_rec ev1 ks vs acc m) (eval_rec ev2 ks vs acc m).
Proof.
  induction ks as [|k ks IH]; intros vs acc m; cbn [eval_rec]; [apply le1_refl|].
  apply le1_bind; [apply He|]. intros [kv m1]. destruct kv; try apply IH.
  destruct vs as [|v vs]; [apply le1_refl|]. apply le1_bind; [apply He|]. intros [vv m2]. apply IH.
Qed.
Lemma bind_args_le ps : forall args env m, le1 (bind_args ev1 ps args env m) (bind_args ev2 ps args env m).
Proof.
  induction ps as [|p ps IH]; intros args env m; cbn [bind_args]; [apply le1_refl|].
  destruct args as [|a args]; [apply IH|]. apply le1_bind; [apply He|]. intros [v m1]. apply IH.
Qed.
Lemma eval_indexes_le is : forall m, le1 (eval_indexes ev1 is m) (eval_indexes ev2 is m).
Proof.
  induction is as [|i r IH]; intros m; cbn [eval_indexes]; [apply le1_refl|].
  apply le1_bind; [apply He|]. intros [iv m1]. destruct iv; try apply fail_at_le.
  apply le1_bind; [apply le1_refl|]. intros l. destruct l as [|[] ?]; try apply fail_at_le;
    (apply le1_bind; [apply IH|]; intros [p m2]; apply le1_refl).
Qed.

Ltac two := apply le1_bind; [apply He|]; let v := fresh "v" in let m := fresh "m" in intros [v m].

Lemma eval_step_le e m : le1 (eval_step code1 ev1 cl1 e m) (eval_step codeA ev2 cl2 e m).
Proof.
  destruct e; cbn [eval_step]; try apply le1_refl.
  - destruct (lookup_var x (m_scopes m)); [apply le1_refl|apply rt_err_le].
  - apply le1_bind; [apply eval_list_le|]. intros [vs m1]. apply le1_refl.
  - apply le1_bind; [apply eval_rec_le|]. intros [r m1]. apply le1_refl.
  - apply He.
  - two. destruct v, o; try apply fail_at_le; apply le1_refl.
  - destruct o.
    all: two; two.
    all: try (destruct v, v0; try apply fail_at_le; try apply le1_refl).
    all: try apply le1_refl.
    all: try (apply le1_bind; [apply le1_refl|]; intros la; apply le1_bind; [apply le1_refl|]; intros lb; try apply fail_at_le; apply le1_refl).
  - (* call *)
    destruct e; try apply rt_err_le.
    destruct (is_builtin x).
    { apply le1_bind; [apply eval_list_le|]. intros [vs m1]. apply call_builtin_le. }
    apply le1_bind.
    { destruct (lookup_var x (m_scopes m)); [apply le1_refl|apply rt_err_le]. }
    intros fv. destruct fv; try apply le1_refl.
    apply le1_bind; [apply bind_args_le|]. intros [env m1].
    destruct (stmt_at code1 start) as [s|] eqn:Es; [|apply le1_panic].
    destruct s; try (intros r H; unfold unexpected_at in H; discriminate).
    destruct (stmt1_some start _ Es ltac:(not_eos)) as [_ ->].
    apply le1_bind; [apply Hcl|]. intros m3.
    destruct (stmt_at code1 (m_pc m3)) as [s3|] eqn:E3; [|apply rt_err_le].
    destruct s3; try apply rt_err_le.
    destruct (stmt1_some (m_pc m3) _ E3 ltac:(not_eos)) as [_ ->].
    intros r H. destruct (m_ret m3) as [|ra rets]; [discriminate|].
    destruct (ev1 e m3) as [[v m4]| | |] eqn:Ev; try discriminate. rewrite (He e m3 _ Ev). exact H.
  - two. two. destruct v, v0; try apply fail_at_le.
    + apply le1_bind; [apply le1_refl|]. intros l. destruct (valid_index x (length l)); [apply le1_refl|apply fail_at_le].
    + apply le1_bind; [apply le1_refl|]. intros r. destruct (alist_get s r); [apply le1_refl|apply fail_at_le].
Qed.

Lemma interp_step_le m : le1 (interp_step code1 ev1 m) (interp_step codeA ev2 m).
Proof.
  unfold interp_step.
  destruct (Nat.lt_trichotomy (m_pc m) L) as [Hl|[Hl|Hg]].
  2:{ rewrite Hl, stmt1_L. apply rt_err_le. }
  2:{ rewrite stmt1_beyond by exact Hg. apply le1_panic. }
  rewrite (stmt_lt _ Hl). destruct (stmt_at code1 (m_pc m)) as [s|] eqn:Es; [|apply le1_panic].
  destruct s.
  - two. apply do_print_le.
  - two. apply do_print_le.
  - destruct k.
    + destruct init; [two|]; (apply le1_bind; [apply le1_refl|]; intros ss; apply le1_refl).
    + destruct init; [|apply le1_panic]. two.
      destruct idx as [|i0 idx'].
      * destruct (assign_var x v (m_scopes m0)); [apply le1_refl|apply rt_err_le].
      * destruct (lookup_var x (m_scopes m0)); [|apply rt_err_le].
        apply le1_bind; [apply eval_indexes_le|]. intros [path m2].
        intros r H. unfold here in *. destruct (stmt_at code1 (m_pc m2)) as [s2|] eqn:E2; cbn [bind] in H; [|discriminate].
        destruct (stmt1_any _ _ E2) as [s2' E2']. rewrite E2'. cbn [bind].
        destruct (lookup_var x (m_scopes m2)) as [cont|]; [|discriminate].
        (* the position is used for the error value only *)
        destruct (assign_path m2 cont path v (stmt_pos s2)) as [m3| | |] eqn:Ea; cbn [bind] in H; try discriminate.
        assert (Ea' : assign_path m2 cont path v (stmt_pos s2') = Ok m3).
        { clear -Ea. revert cont Ea. induction path as [|ix rest IH]; intros c Ea; cbn [assign_path] in *; [discriminate|].
          destruct c; try discriminate; destruct ix; try discriminate.
          - destruct (get_list (m_heap m2) a) as [l| | |]; cbn [bind] in *; try discriminate.
            destruct (valid_index x (length l)); [|discriminate]. destruct rest; [exact Ea|apply IH; exact Ea].
          - destruct (get_rec (m_heap m2) a) as [r| | |]; cbn [bind] in *; try discriminate.
            destruct rest; [exact Ea|]. destruct (alist_get k r); [apply IH; exact Ea|discriminate]. }
        rewrite Ea'. cbn [bind]. exact H.
  - two. apply le1_refl.
  - apply le1_refl.
  - destruct (length (m_scopes m) <=? 1); [apply rt_err_le|apply le1_refl].
  - (* function definition *)
    destruct (Nat.lt_trichotomy (S (m_pc m)) L) as [Hl1|[Hl1|Hg1]].
    3:{ lia. }
    2:{ rewrite Hl1, stmt1_L. apply fail_at_le. }
    rewrite (stmt_lt _ Hl1). destruct (stmt_at code1 (S (m_pc m))) as [s1|]; [|apply le1_panic].
    destruct s1; try apply fail_at_le. destruct e; try apply fail_at_le. destruct e; try apply fail_at_le.
    match goal with |- le1 (match ?n with Some _ => _ | None => _ end) _ => destruct n as [params|] end; [|apply fail_at_le].
    apply le1_bind; [apply le1_refl|]. intros ss.
    intros r H. destruct (skip_block_from code1 m (S (S (m_pc m)))) as [pc2| | |] eqn:E; cbn [bind] in H; try discriminate.
    rewrite (skip_block_from_le m _ pc2 E). cbn [bind].
    destruct (stmt_at code1 pc2) as [s2|] eqn:E2; [|unfold unexpected_at in H; discriminate].
    destruct s2; try (unfold fail_at in H; discriminate).
    destruct (stmt1_some pc2 _ E2 ltac:(not_eos)) as [_ ->]. exact H.
  - apply rt_err_le.
  - (* if *)
    two. destruct v; try apply fail_at_le. destruct b; [apply le1_refl|].
    intros r H. destruct (skip_block_from code1 m0 (S (m_pc m0))) as [pc'| | |] eqn:E; cbn [bind] in H; try discriminate.
    rewrite (skip_block_from_le m0 _ pc' E). cbn [bind].
    pose proof (skip_block_from_bound m0 _ pc' E) as Hb.
    destruct (else_test_le pc' _ (Ok (set_pc m0 (S pc'))) (Ok (set_pc m0 pc'))) as [Ht|Ht]; [|lia].
    rewrite <- Ht. exact H.
  - (* loop *)
    destruct (Nat.lt_trichotomy (S (m_pc m)) L) as [Hl1|[Hl1|Hg1]].
    3:{ lia. }
    2:{ rewrite Hl1, stmt1_L. apply fail_at_le. }
    rewrite (stmt_lt _ Hl1). destruct (stmt_at code1 (S (m_pc m))) as [[]|]; try apply fail_at_le.
    intros r H. destruct (skip_block_from code1 m (S (m_pc m))) as [pc2| | |] eqn:E; cbn [bind] in H; try discriminate.
    rewrite (skip_block_from_le m _ pc2 E). cbn [bind].
    destruct (stmt_at code1 pc2) as [s2|] eqn:E2; [|unfold fail_at in H; discriminate].
    destruct s2; try (unfold fail_at in H; discriminate).
    destruct (stmt1_some pc2 _ E2 ltac:(not_eos)) as [_ ->]. exact H.
  - destruct (length (m_loops m) <=? m_loop_base m); [apply rt_err_le|apply le1_refl].
  - destruct (length (m_loops m) <=? m_loop_base m); [apply rt_err_le|apply le1_refl].
  - (* else: the rest of the chain is skipped *)
    (* the two walks have different fuel (the vectors have different lengths): a successful walk is the same with more *)
    intros r H. apply (skip_chain_le m _ _ _ H). unfold code1, codeA. rewrite !app_length, Hc2. simpl. lia.
  - apply rt_err_le.
Qed.
End Layers.

Lemma interp_at_L f m r : m_pc m = L -> interp code1 f m = Ok r -> False.
Proof.
  intros Hpc H. destruct f as [|f]; [discriminate|]. rewrite interp_S in H. unfold interp_step in H.
  rewrite Hpc, stmt1_L in H. exact (fail_here_not_ok code1 _ _ _ H).
Qed.

Lemma call_loop_step_le (ip1 ip2 cl1 cl2 : machine -> outcome machine) :
  (forall m, le1 (ip1 m) (ip2 m)) -> (forall m, le1 (cl1 m) (cl2 m)) ->
  (forall m r, m_pc m = L -> ip1 m = Ok r -> False) ->
  forall m, le1 (call_loop_step code1 ip1 cl1 m) (call_loop_step codeA ip2 cl2 m).
Proof.
  intros Hi Hc HL m. unfold call_loop_step.
  destruct (Nat.lt_trichotomy (m_pc m) L) as [Hl|[Hl|Hg]].
  - rewrite (stmt_lt _ Hl). destruct (stmt_at code1 (m_pc m)) as [s|]; [|apply le1_panic].
    destruct s; try (apply le1_bind; [apply Hi|]; intros m1; apply Hc). apply le1_refl.
  - rewrite Hl, stmt1_L. intros r H. exfalso.
    destruct (ip1 m) as [m1| | |] eqn:E; cbn [bind] in H; try discriminate. exact (HL m m1 Hl E).
  - rewrite stmt1_beyond by exact Hg. apply le1_panic.
Qed.

(** ** all fuel *)
Theorem prefix_fuel : forall f,
  (forall e m, le1 (eval code1 f e m) (eval codeA f e m)) /\
  (forall m, le1 (call_loop code1 f m) (call_loop codeA f m)) /\
  (forall m, le1 (interp code1 f m) (interp codeA f m)).
Proof.
  induction f as [|f (IHe & IHc & IHi)].
  - repeat split; intros; apply le1_oof.
  - split; [|split].
    + intros e m. rewrite !eval_S. apply eval_step_le; assumption.
    + intros m. rewrite !call_loop_S. apply call_loop_step_le; try assumption. intros m0 r Hpc H. exact (interp_at_L f m0 r Hpc H).
    + intros m. rewrite !interp_S. apply interp_step_le; assumption.
Qed.

(** ** the run of P1 alone is a prefix of the run of P1;P2 *)
Hypothesis Hno1 : Forall (fun s => is_eos s = false) c1.       (* the end marker occurs at the end only *)

Lemma c1_not_eos pc s : pc < L -> stmt_at code1 pc = Some s -> is_eos s = false.
Proof.
  intros Hl H. unfold stmt_at, code1 in H. rewrite nth_error_app1 in H by exact Hl.
  rewrite Forall_forall in Hno1. apply Hno1. eapply nth_error_In. exact H.
Qed.

Theorem p1_alone_is_a_prefix : forall fuel sched b m m1 mlast,
  run code1 fuel sched b m = (Ok m1, mlast) ->
  m_pc m1 = L /\ exists j, j <= fuel /\ run codeA fuel sched b m = run codeA (fuel - j) sched (b + j) m1.
Proof.
  induction fuel as [|f IH]; intros sched b m m1 mlast H; [discriminate|]. cbn [run] in H.
  destruct (Nat.lt_trichotomy (m_pc m) L) as [Hl|[Hl|Hg]].
  - destruct (stmt_at code1 (m_pc m)) as [s|] eqn:Es; [|discriminate].
    pose proof (c1_not_eos _ _ Hl Es) as Hne.
    assert (EsA : stmt_at codeA (m_pc m) = Some s) by (rewrite stmt_lt by exact Hl; exact Es).
    cbn [run]. rewrite EsA.
    destruct s; try discriminate Hne.
    all: destruct (interp code1 f m) as [m1'| | |] eqn:Ei; try discriminate.
    all: destruct (prefix_fuel f) as (_ & _ & Pi); rewrite (Pi m m1' Ei).
    all: match type of H with (match ?m2 with Ok _ => _ | Err _ => _ | Panic _ => _ | OutOfFuel => _ end) = _ => destruct m2 as [m2'| | |] eqn:E2; try discriminate end.
    all: destruct (IH sched (S b) m2' m1 mlast H) as (Hpc & j & Hj & Hrun).
    all: split; [exact Hpc|]; exists (S j); split; [lia|]; rewrite Hrun.
    all: replace (S f - S j) with (f - j) by lia; replace (b + S j) with (S b + j) by lia; reflexivity.
  - rewrite Hl, stmt1_L in H. injection H as <- _. split; [exact Hl|]. exists 0. split; [lia|].
    rewrite Nat.sub_0_r, Nat.add_0_r. reflexivity.
  - rewrite stmt1_beyond in H by exact Hg. discriminate.
Qed.
End Prefix.
