(** C12: the expression parser terminates, with fuel linear in the number of remaining tokens.
    [pexpr] and its seven companions recurse on fuel (one unit per nesting level of calls); this file shows that
    50 * (tokens left) + 40 units are always enough, for every token list whose end marker is the end marker:
    the result is an expression or an error value, never [OutOfFuel].  Together with ParseTotal.v (never a panic, every
    success consumes a token) this is "for every token sequence the expression parser terminates with a tree or a syntax
    error" as a theorem about the model, where the streams could only time the implementation out. *)
From Pakhi Require Import Base Float64 Syntax Tables Lexer Parser.
From Pakhi.Proofs Require Import ParseTotal LexTotal.
From Coq Require Import Lia.
Local Open Scope nat_scope.

Definition fin {A} (x : outcome A) : Prop := match x with OutOfFuel => False | _ => True end.

Lemma fin_bind {A B} (x : outcome A) (f : A -> outcome B) : fin x -> (forall a, x = Ok a -> fin (f a)) -> fin (bind x f).
Proof. destruct x; simpl; auto. Qed.

(* the last token of the vector is the end marker (the tokenizer always appends it; tok(i) clamps to it) *)
Definition eot (s : pstate) : Prop := t_kind (ps_last s) = TEOT.   (* shadows Lexer.eot, the end-marker token, in this file *)

Lemma eot_adv s : eot s -> eot (adv s).
Proof. unfold eot, adv. destruct (ps_rest s); auto. Qed.

Lemma eot_advances s s' : advances s s' -> eot s -> eot s'.
Proof. apply (advances_keeps eot). exact eot_adv. Qed.

Lemma at_end_kind s : eot s -> at_end s = true -> hk s = TEOT.
Proof. unfold eot, at_end, hk, head. destruct (ps_rest s); [auto|discriminate]. Qed.

Lemma consumes s : eot s -> hk s <> TEOT -> S (len (adv s)) = len s.
Proof.
  intros He Hk. apply adv_len. destruct (at_end s) eqn:E; [|reflexivity]. exfalso. apply Hk. apply at_end_kind; assumption.
Qed.

Lemma fin_pos_here s : fin (pos_here s). Proof. unfold pos_here, unexpected. destruct (at_end s); exact I. Qed.
Lemma fin_pos_prev s : fin (pos_prev s).
Proof. unfold pos_prev, unexpected. destruct (at_end s); [exact I|]. destruct (ps_prev s); exact I. Qed.
Lemma fin_pos_tok s t : fin (pos_tok s t). Proof. unfold pos_tok, unexpected. destruct (at_end s); exact I. Qed.
Lemma fin_syntax_here {A} s : fin (@syntax_here A s). Proof. unfold syntax_here. destruct (at_end s); exact I. Qed.

Lemma binop_at_eot lvl : binop_at lvl TEOT = None.
Proof. do 6 (destruct lvl as [|lvl]; [reflexivity|]). reflexivity. Qed.

Notation C := 50 (only parsing).

Record term_ok (f : nat) : Prop := {
  t_pexpr : forall lvl s, lvl <= 8 -> eot s -> C * len s + (40 - 2 * lvl) <= f -> fin (pexpr f lvl s);
  t_pprimary : forall s, eot s -> C * len s + 23 <= f -> fin (pprimary f s);
  t_pbin : forall lvl e s, lvl <= 5 -> eot s -> good s -> C * len s + (39 - 2 * lvl) <= f -> fin (pbin f lvl e s);
  t_pcalls : forall e s, eot s -> good s -> C * len s + 25 <= f -> fin (pcalls f e s);
  t_pargs : forall s, eot s -> C * len s + 41 <= f -> fin (pargs f s);
  t_pitems : forall s, eot s -> good s -> C * len s + 41 <= f -> fin (pitems f s);
  t_pentries : forall s, eot s -> good s -> C * len s + 41 <= f -> fin (pentries f s);
  t_pindexes : forall e s, eot s -> good s -> C * len s + 1 <= f -> fin (pindexes f e s)
}.

Theorem expr_parser_terminates : forall f, term_ok f.
Proof.
  induction f as [|f IH].
  { constructor; intros; lia. }
  destruct IH as [Te Tp Tb Tc Ta Ti Tn Tx].
  destruct (expr_parser_total f) as [Oe Op Ob Oc Oa Oi On Ox].
  destruct (expr_parser_only_advances f) as [Ae Ap Ab Ac Aa Ai An Ax].
  constructor.
  - (* pexpr *)
    intros lvl s Hl He Hf. cbn [pexpr].
    assert (Hbin : lvl <= 5 -> fin (do '(e, s1) <- pexpr f (S lvl) s; pbin f lvl e s1)).
    { intros Hl5. apply fin_bind; [apply Te; [lia|exact He|lia]|].
      intros [e s1] E. destruct (Oe (S lvl) s) as [_ Hp]. destruct (Hp e s1 E) as [Hlen Hg].
      apply Tb; [exact Hl5|eapply eot_advances; [eapply Ae; exact E|exact He]|exact Hg|lia]. }
    do 6 (destruct lvl as [|lvl]; [apply Hbin; lia|]).
    destruct lvl as [|lvl].
    { (* unary *)
      destruct (hk s) eqn:Ek; try (apply Te; [lia|exact He|lia]).
      all: apply fin_bind; [apply fin_pos_here|]; intros p _.
      all: assert (Hc : S (len (adv s)) = len s) by (apply consumes; [exact He|rewrite Ek; discriminate]).
      all: apply fin_bind; [apply Te; [lia|apply eot_adv; exact He|lia]|]; intros [r s1] _; exact I. }
    destruct lvl as [|lvl].
    { apply fin_bind; [apply Te; [lia|exact He|lia]|].
      intros [e s1] E. destruct (Oe 8 s) as [_ Hp]. destruct (Hp e s1 E) as [Hlen Hg].
      apply Tc; [eapply eot_advances; [eapply Ae; exact E|exact He]|exact Hg|lia]. }
    destruct lvl as [|lvl]; [apply Tp; [exact He|lia]|lia].
  - (* pprimary *)
    intros s He Hf. cbn [pprimary].
    destruct (hk s) eqn:Ek; try apply fin_syntax_here.
    all: try (apply fin_bind; [apply fin_pos_prev|]; intros p _; exact I).
    all: assert (Hc : S (len (adv s)) = len s) by (apply consumes; [exact He|rewrite Ek; discriminate]).
    + (* identifier *)
      apply fin_bind; [apply fin_pos_tok|]. intros p _.
      apply Tx; [apply eot_adv; exact He|apply adv_good|lia].
    + (* @ { *)
      destruct (hk (adv s)) eqn:Ek2; try apply fin_syntax_here.
      pose proof (adv_len (adv s)) as [Hl2 _].
      apply fin_bind; [apply Tn; [apply eot_adv, eot_adv; exact He|apply adv_good|lia]|].
      intros [[ks vs] s2] _. apply fin_bind; [apply fin_pos_tok|]. intros p _. exact I.
    + (* ( *)
      apply fin_bind; [apply Te; [lia|apply eot_adv; exact He|lia]|].
      intros [e s1] _. apply fin_bind; [apply fin_pos_tok|]. intros p _. exact I.
    + (* [ *)
      apply fin_bind; [apply Ti; [apply eot_adv; exact He|apply adv_good|lia]|].
      intros [es s1] _. apply fin_bind; [apply fin_pos_tok|]. intros p _. exact I.
  - (* pbin *)
    intros lvl e s Hl He Hg Hf. cbn [pbin].
    destruct (binop_at lvl (hk s)) as [o|] eqn:Eo; [|exact I].
    assert (Hc : S (len (adv s)) = len s) by (apply consumes; [exact He|intros Hk; rewrite Hk, binop_at_eot in Eo; discriminate]).
    apply fin_bind; [apply Te; [lia|apply eot_adv; exact He|lia]|].
    intros [r s1] E. destruct (Oe (S lvl) (adv s)) as [_ Hp]. destruct (Hp r s1 E) as [Hlen Hg1].
    apply fin_bind; [apply fin_pos_prev|]. intros p _.
    apply Tb; [exact Hl|eapply eot_advances; [eapply Ae; exact E|apply eot_adv; exact He]|exact Hg1|lia].
  - (* pcalls *)
    intros e s He Hg Hf. cbn [pcalls].
    destruct (hk s) eqn:Ek; try exact I.
    assert (Hc : S (len (adv s)) = len s) by (apply consumes; [exact He|rewrite Ek; discriminate]).
    apply fin_bind; [apply fin_pos_prev|]. intros p _.
    apply fin_bind.
    + destruct (hk (adv s)); try exact I; (apply Ta; [apply eot_adv; exact He|lia]).
    + intros [args s2] E.
      assert (Hs2 : len s2 <= len (adv s) /\ eot s2).
      { destruct (hk (adv s)); try (destruct (Oa (adv s)) as [_ Hp]; destruct (Hp args s2 E) as [Hl2 _]; split; [lia|eapply eot_advances; [eapply Aa; exact E|apply eot_adv; exact He]]).
        injection E as _ <-. split; [lia|apply eot_adv; exact He]. }
      destruct Hs2 as [Hl2 He2]. pose proof (adv_len s2) as [Hl3 _].
      apply Tc; [apply eot_adv; exact He2|apply adv_good|lia].
  - (* pargs *)
    intros s He Hf. cbn [pargs].
    apply fin_bind; [apply Te; [lia|exact He|lia]|].
    intros [e s1] E. destruct (Oe 0 s) as [_ Hp]. destruct (Hp e s1 E) as [Hlen Hg1].
    assert (He1 : eot s1) by (eapply eot_advances; [eapply Ae; exact E|exact He]).
    destruct (hk s1); try exact I.
    pose proof (adv_len s1) as [Hl2 _].
    apply fin_bind; [apply Ta; [apply eot_adv; exact He1|lia]|]. intros [es s2] _. exact I.
  - (* pitems *)
    intros s He Hg Hf. cbn [pitems].
    assert (Go : fin (do '(e, s1) <- pexpr f 0 s; let s2 := match hk s1 with TComma => adv s1 | _ => s1 end in do '(es, s3) <- pitems f s2; Ok (e :: es, s3))).
    { apply fin_bind; [apply Te; [lia|exact He|lia]|].
      intros [e s1] E. destruct (Oe 0 s) as [_ Hp]. destruct (Hp e s1 E) as [Hlen Hg1].
      assert (He1 : eot s1) by (eapply eot_advances; [eapply Ae; exact E|exact He]).
      destruct (skip_comma_props s1 Hg1) as [Hl2 Hg2]. cbv zeta in Hl2, Hg2.
      assert (He2 : eot (match hk s1 with TComma => adv s1 | _ => s1 end)) by (destruct (hk s1); try exact He1; apply eot_adv; exact He1).
      cbv zeta. apply fin_bind; [apply Ti; [exact He2|exact Hg2|lia]|]. intros [es s3] _. exact I. }
    destruct (hk s); try exact Go. exact I.
  - (* pentries *)
    intros s He Hg Hf. cbn [pentries].
    assert (Go : fin (do '(k, s1) <- pexpr f 0 s;
                      match hk s1 with
                      | TMap => do '(v, s2) <- pexpr f 0 (adv s1);
                                let s3 := match hk s2 with TComma => adv s2 | _ => s2 end in
                                do '(ks, vs, s4) <- pentries f s3; Ok (k :: ks, v :: vs, s4)
                      | _ => syntax_here s1
                      end)).
    { apply fin_bind; [apply Te; [lia|exact He|lia]|].
      intros [k s1] E. destruct (Oe 0 s) as [_ Hp]. destruct (Hp k s1 E) as [Hlen Hg1].
      assert (He1 : eot s1) by (eapply eot_advances; [eapply Ae; exact E|exact He]).
      destruct (hk s1); try apply fin_syntax_here.
      pose proof (adv_len s1) as [Hl2 _].
      apply fin_bind; [apply Te; [lia|apply eot_adv; exact He1|lia]|].
      intros [v s2] E2. destruct (Oe 0 (adv s1)) as [_ Hp2]. destruct (Hp2 v s2 E2) as [Hlen2 Hg2].
      assert (He2 : eot s2) by (eapply eot_advances; [eapply Ae; exact E2|apply eot_adv; exact He1]).
      destruct (skip_comma_props s2 Hg2) as [Hl3 Hg3]. cbv zeta in Hl3, Hg3.
      assert (He3 : eot (match hk s2 with TComma => adv s2 | _ => s2 end)) by (destruct (hk s2); try exact He2; apply eot_adv; exact He2).
      cbv zeta. apply fin_bind; [apply Tn; [exact He3|exact Hg3|lia]|]. intros [[ks vs] s4] _. exact I. }
    destruct (hk s); try exact Go. exact I.
  - (* pindexes *)
    intros e s He Hg Hf. cbn [pindexes].
    destruct (hk s) eqn:Ek; try exact I.
    assert (Hc : S (len (adv s)) = len s) by (apply consumes; [exact He|rewrite Ek; discriminate]).
    apply fin_bind; [apply Te; [lia|apply eot_adv; exact He|lia]|].
    intros [i s1] E. destruct (Oe 0 (adv s)) as [_ Hp]. destruct (Hp i s1 E) as [Hlen Hg1].
    assert (He1 : eot s1) by (eapply eot_advances; [eapply Ae; exact E|apply eot_adv; exact He]).
    destruct (hk s1); try apply fin_syntax_here.
    pose proof (adv_len s1) as [Hl2 _].
    apply fin_bind; [apply fin_pos_tok|]. intros p _.
    apply Tx; [apply eot_adv; exact He1|apply adv_good|lia].
Qed.

(** an expression: 50 units of fuel per remaining token, plus 40, always suffice *)
Theorem expression_terminates s : eot s -> forall f, 50 * len s + 40 <= f -> fin (expression f s).
Proof. intros He f Hf. unfold expression. apply (t_pexpr f (expr_parser_terminates f)); [lia|exact He|lia]. Qed.

(** ** statements and whole programs without import statements *)
Definition noimp (s : pstate) : Prop := Forall (fun t => t_kind t <> TImport) (ps_rest s).

Lemma noimp_adv s : noimp s -> noimp (adv s).
Proof. unfold noimp, adv. destruct (ps_rest s) as [|t r] eqn:E; [rewrite E; auto|]. intros H. cbn [ps_rest]. inversion H; assumption. Qed.
Lemma noimp_advances s s' : advances s s' -> noimp s -> noimp s'.
Proof. apply (advances_keeps noimp). exact noimp_adv. Qed.
Lemma noimp_hk s : eot s -> noimp s -> hk s <> TImport.
Proof.
  unfold eot, noimp, hk, head. destruct (ps_rest s) as [|t r]; [intros H _; rewrite H; discriminate|].
  intros _ H. apply Forall_inv in H. exact H.
Qed.

Lemma pindex_list_terminates : forall f s, eot s -> 50 * len s + 42 <= f -> fin (pindex_list f s).
Proof.
  induction f as [|f IH]; intros s He Hf; [lia|]. cbn [pindex_list].
  assert (Go : fin (do '(i, s1) <- expression f s; match i with EList _ _ => do '(is, s2) <- pindex_list f s1; Ok (i :: is, s2) | _ => syntax_here s1 end)).
  { apply fin_bind; [apply expression_terminates; [exact He|lia]|].
    intros [i s1] E. destruct (expression_total f s) as [_ Hp]. pose proof (Hp i s1 E) as Hlen.
    pose proof (eot_advances _ _ (expression_advances f s i s1 E) He) as He1.
    destruct i; try apply fin_syntax_here.
    apply fin_bind; [apply IH; [exact He1|lia]|]. intros [is s2] _. exact I. }
  destruct (hk s); try exact Go. exact I.
Qed.

Section Stmts.
Variable fs : text -> option text.
Variable cwd main_path : text.

(* a statement other than the end marker consumes at least one token, and only ever advances *)
(* one statement that does not begin with a comment or an import *)
Lemma pstmt_plain_progress : forall f s st s1, eot s -> hk s <> TImport -> hk s <> TComment ->
  pstmt fs cwd main_path (S f) s = Ok (st, s1) ->
  advances s s1 /\ match st with FEOS _ => True | _ => len s1 < len s end.
Proof.
  intros f s st s1 He Hni Hnc H. cbn [pstmt] in H.
  destruct (pos_here s) as [p| | |] eqn:Ep; cbn [bind] in H; try discriminate.
  apply pos_here_some in Ep. destruct (adv_len s) as [_ Hc]. specialize (Hc Ep).
  assert (Hexp : forall s0 e s', expression f s0 = Ok (e, s') -> advances s0 s' /\ len s' < len s0).
  { intros s0 e s' E. split; [eapply expression_advances; exact E|]. destruct (expression_total f s0) as [_ Hp]. eapply Hp; exact E. }
  destruct (hk s) eqn:Ek; try (exfalso; eapply syntax_here_not_ok; exact H); try congruence.
  - (* identifier *)
    destruct (t_kind (head2 s)).
    all: try (destruct (expression f s) as [[e s']| | |] eqn:E; cbn [bind] in H; try discriminate; injection H as <- <-; destruct (Hexp s e s' E); split; [assumption|lia]).
    all: destruct (pindex_list f (adv s)) as [[idx s2]| | |] eqn:Ei; cbn [bind] in H; try discriminate;
         destruct (expression f (adv s2)) as [[e s3]| | |] eqn:E; cbn [bind] in H; try discriminate; injection H as <- <-;
         destruct (pindex_list_props f (adv s)) as [_ Hpi]; pose proof (Hpi idx s2 Ei) as Ha2; destruct (Hexp (adv s2) e s3 E) as [Ha3 Hl3];
         pose proof (adv_len s2) as [Hl2 _]; pose proof (adv_len s3) as [Hl4 _];
         assert (Hle : len s2 <= len (adv s)) by (destruct Ha2 as [k ->]; clear; induction k; simpl; [lia|pose proof (adv_len (Nat.iter k adv (adv s))) as [? _]; lia]);
         (split; [apply advances_adv_l; eapply advances_trans; [exact Ha2|]; apply advances_adv_l; apply advances_then_adv; exact Ha3|lia]).
  - (* if *)
    destruct (expression f (adv s)) as [[c s']| | |] eqn:E; cbn [bind] in H; try discriminate.
    destruct (pos_prev s') as [q| | |]; cbn [bind] in H; try discriminate. injection H as <- <-.
    destruct (Hexp (adv s) c s' E). split; [apply advances_adv_l; assumption|lia].
  - (* else *) destruct (pos_prev (adv s)) as [q| | |]; cbn [bind] in H; try discriminate. injection H as <- <-. split; [apply advances_adv|lia].
  - (* loop *) destruct (pos_prev (adv s)) as [q| | |]; cbn [bind] in H; try discriminate. injection H as <- <-. split; [apply advances_adv|lia].
  - (* declaration *)
    destruct (hk (adv s)); try (exfalso; eapply syntax_here_not_ok; exact H).
    pose proof (adv_len (adv s)) as [Hl2 _].
    destruct (match hk (adv (adv s)) with TSemi => Ok (None, adv (adv s)) | _ => do '(e, s3) <- expression f (adv (adv (adv s))); Ok (Some e, s3) end) as [[init s3]| | |] eqn:Ei; cbn [bind] in H; try discriminate.
    assert (Hs3 : advances (adv (adv s)) s3 /\ len s3 <= len (adv (adv s))).
    { destruct (hk (adv (adv s))).
      all: try (destruct (expression f (adv (adv (adv s)))) as [[e s4]| | |] eqn:E; cbn [bind] in Ei; try discriminate; injection Ei as _ <-;
                destruct (Hexp _ e s4 E) as [Ha Hl]; pose proof (adv_len (adv (adv s))) as [Hl3 _]; split; [apply advances_adv_l; exact Ha|lia]).
      injection Ei as _ <-. split; [apply advances_refl|lia]. }
    destruct Hs3 as [Ha3 Hl3].
    destruct (hk s3); try (destruct (at_end s3); [discriminate|destruct (ps_prev s3); discriminate]).
    injection H as <- <-. pose proof (adv_len s3) as [Hl4 _].
    split; [apply advances_adv_l, advances_adv_l; apply advances_then_adv; exact Ha3|lia].
  - (* function *) destruct (pos_prev (adv s)) as [q| | |]; cbn [bind] in H; try discriminate. injection H as <- <-. split; [apply advances_adv|lia].
  - (* { *) destruct (pos_prev (adv s)) as [q| | |]; cbn [bind] in H; try discriminate. injection H as <- <-. split; [apply advances_adv|lia].
  - (* } *) destruct (pos_prev (adv s)) as [q| | |]; cbn [bind] in H; try discriminate. injection H as <- <-. split; [apply advances_adv|lia].
  - (* break *) injection H as <- <-. pose proof (adv_len (adv s)) as [Hl2 _]. split; [apply advances_adv_l, advances_adv|lia].
  - (* continue *) injection H as <- <-. pose proof (adv_len (adv s)) as [Hl2 _]. split; [apply advances_adv_l, advances_adv|lia].
  - (* return *)
    destruct (match hk (adv s) with TSemi => Ok (ENil p, adv s) | _ => expression f (adv s) end) as [[e s2]| | |] eqn:Ei; cbn [bind] in H; try discriminate.
    injection H as <- <-.
    assert (Hs2 : advances (adv s) s2 /\ len s2 <= len (adv s)).
    { destruct (hk (adv s)); try (destruct (Hexp _ e s2 Ei) as [Ha Hl]; split; [exact Ha|lia]). injection Ei as _ <-. split; [apply advances_refl|lia]. }
    destruct Hs2 as [Ha2 Hl2]. pose proof (adv_len s2) as [Hl3 _]. split; [apply advances_adv_l; apply advances_then_adv; exact Ha2|lia].
  - (* print *)
    destruct (expression f (adv s)) as [[e s']| | |] eqn:E; cbn [bind] in H; try discriminate. injection H as <- <-.
    destruct (Hexp (adv s) e s' E). pose proof (adv_len s') as [Hl2 _]. split; [apply advances_adv_l; apply advances_then_adv; assumption|lia].
  - (* print without newline *)
    destruct (expression f (adv s)) as [[e s']| | |] eqn:E; cbn [bind] in H; try discriminate. injection H as <- <-.
    destruct (Hexp (adv s) e s' E). pose proof (adv_len s') as [Hl2 _]. split; [apply advances_adv_l; apply advances_then_adv; assumption|lia].
  - (* end marker *) injection H as <- <-. split; [apply advances_refl|exact I].
Qed.

Lemma pstmt_comment f s : hk s = TComment -> pstmt fs cwd main_path (S f) s = (do p <- pos_here s; pstmt fs cwd main_path f (adv s)).
Proof. intros Ek. cbn [pstmt]. rewrite Ek. reflexivity. Qed.

Lemma pstmt_progress : forall f s st s1, eot s -> noimp s -> pstmt fs cwd main_path f s = Ok (st, s1) ->
  advances s s1 /\ match st with FEOS _ => True | _ => len s1 < len s end.
Proof.
  induction f as [|f IH]; intros s st s1 He Hn H; [discriminate|].
  pose proof (noimp_hk s He Hn) as Hni.
  assert (Hdec : hk s = TComment \/ hk s <> TComment) by (destruct (hk s); solve [left; reflexivity | right; discriminate]).
  destruct Hdec as [Ec|Ec]; [|exact (pstmt_plain_progress f s st s1 He Hni Ec H)].
  rewrite (pstmt_comment f s Ec) in H.
  destruct (pos_here s) as [p| | |] eqn:Ep; cbn [bind] in H; try discriminate.
  apply pos_here_some in Ep. destruct (adv_len s) as [_ Hc]. specialize (Hc Ep).
  destruct (IH (adv s) st s1 (eot_adv s He) (noimp_adv s Hn) H) as [Ha Hl]. split; [apply advances_adv_l; exact Ha|].
  destruct st; try exact I; lia.
Qed.

Lemma pstmt_plain_terminates : forall f s, eot s -> hk s <> TImport -> hk s <> TComment -> 50 * len s + 45 <= S f ->
  fin (pstmt fs cwd main_path (S f) s).
Proof.
  intros f s He Hni Hnc Hf. cbn [pstmt].
  apply fin_bind; [apply fin_pos_here|]. intros p Ep. apply pos_here_some in Ep. destruct (adv_len s) as [_ Hc]. specialize (Hc Ep).
  assert (Hexp1 : forall s0, eot s0 -> len s0 <= len s -> fin (expression f s0)) by (intros s0 H0 Hl; apply expression_terminates; [exact H0|lia]).
  destruct (hk s) eqn:Ek; try apply fin_syntax_here; try congruence; try exact I.
  - (* identifier *)
    destruct (t_kind (head2 s)).
    all: try (apply fin_bind; [apply Hexp1; [exact He|lia]|]; intros [e s1] _; exact I).
    all: apply fin_bind; [apply pindex_list_terminates; [apply eot_adv; exact He|lia]|]; intros [idx s1] Ei;
         destruct (pindex_list_props f (adv s)) as [_ Hpi]; pose proof (Hpi idx s1 Ei) as Ha;
         assert (Hle : len s1 <= len (adv s)) by (destruct Ha as [k ->]; clear; induction k; simpl; [lia|pose proof (adv_len (Nat.iter k adv (adv s))) as [? _]; lia]);
         pose proof (adv_len s1) as [Hl2 _];
         (apply fin_bind; [apply Hexp1; [apply eot_adv; eapply eot_advances; [exact Ha|apply eot_adv; exact He]|lia]|]; intros [e s2] _; exact I).
  - apply fin_bind; [apply Hexp1; [apply eot_adv; exact He|lia]|]. intros [c s1] _. apply fin_bind; [apply fin_pos_prev|]. intros q _. exact I.
  - apply fin_bind; [apply fin_pos_prev|]. intros q _. exact I.
  - apply fin_bind; [apply fin_pos_prev|]. intros q _. exact I.
  - (* declaration *)
    destruct (hk (adv s)); try apply fin_syntax_here.
    pose proof (adv_len (adv s)) as [Hl2 _]. pose proof (adv_len (adv (adv s))) as [Hl3 _].
    apply fin_bind.
    + destruct (hk (adv (adv s))); try exact I; (apply fin_bind; [apply Hexp1; [apply eot_adv, eot_adv, eot_adv; exact He|lia]|]; intros [e s3] _; exact I).
    + intros [init s3] _. destruct (hk s3); try exact I; destruct (at_end s3); try exact I; destruct (ps_prev s3); exact I.
  - apply fin_bind; [apply fin_pos_prev|]. intros q _. exact I.
  - apply fin_bind; [apply fin_pos_prev|]. intros q _. exact I.
  - apply fin_bind; [apply fin_pos_prev|]. intros q _. exact I.
  - (* return *)
    apply fin_bind; [|intros [e s2] _; exact I].
    destruct (hk (adv s)); try exact I; (apply Hexp1; [apply eot_adv; exact He|lia]).
  - apply fin_bind; [apply Hexp1; [apply eot_adv; exact He|lia]|]. intros [e s1] _. exact I.
  - apply fin_bind; [apply Hexp1; [apply eot_adv; exact He|lia]|]. intros [e s1] _. exact I.
Qed.

Lemma pstmt_terminates : forall f s, eot s -> noimp s -> 50 * len s + 45 <= f -> fin (pstmt fs cwd main_path f s).
Proof.
  induction f as [|f IH]; intros s He Hn Hf; [lia|].
  pose proof (noimp_hk s He Hn) as Hni.
  assert (Hdec : hk s = TComment \/ hk s <> TComment) by (destruct (hk s); solve [left; reflexivity | right; discriminate]).
  destruct Hdec as [Ec|Ec]; [|exact (pstmt_plain_terminates f s He Hni Ec Hf)].
  rewrite (pstmt_comment f s Ec).
  apply fin_bind; [apply fin_pos_here|]. intros p Ep. apply pos_here_some in Ep. destruct (adv_len s) as [_ Hc]. specialize (Hc Ep).
  apply IH; [apply eot_adv; exact He|apply noimp_adv; exact Hn|lia].
Qed.

Theorem pprogram_terminates : forall f s, eot s -> noimp s -> 50 * len s + 50 <= f -> fin (pprogram fs cwd main_path f s).
Proof.
  induction f as [|f IH]; intros s He Hn Hf; [lia|]. cbn [pprogram].
  apply fin_bind; [apply pstmt_terminates; [exact He|exact Hn|lia]|].
  intros [st s1] E. destruct (pstmt_progress f s st s1 He Hn E) as [Ha Hl].
  pose proof (eot_advances _ _ Ha He) as He1. pose proof (noimp_advances _ _ Ha Hn) as Hn1.
  assert (H2 : eot (match hk s1 with TSemi => adv s1 | _ => s1 end) /\ noimp (match hk s1 with TSemi => adv s1 | _ => s1 end) /\
               len (match hk s1 with TSemi => adv s1 | _ => s1 end) <= len s1).
  { pose proof (adv_len s1) as [Hl2 _]. destruct (hk s1); try (split; [exact He1|split; [exact Hn1|lia]]).
    split; [apply eot_adv; exact He1|split; [apply noimp_adv; exact Hn1|lia]]. }
  destruct H2 as (He2 & Hn2 & Hl2).
  destruct st; try exact I.
  all: destruct (at_end s1); [exact I|]; cbv zeta; apply fin_bind; [|intros r _; exact I]; apply IH; [exact He2|exact Hn2|lia].
Qed.
End Stmts.

(** ** lexer + parser on a program without import statements: 50 units of fuel per token, plus 50, always suffice *)
Lemma expand_dirname_shape cwd ts loc ts' : expand_dirname cwd ts loc = Ok ts' ->
  length ts' = length ts /\ (Forall (fun t => t_kind t <> TImport) ts -> Forall (fun t => t_kind t <> TImport) ts').
Proof.
  unfold expand_dirname. intros H. destruct (existsb _ ts).
  - destruct (dir_string cwd loc) as [dd| | |]; cbn [bind] in H; try discriminate. injection H as <-.
    split; [apply map_length|]. intros Hf. apply Forall_map. eapply Forall_impl; [|exact Hf].
    intros t Ht. cbv beta. destruct (tk_is (t_kind t) TIdent && text_eqb (t_lexeme t) dirname_const); [discriminate|exact Ht].
  - injection H as <-. auto.
Qed.

Theorem front_terminates fs cwd main_path src toks :
  tokenize src main_path = Ok toks -> Forall (fun t => t_kind t <> TImport) toks ->
  forall fuel, 50 * length toks + 50 <= fuel -> fin (front fs cwd main_path fuel src).
Proof.
  intros Ht Hn fuel Hf. unfold front. rewrite Ht. cbn [bind]. unfold parse.
  destruct toks as [|t0 r] eqn:Et; [exact I|]. rewrite <- Et in *.
  destruct (expand_dirname cwd toks main_path) as [toks'| | |] eqn:Ex; cbn [bind]; try exact I.
  2:{ exfalso. unfold expand_dirname in Ex. destruct (existsb _ toks); [|discriminate].
      unfold dir_string in Ex. destruct (path_parent (abs_path cwd main_path)); cbn [bind] in Ex; discriminate. }
  destruct (expand_dirname_shape _ _ _ _ Ex) as [Hlen Hn'].
  destruct (tokenize_last_eot src main_path toks t0 Ht) as [Hl Hne].
  apply pprogram_terminates.
  - unfold eot. cbn [ps_last]. apply (expand_dirname_last cwd toks main_path toks' t0 Ex Hne). rewrite Hl. reflexivity.
  - unfold noimp. cbn [ps_rest]. apply Hn'. exact Hn.
  - unfold len. cbn [ps_rest]. lia.
Qed.

(* in terms of the source text alone: the tokenizer yields at most |src| + 1 tokens (LexTotal.v) *)
Theorem front_terminates_in_source_length fs cwd main_path src :
  match tokenize src main_path with Ok toks => Forall (fun t => t_kind t <> TImport) toks | _ => True end ->
  forall fuel, 50 * S (length src) + 50 <= fuel -> fin (front fs cwd main_path fuel src).
Proof.
  intros Hn fuel Hf. pose proof (LexTotal.lexer_total src main_path) as Hl.
  destruct (tokenize src main_path) as [toks| | |] eqn:Et; try contradiction.
  - apply (front_terminates fs cwd main_path src toks Et Hn). lia.
  - unfold front. rewrite Et. exact I.
Qed.
