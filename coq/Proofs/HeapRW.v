(** C06: indexed write then read agree; exactly the addressed cell changes; concatenation yields a fresh list. *)
From Pakhi Require Import Base Float64 Syntax Tables Lexer Interp.
From Pakhi.Proofs Require Import Assoc GCMark Alloc ListOps Unfold.
From Coq Require Import Lia.
Local Open Scope nat_scope.

(* following an index path through lists and records in any mix (what reading x[i1]..[in] does) *)
Fixpoint resolve (h : heap) (c : value) (path : list index) : option value :=
  match path with
  | [] => Some c
  | ix :: rest =>
    match c, ix with
    | VList a, IxNum x =>
        match nth_error (h_lists h) a with
        | Some l => match valid_index x (length l) with Some i => resolve h (nth i l VNil) rest | None => None end
        | None => None
        end
    | VRec a, IxKey k =>
        match nth_error (h_recs h) a with
        | Some r => match alist_get k r with Some v => resolve h v rest | None => None end
        | None => None
        end
    | _, _ => None
    end
  end.

Definition only_rec_changed (h h' : heap) (a : nat) (r' : list (text * value)) : Prop :=
  nth_error (h_recs h') a = Some r' /\
  (forall b, b <> a -> nth_error (h_recs h') b = nth_error (h_recs h) b) /\
  length (h_recs h') = length (h_recs h) /\
  h_lists h' = h_lists h /\ h_free_lists h' = h_free_lists h /\ h_free_recs h' = h_free_recs h /\ h_alloc h' = h_alloc h.

Lemma put_rec_spec h a r r' : nth_error (h_recs h) a = Some r -> only_rec_changed h (put_rec h a r') a r'.
Proof.
  intros Hn. assert (Ha : a < length (h_recs h)) by (apply nth_error_Some; congruence).
  unfold only_rec_changed, put_rec; cbn. repeat split; auto.
  - apply nth_error_list_set_same; exact Ha.
  - intros b Hb. apply nth_error_list_set_other. congruence.
  - apply list_set_length.
Qed.

Section Write.
Variable code : list fstmt.

Lemma fail_at_not_ok {A} k p m (x : A) : fail_at k p m = Ok x -> False.
Proof. discriminate. Qed.

(** x[i1]..[in] = v: the prefix of the path is followed in the heap as it is, and exactly the addressed cell of the
    container it leads to is replaced (for a record: the key is added or replaced).  Every other element of every
    container, the scopes, the output are unchanged. *)
Theorem assign_path_spec : forall pre m c ix v p m',
  assign_path m c (pre ++ [ix]) v p = Ok m' ->
  exists t, resolve (m_heap m) c pre = Some t /\
    match t, ix with
    | VList a, IxNum x => exists l i, nth_error (h_lists (m_heap m)) a = Some l /\ valid_index x (length l) = Some i /\
                                      m' = set_heap m (put_list (m_heap m) a (list_set l i v))
    | VRec a, IxKey k => exists r, nth_error (h_recs (m_heap m)) a = Some r /\
                                   m' = set_heap m (put_rec (m_heap m) a (alist_set k v r))
    | _, _ => False
    end.
Proof.
  induction pre as [|ix0 pre IH]; intros m c ix v p m' H.
  - exists c. split; [reflexivity|]. simpl in H.
    destruct c; destruct ix; try discriminate.
    + unfold get_list in H. destruct (nth_error (h_lists (m_heap m)) a) as [l|] eqn:E; [|discriminate]. cbn [bind] in H.
      destruct (valid_index x (length l)) as [i|] eqn:Ev; [|discriminate].
      injection H as <-. exists l, i. auto.
    + unfold get_rec in H. destruct (nth_error (h_recs (m_heap m)) a) as [r|] eqn:E; [|discriminate]. cbn [bind] in H.
      injection H as <-. exists r. auto.
  - change ((ix0 :: pre) ++ [ix]) with (ix0 :: (pre ++ [ix])) in H. simpl in H.
    assert (Hne : pre ++ [ix] <> []) by (destruct pre; discriminate).
    destruct c; destruct ix0; try discriminate.
    + unfold get_list in H. destruct (nth_error (h_lists (m_heap m)) a) as [l|] eqn:E; [|discriminate]. cbn [bind] in H.
      destruct (valid_index x (length l)) as [i|] eqn:Ev; [|discriminate].
      destruct (pre ++ [ix]) as [|y ys] eqn:Ep; [congruence|]. rewrite <- Ep in H.
      apply IH in H. destruct H as (t & Hr & Ht). exists t. split; [|exact Ht].
      simpl. rewrite E, Ev. exact Hr.
    + unfold get_rec in H. destruct (nth_error (h_recs (m_heap m)) a) as [r|] eqn:E; [|discriminate]. cbn [bind] in H.
      destruct (pre ++ [ix]) as [|y ys] eqn:Ep; [congruence|]. rewrite <- Ep in H.
      destruct (alist_get k r) as [c0|] eqn:Ek; [|discriminate].
      apply IH in H. destruct H as (t & Hr & Ht). exists t. split; [|exact Ht].
      simpl. rewrite E, Ek. exact Hr.
Qed.

(* reading the written cell yields the written value *)
Lemma read_back_list (l : list value) i v : i < length l -> nth i (list_set l i v) VNil = v.
Proof. apply nth_list_set_eq. Qed.
Lemma read_back_other (l : list value) i j v : i <> j -> nth j (list_set l i v) VNil = nth j l VNil.
Proof. apply nth_list_set_neq. Qed.
Lemma read_back_rec (r : list (text * value)) k v : alist_get k (alist_set k v r) = Some v.
Proof. apply alist_get_set_same. Qed.
Lemma read_back_rec_other (r : list (text * value)) k k' v : k' <> k -> alist_get k' (alist_set k v r) = alist_get k' r.
Proof. apply alist_get_set_other. Qed.

(* indexed read of the model, for reference: the same walk *)
Theorem index_read_list fuel m a p ea ei x l k :
  eval code fuel ea m = Ok (VList a, m) -> eval code fuel ei m = Ok (VNum x, m) ->
  nth_error (h_lists (m_heap m)) a = Some l -> valid_index x (length l) = Some k ->
  eval code (S fuel) (EIndex ea ei p) m = Ok (nth k l VNil, m).
Proof.
  intros Ha Hi Hl Hv. rewrite eval_S. unfold eval_step. rewrite Ha. cbn [bind]. rewrite Hi. cbn [bind].
  unfold get_list. rewrite Hl. cbn [bind]. rewrite Hv. reflexivity.
Qed.

(** list + list yields a new list: its address is none of the operands', the operands are unchanged *)
Theorem concat_fresh h la lb a b :
  nth_error (h_lists h) a = Some la -> nth_error (h_lists h) b = Some lb ->
  ~ In a (h_free_lists h) -> ~ In b (h_free_lists h) ->
  (forall f, In f (h_free_lists h) -> f < length (h_lists h)) ->
  let '(c, h') := alloc_list h (la ++ lb) in
  c <> a /\ c <> b /\ nth_error (h_lists h') c = Some (la ++ lb) /\
  nth_error (h_lists h') a = Some la /\ nth_error (h_lists h') b = Some lb /\ h_recs h' = h_recs h.
Proof.
  intros Ha Hb Hfa Hfb Hfr.
  assert (La : a < length (h_lists h)) by (apply nth_error_Some; congruence).
  assert (Lb : b < length (h_lists h)) by (apply nth_error_Some; congruence).
  unfold alloc_list. destruct (h_free_lists h) as [|f fr] eqn:E; cbn.
  - repeat split; try lia.
    + rewrite nth_error_app2 by lia. rewrite Nat.sub_diag. reflexivity.
    + rewrite nth_error_app1 by lia. exact Ha.
    + rewrite nth_error_app1 by lia. exact Hb.
  - assert (f <> a) by (intros ->; apply Hfa; left; reflexivity).
    assert (f <> b) by (intros ->; apply Hfb; left; reflexivity).
    assert (f < length (h_lists h)) by (apply Hfr; left; reflexivity).
    repeat split; auto.
    + apply nth_error_list_set_same; assumption.
    + rewrite nth_error_list_set_other by assumption. exact Ha.
    + rewrite nth_error_list_set_other by assumption. exact Hb.
Qed.
End Write.

