(** C07 / C08: the sweep phase and a whole collection.
    A collection keeps every reachable container exactly as it was, empties every unreachable one and puts it on
    the free list exactly once; free slots never become reachable. *)
From Pakhi Require Import Base Float64 Syntax Tables Lexer Interp.
From Pakhi.Proofs Require Import GCMark.
From Coq Require Import Lia.
Local Open Scope nat_scope.

Lemma existsb_eqb_In i l : existsb (Nat.eqb i) l = true <-> In i l.
Proof.
  rewrite existsb_exists. split.
  - intros [x [Hx He]]. apply Nat.eqb_eq in He. subst; auto.
  - intros H. exists i. split; auto. apply Nat.eqb_refl.
Qed.

Lemma sweep_spec {A} : forall (slots : list (list A)) ms i free slots' free',
  length ms = length slots ->
  sweep i slots ms free = (slots', free') ->
  length slots' = length slots /\
  (forall j, j < length slots -> nth j slots' [] = if nth j ms false then nth j slots [] else []) /\
  (forall x, In x free' <-> In x free \/ (i <= x < i + length slots /\ nth (x - i) ms false = false)) /\
  (NoDup free -> NoDup free').
Proof.
  induction slots as [|s slots IH]; intros ms i free slots' free' Hlen Hsw.
  - destruct ms; simpl in *; try discriminate. injection Hsw as <- <-.
    repeat split; auto; try (intros; lia). intros [H|[H _]]; [auto|lia].
  - destruct ms as [|alive ms]; simpl in Hlen; try discriminate.
    simpl in Hsw.
    set (free1 := if alive then free else if existsb (Nat.eqb i) free then free else i :: free) in *.
    destruct (sweep (S i) slots ms free1) as [rest free2] eqn:E.
    injection Hsw as <- <-.
    destruct (IH ms (S i) free1 rest free2 ltac:(lia) E) as (L & C & F & N).
    assert (Hfree1 : forall x, In x free1 <-> In x free \/ (x = i /\ alive = false)).
    { intros x. unfold free1. destruct alive.
      - split; [auto|intros [H|[_ H]]; [auto|discriminate]].
      - destruct (existsb (Nat.eqb i) free) eqn:Ex.
        + apply existsb_eqb_In in Ex. split; [auto|intros [H|[-> _]]; auto].
        + simpl. split; [intros [<-|H]; auto|intros [H|[-> _]]; auto]. }
    repeat split.
    + simpl. lia.
    + intros [|j] Hj; simpl.
      * destruct alive; reflexivity.
      * apply C. simpl in Hj. lia.
    + intros Hx. apply F in Hx. destruct Hx as [Hx|[Hr Hm]].
      * apply Hfree1 in Hx. destruct Hx as [Hx|[-> Ha]]; [left; exact Hx|right].
        split; [simpl; lia|]. rewrite Nat.sub_diag. simpl. exact Ha.
      * right. split; [simpl; lia|]. replace (x - i) with (S (x - S i)) by lia. simpl. exact Hm.
    + intros [Hx|[Hr Hm]].
      * apply F. left. apply Hfree1. left. exact Hx.
      * apply F. destruct (Nat.eq_dec x i) as [->|Hne].
        -- left. apply Hfree1. right. split; auto. rewrite Nat.sub_diag in Hm. simpl in Hm. exact Hm.
        -- right. simpl in Hr. split; [lia|]. replace (x - i) with (S (x - S i)) in Hm by lia. simpl in Hm. exact Hm.
    + intros Hnd. apply N. unfold free1. destruct alive; auto.
      destruct (existsb (Nat.eqb i) free) eqn:Ex; auto.
      constructor; auto. intros Hin. apply existsb_eqb_In in Hin. congruence.
Qed.

(** Heap invariant that every state reachable by the interpreter satisfies (proved preserved by collection here;
    by the allocator in Alloc.v): free slots are in range, listed once, and not reachable from any variable. *)
Definition free_ok (h : heap) (ss : list scope) : Prop :=
  NoDup (h_free_lists h) /\ NoDup (h_free_recs h) /\
  (forall a, In a (h_free_lists h) -> a < length (h_lists h) /\ ~ reach h (is_root ss) (NL a)) /\
  (forall a, In a (h_free_recs h) -> a < length (h_recs h) /\ ~ reach h (is_root ss) (NR a)).

Definition slot (h : heap) (n : node) : list value := children h n.

Record collect_post (ss : list scope) (h h' : heap) : Prop := {
  cp_len_lists : length (h_lists h') = length (h_lists h);
  cp_len_recs : length (h_recs h') = length (h_recs h);
  cp_alloc : h_alloc h' = h_alloc h;
  (* no reachable container is emptied or modified *)
  cp_keep_list : forall a, reach h (is_root ss) (NL a) -> nth a (h_lists h') [] = nth a (h_lists h) [];
  cp_keep_rec : forall a, reach h (is_root ss) (NR a) -> nth a (h_recs h') [] = nth a (h_recs h) [];
  (* every unreachable container is reclaimed: emptied and on the free list *)
  cp_free_list : forall a, a < length (h_lists h) -> ~ reach h (is_root ss) (NL a) -> nth a (h_lists h') [] = [] /\ In a (h_free_lists h');
  cp_free_rec : forall a, a < length (h_recs h) -> ~ reach h (is_root ss) (NR a) -> nth a (h_recs h') [] = [] /\ In a (h_free_recs h');
  (* nothing else is on the free lists *)
  cp_only_list : forall a, In a (h_free_lists h') -> In a (h_free_lists h) \/ (a < length (h_lists h) /\ ~ reach h (is_root ss) (NL a));
  cp_only_rec : forall a, In a (h_free_recs h') -> In a (h_free_recs h) \/ (a < length (h_recs h) /\ ~ reach h (is_root ss) (NR a));
  (* each exactly once *)
  cp_nodup_list : NoDup (h_free_lists h) -> NoDup (h_free_lists h');
  cp_nodup_rec : NoDup (h_free_recs h) -> NoDup (h_free_recs h')
}.

Lemma not_true_false b : b <> true -> b = false.
Proof. destruct b; congruence. Qed.

(** One collection on any well-formed heap: total (never out of fuel, never a panic) and satisfies [collect_post]. *)
Theorem collect_correct h ss :
  wf_heap h -> wf_scopes h ss ->
  exists h', collect ss h = Ok h' /\ collect_post ss h h'.
Proof.
  intros Hh Hs. unfold collect.
  destruct (gc_mark_correct h ss Hh Hs) as (m & Em & [Wl Wr] & Hm).
  rewrite Em.
  destruct (sweep 0 (h_lists h) (ml m) (h_free_lists h)) as [ls fl] eqn:El.
  destruct (sweep 0 (h_recs h) (mr m) (h_free_recs h)) as [rs fr] eqn:Er.
  destruct (sweep_spec _ _ _ _ _ _ Wl El) as (Ll & Cl & Fl & Nl).
  destruct (sweep_spec _ _ _ _ _ _ Wr Er) as (Lr & Cr & Fr & Nr).
  eexists. split; [reflexivity|].
  constructor; cbn [h_lists h_recs h_free_lists h_free_recs h_alloc]; auto.
  - intros a Ha. apply Hm in Ha. simpl in Ha.
    destruct (Nat.lt_ge_cases a (length (h_lists h))) as [Hlt|Hge].
    + rewrite Cl by exact Hlt. rewrite Ha. reflexivity.
    + rewrite !nth_overflow; auto; lia.
  - intros a Ha. apply Hm in Ha. simpl in Ha.
    destruct (Nat.lt_ge_cases a (length (h_recs h))) as [Hlt|Hge].
    + rewrite Cr by exact Hlt. rewrite Ha. reflexivity.
    + rewrite !nth_overflow; auto; lia.
  - intros a Hlt Hn.
    assert (Hf : nth a (ml m) false = false) by (apply not_true_false; intros Hc; apply Hn, Hm; exact Hc).
    split.
    + rewrite Cl by exact Hlt. rewrite Hf. reflexivity.
    + apply Fl. right. split; [lia|]. rewrite Nat.sub_0_r. exact Hf.
  - intros a Hlt Hn.
    assert (Hf : nth a (mr m) false = false) by (apply not_true_false; intros Hc; apply Hn, Hm; exact Hc).
    split.
    + rewrite Cr by exact Hlt. rewrite Hf. reflexivity.
    + apply Fr. right. split; [lia|]. rewrite Nat.sub_0_r. exact Hf.
  - intros a Ha. apply Fl in Ha as [Ha|[Hr Hf]]; [left; exact Ha|right].
    rewrite Nat.sub_0_r in Hf. split; [lia|]. intros Hc. apply Hm in Hc. simpl in Hc. congruence.
  - intros a Ha. apply Fr in Ha as [Ha|[Hr Hf]]; [left; exact Ha|right].
    rewrite Nat.sub_0_r in Hf. split; [lia|]. intros Hc. apply Hm in Hc. simpl in Hc. congruence.
Qed.

(** Reachability is the same before and after a collection (reachable containers keep their contents). *)
Lemma reach_preserved ss h h' : collect_post ss h h' ->
  forall n, reach h (is_root ss) n -> reach h' (is_root ss) n.
Proof.
  intros P n Hr. induction Hr as [k Hk|k c Hr IH Hedge].
  - apply reach_root. exact Hk.
  - eapply reach_step; [exact IH|].
    destruct Hedge as [v [Hv Hc]]. exists v. split; [|exact Hc].
    destruct k as [a|a]; simpl in *.
    + rewrite (cp_keep_list _ _ _ P a Hr). exact Hv.
    + rewrite (cp_keep_rec _ _ _ P a Hr). exact Hv.
Qed.

Lemma reach_reflected ss h h' : collect_post ss h h' ->
  forall n, reach h' (is_root ss) n -> reach h (is_root ss) n.
Proof.
  intros P n Hr. induction Hr as [k Hk|k c Hr IH Hedge].
  - apply reach_root. exact Hk.
  - eapply reach_step; [exact IH|].
    destruct Hedge as [v [Hv Hc]]. exists v. split; [|exact Hc].
    destruct k as [a|a]; simpl in *.
    + rewrite (cp_keep_list _ _ _ P a IH) in Hv. exact Hv.
    + rewrite (cp_keep_rec _ _ _ P a IH) in Hv. exact Hv.
Qed.

(** No reachable container is handed out again: after a collection the free lists hold exactly the
    unreachable slots, each once, so the next allocations cannot overwrite live data. *)
Theorem collect_free_ok h ss h' :
  wf_heap h -> wf_scopes h ss -> free_ok h ss -> collect ss h = Ok h' -> free_ok h' ss.
Proof.
  intros Hh Hs (N1 & N2 & F1 & F2) Hc.
  destruct (collect_correct h ss Hh Hs) as (h2 & E & P). rewrite E in Hc. injection Hc as <-.
  repeat split.
  - apply (cp_nodup_list _ _ _ P N1).
  - apply (cp_nodup_rec _ _ _ P N2).
  - rewrite (cp_len_lists _ _ _ P).
    destruct (cp_only_list _ _ _ P a H) as [Hin|[Hlt _]]; [apply F1; exact Hin|exact Hlt].
  - intros Hr. apply (reach_reflected _ _ _ P) in Hr.
    destruct (cp_only_list _ _ _ P a H) as [Hin|[_ Hn]]; [apply (F1 a Hin); exact Hr|apply Hn; exact Hr].
  - rewrite (cp_len_recs _ _ _ P).
    destruct (cp_only_rec _ _ _ P a H) as [Hin|[Hlt _]]; [apply F2; exact Hin|exact Hlt].
  - intros Hr. apply (reach_reflected _ _ _ P) in Hr.
    destruct (cp_only_rec _ _ _ P a H) as [Hin|[_ Hn]]; [apply (F2 a Hin); exact Hr|apply Hn; exact Hr].
Qed.

(** A collection keeps the heap well formed. *)
Theorem collect_wf h ss h' :
  wf_heap h -> wf_scopes h ss -> collect ss h = Ok h' -> wf_heap h' /\ wf_scopes h' ss.
Proof.
  intros Hh Hs Hc.
  destruct (collect_correct h ss Hh Hs) as (h2 & E & P). rewrite E in Hc. injection Hc as <-.
  destruct (gc_mark_correct h ss Hh Hs) as (m & Em & [Wl Wr] & Hm).
  assert (Hrange : forall n, in_range h n -> in_range h2 n).
  { intros [a|a]; simpl; [rewrite (cp_len_lists _ _ _ P)|rewrite (cp_len_recs _ _ _ P)]; auto. }
  assert (Hval : forall v, wf_val h v -> wf_val h2 v).
  { intros v. unfold wf_val. destruct (node_of v); auto. }
  split.
  - destruct Hh as [Hl Hr]. split.
    + intros l Hin. apply In_nth with (d := []) in Hin as (a & Ha & <-).
      rewrite (cp_len_lists _ _ _ P) in Ha.
      destruct (Bool.bool_dec (marked m (NL a)) true) as [Hma|Hma].
      * rewrite (cp_keep_list _ _ _ P a (proj1 (Hm _) Hma)).
        eapply Forall_impl; [exact Hval|]. apply Hl, nth_In. exact Ha.
      * destruct (cp_free_list _ _ _ P a Ha) as [He _]; [intros Hc; apply Hma, Hm; exact Hc|]. rewrite He. constructor.
    + intros r Hin. apply In_nth with (d := []) in Hin as (a & Ha & <-).
      rewrite (cp_len_recs _ _ _ P) in Ha.
      destruct (Bool.bool_dec (marked m (NR a)) true) as [Hma|Hma].
      * rewrite (cp_keep_rec _ _ _ P a (proj1 (Hm _) Hma)).
        eapply Forall_impl; [exact Hval|]. apply Hr, nth_In. exact Ha.
      * destruct (cp_free_rec _ _ _ P a Ha) as [He _]; [intros Hc; apply Hma, Hm; exact Hc|]. rewrite He. constructor.
  - unfold wf_scopes in *. eapply Forall_impl; [exact Hval|exact Hs].
Qed.
