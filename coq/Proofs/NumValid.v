(** C09: the numbers of the model are binary64 numbers.  Every operation that produces a number -- the four arithmetic
    operations, the remainder, negation, the conversion of a length, and the conversion of text (literals and the
    conversion built-in) -- yields a VALID spec_float (a special value, or a mantissa below 2^53 with a normalised exponent
    in range) from valid operands.  With NumPrintable.v: every finite result of arithmetic on literals is printable.
    The SpecFloat operations are connected to Flocq's operations on [binary_float], which are valid by construction
    (the same four lemmas as in Flocq's IEEE754/PrimFloat.v, stated for spec_floats instead of primitive floats).
    Depends on the real-number axioms, through Flocq. *)
From Coq Require Import ZArith Reals Lia List.
From Flocq Require Import Core.Core IEEE754.BinarySingleNaN IEEE754.PrimFloat.
From Pakhi Require Import Base Float64.
Import ListNotations.
Local Open Scope Z_scope.

Notation bf := (binary_float FloatOps.prec FloatOps.emax).
Notation Bplus64 := (@Bplus FloatOps.prec FloatOps.emax Hprec Hmax mode_NE).
Notation Bminus64 := (@Bminus FloatOps.prec FloatOps.emax Hprec Hmax mode_NE).
Notation Bmult64 := (@Bmult FloatOps.prec FloatOps.emax Hprec Hmax mode_NE).
Notation Bdiv64 := (@Bdiv FloatOps.prec FloatOps.emax Hprec Hmax mode_NE).

Definition valid (x : f64) : Prop := SpecFloat.valid_binary Float64.prec Float64.emax x = true.

Lemma SFadd_B (x y : bf) : SFadd FloatOps.prec FloatOps.emax (B2SF x) (B2SF y) = B2SF (Bplus64 x y).
Proof.
  destruct x as [sx|sx| |sx mx ex Bx]; destruct y as [sy|sy| |sy my ey By]; [now (trivial || simpl; case Bool.eqb).. | ].
  apply binary_normalize_equiv.
Qed.
Lemma SFsub_B (x y : bf) : SFsub FloatOps.prec FloatOps.emax (B2SF x) (B2SF y) = B2SF (Bminus64 x y).
Proof.
  destruct x as [sx|sx| |sx mx ex Bx]; destruct y as [sy|sy| |sy my ey By]; [now (trivial || simpl; case Bool.eqb).. | ].
  simpl. unfold Zminus. rewrite <- cond_Zopp_negb. apply binary_normalize_equiv.
Qed.
Lemma SFmul_B (x y : bf) : SFmul FloatOps.prec FloatOps.emax (B2SF x) (B2SF y) = B2SF (Bmult64 x y).
Proof.
  destruct x as [sx|sx| |sx mx ex Bx]; destruct y as [sy|sy| |sy my ey By]; [now trivial.. | ].
  simpl. rewrite B2SF_SF2B. apply binary_round_aux_equiv.
Qed.
Lemma SFdiv_B (x y : bf) : SFdiv FloatOps.prec FloatOps.emax (B2SF x) (B2SF y) = B2SF (Bdiv64 x y).
Proof.
  destruct x as [sx|sx| |sx mx ex Bx]; destruct y as [sy|sy| |sy my ey By]; [now (trivial || simpl; case Bool.eqb).. | ].
  simpl. rewrite B2SF_SF2B. set (melz := SFdiv_core_binary _ _ _ _ _ _). case melz as [[mz ez] lz]. apply binary_round_aux_equiv.
Qed.

Lemma valid_B (z : bf) : valid (B2SF z).
Proof. unfold valid. change Float64.prec with FloatOps.prec. change Float64.emax with FloatOps.emax. apply valid_binary_B2SF. Qed.

Lemma valid_lift (x : f64) : valid x -> exists b : bf, x = B2SF b.
Proof. intros H. unfold valid in H. change Float64.prec with FloatOps.prec in H. change Float64.emax with FloatOps.emax in H.
  exists (SF2B x H). symmetry. apply B2SF_SF2B. Qed.

Theorem f_add_valid x y : valid x -> valid y -> valid (f_add x y).
Proof. intros Hx Hy. destruct (valid_lift x Hx) as [bx ->]. destruct (valid_lift y Hy) as [by_ ->].
  unfold f_add. change Float64.prec with FloatOps.prec. change Float64.emax with FloatOps.emax. rewrite SFadd_B. apply valid_B. Qed.
Theorem f_sub_valid x y : valid x -> valid y -> valid (f_sub x y).
Proof. intros Hx Hy. destruct (valid_lift x Hx) as [bx ->]. destruct (valid_lift y Hy) as [by_ ->].
  unfold f_sub. change Float64.prec with FloatOps.prec. change Float64.emax with FloatOps.emax. rewrite SFsub_B. apply valid_B. Qed.
Theorem f_mul_valid x y : valid x -> valid y -> valid (f_mul x y).
Proof. intros Hx Hy. destruct (valid_lift x Hx) as [bx ->]. destruct (valid_lift y Hy) as [by_ ->].
  unfold f_mul. change Float64.prec with FloatOps.prec. change Float64.emax with FloatOps.emax. rewrite SFmul_B. apply valid_B. Qed.
Theorem f_div_valid x y : valid x -> valid y -> valid (f_div x y).
Proof. intros Hx Hy. destruct (valid_lift x Hx) as [bx ->]. destruct (valid_lift y Hy) as [by_ ->].
  unfold f_div. change Float64.prec with FloatOps.prec. change Float64.emax with FloatOps.emax. rewrite SFdiv_B. apply valid_B. Qed.

Lemma normalize_valid m e szero : valid (SpecFloat.binary_normalize Float64.prec Float64.emax m e szero).
Proof. change Float64.prec with FloatOps.prec. change Float64.emax with FloatOps.emax. rewrite binary_normalize_equiv. apply valid_B. Qed.

Theorem f_neg_valid x : valid x -> valid (f_neg x).
Proof. intros Hx. unfold f_neg. apply f_mul_valid; [exact Hx|]. vm_compute. reflexivity. Qed.
Theorem f_of_Z_valid n : valid (f_of_Z n).
Proof. apply normalize_valid. Qed.
Theorem f_rem_valid x y : valid x -> valid y -> valid (f_rem x y).
Proof.
  intros Hx Hy. unfold f_rem. destruct x as [sx|sx| |sx mx ex]; destruct y as [sy|sy| |sy my ey]; try reflexivity; try exact Hx.
  destruct (_ =? 0); [reflexivity|]. apply normalize_valid.
Qed.

(** ** text to number *)
Lemma dec_to_f64_valid neg m e10 : valid (dec_to_f64 neg m e10).
Proof.
  unfold dec_to_f64. destruct (m <=? 0); [reflexivity|]. destruct (0 <=? e10); [apply normalize_valid|].
  destruct m as [|mp|mp]; try reflexivity.
  unfold SFdiv. set (q := Z.to_pos (10 ^ (- e10))).
  pose proof (Bdiv_correct_aux 53 1024 (eq_refl : Prec_gt_0 53) (eq_refl : Prec_lt_emax 53 1024) mode_NE neg mp 0 false q 0) as C.
  cbv zeta in C. destruct C as [C _].
  destruct (SFdiv_core_binary Float64.prec Float64.emax (Z.pos mp) 0 (Z.pos q) 0) as [[mz ez] lz] eqn:E.
  change Float64.prec with 53 in E. change Float64.emax with 1024 in E. rewrite E in C.
  unfold valid. change Float64.prec with FloatOps.prec. change Float64.emax with FloatOps.emax. rewrite binary_round_aux_equiv. exact C.
Qed.

Theorem parse_f64_valid s v : parse_f64 s = Some v -> valid v.
Proof.
  unfold parse_f64. intros H.
  destruct (match s with c :: r => if (c =? c_minus)%N then (true, r) else if (c =? c_plus)%N then (false, r) else (false, s) | [] => (false, s) end) as [neg body].
  destruct (parse_special body) as [f|] eqn:Es.
  { injection H as <-. unfold parse_special in Es.
    destruct (text_eqb _ _); [injection Es as <-; reflexivity|]. destruct (text_eqb _ _); [injection Es as <-; reflexivity|].
    destruct (text_eqb _ _); [injection Es as <-; reflexivity|discriminate]. }
  destruct (span_digits body) as [ip r1].
  destruct (match r1 with c :: r => if (c =? c_dot)%N then span_digits r else ([], r1) | [] => ([], r1) end) as [fp r2].
  assert (G : forall ex, valid (dec_to_f64_clamped neg (digits_val 0 (strip_zeros (ip ++ fp))) (Z.of_nat (length (strip_zeros (ip ++ fp)))) (ex - Z.of_nat (length fp)))).
  { intros ex. unfold dec_to_f64_clamped. destruct (_ <=? 0); [reflexivity|]. destruct (400 <? _); [reflexivity|]. destruct (_ <? -400); [reflexivity|]. apply dec_to_f64_valid. }
  destruct ip as [|i0 ip']; destruct fp as [|f0 fp']; try discriminate; destruct (parse_exp r2) as [ex|]; try discriminate; injection H as <-; apply G.
Qed.

(** every number literal the lexer accepts is a valid binary64; if it is finite it prints (NumPrintable.v) *)
From Pakhi Require Import Syntax Tables Lexer Interp.
From Pakhi.Proofs Require Import TableFacts Num NumText NumShape NumPrintable.

Theorem literal_valid rest line file v n : consume_num rest line file = Ok (v, n) -> valid v.
Proof.
  intros H. destruct (literal_value rest line file v n H) as (sign & body & s & k & _ & Hp & _). exact (parse_f64_valid _ _ Hp).
Qed.

Theorem valid_numbers_print x : valid x -> (forall s, x <> S754_infinity s) -> x <> S754_nan -> exists s, to_bn_num x = Some s.
Proof.
  intros Hv Hi Hn. destruct x as [sg|sg| |sg m e].
  - unfold to_bn_num. cbn [f64_to_string]. destruct sg; vm_compute; eauto.
  - exfalso. exact (Hi sg eq_refl).
  - congruence.
  - apply finite_numbers_are_printable. exact Hv.
Qed.

(** a finite result of one arithmetic operation on valid numbers is printable: no arithmetic result is "unprintable but finite" *)
Definition finite64 (x : f64) : Prop := (forall s, x <> S754_infinity s) /\ x <> S754_nan.

Theorem arithmetic_results_print x y r :
  valid x -> valid y ->
  r = f_add x y \/ r = f_sub x y \/ r = f_mul x y \/ r = f_div x y \/ r = f_rem x y \/ r = f_neg x ->
  finite64 r -> exists s, to_bn_num r = Some s.
Proof.
  intros Hx Hy Hr [Hi Hn]. apply valid_numbers_print; [|exact Hi|exact Hn].
  destruct Hr as [->|[->|[->|[->|[->| ->]]]]];
    [apply f_add_valid|apply f_sub_valid|apply f_mul_valid|apply f_div_valid|apply f_rem_valid|apply f_neg_valid]; assumption.
Qed.

(** the two ends joined: a literal the lexer accepts, unless it overflowed to an infinity or is NaN, prints *)
Theorem finite_literals_print rest line file v n :
  consume_num rest line file = Ok (v, n) -> finite64 v -> exists s, to_bn_num v = Some s.
Proof. intros H [Hi Hn]. exact (valid_numbers_print v (literal_valid _ _ _ _ _ H) Hi Hn). Qed.
