(** C01 / C12: the expression parser inverts rendering.  For every expression tree that needs no further parentheses at
    level [lvl] ([wfb lvl e]: operands of a binary operator are at least as tight on the left and strictly tighter on the
    right, so a chain a op b op c is the left-nested tree; looser sub-trees are Group nodes; call heads and index bases are
    what the grammar allows), followed by any token that cannot continue an expression, the parser with enough fuel
    returns exactly that tree -- all node kinds, any depth -- up to line/file metadata, and consumes exactly its tokens. *)
From Pakhi Require Import Base Float64 Syntax Tables Lexer Parser.
From Coq Require Import Lia.
Local Open Scope nat_scope.

(** ** more fuel never changes a successful parse *)
Definition mono_all (f : nat) : Prop :=
  (forall lvl s r, pexpr f lvl s = Ok r -> pexpr (S f) lvl s = Ok r) /\
  (forall lvl e s r, pbin f lvl e s = Ok r -> pbin (S f) lvl e s = Ok r) /\
  (forall e s r, pcalls f e s = Ok r -> pcalls (S f) e s = Ok r) /\
  (forall s r, pargs f s = Ok r -> pargs (S f) s = Ok r) /\
  (forall s r, pitems f s = Ok r -> pitems (S f) s = Ok r) /\
  (forall s r, pentries f s = Ok r -> pentries (S f) s = Ok r) /\
  (forall e s r, pindexes f e s = Ok r -> pindexes (S f) e s = Ok r) /\
  (forall s r, pprimary f s = Ok r -> pprimary (S f) s = Ok r).

Ltac bind_step IH :=
  match goal with
  | H : bind ?c _ = Ok _ |- _ =>
      let E := fresh "E" in destruct c as [?a| | |] eqn:E; cbn [bind] in H; try discriminate;
      destruct IH as (M1 & M2 & M3 & M4 & M5 & M6 & M7 & M8);
      first [rewrite (M1 _ _ _ E) | rewrite (M2 _ _ _ _ E) | rewrite (M3 _ _ _ E) | rewrite (M4 _ _ E) | rewrite (M5 _ _ E)
            | rewrite (M6 _ _ E) | rewrite (M7 _ _ _ E) | rewrite (M8 _ _ E) | idtac];
      cbn [bind]
  end.

Lemma mono_step : forall f, mono_all f.
Proof.
  induction f as [|f IH]; [repeat split; intros; discriminate|].
  assert (IH' := IH). destruct IH' as (M1 & M2 & M3 & M4 & M5 & M6 & M7 & M8).
  repeat split.
  - (* pexpr *) intros lvl s r H. cbn [pexpr] in H. remember (S f) as g eqn:Hg. cbn [pexpr]. subst g.
    destruct lvl as [|[|[|[|[|[|[|[|[|lvl]]]]]]]]].
    all: try (destruct (pexpr f _ s) as [[e s1]| | |] eqn:E; cbn [bind] in H; try discriminate; rewrite (M1 _ _ _ E); cbn [bind]; first [apply M2; exact H | apply M3; exact H]; fail).
    all: try (apply M8; exact H).
    destruct (hk s); try (apply M1; exact H);
      (destruct (pos_here s); cbn [bind] in *; try discriminate;
       destruct (pexpr f 6 (adv s)) as [[e s1]| | |] eqn:E; cbn [bind] in H; try discriminate; rewrite (M1 _ _ _ E); exact H).
  - (* pbin *) intros lvl e s r H. cbn [pbin] in H. remember (S f) as g eqn:Hg. cbn [pbin]. subst g. destruct (binop_at lvl (hk s)); [|exact H].
    destruct (pexpr f (S lvl) (adv s)) as [[r0 s1]| | |] eqn:E; cbn [bind] in H; try discriminate. rewrite (M1 _ _ _ E). cbn [bind].
    destruct (pos_prev s1); cbn [bind] in *; try discriminate. apply M2. exact H.
  - (* pcalls *) intros e s r H. cbn [pcalls] in H. remember (S f) as g eqn:Hg. cbn [pcalls]. subst g. destruct (hk s); try exact H.
    destruct (pos_prev (adv s)); cbn [bind] in *; try discriminate.
    destruct (hk (adv s)); cbn [bind] in *;
      try (destruct (pargs f (adv s)) as [[args s2]| | |] eqn:E; cbn [bind] in H; try discriminate; rewrite (M4 _ _ E); cbn [bind]; apply M3; exact H).
    apply M3. exact H.
  - (* pargs *) intros s r H. cbn [pargs] in H. remember (S f) as g eqn:Hg. cbn [pargs]. subst g.
    destruct (pexpr f 0 s) as [[e s1]| | |] eqn:E; cbn [bind] in H; try discriminate. rewrite (M1 _ _ _ E). cbn [bind].
    destruct (hk s1); try exact H.
    destruct (pargs f (adv s1)) as [[es s2]| | |] eqn:E2; cbn [bind] in H; try discriminate. rewrite (M4 _ _ E2). exact H.
  - (* pitems *) intros s r H. cbn [pitems] in H. remember (S f) as g eqn:Hg. cbn [pitems]. subst g. destruct (hk s) eqn:Hk; try exact H;
    (destruct (pexpr f 0 s) as [[e s1]| | |] eqn:E; cbn [bind] in H; try discriminate; rewrite (M1 _ _ _ E); cbn [bind];
     match goal with H : bind (pitems f ?x) _ = Ok _ |- _ => destruct (pitems f x) as [[es s3]| | |] eqn:E2; cbn [bind] in H; try discriminate; rewrite (M5 _ _ E2); exact H end).
  - (* pentries *) intros s r H. cbn [pentries] in H. remember (S f) as g eqn:Hg. cbn [pentries]. subst g. destruct (hk s) eqn:Hk; try exact H;
    (destruct (pexpr f 0 s) as [[k s1]| | |] eqn:E; cbn [bind] in H; try discriminate; rewrite (M1 _ _ _ E); cbn [bind];
     destruct (hk s1); try exact H;
     destruct (pexpr f 0 (adv s1)) as [[v s2]| | |] eqn:E2; cbn [bind] in H; try discriminate; rewrite (M1 _ _ _ E2); cbn [bind];
     match goal with H : bind (pentries f ?x) _ = Ok _ |- _ => destruct (pentries f x) as [[[ks vs] s4]| | |] eqn:E3; cbn [bind] in H; try discriminate; rewrite (M6 _ _ E3); exact H end).
  - (* pindexes *) intros e s r H. cbn [pindexes] in H. remember (S f) as g eqn:Hg. cbn [pindexes]. subst g. destruct (hk s); try exact H.
    destruct (pexpr f 0 (adv s)) as [[i s1]| | |] eqn:E; cbn [bind] in H; try discriminate. rewrite (M1 _ _ _ E). cbn [bind].
    destruct (hk s1); try exact H. destruct (pos_tok (adv s1) (head s)); cbn [bind] in *; try discriminate. apply M7. exact H.
  - (* pprimary *) intros s r H. cbn [pprimary] in H. remember (S f) as g eqn:Hg. cbn [pprimary]. subst g. destruct (hk s); try exact H.
    + destruct (pos_tok s (head s)); cbn [bind] in *; try discriminate. apply M7. exact H.
    + destruct (hk (adv s)); try exact H.
      destruct (pentries f (adv (adv s))) as [[[ks vs] s2]| | |] eqn:E; cbn [bind] in H; try discriminate. rewrite (M6 _ _ E). exact H.
    + destruct (pexpr f 0 (adv s)) as [[e s1]| | |] eqn:E; cbn [bind] in H; try discriminate. rewrite (M1 _ _ _ E). exact H.
    + destruct (pitems f (adv s)) as [[es s1]| | |] eqn:E; cbn [bind] in H; try discriminate. rewrite (M5 _ _ E). exact H.
Qed.

Lemma mono_ge f f' : f <= f' -> 
  (forall lvl s r, pexpr f lvl s = Ok r -> pexpr f' lvl s = Ok r) /\
  (forall lvl e s r, pbin f lvl e s = Ok r -> pbin f' lvl e s = Ok r) /\
  (forall e s r, pcalls f e s = Ok r -> pcalls f' e s = Ok r) /\
  (forall s r, pargs f s = Ok r -> pargs f' s = Ok r) /\
  (forall s r, pitems f s = Ok r -> pitems f' s = Ok r) /\
  (forall s r, pentries f s = Ok r -> pentries f' s = Ok r) /\
  (forall e s r, pindexes f e s = Ok r -> pindexes f' e s = Ok r) /\
  (forall s r, pprimary f s = Ok r -> pprimary f' s = Ok r).
Proof.
  induction 1 as [|f' Hle IH]; [repeat split; auto|].
  destruct IH as (A1 & A2 & A3 & A4 & A5 & A6 & A7 & A8). destruct (mono_step f') as (M1 & M2 & M3 & M4 & M5 & M6 & M7 & M8).
  repeat split; intros; eauto.
Qed.

(** ** rendering *)
Definition p0 : pos := mkPos 0 [].
Fixpoint erase (e : expr) : expr :=
  match e with
  | ENil _ => ENil p0 | EBool b _ => EBool b p0 | ENum x _ => ENum x p0 | EStr s _ => EStr s p0 | EVar x _ => EVar x p0
  | EList es _ => EList (map erase es) p0
  | ERec ks vs _ => ERec (map erase ks) (map erase vs) p0
  | EGroup e1 _ => EGroup (erase e1) p0
  | EUn o e1 _ => EUn o (erase e1) p0
  | EBin o l r _ => EBin o (erase l) (erase r) p0
  | ECall f args _ => ECall (erase f) (map erase args) p0
  | EIndex a i _ => EIndex (erase a) (erase i) p0
  end.

Definition tk (k : tkind) : token := mkTok k [] 1 [].
Definition tid (x : text) : token := mkTok TIdent x 1 [].

Definition level_of (o : binop) : nat :=
  match o with BOr => 0 | BAnd => 1 | BEq | BNe => 2 | BLt | BLe | BGt | BGe => 3 | BAdd | BSub => 4 | BMul | BDiv | BRem => 5 end.
Definition op_kind (o : binop) : tkind :=
  match o with BOr => TOr | BAnd => TAnd | BEq => TEqEq | BNe => TNotEq | BLt => TLt | BLe => TLe | BGt => TGt | BGe => TGe
             | BAdd => TPlus | BSub => TMinus | BMul => TMul | BDiv => TDiv | BRem => TRem end.
Definition un_kind (o : unop) : tkind := match o with UNeg => TMinus | UNot => TNot end.

Fixpoint join_comma (l : list (list token)) : list token :=
  match l with [] => [] | [x] => x | x :: r => x ++ tk TComma :: join_comma r end.
Definition entry_toks (kv : list token * list token) : list token := fst kv ++ tk TMap :: snd kv ++ [tk TComma].

Fixpoint render (e : expr) : list token :=
  match e with
  | ENil _ => []
  | EBool b _ => [tk (TBool b)]
  | ENum x _ => [tk (TNum x)]
  | EStr s _ => [tk (TStr s)]
  | EVar x _ => [tid x]
  | EList es _ => tk TLSquare :: join_comma (map render es) ++ [tk TRSquare]
  | ERec ks vs _ =>
      tk TAt :: tk TLCurly :: flat_map entry_toks (combine (map render ks) (map render vs)) ++ [tk TRCurly]
  | EGroup e1 _ => tk TLParen :: render e1 ++ [tk TRParen]
  | EUn o e1 _ => tk (un_kind o) :: render e1
  | EBin o l r _ => render l ++ tk (op_kind o) :: render r
  | ECall f args _ =>
      render f ++ tk TLParen :: join_comma (map render args) ++ [tk TRParen]
  | EIndex a i _ => render a ++ tk TLSquare :: render i ++ [tk TRSquare]
  end.

(* an index base is a variable or an indexed variable *)
Fixpoint idx_base (e : expr) : bool :=
  match e with EVar _ _ => true | EIndex a _ _ => idx_base a | _ => false end.

(* [wfb lvl e]: e needs no further parentheses to be read back at precedence level lvl *)
Fixpoint wfb (lvl : nat) (e : expr) : bool :=
  match e with
  | ENil _ => false
  | EBool _ _ | ENum _ _ | EStr _ _ | EVar _ _ => true
  | EList es _ => forallb (wfb 0) es
  | ERec ks vs _ => Nat.eqb (length ks) (length vs) && forallb (wfb 0) ks && forallb (wfb 0) vs
  | EGroup e1 _ => wfb 0 e1
  | EUn _ e1 _ => (lvl <=? 6) && wfb 6 e1
  | EBin o l r _ => (lvl <=? level_of o) && wfb (level_of o) l && wfb (S (level_of o)) r
  | ECall f args _ => (lvl <=? 7) && wfb 7 f && forallb (wfb 0) args
  | EIndex a i _ => idx_base a && wfb 8 a && wfb 0 i
  end.

(* the token after the expression does not continue it at this level or a tighter one *)
Definition stop (lvl : nat) (k : tkind) : bool :=
  forallb (fun l => match binop_at l k with None => true | Some _ => false end) (seq lvl (6 - lvl)) &&
  negb (tk_is k TLParen) && negb (tk_is k TLSquare).

Lemma binop_at_op o : binop_at (level_of o) (op_kind o) = Some o.
Proof. destruct o; reflexivity. Qed.
Lemma binop_at_op_other l o : l <> level_of o -> binop_at l (op_kind o) = None.
Proof. intros H. destruct o; simpl in H; do 7 (destruct l as [|l]; try reflexivity; try congruence). Qed.
Lemma stop_le lvl lvl' k : lvl <= lvl' -> stop lvl k = true -> stop lvl' k = true.
Proof.
  unfold stop. intros Hle H. apply andb_true_iff in H as [H H3]. apply andb_true_iff in H as [H1 H2].
  rewrite H2, H3, !andb_true_r. rewrite forallb_forall in *. intros l Hl. apply H1. apply in_seq in Hl. apply in_seq. lia.
Qed.
Lemma stop_binop lvl k l : stop lvl k = true -> lvl <= l -> binop_at l k = None.
Proof.
  unfold stop. intros H Hle. apply andb_true_iff in H as [H _]. apply andb_true_iff in H as [H1 _].
  destruct (Nat.lt_ge_cases l 6) as [Hlt|Hge].
  - rewrite forallb_forall in H1. specialize (H1 l ltac:(apply in_seq; lia)). destruct (binop_at l k); [discriminate|reflexivity].
  - do 6 (destruct l as [|l]; [lia|]). destruct k; reflexivity.
Qed.
Lemma stop_op_above o : stop (S (level_of o)) (op_kind o) = true.
Proof. destruct o; reflexivity. Qed.

(** ** sizes *)
Fixpoint size (e : expr) : nat :=
  match e with
  | ENil _ | EBool _ _ | ENum _ _ | EStr _ _ | EVar _ _ => 1
  | EList es _ => S (list_sum (map size es))
  | ERec ks vs _ => S (list_sum (map size ks) + list_sum (map size vs))
  | EGroup e1 _ | EUn _ e1 _ => S (size e1)
  | EBin _ l r _ => S (size l + size r)
  | ECall f args _ => S (size f + list_sum (map size args))
  | EIndex a i _ => S (size a + size i)
  end.
Lemma size_pos e : 1 <= size e. Proof. destruct e; simpl; lia. Qed.
Lemma size_in e es : In e es -> size e <= list_sum (map size es).
Proof. induction es as [|x es IH]; simpl; [tauto|]. intros [->|H]; [lia|]. specialize (IH H). lia. Qed.

Section RoundTrip.
Variable last : token.
Variable mods : list (text * text).
Notation St toks prev := (mkPs toks prev last mods).

(* what it means to be read back: enough fuel exists, exactly the tokens of e are consumed, the tree is e up to metadata *)
Definition reads (parse : nat -> pstate -> outcome (expr * pstate)) (e : expr) (rest : list token) (prev : option token) : Prop :=
  exists n e' t', parse n (St (render e ++ rest) prev) = Ok (e', St rest (Some t')) /\ erase e' = erase e.

Definition Pok (lvl : nat) (e : expr) : Prop :=
  forall rest prev, rest <> [] -> stop lvl (t_kind (hd last rest)) = true -> reads (fun n => pexpr n lvl) e rest prev.

Lemma hk_cons t r prev : hk (St (t :: r) prev) = t_kind t. Proof. reflexivity. Qed.
Lemma hk_rest rest prev : rest <> [] -> hk (St rest prev) = t_kind (hd last rest).
Proof. destruct rest; [congruence|reflexivity]. Qed.
Lemma adv_cons t r prev : adv (St (t :: r) prev) = St r (Some t). Proof. reflexivity. Qed.
Lemma pos_prev_ok rest t : rest <> [] -> pos_prev (St rest (Some t)) = Ok (tpos t).
Proof. destruct rest; [congruence|reflexivity]. Qed.
Lemma pos_tok_ok rest prev t : rest <> [] -> pos_tok (St rest prev) t = Ok (tpos t).
Proof. destruct rest; [congruence|reflexivity]. Qed.
Lemma pos_here_cons t r prev : pos_here (St (t :: r) prev) = Ok (tpos t). Proof. reflexivity. Qed.

(** ** from a tighter level down to a looser one: the intermediate levels see no operator of theirs *)
Lemma pexpr_fuel_pos n lvl s r : pexpr n lvl s = Ok r -> 1 <= n.
Proof. destruct n; [discriminate|lia]. Qed.

Lemma descend_bin : forall k L lvl n s e' s', L = lvl + k -> L <= 6 ->
  pexpr n L s = Ok (e', s') -> (forall l, lvl <= l -> l < L -> binop_at l (hk s') = None) ->
  exists n', pexpr n' lvl s = Ok (e', s').
Proof.
  induction k as [|k IH]; intros L lvl n s e' s' HL H6 Hp Hno.
  - replace lvl with L by lia. eauto.
  - destruct (IH L (S lvl) n s e' s' ltac:(lia) H6 Hp ltac:(intros; apply Hno; lia)) as (n1 & H1).
    pose proof (pexpr_fuel_pos _ _ _ _ H1) as Hpos.
    exists (S n1). assert (Hlvl : lvl < 6) by lia.
    assert (E : pexpr (S n1) lvl s = (do '(e, s1) <- pexpr n1 (S lvl) s; pbin n1 lvl e s1)).
    { do 6 (destruct lvl as [|lvl]; [reflexivity|]). lia. }
    rewrite E, H1. cbn [bind]. destruct n1 as [|n1]; [lia|]. cbn [pbin]. rewrite (Hno lvl ltac:(lia) ltac:(lia)). reflexivity.
Qed.

(* from the call level to the unary level and below *)
Lemma descend_from_7 lvl n s e' s' : lvl <= 7 -> pexpr n 7 s = Ok (e', s') ->
  (forall o, hk s <> un_kind o) -> (forall l, lvl <= l -> l < 6 -> binop_at l (hk s') = None) ->
  exists n', pexpr n' lvl s = Ok (e', s').
Proof.
  intros Hl Hp Hun Hno. destruct (Nat.eq_dec lvl 7) as [->|Hne]; [eauto|].
  assert (H6 : pexpr (S n) 6 s = Ok (e', s')).
  { cbn [pexpr]. destruct (hk s) eqn:Hk; try exact Hp; exfalso; [apply (Hun UNeg)|apply (Hun UNot)]; reflexivity. }
  destruct (Nat.eq_dec lvl 6) as [->|Hne6]; [eauto|].
  apply (descend_bin (6 - lvl) 6 lvl (S n) s e' s'); try lia; auto.
Qed.

Lemma descend_from_6 lvl n s e' s' : lvl <= 6 -> pexpr n 6 s = Ok (e', s') ->
  (forall l, lvl <= l -> l < 6 -> binop_at l (hk s') = None) -> exists n', pexpr n' lvl s = Ok (e', s').
Proof. intros Hl Hp Hno. apply (descend_bin (6 - lvl) 6 lvl n s e' s'); try lia; auto. Qed.

(** ** the first token of a well-formed expression opens an expression *)
Definition opener (k : tkind) : Prop := k <> TRSquare /\ k <> TRCurly /\ k <> TRParen.

Lemma render_cons : forall e lvl, wfb lvl e = true ->
  exists t r, render e = t :: r /\ opener (t_kind t) /\ (7 <= lvl -> forall o, t_kind t <> un_kind o).
Proof.
  induction e as [p|b p|x p|s0 p|x p|es p|ks vs p|e1 IH p|o e1 IH p|o l IHl r IHr p|f IHf args p|a IHa i IHi p]; intros lvl Hw; simpl in Hw; try discriminate;
    try (eexists; eexists; split; [reflexivity|]; split; [repeat split; discriminate|intros _ o; destruct o; discriminate]).
  - (* unary *) apply andb_true_iff in Hw as [H1 H2]. apply Nat.leb_le in H1.
    eexists; eexists; split; [reflexivity|]. split; [destruct o; repeat split; discriminate|intros; lia].
  - (* binary *) apply andb_true_iff in Hw as [Hw H3]. apply andb_true_iff in Hw as [H1 H2]. apply Nat.leb_le in H1.
    destruct (IHl _ H2) as (t & r0 & E & Ho & _). exists t, (r0 ++ tk (op_kind o) :: render r). split; [simpl; rewrite E; reflexivity|].
    split; [exact Ho|]. intros H7. destruct o; simpl in H1; lia.
  - (* call *) apply andb_true_iff in Hw as [Hw H3]. apply andb_true_iff in Hw as [H1 H2].
    destruct (IHf _ H2) as (t & r0 & E & Ho & Hu). exists t, (r0 ++ tk TLParen :: join_comma (map render args) ++ [tk TRParen]).
    split; [simpl; rewrite E; reflexivity|]. split; [exact Ho|]. intros _. apply Hu. lia.
  - (* index *) apply andb_true_iff in Hw as [Hw H3]. apply andb_true_iff in Hw as [H1 H2].
    destruct (IHa _ H2) as (t & r0 & E & Ho & Hu). exists t, (r0 ++ tk TLSquare :: render i ++ [tk TRSquare]).
    split; [simpl; rewrite E; reflexivity|]. split; [exact Ho|]. intros _. apply Hu. lia.
Qed.

(** ** the loops over items, entries and arguments *)
Lemma items_read es : (forall e, In e es -> wfb 0 e = true /\ Pok 0 e) -> forall rest prev,
  exists n es' prev', pitems n (St (join_comma (map render es) ++ tk TRSquare :: rest) prev)
                      = Ok (es', St (tk TRSquare :: rest) prev') /\ map erase es' = map erase es.
Proof.
  induction es as [|e es IH]; intros Hall rest prev.
  - exists 1, [], prev. split; reflexivity.
  - destruct (Hall e (or_introl eq_refl)) as [Hw Hp].
    destruct (render_cons e 0 Hw) as (t & r & Er & (O1 & O2 & O3) & _).
    destruct es as [|e2 es].
    + (* last item: directly followed by the closing bracket *)
      destruct (Hp (tk TRSquare :: rest) prev ltac:(discriminate) eq_refl) as (n1 & e' & t1 & P1 & E1).
      exists (S (S n1)), [e'], (Some t1). split; [|simpl; rewrite E1; reflexivity].
      cbn [map join_comma]. cbn [pitems]. rewrite Er at 1. cbn [app]. rewrite hk_cons.
      assert (Hm1 := proj1 (mono_ge n1 (S n1) ltac:(lia)) _ _ _ P1).
      destruct (t_kind t) eqn:Hk; try (exfalso; apply O1; reflexivity).
      all: rewrite Hm1; cbn [bind]; rewrite hk_cons; cbn [t_kind tk bind]; reflexivity.
    + set (rest1 := tk TComma :: join_comma (map render (e2 :: es)) ++ tk TRSquare :: rest).
      destruct (Hp rest1 prev ltac:(discriminate) eq_refl) as (n1 & e' & t1 & P1 & E1).
      destruct (IH (fun e0 H => Hall e0 (or_intror H)) rest (Some (tk TComma))) as (n2 & es' & prev2 & P2 & E2).
      exists (S (Nat.max n1 n2)), (e' :: es'), prev2. split; [|simpl in *; rewrite E1, E2; reflexivity].
      change (join_comma (map render (e :: e2 :: es))) with (render e ++ tk TComma :: join_comma (map render (e2 :: es))).
      rewrite <- app_assoc. cbn [app]. fold rest1.
      cbn [pitems]. rewrite Er at 1. cbn [app]. rewrite hk_cons.
      assert (Hm1 := proj1 (mono_ge n1 (Nat.max n1 n2) ltac:(lia)) _ _ _ P1).
      assert (Hm2 := proj1 (proj2 (proj2 (proj2 (proj2 (mono_ge n2 (Nat.max n1 n2) ltac:(lia)))))) _ _ P2).
      destruct (t_kind t) eqn:Hk; try (exfalso; apply O1; reflexivity).
      all: rewrite Hm1; cbn [bind]; unfold rest1; rewrite hk_cons; cbn [t_kind tk]; rewrite adv_cons.
      all: rewrite Hm2; reflexivity.
Qed.

Lemma entries_read ks : forall vs, length ks = length vs ->
  (forall e, In e ks \/ In e vs -> wfb 0 e = true /\ Pok 0 e) -> forall rest prev,
  exists n ks' vs' prev', pentries n (St (flat_map entry_toks (combine (map render ks) (map render vs)) ++ tk TRCurly :: rest) prev)
                          = Ok (ks', vs', St (tk TRCurly :: rest) prev') /\ map erase ks' = map erase ks /\ map erase vs' = map erase vs.
Proof.
  induction ks as [|k ks IH]; intros [|v vs] Hlen Hall rest prev; try discriminate.
  - exists 1, [], [], prev. repeat split.
  - destruct (Hall k (or_introl (or_introl eq_refl))) as [Hwk Hpk]. destruct (Hall v (or_intror (or_introl eq_refl))) as [Hwv Hpv].
    destruct (render_cons k 0 Hwk) as (t & r & Er & (O1 & O2 & O3) & _).
    set (tail := flat_map entry_toks (combine (map render ks) (map render vs)) ++ tk TRCurly :: rest).
    destruct (Hpk (tk TMap :: render v ++ tk TComma :: tail) prev ltac:(discriminate) eq_refl) as (n1 & k' & t1 & P1 & E1).
    destruct (Hpv (tk TComma :: tail) (Some (tk TMap)) ltac:(discriminate) eq_refl) as (n2 & v' & t2 & P2 & E2).
    destruct (IH vs ltac:(simpl in Hlen; lia) (fun e0 H => Hall e0 (match H with or_introl A => or_introl (or_intror A) | or_intror B => or_intror (or_intror B) end)) rest (Some (tk TComma)))
      as (n3 & ks' & vs' & prev3 & P3 & E3 & E4).
    set (N := Nat.max n1 (Nat.max n2 n3)).
    exists (S N), (k' :: ks'), (v' :: vs'), prev3. split; [|simpl; rewrite E1, E2, E3, E4; split; reflexivity].
    cbn [map combine flat_map]. unfold entry_toks at 1. cbn [fst snd]. rewrite <- !app_assoc. cbn [app]. rewrite <- !app_assoc. cbn [app]. fold tail.
    assert (Hm1 := proj1 (mono_ge n1 N ltac:(lia)) _ _ _ P1).
    assert (Hm2 := proj1 (mono_ge n2 N ltac:(lia)) _ _ _ P2).
    assert (Hm3 := proj1 (proj2 (proj2 (proj2 (proj2 (proj2 (mono_ge n3 N ltac:(lia))))))) _ _ P3).
    cbn [pentries]. rewrite Er at 1. cbn [app]. rewrite hk_cons.
    destruct (t_kind t) eqn:Hk; try (exfalso; apply O2; reflexivity).
    all: rewrite Hm1; cbn [bind]; rewrite hk_cons; cbn [t_kind tk]; rewrite adv_cons; rewrite Hm2; cbn [bind]; rewrite hk_cons; cbn [t_kind tk]; rewrite adv_cons; fold tail.
    all: unfold tail in *; rewrite Hm3; reflexivity.
Qed.

Lemma args_read e es : (forall a, In a (e :: es) -> wfb 0 a = true /\ Pok 0 a) -> forall rest prev,
  exists n es' t', pargs n (St (join_comma (map render (e :: es)) ++ tk TRParen :: rest) prev)
                   = Ok (es', St (tk TRParen :: rest) (Some t')) /\ map erase es' = map erase (e :: es).
Proof.
  revert e. induction es as [|e2 es IH]; intros e Hall rest prev.
  - destruct (Hall e (or_introl eq_refl)) as [Hw Hp].
    destruct (Hp (tk TRParen :: rest) prev ltac:(discriminate) eq_refl) as (n1 & e' & t1 & P1 & E1).
    exists (S n1), [e'], t1. split; [|simpl; rewrite E1; reflexivity].
    cbn [map join_comma pargs]. rewrite P1. cbn [bind]. rewrite hk_cons. reflexivity.
  - destruct (Hall e (or_introl eq_refl)) as [Hw Hp].
    set (tail := join_comma (map render (e2 :: es)) ++ tk TRParen :: rest).
    destruct (Hp (tk TComma :: tail) prev ltac:(discriminate) eq_refl) as (n1 & e' & t1 & P1 & E1).
    destruct (IH e2 (fun a H => Hall a (or_intror H)) rest (Some (tk TComma))) as (n2 & es' & t2 & P2 & E2).
    set (N := Nat.max n1 n2).
    exists (S N), (e' :: es'), t2. split; [|simpl in *; rewrite E1, E2; reflexivity].
    assert (Hm1 := proj1 (mono_ge n1 N ltac:(lia)) _ _ _ P1).
    assert (Hm2 := proj1 (proj2 (proj2 (proj2 (mono_ge n2 N ltac:(lia))))) _ _ P2).
    change (join_comma (map render (e :: e2 :: es))) with (render e ++ tk TComma :: join_comma (map render (e2 :: es))).
    rewrite <- app_assoc. cbn [app]. fold tail.
    cbn [pargs]. rewrite Hm1. cbn [bind]. rewrite hk_cons. cbn [t_kind tk]. rewrite adv_cons. unfold tail. rewrite Hm2. reflexivity.
Qed.

(** ** the left spine of a chain of operators of one level *)
Definition ops_toks (ops : list (binop * expr)) : list token := flat_map (fun '(o, r) => tk (op_kind o) :: render r) ops.
Definition fold_ops (acc : expr) (ops : list (binop * expr)) : expr := fold_left (fun a '(o, r) => EBin o a r p0) ops acc.
Fixpoint spine (L : nat) (e : expr) : expr * list (binop * expr) :=
  match e with
  | EBin o l r _ => if Nat.eqb (level_of o) L then let '(h, ops) := spine L l in (h, ops ++ [(o, r)]) else (e, [])
  | _ => (e, [])
  end.

Lemma ops_toks_app a b : ops_toks (a ++ b) = ops_toks a ++ ops_toks b.
Proof. unfold ops_toks. apply flat_map_app. Qed.

Lemma spine_render L e : forall h ops, spine L e = (h, ops) -> render e = render h ++ ops_toks ops.
Proof.
  induction e as [p|b p|x p|s0 p|x p|es p|ks vs p|g IHg p|uo u IHu p|o e1 IHe1 e2 IHe2 p|f IHf args p|a IHa i IHi p]; intros h ops H; simpl in H; try (injection H as <- <-; simpl; rewrite ?app_nil_r; reflexivity).
  destruct (Nat.eqb (level_of o) L).
  - destruct (spine L e1) as [h1 ops1] eqn:E1. injection H as <- <-. simpl. rewrite (IHe1 _ _ eq_refl), ops_toks_app. simpl. rewrite app_nil_r, <- app_assoc. reflexivity.
  - injection H as <- <-. simpl. rewrite app_nil_r. reflexivity.
Qed.

Definition efold (a : expr) (ops : list (binop * expr)) : expr := fold_left (fun x '(o, r) => EBin o x (erase r) p0) ops a.
Lemma efold_app a x y : efold a (x ++ y) = efold (efold a x) y.
Proof. unfold efold. apply fold_left_app. Qed.
Lemma spine_erase L e : forall h ops, spine L e = (h, ops) -> erase e = efold (erase h) ops.
Proof.
  induction e as [p|b p|x p|s0 p|x p|es p|ks vs p|g IHg p|uo u IHu p|o e1 IHe1 e2 IHe2 p|f IHf args p|a IHa i IHi p]; intros h ops H; simpl in H; try (injection H as <- <-; reflexivity).
  destruct (Nat.eqb (level_of o) L).
  - destruct (spine L e1) as [h1 ops1] eqn:E1. injection H as <- <-. rewrite efold_app. simpl. rewrite (IHe1 _ _ eq_refl). reflexivity.
  - injection H as <- <-. reflexivity.
Qed.

Lemma wfb_up L e : L <= 5 -> wfb L e = true -> (forall o l r p, e = EBin o l r p -> level_of o <> L) -> wfb (S L) e = true.
Proof.
  intros HL Hw Hne. destruct e as [p|b p|x p|s0 p|x p|es p|ks vs p|g p|uo u p|o e1 e2 p|f args p|a i p]; cbn [wfb] in *; auto.
  - apply andb_true_iff in Hw as [H1 H2]. rewrite H2, andb_true_r. apply Nat.leb_le. lia.
  - apply andb_true_iff in Hw as [Hw H3]. apply andb_true_iff in Hw as [H1 H2]. rewrite H2, H3, !andb_true_r.
    apply Nat.leb_le in H1. apply Nat.leb_le. specialize (Hne o e1 e2 p eq_refl). lia.
  - apply andb_true_iff in Hw as [Hw H3]. apply andb_true_iff in Hw as [H1 H2]. rewrite H2, H3, !andb_true_r. apply Nat.leb_le. lia.
Qed.

Lemma spine_wf L e : L <= 5 -> wfb L e = true -> forall h ops, spine L e = (h, ops) ->
  wfb (S L) h = true /\ Forall (fun or => level_of (fst or) = L /\ wfb (S L) (snd or) = true) ops /\
  size h <= size e /\ Forall (fun or => size (snd or) < size e) ops /\ (ops <> [] -> size h < size e).
Proof.
  intros HL. induction e as [p|b p|x p|s0 p|x p|es p|ks vs p|g IHg p|uo u IHu p|o e1 IHe1 e2 IHe2 p|f IHf args p|a IHa i IHi p]; intros Hw h ops H; simpl in H;
    try (injection H as <- <-; split; [apply wfb_up; auto; intros; discriminate|]; split; [constructor|]; split; [lia|]; split; [constructor|congruence]).
  destruct (Nat.eqb (level_of o) L) eqn:El.
  - apply Nat.eqb_eq in El. destruct (spine L e1) as [h1 ops1] eqn:E1. injection H as <- <-.
    cbn [wfb] in Hw. apply andb_true_iff in Hw as [Hw H3]. apply andb_true_iff in Hw as [H1 H2]. rewrite El in H2, H3.
    destruct (IHe1 H2 _ _ eq_refl) as (A1 & A2 & A3 & A4 & A5).
    split; [exact A1|]. split; [apply Forall_app; split; [exact A2|constructor; [split; assumption|constructor]]|].
    simpl. split; [lia|]. split; [apply Forall_app; split; [eapply Forall_impl; [|exact A4]; intros; simpl in *; lia|constructor; [simpl; lia|constructor]]|].
    intros _. lia.
  - injection H as <- <-. apply Nat.eqb_neq in El. split; [apply wfb_up; auto; intros ? ? ? ? E; injection E as -> _ _ _; exact El|].
    split; [constructor|]. split; [lia|]. split; [constructor|congruence].
Qed.

Lemma pbin_read L ops : L <= 5 -> Forall (fun or => level_of (fst or) = L /\ Pok (S L) (snd or)) ops -> forall acc rest t0,
  rest <> [] -> stop (S L) (t_kind (hd last rest)) = true -> binop_at L (t_kind (hd last rest)) = None ->
  exists n e' t', pbin n L acc (St (ops_toks ops ++ rest) (Some t0)) = Ok (e', St rest (Some t')) /\ erase e' = efold (erase acc) ops.
Proof.
  intros HL. induction ops as [|[o r] ops IH]; intros Hall acc rest t0 Hne Hstop Hno.
  - exists 1, acc, t0. split; [|reflexivity]. simpl. rewrite (hk_rest rest _ Hne), Hno. reflexivity.
  - apply Forall_cons_iff in Hall as [[Hlev Hp] Hrest]. simpl in Hlev, Hp. subst L.
    set (rest1 := ops_toks ops ++ rest).
    assert (Hne1 : rest1 <> []) by (unfold rest1; destruct (ops_toks ops); [exact Hne|discriminate]).
    assert (Hstop1 : stop (S (level_of o)) (t_kind (hd last rest1)) = true).
    { unfold rest1. destruct ops as [|[o2 r2] ops2]; [exact Hstop|]. simpl.
      apply Forall_cons_iff in Hrest as [[Hl2 _] _]. simpl in Hl2. rewrite <- Hl2. apply stop_op_above. }
    destruct (Hp rest1 (Some (tk (op_kind o))) Hne1 Hstop1) as (n1 & r' & t1 & P1 & E1).
    destruct (IH Hrest (EBin o acc r' (tpos t1)) rest t1 Hne Hstop Hno) as (n2 & e' & t2 & P2 & E2).
    set (N := Nat.max n1 n2).
    exists (S N), e', t2. split.
    + cbn [ops_toks flat_map]. rewrite <- app_assoc. cbn [app]. fold (ops_toks ops). fold rest1.
      cbn [pbin]. rewrite hk_cons. cbn [t_kind tk]. rewrite binop_at_op, adv_cons.
      rewrite (proj1 (mono_ge n1 N ltac:(lia)) _ _ _ P1). cbn [bind]. rewrite (pos_prev_ok rest1 t1 Hne1). cbn [bind].
      apply (proj1 (proj2 (mono_ge n2 N ltac:(lia)))). exact P2.
    + rewrite E2. simpl. rewrite E1. reflexivity.
Qed.

(** ** chains of calls f(..)(..) and of indexes x[..][..] *)
Definition call_toks (args : list expr) : list token := tk TLParen :: join_comma (map render args) ++ [tk TRParen].
Definition calls_toks (l : list (list expr)) : list token := flat_map call_toks l.
Definition ecalls (a : expr) (l : list (list expr)) : expr := fold_left (fun x args => ECall x (map erase args) p0) l a.
Fixpoint cspine (e : expr) : expr * list (list expr) :=
  match e with ECall f args _ => let '(h, l) := cspine f in (h, l ++ [args]) | _ => (e, []) end.

Lemma cspine_render e : forall h l, cspine e = (h, l) -> render e = render h ++ calls_toks l.
Proof.
  induction e as [p|b p|x p|s0 p|x p|es p|ks vs p|g IHg p|uo u IHu p|o e1 IHe1 e2 IHe2 p|f IHf args p|a IHa i IHi p]; intros h l H; simpl in H;
    try (injection H as <- <-; simpl; rewrite ?app_nil_r; reflexivity).
  destruct (cspine f) as [h1 l1] eqn:E1. injection H as <- <-. unfold calls_toks. rewrite flat_map_app. simpl.
  rewrite (IHf _ _ eq_refl). unfold calls_toks, call_toks. rewrite app_nil_r, <- app_assoc. reflexivity.
Qed.
Lemma cspine_erase e : forall h l, cspine e = (h, l) -> erase e = ecalls (erase h) l.
Proof.
  induction e as [p|b p|x p|s0 p|x p|es p|ks vs p|g IHg p|uo u IHu p|o e1 IHe1 e2 IHe2 p|f IHf args p|a IHa i IHi p]; intros h l H; simpl in H;
    try (injection H as <- <-; reflexivity).
  destruct (cspine f) as [h1 l1] eqn:E1. injection H as <- <-. unfold ecalls. rewrite fold_left_app. simpl. fold (ecalls (erase h1) l1).
  rewrite <- (IHf _ _ eq_refl). reflexivity.
Qed.
Definition not_call (e : expr) : Prop := forall f args p, e <> ECall f args p.
Lemma cspine_wf e : wfb 7 e = true -> forall h l, cspine e = (h, l) ->
  wfb 7 h = true /\ not_call h /\ Forall (Forall (fun a => wfb 0 a = true /\ size a < size e)) l /\ size h <= size e /\ (l <> [] -> size h < size e).
Proof.
  induction e as [p|b p|x p|s0 p|x p|es p|ks vs p|g IHg p|uo u IHu p|o e1 IHe1 e2 IHe2 p|f IHf args p|a IHa i IHi p]; intros Hw h l H; simpl in H;
    try (injection H as <- <-; split; [exact Hw|]; split; [intros ? ? ?; discriminate|]; split; [constructor|]; split; [lia|congruence]).
  destruct (cspine f) as [h1 l1] eqn:E1. injection H as <- <-.
  cbn [wfb] in Hw. apply andb_true_iff in Hw as [Hw H3]. apply andb_true_iff in Hw as [H1 H2].
  destruct (IHf H2 _ _ eq_refl) as (A1 & A2 & A3 & A4 & A5).
  split; [exact A1|]. split; [exact A2|]. simpl. split.
  - apply Forall_app. split.
    + eapply Forall_impl; [|exact A3]. intros l0 Hl0. eapply Forall_impl; [|exact Hl0]. intros a [B1 B2]. split; [exact B1|lia].
    + constructor; [|constructor]. apply Forall_forall. intros a Ha. rewrite forallb_forall in H3. split; [apply H3; exact Ha|].
      pose proof (size_in a args Ha). lia.
  - split; [lia|intros _; lia].
Qed.

Lemma pcalls_read l : Forall (Forall (fun a => wfb 0 a = true /\ Pok 0 a)) l -> forall acc rest t0,
  rest <> [] -> tk_is (t_kind (hd last rest)) TLParen = false ->
  exists n e' t', pcalls n acc (St (calls_toks l ++ rest) (Some t0)) = Ok (e', St rest (Some t')) /\ erase e' = ecalls (erase acc) l.
Proof.
  induction l as [|args l IH]; intros Hall acc rest t0 Hne Hnp.
  - exists 1, acc, t0. split; [|reflexivity]. simpl. rewrite (hk_rest rest _ Hne). destruct (t_kind (hd last rest)); try reflexivity. discriminate.
  - apply Forall_cons_iff in Hall as [Hargs Hrest].
    set (rest1 := calls_toks l ++ rest).
    assert (Hne1 : rest1 <> []) by (unfold rest1; destruct (calls_toks l); [exact Hne|discriminate]).
    destruct args as [|a args].
    + (* f() *)
      destruct (IH Hrest (ECall acc [] (tpos (tk TLParen))) rest (tk TRParen) Hne Hnp) as (n2 & e' & t2 & P2 & E2).
      exists (S n2), e', t2. split; [|rewrite E2; reflexivity].
      cbn [calls_toks flat_map]. fold (calls_toks l). unfold call_toks. cbn [map join_comma app]. fold rest1.
      cbn [pcalls]. rewrite hk_cons. cbn [t_kind tk]. rewrite adv_cons.
      rewrite (pos_prev_ok _ (tk TLParen)) by discriminate. cbn [bind]. rewrite hk_cons. cbn [t_kind tk bind]. rewrite adv_cons. exact P2.
    + destruct (args_read a args ltac:(intros x Hx; rewrite Forall_forall in Hargs; apply Hargs; exact Hx) rest1 (Some (tk TLParen))) as (n1 & es' & t1 & P1 & E1).
      destruct (IH Hrest (ECall acc es' (tpos (tk TLParen))) rest (tk TRParen) Hne Hnp) as (n2 & e' & t2 & P2 & E2).
      set (N := Nat.max n1 n2).
      exists (S N), e', t2. split; [|rewrite E2; simpl; rewrite E1; reflexivity].
      cbn [calls_toks flat_map]. fold (calls_toks l). unfold call_toks. rewrite <- ?app_assoc. cbn [app]. rewrite <- ?app_assoc. cbn [app]. fold rest1.
      cbn [pcalls]. rewrite hk_cons. cbn [t_kind tk]. rewrite adv_cons.
      assert (Hfirst : exists t r, join_comma (map render (a :: args)) = t :: r /\ t_kind t <> TRParen).
      { apply Forall_cons_iff in Hargs as [[Hwa _] _]. destruct (render_cons a 0 Hwa) as (t & r & Er & (_ & _ & O3) & _).
        destruct args as [|a2 args2]; cbn [map join_comma]; rewrite Er; [exists t, r|exists t, (r ++ tk TComma :: join_comma (map render (a2 :: args2)))]; split; auto. }
      destruct Hfirst as (t & r & Ej & Ht).
      assert (Hpp : pos_prev (St (join_comma (map render (a :: args)) ++ tk TRParen :: rest1) (Some (tk TLParen))) = Ok (tpos (tk TLParen))).
      { apply pos_prev_ok. rewrite Ej. discriminate. }
      rewrite Hpp. cbn [bind].
      assert (Hk : hk (St (join_comma (map render (a :: args)) ++ tk TRParen :: rest1) (Some (tk TLParen))) = t_kind t) by (rewrite Ej; reflexivity).
      rewrite Hk. rewrite (proj1 (proj2 (proj2 (proj2 (mono_ge n1 N ltac:(lia))))) _ _ P1).
      destruct (t_kind t) eqn:Hkt; try (exfalso; apply Ht; reflexivity); cbn [bind]; rewrite adv_cons;
        apply (proj1 (proj2 (proj2 (mono_ge n2 N ltac:(lia))))); exact P2.
Qed.

Definition idx_toks (l : list expr) : list token := flat_map (fun i => tk TLSquare :: render i ++ [tk TRSquare]) l.
Definition eidx (a : expr) (l : list expr) : expr := fold_left (fun x i => EIndex x (erase i) p0) l a.
Fixpoint ispine (e : expr) : expr * list expr :=
  match e with EIndex a i _ => let '(h, l) := ispine a in (h, l ++ [i]) | _ => (e, []) end.

Lemma ispine_facts e : idx_base e = true -> wfb 8 e = true -> forall h l, ispine e = (h, l) ->
  (exists x p, h = EVar x p) /\ render e = render h ++ idx_toks l /\ erase e = eidx (erase h) l /\
  Forall (fun i => wfb 0 i = true /\ size i < size e) l.
Proof.
  induction e as [p|b p|x p|s0 p|x p|es p|ks vs p|g IHg p|uo u IHu p|o e1 IHe1 e2 IHe2 p|f IHf args p|a IHa i IHi p]; intros Hb Hw h l H; simpl in Hb; try discriminate.
  - simpl in H. injection H as <- <-. split; [eauto|]. split; [reflexivity|]. split; [reflexivity|constructor].
  - simpl in H. destruct (ispine a) as [h1 l1] eqn:E1. injection H as <- <-.
    cbn [wfb] in Hw. apply andb_true_iff in Hw as [Hw H3]. apply andb_true_iff in Hw as [H1 H2].
    destruct (IHa Hb H2 _ _ eq_refl) as (A1 & A2 & A3 & A4).
    split; [exact A1|]. split; [|split].
    + simpl. rewrite A2. unfold idx_toks. rewrite flat_map_app. simpl. rewrite app_nil_r, <- app_assoc. reflexivity.
    + simpl. rewrite A3. unfold eidx. rewrite fold_left_app. reflexivity.
    + apply Forall_app. split; [eapply Forall_impl; [|exact A4]; intros x [B1 B2]; split; [exact B1|simpl; lia]|].
      constructor; [split; [exact H3|simpl; lia]|constructor].
Qed.

Lemma pindexes_read l : Forall (fun i => wfb 0 i = true /\ Pok 0 i) l -> forall acc rest t0,
  rest <> [] -> tk_is (t_kind (hd last rest)) TLSquare = false ->
  exists n e' t', pindexes n acc (St (idx_toks l ++ rest) (Some t0)) = Ok (e', St rest (Some t')) /\ erase e' = eidx (erase acc) l.
Proof.
  induction l as [|i l IH]; intros Hall acc rest t0 Hne Hns.
  - exists 1, acc, t0. split; [|reflexivity]. simpl. rewrite (hk_rest rest _ Hne). destruct (t_kind (hd last rest)); try reflexivity. discriminate.
  - apply Forall_cons_iff in Hall as [[Hwi Hpi] Hrest].
    set (rest1 := idx_toks l ++ rest).
    assert (Hne1 : rest1 <> []) by (unfold rest1; destruct (idx_toks l); [exact Hne|discriminate]).
    destruct (Hpi (tk TRSquare :: rest1) (Some (tk TLSquare)) ltac:(discriminate) eq_refl) as (n1 & i' & t1 & P1 & E1).
    destruct (IH Hrest (EIndex acc i' (tpos (tk TLSquare))) rest (tk TRSquare) Hne Hns) as (n2 & e' & t2 & P2 & E2).
    set (N := Nat.max n1 n2).
    exists (S N), e', t2. split; [|rewrite E2; simpl; rewrite E1; reflexivity].
    cbn [idx_toks flat_map]. fold (idx_toks l). rewrite <- ?app_assoc. cbn [app]. rewrite <- ?app_assoc. cbn [app]. fold rest1.
    cbn [pindexes]. rewrite hk_cons. cbn [t_kind tk]. rewrite adv_cons.
    rewrite (proj1 (mono_ge n1 N ltac:(lia)) _ _ _ P1). cbn [bind]. rewrite hk_cons. cbn [t_kind tk]. rewrite adv_cons.
    rewrite (pos_tok_ok rest1 _ _ Hne1). cbn [bind].
    destruct (mono_ge n2 N ltac:(lia)) as (_ & _ & _ & _ & _ & _ & M7 & _). apply M7. exact P2.
Qed.

(** ** primary forms *)
Definition is_prim (e : expr) : bool :=
  match e with ENil _ | EUn _ _ _ | EBin _ _ _ _ | ECall _ _ _ => false | _ => true end.

Lemma wfb_prim_any a b e : is_prim e = true -> wfb a e = wfb b e.
Proof. destruct e; simpl; try discriminate; reflexivity. Qed.

Lemma stop_flags lvl k : stop lvl k = true -> tk_is k TLParen = false /\ tk_is k TLSquare = false.
Proof.
  unfold stop. intros H. apply andb_true_iff in H as [H H3]. apply andb_true_iff in H as [_ H2].
  apply Bool.negb_true_iff in H2. apply Bool.negb_true_iff in H3. auto.
Qed.

Section Main.
Variable e : expr.
Hypothesis IH : forall e', size e' < size e -> forall lvl', lvl' <= 8 -> wfb lvl' e' = true -> Pok lvl' e'.

Lemma prim_reads e0 : size e0 <= size e -> is_prim e0 = true -> wfb 8 e0 = true -> forall rest prev, rest <> [] ->
  (idx_base e0 = true -> tk_is (t_kind (hd last rest)) TLSquare = false) -> reads pprimary e0 rest prev.
Proof.
  intros Hs Hp Hw rest prev Hne Hsq.
  destruct e0 as [p|b p|x p|s0 p|x p|es p|ks vs p|g p|uo u p|o e1 e2 p|f args p|a i p]; simpl in Hp; try discriminate.
  - exists 1, (EBool b (tpos (tk (TBool b)))), (tk (TBool b)). split; [|reflexivity]. cbn [render app pprimary]. rewrite hk_cons. cbn [t_kind tk]. rewrite adv_cons, (pos_prev_ok rest _ Hne). reflexivity.
  - exists 1, (ENum x (tpos (tk (TNum x)))), (tk (TNum x)). split; [|reflexivity]. cbn [render app pprimary]. rewrite hk_cons. cbn [t_kind tk]. rewrite adv_cons, (pos_prev_ok rest _ Hne). reflexivity.
  - exists 1, (EStr s0 (tpos (tk (TStr s0)))), (tk (TStr s0)). split; [|reflexivity]. cbn [render app pprimary]. rewrite hk_cons. cbn [t_kind tk]. rewrite adv_cons, (pos_prev_ok rest _ Hne). reflexivity.
  - (* variable *)
    exists 2, (EVar x (tpos (tid x))), (tid x). split; [|reflexivity]. cbn [render app pprimary]. rewrite hk_cons. cbn [t_kind tid bind pos_tok at_end ps_rest]. rewrite adv_cons.
    cbn [pindexes]. rewrite (hk_rest rest _ Hne). specialize (Hsq eq_refl). destruct (t_kind (hd last rest)); try reflexivity. discriminate.
  - (* list literal *)
    cbn [wfb] in Hw. rewrite forallb_forall in Hw.
    destruct (items_read es (fun e1 H1 => conj (Hw e1 H1) (IH e1 ltac:(pose proof (size_in e1 es H1); simpl in Hs; lia) 0 ltac:(lia) (Hw e1 H1))) rest (Some (tk TLSquare)))
      as (n1 & es' & prev1 & P1 & E1).
    exists (S n1), (EList es' (tpos (tk TLSquare))), (tk TRSquare). split; [|simpl; rewrite E1; reflexivity].
    cbn [render app]. rewrite <- app_assoc. cbn [app pprimary]. rewrite hk_cons. cbn [t_kind tk]. rewrite adv_cons, P1. cbn [bind].
    rewrite adv_cons. rewrite (pos_tok_ok rest _ _ Hne). reflexivity.
  - (* record literal *)
    cbn [wfb] in Hw. apply andb_true_iff in Hw as [Hw H3]. apply andb_true_iff in Hw as [H1 H2]. apply Nat.eqb_eq in H1.
    rewrite forallb_forall in H2, H3.
    assert (Hall : forall e1, In e1 ks \/ In e1 vs -> wfb 0 e1 = true /\ Pok 0 e1).
    { intros e1 [Hin|Hin]; (split; [auto|apply IH; auto; try lia]).
      - pose proof (size_in e1 ks Hin). simpl in Hs. lia.
      - pose proof (size_in e1 vs Hin). simpl in Hs. lia. }
    destruct (entries_read ks vs H1 Hall rest (Some (tk TLCurly))) as (n1 & ks' & vs' & prev1 & P1 & E1 & E2).
    exists (S n1), (ERec ks' vs' (tpos (tk TAt))), (tk TRCurly). split; [|simpl; rewrite E1, E2; reflexivity].
    cbn [render app]. rewrite <- app_assoc. cbn [app pprimary]. rewrite hk_cons. cbn [t_kind tk]. rewrite adv_cons, hk_cons. cbn [t_kind tk]. rewrite adv_cons, P1. cbn [bind].
    rewrite adv_cons. rewrite (pos_tok_ok rest _ _ Hne). reflexivity.
  - (* group *)
    cbn [wfb] in Hw.
    destruct (IH g ltac:(simpl in Hs; lia) 0 ltac:(lia) Hw (tk TRParen :: rest) (Some (tk TLParen)) ltac:(discriminate) eq_refl) as (n1 & g' & t1 & P1 & E1).
    exists (S n1), (EGroup g' (tpos (tk TLParen))), (tk TRParen). split; [|simpl; rewrite E1; reflexivity].
    cbn [render app]. rewrite <- app_assoc. cbn [app pprimary]. rewrite hk_cons. cbn [t_kind tk]. rewrite adv_cons, P1. cbn [bind].
    rewrite adv_cons. rewrite (pos_tok_ok rest _ _ Hne). reflexivity.
  - (* index chain *)
    assert (Hb : idx_base (EIndex a i p) = true) by (cbn [wfb] in Hw; apply andb_true_iff in Hw as [Hw _]; apply andb_true_iff in Hw as [Hw _]; exact Hw).
    destruct (ispine (EIndex a i p)) as [h l] eqn:Esp.
    destruct (ispine_facts _ Hb Hw _ _ Esp) as ((x & px & ->) & Er & Ee & Hl).
    assert (Hall : Forall (fun i0 => wfb 0 i0 = true /\ Pok 0 i0) l).
    { eapply Forall_impl; [|exact Hl]. intros i0 [B1 B2]. split; [exact B1|apply IH; [lia|lia|exact B1]]. }
    destruct (pindexes_read l Hall (EVar x (tpos (tid x))) rest (tid x) Hne (Hsq Hb)) as (n1 & e' & t1 & P1 & E1).
    exists (S n1), e', t1. split; [|rewrite E1, Ee; reflexivity].
    rewrite Er. cbn [render app]. cbn [pprimary]. rewrite hk_cons. cbn [t_kind tid bind pos_tok at_end ps_rest]. rewrite adv_cons. exact P1.
Qed.

(* the call level: a primary followed by any number of argument lists *)
Lemma level7_reads e0 : size e0 <= size e -> wfb 7 e0 = true -> forall rest prev, rest <> [] ->
  tk_is (t_kind (hd last rest)) TLParen = false -> tk_is (t_kind (hd last rest)) TLSquare = false ->
  reads (fun n => pexpr n 7) e0 rest prev.
Proof.
  intros Hs Hw rest prev Hne Hnp Hsq.
  destruct (cspine e0) as [h l] eqn:Esp.
  destruct (cspine_wf e0 Hw h l Esp) as (Hwh & Hnc & Hl & Hsh & _).
  assert (Hprim : is_prim h = true).
  { destruct h as [p|b p|x p|s0 p|x p|es p|ks vs p|g p|uo u p|o e1 e2 p|f args p|a i p]; try reflexivity.
    - cbn [wfb] in Hwh. discriminate.
    - cbn [wfb] in Hwh. apply andb_true_iff in Hwh as [A _]. simpl in A. discriminate.
    - cbn [wfb] in Hwh. apply andb_true_iff in Hwh as [A _]. apply andb_true_iff in A as [A _]. destruct o; simpl in A; discriminate.
    - exfalso. eapply Hnc. reflexivity. }
  assert (Hall : Forall (Forall (fun a => wfb 0 a = true /\ Pok 0 a)) l).
  { eapply Forall_impl; [|exact Hl]. intros args Ha. eapply Forall_impl; [|exact Ha]. intros a [B1 B2]. split; [exact B1|apply IH; [lia|lia|exact B1]]. }
  set (rest1 := calls_toks l ++ rest).
  assert (Hne1 : rest1 <> []) by (unfold rest1; destruct (calls_toks l); [exact Hne|discriminate]).
  assert (Hsq1 : tk_is (t_kind (hd last rest1)) TLSquare = false).
  { unfold rest1. destruct l as [|a l']; [exact Hsq|reflexivity]. }
  rewrite (wfb_prim_any 7 8 h Hprim) in Hwh.
  destruct (prim_reads h ltac:(lia) Hprim Hwh rest1 prev Hne1 (fun _ => Hsq1)) as (n1 & h' & t1 & P1 & E1).
  destruct (pcalls_read l Hall h' rest t1 Hne Hnp) as (n2 & e' & t2 & P2 & E2).
  set (N := Nat.max n1 n2).
  exists (S (S N)), e', t2. split; [|rewrite E2, E1; symmetry; apply cspine_erase; exact Esp].
  rewrite (cspine_render e0 h l Esp), <- app_assoc. fold rest1.
  change (pexpr (S (S N)) 7 (St (render h ++ rest1) prev)) with
    (do '(e1, s1) <- pexpr (S N) 8 (St (render h ++ rest1) prev); pcalls (S N) e1 s1).
  change (pexpr (S N) 8 (St (render h ++ rest1) prev)) with (pprimary N (St (render h ++ rest1) prev)).
  destruct (mono_ge n1 N ltac:(lia)) as (_ & _ & _ & _ & _ & _ & _ & M8). rewrite (M8 _ _ P1). cbn [bind].
  destruct (mono_ge n2 (S N) ltac:(lia)) as (_ & _ & M3 & _). apply M3. exact P2.
Qed.

Lemma wfb_call_7 lvl f args p : wfb lvl (ECall f args p) = true -> wfb 7 (ECall f args p) = true.
Proof. cbn [wfb]. intros H. apply andb_true_iff in H as [H H3]. apply andb_true_iff in H as [_ H2]. rewrite H2, H3. reflexivity. Qed.

(* primary and call forms at any level *)
Lemma tight_reads lvl : lvl <= 7 -> wfb 7 e = true -> Pok lvl e.
Proof.
  intros Hl Hw rest prev Hne Hstop.
  destruct (stop_flags _ _ Hstop) as [Hnp Hsq].
  destruct (level7_reads e ltac:(lia) Hw rest prev Hne Hnp Hsq) as (n1 & e' & t1 & P1 & E1).
  destruct (render_cons e 7 Hw) as (t & r & Er & _ & Hun).
  destruct (descend_from_7 lvl n1 _ e' _ Hl P1) as (n2 & P2).
  - intros o. rewrite Er. cbn [app]. rewrite hk_cons. apply Hun. lia.
  - intros l0 H1 H2. rewrite (hk_rest rest _ Hne). eapply stop_binop; eauto.
  - exists n2, e', t1. split; assumption.
Qed.

Lemma prim_at_8 : is_prim e = true -> wfb 8 e = true -> Pok 8 e.
Proof.
  intros Hp Hw rest prev Hne Hstop. destruct (stop_flags _ _ Hstop) as [_ Hsq].
  destruct (prim_reads e ltac:(lia) Hp Hw rest prev Hne (fun _ => Hsq)) as (n1 & e' & t1 & P1 & E1).
  exists (S n1), e', t1. split; [exact P1|exact E1].
Qed.

Theorem reads_back lvl : lvl <= 8 -> wfb lvl e = true -> Pok lvl e.
Proof.
  intros Hl8 Hw.
  assert (Hprimcase : is_prim e = true -> Pok lvl e).
  { intros Hp. destruct (Nat.eq_dec lvl 8) as [->|Hne8]; [apply prim_at_8; auto|].
    apply tight_reads; [lia|]. rewrite (wfb_prim_any 7 lvl e Hp). exact Hw. }
  destruct e as [p|b p|x p|s0 p|x p|es p|ks vs p|g p|uo u p|o e1 e2 p|f args p|a i p] eqn:Ee; try (apply Hprimcase; reflexivity).
  - simpl in Hw. discriminate.
  - (* unary *)
    rewrite <- Ee in *. subst e. cbn [wfb] in Hw. apply andb_true_iff in Hw as [H1 H2]. apply Nat.leb_le in H1.
    intros rest prev Hne Hstop.
    destruct (IH u ltac:(simpl; lia) 6 ltac:(lia) H2 rest (Some (tk (un_kind uo))) Hne (stop_le lvl 6 _ H1 Hstop)) as (n1 & u' & t1 & P1 & E1).
    assert (P6 : pexpr (S n1) 6 (St (render (EUn uo u p) ++ rest) prev) = Ok (EUn uo u' (tpos (tk (un_kind uo))), St rest (Some t1))).
    { cbn [render app pexpr]. rewrite hk_cons. cbn [t_kind tk]. rewrite pos_here_cons, adv_cons. destruct uo; cbn [un_kind] in *; cbn [bind]; rewrite P1; reflexivity. }
    destruct (descend_from_6 lvl _ _ _ _ H1 P6) as (n2 & P2).
    { intros l0 A B. rewrite (hk_rest rest _ Hne). eapply stop_binop; eauto. }
    exists n2, (EUn uo u' (tpos (tk (un_kind uo)))), t1. split; [exact P2|simpl; rewrite E1; reflexivity].
  - (* binary *)
    rewrite <- Ee in *. set (L := level_of o).
    assert (HL : L <= 5) by (unfold L; destruct o; simpl; lia).
    assert (HwL : wfb L e = true).
    { subst e. cbn [wfb] in *. apply andb_true_iff in Hw as [Hw H3]. apply andb_true_iff in Hw as [H1 H2]. fold L in H2, H3 |- *. rewrite H2, H3, Nat.leb_refl. reflexivity. }
    assert (HlvlL : lvl <= L) by (subst e; cbn [wfb] in Hw; apply andb_true_iff in Hw as [Hw _]; apply andb_true_iff in Hw as [Hw _]; apply Nat.leb_le in Hw; exact Hw).
    destruct (spine L e) as [h ops] eqn:Esp.
    destruct (spine_wf L e HL HwL h ops Esp) as (Hwh & Hops & Hsh & Hsr & Hlt).
    assert (Hops_ne : ops <> []).
    { subst e. simpl in Esp. unfold L in Esp. rewrite Nat.eqb_refl in Esp. destruct (spine (level_of o) e1). injection Esp as _ <-. destruct l; discriminate. }
    intros rest prev Hne Hstop.
    set (rest1 := ops_toks ops ++ rest).
    assert (Hne1 : rest1 <> []) by (unfold rest1; destruct (ops_toks ops); [exact Hne|discriminate]).
    assert (Hstop1 : stop (S L) (t_kind (hd last rest1)) = true).
    { unfold rest1. destruct ops as [|[o2 r2] ops2]; [congruence|]. apply Forall_cons_iff in Hops as [[Hl2 _] _]. simpl in Hl2. simpl. rewrite <- Hl2. apply stop_op_above. }
    destruct (IH h (Hlt Hops_ne) (S L) ltac:(lia) Hwh rest1 prev Hne1 Hstop1) as (n1 & h' & t1 & P1 & E1).
    assert (Hall : Forall (fun or => level_of (fst or) = L /\ Pok (S L) (snd or)) ops).
    { rewrite Forall_forall in *. intros or Hin. destruct (Hops or Hin) as [A B]. split; [exact A|]. apply IH; [apply Hsr; exact Hin|lia|exact B]. }
    destruct (pbin_read L ops HL Hall h' rest t1 Hne (stop_le lvl (S L) _ ltac:(lia) Hstop)) as (n2 & e' & t2 & P2 & E2).
    { rewrite <- (hk_rest rest prev Hne). rewrite (hk_rest rest _ Hne). eapply stop_binop; eauto. }
    set (N := Nat.max n1 n2).
    assert (PL : pexpr (S N) L (St (render e ++ rest) prev) = Ok (e', St rest (Some t2))).
    { rewrite (spine_render L e h ops Esp), <- app_assoc. fold rest1.
      assert (Eq : pexpr (S N) L (St (render h ++ rest1) prev) = (do '(x, s1) <- pexpr N (S L) (St (render h ++ rest1) prev); pbin N L x s1)).
      { do 6 (destruct L as [|L]; [reflexivity|]). lia. }
      rewrite Eq. rewrite (proj1 (mono_ge n1 N ltac:(lia)) _ _ _ P1). cbn [bind].
      apply (proj1 (proj2 (mono_ge n2 N ltac:(lia)))). exact P2. }
    destruct (descend_bin (L - lvl) L lvl (S N) _ e' _ ltac:(lia) ltac:(lia) PL) as (n3 & P3).
    { intros l0 A B. rewrite (hk_rest rest _ Hne). eapply stop_binop; eauto. }
    exists n3, e', t2. split; [exact P3|]. rewrite E2, E1. symmetry. apply (spine_erase L e h ops Esp).
  - (* call *)
    rewrite <- Ee in *. assert (H7 : wfb 7 e = true) by (subst e; eapply wfb_call_7; eauto).
    apply tight_reads; [|exact H7]. subst e. cbn [wfb] in Hw. apply andb_true_iff in Hw as [Hw _]. apply andb_true_iff in Hw as [Hw _]. apply Nat.leb_le in Hw. exact Hw.
Qed.
End Main.

(** ** the theorem, for every tree *)
Theorem parse_render_round_trip : forall n e, size e <= n -> forall lvl, lvl <= 8 -> wfb lvl e = true -> Pok lvl e.
Proof.
  induction n as [|n IHn]; intros e Hs lvl Hl Hw; [pose proof (size_pos e); lia|].
  apply reads_back; auto. intros e' Hlt lvl' Hl' Hw'. apply IHn; auto. lia.
Qed.
End RoundTrip.

(** ** every tree: insert the parentheses precedence requires, render, parse -- the tree comes back *)
Definition wrap_if (c : bool) (e : expr) : expr := if c then e else EGroup e p0.
Fixpoint paren (lvl : nat) (e : expr) : expr :=
  match e with
  | EBin o l r p => wrap_if (lvl <=? level_of o) (EBin o (paren (level_of o) l) (paren (S (level_of o)) r) p)
  | EUn o u p => wrap_if (lvl <=? 6) (EUn o (paren 6 u) p)
  | ECall f args p => wrap_if (lvl <=? 7) (ECall (paren 7 f) (map (paren 0) args) p)
  | EGroup g p => EGroup (paren 0 g) p
  | EList es p => EList (map (paren 0) es) p
  | ERec ks vs p => ERec (map (paren 0) ks) (map (paren 0) vs) p
  | EIndex a i p => EIndex (paren 8 a) (paren 0 i) p
  | _ => e
  end.

(* Group nodes removed *)
Fixpoint ungroup (e : expr) : expr :=
  match e with
  | EGroup g _ => ungroup g
  | EBin o l r p => EBin o (ungroup l) (ungroup r) p
  | EUn o u p => EUn o (ungroup u) p
  | ECall f args p => ECall (ungroup f) (map ungroup args) p
  | EList es p => EList (map ungroup es) p
  | ERec ks vs p => ERec (map ungroup ks) (map ungroup vs) p
  | EIndex a i p => EIndex (ungroup a) (ungroup i) p
  | _ => e
  end.

(* the trees the grammar can express: no nil literal, index bases are (indexed) variables, as many values as keys *)
Fixpoint shape_ok (e : expr) : bool :=
  match e with
  | ENil _ => false
  | EBool _ _ | ENum _ _ | EStr _ _ | EVar _ _ => true
  | EList es _ => forallb shape_ok es
  | ERec ks vs _ => Nat.eqb (length ks) (length vs) && forallb shape_ok ks && forallb shape_ok vs
  | EGroup g _ => shape_ok g
  | EUn _ u _ => shape_ok u
  | EBin _ l r _ => shape_ok l && shape_ok r
  | ECall f args _ => shape_ok f && forallb shape_ok args
  | EIndex a i _ => idx_base a && shape_ok a && shape_ok i
  end.

Lemma map_ext_in' {A B} (f g : A -> B) l : (forall a, In a l -> f a = g a) -> map f l = map g l.
Proof. induction l; simpl; intros H; [reflexivity|]. rewrite (H a (or_introl eq_refl)), IHl; auto. Qed.

Lemma paren_ungroup : forall e lvl, ungroup (paren lvl e) = ungroup e.
Proof.
  fix IH 1. intros e lvl.
  assert (L : forall l0 es, map ungroup (map (paren l0) es) = map ungroup es).
  { intros l0. induction es as [|a es IHes]; simpl; [reflexivity|]. rewrite (IH a l0), IHes. reflexivity. }
  destruct e; simpl; try reflexivity; unfold wrap_if; try (destruct (lvl <=? _)); simpl; rewrite ?L, ?IH; reflexivity.
Qed.

Lemma idx_base_paren a : idx_base a = true -> idx_base (paren 8 a) = true.
Proof. induction a; simpl; try discriminate; auto. Qed.

Lemma paren_wf : forall e lvl, lvl <= 8 -> shape_ok e = true -> wfb lvl (paren lvl e) = true.
Proof.
  fix IH 1. intros e lvl Hl Hs.
  assert (L : forall es, forallb shape_ok es = true -> forallb (wfb 0) (map (paren 0) es) = true).
  { induction es as [|a es IHes]; simpl; [reflexivity|]. intros H. apply andb_true_iff in H as [H1 H2]. rewrite (IH a 0 ltac:(lia) H1), (IHes H2). reflexivity. }
  destruct e as [p|b p|x p|s0 p|x p|es p|ks vs p|g p|uo u p|o e1 e2 p|f args p|a i p]; simpl in Hs; try discriminate; cbn [paren]; try reflexivity.
  - cbn [wfb]. apply L. exact Hs.
  - apply andb_true_iff in Hs as [Hs H3]. apply andb_true_iff in Hs as [H1 H2]. cbn [wfb]. rewrite !map_length, H1, (L ks H2), (L vs H3). reflexivity.
  - cbn [wfb]. apply IH; [lia|exact Hs].
  - unfold wrap_if. destruct (lvl <=? 6) eqn:E; cbn [wfb]; rewrite ?E; rewrite (IH u 6 ltac:(lia) Hs); reflexivity.
  - apply andb_true_iff in Hs as [H1 H2]. unfold wrap_if.
    assert (A : level_of o <= 8) by (destruct o; simpl; lia). assert (B : S (level_of o) <= 8) by (destruct o; simpl; lia).
    destruct (lvl <=? level_of o) eqn:E; cbn [wfb]; rewrite ?E, ?Nat.leb_refl; rewrite (IH e1 _ A H1), (IH e2 _ B H2); reflexivity.
  - apply andb_true_iff in Hs as [H1 H2]. unfold wrap_if.
    destruct (lvl <=? 7) eqn:E; cbn [wfb]; rewrite ?E; rewrite (IH f 7 ltac:(lia) H1), (L args H2); reflexivity.
  - apply andb_true_iff in Hs as [Hs H3]. apply andb_true_iff in Hs as [H1 H2]. cbn [wfb].
    rewrite (idx_base_paren a H1), (IH a 8 ltac:(lia) H2), (IH i 0 ltac:(lia) H3). reflexivity.
Qed.

Theorem every_tree_reads_back e rest prev last mods : shape_ok e = true -> rest <> [] -> stop 0 (t_kind (hd last rest)) = true ->
  exists n e' t', expression n (mkPs (render (paren 0 e) ++ rest) prev last mods) = Ok (e', mkPs rest (Some t') last mods) /\
                  ungroup (erase e') = ungroup (erase e).
Proof.
  intros Hs Hne Hstop.
  destruct (parse_render_round_trip last mods (size (paren 0 e)) (paren 0 e) (le_n _) 0 ltac:(lia) (paren_wf e 0 ltac:(lia) Hs) rest prev Hne Hstop) as (n & e' & t' & P & E).
  exists n, e', t'. split; [exact P|]. rewrite E.
  assert (C : forall x, ungroup (erase x) = erase (ungroup x)).
  { fix IH 1. intros x.
    assert (L : forall es, map ungroup (map erase es) = map erase (map ungroup es)).
    { induction es as [|a es IHes]; simpl; [reflexivity|]. rewrite (IH a), IHes. reflexivity. }
    destruct x; simpl; rewrite ?L, ?IH; reflexivity. }
  rewrite !C, paren_ungroup. reflexivity.
Qed.
