(** The end marker is the last token of every tokenizer result and occurs nowhere else; what the module loader
    inserts for a module is therefore the renamed token list without its last element. *)
From Pakhi Require Import Base Float64 Syntax Tables Lexer Parser.
From Pakhi.Proofs Require Import TableFacts LexTotal ParseTotal.
From Coq Require Import Lia.
Local Open Scope nat_scope.

Definition not_eot (t : token) : Prop := tk_is (t_kind t) TEOT = false.

Lemma plain_not_eot k : plain_kind k = true -> tk_is k TEOT = false.
Proof. destruct k; simpl; intros H; try reflexivity; discriminate H. Qed.

Local Opaque lexer_digits single_ops double_ops keywords numeric_ranges minus_binary_after ident_extra_chars.

Lemma consume_not_eot rest line file prev tk n l : consume rest line file prev = Ok (Some tk, n, l) -> not_eot tk.
Proof.
  unfold consume, not_eot. destruct rest as [|c r]; [discriminate|].
  destruct (orb _ _).
  { destruct (orb (is_numeric c) _).
    - destruct (consume_num (c :: r) line file) as [[v k]| | |]; cbn [bind]; try discriminate. intros H; injection H as <- _ _. reflexivity.
    - destruct (match r with d :: _ => N.eqb d c_gt | [] => false end); intros H; injection H as <- _ _; reflexivity. }
  destruct (assoc_N c single_ops) as [k|] eqn:Es.
  { intros H; injection H as <- _ _. cbn [t_kind tok]. apply plain_not_eot.
    apply assoc_N_In in Es. destruct tables_plain_kinds_split as (T & _ & _). rewrite forallb_forall in T. exact (T _ Es). }
  destruct (assoc_N c double_ops) as [[[d k2] k1]|] eqn:Ed.
  { apply assoc_N_In in Ed. destruct tables_plain_kinds_split as (_ & T & _). rewrite forallb_forall in T. specialize (T _ Ed).
    cbn [snd fst] in T. apply andb_true_iff in T as [T2 T1].
    destruct (match r with x :: _ => N.eqb x d | [] => false end); intros H; injection H as <- _ _; cbn [t_kind tok]; apply plain_not_eot; assumption. }
  destruct (N.eqb c c_hash).
  { destruct (comment_scan _ r) as [[m l0]|]; [|discriminate]. intros H; injection H as <- _ _. reflexivity. }
  destruct (N.eqb c c_quote).
  { destruct (string_scan r) as [s closed]. destruct closed; [|discriminate]. intros H; injection H as <- _ _. reflexivity. }
  destruct (mem_N c _); [discriminate|].
  destruct (N.eqb c c_newline); [discriminate|].
  destruct (ident_scan (c :: r)) as [|i id]; [discriminate|].
  destruct (assoc_text (i :: id) keywords) as [k|] eqn:Ek; intros H; injection H as <- _ _; cbn [t_kind tok]; [|reflexivity].
  apply plain_not_eot. apply assoc_text_In in Ek. destruct tables_plain_kinds_split as (_ & _ & T). rewrite forallb_forall in T. exact (T _ Ek).
Qed.

Lemma lex_loop_body fuel : forall rest pos line file prev ts,
  lex_loop fuel rest pos line file prev = Ok ts -> exists body, map fst ts = body ++ [eot file] /\ Forall not_eot body.
Proof.
  induction fuel as [|f IH]; intros rest pos line file prev ts H.
  - destruct rest; simpl in H; [|discriminate]. injection H as <-. exists []. split; [reflexivity|constructor].
  - destruct rest as [|c r]; [simpl in H; injection H as <-; exists []; split; [reflexivity|constructor]|].
    cbn [lex_loop] in H.
    destruct (consume (c :: r) line file prev) as [[[t n] l]| | |] eqn:Ec; cbn [bind] in H; try discriminate.
    destruct t as [tk|]; [|eapply IH; exact H].
    destruct (lex_loop f _ _ _ _ _) as [ts0| | |] eqn:E; cbn [bind] in H; try discriminate. injection H as <-.
    destruct (IH _ _ _ _ _ ts0 E) as (body & Hb & Hf). exists (tk :: body). cbn [map fst]. rewrite Hb. split; [reflexivity|].
    constructor; [eapply consume_not_eot; exact Ec|exact Hf].
Qed.

Theorem tokenize_body src file toks : tokenize src file = Ok toks ->
  exists body, toks = body ++ [eot file] /\ Forall not_eot body /\ length body <= length src.
Proof.
  intros H. pose proof (lexer_total src file) as Ht. rewrite H in Ht.
  unfold tokenize, tokenize_spans in H.
  destruct (lex_loop _ src 0 1%N file None) as [ts| | |] eqn:E; cbn [bind] in H; try discriminate. injection H as <-.
  destruct (lex_loop_body _ _ _ _ _ _ _ E) as (body & Hb & Hf). exists body. split; [exact Hb|]. split; [exact Hf|].
  rewrite Hb, app_length in Ht. cbn [length] in Ht. lia.
Qed.

(* renaming keeps kinds, [_ডাইরেক্টরি] expansion turns identifiers into strings: neither makes or removes an end marker *)
Lemma prepend_names_app a b alias flag :
  prepend_names (a ++ b) alias flag =
  prepend_names a alias flag ++ prepend_names b alias (match a with [] => flag | _ => tk_is (t_kind (last a (eot []))) TImport end).
Proof.
  revert flag. induction a as [|t a IH]; intros flag; [reflexivity|].
  cbn [app prepend_names]. rewrite IH. f_equal. f_equal. destruct a as [|u a]; [reflexivity|]. reflexivity.
Qed.

Lemma prepend_names_kinds ts alias : forall flag, map t_kind (prepend_names ts alias flag) = map t_kind ts.
Proof.
  induction ts as [|t r IH]; intros flag; [reflexivity|]. cbn [prepend_names map]. rewrite IH. f_equal.
  destruct (tk_is (t_kind t) TIdent); [|reflexivity]. destruct (negb flag && _); reflexivity.
Qed.

Lemma prepend_names_length ts alias : forall flag, length (prepend_names ts alias flag) = length ts.
Proof. intros flag. rewrite <- (map_length t_kind), prepend_names_kinds, map_length. reflexivity. Qed.

Lemma filter_all {A} (p : A -> bool) l : Forall (fun x => p x = true) l -> filter p l = l.
Proof. induction 1 as [|x l Hx _ IH]; [reflexivity|]. cbn [filter]. rewrite Hx, IH. reflexivity. Qed.

Lemma Forall_kinds (P : tkind -> Prop) a b : map t_kind a = map t_kind b -> Forall (fun t => P (t_kind t)) b -> Forall (fun t => P (t_kind t)) a.
Proof.
  revert b. induction a as [|t a IH]; intros [|u b] Hm Hf; try discriminate; [constructor|].
  cbn [map] in Hm. injection Hm as Hk Hm. inversion Hf; subst. constructor; [rewrite Hk; assumption|eapply IH; eassumption].
Qed.

(* what an accepted import inserts: the renamed tokens of the module's text, all of them but the end marker *)
Theorem inserted_tokens cwd src file toks toks' alias :
  tokenize src file = Ok toks -> expand_dirname cwd toks file = Ok toks' ->
  exists body', length body' <= length src /\
    filter (fun t => negb (tk_is (t_kind t) TEOT)) (prepend_names toks' alias false) = prepend_names body' alias false.
Proof.
  intros Ht Hx. destruct (tokenize_body src file toks Ht) as (body & -> & Hf & Hl).
  assert (Hshape : exists g, toks' = map g (body ++ [eot file]) /\ g (eot file) = eot file /\ forall t, not_eot t -> not_eot (g t)).
  { unfold expand_dirname in Hx. destruct (existsb _ _).
    - destruct (dir_string cwd file) as [dd| | |]; cbn [bind] in Hx; try discriminate. injection Hx as <-.
      eexists. split; [reflexivity|]. split; [reflexivity|]. intros t Hn. cbv beta.
      destruct (tk_is (t_kind t) TIdent && text_eqb (t_lexeme t) dirname_const); [reflexivity|exact Hn].
    - injection Hx as <-. exists (fun t => t). split; [symmetry; apply map_id|]. split; [reflexivity|auto]. }
  destruct Hshape as (g & -> & Hge & Hgn). rewrite map_app. cbn [map]. rewrite Hge.
  exists (map g body). split; [rewrite map_length; exact Hl|].
  rewrite prepend_names_app, filter_app.
  assert (E1 : filter (fun t => negb (tk_is (t_kind t) TEOT)) (prepend_names (map g body) alias false) = prepend_names (map g body) alias false).
  { apply filter_all. apply (Forall_kinds (fun k => negb (tk_is k TEOT) = true) _ (map g body)); [apply prepend_names_kinds|].
    apply Forall_map. eapply Forall_impl; [|exact Hf]. intros t Hn. cbv beta. rewrite (Hgn t Hn). reflexivity. }
  rewrite E1. cbn [prepend_names]. change (tk_is (t_kind (eot file)) TIdent) with false. cbv iota. cbn [filter t_kind eot].
  change (negb (tk_is TEOT TEOT)) with false. cbv iota. apply app_nil_r.
Qed.
