(** Association lists as HashMaps: get / set laws used by scopes, records and the file map. *)
From Pakhi Require Import Base Float64 Syntax Tables Lexer Interp.
From Coq Require Import Lia.

Lemma text_eqb_sym a b : text_eqb a b = text_eqb b a.
Proof.
  destruct (text_eqb a b) eqn:E.
  - apply text_eqb_eq in E. subst. symmetry. apply text_eqb_refl.
  - destruct (text_eqb b a) eqn:E2; auto. apply text_eqb_eq in E2. subst. rewrite text_eqb_refl in E. discriminate.
Qed.

Lemma text_eqb_neq a b : a <> b -> text_eqb a b = false.
Proof. intros H. destruct (text_eqb a b) eqn:E; auto. apply text_eqb_eq in E. contradiction. Qed.

Lemma alist_get_set_same {A} k (v : A) l : alist_get k (alist_set k v l) = Some v.
Proof.
  induction l as [|[k' v'] l IH]; simpl.
  - rewrite text_eqb_refl. reflexivity.
  - destruct (text_eqb k k') eqn:E; simpl.
    + rewrite text_eqb_refl. reflexivity.
    + rewrite E. exact IH.
Qed.

Lemma alist_get_set_other {A} k k' (v : A) l : k' <> k -> alist_get k' (alist_set k v l) = alist_get k' l.
Proof.
  intros Hne. induction l as [|[k2 v2] l IH]; simpl.
  - rewrite (text_eqb_neq k' k Hne). reflexivity.
  - destruct (text_eqb k k2) eqn:E; simpl.
    + apply text_eqb_eq in E. subst k2. rewrite (text_eqb_neq k' k Hne). reflexivity.
    + destruct (text_eqb k' k2); auto.
Qed.

Lemma alist_has_set_same {A} k (v : A) l : alist_has k (alist_set k v l) = true.
Proof. unfold alist_has. rewrite alist_get_set_same. reflexivity. Qed.

Lemma alist_has_set_other {A} k k' (v : A) l : k' <> k -> alist_has k' (alist_set k v l) = alist_has k' l.
Proof. intros H. unfold alist_has. rewrite alist_get_set_other by exact H. reflexivity. Qed.

(* a set either replaces in place (same length) or appends one entry *)
Lemma alist_set_length {A} k (v : A) l :
  length (alist_set k v l) = if alist_has k l then length l else S (length l).
Proof.
  unfold alist_has. induction l as [|[k' v'] l IH]; simpl; auto.
  destruct (text_eqb k k') eqn:E; simpl; auto.
  rewrite IH. destruct (alist_get k l); reflexivity.
Qed.

Lemma alist_get_remove_same {A} k (l : list (text * A)) : alist_get k (alist_remove (text_eqb k) l) = None.
Proof.
  induction l as [|[k' v'] l IH]; simpl; auto.
  destruct (text_eqb k k') eqn:E; simpl; auto. rewrite E. exact IH.
Qed.

Lemma alist_get_remove_other {A} (p : text -> bool) k (l : list (text * A)) : p k = false ->
  alist_get k (alist_remove p l) = alist_get k l.
Proof.
  intros Hp. induction l as [|[k' v'] l IH]; simpl; auto.
  destruct (p k') eqn:E; simpl.
  - destruct (text_eqb k k') eqn:E2; auto. apply text_eqb_eq in E2. subst. congruence.
  - destruct (text_eqb k k'); auto.
Qed.
