(** Expressions never add or remove a name in any scope: after evaluating any expression -- calls of any depth included --
    every scope of the caller has exactly the names it had, in the same order (values may have changed: a callee may
    assign to a caller's variable).  And while a function body runs, the scopes of its caller keep their names.

    Consequences: (C04/C05) whatever a callee declares is gone when the call returns, and nothing the caller declared is
    lost; (C06) in  x[i1]..[in] = e  the scope that holds x when the statement starts still holds it after the index
    expressions have been evaluated, and it is still the innermost one that does -- so re-resolving the name there (the
    model) and indexing the scope found before (the Rust code, scopes[found].get(x).unwrap()) read the same variable,
    and the model's "name vanished" branch is unreachable. *)
From Pakhi Require Import Base Float64 Syntax Tables Lexer Interp.
From Pakhi.Proofs Require Import Assoc Scope Unfold Frames WF WFOps FrameInv SkelDefs NoPanicStep HeapRW.
From Coq Require Import Lia ZArith.
Local Open Scope nat_scope.

Section Sk.
Variable code : list fstmt.
Hypothesis Hcode : code_ok code.

Notation mwf := (mwf code).
Notation finv := (finv code).
Notation frame_fun := (frame_fun code).
Notation Pe := (Pe code).
Notation Pcl := (Pcl code).
Notation Pip := (Pip code).

Definition fbase (F : frame) : nat := Z.to_nat (f_off F + sd code (f_lo F)) - 1.
Definition keep (b : nat) (m m' : machine) : Prop := skel (truncate b (m_scopes m')) = skel (truncate b (m_scopes m)).

Lemma keep_refl b m : keep b m m. Proof. reflexivity. Qed.
Lemma keep_trans b m1 m2 m3 : keep b m1 m2 -> keep b m2 m3 -> keep b m1 m3.
Proof. unfold keep. congruence. Qed.
Lemma keep_of_skel b m m' : skel (m_scopes m') = skel (m_scopes m) -> keep b m m'.
Proof. unfold keep. intros H. rewrite !skel_truncate, H. reflexivity. Qed.
Lemma keep_suffix b m m' pre pre' base : m_scopes m = pre ++ base -> m_scopes m' = pre' ++ base -> b <= length base -> keep b m m'.
Proof. unfold keep. intros -> -> H. rewrite !truncate_app_le by exact H. reflexivity. Qed.

Lemma height_above F m : mwf m -> frame_fun F -> finv F m -> fbase F + 1 <= length (m_scopes m).
Proof. intros W FS FI. pose proof (finv_height code F m FS FI). pose proof (w_ne code m W). unfold fbase. lia. Qed.

(* postconditions *)
Notation Se := (Se code).
Definition Scl (cl : machine -> outcome machine) : Prop :=
  forall m F, mwf m -> frame_fun F -> finv F m -> match cl m with Ok m' => keep (fbase F) m m' | _ => True end.
Definition Sip (ip : machine -> outcome machine) : Prop :=
  forall m F, mwf m -> frame_fun F -> finv F m -> match ip m with Ok m' => keep (fbase F) m m' | _ => True end.

Lemma post_ok {A} (Q : A -> Prop) x a : post Q x -> x = Ok a -> Q a.
Proof. intros H ->. exact H. Qed.

(** ** the loops of the evaluator *)
Section Loops.
Variable ev : expr -> machine -> outcome (value * machine).
Hypothesis Pev : Pe ev.
Hypothesis Sev : Se ev.

Ltac run_ev e m Hm He v m1 :=
  let E := fresh "E" in let P := fresh "P" in let K := fresh "K" in
  pose proof (Pev e m Hm He) as P; pose proof (Sev e m Hm He) as K;
  destruct (ev e m) as [[v m1]| | |] eqn:E; cbn [bind]; try exact I;
  cbn [post Ske snd] in P, K; destruct P as [(?W & _ & _) _].

Lemma eval_list_skel es : forall m, mwf m -> forallb expr_ok es = true -> Ske m (@snd (list value) machine) (eval_list ev es m).
Proof.
  induction es as [|e r IH]; intros m Hm He; cbn [eval_list]; [reflexivity|].
  cbn [forallb] in He. apply andb_true_iff in He as [He1 He2].
  run_ev e m Hm He1 v m1.
  specialize (IH m1 W He2). destruct (eval_list ev r m1) as [[vs m2]| | |]; cbn [bind]; try exact I.
  cbn [Ske snd] in *. congruence.
Qed.

Lemma eval_rec_skel ks : forall vs acc m, mwf m -> forallb expr_ok ks = true -> forallb expr_ok vs = true ->
  Ske m (@snd (list (text * value)) machine) (eval_rec ev ks vs acc m).
Proof.
  induction ks as [|k ks IH]; intros vs acc m Hm Hk Hv; cbn [eval_rec]; [reflexivity|].
  cbn [forallb] in Hk. apply andb_true_iff in Hk as [Hk1 Hk2].
  run_ev k m Hm Hk1 kv m1.
  assert (Htl : forallb expr_ok (tl vs) = true) by (destruct vs; [reflexivity|cbn [forallb] in Hv; apply andb_true_iff in Hv as [_ H]; exact H]).
  destruct kv; try (specialize (IH (tl vs) acc m1 W Hk2 Htl); destruct (eval_rec ev ks (tl vs) acc m1) as [[r m2]| | |]; try exact I; cbn [Ske snd] in *; congruence).
  destruct vs as [|v vs]; [exact I|].
  cbn [forallb] in Hv. apply andb_true_iff in Hv as [Hv1 Hv2].
  run_ev v m1 W Hv1 vv m2.
  specialize (IH vs (alist_set s vv acc) m2 W0 Hk2 Hv2). destruct (eval_rec ev ks vs (alist_set s vv acc) m2) as [[r m3]| | |]; try exact I.
  cbn [Ske snd] in *. congruence.
Qed.

Lemma bind_args_skel ps : forall args env m, mwf m -> forallb expr_ok args = true -> Ske m (@snd scope machine) (bind_args ev ps args env m).
Proof.
  induction ps as [|p ps IH]; intros args env m Hm Ha; cbn [bind_args]; [reflexivity|].
  destruct args as [|a args]; [apply IH; auto|].
  cbn [forallb] in Ha. apply andb_true_iff in Ha as [Ha1 Ha2].
  run_ev a m Hm Ha1 v m1.
  specialize (IH args (alist_set p v env) m1 W Ha2). destruct (bind_args ev ps args (alist_set p v env) m1) as [[env' m2]| | |]; try exact I.
  cbn [Ske snd] in *. congruence.
Qed.

End Loops.

(** ** built-ins and printing leave the scopes alone *)
Lemma builtin_scopes op args m : match builtin_op code op args m with Ok r => m_scopes (snd r) = m_scopes m | _ => True end.
Proof.
  unfold builtin_op.
  assert (Hf : match @rt_err code (value * machine) m with Ok r => m_scopes (snd r) = m_scopes m | _ => True end).
  { unfold rt_err, fail_here, unexpected_at. destruct (stmt_at code (m_pc m)); exact I. }
  repeat match goal with
  | |- match (if Nat.eqb ?a ?b then _ else _) with _ => _ end => destruct (Nat.eqb a b)
  end;
  repeat match goal with
  | |- match Ok _ with _ => _ end => reflexivity
  | |- match rt_err _ _ with _ => _ end => exact Hf
  | |- match Panic _ with _ => _ end => exact I
  | |- match Err _ with _ => _ end => exact I
  | |- match (match ?x with _ => _ end) with _ => _ end => is_var x; destruct x
  | |- match bind (get_list ?h ?a) _ with _ => _ end => unfold get_list; destruct (nth_error (h_lists h) a); cbn [bind]
  | |- match bind (here _ ?mm) _ with _ => _ end => unfold here; destruct (stmt_at code (m_pc mm)); cbn [bind]
  | |- match (match fs_get ?a ?b with _ => _ end) with _ => _ end => destruct (fs_get a b) as [[?| |]|]
  | |- match (if ?c then _ else _) with _ => _ end => destruct c
  | |- match (match valid_index ?a ?b with _ => _ end) with _ => _ end => destruct (valid_index a b)
  | |- match (match parse_f64 ?a with _ => _ end) with _ => _ end => destruct (parse_f64 a)
  | |- match (match w_stdin ?a with _ => _ end) with _ => _ end => destruct (w_stdin a)
  | |- match (match mkdirs ?a ?b with _ => _ end) with _ => _ end => destruct (mkdirs a b)
  | |- match (let '(_, _) := alloc_list ?a ?b in _) with _ => _ end => destruct (alloc_list a b)
  | |- match (let p := _ in _) with _ => _ end => cbv zeta
  | |- match fail_at _ _ _ with _ => _ end => exact I
  | |- match fail_here _ _ _ with _ => _ end => exact Hf
  end.
  all: try exact I; try reflexivity.
Qed.

Lemma call_builtin_scopes name p args m : match call_builtin code name p args m with Ok r => m_scopes (snd r) = m_scopes m | _ => True end.
Proof. unfold call_builtin. destruct (assoc_text name builtin_ops); [apply builtin_scopes|exact I]. Qed.

Lemma do_print_scopes eol v m : match do_print code eol v m with Ok m' => m_scopes m' = m_scopes m | _ => True end.
Proof.
  assert (Hf : forall k, match @fail_here code machine k m with Ok m' => m_scopes m' = m_scopes m | _ => True end).
  { intros k. unfold fail_here, unexpected_at. destruct (stmt_at code (m_pc m)); exact I. }
  unfold do_print. cbv zeta.
  destruct v; try apply Hf.
  - destruct (to_bn_num x); [reflexivity|apply Hf].
  - reflexivity.
  - reflexivity.
  - destruct (printable (depth_fuel m) (m_heap m) (VList a)) as [ok| | |]; cbn [bind]; try exact I.
    destruct ok; [|apply Hf].
    destruct (render_nested (depth_fuel m) (m_heap m) (VList a)) as [cs| | |]; cbn [bind]; try exact I.
    cbn [next set_pc m_scopes]. match goal with |- m_scopes (emit_all ?mm ?cc) = _ => destruct (emit_all_fields cc mm) as (_ & B & _); exact B end.
  - destruct (printable (depth_fuel m) (m_heap m) (VRec a)) as [ok| | |]; cbn [bind]; try exact I.
    destruct ok; [|apply Hf].
    destruct (render_nested (depth_fuel m) (m_heap m) (VRec a)) as [cs| | |]; cbn [bind]; try exact I.
    cbn [next set_pc m_scopes]. match goal with |- m_scopes (emit_all ?mm ?cc) = _ => destruct (emit_all_fields cc mm) as (_ & B & _); exact B end.
Qed.

(** ** one layer of the evaluator *)
Lemma eval_step_skel ev cl : Pe ev -> Pcl cl -> Se ev -> Scl cl -> Se (eval_step code ev cl).
Proof.
  intros Pev Pcl_ Sev Scl_ e m Hm He.
  assert (Two : forall e1 e2 (k : value -> value -> machine -> outcome (value * machine)),
            expr_ok e1 = true -> expr_ok e2 = true ->
            (forall v1 v2 m2, match k v1 v2 m2 with Ok r => m_scopes (snd r) = m_scopes m2 | _ => True end) ->
            Ske m (@snd value machine) (do '(v1, m1) <- ev e1 m; do '(v2, m2) <- ev e2 m1; k v1 v2 m2)).
  { intros e1 e2 k H1 H2 Hk.
    pose proof (Pev e1 m Hm H1) as P1. pose proof (Sev e1 m Hm H1) as K1.
    destruct (ev e1 m) as [[v1 m1]| | |]; cbn [bind]; try exact I. cbn [post Ske snd] in P1, K1. destruct P1 as [(W1 & _ & _) _].
    pose proof (Pev e2 m1 W1 H2) as P2. pose proof (Sev e2 m1 W1 H2) as K2.
    destruct (ev e2 m1) as [[v2 m2]| | |]; cbn [bind]; try exact I. cbn [post Ske snd] in P2, K2.
    specialize (Hk v1 v2 m2). destruct (k v1 v2 m2) as [r| | |]; try exact I. cbn [Ske]. rewrite Hk. congruence. }
  destruct e; cbn [eval_step expr_ok] in *; try reflexivity.
  - (* var *) destruct (lookup_var x (m_scopes m)); [reflexivity|]. unfold rt_err, fail_here, unexpected_at. destruct (stmt_at code (m_pc m)); exact I.
  - (* list *)
    pose proof (eval_list_skel ev Pev Sev es m Hm He) as K. destruct (eval_list ev es m) as [[vs m1]| | |]; cbn [bind]; try exact I.
    destruct (alloc_list (m_heap m1) vs) as [a h']. exact K.
  - (* record *)
    apply andb_true_iff in He as [He Hvs]. apply andb_true_iff in He as [Hlen Hks].
    pose proof (eval_rec_skel ev Pev Sev ks vs [] m Hm Hks Hvs) as K. destruct (eval_rec ev ks vs [] m) as [[r m1]| | |]; cbn [bind]; try exact I.
    destruct (alloc_rec (m_heap m1) r) as [a h']. exact K.
  - (* group *) apply Sev; assumption.
  - (* unary *)
    pose proof (Sev e m Hm He) as K. destruct (ev e m) as [[v m1]| | |]; cbn [bind]; try exact I.
    destruct v, o; try exact I; exact K.
  - (* binary *)
    apply andb_true_iff in He as [Hl Hr].
    destruct o.
    all: try (apply (Two e2 e1 (fun rv lv m2 => _) Hr Hl); intros v1 v2 m2; destruct v1, v2; try exact I; reflexivity).
    all: try (apply (Two e1 e2 (fun lv rv m2 => _) Hl Hr); intros v1 v2 m2; try reflexivity; destruct v1, v2; try exact I; try reflexivity).
    all: try (unfold get_list; destruct (nth_error (h_lists (m_heap m2)) a) as [la|]; cbn [bind]; [|exact I];
              destruct (nth_error (h_lists (m_heap m2)) a0) as [lb|]; cbn [bind]; [|exact I]; try exact I;
              destruct (alloc_list (m_heap m2) (la ++ lb)); reflexivity).
  - (* call *)
    apply andb_true_iff in He as [Hf Hargs].
    destruct e; try (unfold rt_err, fail_here, unexpected_at; destruct (stmt_at code (m_pc m)); exact I).
    destruct (is_builtin x).
    { pose proof (eval_list_ok code ev Pev args m Hm Hargs) as P1. pose proof (eval_list_skel ev Pev Sev args m Hm Hargs) as K1.
      destruct (eval_list ev args m) as [[vs m1]| | |]; cbn [bind]; try exact I. cbn [Ske snd] in K1.
      pose proof (call_builtin_scopes x p0 vs m1) as B. destruct (call_builtin code x p0 vs m1) as [r| | |]; try exact I.
      cbn [Ske]. rewrite B. exact K1. }
    destruct (lookup_var x (m_scopes m)) as [fv|] eqn:El; [cbn [bind]|unfold rt_err, fail_here, unexpected_at; destruct (stmt_at code (m_pc m)); exact I].
    pose proof (lookup_ok code _ _ _ _ (w_sc code m Hm) El) as Hfv.
    destruct fv; try exact I. simpl in Hfv. destruct Hfv as [Hfv _].
    pose proof (bind_args_ok code ev Pev params args [] m Hm Hargs ltac:(constructor)) as P1.
    pose proof (bind_args_skel ev Pev Sev params args [] m Hm Hargs) as K1.
    destruct (bind_args ev params args [] m) as [[env m1]| | |]; cbn [bind]; try exact I. cbn [post Ske fst snd] in P1, K1.
    destruct P1 as [G1 Henv].
    destruct (fun_ok_stmt code _ Hfv) as [s0 Hs0]. rewrite Hs0.
    destruct s0; try exact I.
    destruct Hfv as (pc2 & re & rp & Hsk & Hret).
    destruct G1 as (W1 & (S1 & S2 & S3 & S4 & S5) & L1).
    set (m2 := mkM start (env :: m_scopes m1) (m_loops m1) (length (m_loops m)) (m_pc m1 :: m_ret m1) (m_heap m1) (m_out m1) (m_world m1) (m_collections m1)).
    assert (W2 : mwf m2).
    { constructor; cbn [m2 m_pc m_scopes m_heap m_loops].
      - eapply stmt_at_lt; eauto.
      - simpl. lia.
      - constructor; [exact Henv|apply (w_sc code m1 W1)].
      - apply (w_h code m1 W1).
      - apply (w_lp code m1 W1). }
    destruct (finv_init code m2 start pc2 re rp _ (length (m_scopes m)) Hs0 (Hsk m2) Hret m2 eq_refl) as [FS FI].
    { cbn [m2 m_scopes]. simpl. congruence. }
    { cbn [m2 m_loop_base m_loops]. congruence. }
    set (F := mkF (Z.of_nat (S (length (m_scopes m))) - sd code start) start pc2 (m_loops m2) (m_ret m2)) in *.
    pose proof (Pcl_ m2 F W2 (or_introl FS) FI) as P3. pose proof (Scl_ m2 F W2 FS FI) as K3.
    destruct (cl m2) as [m3| | |]; cbn [bind]; try exact I. cbn [post] in P3. destruct P3 as (W3 & L3 & FI3 & (re3 & rp3 & Hr3)).
    rewrite Hr3.
    pose proof (fi_ret code F m3 FI3) as Hret3. cbn [F f_ret m2 m_ret] in Hret3. rewrite Hret3.
    assert (Hre3 : expr_ok re3 = true) by (apply (code_stmt_ok code Hcode _ _ Hr3)).
    pose proof (Pev re3 m3 W3 Hre3) as P4. pose proof (Sev re3 m3 W3 Hre3) as K4.
    destruct (ev re3 m3) as [[v m4]| | |]; try exact I. cbn [post Ske snd] in P4, K4.
    destruct P4 as [(W4 & (T1 & T2 & T3 & T4 & T5) & L4) Hv].
    pose proof (finv_height code F m3 FS FI3) as Hh. cbn [F f_off f_lo] in Hh.
    destruct (length (m_scopes m4) <? length (m_scopes m)) eqn:Elt; [exact I|].
    cbn [Ske snd m_scopes].
    assert (Hb : fbase F = length (m_scopes m)).
    { unfold fbase. cbn [F f_off f_lo]. lia. }
    unfold keep in K3. rewrite Hb in K3. cbn [m2 m_scopes] in K3.
    rewrite skel_truncate, K4, <- skel_truncate, K3.
    replace (length (m_scopes m)) with (length (m_scopes m1)) by exact S2.
    change (env :: m_scopes m1) with ([env] ++ m_scopes m1). rewrite (truncate_app [env] (m_scopes m1)). exact K1.
  - (* index *)
    apply andb_true_iff in He as [Ha Hi].
    apply (Two e1 e2 (fun av iv m2 => _) Ha Hi). intros av iv m2.
    destruct av, iv; try exact I.
    + unfold get_list. destruct (nth_error (h_lists (m_heap m2)) a) as [l|]; cbn [bind]; [|exact I].
      destruct (valid_index x (length l)); [reflexivity|exact I].
    + unfold get_rec. destruct (nth_error (h_recs (m_heap m2)) a) as [r|]; cbn [bind]; [|exact I].
      destruct (alist_get s r); [reflexivity|exact I].
Qed.

(** ** one statement inside a function body: the caller's scopes keep their names *)
Lemma interp_step_keep ev : Pe ev -> Se ev -> Sip (interp_step code ev).
Proof.
  intros Pev Sev m F Hm FS FI.
  pose proof (interp_step_ok code Hcode ev Pev Sev m Hm) as Post.
  pose proof (height_above F m Hm FS FI) as Hh.
  destruct (interp_step code ev m) as [m'| | |] eqn:Eq; try exact I.
  cbn [post] in Post. destruct Post as (W' & _ & Fr). specialize (Fr F (or_introl FS) FI).
  pose proof (height_above F m' W' FS Fr) as Hh'.
  unfold interp_step in Eq. destruct (stmt_at code (m_pc m)) as [s|] eqn:Hs; [|discriminate].
  assert (Hev1 : forall e v m1, expr_ok e = true -> ev e m = Ok (v, m1) -> skel (m_scopes m1) = skel (m_scopes m)).
  { intros e v m1 He E. pose proof (Sev e m Hm He) as K. rewrite E in K. exact K. }
  pose proof (code_stmt_ok code Hcode _ _ Hs) as Hok.
  destruct s; cbn [stmt_ok] in Hok.
  - (* print *)
    destruct (ev e m) as [[v m1]| | |] eqn:E; cbn [bind] in Eq; try discriminate.
    pose proof (do_print_scopes true v m1) as D. rewrite Eq in D. apply keep_of_skel. rewrite D. eapply Hev1; eauto.
  - destruct (ev e m) as [[v m1]| | |] eqn:E; cbn [bind] in Eq; try discriminate.
    pose proof (do_print_scopes false v m1) as D. rewrite Eq in D. apply keep_of_skel. rewrite D. eapply Hev1; eauto.
  - (* assignment *)
    destruct k.
    + destruct init as [e|].
      * apply andb_true_iff in Hok as [Hidx He].
        destruct (ev e m) as [[v m1]| | |] eqn:E; cbn [bind] in Eq; try discriminate.
        pose proof (Hev1 e v m1 He E) as K1.
        destruct (m_scopes m1) as [|s1 r1] eqn:Es1; cbn [declare bind] in Eq; [discriminate|]. injection Eq as <-.
        unfold keep. cbn [next set_pc set_scopes m_scopes].
        assert (Hl : length r1 + 1 = length (m_scopes m)) by (pose proof (f_equal (@length _) K1) as Q; rewrite !skel_length in Q; cbn [length] in Q; lia).
        change (alist_set x v s1 :: r1) with ([alist_set x v s1] ++ r1).
        rewrite truncate_app_le by lia.
        destruct (m_scopes m) as [|s0 r0] eqn:Es0; [cbn in Hl; lia|].
        change (s0 :: r0) with ([s0] ++ r0). cbn [length] in Hl, Hh. rewrite truncate_app_le by lia.
        rewrite !skel_truncate. f_equal.
        unfold skel in K1 |- *. cbn [map] in K1. injection K1 as _ K. exact K.
      * destruct (m_scopes m) as [|s0 r0] eqn:Es0; cbn [declare bind] in Eq; [discriminate|]. injection Eq as <-.
        eapply (keep_suffix _ _ _ [s0] [alist_set x VNil s0] r0); [exact Es0|reflexivity|]. rewrite ?Es0 in Hh. cbn [length] in Hh. lia.
    + destruct init as [e|]; [|discriminate].
      apply andb_true_iff in Hok as [Hidx He].
      pose proof (Pev e m Hm He) as P1.
      destruct (ev e m) as [[v m1]| | |] eqn:E; cbn [bind] in Eq; try discriminate.
      pose proof (Hev1 e v m1 He E) as K1. cbn [post] in P1. destruct P1 as [(W1 & _ & _) _].
      destruct idx as [|i0 idx'].
      * destruct (assign_var x v (m_scopes m1)) as [ss|] eqn:Ea; [|unfold rt_err, fail_here, unexpected_at in Eq; destruct (stmt_at code (m_pc m1)); discriminate].
        injection Eq as <-. apply keep_of_skel. cbn [next set_pc set_scopes m_scopes]. rewrite (assign_var_skel _ _ _ _ Ea). exact K1.
      * destruct (lookup_var x (m_scopes m1)); [|unfold rt_err, fail_here, unexpected_at in Eq; destruct (stmt_at code (m_pc m1)); discriminate].
        pose proof (eval_indexes_skel code ev Pev Sev (i0 :: idx') m1 W1 Hidx) as K2.
        destruct (eval_indexes ev (i0 :: idx') m1) as [[path m2]| | |]; cbn [bind] in Eq; try discriminate. cbn [Ske snd] in K2.
        unfold here in Eq. destruct (stmt_at code (m_pc m2)) eqn:Es2; cbn [bind] in Eq; [|discriminate].
        destruct (lookup_var x (m_scopes m2)) as [c|]; [|discriminate].
        destruct (assign_path m2 c path v (stmt_pos f)) as [m3| | |] eqn:Ea; cbn [bind] in Eq; try discriminate. injection Eq as <-.
        apply keep_of_skel. cbn [next set_pc m_scopes].
        assert (m_scopes m3 = m_scopes m2).
        { destruct path as [|ix rest]; [discriminate|].
          destruct (exists_last (l := ix :: rest) ltac:(discriminate)) as (pre & lst & Hp). rewrite Hp in Ea.
          apply assign_path_spec in Ea. destruct Ea as (t & _ & Ht).
          destruct t; try contradiction; destruct lst; try contradiction.
          - destruct Ht as (l & i & _ & _ & ->). reflexivity.
          - destruct Ht as (r & _ & ->). reflexivity. }
        rewrite H. congruence.
  - (* expression statement *)
    destruct (ev e m) as [[v m1]| | |] eqn:E; cbn [bind] in Eq; try discriminate. injection Eq as <-.
    apply keep_of_skel. cbn [next set_pc m_scopes]. eapply Hev1; eauto.
  - (* { *) injection Eq as <-. eapply (keep_suffix _ _ _ [] [[]] (m_scopes m)); [reflexivity|reflexivity|lia].
  - (* } *)
    destruct (length (m_scopes m) <=? 1); [unfold rt_err, fail_here, unexpected_at in Eq; rewrite Hs in Eq; discriminate|]. injection Eq as <-.
    destruct (m_scopes m) as [|s0 r0] eqn:Es0; [cbn in Hh; lia|].
    eapply (keep_suffix _ _ _ [s0] [] r0); [exact Es0|reflexivity|]. cbn [next set_pc set_scopes m_scopes tl] in Hh'. lia.
  - (* function definition *)
    destruct (stmt_at code (S (m_pc m))) as [s1|]; [|discriminate].
    destruct s1; try discriminate. destruct e; try discriminate. destruct e; try discriminate.
    match type of Eq with context [match ?n with Some _ => _ | None => _ end] => destruct n as [params|] end; [|discriminate].
    destruct (m_scopes m) as [|s0 r0] eqn:Es0; cbn [declare bind] in Eq; [discriminate|].
    destruct (skip_block_from code m (S (S (m_pc m)))) as [pc2| | |]; cbn [bind] in Eq; try discriminate.
    destruct (stmt_at code pc2) as [[]|]; try discriminate. injection Eq as <-.
    eapply (keep_suffix _ _ _ [s0] [alist_set x (VFun (S (S (m_pc m))) params) s0] r0); [exact Es0|reflexivity|]. rewrite ?Es0 in Hh. cbn [length] in Hh. lia.
  - (* return *) unfold rt_err, fail_here, unexpected_at in Eq; rewrite Hs in Eq; discriminate.
  - (* if *)
    destruct (ev c m) as [[v m1]| | |] eqn:E; cbn [bind] in Eq; try discriminate.
    pose proof (Hev1 c v m1 Hok E) as K1.
    destruct v; try discriminate. destruct b.
    + injection Eq as <-. apply keep_of_skel. exact K1.
    + destruct (skip_block_from code m1 (S (m_pc m1))) as [pc'| | |]; cbn [bind] in Eq; try discriminate.
      destruct (stmt_at code pc') as [[]|]; injection Eq as <-; apply keep_of_skel; exact K1.
  - (* loop *)
    destruct (stmt_at code (S (m_pc m))) as [[]|]; try discriminate.
    destruct (skip_block_from code m (S (m_pc m))) as [pc2| | |]; cbn [bind] in Eq; try discriminate.
    destruct (stmt_at code pc2) as [[]|]; try discriminate. injection Eq as <-. apply keep_of_skel. reflexivity.
  - (* continue *)
    destruct (length (m_loops m) <=? m_loop_base m); [unfold rt_err, fail_here, unexpected_at in Eq; rewrite Hs in Eq; discriminate|].
    destruct (m_loops m) as [|l ls]; [discriminate|]. injection Eq as <-.
    cbn [set_pc set_scopes m_scopes] in Hh'.
    assert (Hsplit : m_scopes m = firstn (length (m_scopes m) - l_depth l) (m_scopes m) ++ truncate (l_depth l) (m_scopes m)) by (unfold truncate; symmetry; apply firstn_skipn).
    eapply (keep_suffix _ _ _ _ [] _ Hsplit); [reflexivity|lia].
  - (* break *)
    destruct (length (m_loops m) <=? m_loop_base m); [unfold rt_err, fail_here, unexpected_at in Eq; rewrite Hs in Eq; discriminate|].
    destruct (m_loops m) as [|l ls]; [discriminate|]. injection Eq as <-.
    cbn [set_pc set_loops set_scopes m_scopes] in Hh'.
    assert (Hsplit : m_scopes m = firstn (length (m_scopes m) - l_depth l) (m_scopes m) ++ truncate (l_depth l) (m_scopes m)) by (unfold truncate; symmetry; apply firstn_skipn).
    eapply (keep_suffix _ _ _ _ [] _ Hsplit); [reflexivity|lia].
  - (* else *)
    assert (G : forall k pc, match skip_chain code m k pc with Ok m' => m_scopes m' = m_scopes m | _ => True end).
    { induction k as [|k IH]; intros pc; cbn [skip_chain]; [exact I|].
      destruct (skip_block_from code m _) as [pc2| | |]; cbn [bind]; try exact I.
      destruct (stmt_at code pc2) as [[]|]; try reflexivity. apply IH. }
    specialize (G (S (length code)) (S (m_pc m))). rewrite Eq in G. apply keep_of_skel. rewrite G. reflexivity.
  - (* eos *) unfold rt_err, fail_here, unexpected_at in Eq; rewrite Hs in Eq; discriminate.
Qed.

Lemma call_loop_step_keep ip cl : Pip ip -> Pcl cl -> Sip ip -> Scl cl -> Scl (call_loop_step code ip cl).
Proof.
  intros Pip_ Pcl_ Sip_ Scl_ m F Hm FS FI. unfold call_loop_step.
  destruct (stmt_at code (m_pc m)) as [s|] eqn:Hs; [|exact I].
  assert (Go : match (do m1 <- ip m; cl m1) with Ok m' => keep (fbase F) m m' | _ => True end).
  { pose proof (Pip_ m Hm) as P1. pose proof (Sip_ m F Hm FS FI) as K1.
    destruct (ip m) as [m1| | |]; cbn [bind]; try exact I. cbn [post] in P1. destruct P1 as (W1 & _ & Fr).
    specialize (Fr F (or_introl FS) FI).
    pose proof (Scl_ m1 F W1 FS Fr) as K2. destruct (cl m1) as [m2| | |]; try exact I. eapply keep_trans; eauto. }
  destruct s; try exact Go. apply keep_refl.
Qed.

(** ** all fuel: the no-panic layers and the skeleton layers need each other (one statement reads its variable again after
    its index expressions), so they are tied together in one induction *)
Theorem all_invariants_fuel : forall f,
  (Pe (eval code f) /\ Pcl (call_loop code f) /\ Pip (interp code f)) /\
  (Se (eval code f) /\ Scl (call_loop code f) /\ Sip (interp code f)).
Proof.
  induction f as [|f ((Pe_ & Pc_ & Pi_) & (IHe & IHc & IHi))].
  - split; (split; [|split]); intros ?; intros; cbn; exact I.
  - split; (split; [|split]).
    + intros e m Hm He. rewrite eval_S. apply eval_step_ok; auto.
    + intros m F Hm FS FI. rewrite call_loop_S. apply call_loop_step_ok; auto.
    + intros m Hm. rewrite interp_S. apply interp_step_ok; auto.
    + intros e m Hm He. rewrite eval_S. apply eval_step_skel; auto.
    + intros m F Hm FS FI. rewrite call_loop_S. apply call_loop_step_keep; auto.
    + intros m F Hm FS FI. rewrite interp_S. apply interp_step_keep; auto.
Qed.

Theorem skeleton_fuel : forall f, Se (eval code f) /\ Scl (call_loop code f) /\ Sip (interp code f).
Proof. intros f. apply all_invariants_fuel. Qed.

(** ** corollaries *)
Theorem expressions_keep_the_names_of_every_scope fuel e m v m' : mwf m -> expr_ok e = true ->
  eval code fuel e m = Ok (v, m') -> skel (m_scopes m') = skel (m_scopes m).
Proof. intros Hm He H. destruct (skeleton_fuel fuel) as (S_ & _ & _). specialize (S_ e m Hm He). rewrite H in S_. exact S_. Qed.

Theorem visible_names_stay_visible fuel e m v m' x : mwf m -> expr_ok e = true -> eval code fuel e m = Ok (v, m') ->
  holder x (m_scopes m') = holder x (m_scopes m) /\ (lookup_var x (m_scopes m') = None <-> lookup_var x (m_scopes m) = None).
Proof.
  intros Hm He H. pose proof (expressions_keep_the_names_of_every_scope fuel e m v m' Hm He H) as K.
  pose proof (holder_skel x _ _ K) as Hh. split; [exact Hh|]. rewrite !lookup_iff_holder, Hh. tauto.
Qed.
(* the index expressions of  x[i1]..[in] = e  leave x in the scope that held it: the scope found before them
   (find_var_env_index) and the innermost scope holding x after them are the same one, and it still holds x *)
Theorem index_expressions_keep_the_target fuel is m path m2 x : mwf m -> forallb expr_ok is = true ->
  eval_indexes (eval code fuel) is m = Ok (path, m2) ->
  skel (m_scopes m2) = skel (m_scopes m) /\ holder x (m_scopes m2) = holder x (m_scopes m) /\
  (lookup_var x (m_scopes m) <> None -> lookup_var x (m_scopes m2) <> None).
Proof.
  intros Hm Hi H. destruct (all_invariants_fuel fuel) as ((P_ & _ & _) & (S_ & _ & _)).
  pose proof (eval_indexes_skel code (eval code fuel) P_ S_ is m Hm Hi) as K. rewrite H in K. cbn [Ske snd] in K.
  pose proof (holder_skel x _ _ K) as Hh. split; [exact K|]. split; [exact Hh|].
  rewrite !lookup_iff_holder, Hh. tauto.
Qed.
End Sk.
