(** C13: the well-formedness invariant of the machine that rules out every data-dependent panic of the interpreter
    (dangling list/record address, empty scope stack, jump target outside the statement vector, function value whose
    body has no closing Return), and its preservation by the heap primitives and the built-ins. *)
From Pakhi Require Import Base Float64 Syntax Tables Lexer Interp.
From Pakhi.Proofs Require Import TableFacts Unfold Frames.
From Coq Require Import Lia ZArith.
Local Open Scope nat_scope.

(** ** Hoare-style postconditions on outcomes: the result is never a panic, and an Ok result satisfies Q *)
Definition post {A} (Q : A -> Prop) (x : outcome A) : Prop :=
  match x with Ok a => Q a | Panic _ => False | _ => True end.

Lemma post_bind {A B} (Q1 : A -> Prop) (Q2 : B -> Prop) (x : outcome A) (f : A -> outcome B) :
  post Q1 x -> (forall a, Q1 a -> post Q2 (f a)) -> post Q2 (bind x f).
Proof. destruct x as [a| | |]; simpl; auto; try contradiction. Qed.

Lemma post_weaken {A} (Q1 Q2 : A -> Prop) x : (forall a, Q1 a -> Q2 a) -> post Q1 x -> post Q2 x.
Proof. destruct x; simpl; auto. Qed.

Lemma post_err {A} (Q : A -> Prop) e : post Q (Err e). Proof. exact I. Qed.
Lemma post_ok {A} (Q : A -> Prop) a : Q a -> post Q (Ok a). Proof. auto. Qed.

(** ** Well-formed statement vectors: what the parser guarantees and the interpreter relies on *)
Fixpoint expr_ok (e : expr) : bool :=
  match e with
  | ENil _ | EBool _ _ | ENum _ _ | EStr _ _ | EVar _ _ => true
  | EList es _ => forallb expr_ok es
  | ERec ks vs _ => Nat.eqb (length ks) (length vs) && forallb expr_ok ks && forallb expr_ok vs
  | EGroup e1 _ | EUn _ e1 _ => expr_ok e1
  | EBin _ l r _ => expr_ok l && expr_ok r
  | ECall f args _ => expr_ok f && forallb expr_ok args
  | EIndex a i _ => expr_ok a && expr_ok i
  end.

Definition stmt_ok (s : fstmt) : bool :=
  match s with
  | FPrint e _ | FPrintNoEol e _ | FExpr e _ | FReturn e _ | FIf e _ => expr_ok e
  | FAssign AFirst _ _ idx init _ => forallb expr_ok idx && match init with Some e => expr_ok e | None => true end
  | FAssign AReassign _ _ idx init _ => forallb expr_ok idx && match init with Some e => expr_ok e | None => false end
  | _ => true
  end.

Definition is_eos (s : fstmt) : bool := match s with FEOS _ => true | _ => false end.

(* the vector ends with the end-of-statements marker, which occurs nowhere else before a real statement's successor *)
Definition code_ok (code : list fstmt) : Prop :=
  forallb stmt_ok code = true /\
  (forall pc s, stmt_at code pc = Some s -> is_eos s = false -> S pc < length code).

Section WF.
Variable code : list fstmt.
Hypothesis Hcode : code_ok code.

Lemma code_stmt_ok pc s : stmt_at code pc = Some s -> stmt_ok s = true.
Proof.
  intros H. destruct Hcode as [Hall _]. rewrite forallb_forall in Hall. apply Hall.
  unfold stmt_at in H. eapply nth_error_In; eauto.
Qed.

Lemma code_next pc s : stmt_at code pc = Some s -> is_eos s = false -> S pc < length code.
Proof. destruct Hcode as [_ H]. apply H. Qed.

(** ** Values, heaps, scopes *)
Definition fun_ok (s : nat) : Prop :=
  exists pc2 e p, (forall m, skip_block_from code m s = Ok pc2) /\ stmt_at code pc2 = Some (FReturn e p).

(* the parameter names of a function value are the ones written in a function header of the code, the statement before
   the body's first one *)
Fixpoint arg_names (as_ : list expr) : option (list text) :=
  match as_ with
  | [] => Some []
  | EVar x _ :: r => match arg_names r with Some l => Some (x :: l) | None => None end
  | _ => None
  end.
Definition params_ok (s : nat) (ps : list text) : Prop :=
  exists q f fp args ap sp, stmt_at code (pred (pred s)) = Some (FFuncDef q) /\
    stmt_at code (pred s) = Some (FExpr (ECall (EVar f fp) args ap) sp) /\ arg_names args = Some ps.

Definition vok (h : heap) (v : value) : Prop :=
  match v with
  | VList a => a < length (h_lists h)
  | VRec a => a < length (h_recs h)
  | VFun s ps => fun_ok s /\ params_ok s ps
  | _ => True
  end.

Definition eok (h : heap) (kv : text * value) : Prop := vok h (snd kv).

Record hok (h : heap) : Prop := {
  hk_lists : Forall (Forall (vok h)) (h_lists h);
  hk_recs : Forall (Forall (eok h)) (h_recs h);
  hk_fl : Forall (fun a => a < length (h_lists h)) (h_free_lists h);
  hk_fr : Forall (fun a => a < length (h_recs h)) (h_free_recs h) }.

Definition sok (h : heap) (ss : list scope) : Prop := Forall (Forall (eok h)) ss.
Definition hle (h h' : heap) : Prop :=
  length (h_lists h) <= length (h_lists h') /\ length (h_recs h) <= length (h_recs h').

Lemma hle_refl h : hle h h. Proof. split; lia. Qed.
Lemma hle_trans a b c : hle a b -> hle b c -> hle a c. Proof. intros [] []; split; lia. Qed.

Lemma vok_mono h h' v : hle h h' -> vok h v -> vok h' v.
Proof. intros [H1 H2]. destruct v; simpl; auto; lia. Qed.
Lemma eok_mono h h' kv : hle h h' -> eok h kv -> eok h' kv.
Proof. unfold eok. apply vok_mono. Qed.
Lemma Forall_vok_mono h h' l : hle h h' -> Forall (vok h) l -> Forall (vok h') l.
Proof. intros H. apply Forall_impl. intros v. apply vok_mono. exact H. Qed.
Lemma Forall_eok_mono h h' l : hle h h' -> Forall (eok h) l -> Forall (eok h') l.
Proof. intros H. apply Forall_impl. intros v. apply eok_mono. exact H. Qed.
Lemma sok_mono h h' ss : hle h h' -> sok h ss -> sok h' ss.
Proof. intros H. apply Forall_impl. intros s. apply Forall_eok_mono. exact H. Qed.

(* association lists *)
Lemma alist_get_ok {A} (P : text * A -> Prop) k (l : list (text * A)) v : Forall P l -> alist_get k l = Some v -> exists k', P (k', v).
Proof.
  induction l as [|[k1 v1] r IH]; simpl; intros Hf Hg; [discriminate|].
  inversion Hf as [|? ? H1 H2]; subst. destruct (text_eqb k k1).
  - injection Hg as <-. exists k1. exact H1.
  - apply IH; auto.
Qed.

Lemma alist_set_ok {A} (P : text * A -> Prop) k v (l : list (text * A)) : Forall P l -> P (k, v) -> Forall P (alist_set k v l).
Proof.
  induction l as [|[k1 v1] r IH]; simpl; intros Hf Hp; [constructor; auto|].
  inversion Hf as [|? ? H1 H2]; subst. destruct (text_eqb k k1); constructor; auto.
Qed.

Lemma lookup_ok h x ss v : sok h ss -> lookup_var x ss = Some v -> vok h v.
Proof.
  induction ss as [|s r IH]; simpl; intros Hs Hl; [discriminate|].
  inversion Hs as [|? ? H1 H2]; subst.
  destruct (alist_get x s) as [w|] eqn:E.
  - injection Hl as <-. destruct (alist_get_ok _ _ _ _ H1 E) as [k' Hk]. exact Hk.
  - apply IH; auto.
Qed.

Lemma declare_ok h x v ss ss' : sok h ss -> vok h v -> declare x v ss = Ok ss' -> sok h ss' /\ length ss' = length ss.
Proof.
  destruct ss as [|s r]; simpl; intros Hs Hv H; [discriminate|]. injection H as <-.
  inversion Hs as [|? ? H1 H2]; subst. split; [|reflexivity]. constructor; auto. apply alist_set_ok; auto.
Qed.

Lemma assign_ok h x v : forall ss ss', sok h ss -> vok h v -> assign_var x v ss = Some ss' -> sok h ss' /\ length ss' = length ss.
Proof.
  induction ss as [|s r IH]; simpl; intros ss' Hs Hv H; [discriminate|].
  inversion Hs as [|? ? H1 H2]; subst.
  destruct (alist_has x s).
  - injection H as <-. split; [|reflexivity]. constructor; auto. apply alist_set_ok; auto.
  - destruct (assign_var x v r) as [r'|] eqn:E; [|discriminate]. injection H as <-.
    destruct (IH r' H2 Hv eq_refl) as [Ha Hb]. split; [constructor; auto|simpl; lia].
Qed.

Lemma truncate_sok {A} (P : A -> Prop) n (l : list A) : Forall P l -> Forall P (truncate n l).
Proof.
  unfold truncate. intros H. rewrite <- (firstn_skipn (length l - n) l) in H. apply Forall_app in H. tauto.
Qed.

Lemma truncate_len_min {A} n (l : list A) : length (truncate n l) = Nat.min n (length l).
Proof. unfold truncate. rewrite skipn_length. lia. Qed.

(* list helpers *)
Lemma list_set_len {A} (l : list A) i v : length (list_set l i v) = length l.
Proof. revert i; induction l as [|x t IH]; intros [|j]; simpl; auto. Qed.

Lemma list_set_Forall {A} (P : A -> Prop) (l : list A) i v : Forall P l -> P v -> Forall P (list_set l i v).
Proof.
  revert i; induction l as [|x t IH]; intros [|j] Hf Hv; simpl; auto; inversion Hf; subst; constructor; auto.
Qed.

Lemma insert_at_Forall {A} (P : A -> Prop) (l : list A) : forall i v, Forall P l -> P v -> Forall P (insert_at l i v).
Proof.
  induction l as [|x t IH]; intros [|j] v Hf Hv; simpl; auto.
  inversion Hf; subst. constructor; auto.
Qed.

Lemma remove_at_Forall {A} (P : A -> Prop) (l : list A) : forall i, Forall P l -> Forall P (remove_at l i).
Proof.
  induction l as [|x t IH]; intros [|j] Hf; simpl; auto; inversion Hf; subst; auto.
Qed.

Lemma removelast_Forall {A} (P : A -> Prop) (l : list A) : Forall P l -> Forall P (removelast l).
Proof.
  induction l as [|x t IH]; intros Hf; simpl; auto. inversion Hf; subst. destruct t; auto.
Qed.

Lemma nth_Forall {A} (P : A -> Prop) (l : list A) i d : Forall P l -> P d -> P (nth i l d).
Proof. revert i; induction l as [|x t IH]; intros [|j] Hf Hd; simpl; auto; inversion Hf; subst; auto. Qed.

Lemma nth_error_Forall {A} (P : A -> Prop) (l : list A) i x : Forall P l -> nth_error l i = Some x -> P x.
Proof. intros Hf H. rewrite Forall_forall in Hf. apply Hf. eapply nth_error_In; eauto. Qed.

(* reading *)
Lemma get_list_ok h a : hok h -> a < length (h_lists h) -> exists l, get_list h a = Ok l /\ Forall (vok h) l.
Proof.
  intros Hh Ha. unfold get_list. destruct (nth_error (h_lists h) a) as [l|] eqn:E.
  - exists l. split; auto. eapply nth_error_Forall; [apply (hk_lists h Hh)|exact E].
  - apply nth_error_None in E. lia.
Qed.
Lemma get_rec_ok h a : hok h -> a < length (h_recs h) -> exists r, get_rec h a = Ok r /\ Forall (eok h) r.
Proof.
  intros Hh Ha. unfold get_rec. destruct (nth_error (h_recs h) a) as [l|] eqn:E.
  - exists l. split; auto. eapply nth_error_Forall; [apply (hk_recs h Hh)|exact E].
  - apply nth_error_None in E. lia.
Qed.

(* writing in place *)
Lemma put_list_ok h a l : hok h -> Forall (vok h) l -> hok (put_list h a l) /\ hle h (put_list h a l) /\ hle (put_list h a l) h.
Proof.
  intros Hh Hl. assert (Hle : hle h (put_list h a l) /\ hle (put_list h a l) h).
  { unfold hle, put_list; simpl. rewrite list_set_len. lia. }
  split; [|exact Hle]. destruct Hle as [Hle _]. destruct Hh as [H1 H2 H3 H4].
  constructor; unfold put_list; simpl.
  - apply list_set_Forall.
    + eapply Forall_impl; [|exact H1]. intros x. apply Forall_vok_mono. exact Hle.
    + eapply Forall_vok_mono; eauto.
  - eapply Forall_impl; [|exact H2]. intros x. apply Forall_eok_mono. exact Hle.
  - rewrite list_set_len. exact H3.
  - exact H4.
Qed.

Lemma put_rec_ok h a r : hok h -> Forall (eok h) r -> hok (put_rec h a r) /\ hle h (put_rec h a r) /\ hle (put_rec h a r) h.
Proof.
  intros Hh Hl. assert (Hle : hle h (put_rec h a r) /\ hle (put_rec h a r) h).
  { unfold hle, put_rec; simpl. rewrite list_set_len. lia. }
  split; [|exact Hle]. destruct Hle as [Hle _]. destruct Hh as [H1 H2 H3 H4].
  constructor; unfold put_rec; simpl.
  - eapply Forall_impl; [|exact H1]. intros x. apply Forall_vok_mono. exact Hle.
  - apply list_set_Forall.
    + eapply Forall_impl; [|exact H2]. intros x. apply Forall_eok_mono. exact Hle.
    + eapply Forall_eok_mono; eauto.
  - exact H3.
  - rewrite list_set_len. exact H4.
Qed.

(* allocation *)
Lemma alloc_list_ok h l a h' : hok h -> Forall (vok h) l -> alloc_list h l = (a, h') ->
  hok h' /\ hle h h' /\ a < length (h_lists h').
Proof.
  intros Hh Hl H. unfold alloc_list in H. destruct Hh as [H1 H2 H3 H4].
  destruct (h_free_lists h) as [|a0 fr] eqn:Ef; injection H as <- <-.
  - assert (Hle : hle h (mkHeap (h_lists h ++ [l]) [] (h_recs h) (h_free_recs h) (h_alloc h + length l + 1))).
    { unfold hle; simpl. rewrite app_length. simpl. lia. }
    split; [|split; [exact Hle|simpl; rewrite app_length; simpl; lia]].
    constructor; simpl.
    + apply Forall_app. split.
      * eapply Forall_impl; [|exact H1]. intros x. apply Forall_vok_mono. exact Hle.
      * constructor; [|constructor]. eapply Forall_vok_mono; eauto.
    + eapply Forall_impl; [|exact H2]. intros x. apply Forall_eok_mono. exact Hle.
    + constructor.
    + exact H4.
  - inversion H3 as [|? ? Ha Hfr]; subst.
    assert (Hle : hle h (mkHeap (list_set (h_lists h) a0 l) fr (h_recs h) (h_free_recs h) (h_alloc h + length l + 1))).
    { unfold hle; simpl. rewrite list_set_len. lia. }
    split; [|split; [exact Hle|simpl; rewrite list_set_len; exact Ha]].
    constructor; simpl.
    + apply list_set_Forall.
      * eapply Forall_impl; [|exact H1]. intros x. apply Forall_vok_mono. exact Hle.
      * eapply Forall_vok_mono; eauto.
    + eapply Forall_impl; [|exact H2]. intros x. apply Forall_eok_mono. exact Hle.
    + rewrite list_set_len. exact Hfr.
    + exact H4.
Qed.

Lemma alloc_rec_ok h r a h' : hok h -> Forall (eok h) r -> alloc_rec h r = (a, h') ->
  hok h' /\ hle h h' /\ a < length (h_recs h').
Proof.
  intros Hh Hl H. unfold alloc_rec in H. destruct Hh as [H1 H2 H3 H4].
  destruct (h_free_recs h) as [|a0 fr] eqn:Ef; injection H as <- <-.
  - assert (Hle : hle h (mkHeap (h_lists h) (h_free_lists h) (h_recs h ++ [r]) [] (h_alloc h + length r + 1))).
    { unfold hle; simpl. rewrite app_length. simpl. lia. }
    split; [|split; [exact Hle|simpl; rewrite app_length; simpl; lia]].
    constructor; simpl.
    + eapply Forall_impl; [|exact H1]. intros x. apply Forall_vok_mono. exact Hle.
    + apply Forall_app. split.
      * eapply Forall_impl; [|exact H2]. intros x. apply Forall_eok_mono. exact Hle.
      * constructor; [|constructor]. eapply Forall_eok_mono; eauto.
    + exact H3.
    + constructor.
  - inversion H4 as [|? ? Ha Hfr]; subst.
    assert (Hle : hle h (mkHeap (h_lists h) (h_free_lists h) (list_set (h_recs h) a0 r) fr (h_alloc h + length r + 1))).
    { unfold hle; simpl. rewrite list_set_len. lia. }
    split; [|split; [exact Hle|simpl; rewrite list_set_len; exact Ha]].
    constructor; simpl.
    + eapply Forall_impl; [|exact H1]. intros x. apply Forall_vok_mono. exact Hle.
    + apply list_set_Forall.
      * eapply Forall_impl; [|exact H2]. intros x. apply Forall_eok_mono. exact Hle.
      * eapply Forall_eok_mono; eauto.
    + exact H3.
    + rewrite list_set_len. exact Hfr.
Qed.

End WF.
