(** C07: no program can observe where its containers live.  [mrel p m1 m2] (SimDefs.v) relates two machines through a
    partial bijection [p] of addresses; this file proves that the evaluator, every built-in, every statement and the
    call loop take related machines to related machines -- same output, same error, same control state, values related
    through an extension of [p] -- for every program, every fuel, every state.  GCInvisible.v adds the collector. *)
From Pakhi Require Import Base Float64 Syntax Tables Lexer Interp.
From Pakhi.Proofs Require Import Unfold SimDefs.
From Coq Require Import Lia.
Local Open Scope nat_scope.

(** ** related outcomes.  Native stack exhaustion ([OutOfFuel]) on either side relates to anything: the two runs may
    have arenas of different size, and the printing depth budget of the model depends on the arena size. *)
Definition orel {A B} (R : A -> B -> Prop) (x : outcome A) (y : outcome B) : Prop :=
  match x, y with
  | OutOfFuel, _ | _, OutOfFuel => True
  | Ok a, Ok b => R a b
  | Err e, Err e' => e = e'
  | Panic s, Panic s' => s = s'
  | _, _ => False
  end.

(* the payload is related through some extension of [p] that is still a partial bijection *)
Definition Rex {A B} (p : ren) (P : ren -> A -> B -> Prop) (a : A) (b : B) : Prop :=
  exists q, ren_le p q /\ bij q /\ P q a b.

Lemma orel_bind {A B C D} p (P : ren -> A -> B -> Prop) (Q : ren -> C -> D -> Prop) x1 x2 f1 f2 :
  orel (Rex p P) x1 x2 ->
  (forall q a1 a2, ren_le p q -> bij q -> P q a1 a2 -> orel (Rex q Q) (f1 a1) (f2 a2)) ->
  orel (Rex p Q) (bind x1 f1) (bind x2 f2).
Proof.
  intros Hx Hf. destruct x1 as [a1|e1|s1|], x2 as [a2|e2|s2|]; simpl in *; auto; try contradiction.
  - destruct Hx as (q & Hle & Hb & HP). specialize (Hf q a1 a2 Hle Hb HP).
    destruct (f1 a1), (f2 a2); simpl in *; auto.
    destruct Hf as (q' & Hle' & Hb' & HQ). exists q'. split; [eapply ren_le_trans; eauto|auto].
  - destruct (f1 a1); simpl; auto.
Qed.

Lemma orel_weaken {A B} p q (P : ren -> A -> B -> Prop) x y : ren_le p q -> orel (Rex q P) x y -> orel (Rex p P) x y.
Proof.
  intros Hle H. destruct x, y; simpl in *; auto. destruct H as (q' & L & Bq & HP). exists q'. split; [eapply ren_le_trans; eauto|auto].
Qed.

Lemma orel_ok {A B} p (P : ren -> A -> B -> Prop) a b : bij p -> P p a b -> orel (Rex p P) (Ok a) (Ok b).
Proof. intros Hb H. exists p. split; [apply ren_le_refl|auto]. Qed.

Definition Pvm (q : ren) (r1 r2 : value * machine) : Prop := vrel q (fst r1) (fst r2) /\ mrel q (snd r1) (snd r2).
Definition Pm (q : ren) (m1 m2 : machine) : Prop := mrel q m1 m2.
Definition Pvsm (q : ren) (r1 r2 : list value * machine) : Prop := Forall2 (vrel q) (fst r1) (fst r2) /\ mrel q (snd r1) (snd r2).

(** ** machine updates *)
Lemma mrel_mono p q m1 m2 : ren_le p q -> hrel q (m_heap m1) (m_heap m2) -> mrel p m1 m2 -> mrel q m1 m2.
Proof. intros L H [A B C D E F G I]. constructor; auto. eapply scopes_mono; eauto. Qed.
Lemma mrel_set_heap p q m1 m2 h1 h2 : ren_le p q -> mrel p m1 m2 -> hrel q h1 h2 -> mrel q (set_heap m1 h1) (set_heap m2 h2).
Proof. intros L [A B C D E F G I] H. constructor; simpl; auto. eapply scopes_mono; eauto. Qed.
Lemma mrel_set_pc p m1 m2 pc : mrel p m1 m2 -> mrel p (set_pc m1 pc) (set_pc m2 pc).
Proof. intros [A B C D E F G I]. constructor; simpl; auto. Qed.
Lemma mrel_next p m1 m2 : mrel p m1 m2 -> mrel p (next m1) (next m2).
Proof. intros H. unfold next. rewrite (mr_pc _ _ _ H). apply mrel_set_pc. exact H. Qed.
Lemma mrel_set_scopes p m1 m2 s1 s2 : mrel p m1 m2 -> Forall2 (Forall2 (erel p)) s1 s2 -> mrel p (set_scopes m1 s1) (set_scopes m2 s2).
Proof. intros [A B C D E F G I] H. constructor; simpl; auto. Qed.
Lemma mrel_set_loops p m1 m2 l : mrel p m1 m2 -> mrel p (set_loops m1 l) (set_loops m2 l).
Proof. intros [A B C D E F G I]. constructor; simpl; auto. Qed.
Lemma mrel_set_world p m1 m2 w : mrel p m1 m2 -> mrel p (set_world m1 w) (set_world m2 w).
Proof. intros [A B C D E F G I]. constructor; simpl; auto. Qed.
Lemma mrel_emit p m1 m2 c : mrel p m1 m2 -> mrel p (emit m1 c) (emit m2 c).
Proof. intros [A B C D E F G I]. constructor; simpl; auto. congruence. Qed.
Lemma mrel_emit_all p cs : forall m1 m2, mrel p m1 m2 -> mrel p (emit_all m1 cs) (emit_all m2 cs).
Proof. unfold emit_all. induction cs as [|c cs IH]; intros m1 m2 H; simpl; auto. apply IH. apply mrel_emit. exact H. Qed.

Lemma strings_rel p l1 l2 : Forall2 (vrel p) l1 l2 ->
  forallb (fun v : value => match v with VStr _ => true | _ => false end) l1 = forallb (fun v : value => match v with VStr _ => true | _ => false end) l2 /\
  map (fun v : value => match v with VStr s => s | _ => [] end) l1 = map (fun v : value => match v with VStr s => s | _ => [] end) l2.
Proof.
  induction 1 as [|v1 v2 l1 l2 Hv F [IH1 IH2]]; simpl; auto.
  rewrite IH1, IH2. destruct v1, v2; simpl in Hv; try contradiction; subst; auto.
Qed.

Section Sim.
Variable code : list fstmt.

(** ** errors are equal: they are made of the position (same pc) and the output so far (same output) *)
Lemma fail_here_rel {A B} (R : A -> B -> Prop) p k m1 m2 : mrel p m1 m2 -> orel R (@fail_here code A k m1) (@fail_here code B k m2).
Proof.
  intros H. unfold fail_here, unexpected_at. rewrite (mr_pc _ _ _ H), (mr_out _ _ _ H).
  destruct (stmt_at code (m_pc m2)); simpl; reflexivity.
Qed.
Lemma rt_err_rel {A B} (R : A -> B -> Prop) p m1 m2 : mrel p m1 m2 -> orel R (@rt_err code A m1) (@rt_err code B m2).
Proof. apply fail_here_rel. Qed.
Lemma fail_at_rel {A B} (R : A -> B -> Prop) p k q m1 m2 : mrel p m1 m2 -> orel R (@fail_at A k q m1) (@fail_at B k q m2).
Proof. intros H. unfold fail_at. rewrite (mr_out _ _ _ H). simpl. reflexivity. Qed.
Lemma unexpected_rel {A B} (R : A -> B -> Prop) p m1 m2 : mrel p m1 m2 -> orel R (@unexpected_at A m1) (@unexpected_at B m2).
Proof. intros H. unfold unexpected_at. rewrite (mr_out _ _ _ H). simpl. reflexivity. Qed.

(* the forward scans look at the code only; the machine is consulted for the output carried by an error *)
Lemma skip_block_rel fuel : forall m1 m2 pc d, m_out m1 = m_out m2 -> skip_block code fuel m1 pc d = skip_block code fuel m2 pc d.
Proof.
  induction fuel as [|f IH]; intros m1 m2 pc d Ho; simpl; auto.
  destruct (stmt_at code pc) as [s|]; [|unfold unexpected_at; rewrite Ho; reflexivity].
  destruct s; auto. destruct d as [|[|d]]; auto. unfold fail_at. rewrite Ho. reflexivity.
Qed.
Lemma skip_block_from_rel p m1 m2 pc : mrel p m1 m2 -> skip_block_from code m1 pc = skip_block_from code m2 pc.
Proof. intros H. apply skip_block_rel. apply H. Qed.

Lemma skip_chain_rel p m1 m2 k : bij p -> mrel p m1 m2 -> forall pc, orel (Rex p Pm) (skip_chain code m1 k pc) (skip_chain code m2 k pc).
Proof.
  intros Hb H. induction k as [|k IH]; intros pc; [exact I|]. cbn [skip_chain].
  rewrite (skip_block_from_rel p m1 m2 _ H).
  destruct (skip_block_from code m2 _) as [pc2|e|s|]; simpl; auto.
  destruct (stmt_at code pc2) as [[]|]; try (apply IH); (apply orel_ok; [exact Hb|apply mrel_set_pc; exact H]).
Qed.

(** ** printing.  The two sides may run with different depth budgets (the arenas differ in size). *)
Lemma orel_bind0 {A B C D} (R : A -> B -> Prop) (S : C -> D -> Prop) x1 x2 f1 f2 :
  orel R x1 x2 -> (forall a b, R a b -> orel S (f1 a) (f2 b)) -> orel S (bind x1 f1) (bind x2 f2).
Proof.
  intros Hx Hf. destruct x1 as [a1|e1|s1|], x2 as [a2|e2|s2|]; simpl in *; auto; try contradiction.
  destruct (f1 a1); simpl; auto.
Qed.

Lemma printable_rel p h1 h2 : hrel p h1 h2 -> forall f1 f2 v1 v2, vrel p v1 v2 ->
  orel eq (printable f1 h1 v1) (printable f2 h2 v2).
Proof.
  intros H. induction f1 as [|f1 IH]; intros [|f2] v1 v2 Hv; try exact I.
  { destruct (printable (S f1) h1 v1); exact I. }
  destruct v1, v2; simpl in Hv; try contradiction; subst; cbn [printable]; try reflexivity.
  - destruct (get_list_rel _ _ _ _ _ H Hv) as (l1 & l2 & E1 & E2 & F). rewrite E1, E2. cbn [bind]. clear E1 E2.
    assert (G : forall acc1 acc2 : outcome bool, orel eq acc1 acc2 ->
              orel eq (fold_left (fun (acc : outcome bool) (e : value) => do b <- acc; if b then printable f1 h1 e else Ok false) l1 acc1)
                      (fold_left (fun (acc : outcome bool) (e : value) => do b <- acc; if b then printable f2 h2 e else Ok false) l2 acc2)).
    { induction F as [|e1 e2 l1 l2 He F IHF]; intros acc1 acc2 Ha; simpl; auto.
      apply IHF. eapply orel_bind0; [exact Ha|]. intros b1 b2 <-. destruct b1; [apply IH; exact He|reflexivity]. }
    apply G. reflexivity.
  - destruct (get_rec_rel _ _ _ _ _ H Hv) as (l1 & l2 & E1 & E2 & F). rewrite E1, E2. cbn [bind]. clear E1 E2.
    assert (G : forall acc1 acc2 : outcome bool, orel eq acc1 acc2 ->
              orel eq (fold_left (fun (acc : outcome bool) (e : text * value) => do b <- acc; if b then printable f1 h1 (snd e) else Ok false) l1 acc1)
                      (fold_left (fun (acc : outcome bool) (e : text * value) => do b <- acc; if b then printable f2 h2 (snd e) else Ok false) l2 acc2)).
    { induction F as [|e1 e2 l1 l2 He F IHF]; intros acc1 acc2 Ha; simpl; auto.
      apply IHF. eapply orel_bind0; [exact Ha|]. intros b1 b2 <-. destruct b1; [apply IH; apply He|reflexivity]. }
    apply G. reflexivity.
Qed.

Lemma render_rel p h1 h2 : hrel p h1 h2 -> forall f1 f2 v1 v2, vrel p v1 v2 ->
  orel eq (render_nested f1 h1 v1) (render_nested f2 h2 v2).
Proof.
  intros H. induction f1 as [|f1 IH]; intros [|f2] v1 v2 Hv; try exact I.
  { destruct (render_nested (S f1) h1 v1); exact I. }
  destruct v1, v2; simpl in Hv; try contradiction; subst; cbn [render_nested]; try reflexivity.
  - destruct (to_bn_num x0); reflexivity.
  - destruct (get_list_rel _ _ _ _ _ H Hv) as (l1 & l2 & E1 & E2 & F). rewrite E1, E2. cbn [bind].
    match goal with |- orel _ (bind (?g1 l1) _) (bind (?g2 l2) _) =>
      assert (G : forall es1 es2, Forall2 (vrel p) es1 es2 -> orel eq (g1 es1) (g2 es2)) end.
    { induction 1 as [|e1 e2 r1 r2 He Fr IHr]; [reflexivity|].
      destruct Fr as [|e1' e2' r1' r2' He' Fr'].
      - apply IH. exact He.
      - eapply orel_bind0; [apply IH; exact He|]. intros c1 c2 <-.
        eapply orel_bind0; [exact IHr|]. intros cs1 cs2 <-. reflexivity. }
    eapply orel_bind0; [apply G; exact F|]. intros b1 b2 <-. reflexivity.
  - destruct (get_rec_rel _ _ _ _ _ H Hv) as (l1 & l2 & E1 & E2 & F). rewrite E1, E2. cbn [bind].
    match goal with |- orel _ (bind (?g1 l1) _) (bind (?g2 l2) _) =>
      assert (G : forall es1 es2, Forall2 (erel p) es1 es2 -> orel eq (g1 es1) (g2 es2)) end.
    { induction 1 as [|[k1 e1] [k2 e2] r1 r2 [Hk He] Fr IHr]; [reflexivity|]. simpl in Hk, He. subst k2.
      eapply orel_bind0; [apply IH; exact He|]. intros c1 c2 <-.
      eapply orel_bind0; [exact IHr|]. intros cs1 cs2 <-. reflexivity. }
    eapply orel_bind0; [apply G; exact F|]. intros b1 b2 <-. reflexivity.
Qed.

Lemma do_print_rel p eol v1 v2 m1 m2 : bij p -> vrel p v1 v2 -> mrel p m1 m2 ->
  orel (Rex p Pm) (do_print code eol v1 m1) (do_print code eol v2 m2).
Proof.
  intros Hb Hv Hm. unfold do_print. cbv zeta.
  assert (Hc : forall c, orel (Rex p Pm) (Ok (next (emit m1 c))) (Ok (next (emit m2 c)))).
  { intros c. apply orel_ok; [exact Hb|]. apply mrel_next, mrel_emit, Hm. }
  assert (Hcontainer : orel (Rex p Pm)
            (do ok <- printable (depth_fuel m1) (m_heap m1) v1;
             if ok then do cs <- render_nested (depth_fuel m1) (m_heap m1) v1; Ok (next (emit_all m1 (if eol then println_last cs else cs)))
             else fail_here code ERuntime m1)
            (do ok <- printable (depth_fuel m2) (m_heap m2) v2;
             if ok then do cs <- render_nested (depth_fuel m2) (m_heap m2) v2; Ok (next (emit_all m2 (if eol then println_last cs else cs)))
             else fail_here code ERuntime m2)).
  { eapply orel_bind0; [apply (printable_rel p); [apply Hm|exact Hv]|]. intros b1 b2 <-.
    destruct b1; [|eapply fail_here_rel; exact Hm].
    eapply orel_bind0; [apply (render_rel p); [apply Hm|exact Hv]|]. intros c1 c2 <-.
    apply orel_ok; [exact Hb|]. apply mrel_next, mrel_emit_all, Hm. }
  destruct v1, v2; simpl in Hv; try contradiction; subst; try (eapply fail_here_rel; exact Hm); try apply Hc; try exact Hcontainer.
  destruct (to_bn_num x0); [apply Hc|eapply fail_here_rel; exact Hm].
Qed.

(** ** indexed assignment *)
Lemma valid_index_len {A B} (R : A -> B -> Prop) x l1 l2 : Forall2 R l1 l2 -> valid_index x (length l1) = valid_index x (length l2).
Proof. intros F. rewrite (Forall2_length' _ _ _ F). reflexivity. Qed.

Lemma assign_path_rel p path : forall m1 m2 c1 c2 v1 v2 ps, bij p -> mrel p m1 m2 -> vrel p c1 c2 -> vrel p v1 v2 ->
  orel (Rex p Pm) (assign_path m1 c1 path v1 ps) (assign_path m2 c2 path v2 ps).
Proof.
  induction path as [|ix rest IH]; intros m1 m2 c1 c2 v1 v2 ps Hb Hm Hc Hv; cbn [assign_path]; [reflexivity|].
  destruct c1, c2; simpl in Hc; try contradiction; subst; destruct ix; try (eapply fail_at_rel; exact Hm).
  - destruct (get_list_rel _ _ _ _ _ (mr_h _ _ _ Hm) Hc) as (l1 & l2 & E1 & E2 & F). rewrite E1, E2. cbn [bind].
    rewrite (valid_index_len _ x l1 l2 F). destruct (valid_index x (length l2)) as [i|]; [|eapply fail_at_rel; exact Hm].
    destruct rest.
    + apply orel_ok; [exact Hb|]. eapply mrel_set_heap; [apply ren_le_refl|exact Hm|].
      apply hrel_put_list; auto; [apply Hm|]. apply Forall2_list_set; auto.
    + apply IH; auto. apply Forall2_nth; simpl; auto.
  - destruct (get_rec_rel _ _ _ _ _ (mr_h _ _ _ Hm) Hc) as (l1 & l2 & E1 & E2 & F). rewrite E1, E2. cbn [bind].
    destruct rest.
    + apply orel_ok; [exact Hb|]. eapply mrel_set_heap; [apply ren_le_refl|exact Hm|].
      apply hrel_put_rec; auto; [apply Hm|]. apply alist_set_rel; auto.
    + pose proof (alist_get_rel p k l1 l2 F) as G. destruct (alist_get k l1), (alist_get k l2); try contradiction.
      * apply IH; auto.
      * eapply fail_at_rel; exact Hm.
Qed.

(** ** built-ins *)
Ltac args_step :=
  match goal with
  | |- orel _ (match ?x with _ => _ end) _ =>
      is_var x;
      lazymatch type of x with
      | list value => match goal with F : Forall2 _ x _ |- _ => inversion F; subst; clear F end
      | value => match goal with Hv : vrel _ x ?y |- _ => destruct x, y; simpl in Hv; try contradiction; subst end
      end; cbv beta iota
  end.

Lemma builtin_rel p op args1 args2 m1 m2 : bij p -> mrel p m1 m2 -> Forall2 (vrel p) args1 args2 ->
  orel (Rex p Pvm) (builtin_op code op args1 m1) (builtin_op code op args2 m2).
Proof.
  intros Hb Hm Fa. unfold builtin_op. cbv zeta.
  assert (Hrt : orel (Rex p Pvm) (@rt_err code (value * machine) m1) (@rt_err code (value * machine) m2)) by (eapply rt_err_rel; exact Hm).
  assert (Hsame : forall v, vrel p v v -> orel (Rex p Pvm) (Ok (v, m1)) (Ok (v, m2))).
  { intros v Hv. apply orel_ok; [exact Hb|]. split; simpl; auto. }
  rewrite <- (mr_w _ _ _ Hm).
  repeat match goal with |- orel _ (if Nat.eqb ?a ?b then _ else _) _ => destruct (Nat.eqb a b) end.
  all: try (unfold here; rewrite (mr_pc _ _ _ Hm), (mr_out _ _ _ Hm); destruct (stmt_at code (m_pc m2)); cbn [bind]).
  all: repeat args_step; try exact Hrt; try reflexivity.
  all: try (apply Hsame; simpl; auto; fail).
  all: repeat match goal with
       | R : rl _ ?a ?b |- orel _ (bind (get_list _ ?a) _) _ =>
           let l1 := fresh "l" in let l2 := fresh "l" in let E1 := fresh "E" in let E2 := fresh "E" in let F := fresh "F" in
           destruct (get_list_rel _ _ _ _ _ (mr_h _ _ _ Hm) R) as (l1 & l2 & E1 & E2 & F); rewrite E1, E2; cbn [bind]; clear E1 E2;
           try rewrite (Forall2_length' _ _ _ F)
       | |- orel _ (match ?d with _ => _ end) (match ?d with _ => _ end) => destruct d
       | |- orel _ (if ?c then _ else _) (if ?c then _ else _) => destruct c
       end; try exact Hrt; try reflexivity.
  all: try (apply Hsame; simpl; auto; fail).
  all: try (apply orel_ok; [exact Hb|]; split; [simpl; auto|]; cbn [snd]; first
         [ apply mrel_set_world; exact Hm
         | eapply mrel_set_heap; [apply ren_le_refl|exact Hm|]; apply hrel_put_list; auto; [apply Hm|];
           first [ apply Forall2_app; [assumption|constructor; [simpl; auto|constructor]]
                 | apply Forall2_insert_at; assumption
                 | apply Forall2_removelast; assumption
                 | apply Forall2_remove_at; assumption ] ]; fail).
  all: try match goal with
       | |- orel _ (let '(_, _) := alloc_list ?h1 ?l in _) (let '(_, _) := alloc_list ?h2 ?l in _) =>
           let a1 := fresh "a" in let g1 := fresh "g" in let a2 := fresh "a" in let g2 := fresh "g" in
           let E1 := fresh "E" in let E2 := fresh "E" in
           destruct (alloc_list h1 l) as [a1 g1] eqn:E1; destruct (alloc_list h2 l) as [a2 g2] eqn:E2;
           destruct (hrel_alloc_list p _ _ _ _ _ _ _ _ Hb (mr_h _ _ _ Hm) (map_VStr_rel p _) E1 E2) as (Hle & Hbq & Hr & Hh);
           exists (ext_l p a1 a2); split; [exact Hle|]; split; [exact Hbq|]; split; [exact Hr|];
           eapply mrel_set_heap; [exact Hle|exact Hm|exact Hh]
       end.
  - destruct (strings_rel p _ _ F) as [-> ->]. destruct (forallb _ l0); [apply Hsame; simpl; auto|exact Hrt].
  - rewrite (type_name_rel p x y) by assumption. apply Hsame. simpl. auto.
Qed.

Lemma call_builtin_rel p name fp args1 args2 m1 m2 : bij p -> mrel p m1 m2 -> Forall2 (vrel p) args1 args2 ->
  orel (Rex p Pvm) (call_builtin code name fp args1 m1) (call_builtin code name fp args2 m2).
Proof.
  intros Hb Hm Fa. unfold call_builtin. destruct (assoc_text name builtin_ops); [apply builtin_rel; auto|eapply fail_at_rel; exact Hm].
Qed.

(** ** the evaluator *)
Definition Prm (q : ren) (r1 r2 : list (text * value) * machine) : Prop := Forall2 (erel q) (fst r1) (fst r2) /\ mrel q (snd r1) (snd r2).
Definition Pim (q : ren) (r1 r2 : list index * machine) : Prop := fst r1 = fst r2 /\ mrel q (snd r1) (snd r2).

Definition Sev (ev : expr -> machine -> outcome (value * machine)) : Prop :=
  forall p e m1 m2, bij p -> mrel p m1 m2 -> orel (Rex p Pvm) (ev e m1) (ev e m2).
Definition Scl (cl : machine -> outcome machine) : Prop :=
  forall p m1 m2, bij p -> mrel p m1 m2 -> orel (Rex p Pm) (cl m1) (cl m2).

Section Loops.
Variable ev : expr -> machine -> outcome (value * machine).
Hypothesis Hev : Sev ev.

Lemma eval_list_rel es : forall p m1 m2, bij p -> mrel p m1 m2 -> orel (Rex p Pvsm) (eval_list ev es m1) (eval_list ev es m2).
Proof.
  induction es as [|e r IH]; intros p m1 m2 Hb Hm; cbn [eval_list].
  - apply orel_ok; [exact Hb|]. split; simpl; auto.
  - eapply orel_bind; [apply Hev; eauto|]. intros q [v1 n1] [v2 n2] Hle Hbq [Hv Hn]. simpl in Hv, Hn.
    eapply orel_bind; [apply IH; eauto|]. intros q2 [vs1 k1] [vs2 k2] Hle2 Hbq2 [Hvs Hk]. simpl in Hvs, Hk.
    apply orel_ok; [exact Hbq2|]. split; simpl; auto. constructor; auto. eapply vrel_mono; eauto.
Qed.

Lemma eval_rec_rel ks : forall vs p acc1 acc2 m1 m2, bij p -> mrel p m1 m2 -> Forall2 (erel p) acc1 acc2 ->
  orel (Rex p Prm) (eval_rec ev ks vs acc1 m1) (eval_rec ev ks vs acc2 m2).
Proof.
  induction ks as [|k ks IH]; intros vs p acc1 acc2 m1 m2 Hb Hm Ha; cbn [eval_rec].
  - apply orel_ok; [exact Hb|]. split; simpl; auto.
  - eapply orel_bind; [apply Hev; eauto|]. intros q [kv1 n1] [kv2 n2] Hle Hbq [Hv Hn]. simpl in Hv, Hn.
    assert (Ha' : Forall2 (erel q) acc1 acc2) by (eapply erels_mono; eauto).
    destruct kv1, kv2; simpl in Hv; try contradiction; subst; try (apply IH; auto; fail).
    destruct vs as [|v vs]; [reflexivity|].
    eapply orel_bind; [apply Hev; eauto|]. intros q2 [vv1 k1] [vv2 k2] Hle2 Hbq2 [Hvv Hk]. simpl in Hvv, Hk.
    apply IH; auto. apply alist_set_rel; auto. eapply erels_mono; eauto.
Qed.

Lemma bind_args_rel ps : forall args p env1 env2 m1 m2, bij p -> mrel p m1 m2 -> Forall2 (erel p) env1 env2 ->
  orel (Rex p Prm) (bind_args ev ps args env1 m1) (bind_args ev ps args env2 m2).
Proof.
  induction ps as [|x ps IH]; intros args p env1 env2 m1 m2 Hb Hm He; cbn [bind_args].
  - apply orel_ok; [exact Hb|]. split; simpl; auto.
  - destruct args as [|a args].
    + apply IH; auto. apply alist_set_rel; simpl; auto.
    + eapply orel_bind; [apply Hev; eauto|]. intros q [v1 n1] [v2 n2] Hle Hbq [Hv Hn]. simpl in Hv, Hn.
      apply IH; auto. apply alist_set_rel; auto. eapply erels_mono; eauto.
Qed.

Lemma eval_indexes_rel is : forall p m1 m2, bij p -> mrel p m1 m2 ->
  orel (Rex p Pim) (eval_indexes ev is m1) (eval_indexes ev is m2).
Proof.
  induction is as [|i1 r IH]; intros p m1 m2 Hb Hm; cbn [eval_indexes].
  - apply orel_ok; [exact Hb|]. split; simpl; auto.
  - eapply orel_bind; [apply Hev; eauto|]. intros q [v1 n1] [v2 n2] Hle Hbq [Hv Hn]. simpl in Hv, Hn.
    destruct v1, v2; simpl in Hv; try contradiction; subst; try (eapply fail_at_rel; exact Hn).
    destruct (get_list_rel _ _ _ _ _ (mr_h _ _ _ Hn) Hv) as (l1 & l2 & E1 & E2 & F). rewrite E1, E2. cbn [bind].
    destruct F as [|x1 x2 l1 l2 Hx F]; [eapply fail_at_rel; exact Hn|].
    destruct x1, x2; simpl in Hx; try contradiction; subst; try (eapply fail_at_rel; exact Hn).
    + eapply orel_bind; [apply IH; eauto|]. intros q2 [p1 k1] [p2 k2] Hle2 Hbq2 [Hp Hk]. simpl in Hp, Hk. subst.
      apply orel_ok; [exact Hbq2|]. split; simpl; auto.
    + eapply orel_bind; [apply IH; eauto|]. intros q2 [p1 k1] [p2 k2] Hle2 Hbq2 [Hp Hk]. simpl in Hp, Hk. subst.
      apply orel_ok; [exact Hbq2|]. split; simpl; auto.
Qed.
End Loops.

Lemma bind_rt_err {A B} m (f : A -> outcome B) : bind (@rt_err code A m) f = @rt_err code B m.
Proof. unfold rt_err, fail_here, unexpected_at. destruct (stmt_at code (m_pc m)); reflexivity. Qed.

Ltac vcases Hv := simpl in Hv; try contradiction; subst.

Lemma eval_step_rel ev cl : Sev ev -> Scl cl -> Sev (eval_step code ev cl).
Proof.
  intros Hev Hcl p e m1 m2 Hb Hm.
  assert (Hok : forall v1 v2, vrel p v1 v2 -> orel (Rex p Pvm) (Ok (v1, m1)) (Ok (v2, m2))).
  { intros v1 v2 Hv. apply orel_ok; [exact Hb|]. split; simpl; auto. }
  destruct e; cbn [eval_step].
  - apply Hok. simpl. auto.
  - apply Hok. simpl. auto.
  - apply Hok. simpl. auto.
  - apply Hok. simpl. auto.
  - (* variable *)
    pose proof (lookup_var_rel p x _ _ (mr_sc _ _ _ Hm)) as L.
    destruct (lookup_var x (m_scopes m1)), (lookup_var x (m_scopes m2)); try contradiction; [apply Hok; exact L|eapply rt_err_rel; exact Hm].
  - (* list literal *)
    eapply orel_bind; [apply eval_list_rel; eauto|]. intros q [vs1 n1] [vs2 n2] Hle Hbq [Hvs Hn]. simpl in Hvs, Hn.
    destruct (alloc_list (m_heap n1) vs1) as [a1 g1] eqn:E1. destruct (alloc_list (m_heap n2) vs2) as [a2 g2] eqn:E2.
    destruct (hrel_alloc_list q _ _ _ _ _ _ _ _ Hbq (mr_h _ _ _ Hn) Hvs E1 E2) as (Hle2 & Hbq2 & Hr & Hh).
    exists (ext_l q a1 a2). split; [exact Hle2|]. split; [exact Hbq2|]. split; [exact Hr|]. eapply mrel_set_heap; eauto.
  - (* record literal *)
    eapply orel_bind; [apply eval_rec_rel; eauto; constructor|]. intros q [vs1 n1] [vs2 n2] Hle Hbq [Hvs Hn]. simpl in Hvs, Hn.
    destruct (alloc_rec (m_heap n1) vs1) as [a1 g1] eqn:E1. destruct (alloc_rec (m_heap n2) vs2) as [a2 g2] eqn:E2.
    destruct (hrel_alloc_rec q _ _ _ _ _ _ _ _ Hbq (mr_h _ _ _ Hn) Hvs E1 E2) as (Hle2 & Hbq2 & Hr & Hh).
    exists (ext_r q a1 a2). split; [exact Hle2|]. split; [exact Hbq2|]. split; [exact Hr|]. eapply mrel_set_heap; eauto.
  - (* group *) apply Hev; auto.
  - (* unary *)
    eapply orel_bind; [apply Hev; eauto|]. intros q [v1 n1] [v2 n2] Hle Hbq [Hv Hn]. simpl in Hv, Hn.
    destruct v1, v2; vcases Hv; destruct o; try (eapply fail_at_rel; exact Hn);
      (apply orel_ok; [exact Hbq|]; split; simpl; auto).
  - (* binary *)
    destruct o;
    (eapply orel_bind; [apply Hev; eauto|]; intros q [v1 n1] [v2 n2] Hle Hbq [Hv Hn]; simpl in Hv, Hn;
     eapply orel_bind; [apply Hev; eauto|]; intros q2 [w1 k1] [w2 k2] Hle2 Hbq2 [Hw Hk]; simpl in Hw, Hk;
     pose proof (vrel_mono _ _ _ _ Hle2 Hv) as Hv').
    3: { (* == *) apply orel_ok; [exact Hbq2|]. split; simpl; auto. apply (value_eqb_rel q2); auto. }
    3: { (* != *) apply orel_ok; [exact Hbq2|]. split; simpl; auto. f_equal. apply (value_eqb_rel q2); auto. }
    all: try (destruct v1, v2; vcases Hv'; destruct w1, w2; vcases Hw; try (eapply fail_at_rel; exact Hk);
              try (apply orel_ok; [exact Hbq2|]; split; simpl; auto; fail)).
    + (* list + list *)
      destruct (get_list_rel _ _ _ _ _ (mr_h _ _ _ Hk) Hv') as (la1 & la2 & Ea1 & Ea2 & Fa). rewrite Ea1, Ea2. cbn [bind].
      destruct (get_list_rel _ _ _ _ _ (mr_h _ _ _ Hk) Hw) as (lb1 & lb2 & Eb1 & Eb2 & Fb). rewrite Eb1, Eb2. cbn [bind].
      destruct (alloc_list (m_heap k1) (la1 ++ lb1)) as [c1 g1] eqn:E1. destruct (alloc_list (m_heap k2) (la2 ++ lb2)) as [c2 g2] eqn:E2.
      destruct (hrel_alloc_list q2 _ _ _ _ _ _ _ _ Hbq2 (mr_h _ _ _ Hk) (Forall2_app Fa Fb) E1 E2) as (Hle3 & Hbq3 & Hr & Hh).
      exists (ext_l q2 c1 c2). split; [exact Hle3|]. split; [exact Hbq3|]. split; [exact Hr|]. eapply mrel_set_heap; eauto.
    + (* list - list *)
      destruct (get_list_rel _ _ _ _ _ (mr_h _ _ _ Hk) Hv') as (la1 & la2 & Ea1 & Ea2 & Fa). rewrite Ea1, Ea2. cbn [bind].
      destruct (get_list_rel _ _ _ _ _ (mr_h _ _ _ Hk) Hw) as (lb1 & lb2 & Eb1 & Eb2 & Fb). rewrite Eb1, Eb2. cbn [bind].
      eapply fail_at_rel; exact Hk.
  - (* call *)
    cbv zeta. destruct e; try (eapply rt_err_rel; exact Hm).
    destruct (is_builtin x).
    + eapply orel_bind; [apply eval_list_rel; eauto|]. intros q [vs1 n1] [vs2 n2] Hle Hbq [Hvs Hn]. simpl in Hvs, Hn.
      apply call_builtin_rel; auto.
    + pose proof (lookup_var_rel p x _ _ (mr_sc _ _ _ Hm)) as L.
      destruct (lookup_var x (m_scopes m1)) as [f1|], (lookup_var x (m_scopes m2)) as [f2|]; try contradiction;
        cbn [bind]; [|rewrite !bind_rt_err; eapply rt_err_rel; exact Hm].
      destruct f1, f2; vcases L; try (eapply fail_at_rel; exact Hm).
      destruct L as [-> ->].
      eapply orel_bind; [apply bind_args_rel; eauto; constructor|]. intros q [env1 n1] [env2 n2] Hle Hbq [Henv Hn]. simpl in Henv, Hn.
      assert (Hlen : length (m_scopes m1) = length (m_scopes m2)) by exact (Forall2_length' _ _ _ (mr_sc _ _ _ Hm)).
      rewrite Hlen. rewrite (mr_lp _ _ _ Hm), (mr_lb _ _ _ Hm).
      set (c1 := mkM start0 (env1 :: m_scopes n1) (m_loops n1) (length (m_loops m2)) (m_pc n1 :: m_ret n1) (m_heap n1) (m_out n1) (m_world n1) (m_collections n1)).
      set (c2 := mkM start0 (env2 :: m_scopes n2) (m_loops n2) (length (m_loops m2)) (m_pc n2 :: m_ret n2) (m_heap n2) (m_out n2) (m_world n2) (m_collections n2)).
      assert (Hc : mrel q c1 c2).
      { destruct Hn as [A B C D E F G I]. constructor; simpl; auto; try congruence. }
      destruct (stmt_at code start0) as [s0|]; [|reflexivity].
      destruct s0; try (eapply unexpected_rel; exact Hc).
      eapply orel_bind; [apply Hcl; eauto|]. intros q2 k1 k2 Hle2 Hbq2 Hk. unfold Pm in Hk.
      rewrite (mr_pc _ _ _ Hk).
      destruct (stmt_at code (m_pc k2)) as [s3|]; [|eapply rt_err_rel; exact Hk].
      destruct s3; try (eapply rt_err_rel; exact Hk).
      rewrite (mr_ret _ _ _ Hk). destruct (m_ret k2) as [|ra rets]; [reflexivity|].
      pose proof (Hev q2 e k1 k2 Hbq2 Hk) as Hr.
      destruct (ev e k1) as [[rv1 j1]| | |], (ev e k2) as [[rv2 j2]| | |]; simpl in Hr; try contradiction; try exact I; try exact Hr;
        try (destruct (_ <? _); exact I).
      destruct Hr as (q3 & Hle3 & Hbq3 & Hrv & Hj). simpl in Hrv, Hj.
      assert (Hlen2 : length (m_scopes j1) = length (m_scopes j2)) by exact (Forall2_length' _ _ _ (mr_sc _ _ _ Hj)).
      rewrite Hlen2.
      destruct (length (m_scopes j2) <? length (m_scopes m2)); [reflexivity|].
      exists q3. split; [exact Hle3|]. split; [exact Hbq3|]. split; [exact Hrv|]. cbn [snd].
      destruct Hj as [A B C D E F G I]. constructor; simpl; auto.
      * apply Forall2_truncate. exact B.
      * rewrite C. reflexivity.
  - (* index *)
    eapply orel_bind; [apply Hev; eauto|]. intros q [v1 n1] [v2 n2] Hle Hbq [Hv Hn]. simpl in Hv, Hn.
    eapply orel_bind; [apply Hev; eauto|]. intros q2 [w1 k1] [w2 k2] Hle2 Hbq2 [Hw Hk]. simpl in Hw, Hk.
    pose proof (vrel_mono _ _ _ _ Hle2 Hv) as Hv'.
    destruct v1, v2; vcases Hv'; destruct w1, w2; vcases Hw; try (eapply fail_at_rel; exact Hk).
    + destruct (get_list_rel _ _ _ _ _ (mr_h _ _ _ Hk) Hv') as (l1 & l2 & E1 & E2 & F). rewrite E1, E2. cbn [bind].
      rewrite (valid_index_len _ x0 l1 l2 F). destruct (valid_index x0 (length l2)); [|eapply fail_at_rel; exact Hk].
      apply orel_ok; [exact Hbq2|]. split; simpl; auto. apply Forall2_nth; simpl; auto.
    + destruct (get_rec_rel _ _ _ _ _ (mr_h _ _ _ Hk) Hv') as (l1 & l2 & E1 & E2 & F). rewrite E1, E2. cbn [bind].
      pose proof (alist_get_rel q2 s0 l1 l2 F) as G. destruct (alist_get s0 l1), (alist_get s0 l2); try contradiction; [|eapply fail_at_rel; exact Hk].
      apply orel_ok; [exact Hbq2|]. split; simpl; auto.
Qed.

(** ** statements *)
Lemma interp_step_rel ev : Sev ev -> Scl (interp_step code ev).
Proof.
  intros Hev p m1 m2 Hb Hm. unfold interp_step. rewrite (mr_pc _ _ _ Hm).
  destruct (stmt_at code (m_pc m2)) as [s|] eqn:Hs; [|reflexivity].
  assert (Hlen : length (m_scopes m1) = length (m_scopes m2)) by exact (Forall2_length' _ _ _ (mr_sc _ _ _ Hm)).
  destruct s.
  - eapply orel_bind; [apply Hev; eauto|]. intros q [v1 n1] [v2 n2] Hle Hbq [Hv Hn]. simpl in Hv, Hn. apply do_print_rel; auto.
  - eapply orel_bind; [apply Hev; eauto|]. intros q [v1 n1] [v2 n2] Hle Hbq [Hv Hn]. simpl in Hv, Hn. apply do_print_rel; auto.
  - (* declaration / assignment *)
    destruct k.
    + destruct init.
      * eapply orel_bind; [apply Hev; eauto|]. intros q [v1 n1] [v2 n2] Hle Hbq [Hv Hn]. simpl in Hv, Hn.
        unfold declare. pose proof (mr_sc _ _ _ Hn) as Hsc.
        destruct Hsc as [|s1 s2 r1 r2 Hs12 Hr]; cbn [bind]; [reflexivity|].
        apply orel_ok; [exact Hbq|]. apply mrel_next. apply mrel_set_scopes; auto. constructor; auto. apply alist_set_rel; auto.
      * unfold declare. pose proof (mr_sc _ _ _ Hm) as Hsc.
        destruct Hsc as [|s1 s2 r1 r2 Hs12 Hr]; cbn [bind]; [reflexivity|].
        apply orel_ok; [exact Hb|]. apply mrel_next. apply mrel_set_scopes; auto. constructor; auto. apply alist_set_rel; simpl; auto.
    + destruct init; [|reflexivity].
      eapply orel_bind; [apply Hev; eauto|]. intros q [v1 n1] [v2 n2] Hle Hbq [Hv Hn]. simpl in Hv, Hn.
      destruct idx.
      * pose proof (assign_var_rel q x v1 v2 _ _ (mr_sc _ _ _ Hn) Hv) as A.
        destruct (assign_var x v1 (m_scopes n1)), (assign_var x v2 (m_scopes n2)); try contradiction; [|eapply rt_err_rel; exact Hn].
        apply orel_ok; [exact Hbq|]. apply mrel_next. apply mrel_set_scopes; auto.
      * pose proof (lookup_var_rel q x _ _ (mr_sc _ _ _ Hn)) as L.
        destruct (lookup_var x (m_scopes n1)) as [c1|], (lookup_var x (m_scopes n2)) as [c2|]; try contradiction; [|eapply rt_err_rel; exact Hn].
        eapply orel_bind; [apply eval_indexes_rel; eauto|]. intros q2 [path1 k1] [path2 k2] Hle2 Hbq2 [Hp Hk]. simpl in Hp, Hk. subst path2.
        unfold here. rewrite (mr_pc _ _ _ Hk), (mr_out _ _ _ Hk). destruct (stmt_at code (m_pc k2)); cbn [bind]; [|reflexivity].
        pose proof (lookup_var_rel q2 x _ _ (mr_sc _ _ _ Hk)) as L2.
        destruct (lookup_var x (m_scopes k1)) as [d1|], (lookup_var x (m_scopes k2)) as [d2|]; try contradiction; [|reflexivity].
        eapply orel_bind; [apply assign_path_rel; eauto; eapply vrel_mono; eauto|].
        intros q3 j1 j2 Hle3 Hbq3 Hj. apply orel_ok; [exact Hbq3|]. apply mrel_next. exact Hj.
  - (* expression statement *)
    eapply orel_bind; [apply Hev; eauto|]. intros q [v1 n1] [v2 n2] Hle Hbq [Hv Hn]. simpl in Hv, Hn.
    apply orel_ok; [exact Hbq|]. apply mrel_next. exact Hn.
  - (* { *) apply orel_ok; [exact Hb|]. apply mrel_next. apply mrel_set_scopes; auto. constructor; [constructor|apply Hm].
  - (* } *) rewrite Hlen. destruct (length (m_scopes m2) <=? 1); [eapply rt_err_rel; exact Hm|].
    apply orel_ok; [exact Hb|]. apply mrel_next. apply mrel_set_scopes; auto. apply Forall2_tl. apply Hm.
  - (* function definition *)
    destruct (stmt_at code (S (m_pc m2))) as [s1|]; [|reflexivity].
    destruct s1; try (eapply fail_at_rel; exact Hm).
    destruct e; try (eapply fail_at_rel; exact Hm). destruct e; try (eapply fail_at_rel; exact Hm).
    match goal with |- context [match ?n with Some _ => _ | None => _ end] => destruct n as [params|] end; [|eapply fail_at_rel; exact Hm].
    unfold declare. pose proof (mr_sc _ _ _ Hm) as Hsc.
    destruct Hsc as [|s1 s2 r1 r2 Hs12 Hr]; cbn [bind]; [reflexivity|].
    rewrite (skip_block_from_rel p m1 m2 _ Hm).
    destruct (skip_block_from code m2 _) as [pc2|er|st|]; cbn [bind]; try reflexivity.
    destruct (stmt_at code pc2) as [s3|]; [|eapply unexpected_rel; exact Hm].
    destruct s3; try (eapply fail_at_rel; exact Hm).
    apply orel_ok; [exact Hb|]. apply mrel_set_pc. apply mrel_set_scopes; auto. constructor; auto. apply alist_set_rel; simpl; auto.
  - eapply rt_err_rel; exact Hm.
  - (* if *)
    eapply orel_bind; [apply Hev; eauto|]. intros q [v1 n1] [v2 n2] Hle Hbq [Hv Hn]. simpl in Hv, Hn.
    destruct v1, v2; vcases Hv; try (eapply fail_at_rel; exact Hn).
    destruct b0.
    + apply orel_ok; [exact Hbq|]. apply mrel_next. exact Hn.
    + rewrite (mr_pc _ _ _ Hn). rewrite (skip_block_from_rel q n1 n2 _ Hn).
      destruct (skip_block_from code n2 _) as [pc2|er|st|]; cbn [bind]; try reflexivity.
      destruct (stmt_at code pc2) as [[]|]; (apply orel_ok; [exact Hbq|]; apply mrel_set_pc; exact Hn).
  - (* loop *)
    destruct (stmt_at code (S (m_pc m2))) as [s1|]; [|eapply fail_at_rel; exact Hm].
    destruct s1; try (eapply fail_at_rel; exact Hm).
    rewrite (skip_block_from_rel p m1 m2 _ Hm).
    destruct (skip_block_from code m2 _) as [pc2|er|st|]; cbn [bind]; try reflexivity.
    destruct (stmt_at code pc2) as [[]|]; try (eapply fail_at_rel; exact Hm).
    rewrite Hlen, (mr_lp _ _ _ Hm). apply orel_ok; [exact Hb|]. apply mrel_set_pc. apply mrel_set_loops. exact Hm.
  - (* continue *)
    rewrite (mr_lp _ _ _ Hm), (mr_lb _ _ _ Hm). destruct (length (m_loops m2) <=? m_loop_base m2); [eapply rt_err_rel; exact Hm|].
    destruct (m_loops m2) as [|l ls]; [reflexivity|].
    apply orel_ok; [exact Hb|]. apply mrel_set_pc. apply mrel_set_scopes; auto. apply Forall2_truncate. apply Hm.
  - (* break *)
    rewrite (mr_lp _ _ _ Hm), (mr_lb _ _ _ Hm). destruct (length (m_loops m2) <=? m_loop_base m2); [eapply rt_err_rel; exact Hm|].
    destruct (m_loops m2) as [|l ls]; [reflexivity|].
    apply orel_ok; [exact Hb|]. apply mrel_set_pc. apply mrel_set_loops. apply mrel_set_scopes; auto. apply Forall2_truncate. apply Hm.
  - (* else *) apply skip_chain_rel; auto.
  - eapply rt_err_rel; exact Hm.
Qed.

Lemma call_loop_step_rel ip cl : Scl ip -> Scl cl -> Scl (call_loop_step code ip cl).
Proof.
  intros Hip Hcl p m1 m2 Hb Hm. unfold call_loop_step. rewrite (mr_pc _ _ _ Hm).
  destruct (stmt_at code (m_pc m2)) as [s|]; [|reflexivity].
  destruct s; try (eapply orel_bind; [apply Hip; eauto|]; intros q n1 n2 Hle Hbq Hn; apply Hcl; auto).
  apply orel_ok; auto.
Qed.

(** ** every fuel *)
Theorem sim_fuel : forall f, Sev (eval code f) /\ Scl (call_loop code f) /\ Scl (interp code f).
Proof.
  induction f as [|f (IHe & IHl & IHi)].
  - repeat split; intros p; intros; exact I.
  - split; [|split].
    + intros p e m1 m2 Hb Hm. rewrite !eval_S. apply eval_step_rel; auto.
    + intros p m1 m2 Hb Hm. rewrite !call_loop_S. apply call_loop_step_rel; auto.
    + intros p m1 m2 Hb Hm. rewrite !interp_S. apply interp_step_rel; auto.
Qed.
End Sim.
