(** Facts about the generated tables (coq/Tables.v is regenerated from /repo on every run, so these
    finite checks are re-proved against what the source says now). *)
From Pakhi Require Import Base Float64 Syntax Tables Lexer.
Local Open Scope N_scope.

Lemma assoc_N_In {A} k (l : list (N * A)) v : assoc_N k l = Some v -> In (k, v) l.
Proof.
  induction l as [|[k' v'] l IH]; simpl; [discriminate|].
  destruct (N.eqb k k') eqn:E.
  - intros H. injection H as <-. apply N.eqb_eq in E. subst. left. reflexivity.
  - intros H. right. apply IH, H.
Qed.

Lemma assoc_text_In {A} k (l : list (text * A)) v : assoc_text k l = Some v -> In (k, v) l.
Proof.
  induction l as [|[k' v'] l IH]; simpl; [discriminate|].
  destruct (text_eqb k k') eqn:E.
  - intros H. injection H as <-. apply text_eqb_eq in E. subst. left. reflexivity.
  - intros H. right. apply IH, H.
Qed.

Definition digit_entry_ok (e : N * Z) : bool :=
  let '(c, d) := e in is_numeric c && negb (c =? c_dot) && negb (c =? c_minus) && (0 <=? d)%Z && (d <=? 9)%Z.

Lemma lexer_digits_ok : forallb digit_entry_ok lexer_digits = true.
Proof. vm_compute. reflexivity. Qed.

Lemma digits_entry c d : assoc_N c lexer_digits = Some d -> digit_entry_ok (c, d) = true.
Proof. intros H. apply assoc_N_In in H. pose proof lexer_digits_ok as Hall. rewrite forallb_forall in Hall. apply Hall, H. Qed.

Lemma digits_numeric c d : assoc_N c lexer_digits = Some d -> is_numeric c = true.
Proof. intros H. apply digits_entry in H. unfold digit_entry_ok in H. repeat (apply andb_true_iff in H as [H ?]). exact H. Qed.

Lemma digits_not_dot c d : assoc_N c lexer_digits = Some d -> (c =? c_dot) = false.
Proof.
  intros H. apply digits_entry in H. unfold digit_entry_ok in H. repeat (apply andb_true_iff in H as [H ?]).
  match goal with Hd : negb (c =? c_dot) = true |- _ => apply negb_true_iff in Hd; exact Hd end.
Qed.

Lemma digits_not_minus c d : assoc_N c lexer_digits = Some d -> (c =? c_minus) = false.
Proof.
  intros H. apply digits_entry in H. unfold digit_entry_ok in H. repeat (apply andb_true_iff in H as [H ?]).
  match goal with Hd : negb (c =? c_minus) = true |- _ => apply negb_true_iff in Hd; exact Hd end.
Qed.

Lemma digits_range c d : assoc_N c lexer_digits = Some d -> (0 <= d <= 9)%Z.
Proof.
  intros H. apply digits_entry in H. unfold digit_entry_ok in H. repeat (apply andb_true_iff in H as [H ?]).
  split; apply Z.leb_le; assumption.
Qed.

(* the Bangla digits ০..৯ map to 0..9 in order: the lexer's digit map is the intended bijection *)
Lemma lexer_digits_bijection :
  map (fun i => assoc_N (2534 + i) lexer_digits) [0;1;2;3;4;5;6;7;8;9]
  = map Some [0;1;2;3;4;5;6;7;8;9]%Z /\ length lexer_digits = 10%nat.
Proof. vm_compute. split; reflexivity. Qed.

(* no operator or keyword of the tables is the string or end-marker kind *)
Definition plain_kind (k : tkind) : bool := match k with TStr _ | TEOT => false | _ => true end.
Lemma tables_plain_kinds :
  forallb (fun e => plain_kind (snd e)) single_ops && forallb (fun e => plain_kind (snd (fst (snd e))) && plain_kind (snd (snd e))) double_ops &&
  forallb (fun e => plain_kind (snd e)) keywords = true.
Proof. vm_compute. reflexivity. Qed.

Lemma plain_kind_prop k : plain_kind k = true -> match k with TStr _ => False | TEOT => False | _ => True end.
Proof. destruct k; simpl; intros H; try exact I; discriminate H. Qed.

Lemma tables_plain_kinds_split :
  forallb (fun e : N * tkind => plain_kind (snd e)) single_ops = true /\
  forallb (fun e : N * (N * tkind * tkind) => plain_kind (snd (fst (snd e))) && plain_kind (snd (snd e))) double_ops = true /\
  forallb (fun e : text * tkind => plain_kind (snd e)) keywords = true.
Proof.
  pose proof tables_plain_kinds as T. apply andb_true_iff in T as [T T3]. apply andb_true_iff in T as [T1 T2]. auto.
Qed.

Lemma single_ops_not_string c k : assoc_N c single_ops = Some k -> match k with TStr _ => False | _ => True end.
Proof.
  intros H. apply assoc_N_In in H. destruct tables_plain_kinds_split as (T & _ & _).
  rewrite forallb_forall in T. specialize (T _ H). simpl in T. destruct k; simpl in T; try exact I; discriminate T.
Qed.

Lemma double_ops_not_string c d k2 k1 : assoc_N c double_ops = Some (d, k2, k1) ->
  match k2 with TStr _ => False | _ => True end /\ match k1 with TStr _ => False | _ => True end.
Proof.
  intros H. apply assoc_N_In in H. destruct tables_plain_kinds_split as (_ & T & _).
  rewrite forallb_forall in T. specialize (T _ H). simpl in T. apply andb_true_iff in T as [H2 H1].
  split; [destruct k2|destruct k1]; simpl in *; try exact I; discriminate.
Qed.

Lemma keywords_not_string w k : assoc_text w keywords = Some k -> match k with TStr _ => False | TEOT => False | _ => True end.
Proof.
  intros H. apply assoc_text_In in H. destruct tables_plain_kinds_split as (_ & _ & T).
  rewrite forallb_forall in T. specialize (T _ H). simpl in T. apply plain_kind_prop. exact T.
Qed.
