(** Facts about the generated tables (coq/Tables.v is regenerated from /repo on every run, so these
    finite checks are re-proved against what the source says now). *)
From Pakhi Require Import Base Float64 Syntax Tables Lexer.
Local Open Scope N_scope.

Lemma assoc_N_In {A} k (l : list (N * A)) v : assoc_N k l = Some v -> In (k, v) l.
Proof.
  induction l as [|[k' v'] l IH]; simpl; [discriminate|].
  destruct (N.eqb k k') eqn:E.
  - intros H. injection H as <-. apply N.eqb_eq in E. subst. left. reflexivity.
  - intros H. right. apply IH, H.
Qed.

Lemma assoc_text_In {A} k (l : list (text * A)) v : assoc_text k l = Some v -> In (k, v) l.
Proof.
  induction l as [|[k' v'] l IH]; simpl; [discriminate|].
  destruct (text_eqb k k') eqn:E.
  - intros H. injection H as <-. apply text_eqb_eq in E. subst. left. reflexivity.
  - intros H. right. apply IH, H.
Qed.

Definition digit_entry_ok (e : N * Z) : bool :=
  let '(c, d) := e in is_numeric c && negb (c =? c_dot) && negb (c =? c_minus) && (0 <=? d)%Z && (d <=? 9)%Z.

Lemma lexer_digits_ok : forallb digit_entry_ok lexer_digits = true.
Proof. vm_compute. reflexivity. Qed.

Lemma digits_entry c d : assoc_N c lexer_digits = Some d -> digit_entry_ok (c, d) = true.
Proof. intros H. apply assoc_N_In in H. pose proof lexer_digits_ok as Hall. rewrite forallb_forall in Hall. apply Hall, H. Qed.

Lemma digits_numeric c d : assoc_N c lexer_digits = Some d -> is_numeric c = true.
Proof. intros H. apply digits_entry in H. unfold digit_entry_ok in H. repeat (apply andb_true_iff in H as [H ?]). exact H. Qed.

Lemma digits_not_dot c d : assoc_N c lexer_digits = Some d -> (c =? c_dot) = false.
Proof.
  intros H. apply digits_entry in H. unfold digit_entry_ok in H. repeat (apply andb_true_iff in H as [H ?]).
  match goal with Hd : negb (c =? c_dot) = true |- _ => apply negb_true_iff in Hd; exact Hd end.
Qed.

Lemma digits_not_minus c d : assoc_N c lexer_digits = Some d -> (c =? c_minus) = false.
Proof.
  intros H. apply digits_entry in H. unfold digit_entry_ok in H. repeat (apply andb_true_iff in H as [H ?]).
  match goal with Hd : negb (c =? c_minus) = true |- _ => apply negb_true_iff in Hd; exact Hd end.
Qed.

Lemma digits_range c d : assoc_N c lexer_digits = Some d -> (0 <= d <= 9)%Z.
Proof.
  intros H. apply digits_entry in H. unfold digit_entry_ok in H. repeat (apply andb_true_iff in H as [H ?]).
  split; apply Z.leb_le; assumption.
Qed.

(* the Bangla digits ০..৯ map to 0..9 in order: the lexer's digit map is the intended bijection *)
Lemma lexer_digits_bijection :
  map (fun i => assoc_N (2534 + i) lexer_digits) [0;1;2;3;4;5;6;7;8;9]
  = map Some [0;1;2;3;4;5;6;7;8;9]%Z /\ length lexer_digits = 10%nat.
Proof. vm_compute. split; reflexivity. Qed.
