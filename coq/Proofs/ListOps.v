(** C16 / C06: the list built-ins are the sequence operations on exactly the addressed list. *)
From Pakhi Require Import Base Float64 Syntax Tables Lexer Interp.
From Pakhi.Proofs Require Import GCMark Alloc.
From Coq Require Import Lia.
Local Open Scope nat_scope.

(* what a heap update of one list does: that list gets the new contents, every other list, every record, the
   free lists and the allocation counter are unchanged *)
Definition only_list_changed (h h' : heap) (a : nat) (l' : list value) : Prop :=
  nth_error (h_lists h') a = Some l' /\
  (forall b, b <> a -> nth_error (h_lists h') b = nth_error (h_lists h) b) /\
  length (h_lists h') = length (h_lists h) /\
  h_recs h' = h_recs h /\ h_free_lists h' = h_free_lists h /\ h_free_recs h' = h_free_recs h /\ h_alloc h' = h_alloc h.

Lemma nth_error_list_set_same {A} (l : list A) i v : i < length l -> nth_error (list_set l i v) i = Some v.
Proof. revert i; induction l as [|x t IH]; intros [|j] H; simpl in *; try lia; auto. apply IH; lia. Qed.
Lemma nth_error_list_set_other {A} (l : list A) i j v : i <> j -> nth_error (list_set l i v) j = nth_error l j.
Proof. revert i j; induction l as [|x t IH]; intros [|i] [|j] H; simpl; auto; try congruence. Qed.

Lemma put_list_spec h a l l' : nth_error (h_lists h) a = Some l -> only_list_changed h (put_list h a l') a l'.
Proof.
  intros Hn. assert (Ha : a < length (h_lists h)) by (apply nth_error_Some; congruence).
  unfold only_list_changed, put_list; cbn. repeat split; auto.
  - apply nth_error_list_set_same; exact Ha.
  - intros b Hb. apply nth_error_list_set_other. congruence.
  - apply list_set_length.
Qed.

Lemma get_list_ok h a l : nth_error (h_lists h) a = Some l -> get_list h a = Ok l.
Proof. unfold get_list. intros ->. reflexivity. Qed.

Section Ops.
Variable code : list fstmt.
Variable m : machine.
Variable a : nat.
Variable l : list value.
Hypothesis Hl : nth_error (h_lists (m_heap m)) a = Some l.

Definition same_but_heap (m' : machine) : Prop :=
  m_pc m' = m_pc m /\ m_scopes m' = m_scopes m /\ m_loops m' = m_loops m /\ m_out m' = m_out m /\ m_world m' = m_world m.

(* append *)
Theorem push_appends v :
  exists m', builtin_op code 2 [VList a; v] m = Ok (VNil, m') /\ same_but_heap m' /\
             only_list_changed (m_heap m) (m_heap m') a (l ++ [v]).
Proof.
  unfold builtin_op. cbn [Nat.eqb]. rewrite (get_list_ok _ _ _ Hl). cbn [bind].
  exists (set_heap m (put_list (m_heap m) a (l ++ [v]))).
  split; [destruct v; reflexivity|]. split; [repeat split|]. apply put_list_spec with (l := l). exact Hl.
Qed.

(* insert at position i shifts the tail right *)
Theorem push_at_inserts x v i : valid_index x (S (length l)) = Some i ->
  exists m', builtin_op code 2 [VList a; VNum x; v] m = Ok (VNil, m') /\ same_but_heap m' /\
             only_list_changed (m_heap m) (m_heap m') a (firstn i l ++ v :: skipn i l).
Proof.
  intros Hv. unfold builtin_op. cbn [Nat.eqb]. rewrite (get_list_ok _ _ _ Hl). cbn [bind].
  unfold valid_index in Hv. destruct (f_nonneg x) eqn:En; [|discriminate].
  destruct (Z.ltb (f_to_usize x) (Z.of_nat (S (length l)))) eqn:Elt; [|discriminate].
  injection Hv as <-.
  assert (Hle : (f_to_usize x <=? Z.of_nat (length l))%Z = true) by (apply Z.leb_le; apply Z.ltb_lt in Elt; lia).
  rewrite Hle. cbn [andb].
  eexists. split; [reflexivity|]. split; [repeat split|].
  assert (Hins : forall (l0 : list value) k, k <= length l0 -> insert_at l0 k v = firstn k l0 ++ v :: skipn k l0).
  { induction l0 as [|y t IH]; intros [|k] Hk; simpl in *; auto; try lia. rewrite IH by lia. reflexivity. }
  rewrite <- Hins.
  - apply put_list_spec with (l := l). exact Hl.
  - apply Z.leb_le in Hle. apply Z.ltb_lt in Elt. lia.
Qed.

(* an invalid position (beyond the end, negative, NaN) is an error and the machine is returned unchanged *)
Theorem push_at_invalid x v : valid_index x (S (length l)) = None ->
  builtin_op code 2 [VList a; VNum x; v] m = fail_here code ERuntime m.
Proof.
  intros Hv. unfold builtin_op. cbn [Nat.eqb]. rewrite (get_list_ok _ _ _ Hl). cbn [bind].
  unfold valid_index in Hv. destruct (f_nonneg x) eqn:En; [|reflexivity].
  destruct (Z.ltb (f_to_usize x) (Z.of_nat (S (length l)))) eqn:Elt; [discriminate|].
  assert (Hle : (f_to_usize x <=? Z.of_nat (length l))%Z = false) by (apply Z.leb_gt; apply Z.ltb_ge in Elt; lia).
  rewrite Hle. reflexivity.
Qed.

(* remove last *)
Theorem pop_removes_last :
  exists m', builtin_op code 3 [VList a] m = Ok (VNil, m') /\ same_but_heap m' /\
             only_list_changed (m_heap m) (m_heap m') a (removelast l).
Proof.
  unfold builtin_op. cbn [Nat.eqb]. rewrite (get_list_ok _ _ _ Hl). cbn [bind].
  eexists. split; [reflexivity|]. split; [repeat split|]. apply put_list_spec with (l := l). exact Hl.
Qed.

(* remove at position i shifts the tail left *)
Theorem pop_at_removes x i : valid_index x (length l) = Some i ->
  exists m', builtin_op code 3 [VList a; VNum x] m = Ok (VNil, m') /\ same_but_heap m' /\
             only_list_changed (m_heap m) (m_heap m') a (firstn i l ++ skipn (S i) l).
Proof.
  intros Hv. unfold builtin_op. cbn [Nat.eqb]. rewrite (get_list_ok _ _ _ Hl). cbn [bind]. rewrite Hv.
  eexists. split; [reflexivity|]. split; [repeat split|].
  assert (Hrem : forall (l0 : list value) k, remove_at l0 k = firstn k l0 ++ skipn (S k) l0).
  { induction l0 as [|y t IH]; intros [|k]; simpl; auto. rewrite IH. reflexivity. }
  rewrite <- Hrem. apply put_list_spec with (l := l). exact Hl.
Qed.

Theorem pop_at_invalid x : valid_index x (length l) = None ->
  builtin_op code 3 [VList a; VNum x] m = fail_here code ERuntime m.
Proof.
  intros Hv. unfold builtin_op. cbn [Nat.eqb]. rewrite (get_list_ok _ _ _ Hl). cbn [bind]. rewrite Hv. reflexivity.
Qed.

(* length counts the elements and changes nothing *)
Theorem len_counts : builtin_op code 4 [VList a] m = Ok (VNum (f_of_nat (length l)), m).
Proof. unfold builtin_op. cbn [Nat.eqb]. rewrite (get_list_ok _ _ _ Hl). reflexivity. Qed.
End Ops.

(* a non-list argument is an error that leaves everything as it was *)
Theorem list_ops_reject_non_lists code m v w :
  (forall a, v <> VList a) ->
  builtin_op code 2 [v; w] m = fail_here code ERuntime m /\
  builtin_op code 3 [v] m = fail_here code ERuntime m /\
  builtin_op code 4 [v] m = fail_here code ERuntime m.
Proof.
  intros Hv. unfold builtin_op. cbn [Nat.eqb].
  destruct v; try (repeat split; reflexivity). exfalso. eapply Hv. reflexivity.
Qed.

Lemma f_to_usize_nonneg x : (0 <= f_to_usize x)%Z.
Proof.
  unfold f_to_usize, usize_max.
  destruct x as [s|s| |s mm e]; try lia.
  - destruct s; lia.
  - destruct s; [lia|].
    apply Z.min_glb; [|lia].
    destruct (0 <=? e)%Z eqn:E.
    + apply Z.mul_nonneg_nonneg; [lia|]. apply Z.pow_nonneg. lia.
    + apply Z.leb_gt in E. apply Z.div_pos; [lia|]. apply Z.pow_pos_nonneg; lia.
Qed.

(* valid_index is the intended test: the position truncated towards zero lies in [0, len) *)
Lemma valid_index_spec x len i : valid_index x len = Some i -> i < len.
Proof.
  unfold valid_index. destruct (f_nonneg x); [|discriminate].
  destruct (Z.ltb (f_to_usize x) (Z.of_nat len)) eqn:E; [|discriminate].
  intros H; injection H as <-. apply Z.ltb_lt in E.
  pose proof (f_to_usize_nonneg x). lia.
Qed.

Lemma valid_index_nan len : valid_index S754_nan len = None.
Proof. reflexivity. Qed.
Lemma valid_index_negative m e len : valid_index (S754_finite true m e) len = None.
Proof. reflexivity. Qed.
