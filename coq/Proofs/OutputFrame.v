(** C18: no statement but a print statement writes.  Evaluating an expression that calls no user function -- built-ins
    included: none of them writes -- leaves the output exactly as it was, and so does every statement other than দেখাও /
    _দেখাও whose expressions call no user function (a call runs other statements, which may be prints).  Together with
    "output only grows" (Output.v) and the rendering theorems: the text written is made of the renderings of the executed
    print statements and nothing else. *)
From Pakhi Require Import Base Float64 Syntax Tables Lexer Interp.
From Pakhi.Proofs Require Import Unfold.
From Coq Require Import Lia.
Local Open Scope nat_scope.

(* no call of a user function anywhere in the expression *)
Fixpoint nocall (e : expr) : bool :=
  match e with
  | ENil _ | EBool _ _ | ENum _ _ | EStr _ _ | EVar _ _ => true
  | EList es _ => forallb nocall es
  | ERec ks vs _ => forallb nocall ks && forallb nocall vs
  | EGroup e1 _ | EUn _ e1 _ => nocall e1
  | EBin _ l r _ => nocall l && nocall r
  | ECall f args _ => match f with EVar name _ => is_builtin name | _ => true end && forallb nocall args
  | EIndex a i _ => nocall a && nocall i
  end.

Definition keeps {A} (o : list chunk) (proj : A -> machine) (x : outcome A) : Prop :=
  match x with Ok a => m_out (proj a) = o | _ => True end.

Lemma keeps_bind {A B} o (pa : A -> machine) (pb : B -> machine) (x : outcome A) (f : A -> outcome B) :
  keeps o pa x -> (forall a, x = Ok a -> keeps (m_out (pa a)) pb (f a)) -> keeps o pb (bind x f).
Proof.
  intros Hx Hf. destruct x as [a|e|s|]; simpl in *; auto.
  specialize (Hf a eq_refl). rewrite Hx in Hf. exact Hf.
Qed.

Section Frame.
Variable code : list fstmt.

Definition snd2 {A} (x : A * machine) : machine := snd x.

Lemma builtin_keeps op args m : keeps (m_out m) snd2 (builtin_op code op args m).
Proof.
  unfold builtin_op.
  assert (Hf : keeps (m_out m) snd2 (@rt_err code (value * machine) m)).
  { unfold rt_err, fail_here, unexpected_at. destruct (stmt_at code (m_pc m)); exact I. }
  repeat match goal with
  | |- keeps _ _ (if Nat.eqb ?a ?b then _ else _) => destruct (Nat.eqb a b)
  end;
  repeat match goal with
  | |- keeps _ _ (Ok _) => reflexivity
  | |- keeps _ _ (rt_err _ _) => exact Hf
  | |- keeps _ _ (Panic _) => exact I
  | |- keeps _ _ (Err _) => exact I
  | |- keeps _ _ (match ?x with _ => _ end) => is_var x; destruct x
  | |- keeps _ _ (bind (get_list ?h ?a) _) => unfold get_list; destruct (nth_error (h_lists h) a); cbn [bind]
  | |- keeps _ _ (bind (here _ ?mm) _) => unfold here; destruct (stmt_at code (m_pc mm)); cbn [bind]
  | |- keeps _ _ (match fs_get ?a ?b with _ => _ end) => destruct (fs_get a b) as [[?| |]|]
  | |- keeps _ _ (if ?c then _ else _) => destruct c
  | |- keeps _ _ (match valid_index ?a ?b with _ => _ end) => destruct (valid_index a b)
  | |- keeps _ _ (match parse_f64 ?a with _ => _ end) => destruct (parse_f64 a)
  | |- keeps _ _ (match w_stdin ?a with _ => _ end) => destruct (w_stdin a)
  | |- keeps _ _ (match mkdirs ?a ?b with _ => _ end) => destruct (mkdirs a b)
  | |- keeps _ _ (let '(_, _) := alloc_list ?a ?b in _) => destruct (alloc_list a b)
  | |- keeps _ _ (let p := _ in _) => cbv zeta
  end.
Qed.

Lemma call_builtin_keeps name p args m : keeps (m_out m) snd2 (call_builtin code name p args m).
Proof. unfold call_builtin. destruct (assoc_text name builtin_ops); [apply builtin_keeps|exact I]. Qed.

Section Loops.
Variable ev : expr -> machine -> outcome (value * machine).
Variable ok : expr -> bool.
Hypothesis Hev : forall e m, ok e = true -> keeps (m_out m) snd2 (ev e m).

Lemma eval_list_keeps es : forall m, forallb ok es = true -> keeps (m_out m) snd2 (eval_list ev es m).
Proof.
  induction es as [|e r IH]; intros m Hn; simpl; [reflexivity|]. simpl in Hn. apply andb_true_iff in Hn as [H1 H2].
  eapply keeps_bind; [apply Hev; exact H1|]. intros [v m1] _. simpl.
  eapply keeps_bind; [apply IH; exact H2|]. intros [vs m2] _. simpl. reflexivity.
Qed.

Lemma forallb_tl {A} (f : A -> bool) l : forallb f l = true -> forallb f (tl l) = true.
Proof. destruct l; simpl; auto. intros H. apply andb_true_iff in H. apply H. Qed.

Lemma eval_rec_keeps ks : forall vs acc m, forallb ok ks = true -> forallb ok vs = true -> keeps (m_out m) snd2 (eval_rec ev ks vs acc m).
Proof.
  induction ks as [|k ks IH]; intros vs acc m Hk Hv; simpl; [reflexivity|]. simpl in Hk. apply andb_true_iff in Hk as [H1 H2].
  eapply keeps_bind; [apply Hev; exact H1|]. intros [kv m1] _. simpl.
  destruct kv; try (apply IH; auto; apply forallb_tl; exact Hv).
  destruct vs as [|v vs]; [exact I|]. simpl in Hv. apply andb_true_iff in Hv as [V1 V2].
  eapply keeps_bind; [apply Hev; exact V1|]. intros [vv m2] _. simpl. apply IH; auto.
Qed.

Lemma eval_indexes_keeps is : forall m, forallb ok is = true -> keeps (m_out m) snd2 (eval_indexes ev is m).
Proof.
  induction is as [|i1 r IH]; intros m0 Hn; simpl; [reflexivity|]. simpl in Hn. apply andb_true_iff in Hn as [H1 H2].
  eapply keeps_bind; [apply Hev; exact H1|]. intros [iv m2] _. simpl.
  destruct iv; try exact I.
  unfold get_list. destruct (nth_error _ _) as [l|]; cbn [bind]; [|exact I].
  destruct l as [|[ | | | | | | ] ?]; try exact I;
    (eapply keeps_bind; [apply IH; exact H2|]; intros [pp m3] _; simpl; reflexivity).
Qed.
End Loops.

Lemma forallb_impl_nocall es : forallb nocall es = true -> forallb nocall es = true. Proof. auto. Qed.

(* one layer: with sub-evaluations that keep the output, and no user call at this node, the call loop is never entered *)
Lemma eval_step_keeps ev cl : (forall e m, nocall e = true -> keeps (m_out m) snd2 (ev e m)) ->
  forall e m, nocall e = true -> keeps (m_out m) snd2 (eval_step code ev cl e m).
Proof.
  intros Hev e m Hn. destruct e; cbn [eval_step]; simpl in Hn; try reflexivity.
  - destruct (lookup_var x (m_scopes m)); [reflexivity|]. unfold rt_err, fail_here, unexpected_at. destruct (stmt_at code (m_pc m)); exact I.
  - eapply keeps_bind; [apply (eval_list_keeps ev nocall Hev); exact Hn|]. intros [vs m1] _. simpl. destruct (alloc_list _ _). reflexivity.
  - apply andb_true_iff in Hn as [H1 H2].
    eapply keeps_bind; [apply (eval_rec_keeps ev nocall Hev); assumption|]. intros [r m1] _. simpl. destruct (alloc_rec _ _). reflexivity.
  - apply Hev. exact Hn.
  - eapply keeps_bind; [apply Hev; exact Hn|]. intros [v m1] _. simpl. destruct v; destruct o; try exact I; reflexivity.
  - apply andb_true_iff in Hn as [H1 H2].
    destruct o;
    (eapply keeps_bind; [apply Hev; assumption|]; intros [v1 m1] _; simpl;
     eapply keeps_bind; [apply Hev; assumption|]; intros [v2 m2] _; simpl;
     try (destruct v1; destruct v2; try exact I; try reflexivity)).
    all: try (unfold get_list; destruct (nth_error _ _); cbn [bind]; [|exact I]; destruct (nth_error _ _); cbn [bind]; [|exact I];
              try destruct (alloc_list _ _); try reflexivity; try exact I).
  - apply andb_true_iff in Hn as [H1 H2].
    destruct e; try (unfold rt_err, fail_here, unexpected_at; destruct (stmt_at code (m_pc m)); exact I).
    rewrite H1.
    eapply keeps_bind; [apply (eval_list_keeps ev nocall Hev); exact H2|]. intros [vs m1] _. simpl. apply call_builtin_keeps.
  - apply andb_true_iff in Hn as [H1 H2].
    eapply keeps_bind; [apply Hev; exact H1|]. intros [av m1] _. simpl.
    eapply keeps_bind; [apply Hev; exact H2|]. intros [iv m2] _. simpl.
    destruct av; destruct iv; try exact I.
    + unfold get_list. destruct (nth_error _ _); cbn [bind]; [|exact I]. destruct (valid_index _ _); [reflexivity|exact I].
    + unfold get_rec. destruct (nth_error _ _); cbn [bind]; [|exact I]. destruct (alist_get _ _); [reflexivity|exact I].
Qed.

Theorem eval_keeps_output : forall f e m, nocall e = true -> keeps (m_out m) snd2 (eval code f e m).
Proof.
  induction f as [|f IH]; intros e m Hn; [exact I|]. rewrite eval_S. apply eval_step_keeps; auto.
Qed.

(** statements *)
Definition quiet (s : fstmt) : bool :=
  match s with
  | FPrint _ _ | FPrintNoEol _ _ => false
  | FAssign _ _ _ idx init _ => forallb nocall idx && match init with Some e => nocall e | None => true end
  | FExpr e _ | FReturn e _ | FIf e _ => nocall e
  | _ => true
  end.

Lemma assign_path_keeps path : forall m c v p, keeps (m_out m) (fun x => x) (assign_path m c path v p).
Proof.
  induction path as [|ix rest IH]; intros m c v p; simpl; [exact I|].
  destruct c; destruct ix; try exact I.
  - unfold get_list. destruct (nth_error _ _) as [l|]; cbn [bind]; [|exact I].
    destruct (valid_index _ _); [|exact I]. destruct rest; [reflexivity|apply IH].
  - unfold get_rec. destruct (nth_error _ _) as [r|]; cbn [bind]; [|exact I].
    destruct rest; [reflexivity|]. destruct (alist_get k r); [apply IH|exact I].
Qed.

Lemma skip_then_keeps {A} o m pc (k : nat -> outcome A) (p : A -> machine) :
  (forall pc2, keeps o p (k pc2)) -> keeps o p (bind (skip_block_from code m pc) k).
Proof. intros Hk. destruct (skip_block_from code m pc) as [pc2|e|s|]; simpl; auto. Qed.

Lemma skip_chain_keeps m k : forall pc, keeps (m_out m) (fun x => x) (skip_chain code m k pc).
Proof.
  induction k as [|k IHk]; intros pc; [exact I|]. cbn [skip_chain].
  apply skip_then_keeps. intros pc2. destruct (stmt_at code pc2) as [[]|]; try reflexivity. apply IHk.
Qed.

Theorem quiet_statement_keeps_output f m s : stmt_at code (m_pc m) = Some s -> quiet s = true ->
  keeps (m_out m) (fun x => x) (interp code f m).
Proof.
  intros Hs Hq. destruct f as [|f]; [exact I|]. rewrite interp_S. unfold interp_step. rewrite Hs.
  assert (Hev : forall e m, nocall e = true -> keeps (m_out m) snd2 (eval code f e m)) by (intros; apply eval_keeps_output; assumption).
  destruct s; simpl in Hq; try discriminate.
  - apply andb_true_iff in Hq as [Q1 Q2]. destruct k.
    + destruct init.
      * eapply keeps_bind; [apply Hev; exact Q2|]. intros [v m1] _. simpl. unfold declare. destruct (m_scopes m1); simpl; auto.
      * unfold declare. destruct (m_scopes m); simpl; auto.
    + destruct init; [|exact I].
      eapply keeps_bind; [apply Hev; exact Q2|]. intros [v m1] _. simpl.
      destruct idx.
      * destruct (assign_var x v (m_scopes m1)); [reflexivity|]. unfold rt_err, fail_here, unexpected_at. destruct (stmt_at code (m_pc m1)); exact I.
      * destruct (lookup_var x (m_scopes m1)) as [c|]; [|unfold rt_err, fail_here, unexpected_at; destruct (stmt_at code (m_pc m1)); exact I].
        eapply keeps_bind; [apply (eval_indexes_keeps (eval code f) nocall Hev); exact Q1|]. intros [path m2] _. simpl.
        unfold here. destruct (stmt_at code (m_pc m2)) eqn:Est2; cbn [bind]; [|exact I].
        destruct (lookup_var x (m_scopes m2)) as [c2|]; [|exact I].
        eapply (keeps_bind _ (fun x => x)); [apply assign_path_keeps|]. intros m3 _. simpl. reflexivity.
  - eapply keeps_bind; [apply Hev; exact Hq|]. intros [v m1] _. simpl. reflexivity.
  - reflexivity.
  - destruct (length (m_scopes m) <=? 1); [unfold rt_err, fail_here, unexpected_at; destruct (stmt_at code (m_pc m)); exact I|reflexivity].
  - destruct (stmt_at code (S (m_pc m))) as [s1|]; [|exact I].
    destruct s1; try exact I.
    destruct e; try exact I. destruct e; try exact I.
    match goal with |- context [match ?n with Some _ => _ | None => _ end] => destruct n end; [|exact I].
    unfold declare. destruct (m_scopes m); simpl; auto.
    apply skip_then_keeps. intros pc2. destruct (stmt_at code pc2) as [s2|]; [|exact I].
    destruct s2; try exact I. reflexivity.
  - unfold rt_err, fail_here, unexpected_at. destruct (stmt_at code (m_pc m)); exact I.
  - eapply keeps_bind; [apply Hev; exact Hq|]. intros [v m1] _. simpl.
    destruct v; try exact I. destruct b; [reflexivity|].
    apply skip_then_keeps. intros pc2. destruct (stmt_at code pc2) as [[]|]; reflexivity.
  - destruct (stmt_at code (S (m_pc m))) as [s1|]; [|exact I]. destruct s1; try exact I.
    apply skip_then_keeps. intros pc2. destruct (stmt_at code pc2) as [[]|]; try exact I. reflexivity.
  - destruct (length (m_loops m) <=? m_loop_base m); [unfold rt_err, fail_here, unexpected_at; destruct (stmt_at code (m_pc m)); exact I|]. destruct (m_loops m); simpl; auto.
  - destruct (length (m_loops m) <=? m_loop_base m); [unfold rt_err, fail_here, unexpected_at; destruct (stmt_at code (m_pc m)); exact I|]. destruct (m_loops m); simpl; auto.
  - apply skip_chain_keeps.
  - unfold rt_err, fail_here, unexpected_at. destruct (stmt_at code (m_pc m)); exact I.
Qed.
End Frame.
