(** C04 / C03: each loop iteration starts with a fresh body scope.  Under the frame invariant (function bodies and top
    level alike) a continue -- the loop's closing one or one taken from anywhere inside the body -- followed by the next
    statement leaves the machine at the first statement of the body with a NEW EMPTY scope on top of exactly the scopes
    that were open when the loop was entered: whatever the abandoned iteration declared is gone. *)
From Pakhi Require Import Base Float64 Syntax Tables Lexer Interp.
From Pakhi.Proofs Require Import Unfold Control Scope Frames WF WFOps FrameInv.
From Coq Require Import Lia ZArith.
Local Open Scope nat_scope.

Section Iter.
Variable code : list fstmt.

Theorem continue_then_fresh_scope F fuel m p l ls : frame_static code F -> finv code F m ->
  stmt_at code (m_pc m) = Some (FContinue p) -> m_loops m = l :: ls -> m_loop_base m < length (m_loops m) ->
  exists m1, interp code (S fuel) m = Ok m1 /\
             interp code (S fuel) m1 = Ok (next (set_scopes m1 ([] :: m_scopes m1))) /\
             m_scopes m1 = truncate (l_depth l) (m_scopes m) /\ length (m_scopes m1) = l_depth l /\
             m_pc m1 = l_start l /\ m_loops m1 = m_loops m.
Proof.
  intros FS FI Hs Hl Hb.
  destruct (finv_continue code F m l ls FS FI Hl Hb) as [FI1 Hle].
  set (m1 := set_pc (set_scopes m (truncate (l_depth l) (m_scopes m))) (l_start l)).
  exists m1. split; [apply (continue_innermost code fuel m p l ls Hs Hl Hb)|].
  destruct FI as [A1 A2 A3 (fl & A4 & A5 & A6 & A7) A8 A9].
  assert (Lk : loop_ok code F l).
  { destruct fl as [|l0 fl']; [simpl in A4; rewrite A4, A8 in Hb; lia|]. rewrite Hl in A4. cbn [app] in A4. injection A4 as <- _. inversion A5; assumption. }
  destruct (lk_bs code F l Lk) as [bp Hbs].
  split; [apply (interp_block_start code fuel m1 bp); exact Hbs|].
  split; [reflexivity|]. split; [unfold m1; cbn [set_pc set_scopes m_scopes]; apply truncate_exact; exact Hle|]. split; reflexivity.
Qed.
End Iter.
