(** C09: a plain decimal text denotes the double nearest to the decimal number it spells (ties to even).
    The model of str::parse::<f64> converts the digit string to an exact integer N and the number of fraction digits k
    and rounds N / 10^k ONCE: by SpecFloat.binary_normalize when k = 0, by SpecFloat.SFdiv of the exact integers N and
    10^k otherwise.  Flocq proves both roundings correct with respect to the real numbers (binary_normalize_correct,
    Bdiv_correct_aux -- neither needs the mantissas to fit the format) and proves the executable SpecFloat functions
    equal to its own (IEEE754/PrimFloat.v: binary_round_aux_equiv, binary_normalize_equiv).  Hence: the value of
    [sign] digits [. digits] is  round-to-nearest-even(+-N / 10^k)  in binary64.
    Axioms: this file depends on Coq's real numbers (ClassicalDedekindReals.sig_not_dec, sig_forall_dec,
    FunctionalExtensionality.functional_extensionality_dep, Classical_Prop.classic), as all of Flocq does. *)
From Coq Require Import ZArith Reals Lia Lra List.
From Flocq Require Import Core.Core IEEE754.BinarySingleNaN IEEE754.PrimFloat.
From Pakhi Require Import Base Float64.
From Pakhi.Proofs Require Import NumText.
Import ListNotations.
Local Open Scope Z_scope.

Notation fexp64 := (SpecFloat.fexp 53 1024).
Definition rnd64 (x : R) : R := round radix2 fexp64 ZnearestE x.
Definition fits64 (x : R) : Prop := (Rabs (rnd64 x) < bpow radix2 1024)%R.

Lemma F2R_exp0 m : F2R (Float radix2 m 0) = IZR m.
Proof. unfold F2R. simpl. ring. Qed.

Lemma fits_bool x : fits64 x -> Rlt_bool (Rabs (rnd64 x)) (bpow radix2 1024) = true.
Proof. intros H. apply Rlt_bool_true. exact H. Qed.

(** ** the two roundings of the model *)
Lemma div_case neg mp q :
  let x := (IZR (SpecFloat.cond_Zopp neg (Zpos mp)) / IZR (Zpos q))%R in
  fits64 x ->
  SF2R radix2 (SFdiv Float64.prec Float64.emax (S754_finite neg mp 0) (S754_finite false q 0)) = rnd64 x.
Proof.
  intros x Hf. apply fits_bool in Hf. unfold rnd64 in *. unfold SFdiv.
  pose proof (Bdiv_correct_aux 53 1024 (eq_refl : Prec_gt_0 53) (eq_refl : Prec_lt_emax 53 1024) mode_NE neg mp 0 false q 0) as C.
  cbv zeta in C. rewrite !F2R_exp0 in C. cbn [SpecFloat.cond_Zopp] in C. fold x in C.
  change (round_mode mode_NE) with ZnearestE in C. rewrite Hf in C.
  destruct (SFdiv_core_binary Float64.prec Float64.emax (Z.pos mp) 0 (Z.pos q) 0) as [[mz ez] lz] eqn:E.
  change Float64.prec with 53 in E. change Float64.emax with 1024 in E. rewrite E in C.
  change Float64.prec with FloatOps.prec. change Float64.emax with FloatOps.emax.
  rewrite binary_round_aux_equiv. destruct C as (_ & C & _). exact C.
Qed.

Lemma norm_case M szero :
  fits64 (IZR M) -> SF2R radix2 (SpecFloat.binary_normalize Float64.prec Float64.emax M 0 szero) = rnd64 (IZR M).
Proof.
  intros Hf. apply fits_bool in Hf. unfold rnd64 in *.
  change Float64.prec with FloatOps.prec. change Float64.emax with FloatOps.emax.
  rewrite binary_normalize_equiv, SF2R_B2SF.
  pose proof (binary_normalize_correct FloatOps.prec FloatOps.emax Hprec Hmax mode_NE M 0 szero) as C.
  cbv zeta in C. rewrite F2R_exp0 in C. change (round_mode mode_NE) with ZnearestE in C.
  change FloatOps.prec with 53 in *. change FloatOps.emax with 1024 in *. rewrite Hf in C. destruct C as (C & _). exact C.
Qed.

(** ** the decimal-to-binary conversion: (-1)^neg * m * 10^e10 for e10 <= 0, rounded once *)
Definition dec_real (neg : bool) (m k : Z) : R := ((if neg then -1 else 1) * IZR m / IZR (10 ^ k))%R.

Lemma pow10_pos k : 0 <= k -> 0 < 10 ^ k.
Proof. intros H. apply Z.pow_pos_nonneg; lia. Qed.

Theorem dec_to_f64_nearest neg m k : 0 <= m -> 0 <= k -> fits64 (dec_real neg m k) ->
  SF2R radix2 (dec_to_f64 neg m (- k)) = rnd64 (dec_real neg m k).
Proof.
  intros Hm Hk Hf. unfold dec_to_f64.
  destruct (m <=? 0) eqn:Em0.
  { apply Z.leb_le in Em0. assert (m = 0) by lia. subst m. unfold dec_real, rnd64. cbn [SF2R].
    replace ((if neg then -1 else 1) * 0 / IZR (10 ^ k))%R with 0%R by (unfold Rdiv; ring). rewrite round_0; [reflexivity|]. apply valid_rnd_N. }
  apply Z.leb_gt in Em0.
  destruct (0 <=? - k) eqn:Ek.
  - apply Z.leb_le in Ek. assert (k = 0) by lia. subst k. cbn [Z.opp Z.pow] in *. rewrite Z.mul_1_r.
    assert (E : dec_real neg m 0 = IZR (if neg then - m else m)).
    { unfold dec_real. cbn [Z.pow]. destruct neg; [rewrite opp_IZR|]; field. }
    rewrite E in *. apply norm_case. exact Hf.
  - destruct m as [|mp|mp]; try lia.
    pose proof (pow10_pos k Hk) as Hp. rewrite Z.opp_involutive.
    assert (E : dec_real neg (Z.pos mp) k = (IZR (SpecFloat.cond_Zopp neg (Z.pos mp)) / IZR (Z.pos (Z.to_pos (10 ^ k))))%R).
    { unfold dec_real. rewrite Z2Pos.id by exact Hp. destruct neg; cbn [SpecFloat.cond_Zopp].
      - change (Z.neg mp) with (- Z.pos mp). rewrite opp_IZR. unfold Rdiv. ring.
      - unfold Rdiv. ring. }
    rewrite E in *. apply div_case. exact Hf.
Qed.

(** ** together *)
Theorem plain_decimal_is_nearest neg ip dotted fp :
  all_digits ip -> all_digits fp -> ip ++ fp <> [] -> (dotted = false -> fp = []) ->
  let N := digits_val 0 (ip ++ fp) in
  let k := Z.of_nat (length fp) in
  (* not absurdly small: fewer than 400 zeros after the point before the first significant digit *)
  - 400 <= Z.of_nat (length (strip_zeros (ip ++ fp))) - k ->
  (* no overflow *)
  fits64 (dec_real neg N k) ->
  exists v, parse_f64 (decimal_text neg ip dotted fp) = Some v /\ SF2R radix2 v = rnd64 (dec_real neg N k).
Proof.
  intros Hi Hf Hne Hd N k Hsmall Hfit.
  rewrite (parse_plain_decimal neg ip dotted fp Hi Hf Hne Hd). eexists. split; [reflexivity|].
  assert (HN : 0 <= N).
  { unfold N. apply digits_val_nonneg; [|lia]. apply Forall_app. split; assumption. }
  unfold dec_to_f64_clamped. fold N. fold k.
  destruct (N <=? 0) eqn:E0.
  { apply Z.leb_le in E0. assert (N = 0) by lia.
    unfold dec_real, rnd64. cbn [SF2R]. rewrite H.
    replace ((if neg then -1 else 1) * 0 / IZR (10 ^ k))%R with 0%R by (unfold Rdiv; ring). rewrite round_0; [reflexivity|]. apply valid_rnd_N. }
  assert (Hk : 0 <= k) by (unfold k; lia).
  destruct (400 <? - k) eqn:E1; [apply Z.ltb_lt in E1; lia|].
  destruct (Z.of_nat (length (strip_zeros (ip ++ fp))) + - k <? -400) eqn:E2; [apply Z.ltb_lt in E2; lia|].
  apply dec_to_f64_nearest; assumption.
Qed.

(** ** a Pakhi number literal: Bangla digits, optional leading '-', optional single fractional part *)
From Pakhi Require Import Syntax Tables Lexer.
From Pakhi.Proofs Require Import TableFacts Num.

Lemma lexer_digit_values : forallb (fun e => (0 <=? snd e) && (snd e <=? 9)) lexer_digits = true.
Proof. vm_compute. reflexivity. Qed.

Lemma digit_char_ascii c d : assoc_N c lexer_digits = Some d -> is_ascii_digit (digit_char d) = true.
Proof.
  intros H. apply assoc_N_In in H. pose proof lexer_digit_values as T. rewrite forallb_forall in T. specialize (T _ H).
  cbn [snd] in T. apply andb_true_iff in T as [T1 T2]. apply Z.leb_le in T1, T2.
  unfold is_ascii_digit, digit_char. apply andb_true_iff. split; apply N.leb_le; lia.
Qed.

Lemma num_scan_shape rest : forall in_frac line file s k, num_scan rest in_frac line file = Ok (s, k) ->
  if in_frac then all_digits s
  else exists ip (dotted : bool) fp, s = ip ++ (if dotted then c_dot :: fp else []) /\ all_digits ip /\ all_digits fp /\ (dotted = false -> fp = []).
Proof.
  induction rest as [|c r IH]; intros in_frac line file s k H.
  - cbn in H. injection H as <- <-. destruct in_frac; [constructor|]. exists (nil : text), false, (nil : text). repeat split; constructor.
  - cbn [num_scan] in H. destruct (N.eqb c c_dot) eqn:Ed.
    + destruct in_frac; [discriminate|].
      destruct (num_scan r true line file) as [[s' n']| | |] eqn:E; cbn [bind] in H; try discriminate. injection H as <- <-.
      pose proof (IH true line file s' n' E) as Hs. cbv iota in Hs.
      exists (nil : text), true, s'. repeat split; [constructor|exact Hs|discriminate].
    + destruct (is_numeric c) eqn:En.
      * destruct (assoc_N c lexer_digits) as [d|] eqn:Ea; [|discriminate].
        destruct (num_scan r in_frac line file) as [[s' n']| | |] eqn:E; cbn [bind] in H; try discriminate. injection H as <- <-.
        pose proof (IH in_frac line file s' n' E) as Hs. pose proof (digit_char_ascii c d Ea) as Hd.
        destruct in_frac; [constructor; assumption|].
        destruct Hs as (ip & dotted & fp & -> & Hi & Hf & Hz). exists (digit_char d :: ip), dotted, fp.
        repeat split; [constructor; assumption|exact Hf|exact Hz].
      * injection H as <- <-. destruct in_frac; [constructor|]. exists (nil : text), false, (nil : text). repeat split; constructor.
Qed.

(** the value of a literal the lexer accepts: the double nearest to the decimal number its digits spell *)
Theorem literal_is_nearest rest line file v n : consume_num rest line file = Ok (v, n) ->
  exists neg ip dotted fp,
    all_digits ip /\ all_digits fp /\ ip ++ fp <> [] /\ (dotted = false -> fp = []) /\
    parse_f64 (decimal_text neg ip dotted fp) = Some v /\
    let N := digits_val 0 (ip ++ fp) in
    let k := Z.of_nat (length fp) in
    (- 400 <= Z.of_nat (length (strip_zeros (ip ++ fp))) - k -> fits64 (dec_real neg N k) ->
     SF2R radix2 v = rnd64 (dec_real neg N k)).
Proof.
  intros H. destruct (literal_value rest line file v n H) as (sign & body & s & k0 & Hs & Hp & Hsign).
  pose proof (num_scan_shape body false line file s k0 Hs) as (ip & dotted & fp & -> & Hi & Hf & Hz).
  assert (Hneg : exists neg : bool, sign = if neg then [c_minus] else []).
  { destruct Hsign as [(-> & _)|(-> & _)]; [exists true|exists false]; reflexivity. }
  destruct Hneg as [neg ->].
  assert (Hne : ip ++ fp <> []).
  { intros E. apply app_eq_nil in E as [-> ->]. destruct neg, dotted; vm_compute in Hp; discriminate. }
  exists neg, ip, dotted, fp. split; [exact Hi|]. split; [exact Hf|]. split; [exact Hne|]. split; [exact Hz|]. split; [exact Hp|].
  intros N k Hsmall Hfit.
  destruct (plain_decimal_is_nearest neg ip dotted fp Hi Hf Hne Hz Hsmall Hfit) as (v' & Hv' & Hr).
  pose proof (eq_trans (eq_sym Hv') Hp : Some v' = Some v) as E. injection E as <-. exact Hr.
Qed.

(** ** texts of reasonable length neither overflow nor underflow to the clamp *)
Lemma digits_val_lt ds : all_digits ds -> forall acc, 0 <= acc -> digits_val acc ds < (acc + 1) * 10 ^ Z.of_nat (length ds).
Proof.
  induction 1 as [|c ds Hc _ IH]; intros acc Ha; cbn [digits_val length]; [cbn; lia|].
  unfold is_ascii_digit in Hc. apply andb_true_iff in Hc as [H1 H2]. apply N.leb_le in H1, H2.
  assert (Hd : 0 <= digit_val c <= 9) by (unfold digit_val; lia).
  specialize (IH (acc * 10 + digit_val c) ltac:(lia)).
  rewrite Nat2Z.inj_succ, Z.pow_succ_r by lia.
  assert (0 < 10 ^ Z.of_nat (length ds)) by (apply Z.pow_pos_nonneg; lia). nia.
Qed.

Lemma fits64_le x : (Rabs x <= bpow radix2 1023)%R -> fits64 x.
Proof.
  intros H. unfold fits64, rnd64. apply Rle_lt_trans with (bpow radix2 1023).
  - apply abs_round_le_generic; [|apply valid_rnd_N| |exact H].
    + apply fexp_correct. reflexivity.
    + apply generic_format_bpow. unfold SpecFloat.fexp, SpecFloat.emin. lia.
  - apply bpow_lt. lia.
Qed.

Lemma pow10_300 : 10 ^ 300 <= 2 ^ 1023.
Proof. apply Z.leb_le. vm_compute. reflexivity. Qed.

Theorem reasonable_text_fits neg ip fp : all_digits ip -> all_digits fp -> (length ip <= 300)%nat ->
  fits64 (dec_real neg (digits_val 0 (ip ++ fp)) (Z.of_nat (length fp))).
Proof.
  intros Hi Hf Hl. apply fits64_le. set (N := digits_val 0 (ip ++ fp)). set (k := Z.of_nat (length fp)).
  assert (HN0 : 0 <= N) by (apply digits_val_nonneg; [apply Forall_app; split; assumption|lia]).
  assert (HN : N < 10 ^ Z.of_nat (length ip) * 10 ^ k).
  { pose proof (digits_val_lt (ip ++ fp) ltac:(apply Forall_app; split; assumption) 0 ltac:(lia)) as H.
    rewrite app_length, Nat2Z.inj_add, Z.pow_add_r in H by lia. fold N k in H. lia. }
  assert (Hk : 0 < 10 ^ k) by (apply Z.pow_pos_nonneg; unfold k; lia).
  assert (Hi300 : 10 ^ Z.of_nat (length ip) <= 10 ^ 300) by (apply Z.pow_le_mono_r; lia).
  unfold dec_real.
  assert (E : Rabs ((if neg then -1 else 1) * IZR N / IZR (10 ^ k)) = (IZR N / IZR (10 ^ k))%R).
  { assert (0 < IZR (10 ^ k))%R by (apply IZR_lt; exact Hk). assert (0 <= IZR N)%R by (apply IZR_le; exact HN0).
    assert (Hq : (0 <= IZR N / IZR (10 ^ k))%R) by (apply Rmult_le_pos; [assumption|left; apply Rinv_0_lt_compat; assumption]).
    destruct neg.
    - replace (-1 * IZR N / IZR (10 ^ k))%R with (- (IZR N / IZR (10 ^ k)))%R by (unfold Rdiv; ring). rewrite Rabs_Ropp. apply Rabs_pos_eq. exact Hq.
    - replace (1 * IZR N / IZR (10 ^ k))%R with (IZR N / IZR (10 ^ k))%R by (unfold Rdiv; ring). apply Rabs_pos_eq. exact Hq. }
  rewrite E.
  apply Rle_trans with (IZR (10 ^ Z.of_nat (length ip))).
  - assert (0 < IZR (10 ^ k))%R by (apply IZR_lt; exact Hk).
    apply Rmult_le_reg_r with (IZR (10 ^ k)); [assumption|]. unfold Rdiv. rewrite Rmult_assoc, Rinv_l, Rmult_1_r by lra.
    rewrite <- mult_IZR. apply IZR_le. lia.
  - apply Rle_trans with (IZR (2 ^ 1023)); [apply IZR_le; pose proof pow10_300; lia|].
    right. change (2 ^ 1023) with (Zpower radix2 1023). apply IZR_Zpower. lia.
Qed.

(** the statement in its plainest form: a literal with at most 300 digits on either side of the point denotes the
    double nearest (ties to even) to the decimal number its digits spell *)
Theorem literal_of_reasonable_length_is_nearest rest line file v n : consume_num rest line file = Ok (v, n) ->
  exists neg ip dotted fp,
    all_digits ip /\ all_digits fp /\ ip ++ fp <> [] /\ (dotted = false -> fp = []) /\
    parse_f64 (decimal_text neg ip dotted fp) = Some v /\
    ((length ip <= 300)%nat -> (length fp <= 300)%nat ->
     SF2R radix2 v = rnd64 (dec_real neg (digits_val 0 (ip ++ fp)) (Z.of_nat (length fp)))).
Proof.
  intros H. destruct (literal_is_nearest rest line file v n H) as (neg & ip & dotted & fp & Hi & Hf & Hne & Hz & Hp & Hr).
  exists neg, ip, dotted, fp. split; [exact Hi|]. split; [exact Hf|]. split; [exact Hne|]. split; [exact Hz|]. split; [exact Hp|].
  intros L1 L2. apply Hr; [lia|]. apply reasonable_text_fits; assumption.
Qed.
