(** C13 / C18: output only grows.  Whatever a statement or expression does -- calls included --, what was written
    before is still there afterwards, in the same order, also in the error value when execution stops. *)
From Pakhi Require Import Base Float64 Syntax Tables Lexer Interp.
From Coq Require Import Lia.
Local Open Scope nat_scope.

Definition ext (o o' : list chunk) : Prop := exists cs, o' = cs ++ o.     (* outputs are stored newest first *)
Lemma ext_refl o : ext o o. Proof. exists []. reflexivity. Qed.
Lemma ext_trans a b c : ext a b -> ext b c -> ext a c.
Proof. intros [x ->] [y ->]. exists (y ++ x). rewrite app_assoc. reflexivity. Qed.
Lemma ext_cons o c : ext o (c :: o). Proof. exists [c]. reflexivity. Qed.

(* postcondition "output extends o" for an outcome whose Ok payload contains a machine *)
Definition R_out {A} (o : list chunk) (proj : A -> machine) (x : outcome A) : Prop :=
  match x with
  | Ok a => ext o (m_out (proj a))
  | Err er => ext o (e_out er)
  | _ => True
  end.

Lemma R_bind {A B} o (pa : A -> machine) (pb : B -> machine) (x : outcome A) (f : A -> outcome B) :
  R_out o pa x -> (forall a, x = Ok a -> R_out (m_out (pa a)) pb (f a)) -> R_out o pb (bind x f).
Proof.
  intros Hx Hf. destruct x as [a|e|s|]; simpl in *; auto.
  specialize (Hf a eq_refl). destruct (f a) as [b|e|s|]; simpl in *; auto; eapply ext_trans; eauto.
Qed.

Lemma R_weaken {A} o o1 (p : A -> machine) x : ext o o1 -> R_out o1 p x -> R_out o p x.
Proof. intros H. destruct x; simpl; auto; intros; eapply ext_trans; eauto. Qed.

Lemma R_ok {A} o (p : A -> machine) a : ext o (m_out (p a)) -> R_out o p (Ok a).
Proof. auto. Qed.

Section Out.
Variable code : list fstmt.

Lemma R_fail_here {A} k m (p : A -> machine) : R_out (m_out m) p (fail_here code k m).
Proof. unfold fail_here, unexpected_at. destruct (stmt_at code (m_pc m)); simpl; apply ext_refl. Qed.
Lemma R_fail_at {A} k q m (p : A -> machine) : R_out (m_out m) p (fail_at k q m).
Proof. simpl. apply ext_refl. Qed.
Lemma R_unexpected {A} m (p : A -> machine) : R_out (m_out m) p (unexpected_at m).
Proof. simpl. apply ext_refl. Qed.

Definition snd2 {A} (x : A * machine) : machine := snd x.

(* loops of the evaluator *)
Section Loops.
Variable ev : expr -> machine -> outcome (value * machine).
Hypothesis Hev : forall e m, R_out (m_out m) snd2 (ev e m).

Lemma eval_list_out es : forall m, R_out (m_out m) snd2 (eval_list ev es m).
Proof.
  induction es as [|e r IH]; intros m; simpl; [apply ext_refl|].
  eapply R_bind; [apply Hev|]. intros [v m1] _. simpl.
  eapply R_bind; [apply IH|]. intros [vs m2] _. simpl. apply ext_refl.
Qed.

Lemma eval_rec_out ks : forall vs acc m, R_out (m_out m) snd2 (eval_rec ev ks vs acc m).
Proof.
  induction ks as [|k ks IH]; intros vs acc m; simpl; [apply ext_refl|].
  eapply R_bind; [apply Hev|]. intros [kv m1] _. simpl.
  destruct kv; try apply IH.
  destruct vs as [|v vs]; [exact I|].
  eapply R_bind; [apply Hev|]. intros [vv m2] _. simpl. apply IH.
Qed.

Lemma bind_args_out ps : forall args env m, R_out (m_out m) snd2 (bind_args ev ps args env m).
Proof.
  induction ps as [|p ps IH]; intros args env m; simpl; [apply ext_refl|].
  destruct args as [|a args]; [apply IH|].
  eapply R_bind; [apply Hev|]. intros [v m1] _. simpl. apply IH.
Qed.
End Loops.

(* built-ins never write *)
Lemma builtin_out op args m : R_out (m_out m) snd2 (builtin_op code op args m).
Proof.
  unfold builtin_op.
  assert (Hf : R_out (m_out m) snd2 (@rt_err code (value * machine) m)) by apply R_fail_here.
  repeat match goal with
  | |- R_out _ _ (if Nat.eqb ?a ?b then _ else _) => destruct (Nat.eqb a b)
  end;
  repeat match goal with
  | |- R_out _ _ (Ok _) => apply ext_refl
  | |- R_out _ _ (rt_err _ _) => exact Hf
  | |- R_out _ _ (Panic _) => exact I
  | |- R_out _ _ (Err _) => apply ext_refl
  | |- R_out _ _ (match ?x with _ => _ end) => is_var x; destruct x
  | |- R_out _ _ (bind (get_list ?h ?a) _) => unfold get_list; destruct (nth_error (h_lists h) a); cbn [bind]
  | |- R_out _ _ (bind (here _ ?mm) _) => unfold here; destruct (stmt_at code (m_pc mm)); cbn [bind]
  | |- R_out _ _ (match fs_get ?a ?b with _ => _ end) => destruct (fs_get a b) as [[?| |]|]
  | |- R_out _ _ (if ?c then _ else _) => destruct c
  | |- R_out _ _ (match valid_index ?a ?b with _ => _ end) => destruct (valid_index a b)
  | |- R_out _ _ (match parse_f64 ?a with _ => _ end) => destruct (parse_f64 a)
  | |- R_out _ _ (match w_stdin ?a with _ => _ end) => destruct (w_stdin a)
  | |- R_out _ _ (match mkdirs ?a ?b with _ => _ end) => destruct (mkdirs a b)
  | |- R_out _ _ (let '(_, _) := alloc_list ?a ?b in _) => destruct (alloc_list a b)
  | |- R_out _ _ (let p := _ in _) => cbv zeta
  end.
Qed.

Lemma call_builtin_out name p args m : R_out (m_out m) snd2 (call_builtin code name p args m).
Proof. unfold call_builtin. destruct (assoc_text name builtin_ops); [apply builtin_out|apply R_fail_at]. Qed.

Lemma emit_all_ext cs : forall m, ext (m_out m) (m_out (emit_all m cs)).
Proof.
  unfold emit_all. induction cs as [|c cs IH]; intros m; simpl; [apply ext_refl|].
  eapply ext_trans; [|apply IH]. simpl. apply ext_cons.
Qed.

Lemma printable_not_err fuel : forall h v, match printable fuel h v with Err _ => False | _ => True end.
Proof.
  induction fuel as [|f IH]; intros h v; simpl; auto.
  destruct v; simpl; auto.
  - unfold get_list. destruct (nth_error (h_lists h) a) as [l|]; cbn [bind]; auto.
    assert (G : forall (acc : outcome bool), match acc with Err _ => False | _ => True end ->
              match fold_left (fun (acc : outcome bool) (e : value) => do b <- acc; if b then printable f h e else Ok false) l acc with Err _ => False | _ => True end).
    { induction l as [|e l IHl]; intros acc Ha; simpl; auto. apply IHl.
      destruct acc as [b| | |]; simpl; auto. destruct b; simpl; auto. apply IH. }
    apply G. exact I.
  - unfold get_rec. destruct (nth_error (h_recs h) a) as [r|]; cbn [bind]; auto.
    assert (G : forall (acc : outcome bool), match acc with Err _ => False | _ => True end ->
              match fold_left (fun (acc : outcome bool) (e : text * value) => do b <- acc; if b then printable f h (snd e) else Ok false) r acc with Err _ => False | _ => True end).
    { induction r as [|e r IHr]; intros acc Ha; simpl; auto. apply IHr.
      destruct acc as [b| | |]; simpl; auto. destruct b; simpl; auto. apply IH. }
    apply G. exact I.
Qed.

Lemma render_not_err fuel : forall h v, match render_nested fuel h v with Err _ => False | _ => True end.
Proof.
  induction fuel as [|f IH]; intros h v; simpl; auto.
  destruct v; simpl; auto.
  - destruct (to_bn_num x); exact I.
  - unfold get_list. destruct (nth_error (h_lists h) a) as [l|]; cbn [bind]; auto.
    match goal with |- context [bind (?g l) _] => assert (G : forall es, match g es with Err _ => False | _ => True end) end.
    { induction es as [|e es IHes]; simpl; auto. destruct es as [|e2 es].
      - apply IH.
      - pose proof (IH h e) as He. destruct (render_nested f h e); simpl; auto.
        match goal with |- context [bind ?x _] => destruct x end; simpl in *; auto. }
    specialize (G l). match goal with |- context [bind ?x _] => destruct x end; simpl in *; auto.
  - unfold get_rec. destruct (nth_error (h_recs h) a) as [r|]; cbn [bind]; auto.
    match goal with |- context [bind (?g r) _] => assert (G : forall es, match g es with Err _ => False | _ => True end) end.
    { induction es as [|[k e] es IHes]; simpl; auto.
      pose proof (IH h e) as He. destruct (render_nested f h e); simpl; auto.
      match goal with |- context [bind ?x _] => destruct x end; simpl in *; auto. }
    specialize (G r). match goal with |- context [bind ?x _] => destruct x end; simpl in *; auto.
Qed.

Lemma do_print_out eol v m : R_out (m_out m) (fun x => x) (do_print code eol v m).
Proof.
  unfold do_print. cbv zeta.
  destruct v; try apply R_fail_here.
  - destruct (to_bn_num x); [|apply R_fail_here]. simpl. destruct eol; apply ext_cons.
  - simpl. destruct eol; apply ext_cons.
  - simpl. destruct eol; apply ext_cons.
  - pose proof (printable_not_err (depth_fuel m) (m_heap m) (VList a)) as Hp.
    destruct (printable (depth_fuel m) (m_heap m) (VList a)) as [ok| | |]; cbn [bind R_out]; auto; [|contradiction].
    destruct ok; [|apply R_fail_here].
    pose proof (render_not_err (depth_fuel m) (m_heap m) (VList a)) as Hr.
    destruct (render_nested (depth_fuel m) (m_heap m) (VList a)) as [cs| | |]; cbn [bind R_out]; auto; [|contradiction].
    apply emit_all_ext.
  - pose proof (printable_not_err (depth_fuel m) (m_heap m) (VRec a)) as Hp.
    destruct (printable (depth_fuel m) (m_heap m) (VRec a)) as [ok| | |]; cbn [bind R_out]; auto; [|contradiction].
    destruct ok; [|apply R_fail_here].
    pose proof (render_not_err (depth_fuel m) (m_heap m) (VRec a)) as Hr.
    destruct (render_nested (depth_fuel m) (m_heap m) (VRec a)) as [cs| | |]; cbn [bind R_out]; auto; [|contradiction].
    apply emit_all_ext.
Qed.

Lemma assign_path_out path : forall m c v p, R_out (m_out m) (fun x => x) (assign_path m c path v p).
Proof.
  induction path as [|ix rest IH]; intros m c v p; simpl; [exact I|].
  destruct c; destruct ix; try apply R_fail_at.
  - unfold get_list. destruct (nth_error _ _) as [l|]; cbn [bind]; [|exact I].
    destruct (valid_index _ _); [|apply R_fail_at]. destruct rest; [apply ext_refl|apply IH].
  - unfold get_rec. destruct (nth_error _ _) as [r|]; cbn [bind]; [|exact I].
    destruct rest; [apply ext_refl|]. destruct (alist_get k r); [apply IH|apply R_fail_at].
Qed.

Lemma skip_block_out fuel : forall m pc d, match skip_block code fuel m pc d with Err er => ext (m_out m) (e_out er) | _ => True end.
Proof.
  induction fuel as [|f IH]; intros m pc d; simpl; auto.
  destruct (stmt_at code pc) as [s|]; [|simpl; apply ext_refl].
  destruct s; try apply IH. destruct d as [|[|d]]; [simpl; apply ext_refl|exact I|apply IH].
Qed.

Lemma skip_then {A} m pc (k : nat -> outcome A) (p : A -> machine) :
  (forall pc2, R_out (m_out m) p (k pc2)) -> R_out (m_out m) p (bind (skip_block_from code m pc) k).
Proof.
  intros Hk. unfold skip_block_from. pose proof (skip_block_out (S (length code - pc)) m pc 0) as H.
  destruct (skip_block code _ m pc 0) as [pc2|e|s|]; simpl; auto.
Qed.

Lemma skip_chain_out m k : forall pc, R_out (m_out m) (fun x => x) (skip_chain code m k pc).
Proof.
  induction k as [|k IHk]; intros pc; [exact I|]. cbn [skip_chain].
  apply skip_then. intros pc2. destruct (stmt_at code pc2) as [[]|]; try (simpl; apply ext_refl). apply IHk.
Qed.

Section Steps.
Variable ev : expr -> machine -> outcome (value * machine).
Variable cl : machine -> outcome machine.
Variable ip : machine -> outcome machine.
Hypothesis Hev : forall e m, R_out (m_out m) snd2 (ev e m).
Hypothesis Hcl : forall m, R_out (m_out m) (fun x => x) (cl m).
Hypothesis Hip : forall m, R_out (m_out m) (fun x => x) (ip m).

Lemma eval_indexes_out is : forall m, R_out (m_out m) snd2 (eval_indexes ev is m).
Proof.
  induction is as [|i1 r IH]; intros m0; simpl; [apply ext_refl|].
  eapply R_bind; [apply Hev|]. intros [iv m2] _. simpl.
  destruct iv; try apply R_fail_at.
  unfold get_list. destruct (nth_error _ _) as [l|]; cbn [bind]; [|exact I].
  destruct l as [|[ | | | | | | ] ?]; try apply R_fail_at;
    (eapply R_bind; [apply IH|]; intros [pp m3] _; simpl; apply ext_refl).
Qed.

Lemma eval_step_out e m : R_out (m_out m) snd2 (eval_step code ev cl e m).
Proof.
  destruct e; cbn [eval_step]; try apply ext_refl.
  - (* var *) destruct (lookup_var x (m_scopes m)); [apply ext_refl|apply R_fail_here].
  - (* list *) eapply R_bind; [apply eval_list_out; exact Hev|]. intros [vs m1] _. simpl. destruct (alloc_list _ _). apply ext_refl.
  - (* rec *) eapply R_bind; [apply eval_rec_out; exact Hev|]. intros [r m1] _. simpl. destruct (alloc_rec _ _). apply ext_refl.
  - (* group *) apply Hev.
  - (* unary *) eapply R_bind; [apply Hev|]. intros [v m1] _. simpl. destruct v; destruct o; try apply R_fail_at; apply ext_refl.
  - (* binary *)
    destruct o;
    (eapply R_bind; [apply Hev|]; intros [v1 m1] _; simpl;
     eapply R_bind; [apply Hev|]; intros [v2 m2] _; simpl;
     try (destruct v1; destruct v2; try apply R_fail_at; try apply ext_refl)).
    all: try (unfold get_list; destruct (nth_error _ _); cbn [bind]; [|exact I]; destruct (nth_error _ _); cbn [bind]; [|exact I];
              try destruct (alloc_list _ _); try apply ext_refl; try apply R_fail_at).
  - (* call *)
    destruct e; try apply R_fail_here.
    destruct (is_builtin x).
    + eapply R_bind; [apply eval_list_out; exact Hev|]. intros [vs m1] _. simpl. apply call_builtin_out.
    + eapply R_bind with (pa := fun _ => m).
      { destruct (lookup_var x (m_scopes m)) as [fv|]; [apply ext_refl|apply R_fail_here]. }
      intros fv _. cbn beta.
      destruct fv; try apply R_fail_at.
      eapply R_bind; [apply bind_args_out; exact Hev|]. intros [env m1] _. simpl.
      destruct (stmt_at code start) as [s0|]; [|exact I].
      destruct s0; try apply ext_refl.
      eapply (R_bind _ (fun x => x)); [exact (Hcl _)|].
      intros m3 _. simpl.
      destruct (stmt_at code (m_pc m3)) as [s3|]; [|apply R_fail_here].
      destruct s3; try apply R_fail_here.
      destruct (m_ret m3); [exact I|].
      pose proof (Hev e m3) as Hr. destruct (ev e m3) as [[rv m4]| | |]; simpl in *; auto.
      destruct (length (m_scopes m4) <? length (m_scopes m)); simpl; auto.
  - (* index *)
    eapply R_bind; [apply Hev|]. intros [av m1] _. simpl.
    eapply R_bind; [apply Hev|]. intros [iv m2] _. simpl.
    destruct av; destruct iv; try apply R_fail_at.
    + unfold get_list. destruct (nth_error _ _); cbn [bind]; [|exact I]. destruct (valid_index _ _); [apply ext_refl|apply R_fail_at].
    + unfold get_rec. destruct (nth_error _ _); cbn [bind]; [|exact I]. destruct (alist_get _ _); [apply ext_refl|apply R_fail_at].
Qed.

Lemma interp_step_out m : R_out (m_out m) (fun x => x) (interp_step code ev m).
Proof.
  unfold interp_step. destruct (stmt_at code (m_pc m)) as [s|]; [|exact I].
  destruct s.
  - eapply R_bind; [apply Hev|]. intros [v m1] _. simpl. apply do_print_out.
  - eapply R_bind; [apply Hev|]. intros [v m1] _. simpl. apply do_print_out.
  - destruct k.
    + destruct init.
      * eapply R_bind; [apply Hev|]. intros [v m1] _. simpl. unfold declare. destruct (m_scopes m1); simpl; auto. apply ext_refl.
      * unfold declare. destruct (m_scopes m); simpl; auto. apply ext_refl.
    + destruct init; [|exact I].
      eapply R_bind; [apply Hev|]. intros [v m1] _. simpl.
      destruct idx.
      * destruct (assign_var x v (m_scopes m1)); [apply ext_refl|apply R_fail_here].
      * destruct (lookup_var x (m_scopes m1)) as [c|]; [|apply R_fail_here].
        eapply R_bind; [apply eval_indexes_out|]. intros [path m2] _. simpl.
        unfold here. destruct (stmt_at code (m_pc m2)); cbn [bind]; [|simpl; apply ext_refl].
        destruct (lookup_var x (m_scopes m2)) as [c2|]; [|exact I].
        eapply (R_bind _ (fun x => x)); [apply assign_path_out|]. intros m3 _. simpl. apply ext_refl.
  - eapply R_bind; [apply Hev|]. intros [v m1] _. simpl. apply ext_refl.
  - simpl. apply ext_refl.
  - destruct (length (m_scopes m) <=? 1); [apply R_fail_here|simpl; apply ext_refl].
  - (* funcdef *)
    destruct (stmt_at code (S (m_pc m))) as [s1|]; [|exact I].
    destruct s1; try apply R_fail_at.
    destruct e; try apply R_fail_at. destruct e; try apply R_fail_at.
    match goal with |- context [match ?n with Some _ => _ | None => _ end] => destruct n end; [|apply R_fail_at].
    unfold declare. destruct (m_scopes m); simpl; auto.
    apply skip_then. intros pc2. destruct (stmt_at code pc2) as [s2|]; [|apply R_unexpected].
    destruct s2; try apply R_fail_at. simpl. apply ext_refl.
  - apply R_fail_here.
  - (* if *)
    eapply R_bind; [apply Hev|]. intros [v m1] _. simpl.
    destruct v; try apply R_fail_at. destruct b; [simpl; apply ext_refl|].
    apply skip_then. intros pc2. destruct (stmt_at code pc2) as [[]|]; simpl; apply ext_refl.
  - (* loop *)
    destruct (stmt_at code (S (m_pc m))) as [s1|]; [|apply R_fail_at]. destruct s1; try apply R_fail_at.
    apply skip_then. intros pc2. destruct (stmt_at code pc2) as [[]|]; try apply R_fail_at. simpl. apply ext_refl.
  - destruct (length (m_loops m) <=? m_loop_base m); [apply R_fail_here|]. destruct (m_loops m); simpl; auto. apply ext_refl.
  - destruct (length (m_loops m) <=? m_loop_base m); [apply R_fail_here|]. destruct (m_loops m); simpl; auto. apply ext_refl.
  - apply skip_chain_out.
  - apply R_fail_here.
Qed.

Lemma call_loop_step_out m : R_out (m_out m) (fun x => x) (call_loop_step code ip cl m).
Proof.
  unfold call_loop_step. destruct (stmt_at code (m_pc m)) as [s|]; [|exact I].
  destruct s; try (eapply (R_bind _ (fun x => x) (fun x => x)); [apply Hip|intros m1 _; apply Hcl]).
  simpl. apply ext_refl.
Qed.
End Steps.

Definition P_eval (f : nat) : Prop := forall e m, R_out (m_out m) snd2 (eval code f e m).
Definition P_loop (f : nat) : Prop := forall m, R_out (m_out m) (fun x => x) (call_loop code f m).
Definition P_interp (f : nat) : Prop := forall m, R_out (m_out m) (fun x => x) (interp code f m).

Theorem out_monotone : forall f, P_eval f /\ P_loop f /\ P_interp f.
Proof.
  induction f as [|f (IHe & IHl & IHi)]; [repeat split; intros; exact I|].
  split; [|split].
  - intros e m. apply eval_step_out; assumption.
  - intros m. apply call_loop_step_out; assumption.
  - intros m. apply interp_step_out; assumption.
Qed.

(** Everything printed before a statement is preserved -- also when the statement fails *)
Theorem interp_preserves_output fuel m :
  match interp code fuel m with
  | Ok m' => ext (m_out m) (m_out m')
  | Err er => ext (m_out m) (e_out er)
  | _ => True
  end.
Proof. destruct (out_monotone fuel) as (_ & _ & H). apply (H m). Qed.

Theorem eval_preserves_output fuel e m :
  match eval code fuel e m with
  | Ok (_, m') => ext (m_out m) (m_out m')
  | Err er => ext (m_out m) (e_out er)
  | _ => True
  end.
Proof. destruct (out_monotone fuel) as (H & _ & _). specialize (H e m). destruct (eval code fuel e m) as [[v m']| | |]; exact H. Qed.
End Out.
