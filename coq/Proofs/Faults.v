(** C13 / C18: located errors, all-or-nothing printing, stop at the first error. *)
From Pakhi Require Import Base Float64 Syntax Tables Lexer Interp.
From Pakhi.Proofs Require Import Unfold Output.
From Coq Require Import Lia.
Local Open Scope nat_scope.

Section Faults.
Variable code : list fstmt.

(* _এরর(m) reports exactly m, as a runtime error located at the statement being executed, with the output so far *)
Theorem user_error_exact m msg s : stmt_at code (m_pc m) = Some s ->
  builtin_op code 6 [VStr msg] m = Err (mkErr ERuntime (p_line (stmt_pos s)) (p_file (stmt_pos s)) (TagUser msg) (m_out m)).
Proof. intros Hs. unfold builtin_op. cbn [Nat.eqb]. unfold here. rewrite Hs. reflexivity. Qed.

(* every error raised "here" names file and line of the statement under the cursor and carries the output so far *)
Theorem fail_here_located k m s : stmt_at code (m_pc m) = Some s ->
  @fail_here code machine k m = Err (mkErr k (p_line (stmt_pos s)) (p_file (stmt_pos s)) TagGeneric (m_out m)).
Proof. intros Hs. unfold fail_here. rewrite Hs. reflexivity. Qed.

(* the fault kinds of C13 at the evaluator: each is an error value with the documented kind, located, never a panic *)
Theorem undeclared_name_fault ev cl x p m s : stmt_at code (m_pc m) = Some s -> lookup_var x (m_scopes m) = None ->
  eval_step code ev cl (EVar x p) m = Err (mkErr ERuntime (p_line (stmt_pos s)) (p_file (stmt_pos s)) TagGeneric (m_out m)).
Proof. intros Hs Hl. cbn [eval_step]. rewrite Hl. unfold rt_err, fail_here. rewrite Hs. reflexivity. Qed.

Theorem operand_type_fault ev cl l r p m m1 m2 s b :
  ev l m = Ok (VStr s, m1) -> ev r m1 = Ok (VNum b, m2) ->
  eval_step code ev cl (EBin BAdd l r p) m = Err (mkErr EType (p_line (expr_pos l)) (p_file (expr_pos l)) TagGeneric (m_out m2)).
Proof. intros H1 H2. cbn [eval_step]. rewrite H1. cbn [bind]. rewrite H2. reflexivity. Qed.

Theorem index_out_of_range_fault ev cl a i p m m1 m2 addr x l :
  ev a m = Ok (VList addr, m1) -> ev i m1 = Ok (VNum x, m2) ->
  nth_error (h_lists (m_heap m2)) addr = Some l -> valid_index x (length l) = None ->
  eval_step code ev cl (EIndex a i p) m = Err (mkErr ERuntime (p_line (expr_pos i)) (p_file (expr_pos i)) TagGeneric (m_out m2)).
Proof.
  intros H1 H2 Hl Hv. cbn [eval_step]. rewrite H1. cbn [bind]. rewrite H2. cbn [bind].
  unfold get_list. rewrite Hl. cbn [bind]. rewrite Hv. reflexivity.
Qed.

Theorem missing_key_fault ev cl a i p m m1 m2 addr k r :
  ev a m = Ok (VRec addr, m1) -> ev i m1 = Ok (VStr k, m2) ->
  nth_error (h_recs (m_heap m2)) addr = Some r -> alist_get k r = None ->
  eval_step code ev cl (EIndex a i p) m = Err (mkErr ERuntime (p_line (expr_pos i)) (p_file (expr_pos i)) TagGeneric (m_out m2)).
Proof.
  intros H1 H2 Hl Hv. cbn [eval_step]. rewrite H1. cbn [bind]. rewrite H2. cbn [bind].
  unfold get_rec. rewrite Hl. cbn [bind]. rewrite Hv. reflexivity.
Qed.

(* a failing print statement has written nothing: the error carries exactly the output from before the statement's own writes *)
Theorem print_all_or_nothing eol v m e : do_print code eol v m = Err e -> e_out e = m_out m.
Proof.
  unfold do_print. cbv zeta.
  assert (Hf : forall k, @fail_here code machine k m = Err e -> e_out e = m_out m).
  { intros k. unfold fail_here, unexpected_at. destruct (stmt_at code (m_pc m)); intros H; injection H as <-; reflexivity. }
  destruct v; try apply Hf; try discriminate.
  - destruct (to_bn_num x); [discriminate|apply Hf].
  - pose proof (printable_not_err (depth_fuel m) (m_heap m) (VList a)) as Hp.
    destruct (printable (depth_fuel m) (m_heap m) (VList a)) as [ok| | |]; cbn [bind]; try discriminate; [|contradiction].
    destruct ok; [|apply Hf].
    pose proof (render_not_err (depth_fuel m) (m_heap m) (VList a)) as Hr.
    destruct (render_nested (depth_fuel m) (m_heap m) (VList a)) as [cs| | |]; cbn [bind]; try discriminate; contradiction.
  - pose proof (printable_not_err (depth_fuel m) (m_heap m) (VRec a)) as Hp.
    destruct (printable (depth_fuel m) (m_heap m) (VRec a)) as [ok| | |]; cbn [bind]; try discriminate; [|contradiction].
    destruct ok; [|apply Hf].
    pose proof (render_not_err (depth_fuel m) (m_heap m) (VRec a)) as Hr.
    destruct (render_nested (depth_fuel m) (m_heap m) (VRec a)) as [cs| | |]; cbn [bind]; try discriminate; contradiction.
Qed.

(* printing nil or a function is an error *)
Theorem print_nil_or_function_is_error eol m st ps : do_print code eol VNil m = fail_here code EType m /\ do_print code eol (VFun st ps) m = fail_here code EType m.
Proof. split; reflexivity. Qed.

(* scalars: one write; দেখাও ends the value with a newline (println), _দেখাও does not *)
Theorem print_scalars m s b :
  do_print code true (VStr s) m = Ok (next (emit m (CPrintln s))) /\ do_print code false (VStr s) m = Ok (next (emit m (CPrint s))) /\
  do_print code true (VBool b) m = Ok (next (emit m (CPrintln (if b then text_true else text_false)))) /\
  do_print code false (VBool b) m = Ok (next (emit m (CPrint (if b then text_true else text_false)))).
Proof. repeat split; destruct b; reflexivity. Qed.

Theorem print_number m x s : to_bn_num x = Some s ->
  do_print code true (VNum x) m = Ok (next (emit m (CPrintln s))) /\ do_print code false (VNum x) m = Ok (next (emit m (CPrint s))).
Proof. intros H. unfold do_print. rewrite H. split; reflexivity. Qed.

(* a list renders as "[" e1 ", " e2 ... "]" and a record as "@{" "k": v "," ... "}" with the elements rendered by the same rules *)
Theorem render_list_shape fuel h a l : nth_error (h_lists h) a = Some l ->
  render_nested (S fuel) h (VList a) =
  (do body <- (fix go (es : list value) : outcome (list chunk) :=
                 match es with
                 | [] => Ok []
                 | e :: [] => render_nested fuel h e
                 | e :: ((_ :: _) as r) => do c <- render_nested fuel h e; do cs <- go r; Ok (c ++ [CPrint [44; 32]%N] ++ cs)
                 end) l;
   Ok ([CPrint [91%N]] ++ body ++ [CPrint [93%N]])).
Proof. intros H. cbn [render_nested]. unfold get_list. rewrite H. reflexivity. Qed.

Theorem render_record_shape fuel h a r : nth_error (h_recs h) a = Some r ->
  render_nested (S fuel) h (VRec a) =
  (do body <- (fix go (es : list (text * value)) : outcome (list chunk) :=
                 match es with
                 | [] => Ok []
                 | (k, e) :: r => do c <- render_nested fuel h e; do cs <- go r;
                                  Ok ([CPrint ([34%N] ++ k ++ [34; 58]%N)] ++ c ++ [CPrint [44%N]] ++ cs)
                 end) r;
   Ok ([CPrint [64; 123]%N] ++ body ++ [CPrint [125%N]])).
Proof. intros H. cbn [render_nested]. unfold get_rec. rewrite H. reflexivity. Qed.

(* execution stops at the first statement that cannot be executed: nothing after it runs *)
Theorem run_stops_at_first_error fuel sched b m e s : stmt_at code (m_pc m) = Some s -> (forall p, s <> FEOS p) ->
  interp code fuel m = Err e -> run code (S fuel) sched b m = (Err e, m).
Proof.
  intros Hs Hne He. cbn [run]. rewrite Hs.
  destruct s; try (rewrite He; reflexivity). exfalso. eapply Hne. reflexivity.
Qed.
End Faults.
