(** C09: the grammar side of number texts -- [sign] digits [. digits] -- for the model of str::parse::<f64>.
    No real numbers here: this file is shared by NumNearest.v (what value the text denotes; Flocq) and NumShape.v (what
    printed numbers look like). *)
From Coq Require Import ZArith NArith List Bool Lia.
From Pakhi Require Import Base Float64.
Import ListNotations.
Local Open Scope Z_scope.

(** ** the grammar side: sign? digits [. digits] *)
Definition all_digits (ds : text) : Prop := Forall (fun c => is_ascii_digit c = true) ds.

Lemma span_digits_all ds r : all_digits ds -> (match r with [] => True | c :: _ => is_ascii_digit c = false end) ->
  span_digits (ds ++ r) = (ds, r).
Proof.
  intros Hd Hr. induction Hd as [|c ds Hc _ IH]; cbn [app span_digits].
  - destruct r as [|c r]; [reflexivity|]. cbn [span_digits]. rewrite Hr. reflexivity.
  - rewrite Hc, IH. reflexivity.
Qed.

Lemma strip_zeros_val ds : digits_val 0 (strip_zeros ds) = digits_val 0 ds.
Proof.
  induction ds as [|c r IH]; [reflexivity|]. cbn [strip_zeros]. destruct (N.eqb c c_0) eqn:E; [|reflexivity].
  apply N.eqb_eq in E. subst c. rewrite IH. cbn [digits_val]. reflexivity.
Qed.

Lemma digits_val_nonneg ds : all_digits ds -> forall acc, 0 <= acc -> 0 <= digits_val acc ds.
Proof.
  induction 1 as [|c ds Hc _ IH]; intros acc Ha; [exact Ha|]. cbn [digits_val]. apply IH.
  unfold is_ascii_digit in Hc. apply andb_true_iff in Hc as [H1 H2]. apply N.leb_le in H1, H2. unfold digit_val. lia.
Qed.

Lemma not_special body c r : body = c :: r -> (is_ascii_digit c = true \/ c = c_dot) -> parse_special body = None.
Proof.
  intros -> Hc. unfold parse_special. cbn [map].
  assert (Hl : lower c <> 105%N /\ lower c <> 110%N).
  { destruct Hc as [Hc| ->]; [|vm_compute; split; discriminate].
    unfold is_ascii_digit in Hc. apply andb_true_iff in Hc as [H1 H2]. apply N.leb_le in H1, H2. unfold lower.
    destruct ((65 <=? c)%N && (c <=? 90)%N) eqn:E; [apply andb_true_iff in E as [E1 _]; apply N.leb_le in E1; lia|]. split; lia. }
  destruct Hl as [H1 H2].
  cbn [text_eqb]. rewrite (proj2 (N.eqb_neq _ _) H1), (proj2 (N.eqb_neq _ _) H2). reflexivity.
Qed.

(* the text: an optional '-', the integer digits, and -- if [dotted] -- a point and the fraction digits *)
Definition decimal_text (neg : bool) (ip : text) (dotted : bool) (fp : text) : text :=
  (if neg then [c_minus] else []) ++ ip ++ (if dotted then c_dot :: fp else []).

(* parse_f64 after the sign *)
Definition parse_body (neg : bool) (body : text) : option f64 :=
  match parse_special body with
  | Some f => Some (f neg)
  | None =>
      let '(ip, r1) := span_digits body in
      let '(fp, r2) := match r1 with
                       | c :: r => if (c =? c_dot)%N then span_digits r else ([], r1)
                       | [] => ([], r1)
                       end in
      match ip, fp with
      | [], [] => None
      | _, _ =>
          match parse_exp r2 with
          | None => None
          | Some ex =>
              let ds := strip_zeros (ip ++ fp) in
              let m := digits_val 0 ds in
              let e10 := ex - Z.of_nat (length fp) in
              Some (dec_to_f64_clamped neg m (Z.of_nat (length ds)) e10)
          end
      end
  end.

Lemma parse_f64_neg body : parse_f64 (c_minus :: body) = parse_body true body.
Proof. reflexivity. Qed.
Lemma parse_f64_pos c r : (c =? c_minus)%N = false -> (c =? c_plus)%N = false -> parse_f64 (c :: r) = parse_body false (c :: r).
Proof. intros H1 H2. unfold parse_f64. rewrite H1, H2. reflexivity. Qed.

Lemma parse_body_plain neg ip dotted fp :
  all_digits ip -> all_digits fp -> ip ++ fp <> [] -> (dotted = false -> fp = []) ->
  parse_body neg (ip ++ (if dotted then c_dot :: fp else [])) =
    Some (dec_to_f64_clamped neg (digits_val 0 (ip ++ fp)) (Z.of_nat (length (strip_zeros (ip ++ fp)))) (- Z.of_nat (length fp))).
Proof.
  intros Hi Hf Hne Hd.
  set (body := ip ++ (if dotted then c_dot :: fp else [])).
  assert (Hhead : exists c r, body = c :: r /\ (is_ascii_digit c = true \/ c = c_dot)).
  { unfold body. destruct ip as [|c ip'].
    - destruct dotted; [cbn; eauto|]. rewrite (Hd eq_refl) in Hne. cbn in Hne. congruence.
    - inversion Hi; subst. cbn. eauto. }
  destruct Hhead as (c & r & Eb & Hc).
  unfold parse_body. rewrite (not_special body c r Eb Hc).
  destruct dotted.
  - assert (Hspan : span_digits body = (ip, c_dot :: fp)) by (unfold body; apply span_digits_all; [exact Hi|vm_compute; reflexivity]).
    rewrite Hspan. change (c_dot =? c_dot)%N with true. cbv iota.
    assert (Hs2 : span_digits fp = (fp, [])) by (rewrite <- (app_nil_r fp) at 1; apply span_digits_all; [exact Hf|exact I]).
    rewrite Hs2. cbn [parse_exp].
    destruct ip as [|i0 ip']; destruct fp as [|f0 fp']; try (cbn in Hne; congruence); rewrite strip_zeros_val, ?Z.sub_0_l; reflexivity.
  - rewrite (Hd eq_refl) in *. unfold body. rewrite !app_nil_r in *.
    assert (Hspan : span_digits ip = (ip, [])) by (rewrite <- (app_nil_r ip) at 1; apply span_digits_all; [exact Hi|exact I]).
    rewrite Hspan. cbn [parse_exp]. rewrite app_nil_r.
    destruct ip as [|i0 ip']; [congruence|]. rewrite strip_zeros_val. reflexivity.
Qed.

Theorem parse_plain_decimal neg ip dotted fp :
  all_digits ip -> all_digits fp -> ip ++ fp <> [] -> (dotted = false -> fp = []) ->
  parse_f64 (decimal_text neg ip dotted fp) =
    Some (dec_to_f64_clamped neg (digits_val 0 (ip ++ fp)) (Z.of_nat (length (strip_zeros (ip ++ fp)))) (- Z.of_nat (length fp))).
Proof.
  intros Hi Hf Hne Hd. unfold decimal_text. destruct neg; cbn [app].
  - rewrite parse_f64_neg. apply parse_body_plain; assumption.
  - rewrite <- (parse_body_plain false ip dotted fp Hi Hf Hne Hd).
    set (body := ip ++ (if dotted then c_dot :: fp else [])).
    assert (Hhead : exists c r, body = c :: r /\ (is_ascii_digit c = true \/ c = c_dot)).
    { unfold body. destruct ip as [|c ip'].
      - destruct dotted; [cbn; eauto|]. rewrite (Hd eq_refl) in Hne. cbn in Hne. congruence.
      - inversion Hi; subst. cbn. eauto. }
    destruct Hhead as (c & r & Eb & Hc). rewrite Eb. apply parse_f64_pos.
    + destruct Hc as [Hc| ->]; [|reflexivity]. unfold is_ascii_digit in Hc. apply andb_true_iff in Hc as [H1 H2]. apply N.leb_le in H1, H2.
      apply N.eqb_neq. unfold c_minus. lia.
    + destruct Hc as [Hc| ->]; [|reflexivity]. unfold is_ascii_digit in Hc. apply andb_true_iff in Hc as [H1 H2]. apply N.leb_le in H1, H2.
      apply N.eqb_neq. unfold c_plus. lia.
Qed.

