(** C09: what a printed number looks like.  Whenever a number is printable at all (to_bn_num x = Some s -- it is not for
    infinities and NaN), the text is plain decimal: an optional '-', one or more Bangla digits, and optionally a point
    followed by one or more Bangla digits; no exponent, no other character.  Mapped back to ASCII digits it is a text
    the number grammar accepts, so the conversion built-in and the literal grammar read it as a number.
    (That they read THE SAME number back is the part of C09 that is tested, not proved.) *)
From Coq Require Import ZArith NArith List Bool Lia.
From Pakhi Require Import Base Float64 Syntax Tables Lexer Interp.
From Pakhi.Proofs Require Import TableFacts Num NumText.
Import ListNotations.
Local Open Scope Z_scope.

(* plain decimal: digits on both sides of the point, if there is one *)
Definition plain_ascii (s : text) : Prop :=
  exists neg ip (dotted : bool) fp, s = decimal_text neg ip dotted fp /\ all_digits ip /\ all_digits fp /\ ip <> [] /\
    (dotted = true -> fp <> []) /\ (dotted = false -> fp = []).

(** ** digits of the shortest representation are non-negative, and there is at least one *)
Definition nonneg (l : list Z) : Prop := Forall (fun d => 0 <= d) l.

Lemma gen_digits_nonempty_acc fuel : forall inclusive mant minus plus scale acc, acc <> [] ->
  let '(acc', _, _, _) := gen_digits fuel inclusive mant minus plus scale acc in acc' <> [].
Proof.
  induction fuel as [|f IH]; intros inclusive mant minus plus scale acc Ha; cbn [gen_digits]; [exact Ha|].
  destruct (_ || _); [discriminate|]. apply IH. discriminate.
Qed.

Lemma gen_digits_nonneg fuel : forall inclusive mant minus plus scale acc,
  0 <= mant -> 0 < scale -> nonneg acc ->
  let '(acc', _, _, _) := gen_digits fuel inclusive mant minus plus scale acc in
  nonneg acc' /\ (fuel <> O -> acc' <> []).
Proof.
  induction fuel as [|f IH]; intros inclusive mant minus plus scale acc Hm Hs Ha; cbn [gen_digits].
  - split; [exact Ha|congruence].
  - assert (Hd : 0 <= mant / scale) by (apply Z.div_pos; lia).
    assert (Hr : 0 <= mant mod scale) by (apply Z.mod_pos_bound; lia).
    destruct (lt_rounding inclusive (mant mod scale) minus || lt_rounding inclusive scale (mant mod scale + plus)).
    + split; [constructor; [exact Hd|exact Ha]|discriminate].
    + pose proof (IH inclusive (mant mod scale * 10) (minus * 10) (plus * 10) scale (mant / scale :: acc) ltac:(lia) Hs ltac:(constructor; [exact Hd|exact Ha])) as I.
      pose proof (gen_digits_nonempty_acc f inclusive (mant mod scale * 10) (minus * 10) (plus * 10) scale (mant / scale :: acc) ltac:(discriminate)) as J.
      destruct (gen_digits f inclusive (mant mod scale * 10) (minus * 10) (plus * 10) scale (mant / scale :: acc)) as [[[acc' m'] d'] u'].
      destruct I as [I1 _]. split; [exact I1|]. intros _. exact J.
Qed.

Lemma round_up_rev_nonneg ds : nonneg ds -> let '(r, _) := round_up_rev ds in nonneg r /\ length r = length ds.
Proof.
  induction 1 as [|d ds Hd Hds IH]; cbn [round_up_rev]; [split; [constructor|reflexivity]|].
  destruct (d =? 9).
  - destruct (round_up_rev ds) as [r' c]. destruct IH as [I1 I2]. split; [constructor; [lia|exact I1]|cbn; lia].
  - split; [constructor; [lia|exact Hds]|reflexivity].
Qed.

Theorem format_shortest_digits m e : let '(ds, _) := format_shortest m e in nonneg ds /\ ds <> [].
Proof.
  unfold format_shortest.
  destruct (decode m e) as [[[[mant minus] plus] exp] inclusive] eqn:Ed.
  assert (Hm : 0 < mant).
  { unfold decode in Ed. destruct (Z.pos m <? 2 ^ 52); [injection Ed as <- _ _ _ _; lia|].
    destruct (Z.pos m =? 2 ^ 52); injection Ed as <- _ _ _ _; lia. }
  set (k := estimate_scaling_factor (mant + plus) exp).
  set (q1 := if exp <? 0 then (mant, minus, plus, 2 ^ (- exp)) else (mant * 2 ^ exp, minus * 2 ^ exp, plus * 2 ^ exp, 1)).
  assert (H1 : let '(a, _, _, s) := q1 in 0 < a /\ 0 < s).
  { unfold q1. destruct (exp <? 0) eqn:Ee.
    - apply Z.ltb_lt in Ee. split; [exact Hm|apply Z.pow_pos_nonneg; lia].
    - apply Z.ltb_ge in Ee. split; [|lia]. apply Z.mul_pos_pos; [exact Hm|apply Z.pow_pos_nonneg; lia]. }
  destruct q1 as [[[mant1 minus1] plus1] scale1]. destruct H1 as [Hm1 Hs1].
  set (q2 := if 0 <=? k then (mant1, minus1, plus1, scale1 * 10 ^ k) else (mant1 * 10 ^ (- k), minus1 * 10 ^ (- k), plus1 * 10 ^ (- k), scale1)).
  assert (H2 : let '(a, _, _, s) := q2 in 0 < a /\ 0 < s).
  { unfold q2. destruct (0 <=? k) eqn:Ek.
    - apply Z.leb_le in Ek. split; [exact Hm1|]. apply Z.mul_pos_pos; [exact Hs1|apply Z.pow_pos_nonneg; lia].
    - apply Z.leb_gt in Ek. split; [|exact Hs1]. apply Z.mul_pos_pos; [exact Hm1|apply Z.pow_pos_nonneg; lia]. }
  destruct q2 as [[[mant2 minus2] plus2] scale2]. destruct H2 as [Hm2 Hs2].
  set (q3 := if lt_rounding inclusive scale2 (mant2 + plus2) then (k + 1, mant2, minus2, plus2) else (k, mant2 * 10, minus2 * 10, plus2 * 10)).
  assert (H3 : let '(_, a, _, _) := q3 in 0 < a) by (unfold q3; destruct (lt_rounding _ _ _); lia).
  destruct q3 as [[[k3 mant3] minus3] plus3].
  pose proof (gen_digits_nonneg 40 inclusive mant3 minus3 plus3 scale2 [] ltac:(lia) Hs2 ltac:(constructor)) as G.
  destruct (gen_digits 40 inclusive mant3 minus3 plus3 scale2 []) as [[[acc mant4] down] up].
  destruct G as [G1 G2]. specialize (G2 ltac:(discriminate)).
  assert (Hrev : nonneg (rev acc) /\ rev acc <> []).
  { split; [apply Forall_rev; exact G1|]. intros E. apply (f_equal (@rev Z)) in E. rewrite rev_involutive in E. cbn in E. congruence. }
  destruct (up && (negb down || (scale2 <=? mant4 * 2))); [|exact Hrev].
  pose proof (round_up_rev_nonneg acc G1) as R. destruct (round_up_rev acc) as [acc' carry]. destruct R as [R1 R2].
  destruct carry.
  - split; [constructor; [lia|apply Forall_rev; exact R1]|discriminate].
  - split; [apply Forall_rev; exact R1|]. intros E. apply (f_equal (@length Z)) in E. rewrite rev_length, R2 in E. cbn in E.
    destruct acc; [congruence|discriminate].
Qed.

(** ** the characters *)
Lemma mapped_keys : forallb (fun e => N.eqb (fst e) 45 || N.eqb (fst e) 46 || ((48 <=? fst e)%N && (fst e <=? 57)%N)) print_char_map = true.
Proof. vm_compute. reflexivity. Qed.

Definition mapped (c : N) : bool := match assoc_N c print_char_map with Some _ => true | None => false end.

Lemma mapped_digit_char d : 0 <= d -> mapped (digit_char d) = true -> is_ascii_digit (digit_char d) = true.
Proof.
  intros Hd H. unfold mapped in H. destruct (assoc_N (digit_char d) print_char_map) as [y|] eqn:E; [|discriminate].
  apply assoc_N_In in E. pose proof mapped_keys as T. rewrite forallb_forall in T. specialize (T _ E). cbn [fst] in T.
  unfold digit_char in *. unfold is_ascii_digit.
  apply orb_true_iff in T as [T|T]; [|exact T].
  apply orb_true_iff in T as [T|T]; apply N.eqb_eq in T; lia.
Qed.

Lemma zeros_digits n : all_digits (zeros n).
Proof. unfold zeros, all_digits. apply Forall_forall. intros c Hc. apply repeat_spec in Hc. subst c. reflexivity. Qed.

Lemma all_digits_app a b : all_digits a -> all_digits b -> all_digits (a ++ b).
Proof. intros. apply Forall_app. split; assumption. Qed.

Lemma in_firstn_l {A} : forall n (l : list A) x, In x (firstn n l) -> In x l.
Proof. induction n as [|n IH]; intros [|y l] x H; try contradiction. destruct H as [->|H]; [left; reflexivity|right; apply IH; exact H]. Qed.
Lemma in_skipn_l {A} : forall n (l : list A) x, In x (skipn n l) -> In x l.
Proof. induction n as [|n IH]; intros [|y l] x H; try exact H. right. apply IH. exact H. Qed.

Lemma all_digits_firstn n a : all_digits a -> all_digits (firstn n a).
Proof. unfold all_digits. rewrite !Forall_forall. intros H c Hc. apply H. eapply in_firstn_l; exact Hc. Qed.

Lemma all_digits_skipn n a : all_digits a -> all_digits (skipn n a).
Proof. unfold all_digits. rewrite !Forall_forall. intros H c Hc. apply H. eapply in_skipn_l; exact Hc. Qed.

(* positional formatting of a non-empty string of digit characters *)
Lemma dec_str_plain ds k : ds <> [] -> all_digits (map digit_char ds) ->
  exists ip (dotted : bool) fp, digits_to_dec_str ds k = decimal_text false ip dotted fp /\ all_digits ip /\ all_digits fp /\ ip <> [] /\
    (dotted = true -> fp <> []) /\ (dotted = false -> fp = []).
Proof.
  intros Hne Hd. unfold digits_to_dec_str. set (cs := map digit_char ds) in *.
  assert (Hcs : cs <> []) by (unfold cs; destruct ds; [congruence|discriminate]).
  assert (Hlen : length cs = length ds) by (unfold cs; apply map_length).
  destruct (k <=? 0) eqn:E1.
  - exists [c_0], true, (zeros (- k) ++ cs). unfold decimal_text. cbn [app]. split; [reflexivity|].
    split; [constructor; [reflexivity|constructor]|]. split; [apply all_digits_app; [apply zeros_digits|exact Hd]|].
    split; [discriminate|]. split; [|discriminate]. intros _ E. apply app_eq_nil in E as [_ E]. exact (Hcs E).
  - apply Z.leb_gt in E1. destruct (k <? Z.of_nat (length ds)) eqn:E2.
    + apply Z.ltb_lt in E2. exists (firstn (Z.to_nat k) cs), true, (skipn (Z.to_nat k) cs). unfold decimal_text. cbn [app].
      split; [reflexivity|]. split; [apply all_digits_firstn; exact Hd|]. split; [apply all_digits_skipn; exact Hd|].
      split.
      * intros E. apply (f_equal (@length N)) in E. rewrite firstn_length in E. cbn in E. destruct cs; [exact (Hcs eq_refl)|]. cbn [length] in *. lia.
      * split; [|discriminate]. intros _ E. apply (f_equal (@length N)) in E. rewrite skipn_length in E. cbn in E. lia.
    + exists (cs ++ zeros (k - Z.of_nat (length ds))), false, (nil : text). unfold decimal_text. cbn [app]. rewrite app_nil_r.
      split; [reflexivity|]. split; [apply all_digits_app; [exact Hd|apply zeros_digits]|]. split; [constructor|].
      split; [intros E; apply app_eq_nil in E as [E _]; exact (Hcs E)|]. split; [discriminate|reflexivity].
Qed.

(** ** a printable number prints as plain decimal text *)
Theorem printable_is_plain x s : to_bn_num x = Some s ->
  plain_ascii (f64_to_string x) /\ s = map_chars print_char_map (f64_to_string x).
Proof.
  unfold to_bn_num. intros H. fold mapped in H. destruct (forallb mapped (f64_to_string x)) eqn:Ef; [|discriminate]. injection H as <-. split; [|reflexivity].
  rewrite forallb_forall in Ef.
  destruct x as [sg|sg| |sg m e].
  - (* zero *) cbn [f64_to_string]. exists sg, [c_0], false, []. unfold decimal_text. rewrite app_nil_r.
    split; [reflexivity|]. split; [constructor; [reflexivity|constructor]|]. split; [constructor|]. split; [discriminate|]. split; [discriminate|reflexivity].
  - (* infinity: 'i' is not in the table *) exfalso. cbn [f64_to_string] in Ef. specialize (Ef 105%N ltac:(apply in_or_app; right; left; reflexivity)). vm_compute in Ef. discriminate.
  - exfalso. cbn [f64_to_string] in Ef. specialize (Ef 78%N ltac:(left; reflexivity)). vm_compute in Ef. discriminate.
  - cbn [f64_to_string] in Ef |- *. pose proof (format_shortest_digits m e) as D.
    destruct (format_shortest m e) as [ds k]. destruct D as [Dn Dne].
    assert (Hd : all_digits (map digit_char ds)).
    { apply Forall_forall. intros c Hc. apply in_map_iff in Hc as (d & <- & Hin).
      unfold nonneg in Dn. rewrite Forall_forall in Dn. apply mapped_digit_char; [apply Dn; exact Hin|].
      apply Ef. apply in_or_app. right. unfold digits_to_dec_str.
      destruct (k <=? 0); [apply in_or_app; right; apply in_or_app; right; apply in_map; exact Hin|].
      destruct (k <? Z.of_nat (length ds)).
      - assert (Hin2 : In (digit_char d) (firstn (Z.to_nat k) (map digit_char ds) ++ skipn (Z.to_nat k) (map digit_char ds))) by (rewrite firstn_skipn; apply in_map; exact Hin).
        apply in_app_or in Hin2 as [Hin2|Hin2]; apply in_or_app; [left; exact Hin2|right; right; exact Hin2].
      - apply in_or_app. left. apply in_map. exact Hin. }
    destruct (dec_str_plain ds k Dne Hd) as (ip & dotted & fp & E2 & Hrest).
    exists sg, ip, dotted, fp. split; [|exact Hrest]. rewrite E2. unfold decimal_text. reflexivity.
Qed.

(** ** in Bangla digits, and back *)
Definition is_bn_digit (c : N) : bool := (2534 <=? c)%N && (c <=? 2543)%N.

(* print_char_map followed by the conversion built-in's table is the identity on '-', '.', '0'..'9' *)
Lemma print_then_back : forallb (fun e => N.eqb (match assoc_N (snd e) builtins_bn_to_en with Some a => a | None => snd e end) (fst e)) print_char_map = true.
Proof. vm_compute. reflexivity. Qed.

Lemma map_back (a : text) : forallb mapped a = true -> map_chars builtins_bn_to_en (map_chars print_char_map a) = a.
Proof.
  intros H. unfold map_chars. rewrite map_map. rewrite <- (map_id a) at 2. apply map_ext_in. intros c Hc.
  rewrite forallb_forall in H. specialize (H c Hc). unfold mapped in H.
  destruct (assoc_N c print_char_map) as [d|] eqn:E; [|discriminate].
  apply assoc_N_In in E. pose proof print_then_back as T. rewrite forallb_forall in T. specialize (T _ E). cbn [fst snd] in T.
  apply N.eqb_eq in T. exact T.
Qed.

(* what the conversion built-in gets when handed a printed number: the ASCII text, which the grammar accepts *)
Theorem printed_text_reads_as_a_number x s : to_bn_num x = Some s ->
  exists y, parse_f64 (map_chars builtins_bn_to_en s) = Some y.
Proof.
  intros H. destruct (printable_is_plain x s H) as [(neg & ip & dotted & fp & E & Hi & Hf & Hne & _ & Hz) ->].
  unfold to_bn_num in H. fold mapped in H. destruct (forallb mapped (f64_to_string x)) eqn:Ef; [|discriminate].
  rewrite (map_back _ Ef). rewrite E.
  rewrite (parse_plain_decimal neg ip dotted fp Hi Hf); [eauto| |exact Hz].
  intros E2. apply app_eq_nil in E2 as [E2 _]. exact (Hne E2).
Qed.

(* the printed characters: Bangla digits, '-' and '.' only *)
Lemma print_values : forallb (fun e => N.eqb (snd e) 45 || N.eqb (snd e) 46 || is_bn_digit (snd e)) print_char_map = true.
Proof. vm_compute. reflexivity. Qed.

Theorem printed_characters x s : to_bn_num x = Some s ->
  Forall (fun c => c = 45%N \/ c = 46%N \/ is_bn_digit c = true) s.
Proof.
  intros H. unfold to_bn_num in H. fold mapped in H. destruct (forallb mapped (f64_to_string x)) eqn:Ef; [|discriminate]. injection H as <-.
  rewrite forallb_forall in Ef. apply Forall_forall. intros c Hc. unfold map_chars in Hc. apply in_map_iff in Hc as (a & <- & Ha).
  specialize (Ef a Ha). unfold mapped in Ef. destruct (assoc_N a print_char_map) as [d|] eqn:E; [|discriminate].
  apply assoc_N_In in E. pose proof print_values as T. rewrite forallb_forall in T. specialize (T _ E). cbn [snd] in T.
  apply orb_true_iff in T as [T|T]; [|right; right; exact T].
  apply orb_true_iff in T as [T|T]; apply N.eqb_eq in T; auto.
Qed.
