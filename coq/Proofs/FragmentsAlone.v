(** C19, end to end from "P1 alone terminates normally": the run of P1;P2 passes through the very machine in which P1, run as
    a program of its own, ends (PrefixRun.v); that machine is neutral -- one scope, no loop, no pending call, duplicate-free
    free lists -- (TopLevel.v, applied to P1 alone); and from there P1;P2 and P2 alone end alike (Compose.v).  The
    remaining hypothesis about names is now a statement about the final global scope of P1 ALONE: it binds none of the
    names P2 mentions. *)
From Pakhi Require Import Base Float64 Syntax Tables Lexer Parser Interp.
From Pakhi.Proofs Require Import Unfold Frames WF WFOps FrameInv NoPanic SimDefs Sim Sim2Defs Sim2 GCInvisible Compose TopLevel PrefixRun.
From Coq Require Import Lia ZArith.
Local Open Scope nat_scope.

Lemma run_ok_snd code : forall fuel sched b m m1 ml, run code fuel sched b m = (Ok m1, ml) -> ml = m1.
Proof.
  induction fuel as [|f IH]; intros sched b m m1 ml H; [discriminate|]. cbn [run] in H.
  destruct (stmt_at code (m_pc m)) as [s|]; [|discriminate].
  destruct s.
  all: try (inversion H; reflexivity).
  all: destruct (interp code f m) as [m1'| | |]; try discriminate.
  all: match type of H with (match ?m2 with Ok _ => _ | Err _ => _ | Panic _ => _ | OutOfFuel => _ end) = _ => destruct m2 as [m2'| | |]; try discriminate end.
  all: eapply IH; exact H.
Qed.

Section Alone.
Variable c1 c2 : list fstmt.
Variable pe : pos.
Variable pi : pos -> pos.

Notation c2' := (map (smap idn pi) c2).
Notation P1 := (code1 c1 pe).            (* P1 as a program of its own *)
Notation P12 := (codeA c1 c2').          (* P1 followed by P2 *)

Lemma fun_ok_le s0 r2 : c2' = s0 :: r2 -> (forall p, s0 <> FElse p) -> forall st, fun_ok P1 st -> fun_ok P12 st.
Proof.
  intros Hc Hs st (pc2 & e & p & Hsk & Hret). exists pc2, e, p. split.
  - intros m. apply (skip_block_from_le c1 c2' pe s0 r2 Hc m st pc2). apply Hsk.
  - destruct (stmt1_some c1 c2' pe pc2 _ Hret ltac:(intros q; discriminate)) as [_ H]. exact H.
Qed.

Lemma vok_le s0 r2 h v : c2' = s0 :: r2 -> (forall p, s0 <> FElse p) -> vok P1 h v -> vok P12 h v.
Proof.
  intros Hc Hs. destruct v; simpl; auto. intros [Hf (q & f & fp & args & ap & sp & Hq & Hst & Han)]. split.
  - apply fun_ok_le with (s0 := s0) (r2 := r2); assumption.
  - exists q, f, fp, args, ap, sp. split; [|split; [|exact Han]].
    + destruct (stmt1_some c1 c2' pe (pred (pred start)) _ Hq ltac:(intros q0; discriminate)) as [_ H]. exact H.
    + destruct (stmt1_some c1 c2' pe (pred start) _ Hst ltac:(intros q0; discriminate)) as [_ H]. exact H.
Qed.

Lemma mwf_le s0 r2 m : c2' = s0 :: r2 -> (forall p, s0 <> FElse p) -> m_loops m = [] -> mwf P1 m -> mwf P12 m.
Proof.
  intros Hc Hs Hl [A B C D E]. constructor.
  - unfold code1, codeA in *. rewrite app_length in *. rewrite Hc. simpl in *. lia.
  - exact B.
  - eapply Forall_impl; [|exact C]. intros sc Hsc. eapply Forall_impl; [|exact Hsc]. intros kv. apply vok_le with (s0 := s0) (r2 := r2); assumption.
  - destruct D as [D1 D2 D3 D4]. constructor; auto.
    + eapply Forall_impl; [|exact D1]. intros l Hl0. eapply Forall_impl; [|exact Hl0]. intros v. apply vok_le with (s0 := s0) (r2 := r2); assumption.
    + eapply Forall_impl; [|exact D2]. intros r Hr. eapply Forall_impl; [|exact Hr]. intros kv. apply vok_le with (s0 := s0) (r2 := r2); assumption.
  - rewrite Hl. constructor.
Qed.

Theorem compose_after_p1_alone (N : text -> Prop) platform w fuel1 sched1 m1 mlast s0 r2 :
  c2' = s0 :: r2 -> (forall p, s0 <> FElse p) -> Forall (fun s => is_eos s = false) c1 ->
  code_ok P1 -> code_ok P12 -> code_ok c2 -> c2 <> [] ->
  (* P1, run as a program of its own, terminates normally in m1, at a place outside every block and loop *)
  run P1 fuel1 sched1 0 (init_machine platform w) = (Ok m1, mlast) ->
  closed_at P1 (length c1) ->
  (* P2 mentions names of N only; the global scope P1 ALONE ends with binds none of them but the platform constant *)
  (forall pc s, stmt_at c2 pc = Some s -> Forall N (snames s)) ->
  (forall g, m_scopes m1 = [g] -> alist_get platform_const g = Some (VStr platform) /\
             forall x, N x -> x <> platform_const -> alist_get x g = None) ->
  (* then the run of P1;P2 passes through m1, on P2's first statement ... *)
  (exists j, j <= fuel1 /\ run P12 fuel1 sched1 0 (init_machine platform w) = run P12 (fuel1 - j) sched1 j m1) /\
  m_pc m1 = length c1 /\
  (* ... and from there P1;P2 and P2 alone end alike, under any two collection schedules *)
  forall fuel schedA schedB bA,
    same_end2 pi (m_out m1) (fst (run P12 fuel schedA bA m1)) (fst (run c2 fuel schedB 0 (init_machine platform (m_world m1)))).
Proof.
  intros Hc Hs Hno Hok1 Hok12 Hok2 Hne Hrun Hclosed Hnames Hg.
  destruct (p1_alone_is_a_prefix c1 c2' pe s0 r2 Hc Hs Hno fuel1 sched1 0 _ m1 mlast Hrun) as (Hpc & j & Hj & Hpre).
  pose proof (run_ok_snd _ _ _ _ _ _ _ Hrun) as ->.
  assert (Hne1 : P1 <> []) by (unfold code1; destruct c1; discriminate).
  pose proof (top_neutral P1 Hok1 platform w fuel1 sched1 Hne1) as T. cbv zeta in T. rewrite Hrun in T. cbn [snd] in T.
  rewrite Hpc in T. destruct (T Hclosed) as (W & Hlen & Hlp & Hlb & Hret & Nd1 & Nd2).
  split; [exists j; rewrite Nat.add_0_l in Hpre; auto|]. split; [exact Hpc|].
  intros fuel schedA schedB bA.
  destruct (m_scopes m1) as [|g [|g2 r]] eqn:Hsc; simpl in Hlen; try discriminate.
  apply (compose N c1 c2 pi m1 platform fuel schedA schedB bA); auto.
  - eapply mwf_le; eauto.
  - exists g. split; [exact Hsc|]. apply Hg. reflexivity.
Qed.
End Alone.
