(** C12: the parser model never panics and every successful sub-parse consumes at least one token
    (so none of the parser's loops can spin without progress). *)
From Pakhi Require Import Base Float64 Syntax Tables Lexer Parser.
From Pakhi.Proofs Require Import LexTotal.
From Coq Require Import Lia.
Local Open Scope nat_scope.

Definition len (s : pstate) : nat := length (ps_rest s).
(* Rust reads tokens[current - 1] only after it advanced: either a token was consumed or the cursor is past the end *)
Definition good (s : pstate) : Prop := at_end s = true \/ ps_prev s <> None.

Lemma at_end_len s : at_end s = true <-> len s = 0.
Proof.
  unfold at_end, len. destruct (ps_rest s); simpl; split; intros H; try reflexivity; discriminate H.
Qed.

Lemma adv_len s : len (adv s) <= len s /\ (at_end s = false -> S (len (adv s)) = len s).
Proof.
  unfold adv, len, at_end. destruct (ps_rest s) as [|t r] eqn:E; simpl.
  - rewrite E. split; [simpl; lia|intros H; discriminate H].
  - split; [lia|reflexivity].
Qed.

Lemma adv_good s : good (adv s).
Proof. unfold good, adv, at_end. destruct (ps_rest s) eqn:E; simpl; [left; rewrite E; reflexivity|right; discriminate]. Qed.

Definition no_panic {A} (x : outcome A) : Prop := match x with Panic _ => False | _ => True end.

Lemma pos_prev_ok s : good s -> no_panic (pos_prev s).
Proof. unfold pos_prev, good. destruct (at_end s); [intros; exact I|]. intros [H|H]; [discriminate|]. destruct (ps_prev s); [exact I|congruence]. Qed.
Lemma pos_tok_ok s t : no_panic (pos_tok s t).
Proof. unfold pos_tok. destruct (at_end s); exact I. Qed.
Lemma pos_here_ok s : no_panic (pos_here s).
Proof. unfold pos_here. destruct (at_end s); exact I. Qed.
Lemma syntax_here_ok {A} s : no_panic (@syntax_here A s).
Proof. unfold syntax_here. destruct (at_end s); exact I. Qed.

Lemma pos_prev_some s p : pos_prev s = Ok p -> at_end s = false.
Proof. unfold pos_prev. destruct (at_end s); [discriminate|auto]. Qed.
Lemma pos_tok_some s t p : pos_tok s t = Ok p -> at_end s = false.
Proof. unfold pos_tok. destruct (at_end s); [discriminate|auto]. Qed.
Lemma pos_here_some s p : pos_here s = Ok p -> at_end s = false.
Proof. unfold pos_here. destruct (at_end s); [discriminate|auto]. Qed.

Lemma no_panic_bind {A B} (x : outcome A) (f : A -> outcome B) :
  no_panic x -> (forall a, x = Ok a -> no_panic (f a)) -> no_panic (bind x f).
Proof. intros Hx Hf. destruct x; simpl in *; auto. Qed.

Lemma syntax_here_not_ok {A} s (a : A) : syntax_here s = Ok a -> False.
Proof. unfold syntax_here. destruct (at_end s); discriminate. Qed.

(* the statement of the mutual induction, for one fuel value *)
Record expr_parser_ok (f : nat) : Prop := {
  ok_pexpr : forall lvl s, no_panic (pexpr f lvl s) /\ (forall e s', pexpr f lvl s = Ok (e, s') -> len s' < len s /\ good s');
  ok_pprimary : forall s, no_panic (pprimary f s) /\ (forall e s', pprimary f s = Ok (e, s') -> len s' < len s /\ good s');
  ok_pbin : forall lvl e s, good s -> no_panic (pbin f lvl e s) /\ (forall e' s', pbin f lvl e s = Ok (e', s') -> len s' <= len s /\ good s');
  ok_pcalls : forall e s, good s -> no_panic (pcalls f e s) /\ (forall e' s', pcalls f e s = Ok (e', s') -> len s' <= len s /\ good s');
  ok_pargs : forall s, no_panic (pargs f s) /\ (forall es s', pargs f s = Ok (es, s') -> len s' < len s /\ good s');
  ok_pitems : forall s, good s -> no_panic (pitems f s) /\ (forall es s', pitems f s = Ok (es, s') -> len s' <= len s /\ good s');
  ok_pentries : forall s, good s -> no_panic (pentries f s) /\ (forall ks vs s', pentries f s = Ok (ks, vs, s') -> len s' <= len s /\ good s');
  ok_pindexes : forall e s, good s -> no_panic (pindexes f e s) /\ (forall e' s', pindexes f e s = Ok (e', s') -> len s' <= len s /\ good s')
}.

Ltac inv_ok H := match type of H with Ok _ = Ok _ => injection H; clear H; intros; subst end.

Lemma skip_comma_props s1 : good s1 -> let s2 := match hk s1 with TComma => adv s1 | _ => s1 end in len s2 <= len s1 /\ good s2.
Proof.
  intros Hg. cbv zeta. destruct (hk s1); try (split; [lia|exact Hg]).
  split; [apply adv_len|apply adv_good].
Qed.

Theorem expr_parser_total : forall f, expr_parser_ok f.
Proof.
  induction f as [|f IH].
  { constructor; intros; (split; [exact I|intros; discriminate]). }
  destruct IH as [Ie Ip Ib Ic Ia Ii In_ Ix].
  constructor.
  - (* pexpr *)
    intros lvl s. cbn [pexpr].
    assert (Hbinlevel : no_panic (do '(e, s1) <- pexpr f (S lvl) s; pbin f lvl e s1) /\
            forall e s', (do '(e0, s1) <- pexpr f (S lvl) s; pbin f lvl e0 s1) = Ok (e, s') -> len s' < len s /\ good s').
    { destruct (Ie (S lvl) s) as [Hn Hp]. destruct (pexpr f (S lvl) s) as [[e0 s1]| | |] eqn:E; cbn [bind]; try (split; [exact Hn|intros; discriminate]).
      destruct (Hp e0 s1 eq_refl) as [Hl Hg]. destruct (Ib lvl e0 s1 Hg) as [Hn2 Hp2].
      split; [exact Hn2|]. intros e s' H. destruct (Hp2 e s' H). split; [lia|assumption]. }
    do 6 (destruct lvl as [|lvl]; [exact Hbinlevel|]).
    destruct lvl as [|lvl].
    { (* unary *)
      assert (Hcall : no_panic (pexpr f 7 s) /\ forall e s', pexpr f 7 s = Ok (e, s') -> len s' < len s /\ good s') by apply Ie.
      assert (Hun : forall o, no_panic (do p <- pos_here s; do '(r, s1) <- pexpr f 6 (adv s); Ok (EUn o r p, s1)) /\
                forall e s', (do p <- pos_here s; do '(r, s1) <- pexpr f 6 (adv s); Ok (EUn o r p, s1)) = Ok (e, s') -> len s' < len s /\ good s').
      { intros o. destruct (pos_here s) as [p| | |] eqn:Ep; cbn [bind]; try (split; [exact I|intros; discriminate]).
        2:{ pose proof (pos_here_ok s). rewrite Ep in H. contradiction. }
        destruct (Ie 6 (adv s)) as [Hn Hp]. destruct (pexpr f 6 (adv s)) as [[r s1]| | |] eqn:E; cbn [bind]; try (split; [exact Hn|intros; discriminate]).
        split; [exact I|]. intros e s' H. inv_ok H. destruct (Hp r s' eq_refl). pose proof (adv_len s). split; [lia|assumption]. }
      destruct (hk s); try exact Hcall; apply Hun. }
    destruct lvl as [|lvl].
    { (* call level *)
      destruct (Ie 8 s) as [Hn Hp]. destruct (pexpr f 8 s) as [[e0 s1]| | |] eqn:E; cbn [bind]; try (split; [exact Hn|intros; discriminate]).
      destruct (Hp e0 s1 eq_refl) as [Hl Hg]. destruct (Ic e0 s1 Hg) as [Hn2 Hp2].
      split; [exact Hn2|]. intros e s' H. destruct (Hp2 e s' H). split; [lia|assumption]. }
    destruct lvl as [|lvl]; [apply Ip|exact Hbinlevel].
  - (* pprimary *)
    intros s. cbn [pprimary].
    assert (Hlit : forall mk : pos -> expr, no_panic (do p <- pos_prev (adv s); Ok (mk p, adv s)) /\
              forall e s', (do p <- pos_prev (adv s); Ok (mk p, adv s)) = Ok (e, s') -> len s' < len s /\ good s').
    { intros mk. pose proof (pos_prev_ok (adv s) (adv_good s)) as Hn.
      destruct (pos_prev (adv s)) as [p| | |] eqn:E; cbn [bind]; try (split; [exact Hn|intros; discriminate]).
      split; [exact I|]. intros e s' H. inv_ok H. apply pos_prev_some in E.
      split; [|apply adv_good].
      destruct (at_end s) eqn:Ea; [|destruct (adv_len s) as [_ H]; specialize (H Ea); lia].
      (* cursor past the end: adv s = s, contradiction with E *)
      exfalso. unfold adv, at_end in *. destruct (ps_rest s) eqn:Er; [rewrite Er in E; discriminate E|discriminate Ea]. }
    (* after a closing token was consumed and the position of the opening token is asked *)
    assert (Hclose : forall (A : Type) s1 (k : pos -> A), len s1 <= len (adv s) ->
              no_panic (do p <- pos_tok (adv s1) (head s); Ok (k p, adv s1)) /\
              forall a s', (do p <- pos_tok (adv s1) (head s); Ok (k p, adv s1)) = Ok (a, s') -> len s' < len s /\ good s').
    { intros A s1 k Hl. pose proof (pos_tok_ok (adv s1) (head s)) as Hn.
      destruct (pos_tok (adv s1) (head s)) as [p| | |] eqn:E; cbn [bind]; try (split; [exact Hn|intros; discriminate]).
      split; [exact I|]. intros a s' H. inv_ok H. apply pos_tok_some in E. split; [|apply adv_good].
      assert (Hnz : len (adv s1) <> 0) by (intros H0; apply at_end_len in H0; congruence).
      destruct (adv_len s1) as [Ha1 Ha2]. pose proof (adv_len s) as [Hs1 _].
      destruct (at_end s1) eqn:Ea1.
      - apply at_end_len in Ea1. lia.
      - specialize (Ha2 eq_refl). lia. }
    destruct (hk s) eqn:Ek; try (split; [apply syntax_here_ok|intros e s' H; exfalso; eapply syntax_here_not_ok; eauto]); try apply Hlit.
    + (* identifier, possibly indexed *)
      pose proof (pos_tok_ok s (head s)) as Hn.
      destruct (pos_tok s (head s)) as [p| | |] eqn:E; cbn [bind]; try (split; [exact Hn|intros; discriminate]).
      apply pos_tok_some in E. destruct (Ix (EVar (t_lexeme (head s)) p) (adv s) (adv_good s)) as [Hn2 Hp2].
      split; [exact Hn2|]. intros e s' H. destruct (Hp2 e s' H). destruct (adv_len s) as [_ Hs]. specialize (Hs E). split; [lia|assumption].
    + (* record literal *)
      destruct (hk (adv s)); try (split; [apply syntax_here_ok|intros e s' H; exfalso; eapply syntax_here_not_ok; eauto]).
      destruct (In_ (adv (adv s)) (adv_good _)) as [Hn Hp].
      destruct (pentries f (adv (adv s))) as [[[ks vs] s2]| | |] eqn:E; cbn [bind]; try (split; [exact Hn|intros; discriminate]).
      destruct (Hp ks vs s2 eq_refl) as [Hl Hg].
      apply (Hclose expr s2 (fun p => ERec ks vs p)). pose proof (adv_len (adv s)). lia.
    + (* group *)
      destruct (Ie 0 (adv s)) as [Hn Hp].
      destruct (pexpr f 0 (adv s)) as [[e0 s1]| | |] eqn:E; cbn [bind]; try (split; [exact Hn|intros; discriminate]).
      destruct (Hp e0 s1 eq_refl) as [Hl Hg].
      apply (Hclose expr s1 (fun p => EGroup e0 p)). lia.
    + (* list literal *)
      destruct (Ii (adv s) (adv_good s)) as [Hn Hp].
      destruct (pitems f (adv s)) as [[es s1]| | |] eqn:E; cbn [bind]; try (split; [exact Hn|intros; discriminate]).
      destruct (Hp es s1 eq_refl) as [Hl Hg].
      apply (Hclose expr s1 (fun p => EList es p)). lia.
  - (* pbin *)
    intros lvl e s Hg. cbn [pbin]. destruct (binop_at lvl (hk s)) as [o|]; [|split; [exact I|intros e' s' H; inv_ok H; split; [lia|exact Hg]]].
    destruct (Ie (S lvl) (adv s)) as [Hn Hp].
    destruct (pexpr f (S lvl) (adv s)) as [[r s1]| | |] eqn:E; cbn [bind]; try (split; [exact Hn|intros; discriminate]).
    destruct (Hp r s1 eq_refl) as [Hl Hg1].
    pose proof (pos_prev_ok s1 Hg1) as Hn1.
    destruct (pos_prev s1) as [p| | |] eqn:Ep; cbn [bind]; try (split; [exact Hn1|intros; discriminate]).
    destruct (Ib lvl (EBin o e r p) s1 Hg1) as [Hn2 Hp2]. split; [exact Hn2|].
    intros e' s' H. destruct (Hp2 e' s' H). pose proof (adv_len s). split; [lia|assumption].
  - (* pcalls *)
    intros e s Hg. cbn [pcalls].
    destruct (hk s) eqn:Ek; try (split; [exact I|intros e' s' H; inv_ok H; split; [lia|exact Hg]]).
    pose proof (pos_prev_ok (adv s) (adv_good s)) as Hn1.
    destruct (pos_prev (adv s)) as [p| | |] eqn:Ep; cbn [bind]; try (split; [exact Hn1|intros; discriminate]).
    assert (Hargs : no_panic (match hk (adv s) with TRParen => Ok ([], adv s) | _ => pargs f (adv s) end) /\
             forall es s2, (match hk (adv s) with TRParen => Ok ([], adv s) | _ => pargs f (adv s) end) = Ok (es, s2) -> len s2 <= len (adv s) /\ good s2).
    { destruct (Ia (adv s)) as [Hn Hp].
      destruct (hk (adv s)); try (split; [exact Hn|intros es s2 H; destruct (Hp es s2 H); split; [lia|assumption]]).
      split; [exact I|]. intros es s2 H. inv_ok H. split; [lia|apply adv_good]. }
    destruct Hargs as [Hn Hp].
    destruct (match hk (adv s) with TRParen => Ok ([], adv s) | _ => pargs f (adv s) end) as [[args s2]| | |] eqn:E; cbn [bind]; try (split; [exact Hn|intros; discriminate]).
    destruct (Hp args s2 eq_refl) as [Hl Hg2].
    destruct (Ic (ECall e args p) (adv s2) (adv_good s2)) as [Hn2 Hp2]. split; [exact Hn2|].
    intros e' s' H. destruct (Hp2 e' s' H). pose proof (adv_len s). pose proof (adv_len s2). split; [lia|assumption].
  - (* pargs *)
    intros s. cbn [pargs].
    destruct (Ie 0 s) as [Hn Hp].
    destruct (pexpr f 0 s) as [[e s1]| | |] eqn:E; cbn [bind]; try (split; [exact Hn|intros; discriminate]).
    destruct (Hp e s1 eq_refl) as [Hl Hg].
    destruct (hk s1); try (split; [exact I|intros es s' H; inv_ok H; split; assumption]).
    destruct (Ia (adv s1)) as [Hn2 Hp2].
    destruct (pargs f (adv s1)) as [[es s2]| | |] eqn:E2; cbn [bind]; try (split; [exact Hn2|intros; discriminate]).
    split; [exact I|]. intros es' s' H. inv_ok H. destruct (Hp2 es s' eq_refl). pose proof (adv_len s1). split; [lia|assumption].
  - (* pitems *)
    intros s Hg. cbn [pitems].
    assert (Hmain : no_panic (do '(e, s1) <- pexpr f 0 s; let s2 := match hk s1 with TComma => adv s1 | _ => s1 end in do '(es, s3) <- pitems f s2; Ok (e :: es, s3)) /\
             forall es s', (do '(e, s1) <- pexpr f 0 s; let s2 := match hk s1 with TComma => adv s1 | _ => s1 end in do '(es, s3) <- pitems f s2; Ok (e :: es, s3)) = Ok (es, s') -> len s' <= len s /\ good s').
    { destruct (Ie 0 s) as [Hn Hp].
      destruct (pexpr f 0 s) as [[e s1]| | |] eqn:E; cbn [bind]; try (split; [exact Hn|intros; discriminate]).
      destruct (Hp e s1 eq_refl) as [Hl Hg1]. destruct (skip_comma_props s1 Hg1) as [Hl2 Hg2]. cbv zeta in *.
      set (s2 := match hk s1 with TComma => adv s1 | _ => s1 end) in *.
      destruct (Ii s2 Hg2) as [Hn2 Hp2].
      destruct (pitems f s2) as [[es s3]| | |] eqn:E2; cbn [bind]; try (split; [exact Hn2|intros; discriminate]).
      split; [exact I|]. intros es' s' H. inv_ok H. destruct (Hp2 es s' eq_refl). split; [lia|assumption]. }
    destruct (hk s); try exact Hmain. split; [exact I|]. intros es s' H. inv_ok H. split; [lia|exact Hg].
  - (* pentries *)
    intros s Hg. cbn [pentries].
    assert (Hmain : no_panic (do '(k, s1) <- pexpr f 0 s;
                       match hk s1 with
                       | TMap => do '(v, s2) <- pexpr f 0 (adv s1);
                                 let s3 := match hk s2 with TComma => adv s2 | _ => s2 end in
                                 do '(ks, vs, s4) <- pentries f s3; Ok (k :: ks, v :: vs, s4)
                       | _ => syntax_here s1
                       end) /\
             forall ks vs s', (do '(k, s1) <- pexpr f 0 s;
                       match hk s1 with
                       | TMap => do '(v, s2) <- pexpr f 0 (adv s1);
                                 let s3 := match hk s2 with TComma => adv s2 | _ => s2 end in
                                 do '(ks, vs, s4) <- pentries f s3; Ok (k :: ks, v :: vs, s4)
                       | _ => syntax_here s1
                       end) = Ok (ks, vs, s') -> len s' <= len s /\ good s').
    { destruct (Ie 0 s) as [Hn Hp].
      destruct (pexpr f 0 s) as [[k s1]| | |] eqn:E; cbn [bind]; try (split; [exact Hn|intros; discriminate]).
      destruct (Hp k s1 eq_refl) as [Hl Hg1].
      destruct (hk s1); try (split; [apply syntax_here_ok|intros ks vs s' H; exfalso; eapply syntax_here_not_ok; eauto]).
      destruct (Ie 0 (adv s1)) as [Hn2 Hp2].
      destruct (pexpr f 0 (adv s1)) as [[v s2]| | |] eqn:E2; cbn [bind]; try (split; [exact Hn2|intros; discriminate]).
      destruct (Hp2 v s2 eq_refl) as [Hl2 Hg2]. destruct (skip_comma_props s2 Hg2) as [Hl3 Hg3]. cbv zeta in *.
      set (s3 := match hk s2 with TComma => adv s2 | _ => s2 end) in *.
      destruct (In_ s3 Hg3) as [Hn3 Hp3].
      destruct (pentries f s3) as [[[ks vs] s4]| | |] eqn:E3; cbn [bind]; try (split; [exact Hn3|intros; discriminate]).
      split; [exact I|]. intros ks' vs' s' H. inv_ok H. destruct (Hp3 ks vs s' eq_refl). pose proof (adv_len s1). split; [lia|assumption]. }
    destruct (hk s); try exact Hmain. split; [exact I|]. intros ks vs s' H. inv_ok H. split; [lia|exact Hg].
  - (* pindexes *)
    intros e s Hg. cbn [pindexes].
    destruct (hk s) eqn:Ek; try (split; [exact I|intros e' s' H; inv_ok H; split; [lia|exact Hg]]).
    destruct (Ie 0 (adv s)) as [Hn Hp].
    destruct (pexpr f 0 (adv s)) as [[i s1]| | |] eqn:E; cbn [bind]; try (split; [exact Hn|intros; discriminate]).
    destruct (Hp i s1 eq_refl) as [Hl Hg1].
    destruct (hk s1); try (split; [apply syntax_here_ok|intros e' s' H; exfalso; eapply syntax_here_not_ok; eauto]).
    pose proof (pos_tok_ok (adv s1) (head s)) as Hn1.
    destruct (pos_tok (adv s1) (head s)) as [p| | |] eqn:Ep; cbn [bind]; try (split; [exact Hn1|intros; discriminate]).
    destruct (Ix (EIndex e i p) (adv s1) (adv_good s1)) as [Hn2 Hp2]. split; [exact Hn2|].
    intros e' s' H. destruct (Hp2 e' s' H). pose proof (adv_len s). pose proof (adv_len s1). split; [lia|assumption].
Qed.

(** The expression parser: for every token state and every fuel it returns an expression, an error value or runs out
    of fuel -- never a panic --, and a returned expression consumed at least one token. *)
Theorem expression_total fuel s :
  no_panic (expression fuel s) /\ (forall e s', expression fuel s = Ok (e, s') -> len s' < len s).
Proof.
  destruct (expr_parser_total fuel) as [Ie _ _ _ _ _ _ _]. destruct (Ie 0 s) as [Hn Hp].
  split; [exact Hn|]. intros e s' H. apply (Hp e s' H).
Qed.

(** ** Sub-parsers only ever advance the cursor *)
Definition advances (s s' : pstate) : Prop := exists k, s' = Nat.iter k adv s.

Lemma advances_refl s : advances s s. Proof. exists 0. reflexivity. Qed.
Lemma advances_adv s : advances s (adv s). Proof. exists 1. reflexivity. Qed.
Lemma advances_trans a b c : advances a b -> advances b c -> advances a c.
Proof.
  intros [k1 ->] [k2 ->]. exists (k2 + k1). induction k2 as [|k2 IHk]; simpl; [reflexivity|]. rewrite IHk. reflexivity.
Qed.
Lemma advances_adv_l s s' : advances (adv s) s' -> advances s s'.
Proof. intros H. eapply advances_trans; [apply advances_adv|exact H]. Qed.
Lemma advances_then_adv s s' : advances s s' -> advances s (adv s').
Proof. intros H. eapply advances_trans; [exact H|apply advances_adv]. Qed.

(* any property closed under advancing is kept by every sub-parser *)
Lemma advances_keeps (I : pstate -> Prop) : (forall s, I s -> I (adv s)) -> forall s s', advances s s' -> I s -> I s'.
Proof. intros HI s s' [k ->] Hs. induction k; simpl; auto. Qed.

Record expr_parser_adv (f : nat) : Prop := {
  av_pexpr : forall lvl s e s', pexpr f lvl s = Ok (e, s') -> advances s s';
  av_pprimary : forall s e s', pprimary f s = Ok (e, s') -> advances s s';
  av_pbin : forall lvl e s e' s', pbin f lvl e s = Ok (e', s') -> advances s s';
  av_pcalls : forall e s e' s', pcalls f e s = Ok (e', s') -> advances s s';
  av_pargs : forall s es s', pargs f s = Ok (es, s') -> advances s s';
  av_pitems : forall s es s', pitems f s = Ok (es, s') -> advances s s';
  av_pentries : forall s ks vs s', pentries f s = Ok (ks, vs, s') -> advances s s';
  av_pindexes : forall e s e' s', pindexes f e s = Ok (e', s') -> advances s s'
}.

Ltac bind_ok H x :=
  match type of H with
  | bind ?a _ = Ok _ => destruct a as [x| | |] eqn:?; cbn [bind] in H; try discriminate H
  end.

Lemma comma_advances s1 : advances s1 (match hk s1 with TComma => adv s1 | _ => s1 end).
Proof. destruct (hk s1); try apply advances_refl. apply advances_adv. Qed.

Theorem expr_parser_only_advances : forall f, expr_parser_adv f.
Proof.
  induction f as [|f IH]; [constructor; intros; discriminate|].
  destruct IH as [Ae Ap Ab Ac Aa Ai An Ax].
  constructor.
  - intros lvl s e s' H. cbn [pexpr] in H.
    assert (Hbin : forall e s', (do '(e0, s1) <- pexpr f (S lvl) s; pbin f lvl e0 s1) = Ok (e, s') -> advances s s').
    { intros e1 s1' H1. bind_ok H1 x. destruct x as [e0 s1]. eapply advances_trans; [eapply Ae; eauto|eapply Ab; eauto]. }
    do 6 (destruct lvl as [|lvl]; [eapply Hbin; exact H|]).
    destruct lvl as [|lvl].
    { destruct (hk s); try (eapply Ae; exact H);
        (bind_ok H p; bind_ok H x; destruct x as [r s1]; inv_ok H; apply advances_adv_l; eapply Ae; eauto). }
    destruct lvl as [|lvl].
    { bind_ok H x. destruct x as [e0 s1]. eapply advances_trans; [eapply Ae; eauto|eapply Ac; eauto]. }
    destruct lvl as [|lvl]; [eapply Ap; exact H|eapply Hbin; exact H].
  - intros s e s' H. cbn [pprimary] in H.
    destruct (hk s); try (exfalso; eapply syntax_here_not_ok; exact H);
      try (bind_ok H p; inv_ok H; apply advances_adv).
    + bind_ok H p. apply advances_adv_l. eapply Ax; eauto.
    + destruct (hk (adv s)); try (exfalso; eapply syntax_here_not_ok; exact H).
      bind_ok H x. destruct x as [[ks vs] s2]. bind_ok H p. inv_ok H.
      apply advances_adv_l, advances_adv_l, advances_then_adv. eapply An; eauto.
    + bind_ok H x. destruct x as [e0 s1]. bind_ok H p. inv_ok H. apply advances_adv_l, advances_then_adv. eapply Ae; eauto.
    + bind_ok H x. destruct x as [es s1]. bind_ok H p. inv_ok H. apply advances_adv_l, advances_then_adv. eapply Ai; eauto.
  - intros lvl e s e' s' H. cbn [pbin] in H. destruct (binop_at lvl (hk s)); [|inv_ok H; apply advances_refl].
    bind_ok H x. destruct x as [r s1]. bind_ok H p.
    apply advances_adv_l. eapply advances_trans; [eapply Ae; eauto|eapply Ab; eauto].
  - intros e s e' s' H. cbn [pcalls] in H. destruct (hk s); try (inv_ok H; apply advances_refl).
    bind_ok H p.
    destruct (hk (adv s)) eqn:Ek.
    all: try (bind_ok H xx; destruct xx as [args s2]; apply advances_adv_l;
           eapply advances_trans; [eapply Aa; eassumption|]; apply advances_adv_l; eapply Ac; eassumption).
    cbn [bind] in H. apply advances_adv_l, advances_adv_l. eapply Ac; eauto.
  - intros s es s' H. cbn [pargs] in H. bind_ok H x. destruct x as [e s1].
    destruct (hk s1); try (inv_ok H; eapply Ae; eauto).
    bind_ok H y. destruct y as [es0 s2]. inv_ok H.
    eapply advances_trans; [eapply Ae; eauto|]. apply advances_adv_l. eapply Aa; eauto.
  - intros s es s' H. cbn [pitems] in H.
    assert (Hmain : forall es s', (do '(e, s1) <- pexpr f 0 s; let s2 := match hk s1 with TComma => adv s1 | _ => s1 end in do '(es, s3) <- pitems f s2; Ok (e :: es, s3)) = Ok (es, s') -> advances s s').
    { intros es1 s1' H1. bind_ok H1 x. destruct x as [e s1]. cbv zeta in H1. bind_ok H1 y. destruct y as [es0 s3]. inv_ok H1.
      eapply advances_trans; [eapply Ae; eauto|]. eapply advances_trans; [apply comma_advances|eapply Ai; eauto]. }
    destruct (hk s); try (eapply Hmain; exact H). inv_ok H. apply advances_refl.
  - intros s ks vs s' H. cbn [pentries] in H.
    assert (Hmain : forall ks vs s', (do '(k, s1) <- pexpr f 0 s;
                       match hk s1 with
                       | TMap => do '(v, s2) <- pexpr f 0 (adv s1);
                                 let s3 := match hk s2 with TComma => adv s2 | _ => s2 end in
                                 do '(ks, vs, s4) <- pentries f s3; Ok (k :: ks, v :: vs, s4)
                       | _ => syntax_here s1
                       end) = Ok (ks, vs, s') -> advances s s').
    { intros ks1 vs1 s1' H1. bind_ok H1 x. destruct x as [k s1].
      destruct (hk s1); try (exfalso; eapply syntax_here_not_ok; exact H1).
      bind_ok H1 y. destruct y as [v s2]. cbv zeta in H1. bind_ok H1 z. destruct z as [[ks0 vs0] s4]. inv_ok H1.
      eapply advances_trans; [eapply Ae; eauto|]. apply advances_adv_l.
      eapply advances_trans; [eapply Ae; eauto|]. eapply advances_trans; [apply comma_advances|eapply An; eauto]. }
    destruct (hk s); try (eapply Hmain; exact H). inv_ok H. apply advances_refl.
  - intros e s e' s' H. cbn [pindexes] in H. destruct (hk s); try (inv_ok H; apply advances_refl).
    bind_ok H x. destruct x as [i s1]. destruct (hk s1); try (exfalso; eapply syntax_here_not_ok; exact H).
    bind_ok H p. apply advances_adv_l. eapply advances_trans; [eapply Ae; eauto|].
    apply advances_adv_l. eapply Ax; eauto.
Qed.

Lemma expression_advances fuel s e s' : expression fuel s = Ok (e, s') -> advances s s'.
Proof. destruct (expr_parser_only_advances fuel) as [Ae _ _ _ _ _ _ _]. apply Ae. Qed.

(** ** Statements and imports *)
Section Stmts.
Variable fs : text -> option text.
Variable cwd main_path : text.

(* the token vector ends with its last token (Rust's tok() clamps to it) and that token is not a ';' -- it is the end
   marker for every vector the tokenizer produces *)
Definition inv (s : pstate) : Prop :=
  last (ps_rest s) (ps_last s) = ps_last s /\ tk_is (t_kind (ps_last s)) TSemi = false.

Lemma inv_adv s : inv s -> inv (adv s).
Proof.
  intros [H1 H2]. unfold adv. destruct (ps_rest s) as [|t r] eqn:E; [split; [rewrite E; exact H1|exact H2]|].
  split; [|exact H2]. cbn [ps_rest ps_last]. destruct r as [|u r]; [reflexivity|exact H1].
Qed.

Lemma inv_advances s s' : advances s s' -> inv s -> inv s'.
Proof. apply advances_keeps. apply inv_adv. Qed.

Lemma inv_semi_not_last s : inv s -> tk_is (hk s) TSemi = true -> exists semi after, ps_rest s = semi :: after /\ after <> [] /\ last after (ps_last s) = ps_last s.
Proof.
  intros [H1 H2] Hk. unfold hk, head in Hk. destruct (ps_rest s) as [|t r] eqn:E; [congruence|].
  exists t, r. split; [reflexivity|]. destruct r as [|u r].
  - simpl in H1. subst t. congruence.
  - split; [discriminate|exact H1].
Qed.

(* paths: a path whose last character is not '/' has a parent *)
Lemma path_parent_some p : last p c_slash <> c_slash -> p <> [] -> path_parent p <> None.
Proof.
  intros Hl Hne.
  assert (Hr : exists d r, rev p = d :: r /\ d <> c_slash).
  { destruct (rev p) as [|d r] eqn:Er.
    - apply (f_equal (@rev N)) in Er. rewrite rev_involutive in Er. simpl in Er. congruence.
    - exists d, r. split; [reflexivity|]. intros ->. apply Hl.
      assert (H : p = rev r ++ [c_slash]) by (rewrite <- (rev_involutive p), Er; reflexivity).
      rewrite H. apply last_last. }
  destruct Hr as (d & r & Er & Hd).
  unfold path_parent. destruct p as [|c0 p0]; [congruence|]. cbv beta iota zeta.
  unfold char in *. rewrite Er.
  assert (Hs : strip_trailing_slashes_rev (d :: r) = d :: r) by (cbn [strip_trailing_slashes_rev]; apply N.eqb_neq in Hd; rewrite Hd; reflexivity).
  rewrite !Hs.
  destruct (drop_last_component_rev (d :: r)) as [|x l]; [discriminate|]. destruct (strip_trailing_slashes_rev (x :: l)); discriminate.
Qed.

Lemma last_app_nonempty {A} (a b : list A) d : b <> [] -> last (a ++ b) d = last b d.
Proof.
  intros Hb. induction a as [|x a IH]; [reflexivity|]. simpl. destruct (a ++ b) eqn:E; [|exact IH].
  apply app_eq_nil in E. destruct E. congruence.
Qed.

Lemma path_join_last base p : p <> [] -> last (path_join base p) c_slash = last p c_slash.
Proof.
  intros Hp. unfold path_join. destruct (path_is_absolute p); [reflexivity|]. destruct base as [|b0 base]; [reflexivity|].
  destruct (N.eqb (last (b0 :: base) 0%N) c_slash).
  - apply last_app_nonempty. exact Hp.
  - rewrite app_assoc. apply last_app_nonempty. exact Hp.
Qed.

Lemma path_join_nonempty base p : p <> [] -> path_join base p <> [].
Proof.
  intros Hp. unfold path_join. destruct (path_is_absolute p); [exact Hp|]. destruct base; [exact Hp|]. destruct (N.eqb _ _); discriminate.
Qed.

Lemma dir_string_ok loc : loc <> [] -> last loc c_slash <> c_slash -> no_panic (dir_string cwd loc).
Proof.
  intros Hne Hl. unfold dir_string.
  assert (Ha : abs_path cwd loc <> [] /\ last (abs_path cwd loc) c_slash <> c_slash).
  { unfold abs_path. destruct (path_is_absolute loc); [auto|]. split; [apply path_join_nonempty; exact Hne|rewrite path_join_last; auto]. }
  destruct Ha as [Ha1 Ha2]. pose proof (path_parent_some _ Ha2 Ha1) as Hp.
  destruct (path_parent (abs_path cwd loc)); [exact I|congruence].
Qed.

Lemma expand_dirname_ok ts loc : loc <> [] -> last loc c_slash <> c_slash -> no_panic (expand_dirname cwd ts loc).
Proof.
  intros H1 H2. unfold expand_dirname. destruct (existsb _ ts); [|exact I].
  pose proof (dir_string_ok loc H1 H2) as Hd. destruct (dir_string cwd loc); simpl; auto.
Qed.

Lemma ends_with_last s suf c : ends_with s suf = true -> suf <> [] -> last s c = last suf c /\ s <> [].
Proof.
  unfold ends_with. intros H Hs. apply andb_true_iff in H as [Hl He]. apply Nat.leb_le in Hl. apply text_eqb_eq in He.
  assert (H : s = firstn (length s - length suf) s ++ suf) by (pose proof (firstn_skipn (length s - length suf) s) as Hfs; rewrite He in Hfs; symmetry; exact Hfs).
  split.
  - rewrite H. apply last_app_nonempty. exact Hs.
  - intros ->. simpl in He. congruence.
Qed.

Lemma module_ext_props : module_ext <> [] /\ last module_ext c_slash <> c_slash.
Proof. vm_compute. split; discriminate. Qed.

Lemma import_path_rest_props fuel : forall acc s,
  no_panic (import_path_rest fuel acc s) /\
  forall p s1, import_path_rest fuel acc s = Ok (p, s1) -> advances s s1 /\ tk_is (hk s1) TSemi = true.
Proof.
  induction fuel as [|f IH]; intros acc s; simpl; [split; [exact I|intros; discriminate]|].
  destruct (hk s) eqn:Ek; try (split; [apply syntax_here_ok|intros p s1 H; exfalso; eapply syntax_here_not_ok; eauto]).
  - destruct (IH (path_join acc s0) (adv s)) as [Hn Hp]. split; [exact Hn|].
    intros p s1 H. destruct (Hp p s1 H). split; [apply advances_adv_l; assumption|assumption].
  - destruct (IH acc (adv s)) as [Hn Hp]. split; [exact Hn|].
    intros p s1 H. destruct (Hp p s1 H). split; [apply advances_adv_l; assumption|assumption].
  - split; [exact I|]. intros p s1 H. inv_ok H. split; [apply advances_refl|]. rewrite Ek. reflexivity.
Qed.

Lemma inv_after_splice s1 semi after ins prev mods :
  after <> [] -> last after (ps_last s1) = ps_last s1 -> tk_is (t_kind (ps_last s1)) TSemi = false ->
  inv (mkPs (semi :: ins ++ after) prev (last (semi :: ins ++ after) (ps_last s1)) mods).
Proof.
  intros Hane Hlast Hk.
  assert (E2 : last (semi :: ins ++ after) (ps_last s1) = ps_last s1).
  { change (semi :: ins ++ after) with ((semi :: ins) ++ after). rewrite last_app_nonempty by exact Hane. exact Hlast. }
  unfold inv. cbn [ps_rest ps_last]. rewrite E2. split; [exact E2|exact Hk].
Qed.

(** the import statement never panics: a missing file, a bad extension, a cycle, a lexical error in the module are all
    error values; an accepted import keeps the invariant of the token vector *)
Theorem named_module_import_total fuel alias s : inv s ->
  no_panic (named_module_import fs cwd main_path fuel alias s) /\
  forall s2, named_module_import fs cwd main_path fuel alias s = Ok s2 -> inv s2.
Proof.
  intros Hinv. unfold named_module_import.
  set (s0 := adv (adv s)). assert (Hi0 : inv s0) by (apply inv_adv, inv_adv; exact Hinv).
  assert (Hpath : no_panic (match hk s0 with TStr p => import_path_rest fuel p (adv s0) | _ => syntax_here s0 end) /\
          forall p s1, (match hk s0 with TStr p => import_path_rest fuel p (adv s0) | _ => syntax_here s0 end) = Ok (p, s1) ->
                       inv s1 /\ tk_is (hk s1) TSemi = true).
  { destruct (hk s0); try (split; [apply syntax_here_ok|intros p s1 H; exfalso; eapply syntax_here_not_ok; eauto]).
    destruct (import_path_rest_props fuel s1 (adv s0)) as [Hn Hp]. split; [exact Hn|].
    intros p s2 H. destruct (Hp p s2 H) as [Ha Hk]. split; [|exact Hk]. eapply inv_advances; [exact Ha|apply inv_adv; exact Hi0]. }
  destruct Hpath as [Hn Hp].
  destruct (match hk s0 with TStr p => import_path_rest fuel p (adv s0) | _ => syntax_here s0 end) as [[module_path s1]| | |] eqn:E;
    cbn [bind]; try (split; [exact Hn|intros; discriminate]).
  destruct (Hp module_path s1 eq_refl) as [Hi1 Hsemi].
  destruct (ends_with module_path module_ext) eqn:Ee; cbn [negb];
    [|split; [apply syntax_here_ok|intros s2 H; exfalso; eapply syntax_here_not_ok; eauto]].
  destruct (existsb _ _); [split; [exact I|intros; discriminate]|].
  destruct module_ext_props as [Hx1 Hx2].
  destruct (ends_with_last module_path module_ext c_slash Ee Hx1) as [Hlast Hmne].
  set (final := module_file_path main_path module_path).
  assert (Hf : final <> [] /\ last final c_slash <> c_slash).
  { unfold final, module_file_path. split; [apply path_join_nonempty; exact Hmne|rewrite path_join_last by exact Hmne; congruence]. }
  destruct (fs final) as [src|]; [|split; [exact I|intros; discriminate]].
  pose proof (lexer_total src final) as Hlex.
  destruct (tokenize src final) as [toks| | |]; cbn [bind]; try (split; [exact I|intros; discriminate]); try contradiction.
  pose proof (expand_dirname_ok toks final (proj1 Hf) (proj2 Hf)) as Hexp.
  destruct (expand_dirname cwd toks final) as [toks'| | |]; cbn [bind]; try (split; [exact Hexp|intros; discriminate]).
  cbv zeta. destruct (tk_is (t_kind (last _ _)) TImport); [split; [exact I|intros; discriminate]|].
  destruct (inv_semi_not_last s1 Hi1 Hsemi) as (semi & after & Er & Hane & Hlast2).
  rewrite Er. split; [exact I|]. intros s2 H. inv_ok H.
  destruct Hi1 as [_ Hk]. eapply inv_after_splice; eauto.
Qed.

Lemma pindex_list_props fuel : forall s,
  no_panic (pindex_list fuel s) /\ forall is s', pindex_list fuel s = Ok (is, s') -> advances s s'.
Proof.
  induction fuel as [|f IH]; intros s; simpl; [split; [exact I|intros; discriminate]|].
  assert (Hmain : no_panic (do '(i, s1) <- expression f s; match i with EList _ _ => do '(is, s2) <- pindex_list f s1; Ok (i :: is, s2) | _ => syntax_here s1 end) /\
           forall is s', (do '(i, s1) <- expression f s; match i with EList _ _ => do '(is, s2) <- pindex_list f s1; Ok (i :: is, s2) | _ => syntax_here s1 end) = Ok (is, s') -> advances s s').
  { destruct (expression_total f s) as [Hn _]. destruct (expression f s) as [[i s1]| | |] eqn:E; cbn [bind]; try (split; [exact Hn|intros; discriminate]).
    pose proof (expression_advances f s i s1 E) as Ha.
    destruct i; try (split; [apply syntax_here_ok|intros is s' H; exfalso; eapply syntax_here_not_ok; eauto]).
    destruct (IH s1) as [Hn2 Hp2]. destruct (pindex_list f s1) as [[is s2]| | |] eqn:E2; cbn [bind]; try (split; [exact Hn2|intros; discriminate]).
    split; [exact I|]. intros is' s' H. inv_ok H. eapply advances_trans; [exact Ha|eapply Hp2; reflexivity]. }
  destruct (hk s); try exact Hmain. split; [exact I|]. intros is s' H. inv_ok H. apply advances_refl.
Qed.

(** a statement: never a panic; the invariant of the token vector is kept *)
Theorem pstmt_total : forall fuel s, inv s ->
  no_panic (pstmt fs cwd main_path fuel s) /\ forall st s', pstmt fs cwd main_path fuel s = Ok (st, s') -> inv s'.
Proof.
  induction fuel as [|f IH]; intros s Hinv; [split; [exact I|intros; discriminate]|].
  cbn [pstmt].
  pose proof (pos_here_ok s) as Hh. destruct (pos_here s) as [p| | |] eqn:Ep; cbn [bind]; try (split; [exact Hh|intros; discriminate]).
  assert (Hexpr : forall s0, inv s0 -> no_panic (expression f s0) /\ forall e s1, expression f s0 = Ok (e, s1) -> inv s1 /\ good s1).
  { intros s0 Hi. destruct (expr_parser_total f) as [Ie _ _ _ _ _ _ _]. destruct (Ie 0 s0) as [Hn Hp]. split; [exact Hn|].
    intros e s1 H. split; [eapply inv_advances; [eapply expression_advances; exact H|exact Hi]|apply (Hp e s1 H)]. }
  assert (Hprev : forall s0, no_panic (pos_prev (adv s0))) by (intros; apply pos_prev_ok, adv_good).
  assert (Hsimple : forall (mk : pos -> fstmt), no_panic (do q <- pos_prev (adv s); Ok (mk q, adv s)) /\
            forall st s', (do q <- pos_prev (adv s); Ok (mk q, adv s)) = Ok (st, s') -> inv s').
  { intros mk. pose proof (Hprev s) as Hn. destruct (pos_prev (adv s)); cbn [bind]; try (split; [exact Hn|intros; discriminate]).
    split; [exact I|]. intros st s' H. inv_ok H. apply inv_adv; exact Hinv. }
  assert (Hprint : forall (mk : expr -> fstmt), no_panic (do '(e, s1) <- expression f (adv s); Ok (mk e, adv s1)) /\
            forall st s', (do '(e, s1) <- expression f (adv s); Ok (mk e, adv s1)) = Ok (st, s') -> inv s').
  { intros mk. destruct (Hexpr (adv s) (inv_adv s Hinv)) as [Hn Hp].
    destruct (expression f (adv s)) as [[e s1]| | |]; cbn [bind]; try (split; [exact Hn|intros; discriminate]).
    split; [exact I|]. intros st s' H. inv_ok H. apply inv_adv. apply (Hp e s1 eq_refl). }
  destruct (hk s) eqn:Ek; try (split; [apply syntax_here_ok|intros st s' H; exfalso; eapply syntax_here_not_ok; eauto]);
    try apply Hsimple; try apply Hprint.
  - (* identifier: call, reassignment or expression statement *)
    assert (Hes : no_panic (do '(e, s1) <- expression f s; Ok (FExpr e p, s1)) /\
              forall st s', (do '(e, s1) <- expression f s; Ok (FExpr e p, s1)) = Ok (st, s') -> inv s').
    { destruct (Hexpr s Hinv) as [Hn Hp]. destruct (expression f s) as [[e s1]| | |]; cbn [bind]; try (split; [exact Hn|intros; discriminate]).
      split; [exact I|]. intros st s' H. inv_ok H. apply (Hp e s' eq_refl). }
    assert (Hre : no_panic (do '(idx, s1) <- pindex_list f (adv s); do '(e, s2) <- expression f (adv s1);
                             Ok (FAssign AReassign (t_lexeme (head s)) (tpos (head s)) idx (Some e) p, adv s2)) /\
              forall st s', (do '(idx, s1) <- pindex_list f (adv s); do '(e, s2) <- expression f (adv s1);
                             Ok (FAssign AReassign (t_lexeme (head s)) (tpos (head s)) idx (Some e) p, adv s2)) = Ok (st, s') -> inv s').
    { destruct (pindex_list_props f (adv s)) as [Hn Hp].
      destruct (pindex_list f (adv s)) as [[idx s1]| | |] eqn:E; cbn [bind]; try (split; [exact Hn|intros; discriminate]).
      assert (Hi1 : inv s1) by (eapply inv_advances; [eapply Hp; reflexivity|apply inv_adv; exact Hinv]).
      destruct (Hexpr (adv s1) (inv_adv s1 Hi1)) as [Hn2 Hp2].
      destruct (expression f (adv s1)) as [[e s2]| | |]; cbn [bind]; try (split; [exact Hn2|intros; discriminate]).
      split; [exact I|]. intros st s' H. inv_ok H. apply inv_adv. apply (Hp2 e s2 eq_refl). }
    destruct (t_kind (head2 s)); try exact Hes; exact Hre.
  - (* if *)
    destruct (Hexpr (adv s) (inv_adv s Hinv)) as [Hn Hp].
    destruct (expression f (adv s)) as [[c s1]| | |]; cbn [bind]; try (split; [exact Hn|intros; discriminate]).
    destruct (Hp c s1 eq_refl) as [Hi1 Hg1]. pose proof (pos_prev_ok s1 Hg1) as Hn1.
    destruct (pos_prev s1); cbn [bind]; try (split; [exact Hn1|intros; discriminate]).
    split; [exact I|]. intros st s' H. inv_ok H. exact Hi1.
  - (* declaration *)
    destruct (hk (adv s)); try (split; [apply syntax_here_ok|intros st s' H; exfalso; eapply syntax_here_not_ok; eauto]).
    set (s2 := adv (adv s)). assert (Hi2 : inv s2) by (apply inv_adv, inv_adv; exact Hinv).
    assert (Hinit : no_panic (match hk s2 with TSemi => Ok (None, s2) | _ => do '(e, s3) <- expression f (adv s2); Ok (Some e, s3) end) /\
             forall init s3, (match hk s2 with TSemi => Ok (None, s2) | _ => do '(e, s3) <- expression f (adv s2); Ok (Some e, s3) end) = Ok (init, s3) -> inv s3 /\ good s3).
    { assert (He : no_panic (do '(e, s3) <- expression f (adv s2); Ok (Some e, s3)) /\
               forall init s3, (do '(e, s3) <- expression f (adv s2); Ok (Some e, s3)) = Ok (init, s3) -> inv s3 /\ good s3).
      { destruct (Hexpr (adv s2) (inv_adv s2 Hi2)) as [Hn Hp]. destruct (expression f (adv s2)) as [[e s3]| | |]; cbn [bind]; try (split; [exact Hn|intros; discriminate]).
        split; [exact I|]. intros init s3' H. inv_ok H. apply (Hp e s3' eq_refl). }
      destruct (hk s2); try exact He. split; [exact I|]. intros init s3 H. inv_ok H. split; [exact Hi2|apply adv_good]. }
    destruct Hinit as [Hn Hp].
    destruct (match hk s2 with TSemi => Ok (None, s2) | _ => do '(e, s3) <- expression f (adv s2); Ok (Some e, s3) end) as [[init s3]| | |] eqn:E;
      cbn [bind]; try (split; [exact Hn|intros; discriminate]).
    destruct (Hp init s3 eq_refl) as [Hi3 Hg3].
    assert (Hmiss : no_panic (if at_end s3 then @unexpected (fstmt * pstate) else
                                match ps_prev s3 with Some t => err ESyntax (t_line t) (t_file t) | None => Panic SiteUnderflow end)).
    { destruct (at_end s3) eqn:Ea; [exact I|]. destruct Hg3 as [Hg3|Hg3]; [congruence|]. destruct (ps_prev s3); [exact I|congruence]. }
    assert (Hmiss2 : forall st s', (if at_end s3 then @unexpected (fstmt * pstate) else
                                match ps_prev s3 with Some t => err ESyntax (t_line t) (t_file t) | None => Panic SiteUnderflow end) = Ok (st, s') -> inv s').
    { intros st s' H. destruct (at_end s3); [discriminate|]. destruct (ps_prev s3); discriminate. }
    destruct (hk s3); try (split; [exact Hmiss|exact Hmiss2]).
    split; [exact I|]. intros st s' H. inv_ok H. apply inv_adv. exact Hi3.
  - (* comment *)
    apply IH. apply inv_adv; exact Hinv.
  - (* continue / break consume two tokens *)
    split; [exact I|]. intros st s' H. inv_ok H. apply inv_adv, inv_adv. exact Hinv.
  - split; [exact I|]. intros st s' H. inv_ok H. apply inv_adv, inv_adv. exact Hinv.
  - (* return *)
    assert (Hr : no_panic (match hk (adv s) with TSemi => Ok (ENil p, adv s) | _ => expression f (adv s) end) /\
            forall e s2, (match hk (adv s) with TSemi => Ok (ENil p, adv s) | _ => expression f (adv s) end) = Ok (e, s2) -> inv s2).
    { destruct (Hexpr (adv s) (inv_adv s Hinv)) as [Hn Hp].
      destruct (hk (adv s)); try (split; [exact Hn|intros e s2 H; apply (Hp e s2 H)]).
      split; [exact I|]. intros e s2 H. inv_ok H. apply inv_adv; exact Hinv. }
    destruct Hr as [Hn Hp].
    destruct (match hk (adv s) with TSemi => Ok (ENil p, adv s) | _ => expression f (adv s) end) as [[e s2]| | |] eqn:E; cbn [bind]; try (split; [exact Hn|intros; discriminate]).
    split; [exact I|]. intros st s' H. inv_ok H. apply inv_adv. apply (Hp e s2 eq_refl).
  - (* import *)
    destruct (hk (adv s)); try (split; [apply syntax_here_ok|intros st s' H; exfalso; eapply syntax_here_not_ok; eauto]).
    destruct (named_module_import_total f (t_lexeme (head (adv s))) (adv s) (inv_adv s Hinv)) as [Hn Hp].
    destruct (named_module_import fs cwd main_path f (t_lexeme (head (adv s))) (adv s)) as [s2| | |]; cbn [bind]; try (split; [exact Hn|intros; discriminate]).
    apply IH. apply inv_adv. apply Hp. reflexivity.
  - (* end marker *)
    split; [exact I|]. intros st s' H. inv_ok H. exact Hinv.
Qed.

Theorem pprogram_total : forall fuel s, inv s -> no_panic (pprogram fs cwd main_path fuel s).
Proof.
  induction fuel as [|f IH]; intros s Hinv; [exact I|]. cbn [pprogram].
  destruct (pstmt_total f s Hinv) as [Hn Hp].
  destruct (pstmt fs cwd main_path f s) as [[st s1]| | |]; cbn [bind]; try exact Hn.
  pose proof (Hp st s1 eq_refl) as Hi1.
  assert (Hcont : no_panic (if at_end s1 then unexpected else
                             let s2 := match hk s1 with TSemi => adv s1 | _ => s1 end in do r <- pprogram fs cwd main_path f s2; Ok (st :: r))).
  { destruct (at_end s1); [exact I|]. cbv zeta.
    assert (Hi2 : inv (match hk s1 with TSemi => adv s1 | _ => s1 end)) by (destruct (hk s1); try exact Hi1; apply inv_adv; exact Hi1).
    pose proof (IH _ Hi2) as Hn2. destruct (pprogram fs cwd main_path f _); simpl; auto. }
  destruct st; try exact Hcont. exact I.
Qed.
End Stmts.

Lemma last_idem {A} (l : list A) d : last l (last l d) = last l d.
Proof. induction l as [|x l IH]; [reflexivity|]. destruct l as [|y l]; [reflexivity|]. exact IH. Qed.

Lemma last_map {A B} (g : A -> B) l d : last (map g l) (g d) = g (last l d).
Proof. induction l as [|x l IH]; [reflexivity|]. destruct l as [|y l]; [reflexivity|]. exact IH. Qed.

Lemma last_default_irrelevant {A} (l : list A) d d' : l <> [] -> last l d = last l d'.
Proof. induction l as [|x l IH]; [congruence|]. intros _. destruct l as [|y l]; [reflexivity|]. apply IH. discriminate. Qed.

(* the tokenizer's result ends with the end marker *)
Lemma lex_loop_last_eot fuel : forall rest pos line file prev ts d,
  lex_loop fuel rest pos line file prev = Ok ts -> fst (last ts d) = eot file /\ ts <> [].
Proof.
  induction fuel as [|f IH]; intros rest pos line file prev ts d H.
  - destruct rest; simpl in H; [inv_ok H; split; [reflexivity|discriminate]|discriminate].
  - destruct rest as [|c r]; [simpl in H; inv_ok H; split; [reflexivity|discriminate]|].
    cbn [lex_loop] in H.
    destruct (consume (c :: r) line file prev) as [[[t n] l]| | |]; cbn [bind] in H; try discriminate.
    destruct t as [tk|].
    + destruct (lex_loop f _ _ _ _ _) as [ts0| | |] eqn:E; cbn [bind] in H; try discriminate. inv_ok H.
      destruct (IH _ _ _ _ _ ts0 d E) as [Hl Hne]. split; [|discriminate].
      destruct ts0; [congruence|exact Hl].
    + eapply IH; exact H.
Qed.

Lemma tokenize_last_eot src file toks d : tokenize src file = Ok toks -> last toks d = eot file /\ toks <> [].
Proof.
  unfold tokenize, tokenize_spans. intros H.
  destruct (lex_loop (S (length src)) src 0 1%N file None) as [ts| | |] eqn:E; cbn [bind] in H; try discriminate. inv_ok H.
  destruct (lex_loop_last_eot _ _ _ _ _ _ ts (d, (0, 0)) E) as [Hl Hne].
  split; [|destruct ts; [congruence|discriminate]].
  change d with (fst (d, (0, 0))). rewrite last_map. exact Hl.
Qed.

Lemma expand_dirname_last cwd ts loc ts' d : expand_dirname cwd ts loc = Ok ts' -> ts <> [] ->
  t_kind (last ts d) = TEOT -> t_kind (last ts' d) = TEOT.
Proof.
  unfold expand_dirname. intros H Hne Hk. destruct (existsb _ ts).
  - destruct (dir_string cwd loc) as [dd| | |]; cbn [bind] in H; try discriminate.
    injection H as H. rewrite <- H. clear H.
    match goal with |- context [map ?gg ts] => set (g := gg) end.
    rewrite (last_default_irrelevant (map g ts) d (g d)) by (destruct ts; [congruence|discriminate]).
    rewrite last_map. unfold g. rewrite Hk. exact Hk.
  - injection H as <-. exact Hk.
Qed.

(** For every source text, file map and fuel: lexing then parsing returns a statement list, an error value or runs out
    of fuel -- it never panics.  (The main path must name a file: non-empty, not ending in '/'.) *)
Theorem front_never_panics fs cwd main_path fuel src :
  main_path <> [] -> last main_path c_slash <> c_slash ->
  no_panic (front fs cwd main_path fuel src).
Proof.
  intros Hm1 Hm2. unfold front.
  pose proof (lexer_total src main_path) as Hlex.
  destruct (tokenize src main_path) as [toks| | |] eqn:Et; cbn [bind]; try exact I; try contradiction.
  unfold parse. destruct toks as [|t0 toks'] eqn:Etk; [exact I|]. rewrite <- Etk in *.
  destruct (tokenize_last_eot src main_path toks t0 Et) as [Hlast Hne].
  pose proof (expand_dirname_ok cwd toks main_path Hm1 Hm2) as He.
  destruct (expand_dirname cwd toks main_path) as [toks2| | |] eqn:Ee; cbn [bind]; try exact He.
  apply pprogram_total. split; cbn [ps_rest ps_last]; [apply last_idem|].
  assert (Hk : t_kind (last toks2 t0) = TEOT).
  { eapply expand_dirname_last; [exact Ee|exact Hne|]. rewrite Hlast. reflexivity. }
  rewrite Hk. reflexivity.
Qed.
