(** Unfolding equations of the fuel-indexed evaluator (open recursion, see Interp.v). *)
From Pakhi Require Import Base Float64 Syntax Tables Lexer Interp.

Lemma eval_S code f e m : eval code (S f) e m = eval_step code (eval code f) (call_loop code f) e m.
Proof. reflexivity. Qed.
Lemma call_loop_S code f m : call_loop code (S f) m = call_loop_step code (interp code f) (call_loop code f) m.
Proof. reflexivity. Qed.
Lemma interp_S code f m : interp code (S f) m = interp_step code (eval code f) m.
Proof. reflexivity. Qed.
Lemma eval_O code e m : eval code 0 e m = OutOfFuel.
Proof. reflexivity. Qed.
Lemma interp_O code m : interp code 0 m = OutOfFuel.
Proof. reflexivity. Qed.
Lemma call_loop_O code m : call_loop code 0 m = OutOfFuel.
Proof. reflexivity. Qed.
