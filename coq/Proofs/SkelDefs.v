(** Names held by the scopes ("skeleton" of a scope stack), and the statement that an evaluator leaves it alone.
    Definitions and list-level lemmas only; the theorems are in Skeleton.v (and are used by the no-panic proof for one
    step: the indexed assignment reads its variable again after the index expressions). *)
From Pakhi Require Import Base Float64 Syntax Tables Lexer Interp.
From Pakhi.Proofs Require Import Assoc Scope WF WFOps.
From Coq Require Import Lia.
Local Open Scope nat_scope.

Definition skel (ss : list scope) : list (list text) := map (map (@fst text value)) ss.

Lemma skel_length ss : length (skel ss) = length ss.
Proof. apply map_length. Qed.

Lemma skel_truncate b ss : skel (truncate b ss) = truncate b (skel ss).
Proof. unfold truncate, skel. rewrite map_length. symmetry. apply skipn_map. Qed.

Lemma truncate_app_le {A} b (pre base : list A) : b <= length base -> truncate b (pre ++ base) = truncate b base.
Proof.
  intros H. unfold truncate. rewrite app_length.
  replace (length pre + length base - b) with (length pre + (length base - b)) by lia.
  rewrite skipn_app. rewrite skipn_all2 by lia. replace (length pre + (length base - b) - length pre) with (length base - b) by lia.
  reflexivity.
Qed.

Lemma alist_set_keys {A} k (v : A) l : alist_has k l = true -> map fst (alist_set k v l) = map fst l.
Proof.
  unfold alist_has. induction l as [|[k' v'] r IH]; cbn [alist_get alist_set]; [discriminate|].
  destruct (text_eqb k k') eqn:E.
  - intros _. apply text_eqb_eq in E. subst. reflexivity.
  - intros H. cbn [map fst]. rewrite IH by exact H. reflexivity.
Qed.

Lemma assign_var_skel x v : forall ss ss', assign_var x v ss = Some ss' -> skel ss' = skel ss.
Proof.
  induction ss as [|s r IH]; intros ss' H; cbn [assign_var] in H; [discriminate|].
  destruct (alist_has x s) eqn:E.
  - injection H as <-. unfold skel. cbn [map]. rewrite alist_set_keys by exact E. reflexivity.
  - destruct (assign_var x v r) as [r'|] eqn:Er; [|discriminate]. injection H as <-.
    unfold skel in *. cbn [map]. rewrite (IH r' eq_refl). reflexivity.
Qed.

(* the name is held by the same scopes: visibility and the innermost holder are functions of the skeleton *)
Lemma alist_has_keys {A B} x (s : list (text * A)) (s' : list (text * B)) : map fst s = map fst s' -> alist_has x s = alist_has x s'.
Proof.
  unfold alist_has. revert s'. induction s as [|[k v] r IH]; intros [|[k' v'] r'] H; try discriminate; [reflexivity|].
  cbn [map fst] in H. injection H as -> Hr. cbn [alist_get]. destruct (text_eqb x k'); [reflexivity|]. apply IH. exact Hr.
Qed.

Fixpoint holder (x : text) (ss : list scope) : option nat :=      (* depth of the innermost scope that has x *)
  match ss with
  | [] => None
  | s :: r => if alist_has x s then Some 0 else option_map S (holder x r)
  end.

Lemma holder_skel x : forall ss ss', skel ss = skel ss' -> holder x ss = holder x ss'.
Proof.
  induction ss as [|s r IH]; intros [|s' r'] H; try discriminate; [reflexivity|].
  unfold skel in H. cbn [map] in H. injection H as Hs Hr. cbn [holder].
  rewrite (alist_has_keys x s s' Hs). rewrite (IH r' Hr). reflexivity.
Qed.

Lemma lookup_iff_holder x : forall ss, lookup_var x ss = None <-> holder x ss = None.
Proof.
  induction ss as [|s r IH]; cbn [lookup_var holder]; [tauto|].
  unfold alist_has. destruct (alist_get x s); [split; discriminate|].
  destruct (holder x r); cbn [option_map].
  - split; intros H; [apply IH in H; discriminate|discriminate].
  - split; intros _; [reflexivity|apply IH; reflexivity].
Qed.

Lemma lookup_is_holder x : forall ss v, lookup_var x ss = Some v ->
  exists d s, holder x ss = Some d /\ nth_error ss d = Some s /\ alist_get x s = Some v.
Proof.
  induction ss as [|s r IH]; intros v H; cbn [lookup_var holder] in *; [discriminate|].
  unfold alist_has. destruct (alist_get x s) as [w|] eqn:E.
  - injection H as ->. exists 0, s. auto.
  - destruct (IH v H) as (d & s0 & Hd & Hn & Hg). exists (S d), s0. rewrite Hd. auto.
Qed.

Section Defs.
Variable code : list fstmt.

Definition Ske {A} (m : machine) (proj : A -> machine) (x : outcome A) : Prop :=
  match x with Ok a => skel (m_scopes (proj a)) = skel (m_scopes m) | _ => True end.

Definition Se (ev : expr -> machine -> outcome (value * machine)) : Prop :=
  forall e m, mwf code m -> expr_ok e = true -> Ske m (@snd value machine) (ev e m).
End Defs.
