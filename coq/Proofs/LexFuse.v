(** C11: the blanks between two tokens can be removed when the tokens cannot fuse.
    One step of the tokenizer looks at the text of the token it produces and at most at the one character behind it;
    [nofuse prev p tail] says what that character must not be, per kind of token text [p]:
      - a number: not a digit of any script, not '.';
      - a lone '-': not '>' (that would be the arrow), and not a digit unless the '-' follows an operand (otherwise
        the two ARE one token, a negative literal);
      - the one-character form of a two-character operator (= ! < > ...): not its second character;
      - an identifier or keyword: not an identifier character;
      - a string, a comment, a two-character operator, any single-character operator: anything.
    Then the same token, with the same lexeme and value, is produced whatever follows ([consume_local]), so a run of blanks
    after it can be dropped ([blanks_between_tokens_are_optional]); with LexLayout.v (blanks are inert, counters are
    irrelevant) every re-layout that keeps a separator where tokens would fuse yields the same token sequence. *)
From Pakhi Require Import Base Float64 Syntax Tables Lexer.
From Pakhi.Proofs Require Import TableFacts LexTotal LexSpans LexLayout.
From Coq Require Import Lia.
Local Open Scope nat_scope.

Lemma gt_not_numeric : is_numeric c_gt = false.
Proof. vm_compute. reflexivity. Qed.

Definition ahead (tail : text) (P : N -> Prop) : Prop := match tail with [] => True | d :: _ => P d end.

Definition stops_num (tail : text) : Prop := ahead tail (fun d => N.eqb d c_dot = false /\ is_numeric d = false).

Definition is_digit (c : N) : bool := match assoc_N c lexer_digits with Some _ => true | None => false end.

Definition nofuse (prev : option tkind) (p : text) (tail : text) : Prop :=
  match p with
  | [] => True
  | c :: more =>
    if N.eqb c c_minus || is_digit c then
      if N.eqb c c_minus then
        match more with
        | [] => ahead tail (fun d => N.eqb d c_gt = false /\ (is_numeric d = false \/ after_operand prev = true))
        | [e] => if N.eqb e c_gt then True else stops_num tail
        | _ => stops_num tail
        end
      else stops_num tail
    else match assoc_N c single_ops with
         | Some _ => True
         | None =>
           match assoc_N c double_ops with
           | Some (d2, _, _) => match more with [] => ahead tail (fun d => N.eqb d d2 = false) | _ => True end
           | None => if N.eqb c c_hash then True else if N.eqb c c_quote then True
                     else ahead tail (fun d => is_valid_identifier_char d = false)
           end
         end
  end.

Local Opaque lexer_digits single_ops double_ops keywords numeric_ranges minus_binary_after ident_extra_chars.

(** ** the scanners look no further than one character behind what they consume *)
Lemma num_scan_stop tail in_frac line file : stops_num tail -> num_scan tail in_frac line file = Ok ([], 0).
Proof. destruct tail as [|d t]; [reflexivity|]. intros [H1 H2]. cbn [num_scan]. rewrite H1, H2. reflexivity. Qed.

Lemma num_scan_local rest : forall in_frac line file s k, num_scan rest in_frac line file = Ok (s, k) ->
  forall tail', stops_num tail' -> num_scan (firstn k rest ++ tail') in_frac line file = Ok (s, k).
Proof.
  induction rest as [|c r IH]; intros in_frac line file s k H tail' Hst.
  - cbn in H. injection H as <- <-. cbn. apply num_scan_stop. exact Hst.
  - cbn [num_scan] in H. destruct (N.eqb c c_dot) eqn:Ed.
    + destruct in_frac; [discriminate|].
      destruct (num_scan r true line file) as [[s' n']| | |] eqn:E; cbn [bind] in H; try discriminate. injection H as <- <-.
      cbn [firstn app num_scan]. rewrite Ed. rewrite (IH _ _ _ _ _ E tail' Hst). reflexivity.
    + destruct (is_numeric c) eqn:En.
      * destruct (assoc_N c lexer_digits) as [d|] eqn:Ea; [|discriminate].
        destruct (num_scan r in_frac line file) as [[s' n']| | |] eqn:E; cbn [bind] in H; try discriminate. injection H as <- <-.
        cbn [firstn app num_scan]. rewrite Ed, En, Ea. rewrite (IH _ _ _ _ _ E tail' Hst). reflexivity.
      * injection H as <- <-. cbn [firstn app]. apply num_scan_stop. exact Hst.
Qed.

Lemma num_scan_numeric_head c r in_frac line file s k : is_numeric c = true -> N.eqb c c_dot = false ->
  num_scan (c :: r) in_frac line file = Ok (s, k) -> 1 <= k.
Proof.
  intros Hn Hd H. cbn [num_scan] in H. rewrite Hd, Hn in H. destruct (assoc_N c lexer_digits); [|discriminate].
  destruct (num_scan r in_frac line file) as [[s' n']| | |]; cbn [bind] in H; try discriminate. injection H as _ <-. lia.
Qed.

Lemma ident_scan_local rest tail' : ahead tail' (fun d => is_valid_identifier_char d = false) ->
  ident_scan (ident_scan rest ++ tail') = ident_scan rest.
Proof.
  intros Ht. induction rest as [|c r IH]; cbn [ident_scan].
  - cbn [app]. destruct tail' as [|d t]; [reflexivity|]. cbn [ident_scan]. rewrite Ht. reflexivity.
  - destruct (is_valid_identifier_char c) eqn:Ev.
    + cbn [app ident_scan]. rewrite Ev, IH. reflexivity.
    + cbn [app]. destruct tail' as [|d t]; [reflexivity|]. cbn [ident_scan]. rewrite Ht. reflexivity.
Qed.

Lemma string_scan_local r : forall s, string_scan r = (s, true) -> forall tail', string_scan (s ++ c_quote :: tail') = (s, true).
Proof.
  induction r as [|c r IH]; intros s H tail'; cbn [string_scan] in H; [discriminate|].
  destruct (N.eqb c c_quote) eqn:Eq.
  - injection H as <-. cbn [app string_scan]. change (N.eqb c_quote c_quote) with true. reflexivity.
  - destruct (string_scan r) as [s' cl] eqn:E. injection H as <- ->. cbn [app string_scan]. rewrite Eq, (IH s' eq_refl tail'). reflexivity.
Qed.

Lemma comment_scan_local f : forall r m l, comment_scan f r = Some (m, l) ->
  forall f' tail', m <= f' -> comment_scan f' (firstn m r ++ tail') = Some (m, l).
Proof.
  induction f as [|f IH]; intros r m l H f' tail' Hf; [discriminate|]. cbn [comment_scan] in H.
  destruct r as [|c r]; [discriminate|].
  destruct (N.eqb c c_hash) eqn:Eh.
  { injection H as <- <-. destruct f' as [|f']; [lia|]. cbn [firstn app comment_scan]. rewrite Eh. reflexivity. }
  destruct (N.eqb c c_backslash && match r with d :: _ => N.eqb d c_hash | [] => false end) eqn:Ee.
  - destruct (comment_scan f (tl r)) as [[n l0]|] eqn:E; [|discriminate]. injection H as <- <-.
    apply andb_true_iff in Ee as [Eb Ed]. destruct r as [|d r1]; [discriminate|]. cbn [tl] in E.
    destruct f' as [|f']; [lia|]. cbn [firstn app comment_scan]. rewrite Eh, Eb, Ed. cbn [andb tl].
    rewrite (IH _ _ _ E f' tail') by lia. reflexivity.
  - destruct (comment_scan f r) as [[n l0]|] eqn:E; [|discriminate]. injection H as <- <-.
    destruct (comment_scan_len _ _ _ _ E) as [Hn1 Hn2].
    destruct f' as [|f']; [lia|]. cbn [firstn app comment_scan]. rewrite Eh.
    assert (Ee' : (N.eqb c c_backslash && match firstn n r ++ tail' with d :: _ => N.eqb d c_hash | [] => false end) = false).
    { destruct r as [|d r1]; [simpl in Hn2; lia|]. destruct n as [|n]; [lia|]. cbn [firstn app]. exact Ee. }
    rewrite Ee'. rewrite (IH _ _ _ E f' tail') by lia. reflexivity.
Qed.

Lemma consume_num_local c r line file v n : (N.eqb c c_minus = true \/ (is_numeric c = true /\ N.eqb c c_dot = false)) ->
  (N.eqb c c_minus = true -> match r with d :: _ => is_numeric d = true /\ N.eqb d c_dot = false | [] => False end) ->
  consume_num (c :: r) line file = Ok (v, n) ->
  forall tail', stops_num tail' ->
  consume_num (firstn n (c :: r) ++ tail') line file = Ok (v, n) /\ 1 <= n /\ (N.eqb c c_minus = true -> 2 <= n).
Proof.
  intros Hc Hm H tail' Hst. unfold consume_num in H. destruct (N.eqb c c_minus) eqn:Em.
  - unfold consume_num_tail in H. destruct (num_scan r false line file) as [[s k]| | |] eqn:E; cbn [bind] in H; try discriminate.
    match type of H with context [parse_f64 ?a] => destruct (parse_f64 a) as [v'|] eqn:Ep end; [|discriminate]. injection H as <- <-.
    specialize (Hm eq_refl). destruct r as [|d r']; [contradiction|]. destruct Hm as [Hn Hd].
    pose proof (num_scan_numeric_head _ _ _ _ _ _ _ Hn Hd E) as Hk.
    split; [|lia]. change (1 + k) with (S k). rewrite firstn_cons. cbn [app]. unfold consume_num. rewrite Em. unfold consume_num_tail.
    pose proof (num_scan_local _ _ _ _ _ _ E tail' Hst) as L.
    match goal with |- context [num_scan ?a ?b ?c ?d] => replace (num_scan a b c d) with (@Ok (text * nat) (s, k)) by (symmetry; exact L) end.
    cbn [bind]. cbn [app] in Ep |- *. rewrite Ep. reflexivity.
  - destruct Hc as [Hc|[Hn Hd]]; [discriminate|].
    unfold consume_num_tail in H. destruct (num_scan (c :: r) false line file) as [[s k]| | |] eqn:E; cbn [bind] in H; try discriminate.
    match type of H with context [parse_f64 ?a] => destruct (parse_f64 a) as [v'|] eqn:Ep end; [|discriminate]. injection H as <- <-.
    pose proof (num_scan_numeric_head _ _ _ _ _ _ _ Hn Hd E) as Hk. cbn [Nat.add].
    split; [|split; [lia|discriminate]].
    destruct k as [|k]; [lia|]. pose proof (num_scan_local _ _ _ _ _ _ E tail' Hst) as L. cbn [firstn app] in L |- *.
    unfold consume_num. rewrite Em. unfold consume_num_tail.
    match goal with |- context [num_scan ?a ?b ?c ?d] => replace (num_scan a b c d) with (@Ok (text * nat) (s, S k)) by (symmetry; exact L) end.
    cbn [bind]. cbn [app] in Ep |- *. rewrite Ep. reflexivity.
Qed.

Lemma firstn_firstn_app {A} n (l t : list A) : n <= length l -> firstn n (firstn n l ++ t) = firstn n l.
Proof.
  intros H. rewrite firstn_app, firstn_firstn, Nat.min_id. rewrite firstn_length, Nat.min_l by exact H.
  rewrite Nat.sub_diag. cbn [firstn]. apply app_nil_r.
Qed.

(** ** one step of the tokenizer: what follows the token's text does not matter, as long as it cannot fuse with it *)
Theorem consume_local rest line file prev tk n dl : consume rest line file prev = Ok (Some tk, n, dl) ->
  forall tail', nofuse prev (firstn n rest) tail' ->
  consume (firstn n rest ++ tail') line file prev = Ok (Some tk, n, dl).
Proof.
  intros H tail' Hnf. destruct rest as [|c r]; [discriminate|].
  pose proof (consume_spec (c :: r) line file prev ltac:(discriminate)) as Hspec. rewrite H in Hspec. cbn beta iota in Hspec.
  destruct Hspec as [Hn1 Hn2]. destruct n as [|n1]; [lia|]. cbn [firstn app] in Hnf |- *. cbn [length] in Hn2.
  unfold consume in H |- *. unfold nofuse in Hnf. cbv beta iota in Hnf. fold (is_digit c) in H |- *.
  destruct (N.eqb c c_minus || is_digit c) eqn:Hhead.
  { (* '-' or a digit *)
    assert (Hcm : is_numeric c = false -> N.eqb c c_minus = true).
    { intros Hnn. destruct (N.eqb c c_minus); [reflexivity|]. cbn [orb] in Hhead. unfold is_digit in Hhead.
      destruct (assoc_N c lexer_digits) eqn:Ed; [|discriminate]. rewrite (digits_numeric _ _ Ed) in Hnn. discriminate. }
    destruct (is_numeric c || (match r with d :: _ => is_numeric d | [] => false end) && negb (after_operand prev)) eqn:Hnum.
    - (* a number *)
      destruct (consume_num (c :: r) line file) as [[v k]| | |] eqn:E; cbn [bind] in H; try discriminate.
      injection H as <- Hk <-. subst k.
      assert (Hc : N.eqb c c_minus = true \/ (is_numeric c = true /\ N.eqb c c_dot = false)).
      { destruct (Bool.bool_dec (N.eqb c c_minus) true) as [Em|Em]; [left; exact Em|right]. apply Bool.not_true_is_false in Em.
        rewrite Em in Hhead. cbn [orb] in Hhead. unfold is_digit in Hhead.
        destruct (assoc_N c lexer_digits) eqn:Ed; [|discriminate]. split; [apply (digits_numeric _ _ Ed)|apply (digits_not_dot _ _ Ed)]. }
      assert (Hm : N.eqb c c_minus = true -> match r with d :: _ => is_numeric d = true /\ N.eqb d c_dot = false | [] => False end).
      { intros Em. assert (Hnc : is_numeric c = false) by (apply N.eqb_eq in Em; subst c; vm_compute; reflexivity).
        rewrite Hnc in Hnum. cbn [orb] in Hnum. apply andb_true_iff in Hnum as [Hnx _].
        destruct r as [|d r']; [discriminate|]. split; [exact Hnx|]. destruct (N.eqb d c_dot) eqn:Edd; [|reflexivity].
        apply N.eqb_eq in Edd. subst d. vm_compute in Hnx. discriminate. }
      assert (Hst : stops_num tail').
      { try rewrite Hhead in Hnf.
        destruct (Bool.bool_dec (N.eqb c c_minus) true) as [Em|Em].
        2:{ apply Bool.not_true_is_false in Em. rewrite Em in Hnf. exact Hnf. }
        rewrite Em in Hnf. pose proof (Hm Em) as Hm1.
        destruct (consume_num_local c r line file v (S n1) Hc Hm E [] I) as (_ & _ & H2). specialize (H2 Em).
        destruct r as [|d0 r']; [contradiction|]. destruct Hm1 as [Hn0 _].
        destruct n1 as [|n2]; [lia|]. rewrite firstn_cons in Hnf. destruct n2 as [|n3].
        - cbn [firstn] in Hnf. destruct (N.eqb d0 c_gt) eqn:Eg; [|exact Hnf]. apply N.eqb_eq in Eg. subst d0. rewrite gt_not_numeric in Hn0. discriminate.
        - destruct r' as [|d1 r'']; [|rewrite firstn_cons in Hnf; exact Hnf]. rewrite firstn_nil in Hnf.
          destruct (N.eqb d0 c_gt) eqn:Eg; [|exact Hnf]. apply N.eqb_eq in Eg. subst d0. rewrite gt_not_numeric in Hn0. discriminate. }
      destruct (consume_num_local c r line file v (S n1) Hc Hm E tail' Hst) as (L & _ & L2). cbn [firstn app] in L.
      assert (Hnum' : (is_numeric c || (match firstn n1 r ++ tail' with d :: _ => is_numeric d | [] => false end) && negb (after_operand prev)) = true).
      { destruct (is_numeric c) eqn:Enc; [reflexivity|]. cbn [orb] in Hnum |- *. specialize (Hcm eq_refl). specialize (L2 Hcm).
        destruct r as [|d0 r']; [discriminate|]. destruct n1 as [|n2]; [lia|]. cbn [firstn app]. exact Hnum. }
      rewrite Hnum'.
      match goal with |- context [consume_num ?a ?b ?c0] => replace (consume_num a b c0) with (@Ok (f64 * nat) (v, S n1)) by (symmetry; exact L) end.
      cbn [bind].
      change (c :: firstn n1 r ++ tail') with (firstn (S n1) (c :: r) ++ tail'). rewrite firstn_firstn_app by (cbn [length]; lia). reflexivity.
    - (* the arrow or a lone '-' *)
      apply orb_false_iff in Hnum as [Hnc Hnx]. specialize (Hcm Hnc). try rewrite Hhead in Hnf. rewrite Hcm in Hnf.
      destruct (match r with d :: _ => N.eqb d c_gt | [] => false end) eqn:Egt.
      + injection H as <- <- <-. destruct r as [|d0 r']; [discriminate|]. cbn [firstn app].
        rewrite Hnc. cbn [orb]. apply N.eqb_eq in Egt. subst d0. rewrite gt_not_numeric. cbn [andb].
        change (N.eqb c_gt c_gt) with true. cbv iota. reflexivity.
      + injection H as <- <- <-. cbn [firstn app]. rewrite Hnc. cbn [orb].
        destruct tail' as [|d t]; [cbn [andb]; reflexivity|]. cbn [firstn ahead] in Hnf. destruct Hnf as [Hg Ho].
        assert (Hx : (is_numeric d && negb (after_operand prev)) = false) by (destruct Ho as [-> | ->]; [reflexivity|rewrite andb_false_r; reflexivity]).
        rewrite Hx, Hg. reflexivity. }
  try rewrite Hhead in Hnf.
  destruct (assoc_N c single_ops) as [k|] eqn:Es.
  { injection H as <- <- <-. reflexivity. }
  destruct (assoc_N c double_ops) as [[[d2 k2] k1]|] eqn:Ed.
  { destruct (match r with x :: _ => N.eqb x d2 | [] => false end) eqn:Ex.
    - injection H as <- <- <-. destruct r as [|x r']; [discriminate|]. cbn [firstn app]. rewrite Ex. reflexivity.
    - injection H as <- <- <-. cbn [firstn app]. destruct tail' as [|d t]; [reflexivity|]. cbn [firstn ahead] in Hnf. rewrite Hnf. reflexivity. }
  destruct (N.eqb c c_hash) eqn:Eh.
  { destruct (comment_scan (S (length r)) r) as [[m l]|] eqn:E; [|discriminate]. injection H as <- Hk <-. assert (m = n1) by congruence. subst m.
    destruct (comment_scan_len _ _ _ _ E) as [Hm1 Hm2].
    rewrite (comment_scan_local _ _ _ _ E (S (length (firstn n1 r ++ tail'))) tail') by (rewrite app_length, firstn_length; lia).
    change (c :: firstn n1 r ++ tail') with (firstn (S n1) (c :: r) ++ tail'). rewrite firstn_firstn_app by (cbn [length]; lia). reflexivity. }
  destruct (N.eqb c c_quote) eqn:Eq.
  { destruct (string_scan r) as [s closed] eqn:E. destruct closed; [|discriminate]. injection H as <- Hn <-.
    destruct (string_scan_text r s E) as [tail0 Hr]. subst r.
    assert (Ef : firstn n1 (s ++ c_quote :: tail0) = s ++ [c_quote]).
    { assert (n1 = length (s ++ [c_quote])) as -> by (rewrite app_length; cbn [length]; lia).
      replace (s ++ c_quote :: tail0) with ((s ++ [c_quote]) ++ tail0) by (rewrite <- app_assoc; reflexivity). apply firstn_exact. }
    rewrite Ef. rewrite <- app_assoc. cbn [app]. match goal with |- context [string_scan ?a] => replace (string_scan a) with (s, true) by (symmetry; exact (string_scan_local _ s E tail')) end.
    rewrite Hn. reflexivity. }
  destruct (mem_N c [32%N; 13%N; 9%N]); [discriminate|].
  destruct (N.eqb c c_newline); [discriminate|].
  destruct (ident_scan (c :: r)) as [|i id] eqn:Ei; [discriminate|].
  destruct (ident_scan_text (c :: r)) as [tail0 [Ht _]]. rewrite Ei in Ht.
  assert (En : S n1 = length (i :: id)) by (destruct (assoc_text (i :: id) keywords); injection H as _ <- _; reflexivity).
  assert (Ef : c :: firstn n1 r = i :: id).
  { change (c :: firstn n1 r) with (firstn (S n1) (c :: r)). rewrite En, Ht. apply firstn_exact. }
  change (c :: firstn n1 r ++ tail') with ((c :: firstn n1 r) ++ tail'). rewrite Ef.
  assert (Hid : ident_scan ((i :: id) ++ tail') = i :: id).
  { rewrite <- Ei. apply ident_scan_local. exact Hnf. }
  match goal with |- context [ident_scan ?a] => replace (ident_scan a) with (i :: id) by (symmetry; exact Hid) end. exact H.
Qed.

(** ** a run of blanks between two tokens that cannot fuse can be dropped: the same tokens result *)
Theorem blanks_between_tokens_are_optional p blanks tail line file prev tk dl :
  consume (p ++ blanks ++ tail) line file prev = Ok (Some tk, length p, dl) ->
  forallb is_blank blanks = true -> nofuse prev p tail ->
  forall fuel pos,
    same_tokens (lex_loop (S (length blanks + fuel)) (p ++ blanks ++ tail) pos line file prev)
                (lex_loop (S fuel) (p ++ tail) pos line file prev).
Proof.
  intros H Hb Hnf fuel pos.
  pose proof (consume_local _ _ _ _ _ _ _ H tail) as L. rewrite firstn_exact in L. specialize (L Hnf).
  assert (Hp : p <> []).
  { intros ->. cbn [app length] in H. destruct (blanks ++ tail) as [|c r] eqn:E; [discriminate|].
    pose proof (consume_spec (c :: r) line file prev ltac:(discriminate)) as Hs. rewrite H in Hs. cbn beta iota in Hs. lia. }
  destruct p as [|c0 p0]; [congruence|].
  assert (U : forall f c r, lex_loop (S f) (c :: r) pos line file prev =
              (do '(t, n, l) <- consume (c :: r) line file prev;
               match t with
               | Some tk0 => do ts <- lex_loop f (skipn n (c :: r)) (pos + n) (line + l)%N file (Some (t_kind tk0)); Ok ((tk0, (pos, n)) :: ts)
               | None => lex_loop f (skipn n (c :: r)) (pos + n) (line + l)%N file prev
               end)) by reflexivity.
  change ((c0 :: p0) ++ blanks ++ tail) with (c0 :: (p0 ++ blanks ++ tail)).
  change ((c0 :: p0) ++ tail) with (c0 :: (p0 ++ tail)). rewrite !U.
  change (c0 :: (p0 ++ blanks ++ tail)) with ((c0 :: p0) ++ blanks ++ tail).
  change (c0 :: (p0 ++ tail)) with ((c0 :: p0) ++ tail). rewrite H, L. cbn [bind].
  rewrite !skipn_exact.
  match goal with |- same_tokens (bind ?A _) (bind ?B0 _) =>
    assert (B : same_tokens A B0) by exact (leading_blanks_inert blanks Hb fuel tail (pos + length (c0 :: p0)) (N.add line dl) file (Some (t_kind tk)));
    revert B; destruct A as [t1| | |]; destruct B0 as [t2| | |]; cbn [bind same_tokens map fst]; auto; try contradiction
  end.
  intros B. f_equal. exact B.
Qed.

(** ** a comment block in front of anything is one comment token, and the text behind it is lexed as if it stood alone
    (apart from the counters and the previous-token memory, which a comment does not change for the sign decision:
    a comment is not an operand) *)
Lemma hash_tables : (N.eqb c_hash c_minus || is_digit c_hash) = false /\ assoc_N c_hash single_ops = None /\ assoc_N c_hash double_ops = None.
Proof. vm_compute. repeat split. Qed.

Theorem comment_in_front c rest line file prev tk l :
  consume (c_hash :: c) line file prev = Ok (Some tk, S (length c), l) ->
  consume (c_hash :: c ++ rest) line file prev = Ok (Some tk, S (length c), l) /\ t_kind tk = TComment.
Proof.
  intros H. destruct hash_tables as (T1 & T2 & T3). split.
  - pose proof (consume_local (c_hash :: c) line file prev tk (S (length c)) l H rest) as L.
    change (firstn (S (length c)) (c_hash :: c)) with (c_hash :: firstn (length c) c) in L. rewrite firstn_all in L.
    apply L. unfold nofuse. fold (is_digit c_hash). rewrite T1, T2, T3. change (N.eqb c_hash c_hash) with true. exact I.
  - unfold consume in H. fold (is_digit c_hash) in H. rewrite T1, T2, T3 in H. change (N.eqb c_hash c_hash) with true in H. cbv iota in H.
    match type of H with context [comment_scan ?a ?b] => destruct (comment_scan a b) as [[m l0]|] eqn:E end.
    + inversion H; subst. reflexivity.
    + discriminate H.
Qed.
