(** C19 / C14 / C11: the simulation of Sim.v generalised (relation: Sim2Defs.v).  Program A is program B with its names
    renamed by an injective [rho] that fixes the built-in names, its line/file metadata replaced through [pi], placed at
    offset [off] of a longer statement vector; machine A may hold further variables that B never mentions (names outside
    [N]), may have written [o1] before, and keeps its containers anywhere.  Then A and B behave alike: same output after
    [o1], same final world, same result -- errors of the same kind and payload, located at [pi] of B's location -- for every
    expression, built-in, statement, call depth and fuel.  Instances: P1;P2 against P2 alone (C19), a module's renamed
    copy against the original (C14), two layouts of one program (C11). *)
From Pakhi Require Import Base Float64 Syntax Tables Lexer Interp.
From Pakhi.Proofs Require Import Unfold Output SimDefs Sim Sim2Defs.
From Coq Require Import Lia.
Local Open Scope nat_scope.

(** ** renaming an expression / a statement *)
Section Maps.
Variable rho : text -> text.
Variable pi : pos -> pos.

Fixpoint xmap (e : expr) : expr :=
  match e with
  | ENil p => ENil (pi p)
  | EBool b p => EBool b (pi p)
  | ENum x p => ENum x (pi p)
  | EStr s p => EStr s (pi p)
  | EVar x p => EVar (rho x) (pi p)
  | EList es p => EList (map xmap es) (pi p)
  | ERec ks vs p => ERec (map xmap ks) (map xmap vs) (pi p)
  | EGroup e1 p => EGroup (xmap e1) (pi p)
  | EUn o e1 p => EUn o (xmap e1) (pi p)
  | EBin o l r p => EBin o (xmap l) (xmap r) (pi p)
  | ECall f args p => ECall (xmap f) (map xmap args) (pi p)
  | EIndex a i p => EIndex (xmap a) (xmap i) (pi p)
  end.

Definition smap (s : fstmt) : fstmt :=
  match s with
  | FPrint e p => FPrint (xmap e) (pi p)
  | FPrintNoEol e p => FPrintNoEol (xmap e) (pi p)
  | FAssign ak x xp idx init p => FAssign ak (rho x) (pi xp) (map xmap idx) (option_map xmap init) (pi p)
  | FExpr e p => FExpr (xmap e) (pi p)
  | FBlockStart p => FBlockStart (pi p)
  | FBlockEnd p => FBlockEnd (pi p)
  | FFuncDef p => FFuncDef (pi p)
  | FReturn e p => FReturn (xmap e) (pi p)
  | FIf c p => FIf (xmap c) (pi p)
  | FLoop p => FLoop (pi p)
  | FContinue p => FContinue (pi p)
  | FBreak p => FBreak (pi p)
  | FElse p => FElse (pi p)
  | FEOS p => FEOS (pi p)
  end.

Lemma expr_pos_xmap e : expr_pos (xmap e) = pi (expr_pos e).
Proof. destruct e; reflexivity. Qed.
Lemma stmt_pos_smap s : stmt_pos (smap s) = pi (stmt_pos s).
Proof. destruct s; reflexivity. Qed.
End Maps.

(* the variable names an expression / a statement mentions *)
Fixpoint xnames (e : expr) : list text :=
  match e with
  | ENil _ | EBool _ _ | ENum _ _ | EStr _ _ => []
  | EVar x _ => [x]
  | EList es _ => flat_map xnames es
  | ERec ks vs _ => flat_map xnames ks ++ flat_map xnames vs
  | EGroup e1 _ | EUn _ e1 _ => xnames e1
  | EBin _ l r _ => xnames l ++ xnames r
  | ECall f args _ => xnames f ++ flat_map xnames args
  | EIndex a i _ => xnames a ++ xnames i
  end.
Definition snames (s : fstmt) : list text :=
  match s with
  | FPrint e _ | FPrintNoEol e _ | FExpr e _ | FReturn e _ | FIf e _ => xnames e
  | FAssign _ x _ idx init _ => x :: flat_map xnames idx ++ match init with Some e => xnames e | None => [] end
  | _ => []
  end.

Lemma Forall_flat_map {A B} (P : B -> Prop) (f : A -> list B) l : Forall P (flat_map f l) <-> Forall (fun a => Forall P (f a)) l.
Proof.
  induction l as [|a l IH]; simpl; [split; constructor|].
  rewrite Forall_app, IH. split; [intros [H1 H2]; constructor; auto|intros H; inversion H; auto].
Qed.

(** ** related outcomes, with an error relation *)
Definition orel2 {A B} (E : perr -> perr -> Prop) (R : A -> B -> Prop) (x : outcome A) (y : outcome B) : Prop :=
  match x, y with
  | OutOfFuel, _ | _, OutOfFuel => True
  | Ok a, Ok b => R a b
  | Err e, Err e' => E e e'
  | Panic s, Panic s' => s = s'
  | _, _ => False
  end.

Lemma orel2_bind {A B C D} E p (P : ren -> A -> B -> Prop) (Q : ren -> C -> D -> Prop) x1 x2 f1 f2 :
  orel2 E (Rex p P) x1 x2 ->
  (forall q a1 a2, ren_le p q -> bij q -> P q a1 a2 -> orel2 E (Rex q Q) (f1 a1) (f2 a2)) ->
  orel2 E (Rex p Q) (bind x1 f1) (bind x2 f2).
Proof.
  intros Hx Hf. destruct x1 as [a1|e1|s1|], x2 as [a2|e2|s2|]; simpl in *; auto; try contradiction.
  - destruct Hx as (q & Hle & Hb & HP). specialize (Hf q a1 a2 Hle Hb HP).
    destruct (f1 a1), (f2 a2); simpl in *; auto.
    destruct Hf as (q' & Hle' & Hb' & HQ). exists q'. split; [eapply ren_le_trans; eauto|auto].
  - destruct (f1 a1); simpl; auto.
Qed.
Lemma orel2_bind0 {A B C D} E (R : A -> B -> Prop) (S : C -> D -> Prop) x1 x2 f1 f2 :
  orel2 E R x1 x2 -> (forall a b, R a b -> orel2 E S (f1 a) (f2 b)) -> orel2 E S (bind x1 f1) (bind x2 f2).
Proof.
  intros Hx Hf. destruct x1 as [a1|e1|s1|], x2 as [a2|e2|s2|]; simpl in *; auto; try contradiction.
  destruct (f1 a1); simpl; auto.
Qed.
Lemma orel2_ok {A B} E p (P : ren -> A -> B -> Prop) a b : bij p -> P p a b -> orel2 E (Rex p P) (Ok a) (Ok b).
Proof. intros Hb H. exists p. split; [apply ren_le_refl|auto]. Qed.
(* an [orel] with equality on errors (printing never produces one) gives an [orel2] *)
Lemma orel_orel2_noerr {A B} E (R : A -> B -> Prop) x y :
  orel R x y -> (match x with Err _ => False | _ => True end) -> orel2 E R x y.
Proof. destruct x, y; simpl; auto; try contradiction. Qed.

Section Sim2.
Variable rho : text -> text.
Variable pi : pos -> pos.
Variable off : nat.
Variable N : text -> Prop.
Variable o1 : list chunk.
Variables codeA codeB : list fstmt.

Hypothesis rho_inj : forall x y, rho x = rho y -> x = y.
Hypothesis rho_builtin : forall x, is_builtin (rho x) = is_builtin x.
Hypothesis rho_builtin_fix : forall x, is_builtin x = true -> rho x = x.
(* program A at offset [off] is the renamed program B *)
Hypothesis Hcode : forall pc, stmt_at codeA (pc + off) = option_map (smap rho pi) (stmt_at codeB pc).
Hypothesis Hlen : length codeA = length codeB + off.
Hypothesis Hlast : stmt_pos (last codeA (FEOS (mkPos 0 []))) = pi (stmt_pos (last codeB (FEOS (mkPos 0 [])))).
(* B mentions only names in N *)
Hypothesis Hnames : forall pc s, stmt_at codeB pc = Some s -> Forall N (snames s).

Notation xmap := (xmap rho pi).
Notation smap := (smap rho pi).
Notation vrel2 := (vrel2 rho off).
Notation erel2 := (erel2 rho off).
Notation hrel2 := (hrel2 rho off).
Notation srel := (srel rho off N).
Notation mrel2 := (mrel2 rho off N o1).

(* errors: same kind and payload, A's output is B's after [o1], A's location is [pi] of B's (the "unexpected end" error
   carries no location) *)
Definition errel (eA eB : perr) : Prop :=
  e_kind eA = e_kind eB /\ e_tag eA = e_tag eB /\ e_out eA = e_out eB ++ o1 /\
  (mkPos (e_line eA) (e_file eA) = pi (mkPos (e_line eB) (e_file eB)) \/
   (e_kind eB = EUnexpected /\ e_line eA = e_line eB /\ e_file eA = e_file eB)).

Notation orelE := (orel2 errel).

Definition Pvm2 (q : ren) (r1 r2 : value * machine) : Prop := vrel2 q (fst r1) (fst r2) /\ mrel2 q (snd r1) (snd r2).
Definition Pm2 (q : ren) (m1 m2 : machine) : Prop := mrel2 q m1 m2.
Definition Pvsm2 (q : ren) (r1 r2 : list value * machine) : Prop := Forall2 (vrel2 q) (fst r1) (fst r2) /\ mrel2 q (snd r1) (snd r2).
Definition Prm2 (q : ren) (r1 r2 : list (text * value) * machine) : Prop := Forall2 (erel2 q) (fst r1) (fst r2) /\ mrel2 q (snd r1) (snd r2).
Definition Psm2 (q : ren) (r1 r2 : scope * machine) : Prop := srel q (fst r1) (fst r2) /\ mrel2 q (snd r1) (snd r2).
Definition Pim2 (q : ren) (r1 r2 : list index * machine) : Prop := fst r1 = fst r2 /\ mrel2 q (snd r1) (snd r2).

Lemma pos_eta p : mkPos (p_line p) (p_file p) = p. Proof. destruct p; reflexivity. Qed.

Lemma stmt_at_A pc : stmt_at codeA (pc + off) = option_map smap (stmt_at codeB pc). Proof. apply Hcode. Qed.

(** ** errors *)
Lemma fail_at_rel2 {A B} (R : A -> B -> Prop) p k q mA mB : mrel2 p mA mB -> orelE R (@fail_at A k (pi q) mA) (@fail_at B k q mB).
Proof.
  intros H. unfold fail_at. simpl. split; [reflexivity|]. split; [reflexivity|]. split; [apply H|]. left. cbn. rewrite (pos_eta (pi q)), (pos_eta q). reflexivity.
Qed.
Lemma unexpected_rel2 {A B} (R : A -> B -> Prop) p mA mB : mrel2 p mA mB -> orelE R (@unexpected_at A mA) (@unexpected_at B mB).
Proof. intros H. unfold unexpected_at. simpl. split; [reflexivity|]. split; [reflexivity|]. split; [apply H|]. right. auto. Qed.
Lemma fail_here_rel2 {A B} (R : A -> B -> Prop) p k mA mB : mrel2 p mA mB -> orelE R (@fail_here codeA A k mA) (@fail_here codeB B k mB).
Proof.
  intros H. unfold fail_here. rewrite (m2_pc _ _ _ _ _ _ _ H), stmt_at_A.
  destruct (stmt_at codeB (m_pc mB)) as [s|]; simpl.
  - rewrite stmt_pos_smap. split; [reflexivity|]. split; [reflexivity|]. split; [apply H|]. left. cbn. rewrite !pos_eta. reflexivity.
  - split; [reflexivity|]. split; [reflexivity|]. split; [apply H|]. right. auto.
Qed.
Lemma rt_err_rel2 {A B} (R : A -> B -> Prop) p mA mB : mrel2 p mA mB -> orelE R (@rt_err codeA A mA) (@rt_err codeB B mB).
Proof. apply fail_here_rel2. Qed.

Lemma fail_at_out2 {A B} (R : A -> B -> Prop) k q mA mB : m_out mA = m_out mB ++ o1 -> orelE R (@fail_at A k (pi q) mA) (@fail_at B k q mB).
Proof.
  intros H. unfold fail_at. simpl. split; [reflexivity|]. split; [reflexivity|]. split; [exact H|]. left. cbn. rewrite !pos_eta. reflexivity.
Qed.
Lemma unexpected_out2 {A B} (R : A -> B -> Prop) mA mB : m_out mA = m_out mB ++ o1 -> orelE R (@unexpected_at A mA) (@unexpected_at B mB).
Proof. intros H. unfold unexpected_at. simpl. split; [reflexivity|]. split; [reflexivity|]. split; [exact H|]. right. auto. Qed.

(** ** the forward scans: same shape of code at the offset, so the same target, shifted *)
Definition shifted (a b : nat) : Prop := a = b + off.

Lemma skip_block_rel2 fuel : forall mA mB pc d, m_out mA = m_out mB ++ o1 ->
  orelE shifted (skip_block codeA fuel mA (pc + off) d) (skip_block codeB fuel mB pc d).
Proof.
  induction fuel as [|f IH]; intros mA mB pc d Ho; [exact I|]. cbn [skip_block]. rewrite stmt_at_A.
  destruct (stmt_at codeB pc) as [s|]; cbn [option_map]; [|apply unexpected_out2; exact Ho].
  destruct s; cbn [smap Sim2.smap]; try (apply (IH mA mB (S pc) d Ho)).
  - apply (IH mA mB (S pc) (S d) Ho).
  - destruct d as [|[|d]]; [apply fail_at_out2; exact Ho|reflexivity|apply (IH mA mB (S pc) (S d) Ho)].
Qed.

Lemma skip_block_from_rel2 p mA mB pc : mrel2 p mA mB ->
  orelE shifted (skip_block_from codeA mA (pc + off)) (skip_block_from codeB mB pc).
Proof.
  intros H. unfold skip_block_from. replace (length codeA - (pc + off)) with (length codeB - pc) by lia.
  apply skip_block_rel2. apply H.
Qed.

(* different fuel on the two sides (the vectors have different lengths): related unless one runs out *)
Lemma skip_chain_rel2 p mA mB : bij p -> mrel2 p mA mB -> forall k1 k2 pc,
  orelE (Rex p Pm2) (skip_chain codeA mA k1 (pc + off)) (skip_chain codeB mB k2 pc).
Proof.
  intros Hb H. induction k1 as [|k1 IH]; intros k2 pc; [exact I|]. destruct k2 as [|k2]; [destruct (skip_chain codeA mA (S k1) (pc + off)); exact I|].
  cbn [skip_chain]. rewrite stmt_at_A.
  set (pcB := match stmt_at codeB pc with Some (FIf _ _) => S pc | _ => pc end).
  assert (E : match option_map smap (stmt_at codeB pc) with Some (FIf _ _) => S (pc + off) | _ => pc + off end = pcB + off).
  { unfold pcB. destruct (stmt_at codeB pc) as [[]|]; reflexivity. }
  rewrite E. clearbody pcB.
  eapply orel2_bind0; [apply (skip_block_from_rel2 p); exact H|]. intros a b ->.
  rewrite stmt_at_A. destruct (stmt_at codeB b) as [s|]; cbn [option_map].
  - destruct s; cbn [smap Sim2.smap]; try (apply orel2_ok; [exact Hb|apply mrel2_set_pc; exact H]).
    apply (IH k2 (S b)).
  - apply orel2_ok; [exact Hb|apply mrel2_set_pc; exact H].
Qed.

(** ** printing *)
Lemma printable_rel2 p h1 h2 : hrel2 p h1 h2 -> forall f1 f2 v1 v2, vrel2 p v1 v2 ->
  orel eq (printable f1 h1 v1) (printable f2 h2 v2).
Proof.
  intros H. induction f1 as [|f1 IH]; intros [|f2] v1 v2 Hv; try exact I.
  { destruct (printable (S f1) h1 v1); exact I. }
  destruct v1, v2; simpl in Hv; try contradiction; subst; cbn [printable]; try reflexivity.
  - destruct (get_list_rel2 _ _ _ _ _ _ _ H Hv) as (l1 & l2 & E1 & E2 & F). rewrite E1, E2. cbn [bind]. clear E1 E2.
    assert (G : forall acc1 acc2 : outcome bool, orel eq acc1 acc2 ->
              orel eq (fold_left (fun (acc : outcome bool) (e : value) => do b <- acc; if b then printable f1 h1 e else Ok false) l1 acc1)
                      (fold_left (fun (acc : outcome bool) (e : value) => do b <- acc; if b then printable f2 h2 e else Ok false) l2 acc2)).
    { induction F as [|e1 e2 l1 l2 He F IHF]; intros acc1 acc2 Ha; simpl; auto.
      apply IHF. eapply orel_bind0; [exact Ha|]. intros b1 b2 <-. destruct b1; [apply IH; exact He|reflexivity]. }
    apply G. reflexivity.
  - destruct (get_rec_rel2 _ _ _ _ _ _ _ H Hv) as (l1 & l2 & E1 & E2 & F). rewrite E1, E2. cbn [bind]. clear E1 E2.
    assert (G : forall acc1 acc2 : outcome bool, orel eq acc1 acc2 ->
              orel eq (fold_left (fun (acc : outcome bool) (e : text * value) => do b <- acc; if b then printable f1 h1 (snd e) else Ok false) l1 acc1)
                      (fold_left (fun (acc : outcome bool) (e : text * value) => do b <- acc; if b then printable f2 h2 (snd e) else Ok false) l2 acc2)).
    { induction F as [|e1 e2 l1 l2 He F IHF]; intros acc1 acc2 Ha; simpl; auto.
      apply IHF. eapply orel_bind0; [exact Ha|]. intros b1 b2 <-. destruct b1; [apply IH; apply He|reflexivity]. }
    apply G. reflexivity.
Qed.

Lemma render_rel2 p h1 h2 : hrel2 p h1 h2 -> forall f1 f2 v1 v2, vrel2 p v1 v2 ->
  orel eq (render_nested f1 h1 v1) (render_nested f2 h2 v2).
Proof.
  intros H. induction f1 as [|f1 IH]; intros [|f2] v1 v2 Hv; try exact I.
  { destruct (render_nested (S f1) h1 v1); exact I. }
  destruct v1, v2; simpl in Hv; try contradiction; subst; cbn [render_nested]; try reflexivity.
  - destruct (to_bn_num x0); reflexivity.
  - destruct (get_list_rel2 _ _ _ _ _ _ _ H Hv) as (l1 & l2 & E1 & E2 & F). rewrite E1, E2. cbn [bind].
    match goal with |- orel _ (bind (?g1 l1) _) (bind (?g2 l2) _) =>
      assert (G : forall es1 es2, Forall2 (vrel2 p) es1 es2 -> orel eq (g1 es1) (g2 es2)) end.
    { induction 1 as [|e1 e2 r1 r2 He Fr IHr]; [reflexivity|].
      destruct Fr as [|e1' e2' r1' r2' He' Fr'].
      - apply IH. exact He.
      - eapply orel_bind0; [apply IH; exact He|]. intros c1 c2 <-.
        eapply orel_bind0; [exact IHr|]. intros cs1 cs2 <-. reflexivity. }
    eapply orel_bind0; [apply G; exact F|]. intros b1 b2 <-. reflexivity.
  - destruct (get_rec_rel2 _ _ _ _ _ _ _ H Hv) as (l1 & l2 & E1 & E2 & F). rewrite E1, E2. cbn [bind].
    match goal with |- orel _ (bind (?g1 l1) _) (bind (?g2 l2) _) =>
      assert (G : forall es1 es2, Forall2 (erel2 p) es1 es2 -> orel eq (g1 es1) (g2 es2)) end.
    { induction 1 as [|[k1 e1] [k2 e2] r1 r2 [Hk He] Fr IHr]; [reflexivity|]. simpl in Hk, He. subst k2.
      eapply orel_bind0; [apply IH; exact He|]. intros c1 c2 <-.
      eapply orel_bind0; [exact IHr|]. intros cs1 cs2 <-. reflexivity. }
    eapply orel_bind0; [apply G; exact F|]. intros b1 b2 <-. reflexivity.
Qed.

Lemma lift_noerr {A} (R : A -> A -> Prop) x y : orel R x y -> (match x with Err _ => False | _ => True end) -> orelE R x y.
Proof. destruct x, y; simpl; auto; try contradiction. Qed.

Lemma do_print_rel2 p eol v1 v2 mA mB : bij p -> vrel2 p v1 v2 -> mrel2 p mA mB ->
  orelE (Rex p Pm2) (do_print codeA eol v1 mA) (do_print codeB eol v2 mB).
Proof.
  intros Hb Hv Hm. unfold do_print. cbv zeta.
  assert (Hc : forall c, orelE (Rex p Pm2) (Ok (next (emit mA c))) (Ok (next (emit mB c)))).
  { intros c. apply orel2_ok; [exact Hb|]. apply mrel2_next, mrel2_emit, Hm. }
  assert (Hcontainer : orelE (Rex p Pm2)
            (do ok <- printable (depth_fuel mA) (m_heap mA) v1;
             if ok then do cs <- render_nested (depth_fuel mA) (m_heap mA) v1; Ok (next (emit_all mA (if eol then println_last cs else cs)))
             else fail_here codeA ERuntime mA)
            (do ok <- printable (depth_fuel mB) (m_heap mB) v2;
             if ok then do cs <- render_nested (depth_fuel mB) (m_heap mB) v2; Ok (next (emit_all mB (if eol then println_last cs else cs)))
             else fail_here codeB ERuntime mB)).
  { eapply orel2_bind0.
    { apply lift_noerr; [apply (printable_rel2 p); [apply Hm|exact Hv]|].
      pose proof (Output.printable_not_err (depth_fuel mA) (m_heap mA) v1) as Hn. destruct (printable _ _ _); auto. }
    intros b1 b2 <-.
    destruct b1; [|eapply fail_here_rel2; exact Hm].
    eapply orel2_bind0.
    { apply lift_noerr; [apply (render_rel2 p); [apply Hm|exact Hv]|].
      pose proof (Output.render_not_err (depth_fuel mA) (m_heap mA) v1) as Hn. destruct (render_nested _ _ _); auto. }
    intros c1 c2 <-.
    apply orel2_ok; [exact Hb|]. apply mrel2_next, mrel2_emit_all, Hm. }
  destruct v1, v2; simpl in Hv; try contradiction; subst; try (eapply fail_here_rel2; exact Hm); try apply Hc; try exact Hcontainer.
  destruct (to_bn_num x0); [apply Hc|eapply fail_here_rel2; exact Hm].
Qed.

(** ** indexed assignment *)
Lemma assign_path_rel2 p path : forall mA mB c1 c2 v1 v2 ps, bij p -> mrel2 p mA mB -> vrel2 p c1 c2 -> vrel2 p v1 v2 ->
  orelE (Rex p Pm2) (assign_path mA c1 path v1 (pi ps)) (assign_path mB c2 path v2 ps).
Proof.
  induction path as [|ix rest IH]; intros mA mB c1 c2 v1 v2 ps Hb Hm Hc Hv; cbn [assign_path]; [reflexivity|].
  destruct c1, c2; simpl in Hc; try contradiction; subst; destruct ix; try (eapply fail_at_rel2; exact Hm).
  - destruct (get_list_rel2 _ _ _ _ _ _ _ (m2_h _ _ _ _ _ _ _ Hm) Hc) as (l1 & l2 & E1 & E2 & F). rewrite E1, E2. cbn [bind].
    rewrite (valid_index_len _ x l1 l2 F). destruct (valid_index x (length l2)) as [i|]; [|eapply fail_at_rel2; exact Hm].
    destruct rest.
    + apply orel2_ok; [exact Hb|]. eapply mrel2_set_heap; [apply ren_le_refl|exact Hm|].
      eapply hrel_put_list2; eauto; [apply Hm|]. apply Forall2_list_set; auto.
    + apply IH; auto. apply Forall2_nth; simpl; auto.
  - destruct (get_rec_rel2 _ _ _ _ _ _ _ (m2_h _ _ _ _ _ _ _ Hm) Hc) as (l1 & l2 & E1 & E2 & F). rewrite E1, E2. cbn [bind].
    destruct rest.
    + apply orel2_ok; [exact Hb|]. eapply mrel2_set_heap; [apply ren_le_refl|exact Hm|].
      eapply hrel_put_rec2; eauto; [apply Hm|]. eapply alist_set_rel2; eauto.
    + pose proof (alist_get_rel2 rho off p k l1 l2 F) as G. destruct (alist_get k l1), (alist_get k l2); try contradiction.
      * apply IH; auto.
      * eapply fail_at_rel2; exact Hm.
Qed.

(** ** built-ins *)
Lemma strings_rel2 p l1 l2 : Forall2 (vrel2 p) l1 l2 ->
  forallb (fun v : value => match v with VStr _ => true | _ => false end) l1 = forallb (fun v : value => match v with VStr _ => true | _ => false end) l2 /\
  map (fun v : value => match v with VStr s => s | _ => [] end) l1 = map (fun v : value => match v with VStr s => s | _ => [] end) l2.
Proof.
  induction 1 as [|v1 v2 l1 l2 Hv F [IH1 IH2]]; simpl; auto.
  rewrite IH1, IH2. destruct v1, v2; simpl in Hv; try contradiction; subst; auto.
Qed.

Ltac args_step2 :=
  match goal with
  | |- orel2 _ _ (match ?x with _ => _ end) _ =>
      is_var x;
      lazymatch type of x with
      | list value => match goal with F : Forall2 _ x _ |- _ => inversion F; subst; clear F end
      | value => match goal with Hv : Sim2Defs.vrel2 _ _ _ x ?y |- _ => destruct x, y; simpl in Hv; try contradiction; subst end
      end; cbv beta iota
  end.

Lemma builtin_rel2 p op args1 args2 mA mB : bij p -> mrel2 p mA mB -> Forall2 (vrel2 p) args1 args2 ->
  orelE (Rex p Pvm2) (builtin_op codeA op args1 mA) (builtin_op codeB op args2 mB).
Proof.
  intros Hb Hm Fa. unfold builtin_op. cbv zeta.
  assert (Hrt : orelE (Rex p Pvm2) (@rt_err codeA (value * machine) mA) (@rt_err codeB (value * machine) mB)) by (eapply rt_err_rel2; exact Hm).
  assert (Hsame : forall v, vrel2 p v v -> orelE (Rex p Pvm2) (Ok (v, mA)) (Ok (v, mB))).
  { intros v Hv. apply orel2_ok; [exact Hb|]. split; simpl; auto. }
  rewrite (m2_w _ _ _ _ _ _ _ Hm).
  repeat match goal with |- orel2 _ _ (if Nat.eqb ?a ?b then _ else _) _ => destruct (Nat.eqb a b) end.
  all: try (unfold here; rewrite (m2_pc _ _ _ _ _ _ _ Hm), stmt_at_A; destruct (stmt_at codeB (m_pc mB)) as [st|]; cbn [bind option_map]).
  all: repeat args_step2; try exact Hrt.
  all: try (apply Hsame; simpl; auto; fail).
  all: repeat match goal with
       | R : rl _ ?a ?b |- orel2 _ _ (bind (get_list _ ?a) _) _ =>
           let l1 := fresh "l" in let l2 := fresh "l" in let E1 := fresh "E" in let E2 := fresh "E" in let F := fresh "F" in
           destruct (get_list_rel2 _ _ _ _ _ _ _ (m2_h _ _ _ _ _ _ _ Hm) R) as (l1 & l2 & E1 & E2 & F); rewrite E1, E2; cbn [bind]; clear E1 E2;
           try rewrite (Forall2_length' _ _ _ F)
       | |- orel2 _ _ (match ?d with _ => _ end) (match ?d with _ => _ end) => destruct d
       | |- orel2 _ _ (if ?c then _ else _) (if ?c then _ else _) => destruct c
       end; try exact Hrt.
  all: try (apply Hsame; simpl; auto; fail).
  all: try (apply orel2_ok; [exact Hb|]; split; [simpl; auto|]; cbn [snd]; first
         [ apply mrel2_set_world; exact Hm
         | eapply mrel2_set_heap; [apply ren_le_refl|exact Hm|]; eapply hrel_put_list2; eauto; [apply Hm|];
           first [ apply Forall2_app; [assumption|constructor; [simpl; auto|constructor]]
                 | apply Forall2_insert_at; assumption
                 | apply Forall2_removelast; assumption
                 | apply Forall2_remove_at; assumption ] ]; fail).
  all: try match goal with
       | |- orel2 _ _ (let '(_, _) := alloc_list ?h1 ?l in _) (let '(_, _) := alloc_list ?h2 ?l in _) =>
           let a1 := fresh "a" in let g1 := fresh "g" in let a2 := fresh "a" in let g2 := fresh "g" in
           let E1 := fresh "E" in let E2 := fresh "E" in
           destruct (alloc_list h1 l) as [a1 g1] eqn:E1; destruct (alloc_list h2 l) as [a2 g2] eqn:E2;
           destruct (hrel_alloc_list2 rho off p _ _ _ _ _ _ _ _ Hb (m2_h _ _ _ _ _ _ _ Hm) (map_VStr_rel2 rho off rho_inj p _) E1 E2) as (Hle & Hbq & Hr & Hh);
           exists (ext_l p a1 a2); split; [exact Hle|]; split; [exact Hbq|]; split; [exact Hr|];
           eapply mrel2_set_heap; [exact Hle|exact Hm|exact Hh]
       end.
  all: try (simpl; rewrite ?stmt_pos_smap; split; [reflexivity|]; split; [reflexivity|]; split; [apply Hm|]; first [left; cbn; rewrite !pos_eta; reflexivity|right; auto]; fail).
  - destruct (strings_rel2 p _ _ F) as [-> ->]. destruct (forallb _ l0); [apply Hsame; simpl; auto|exact Hrt].
  - erewrite type_name_rel2 by eassumption. apply Hsame. simpl. auto.
  - reflexivity.
Qed.

Lemma call_builtin_rel2 p name fp args1 args2 mA mB : bij p -> mrel2 p mA mB -> Forall2 (vrel2 p) args1 args2 ->
  orelE (Rex p Pvm2) (call_builtin codeA name (pi fp) args1 mA) (call_builtin codeB name fp args2 mB).
Proof.
  intros Hb Hm Fa. unfold call_builtin. destruct (assoc_text name builtin_ops); [apply builtin_rel2; auto|eapply fail_at_rel2; exact Hm].
Qed.

(** ** the evaluator *)
Definition Sev2 (evA evB : expr -> machine -> outcome (value * machine)) : Prop :=
  forall p e mA mB, bij p -> Forall N (xnames e) -> mrel2 p mA mB -> orelE (Rex p Pvm2) (evA (xmap e) mA) (evB e mB).
Definition Scl2 (clA clB : machine -> outcome machine) : Prop :=
  forall p mA mB, bij p -> mrel2 p mA mB -> orelE (Rex p Pm2) (clA mA) (clB mB).

Definition names_ok (e : expr) : Prop := Forall N (xnames e).

Lemma tl_map {A B} (f : A -> B) l : tl (map f l) = map f (tl l).
Proof. destruct l; reflexivity. Qed.

Section Loops2.
Variables evA evB : expr -> machine -> outcome (value * machine).
Hypothesis Hev : Sev2 evA evB.

Lemma eval_list_rel2 es : forall p mA mB, bij p -> Forall names_ok es -> mrel2 p mA mB ->
  orelE (Rex p Pvsm2) (eval_list evA (map xmap es) mA) (eval_list evB es mB).
Proof.
  induction es as [|e r IH]; intros p mA mB Hb Hn Hm; cbn [eval_list map].
  - apply orel2_ok; [exact Hb|]. split; simpl; auto.
  - inversion Hn as [|e' r' He Hr]; subst.
    eapply orel2_bind; [apply Hev; eauto|]. intros q [v1 n1] [v2 n2] Hle Hbq [Hv Hnn]. simpl in Hv, Hnn.
    eapply orel2_bind; [apply IH; eauto|]. intros q2 [vs1 k1] [vs2 k2] Hle2 Hbq2 [Hvs Hk]. simpl in Hvs, Hk.
    apply orel2_ok; [exact Hbq2|]. split; simpl; auto. constructor; auto. eapply vrel_mono2; eauto.
Qed.

Lemma eval_rec_rel2 ks : forall vs p acc1 acc2 mA mB, bij p -> Forall names_ok ks -> Forall names_ok vs -> mrel2 p mA mB -> Forall2 (erel2 p) acc1 acc2 ->
  orelE (Rex p Prm2) (eval_rec evA (map xmap ks) (map xmap vs) acc1 mA) (eval_rec evB ks vs acc2 mB).
Proof.
  induction ks as [|k ks IH]; intros vs p acc1 acc2 mA mB Hb Hnk Hnv Hm Ha; cbn [eval_rec map].
  - apply orel2_ok; [exact Hb|]. split; simpl; auto.
  - inversion Hnk as [|k' ks' Hk Hks]; subst.
    eapply orel2_bind; [apply Hev; eauto|]. intros q [kv1 n1] [kv2 n2] Hle Hbq [Hv Hn]. simpl in Hv, Hn.
    assert (Ha' : Forall2 (erel2 q) acc1 acc2) by (eapply erels_mono2; eauto).
    assert (Htl : Forall names_ok (tl vs)) by (destruct vs; simpl; auto; inversion Hnv; auto).
    destruct kv1, kv2; simpl in Hv; try contradiction; subst; try (rewrite tl_map; apply IH; auto; fail).
    destruct vs as [|v vs]; cbn [map]; [exact eq_refl|].
    inversion Hnv as [|v' vs' Hvn Hvsn]; subst.
    eapply orel2_bind; [apply Hev; eauto|]. intros q2 [vv1 k1] [vv2 k2] Hle2 Hbq2 [Hvv Hkk]. simpl in Hvv, Hkk.
    apply IH; auto. eapply alist_set_rel2; eauto. eapply erels_mono2; eauto.
Qed.

Lemma bind_args_rel2 ps : forall args p env1 env2 mA mB, bij p -> Forall names_ok args -> mrel2 p mA mB -> srel p env1 env2 ->
  orelE (Rex p Psm2) (bind_args evA (map rho ps) (map xmap args) env1 mA) (bind_args evB ps args env2 mB).
Proof.
  induction ps as [|x ps IH]; intros args p env1 env2 mA mB Hb Hn Hm He; cbn [bind_args map].
  - apply orel2_ok; [exact Hb|]. split; simpl; auto.
  - destruct args as [|a args]; cbn [map].
    + apply (IH [] p); auto. eapply srel_set; eauto. simpl. auto.
    + inversion Hn as [|a' args' Ha Hargs]; subst.
      eapply orel2_bind; [apply Hev; eauto|]. intros q [v1 n1] [v2 n2] Hle Hbq [Hv Hnn]. simpl in Hv, Hnn.
      apply IH; auto. eapply srel_set; eauto. eapply srel_mono; eauto.
Qed.

Lemma eval_indexes_rel2 is : forall p mA mB, bij p -> Forall names_ok is -> mrel2 p mA mB ->
  orelE (Rex p Pim2) (eval_indexes evA (map xmap is) mA) (eval_indexes evB is mB).
Proof.
  induction is as [|i1 r IH]; intros p mA mB Hb Hn Hm; cbn [eval_indexes map].
  - apply orel2_ok; [exact Hb|]. split; simpl; auto.
  - inversion Hn as [|i' r' Hi Hr]; subst.
    eapply orel2_bind; [apply Hev; eauto|]. intros q [v1 n1] [v2 n2] Hle Hbq [Hv Hnn]. simpl in Hv, Hnn.
    rewrite expr_pos_xmap.
    destruct v1, v2; simpl in Hv; try contradiction; subst; try (eapply fail_at_rel2; exact Hnn).
    destruct (get_list_rel2 _ _ _ _ _ _ _ (m2_h _ _ _ _ _ _ _ Hnn) Hv) as (l1 & l2 & E1 & E2 & F). rewrite E1, E2. cbn [bind].
    destruct F as [|x1 x2 l1 l2 Hx F]; [eapply fail_at_rel2; exact Hnn|].
    destruct x1, x2; simpl in Hx; try contradiction; subst; try (eapply fail_at_rel2; exact Hnn).
    + eapply orel2_bind; [apply IH; eauto|]. intros q2 [p1 k1] [p2 k2] Hle2 Hbq2 [Hp Hk]. simpl in Hp, Hk. subst.
      apply orel2_ok; [exact Hbq2|]. split; simpl; auto.
    + eapply orel2_bind; [apply IH; eauto|]. intros q2 [p1 k1] [p2 k2] Hle2 Hbq2 [Hp Hk]. simpl in Hp, Hk. subst.
      apply orel2_ok; [exact Hbq2|]. split; simpl; auto.
Qed.
End Loops2.

Lemma bind_rt_err2 {A B} code m (f : A -> outcome B) : bind (@rt_err code A m) f = @rt_err code B m.
Proof. unfold rt_err, fail_here, unexpected_at. destruct (stmt_at code (m_pc m)); reflexivity. Qed.

Lemma names_list es : Forall N (flat_map xnames es) -> Forall names_ok es.
Proof. intros H. apply Forall_flat_map in H. exact H. Qed.

Lemma Forall2_lrel_truncate n l1 l2 : Forall2 (lrel off) l1 l2 -> Forall2 (lrel off) (truncate n l1) (truncate n l2).
Proof. apply Forall2_truncate. Qed.

Lemma eval_step_rel2 evA evB clA clB : Sev2 evA evB -> Scl2 clA clB -> Sev2 (eval_step codeA evA clA) (eval_step codeB evB clB).
Proof.
  intros Hev Hcl p e mA mB Hb Hn Hm.
  assert (Hok : forall v1 v2, vrel2 p v1 v2 -> orelE (Rex p Pvm2) (Ok (v1, mA)) (Ok (v2, mB))).
  { intros v1 v2 Hv. apply orel2_ok; [exact Hb|]. split; simpl; auto. }
  destruct e; cbn [eval_step Sim2.xmap]; simpl in Hn.
  - apply Hok. simpl. auto.
  - apply Hok. simpl. auto.
  - apply Hok. simpl. auto.
  - apply Hok. simpl. auto.
  - (* variable *)
    inversion Hn as [|x' l' Hx _]; subst.
    pose proof (lookup_rel2 rho off N p x _ _ Hx (m2_sc _ _ _ _ _ _ _ Hm)) as L.
    destruct (lookup_var (rho x) (m_scopes mA)), (lookup_var x (m_scopes mB)); simpl in L; try contradiction; [apply Hok; exact L|eapply rt_err_rel2; exact Hm].
  - (* list literal *)
    eapply orel2_bind; [apply eval_list_rel2; eauto; apply names_list; exact Hn|]. intros q [vs1 n1] [vs2 n2] Hle Hbq [Hvs Hnn]. simpl in Hvs, Hnn.
    destruct (alloc_list (m_heap n1) vs1) as [a1 g1] eqn:E1. destruct (alloc_list (m_heap n2) vs2) as [a2 g2] eqn:E2.
    destruct (hrel_alloc_list2 rho off q _ _ _ _ _ _ _ _ Hbq (m2_h _ _ _ _ _ _ _ Hnn) Hvs E1 E2) as (Hle2 & Hbq2 & Hr & Hh).
    exists (ext_l q a1 a2). split; [exact Hle2|]. split; [exact Hbq2|]. split; [exact Hr|]. eapply mrel2_set_heap; eauto.
  - (* record literal *)
    apply Forall_app in Hn as [Hnk Hnv].
    eapply orel2_bind; [apply eval_rec_rel2; eauto; try (apply names_list; assumption); constructor|]. intros q [vs1 n1] [vs2 n2] Hle Hbq [Hvs Hnn]. simpl in Hvs, Hnn.
    destruct (alloc_rec (m_heap n1) vs1) as [a1 g1] eqn:E1. destruct (alloc_rec (m_heap n2) vs2) as [a2 g2] eqn:E2.
    destruct (hrel_alloc_rec2 rho off q _ _ _ _ _ _ _ _ Hbq (m2_h _ _ _ _ _ _ _ Hnn) Hvs E1 E2) as (Hle2 & Hbq2 & Hr & Hh).
    exists (ext_r q a1 a2). split; [exact Hle2|]. split; [exact Hbq2|]. split; [exact Hr|]. eapply mrel2_set_heap; eauto.
  - (* group *) apply Hev; auto.
  - (* unary *)
    rewrite expr_pos_xmap.
    eapply orel2_bind; [apply Hev; eauto|]. intros q [v1 n1] [v2 n2] Hle Hbq [Hv Hnn]. simpl in Hv, Hnn.
    destruct v1, v2; simpl in Hv; try contradiction; subst; destruct o; try (eapply fail_at_rel2; exact Hnn);
      (apply orel2_ok; [exact Hbq|]; split; simpl; auto).
  - (* binary *)
    apply Forall_app in Hn as [Hnl Hnr]. rewrite expr_pos_xmap.
    destruct o;
    (eapply orel2_bind; [apply Hev; eauto|]; intros q [v1 n1] [v2 n2] Hle Hbq [Hv Hnn]; simpl in Hv, Hnn;
     eapply orel2_bind; [apply Hev; eauto|]; intros q2 [w1 k1] [w2 k2] Hle2 Hbq2 [Hw Hk]; simpl in Hw, Hk;
     pose proof (vrel_mono2 rho off _ _ _ _ Hle2 Hv) as Hv').
    3: { apply orel2_ok; [exact Hbq2|]. split; simpl; auto. eapply value_eqb_rel2; eauto. }
    3: { apply orel2_ok; [exact Hbq2|]. split; simpl; auto. f_equal. eapply value_eqb_rel2; eauto. }
    all: try (destruct v1, v2; simpl in Hv'; try contradiction; subst; destruct w1, w2; simpl in Hw; try contradiction; subst; try (eapply fail_at_rel2; exact Hk);
              try (apply orel2_ok; [exact Hbq2|]; split; simpl; auto; fail)).
    + destruct (get_list_rel2 _ _ _ _ _ _ _ (m2_h _ _ _ _ _ _ _ Hk) Hv') as (la1 & la2 & Ea1 & Ea2 & Fa). rewrite Ea1, Ea2. cbn [bind].
      destruct (get_list_rel2 _ _ _ _ _ _ _ (m2_h _ _ _ _ _ _ _ Hk) Hw) as (lb1 & lb2 & Eb1 & Eb2 & Fb). rewrite Eb1, Eb2. cbn [bind].
      destruct (alloc_list (m_heap k1) (la1 ++ lb1)) as [c1 g1] eqn:E1. destruct (alloc_list (m_heap k2) (la2 ++ lb2)) as [c2 g2] eqn:E2.
      destruct (hrel_alloc_list2 rho off q2 _ _ _ _ _ _ _ _ Hbq2 (m2_h _ _ _ _ _ _ _ Hk) (Forall2_app Fa Fb) E1 E2) as (Hle3 & Hbq3 & Hr & Hh).
      exists (ext_l q2 c1 c2). split; [exact Hle3|]. split; [exact Hbq3|]. split; [exact Hr|]. eapply mrel2_set_heap; eauto.
    + destruct (get_list_rel2 _ _ _ _ _ _ _ (m2_h _ _ _ _ _ _ _ Hk) Hv') as (la1 & la2 & Ea1 & Ea2 & Fa). rewrite Ea1, Ea2. cbn [bind].
      destruct (get_list_rel2 _ _ _ _ _ _ _ (m2_h _ _ _ _ _ _ _ Hk) Hw) as (lb1 & lb2 & Eb1 & Eb2 & Fb). rewrite Eb1, Eb2. cbn [bind].
      eapply fail_at_rel2; exact Hk.
  - (* call *)
    cbv zeta. apply Forall_app in Hn as [Hnf Hna]. apply names_list in Hna.
    destruct e; cbn [Sim2.xmap]; try (eapply rt_err_rel2; exact Hm).
    simpl in Hnf. inversion Hnf as [|x' l' Hx _]; subst.
    rewrite rho_builtin. destruct (is_builtin x) eqn:Hbi.
    + rewrite (rho_builtin_fix x Hbi).
      eapply orel2_bind; [apply eval_list_rel2; eauto|]. intros q [vs1 n1] [vs2 n2] Hle Hbq [Hvs Hnn]. simpl in Hvs, Hnn.
      apply call_builtin_rel2; auto.
    + pose proof (lookup_rel2 rho off N p x _ _ Hx (m2_sc _ _ _ _ _ _ _ Hm)) as L.
      destruct (lookup_var (rho x) (m_scopes mA)) as [f1|], (lookup_var x (m_scopes mB)) as [f2|]; simpl in L; try contradiction;
        cbn [bind]; [|rewrite !bind_rt_err2; eapply rt_err_rel2; exact Hm].
      destruct f1, f2; simpl in L; try contradiction; subst; try (eapply fail_at_rel2; exact Hm).
      destruct L as [-> ->].
      eapply orel2_bind; [apply bind_args_rel2; eauto; apply srel_nil|]. intros q [env1 n1] [env2 n2] Hle Hbq [Henv Hnn]. simpl in Henv, Hnn.
      assert (Hlen1 : length (m_scopes mA) = length (m_scopes mB)) by exact (Forall2_length' _ _ _ (m2_sc _ _ _ _ _ _ _ Hm)).
      assert (Hlen2 : length (m_loops mA) = length (m_loops mB)) by exact (Forall2_length' _ _ _ (m2_lp _ _ _ _ _ _ _ Hm)).
      rewrite Hlen1, Hlen2, (m2_lb _ _ _ _ _ _ _ Hm).
      set (c1 := mkM (start0 + off) (env1 :: m_scopes n1) (m_loops n1) (length (m_loops mB)) (m_pc n1 :: m_ret n1) (m_heap n1) (m_out n1) (m_world n1) (m_collections n1)).
      set (c2 := mkM start0 (env2 :: m_scopes n2) (m_loops n2) (length (m_loops mB)) (m_pc n2 :: m_ret n2) (m_heap n2) (m_out n2) (m_world n2) (m_collections n2)).
      assert (Hc : mrel2 q c1 c2).
      { destruct Hnn as [A B C D E F G I]. constructor; simpl; auto. rewrite A, E. reflexivity. }
      rewrite stmt_at_A.
      destruct (stmt_at codeB start0) as [s0|]; cbn [option_map]; [|exact eq_refl].
      destruct s0; cbn [Sim2.smap]; try (eapply unexpected_rel2; exact Hc).
      eapply orel2_bind; [apply Hcl; eauto|]. intros q2 k1 k2 Hle2 Hbq2 Hk. unfold Pm2 in Hk.
      rewrite (m2_pc _ _ _ _ _ _ _ Hk), stmt_at_A.
      destruct (stmt_at codeB (m_pc k2)) as [s3|] eqn:Hs3; cbn [option_map]; [|eapply rt_err_rel2; exact Hk].
      destruct s3; cbn [Sim2.smap]; try (eapply rt_err_rel2; exact Hk).
      rewrite (m2_ret _ _ _ _ _ _ _ Hk). destruct (m_ret k2) as [|ra rets]; cbn [map]; [exact eq_refl|].
      assert (Hne : names_ok e) by (apply (Hnames _ _ Hs3)).
      pose proof (Hev q2 e k1 k2 Hbq2 Hne Hk) as Hr.
      destruct (evA (xmap e) k1) as [[rv1 j1]| | |], (evB e k2) as [[rv2 j2]| | |]; simpl in Hr; try contradiction; try exact I; try exact Hr;
        try (destruct (_ <? _); exact I).
      destruct Hr as (q3 & Hle3 & Hbq3 & Hrv & Hj). simpl in Hrv, Hj.
      assert (Hlen3 : length (m_scopes j1) = length (m_scopes j2)) by exact (Forall2_length' _ _ _ (m2_sc _ _ _ _ _ _ _ Hj)).
      rewrite Hlen3.
      destruct (length (m_scopes j2) <? length (m_scopes mB)); [exact eq_refl|].
      exists q3. split; [exact Hle3|]. split; [exact Hbq3|]. split; [exact Hrv|]. cbn [snd].
      destruct Hj as [A B C D E F G I]. constructor; simpl; auto; try (apply Forall2_truncate; assumption); try apply Hm.
  - (* index *)
    apply Forall_app in Hn as [Hna Hni]. rewrite expr_pos_xmap.
    eapply orel2_bind; [apply Hev; eauto|]. intros q [v1 n1] [v2 n2] Hle Hbq [Hv Hnn]. simpl in Hv, Hnn.
    eapply orel2_bind; [apply Hev; eauto|]. intros q2 [w1 k1] [w2 k2] Hle2 Hbq2 [Hw Hk]. simpl in Hw, Hk.
    pose proof (vrel_mono2 rho off _ _ _ _ Hle2 Hv) as Hv'.
    destruct v1, v2; simpl in Hv'; try contradiction; subst; destruct w1, w2; simpl in Hw; try contradiction; subst; try (eapply fail_at_rel2; exact Hk).
    + destruct (get_list_rel2 _ _ _ _ _ _ _ (m2_h _ _ _ _ _ _ _ Hk) Hv') as (l1 & l2 & E1 & E2 & F). rewrite E1, E2. cbn [bind].
      rewrite (valid_index_len _ x0 l1 l2 F). destruct (valid_index x0 (length l2)); [|eapply fail_at_rel2; exact Hk].
      apply orel2_ok; [exact Hbq2|]. split; simpl; auto. apply Forall2_nth; simpl; auto.
    + destruct (get_rec_rel2 _ _ _ _ _ _ _ (m2_h _ _ _ _ _ _ _ Hk) Hv') as (l1 & l2 & E1 & E2 & F). rewrite E1, E2. cbn [bind].
      pose proof (alist_get_rel2 rho off q2 s0 l1 l2 F) as G. destruct (alist_get s0 l1), (alist_get s0 l2); try contradiction; [|eapply fail_at_rel2; exact Hk].
      apply orel2_ok; [exact Hbq2|]. split; simpl; auto.
Qed.

(** ** statements *)
Lemma fun_params_map (args : list expr) :
  (fix names (as_ : list expr) : option (list text) :=
     match as_ with
     | [] => Some []
     | EVar x _ :: r => match names r with Some l => Some (x :: l) | None => None end
     | _ => None
     end) (map xmap args) =
  option_map (map rho)
  ((fix names (as_ : list expr) : option (list text) :=
     match as_ with
     | [] => Some []
     | EVar x _ :: r => match names r with Some l => Some (x :: l) | None => None end
     | _ => None
     end) args).
Proof.
  induction args as [|a args IH]; [reflexivity|]. cbn [map]. destruct a; cbn [Sim2.xmap]; try reflexivity.
  rewrite IH. match goal with |- context [option_map _ ?o] => destruct o end; reflexivity.
Qed.

Lemma interp_step_rel2 evA evB : Sev2 evA evB -> Scl2 (interp_step codeA evA) (interp_step codeB evB).
Proof.
  intros Hev p mA mB Hb Hm. unfold interp_step. rewrite (m2_pc _ _ _ _ _ _ _ Hm), stmt_at_A.
  destruct (stmt_at codeB (m_pc mB)) as [s|] eqn:Hs; cbn [option_map]; [|exact eq_refl].
  pose proof (Hnames _ _ Hs) as Hn.
  assert (Hlens : length (m_scopes mA) = length (m_scopes mB)) by exact (Forall2_length' _ _ _ (m2_sc _ _ _ _ _ _ _ Hm)).
  assert (Hlenl : length (m_loops mA) = length (m_loops mB)) by exact (Forall2_length' _ _ _ (m2_lp _ _ _ _ _ _ _ Hm)).
  destruct s; cbn [Sim2.smap]; simpl in Hn.
  - eapply orel2_bind; [apply Hev; eauto|]. intros q [v1 n1] [v2 n2] Hle Hbq [Hv Hnn]. simpl in Hv, Hnn. apply do_print_rel2; auto.
  - eapply orel2_bind; [apply Hev; eauto|]. intros q [v1 n1] [v2 n2] Hle Hbq [Hv Hnn]. simpl in Hv, Hnn. apply do_print_rel2; auto.
  - (* declaration / assignment *)
    inversion Hn as [|x' l' Hx Hrest]; subst. apply Forall_app in Hrest as [Hnidx Hninit].
    destruct k.
    + destruct init; cbn [option_map].
      * eapply orel2_bind; [apply Hev; eauto|]. intros q [v1 n1] [v2 n2] Hle Hbq [Hv Hnn]. simpl in Hv, Hnn.
        unfold declare. pose proof (m2_sc _ _ _ _ _ _ _ Hnn) as Hsc.
        destruct Hsc as [|s1 s2 r1 r2 Hs12 Hr]; cbn [bind]; [exact eq_refl|].
        apply orel2_ok; [exact Hbq|]. apply mrel2_next. apply mrel2_set_scopes; auto. constructor; auto. eapply srel_set; eauto.
      * unfold declare. pose proof (m2_sc _ _ _ _ _ _ _ Hm) as Hsc.
        destruct Hsc as [|s1 s2 r1 r2 Hs12 Hr]; cbn [bind]; [exact eq_refl|].
        apply orel2_ok; [exact Hb|]. apply mrel2_next. apply mrel2_set_scopes; auto. constructor; auto. eapply srel_set; eauto. simpl. auto.
    + destruct init; cbn [option_map]; [|exact eq_refl].
      eapply orel2_bind; [apply Hev; eauto|]. intros q [v1 n1] [v2 n2] Hle Hbq [Hv Hnn]. simpl in Hv, Hnn.
      destruct idx; cbn [map].
      * pose proof (assign_rel2 rho off rho_inj N q x v1 v2 _ _ Hx (m2_sc _ _ _ _ _ _ _ Hnn) Hv) as A.
        destruct (assign_var (rho x) v1 (m_scopes n1)), (assign_var x v2 (m_scopes n2)); try contradiction; [|eapply rt_err_rel2; exact Hnn].
        apply orel2_ok; [exact Hbq|]. apply mrel2_next. apply mrel2_set_scopes; auto.
      * pose proof (lookup_rel2 rho off N q x _ _ Hx (m2_sc _ _ _ _ _ _ _ Hnn)) as L.
        destruct (lookup_var (rho x) (m_scopes n1)) as [c1|], (lookup_var x (m_scopes n2)) as [c2|]; simpl in L; try contradiction; [|eapply rt_err_rel2; exact Hnn].
        change (xmap e0 :: map xmap idx) with (map xmap (e0 :: idx)).
        eapply orel2_bind; [apply eval_indexes_rel2; eauto; apply names_list; exact Hnidx|]. intros q2 [path1 k1] [path2 k2] Hle2 Hbq2 [Hp Hk]. simpl in Hp, Hk. subst path2.
        unfold here. rewrite (m2_pc _ _ _ _ _ _ _ Hk), stmt_at_A. destruct (stmt_at codeB (m_pc k2)) as [sk|]; cbn [bind option_map]; [|eapply unexpected_rel2; exact Hk].
        rewrite stmt_pos_smap.
        pose proof (lookup_rel2 rho off N q2 x _ _ Hx (m2_sc _ _ _ _ _ _ _ Hk)) as L2.
        destruct (lookup_var (rho x) (m_scopes k1)) as [d1|], (lookup_var x (m_scopes k2)) as [d2|]; simpl in L2; try contradiction; [|reflexivity].
        eapply orel2_bind; [apply assign_path_rel2; eauto; eapply vrel_mono2; eauto|].
        intros q3 j1 j2 Hle3 Hbq3 Hj. apply orel2_ok; [exact Hbq3|]. apply mrel2_next. exact Hj.
  - (* expression statement *)
    eapply orel2_bind; [apply Hev; eauto|]. intros q [v1 n1] [v2 n2] Hle Hbq [Hv Hnn]. simpl in Hv, Hnn.
    apply orel2_ok; [exact Hbq|]. apply mrel2_next. exact Hnn.
  - (* { *) apply orel2_ok; [exact Hb|]. apply mrel2_next. apply mrel2_set_scopes; auto. constructor; [apply srel_nil|apply Hm].
  - (* } *) rewrite Hlens. destruct (length (m_scopes mB) <=? 1); [eapply rt_err_rel2; exact Hm|].
    apply orel2_ok; [exact Hb|]. apply mrel2_next. apply mrel2_set_scopes; auto. apply Forall2_tl. apply Hm.
  - (* function definition *)
    change (S (m_pc mB + off)) with (S (m_pc mB) + off). rewrite stmt_at_A.
    destruct (stmt_at codeB (S (m_pc mB))) as [s1|]; cbn [option_map]; [|exact eq_refl].
    destruct s1; cbn [Sim2.smap]; try (rewrite <- ?stmt_pos_smap; eapply fail_at_rel2; exact Hm).
    destruct e; cbn [Sim2.xmap]; try (eapply fail_at_rel2; exact Hm). destruct e; cbn [Sim2.xmap]; try (eapply fail_at_rel2; exact Hm).
    rewrite fun_params_map.
    match goal with |- context [option_map (map rho) ?n] => destruct n as [params|] end; cbn [option_map]; [|eapply fail_at_rel2; exact Hm].
    unfold declare. pose proof (m2_sc _ _ _ _ _ _ _ Hm) as Hsc.
    destruct Hsc as [|s1 s2 r1 r2 Hs12 Hr]; cbn [bind]; [exact eq_refl|].
    change (S (S (m_pc mB) + off)) with (S (S (m_pc mB)) + off).
    eapply orel2_bind0; [apply (skip_block_from_rel2 p); exact Hm|]. intros a b ->.
    rewrite stmt_at_A. destruct (stmt_at codeB b) as [s3|]; cbn [option_map]; [|eapply unexpected_rel2; exact Hm].
    destruct s3; cbn [Sim2.smap]; try (rewrite Hlast; eapply fail_at_rel2; exact Hm).
    apply orel2_ok; [exact Hb|]. change (S (b + off)) with (S b + off). apply mrel2_set_pc. apply mrel2_set_scopes; auto. constructor; auto.
    eapply srel_set; eauto. simpl. split; [lia|reflexivity].
  - eapply rt_err_rel2; exact Hm.
  - (* if *)
    rewrite expr_pos_xmap.
    eapply orel2_bind; [apply Hev; eauto|]. intros q [v1 n1] [v2 n2] Hle Hbq [Hv Hnn]. simpl in Hv, Hnn.
    destruct v1, v2; simpl in Hv; try contradiction; subst; try (eapply fail_at_rel2; exact Hnn).
    destruct b0.
    + apply orel2_ok; [exact Hbq|]. apply mrel2_next. exact Hnn.
    + rewrite (m2_pc _ _ _ _ _ _ _ Hnn). change (S (m_pc n2 + off)) with (S (m_pc n2) + off).
      eapply orel2_bind0; [apply (skip_block_from_rel2 q); exact Hnn|]. intros a b ->.
      rewrite stmt_at_A. destruct (stmt_at codeB b) as [[]|]; cbn [option_map Sim2.smap];
        (apply orel2_ok; [exact Hbq|]; try change (S (b + off)) with (S b + off); apply mrel2_set_pc; exact Hnn).
  - (* loop *)
    change (S (m_pc mB + off)) with (S (m_pc mB) + off). rewrite stmt_at_A.
    destruct (stmt_at codeB (S (m_pc mB))) as [s1|]; cbn [option_map]; [|eapply fail_at_rel2; exact Hm].
    destruct s1; cbn [Sim2.smap]; try (eapply fail_at_rel2; exact Hm).
    eapply orel2_bind0; [apply (skip_block_from_rel2 p); exact Hm|]. intros a b ->.
    rewrite stmt_at_A. destruct (stmt_at codeB b) as [[]|]; cbn [option_map Sim2.smap]; try (eapply fail_at_rel2; exact Hm).
    rewrite Hlens. apply orel2_ok; [exact Hb|]. apply mrel2_set_pc. apply mrel2_set_loops; [exact Hm|].
    constructor; [|apply Hm]. split; [reflexivity|]. split; [simpl; lia|reflexivity].
  - (* continue *)
    rewrite Hlenl, (m2_lb _ _ _ _ _ _ _ Hm). destruct (length (m_loops mB) <=? m_loop_base mB); [eapply rt_err_rel2; exact Hm|].
    pose proof (m2_lp _ _ _ _ _ _ _ Hm) as Hl. destruct Hl as [|lA lB lsA lsB (L1 & L2 & L3) Hls]; [exact eq_refl|].
    rewrite L1, L3. apply orel2_ok; [exact Hb|]. apply mrel2_set_pc. apply mrel2_set_scopes; auto. apply Forall2_truncate. apply Hm.
  - (* break *)
    rewrite Hlenl, (m2_lb _ _ _ _ _ _ _ Hm). destruct (length (m_loops mB) <=? m_loop_base mB); [eapply rt_err_rel2; exact Hm|].
    pose proof (m2_lp _ _ _ _ _ _ _ Hm) as Hl. destruct Hl as [|lA lB lsA lsB (L1 & L2 & L3) Hls] eqn:El; [exact eq_refl|].
    rewrite L2, L3. apply orel2_ok; [exact Hb|]. apply mrel2_set_pc. apply mrel2_set_loops; [|exact Hls]. apply mrel2_set_scopes; auto. apply Forall2_truncate. apply Hm.
  - (* else *) change (S (m_pc mB + off)) with (S (m_pc mB) + off). apply skip_chain_rel2; auto.
  - eapply rt_err_rel2; exact Hm.
Qed.

Lemma call_loop_step_rel2 ipA ipB clA clB : Scl2 ipA ipB -> Scl2 clA clB -> Scl2 (call_loop_step codeA ipA clA) (call_loop_step codeB ipB clB).
Proof.
  intros Hip Hcl p mA mB Hb Hm. unfold call_loop_step. rewrite (m2_pc _ _ _ _ _ _ _ Hm), stmt_at_A.
  destruct (stmt_at codeB (m_pc mB)) as [s|]; cbn [option_map]; [|exact eq_refl].
  destruct s; cbn [Sim2.smap]; try (eapply orel2_bind; [apply Hip; eauto|]; intros q n1 n2 Hle Hbq Hnn; apply Hcl; auto).
  apply orel2_ok; auto.
Qed.

(** ** every fuel *)
Theorem sim2_fuel : forall f, Sev2 (eval codeA f) (eval codeB f) /\ Scl2 (call_loop codeA f) (call_loop codeB f) /\ Scl2 (interp codeA f) (interp codeB f).
Proof.
  induction f as [|f (IHe & IHl & IHi)].
  - repeat split; intros p; intros; exact I.
  - split; [|split].
    + intros p e mA mB Hb Hn Hm. rewrite !eval_S. apply eval_step_rel2; auto.
    + intros p mA mB Hb Hm. rewrite !call_loop_S. apply call_loop_step_rel2; auto.
    + intros p mA mB Hb Hm. rewrite !interp_S. apply interp_step_rel2; auto.
Qed.
End Sim2.
