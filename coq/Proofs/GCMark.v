(** C07 / C08: the mark phase of the collector marks exactly the containers reachable from the variables of
    all open scopes -- for every heap (sharing, cycles, list<->record nesting) -- and never runs out of fuel. *)
From Pakhi Require Import Base Float64 Syntax Tables Lexer Interp.
From Coq Require Import Lia.
Local Open Scope nat_scope.

Definition in_range (h : heap) (n : node) : Prop :=
  match n with NL a => a < length (h_lists h) | NR a => a < length (h_recs h) end.

(* reachability specification *)
Definition edge (h : heap) (n c : node) : Prop := exists v, In v (children h n) /\ node_of v = Some c.
Inductive reach (h : heap) (from : node -> Prop) : node -> Prop :=
| reach_root n : from n -> reach h from n
| reach_step n c : reach h from n -> edge h n c -> reach h from c.

Definition elems_nodes (es : list value) (n : node) : Prop := exists v, In v es /\ node_of v = Some n.

Definition wf_marks (h : heap) (m : marks) := length (ml m) = length (h_lists h) /\ length (mr m) = length (h_recs h).
Definition wf_val (h : heap) (v : value) := match node_of v with Some n => in_range h n | None => True end.
(* no dangling address inside any container *)
Definition wf_heap (h : heap) :=
  (forall l, In l (h_lists h) -> Forall (wf_val h) l) /\ (forall r, In r (h_recs h) -> Forall (wf_val h) (map snd r)).

Lemma list_set_length {A} (l : list A) i v : length (list_set l i v) = length l.
Proof. revert i; induction l as [|x t IH]; intros [|j]; simpl; auto. Qed.

Lemma nth_list_set_same i (l : list bool) : i < length l -> nth i (list_set l i true) false = true.
Proof. revert i; induction l as [|x t IH]; intros [|j] H; simpl in *; try lia; auto. apply IH; lia. Qed.

Lemma nth_list_set_other i j (l : list bool) : i <> j -> nth j (list_set l i true) false = nth j l false.
Proof. revert i j; induction l as [|x t IH]; intros [|i] [|j] H; simpl; auto; try congruence. Qed.

Lemma nth_list_set_mono i j (l : list bool) : nth j l false = true -> nth j (list_set l i true) false = true.
Proof.
  intros H. destruct (Nat.eq_dec i j) as [->|Hne].
  - apply nth_list_set_same. destruct (Nat.lt_ge_cases j (length l)); auto. rewrite nth_overflow in H; [discriminate|lia].
  - rewrite nth_list_set_other; auto.
Qed.

Lemma marked_mark_same h m n : wf_marks h m -> in_range h n -> marked (mark m n) n = true.
Proof. intros [H1 H2] Hr. destruct n; simpl in *; apply nth_list_set_same; lia. Qed.

Lemma marked_mark_mono m n k : marked m k = true -> marked (mark m n) k = true.
Proof. destruct n, k; simpl; auto using nth_list_set_mono. Qed.

Lemma marked_mark_other m n k : n <> k -> marked (mark m n) k = marked m k.
Proof. destruct n, k; simpl; intros H; auto; apply nth_list_set_other; congruence. Qed.

Lemma wf_marks_mark h m n : wf_marks h m -> wf_marks h (mark m n).
Proof. intros [H1 H2]; destruct n; split; simpl; rewrite ?list_set_length; auto. Qed.

Lemma children_wf h n : wf_heap h -> Forall (wf_val h) (children h n).
Proof.
  intros [Hl Hr]. destruct n as [a|a]; simpl.
  - destruct (Nat.lt_ge_cases a (length (h_lists h))). apply Hl, nth_In; auto. rewrite nth_overflow; auto.
  - destruct (Nat.lt_ge_cases a (length (h_recs h))). apply Hr, nth_In; auto. rewrite nth_overflow; auto. simpl. constructor.
Qed.

Lemma node_eq_dec (a b : node) : {a = b} + {a <> b}.
Proof. decide equality; apply Nat.eq_dec. Qed.

(* every node marked in m' but not in m has all its children marked in m' *)
Definition new_closed (h : heap) (m m' : marks) :=
  forall n, marked m' n = true -> marked m n = false -> forall c, edge h n c -> marked m' c = true.
Definition mono (m m' : marks) := forall n, marked m n = true -> marked m' n = true.

Lemma reach_weaken h (P Q : node -> Prop) n : (forall k, P k -> Q k) -> reach h P n -> reach h Q n.
Proof. intros HPQ H; induction H; [apply reach_root; auto|eapply reach_step; eauto]. Qed.

Lemma reach_trans_root h (P Q : node -> Prop) n : (forall k, P k -> reach h Q k) -> reach h P n -> reach h Q n.
Proof. intros HPQ H; induction H; [auto|eapply reach_step; eauto]. Qed.

Lemma elems_nodes_cons_tl v r k : elems_nodes r k -> elems_nodes (v :: r) k.
Proof. intros [w [Hin Hk]]; exists w; simpl; auto. Qed.
Lemma elems_nodes_cons_hd v r n : node_of v = Some n -> elems_nodes (v :: r) n.
Proof. intros H; exists v; simpl; auto. Qed.
Lemma elems_nodes_inv v r k : elems_nodes (v :: r) k -> node_of v = Some k \/ elems_nodes r k.
Proof. intros [w [[->|Hin] Hk]]; [left; auto|right; exists w; auto]. Qed.

Lemma mark_elems_spec fuel : forall h m es m',
  wf_heap h -> wf_marks h m -> Forall (wf_val h) es ->
  mark_elems fuel h m es = Some m' ->
  wf_marks h m' /\ mono m m' /\
  (forall n, elems_nodes es n -> marked m' n = true) /\
  new_closed h m m' /\
  (forall n, marked m' n = true -> marked m n = true \/ reach h (elems_nodes es) n).
Proof.
  induction fuel as [|f IHf]; intros h m es m' Hh Hm Hes Hrun; [discriminate|].
  simpl in Hrun. revert m m' Hm Hes Hrun.
  induction es as [|v r IHr]; intros m m' Hm Hes Hrun.
  - inversion Hrun; subst m'. refine (conj Hm (conj _ (conj _ (conj _ _)))).
    + intros n H; exact H.
    + intros n [w [[] _]].
    + intros n H1 H2; congruence.
    + intros n H; left; exact H.
  - inversion Hes as [|? ? Hv Hr']; subst.
    destruct (node_of v) as [n|] eqn:Hn.
    2:{ destruct (IHr m m' Hm Hr' Hrun) as (W & M & A & C & S).
        refine (conj W (conj M (conj _ (conj C _)))).
        - intros k Hk. destruct (elems_nodes_inv _ _ _ Hk) as [Hk'|Hk']; [congruence|auto].
        - intros k Hk. destruct (S k Hk) as [|Hre]; auto. right.
          eapply reach_weaken; [|exact Hre]. intros; apply elems_nodes_cons_tl; auto. }
    destruct (marked m n) eqn:Hmn.
    { destruct (IHr m m' Hm Hr' Hrun) as (W & M & A & C & S).
      refine (conj W (conj M (conj _ (conj C _)))).
      - intros k Hk. destruct (elems_nodes_inv _ _ _ Hk) as [Hk'|Hk']; [|auto].
        rewrite Hn in Hk'; inversion Hk'; subst; auto.
      - intros k Hk. destruct (S k Hk) as [|Hre]; auto. right.
        eapply reach_weaken; [|exact Hre]. intros; apply elems_nodes_cons_tl; auto. }
    destruct (mark_elems f h (mark m n) (children h n)) as [m1|] eqn:Hrec; [|discriminate].
    assert (Hin : in_range h n) by (unfold wf_val in Hv; rewrite Hn in Hv; exact Hv).
    destruct (IHf h (mark m n) (children h n) m1 Hh (wf_marks_mark h m n Hm) (children_wf h n Hh) Hrec)
      as (W1 & M1 & A1 & C1 & S1).
    destruct (IHr m1 m' W1 Hr' Hrun) as (W & M & A & C & S).
    assert (Hn1 : marked m1 n = true) by (apply M1, marked_mark_same with (h:=h); auto).
    refine (conj W (conj _ (conj _ (conj _ _)))).
    + intros k Hk. apply M, M1, marked_mark_mono; auto.
    + intros k Hk. destruct (elems_nodes_inv _ _ _ Hk) as [Hk'|Hk']; [|auto].
      rewrite Hn in Hk'; inversion Hk'; subst; auto.
    + intros k Hk' Hk0 c Hc.
      destruct (marked m1 k) eqn:Hk1.
      * apply M.
        destruct (node_eq_dec k n) as [->|Hne].
        -- destruct Hc as [w [Hw Hwc]]. apply A1. exists w; auto.
        -- eapply C1; eauto. rewrite marked_mark_other; auto.
      * eapply C; eauto.
    + intros k Hk. destruct (S k Hk) as [Hk1|Hre].
      * destruct (S1 k Hk1) as [Hk0|Hre].
        -- destruct (node_eq_dec n k) as [->|Hne].
           ++ right. apply reach_root. apply elems_nodes_cons_hd; auto.
           ++ left. rewrite marked_mark_other in Hk0; auto.
        -- right. eapply reach_trans_root; [|exact Hre].
           intros c [w [Hw Hwc]]. eapply reach_step; [apply reach_root, elems_nodes_cons_hd; eauto|].
           exists w; auto.
      * right. eapply reach_weaken; [|exact Hre]. intros; apply elems_nodes_cons_tl; auto.
Qed.

(* fuel is sufficient: one unit per newly marked slot *)
Fixpoint count_false (l : list bool) : nat :=
  match l with [] => 0 | b :: t => (if b then 0 else 1) + count_false t end.
Definition unmarked (m : marks) := count_false (ml m) + count_false (mr m).

Lemma count_false_list_set i l : i < length l -> nth i l false = false ->
  S (count_false (list_set l i true)) = count_false l.
Proof.
  revert i; induction l as [|x t IH]; intros [|j] Hlt Hn; simpl in *; try lia.
  - subst x; simpl; lia.
  - assert (S (count_false (list_set t j true)) = count_false t) by (apply IH; [lia|auto]).
    destruct x; simpl; lia.
Qed.

Lemma unmarked_mark h m n : wf_marks h m -> in_range h n -> marked m n = false ->
  S (unmarked (mark m n)) = unmarked m.
Proof.
  intros [H1 H2] Hr Hm. destruct n; unfold unmarked; simpl in *.
  - rewrite <- (count_false_list_set a (ml m)); try lia; auto.
  - rewrite <- (count_false_list_set a (mr m)); try lia; auto.
Qed.

Lemma count_false_mono l l' : length l = length l' ->
  (forall i, nth i l false = true -> nth i l' false = true) -> count_false l' <= count_false l.
Proof.
  revert l'; induction l as [|x t IH]; intros [|y u] Hlen H; simpl in *; try lia.
  assert (count_false u <= count_false t).
  { apply IH; [lia|]. intros i Hi. apply (H (S i)); auto. }
  specialize (H 0); simpl in H. destruct x, y; simpl; try lia; try (specialize (H eq_refl); discriminate).
Qed.

Lemma unmarked_mono h m m' : wf_marks h m -> wf_marks h m' -> mono m m' -> unmarked m' <= unmarked m.
Proof.
  intros [A1 A2] [B1 B2] M. unfold unmarked.
  assert (count_false (ml m') <= count_false (ml m)).
  { apply count_false_mono; [lia|]. intros i Hi. apply (M (NL i)); auto. }
  assert (count_false (mr m') <= count_false (mr m)).
  { apply count_false_mono; [lia|]. intros i Hi. apply (M (NR i)); auto. }
  lia.
Qed.

Lemma count_false_le l : count_false l <= length l.
Proof. induction l as [|b t IH]; simpl; [lia|destruct b; lia]. Qed.

Lemma unmarked_le h m : wf_marks h m -> unmarked m <= length (h_lists h) + length (h_recs h).
Proof. intros [A B]. unfold unmarked. pose proof (count_false_le (ml m)). pose proof (count_false_le (mr m)). lia. Qed.

Lemma mark_elems_fuel fuel : forall h m es,
  wf_heap h -> wf_marks h m -> Forall (wf_val h) es ->
  unmarked m < fuel -> mark_elems fuel h m es <> None.
Proof.
  induction fuel as [|f IHf]; intros h m es Hh Hm Hes Hlt; [lia|].
  simpl. revert m Hm Hes Hlt.
  induction es as [|v r IHr]; intros m Hm Hes Hlt; [discriminate|].
  inversion Hes as [|? ? Hv Hr']; subst.
  destruct (node_of v) as [n|] eqn:Hn; [|apply IHr; auto].
  destruct (marked m n) eqn:Hmn; [apply IHr; auto|].
  assert (Hin : in_range h n) by (unfold wf_val in Hv; rewrite Hn in Hv; exact Hv).
  pose proof (unmarked_mark h m n Hm Hin Hmn) as Hdec.
  destruct (mark_elems f h (mark m n) (children h n)) as [m1|] eqn:Hrec.
  - destruct (mark_elems_spec f h (mark m n) (children h n) m1 Hh (wf_marks_mark h m n Hm) (children_wf h n Hh) Hrec)
      as (W1 & M1 & _).
    apply IHr; auto.
    pose proof (unmarked_mono h (mark m n) m1 (wf_marks_mark h m n Hm) W1 M1). lia.
  - exfalso. eapply (IHf h (mark m n) (children h n)); eauto using wf_marks_mark, children_wf. lia.
Qed.

(** The root loop of gc_mark *)
Definition roots_in (roots : list node) (n : node) : Prop := In n roots.

Lemma mark_roots_spec h fuel : forall roots m m',
  wf_heap h -> wf_marks h m -> Forall (in_range h) roots ->
  mark_roots fuel h m roots = Some m' ->
  wf_marks h m' /\ mono m m' /\
  (forall n, In n roots -> marked m' n = true) /\
  new_closed h m m' /\
  (forall n, marked m' n = true -> marked m n = true \/ reach h (roots_in roots) n).
Proof.
  induction roots as [|n r IH]; intros m m' Hh Hm Hr Hrun; simpl in Hrun.
  - inversion Hrun; subst. refine (conj Hm (conj _ (conj _ (conj _ _)))).
    + intros k H; exact H.
    + intros k [].
    + intros k H1 H2; congruence.
    + intros k H; left; exact H.
  - inversion Hr as [|? ? Hn Hr']; subst.
    destruct (mark_elems fuel h (mark m n) (children h n)) as [m1|] eqn:E; [|discriminate].
    destruct (mark_elems_spec fuel h (mark m n) (children h n) m1 Hh (wf_marks_mark h m n Hm) (children_wf h n Hh) E)
      as (W1 & M1 & A1 & C1 & S1).
    destruct (IH m1 m' Hh W1 Hr' Hrun) as (W & M & A & C & S).
    assert (Hn1 : marked m1 n = true) by (apply M1, marked_mark_same with (h:=h); auto).
    refine (conj W (conj _ (conj _ (conj _ _)))).
    + intros k Hk. apply M, M1, marked_mark_mono; auto.
    + intros k [->|Hk]; [apply M; exact Hn1|apply A; exact Hk].
    + intros k Hk' Hk0 c Hc.
      destruct (marked m1 k) eqn:Hk1.
      * apply M. destruct (node_eq_dec k n) as [->|Hne].
        -- destruct Hc as [w [Hw Hwc]]. apply A1. exists w; auto.
        -- eapply C1; eauto. rewrite marked_mark_other; auto.
      * eapply C; eauto.
    + intros k Hk. destruct (S k Hk) as [Hk1|Hre].
      * destruct (S1 k Hk1) as [Hk0|Hre].
        -- destruct (node_eq_dec n k) as [->|Hne].
           ++ right. apply reach_root. left; reflexivity.
           ++ left. rewrite marked_mark_other in Hk0; auto.
        -- right. eapply reach_trans_root; [|exact Hre].
           intros c [w [Hw Hwc]]. eapply reach_step; [apply reach_root; left; reflexivity|].
           exists w; auto.
      * right. eapply reach_weaken; [|exact Hre]. intros c Hc; right; exact Hc.
Qed.

Lemma mark_roots_fuel h fuel : forall roots m,
  wf_heap h -> wf_marks h m -> Forall (in_range h) roots ->
  length (h_lists h) + length (h_recs h) < fuel -> mark_roots fuel h m roots <> None.
Proof.
  induction roots as [|n r IH]; intros m Hh Hm Hr Hf; simpl; [discriminate|].
  inversion Hr as [|? ? Hn Hr']; subst.
  destruct (mark_elems fuel h (mark m n) (children h n)) as [m1|] eqn:E.
  - destruct (mark_elems_spec fuel h (mark m n) (children h n) m1 Hh (wf_marks_mark h m n Hm) (children_wf h n Hh) E) as (W1 & _).
    apply IH; auto.
  - exfalso. eapply (mark_elems_fuel fuel h (mark m n) (children h n)); eauto using wf_marks_mark, children_wf.
    pose proof (unmarked_le h (mark m n) (wf_marks_mark h m n Hm)). lia.
Qed.

Lemma nth_repeat_false i n : nth i (repeat false n) false = false.
Proof. revert i; induction n; intros [|i]; simpl; auto. Qed.

(* the roots of a scope stack: the containers held directly by variables *)
Definition is_root (ss : list scope) (n : node) : Prop := exists v, In v (root_values ss) /\ node_of v = Some n.
Definition wf_scopes (h : heap) (ss : list scope) : Prop := Forall (wf_val h) (root_values ss).

Lemma in_node_list v n : In n (match node_of v with Some n0 => [n0] | None => [] end) <-> node_of v = Some n.
Proof.
  destruct (node_of v) as [k|]; simpl; split.
  - intros [->|[]]; reflexivity.
  - intros H; injection H as ->; left; reflexivity.
  - intros [].
  - discriminate.
Qed.

Lemma roots_of_iff ss n : In n (roots_of ss) <-> is_root ss n.
Proof.
  unfold roots_of, is_root. rewrite in_app_iff, !filter_In, !in_flat_map.
  split.
  - intros [[[v [Hv Hn]] _]|[[v [Hv Hn]] _]]; exists v; split; auto; apply in_node_list; exact Hn.
  - intros [v [Hv Hn]].
    assert (Hin : exists x, In x (root_values ss) /\ In n (match node_of x with Some n0 => [n0] | None => [] end)).
    { exists v. split; auto. apply in_node_list; exact Hn. }
    destruct (is_list_node n) eqn:E; [left|right]; split; auto.
Qed.

Lemma roots_in_range h ss : wf_scopes h ss -> Forall (in_range h) (roots_of ss).
Proof.
  intros Hw. apply Forall_forall. intros n Hn. apply roots_of_iff in Hn as [v [Hv Hn]].
  unfold wf_scopes in Hw. rewrite Forall_forall in Hw. specialize (Hw v Hv). unfold wf_val in Hw. rewrite Hn in Hw. exact Hw.
Qed.

(** gc_mark marks exactly the reachable containers, for every well-formed heap and scope stack *)
Theorem gc_mark_correct h ss :
  wf_heap h -> wf_scopes h ss ->
  exists m, gc_mark ss h = Some m /\ wf_marks h m /\
            forall n, marked m n = true <-> reach h (is_root ss) n.
Proof.
  intros Hh Hs. unfold gc_mark.
  set (m0 := mkMarks (repeat false (length (h_lists h))) (repeat false (length (h_recs h)))).
  assert (Hw : wf_marks h m0) by (split; simpl; apply repeat_length).
  pose proof (roots_in_range h ss Hs) as Hr.
  destruct (mark_roots (S (length (h_lists h) + length (h_recs h))) h m0 (roots_of ss)) as [m|] eqn:E.
  2:{ exfalso. eapply mark_roots_fuel; [exact Hh|exact Hw|exact Hr| |exact E]. lia. }
  exists m. split; [reflexivity|].
  destruct (mark_roots_spec _ _ _ _ _ Hh Hw Hr E) as (W & M & A & C & S).
  split; [exact W|].
  assert (Hempty : forall k, marked m0 k = false) by (intros [a|a]; simpl; apply nth_repeat_false).
  intros n; split.
  - intros Hn. destruct (S n Hn) as [Hc|Hre]; [rewrite Hempty in Hc; discriminate|].
    eapply reach_weaken; [|exact Hre]. intros k Hk. apply roots_of_iff. exact Hk.
  - intros Hre. induction Hre as [k Hk|k c Hre IH Hedge]; [apply A, roots_of_iff; auto|].
    eapply C; eauto.
Qed.
