(** C10, part 1: the tokenizer model is total -- never Panic, never OutOfFuel with fuel S(length src),
    errors are syntax errors only, and it allocates at most length src + 1 tokens. *)
From Pakhi Require Import Base Float64 Syntax Tables Lexer.
From Pakhi.Proofs Require Import TableFacts.
From Coq Require Import Lia.
Local Open Scope nat_scope.
(* the generated tables stay abstract in these proofs: they hold for whatever tables the source has *)
Local Opaque lexer_digits single_ops double_ops keywords numeric_ranges minus_binary_after ident_extra_chars.

Lemma num_scan_len rest : forall in_frac line file s n,
  num_scan rest in_frac line file = Ok (s, n) -> n <= length rest.
Proof.
  induction rest as [|c r IH]; intros in_frac line file s n H; simpl in H.
  - injection H as _ <-. simpl. lia.
  - destruct (N.eqb c c_dot).
    + destruct in_frac; [discriminate|].
      destruct (num_scan r true line file) as [[s' n']| | |] eqn:E; simpl in H; try discriminate.
      injection H as _ <-. apply IH in E. simpl. lia.
    + destruct (is_numeric c).
      * destruct (assoc_N c lexer_digits); [|discriminate].
        destruct (num_scan r in_frac line file) as [[s' n']| | |] eqn:E; simpl in H; try discriminate.
        injection H as _ <-. apply IH in E. simpl. lia.
      * injection H as _ <-. simpl. lia.
Qed.

Lemma num_scan_outcome rest : forall in_frac line file,
  match num_scan rest in_frac line file with
  | Ok _ => True | Err e => e = mkErr0 ESyntax line file TagGeneric | _ => False end.
Proof.
  induction rest as [|c r IH]; intros in_frac line file; simpl; [exact I|].
  destruct (N.eqb c c_dot).
  - destruct in_frac; [reflexivity|].
    specialize (IH true line file). destruct (num_scan r true line file) as [[? ?]| | |]; simpl; auto.
  - destruct (is_numeric c); [|exact I].
    destruct (assoc_N c lexer_digits); [|reflexivity].
    specialize (IH in_frac line file). destruct (num_scan r in_frac line file) as [[? ?]| | |]; simpl; auto.
Qed.

Lemma consume_num_tail_spec sign body k line file :
  match consume_num_tail sign body k line file with
  | Ok (_, m) => k <= m <= k + length body
  | Err e => e = mkErr0 ESyntax line file TagGeneric
  | _ => False
  end.
Proof.
  unfold consume_num_tail.
  pose proof (num_scan_outcome body false line file) as Ho.
  destruct (num_scan body false line file) as [[s n]| | |] eqn:E; simpl; auto.
  destruct (parse_f64 (sign ++ s)); [|reflexivity]. apply num_scan_len in E. lia.
Qed.

Lemma consume_num_spec rest line file :
  match consume_num rest line file with
  | Ok (_, n) => n <= length rest
  | Err e => e = mkErr0 ESyntax line file TagGeneric
  | _ => False
  end.
Proof.
  unfold consume_num.
  destruct rest as [|c r].
  - pose proof (consume_num_tail_spec [] [] 0 line file) as H.
    destruct (consume_num_tail _ _ _ _ _) as [[v m]| | |]; simpl in *; auto; lia.
  - destruct (N.eqb c c_minus).
    + pose proof (consume_num_tail_spec [c_minus] r 1 line file) as H.
      destruct (consume_num_tail _ _ _ _ _) as [[v m]| | |]; simpl in *; auto; lia.
    + pose proof (consume_num_tail_spec [] (c :: r) 0 line file) as H.
      destruct (consume_num_tail _ _ _ _ _) as [[v m]| | |]; simpl in *; auto; lia.
Qed.

(* when the first character is '-' or a digit of the table, the scan consumes at least that character *)
Lemma consume_num_pos c r line file v n :
  (N.eqb c c_minus = true \/ (is_numeric c = true /\ N.eqb c c_dot = false)) ->
  consume_num (c :: r) line file = Ok (v, n) -> 1 <= n.
Proof.
  intros Hc E. unfold consume_num in E.
  destruct (N.eqb c c_minus) eqn:Ec.
  - pose proof (consume_num_tail_spec [c_minus] r 1 line file) as H.
    rewrite E in H. lia.
  - destruct Hc as [Hc|[Hn Hd]]; [discriminate|].
    unfold consume_num_tail in E. cbn [num_scan] in E. rewrite Hd, Hn in E.
    destruct (assoc_N c lexer_digits); [|discriminate].
    destruct (num_scan r false line file) as [[s k]| | |]; simpl in E; try discriminate.
    destruct (parse_f64 _); [|discriminate]. injection E as _ <-. lia.
Qed.

Lemma comment_scan_len fuel : forall rest n l,
  comment_scan fuel rest = Some (n, l) -> 1 <= n <= length rest.
Proof.
  induction fuel as [|f IH]; intros rest n l H; simpl in H; [discriminate|].
  destruct rest as [|c r]; [discriminate|].
  destruct (N.eqb c c_hash).
  - injection H as <- _. simpl. lia.
  - destruct (andb _ _) eqn:Eesc.
    + destruct (comment_scan f (tl r)) as [[n' l']|] eqn:E; [|discriminate].
      injection H as <- _. apply IH in E.
      destruct r as [|d r']; simpl in *; [lia|lia].
    + destruct (comment_scan f r) as [[n' l']|] eqn:E; [|discriminate].
      injection H as <- _. apply IH in E. simpl. lia.
Qed.

Lemma string_scan_len rest : forall s, string_scan rest = (s, true) -> S (length s) <= length rest.
Proof.
  induction rest as [|c r IH]; intros s H; simpl in H; [discriminate|].
  destruct (N.eqb c c_quote).
  - injection H as <-. simpl. lia.
  - destruct (string_scan r) as [s' cl] eqn:E. injection H as <- ->. specialize (IH s' eq_refl). simpl. lia.
Qed.

Lemma ident_scan_len rest : length (ident_scan rest) <= length rest.
Proof. induction rest as [|c r IH]; simpl; [lia|]. destruct (is_valid_identifier_char c); simpl; lia. Qed.

(* the one-step progress and totality lemma *)
Lemma consume_spec rest line file prev : rest <> [] ->
  match consume rest line file prev with
  | Ok (_, c, _) => 1 <= c <= length rest
  | Err e => e = mkErr0 ESyntax line file TagGeneric
  | _ => False
  end.
Proof.
  intros Hne. destruct rest as [|c r]; [congruence|]. unfold consume.
  destruct (orb _ _) eqn:Hhead.
  { destruct (orb (is_numeric c) _) eqn:Enum.
    - pose proof (consume_num_spec (c :: r) line file) as Hn.
      destruct (consume_num (c :: r) line file) as [[v n]| | |] eqn:E; simpl; auto.
      split; [|exact Hn].
      apply (consume_num_pos c r line file v n); [|exact E].
      destruct (N.eqb c c_minus) eqn:Ec; [left; reflexivity|right].
      (* c is not '-', so by the head test it is one of the digits of the table *)
      simpl in Hhead. destruct (assoc_N c lexer_digits) eqn:Ed; [|discriminate].
      apply orb_true_iff in Enum as [H|H].
      + split; [exact H|]. apply digits_not_dot with (1 := Ed).
      + (* next_is_numeric && not after operand requires ... c itself numeric? no: this disjunct only
           fires for '-' in the source; for a digit head c the first disjunct holds in Rust too *)
        split; [apply digits_numeric with (1 := Ed)|apply digits_not_dot with (1 := Ed)].
    - destruct r as [|d r']; simpl; [lia|]. destruct (N.eqb d c_gt); simpl; lia. }
  destruct (assoc_N c single_ops); [simpl; lia|].
  destruct (assoc_N c double_ops) as [[[d k2] k1]|].
  { destruct r as [|x r']; simpl; [lia|]. destruct (N.eqb x d); simpl; lia. }
  destruct (N.eqb c c_hash).
  { destruct (comment_scan (S (length r)) r) as [[n l]|] eqn:E; [|reflexivity].
    apply comment_scan_len in E. simpl. lia. }
  destruct (N.eqb c c_quote).
  { destruct (string_scan r) as [s closed] eqn:E. destruct closed; [|reflexivity].
    apply string_scan_len in E. simpl. lia. }
  destruct (mem_N c [32%N; 13%N; 9%N]); [simpl; lia|].
  destruct (N.eqb c c_newline); [simpl; lia|].
  pose proof (ident_scan_len (c :: r)) as Hl.
  destruct (ident_scan (c :: r)) as [|i id] eqn:E; [reflexivity|].
  destruct (assoc_text (i :: id) keywords); simpl in *; lia.
Qed.

Lemma lex_loop_total fuel : forall rest pos line file prev, length rest < fuel ->
  match lex_loop fuel rest pos line file prev with
  | Ok ts => 1 <= length ts <= S (length rest)
  | Err e => e_kind e = ESyntax /\ e_file e = file
  | _ => False
  end.
Proof.
  induction fuel as [|f IH]; intros rest pos line file prev Hf; [lia|].
  destruct rest as [|c r]; [simpl; lia|].
  cbn [lex_loop].
  pose proof (consume_spec (c :: r) line file prev ltac:(discriminate)) as Hc.
  destruct (consume (c :: r) line file prev) as [[[t n] l]| | |] eqn:E; cbn [bind]; cbn beta iota in Hc; try contradiction.
  - assert (Hlen : length (skipn n (c :: r)) < f) by (rewrite skipn_length; cbn [length] in *; lia).
    assert (Hlen2 : length (skipn n (c :: r)) <= length r) by (rewrite skipn_length; cbn [length] in *; lia).
    destruct t as [tk|].
    + specialize (IH (skipn n (c :: r)) (pos + n) (N.add line l) file (Some (t_kind tk)) Hlen).
      destruct (lex_loop f _ _ _ _ _) as [ts| | |]; cbn [bind]; try contradiction; auto.
      cbn [length] in *. lia.
    + specialize (IH (skipn n (c :: r)) (pos + n) (N.add line l) file prev Hlen).
      destruct (lex_loop f _ _ _ _ _) as [ts| | |]; try contradiction; auto.
      cbn [length] in *. lia.
  - subst e. simpl. auto.
Qed.

(** The tokenizer never panics, never runs out of its computed fuel (hence terminates: each step
    consumes at least one character), fails only with a syntax error located in the file being lexed,
    and produces at most one token per character plus the end marker. *)
Theorem lexer_total : forall src file,
  match tokenize src file with
  | Ok ts => 1 <= length ts <= S (length src)
  | Err e => e_kind e = ESyntax /\ e_file e = file
  | Panic _ => False
  | OutOfFuel => False
  end.
Proof.
  intros src file. unfold tokenize, tokenize_spans.
  pose proof (lex_loop_total (S (length src)) src 0 1%N file None ltac:(lia)) as H.
  destruct (lex_loop _ _ _ _ _ _) as [ts| | |]; cbn [bind]; auto.
  rewrite map_length. exact H.
Qed.
