(** C09: every finite double is printable -- every digit the shortest-representation model produces is at most 9.
    The digit loop keeps  remainder < scale, so each later digit is (remainder * 10) / scale <= 9; the first digit needs
    mantissa < 10 * scale  after the scaling by 10^k, i.e. that the estimate k of the decimal exponent is not too small:
    (mant + plus) * 2^exp < 10^(k+1).  The estimate is  k = floor(x * 1292913986 / 2^32)  for x = bits(mant+plus-1) + exp;
    for a valid binary64 x lies in [-1100, 1100], and  2^x < 10^(k(x)+1)  is checked for every such x by computation
    (a finite sweep, lifted by [forallb_forall]).  With NumShape.v: a finite number always prints, as plain decimal text. *)
From Coq Require Import ZArith NArith List Bool Lia.
From Pakhi Require Import Base Float64 Syntax Tables Lexer Interp.
From Pakhi.Proofs Require Import TableFacts Num NumText NumShape.
Import ListNotations.
Local Open Scope Z_scope.

Definition est (x : Z) : Z := Z.shiftr (x * 1292913986) 32.

(* 2^x < 10^(est x + 1), as a test on integers *)
Definition est_ok (x : Z) : bool :=
  let k1 := est x + 1 in
  if 0 <=? x then (if 0 <=? k1 then 2 ^ x <? 10 ^ k1 else false)
  else (if 0 <=? k1 then true else 10 ^ (- k1) <? 2 ^ (- x)).

Definition sweep : list Z := map (fun i => Z.of_nat i - 1100) (seq 0 2201).

Lemma sweep_ok : forallb est_ok sweep = true.
Proof. vm_compute. reflexivity. Qed.

Lemma est_ok_range x : -1100 <= x <= 1100 -> est_ok x = true.
Proof.
  intros H. pose proof sweep_ok as S. rewrite forallb_forall in S. apply S. unfold sweep.
  apply in_map_iff. exists (Z.to_nat (x + 1100)). split; [lia|]. apply in_seq. lia.
Qed.

(** ** digits of the loop *)
Definition le9 (l : list Z) : Prop := Forall (fun d => 0 <= d <= 9) l.

Lemma gen_digits_le9 fuel : forall inclusive mant minus plus scale acc,
  0 <= mant -> 0 < scale -> mant < 10 * scale -> le9 acc ->
  let '(acc', _, _, _) := gen_digits fuel inclusive mant minus plus scale acc in le9 acc'.
Proof.
  induction fuel as [|f IH]; intros inclusive mant minus plus scale acc Hm Hs Hlt Ha; cbn [gen_digits]; [exact Ha|].
  assert (Hd : 0 <= mant / scale <= 9).
  { split; [apply Z.div_pos; lia|]. assert (mant / scale < 10) by (apply Z.div_lt_upper_bound; lia). lia. }
  assert (Hr : 0 <= mant mod scale < scale) by (apply Z.mod_pos_bound; lia).
  destruct (lt_rounding inclusive (mant mod scale) minus || lt_rounding inclusive scale (mant mod scale + plus)).
  - constructor; [exact Hd|exact Ha].
  - apply IH; [lia|exact Hs|lia|constructor; [exact Hd|exact Ha]].
Qed.

Lemma round_up_rev_le9 ds : le9 ds -> let '(r, _) := round_up_rev ds in le9 r.
Proof.
  induction 1 as [|d ds Hd Hds IH]; cbn [round_up_rev]; [constructor|].
  destruct (d =? 9) eqn:E.
  - destruct (round_up_rev ds) as [r' c]. constructor; [lia|exact IH].
  - apply Z.eqb_neq in E. constructor; [lia|exact Hds].
Qed.

(** ** a valid binary64: mantissa below 2^53, exponent in [-1074, 971] *)
Lemma digits2_bound m : Z.pos m < 2 ^ Z.pos (digits2_pos m).
Proof.
  induction m as [m IH|m IH|]; cbn [digits2_pos]; rewrite ?Pos2Z.inj_succ, ?Z.pow_succ_r by lia; lia.
Qed.

Lemma bounded_range m e : bounded Float64.prec Float64.emax m e = true -> Z.pos m < 2 ^ 53 /\ -1074 <= e <= 971.
Proof.
  unfold bounded, canonical_mantissa, fexp, emin, Float64.prec, Float64.emax. intros H. apply andb_true_iff in H as [H1 H2].
  apply Zeq_bool_eq in H1. apply Zle_bool_imp_le in H2.
  pose proof (digits2_bound m) as Hd. set (dg := Z.pos (digits2_pos m)) in *.
  assert (dg <= 53) by lia. split; [|lia].
  apply Z.lt_le_trans with (2 ^ dg); [exact Hd|]. apply Z.pow_le_mono_r; lia.
Qed.

(** ** the first digit: the scaled mantissa is below 10 * scale *)
Lemma log2_bits v : 0 < v -> v <= 2 ^ (if v - 1 =? 0 then 0 else Z.log2 (v - 1) + 1).
Proof.
  intros Hv. destruct (v - 1 =? 0) eqn:E; [apply Z.eqb_eq in E; cbn; lia|].
  apply Z.eqb_neq in E. pose proof (Z.log2_spec (v - 1) ltac:(lia)) as [_ H]. rewrite Z.add_1_r. lia.
Qed.

Lemma pow_pos_b b n : 0 < b -> 0 <= n -> 0 < b ^ n.
Proof. intros. apply Z.pow_pos_nonneg; lia. Qed.

Lemma scaled_below (v ex : Z) : 0 < v -> -1100 <= (if v - 1 =? 0 then 0 else Z.log2 (v - 1) + 1) + ex <= 1100 ->
  let k := estimate_scaling_factor v ex in
  (* v * 2^ex < 10^(k+1), written without negative powers *)
  v * (if 0 <=? ex then 2 ^ ex else 1) * (if 0 <=? k then 1 else 10 ^ (- k)) <
  10 * ((if 0 <=? ex then 1 else 2 ^ (- ex)) * (if 0 <=? k then 10 ^ k else 1)).
Proof.
  intros Hv Hr k. set (nb := if v - 1 =? 0 then 0 else Z.log2 (v - 1) + 1) in *.
  assert (Hnb : 0 <= nb) by (unfold nb; destruct (v - 1 =? 0); [lia|pose proof (Z.log2_nonneg (v - 1)); lia]).
  pose proof (log2_bits v Hv) as Hle. fold nb in Hle.
  assert (Ek : k = est (nb + ex)) by reflexivity.
  pose proof (est_ok_range (nb + ex) Hr) as Hok. unfold est_ok in Hok. rewrite <- Ek in Hok.
  destruct (0 <=? ex) eqn:Eex; [apply Z.leb_le in Eex|apply Z.leb_gt in Eex];
  destruct (0 <=? k) eqn:Ekk; [apply Z.leb_le in Ekk|apply Z.leb_gt in Ekk| apply Z.leb_le in Ekk|apply Z.leb_gt in Ekk].
  - (* ex >= 0, k >= 0 : v * 2^ex < 10 * 10^k *)
    assert (H0 : (0 <=? nb + ex) = true) by (apply Z.leb_le; lia). rewrite H0 in Hok.
    assert (H1 : (0 <=? k + 1) = true) by (apply Z.leb_le; lia). rewrite H1 in Hok. apply Z.ltb_lt in Hok.
    rewrite (Z.pow_add_r 2 nb ex) in Hok by lia. rewrite (Z.pow_add_r 10 k 1), Z.pow_1_r in Hok by lia.
    pose proof (pow_pos_b 2 ex ltac:(lia) Eex) as P.
    set (A := 2 ^ nb) in *. set (B := 2 ^ ex) in *. set (C := 10 ^ k) in *.
    assert (v * B <= A * B) by (apply Z.mul_le_mono_nonneg_r; lia). lia.
  - (* ex >= 0, k < 0 : impossible *)
    exfalso. assert (H0 : (0 <=? nb + ex) = true) by (apply Z.leb_le; lia). rewrite H0 in Hok.
    destruct (0 <=? k + 1) eqn:E1; [|discriminate]. apply Z.leb_le in E1. assert (Hk1 : k + 1 = 0) by lia.
    apply Z.ltb_lt in Hok. rewrite Hk1 in Hok. cbn [Z.pow] in Hok.
    pose proof (pow_pos_b 2 (nb + ex) ltac:(lia) ltac:(lia)). lia.
  - (* ex < 0, k >= 0 : v < 10 * 2^-ex * 10^k *)
    assert (H1 : (0 <=? k + 1) = true) by (apply Z.leb_le; lia). rewrite H1 in Hok.
    pose proof (pow_pos_b 2 (- ex) ltac:(lia) ltac:(lia)) as P2. pose proof (pow_pos_b 10 k ltac:(lia) Ekk) as P10.
    destruct (0 <=? nb + ex) eqn:E0.
    + apply Z.leb_le in E0. apply Z.ltb_lt in Hok. rewrite (Z.pow_add_r 10 k 1), Z.pow_1_r in Hok by lia.
      assert (E2 : 2 ^ nb = 2 ^ (nb + ex) * 2 ^ (- ex)) by (rewrite <- Z.pow_add_r by lia; f_equal; lia).
      set (A := 2 ^ nb) in *. set (X := 2 ^ (nb + ex)) in *. set (Q := 2 ^ (- ex)) in *. set (C := 10 ^ k) in *.
      assert (X * Q < C * 10 * Q) by (apply Z.mul_lt_mono_pos_r; lia). lia.
    + apply Z.leb_gt in E0. assert (Hlt : 2 ^ nb < 2 ^ (- ex)) by (apply Z.pow_lt_mono_r; lia).
      set (A := 2 ^ nb) in *. set (Q := 2 ^ (- ex)) in *. set (C := 10 ^ k) in *.
      assert (Q * 1 <= Q * C) by (apply Z.mul_le_mono_nonneg_l; lia). lia.
  - (* ex < 0, k < 0 : v * 10^-k < 10 * 2^-ex *)
    pose proof (pow_pos_b 2 (- ex) ltac:(lia) ltac:(lia)) as P2. pose proof (pow_pos_b 10 (- k) ltac:(lia) ltac:(lia)) as P10.
    destruct (0 <=? nb + ex) eqn:E0.
    + exfalso. apply Z.leb_le in E0. destruct (0 <=? k + 1) eqn:E1; [|discriminate]. apply Z.leb_le in E1. assert (Hk1 : k + 1 = 0) by lia.
      apply Z.ltb_lt in Hok. rewrite Hk1 in Hok. cbn [Z.pow] in Hok.
      pose proof (pow_pos_b 2 (nb + ex) ltac:(lia) E0). lia.
    + apply Z.leb_gt in E0. assert (Hlt : 2 ^ nb < 2 ^ (- ex)) by (apply Z.pow_lt_mono_r; lia).
      destruct (0 <=? k + 1) eqn:E1.
      * apply Z.leb_le in E1. assert (Hk1 : - k = 1) by lia. rewrite Hk1, Z.pow_1_r. lia.
      * apply Z.leb_gt in E1. apply Z.ltb_lt in Hok.
        assert (E2 : 2 ^ (- ex) = 2 ^ (- (nb + ex)) * 2 ^ nb) by (rewrite <- Z.pow_add_r by lia; f_equal; lia).
        assert (E3 : 10 ^ (- k) = 10 * 10 ^ (- (k + 1))) by (rewrite <- Z.pow_succ_r by lia; f_equal; lia).
        pose proof (pow_pos_b 2 nb ltac:(lia) Hnb) as PA. pose proof (pow_pos_b 10 (- (k + 1)) ltac:(lia) ltac:(lia)) as PT.
        set (A := 2 ^ nb) in *. set (Q := 2 ^ (- ex)) in *. set (S := 2 ^ (- (nb + ex))) in *. set (T := 10 ^ (- (k + 1))) in *.
        rewrite E3, E2.
        assert (v * T <= A * T) by (apply Z.mul_le_mono_nonneg_r; lia).
        assert (A * T < A * S) by (apply Z.mul_lt_mono_pos_l; lia). nia.
Qed.

(** ** all digits of the shortest representation of a valid binary64 are decimal digits *)
Theorem format_shortest_le9 m e : bounded Float64.prec Float64.emax m e = true ->
  let '(ds, _) := format_shortest m e in le9 ds.
Proof.
  intros Hb. destruct (bounded_range m e Hb) as [Hm53 He].
  unfold format_shortest.
  destruct (decode m e) as [[[[mant minus] plus] exp] inclusive] eqn:Ed.
  assert (Hdec : 0 < mant /\ 0 < plus /\ mant + plus < 2 ^ 56 /\ e - 2 <= exp <= e - 1).
  { unfold decode in Ed. destruct (Z.pos m <? 2 ^ 52); [injection Ed as <- _ <- <- _; lia|].
    destruct (Z.pos m =? 2 ^ 52); injection Ed as <- _ <- <- _; lia. }
  destruct Hdec as (Hm & Hp & Hmp & Hexp).
  set (v := mant + plus) in *.
  assert (Hnb : -1100 <= (if v - 1 =? 0 then 0 else Z.log2 (v - 1) + 1) + exp <= 1100).
  { destruct (v - 1 =? 0); [lia|]. assert (Z.log2 (v - 1) < 56) by (apply Z.log2_lt_pow2; lia). pose proof (Z.log2_nonneg (v - 1)). lia. }
  pose proof (scaled_below v exp ltac:(lia) Hnb) as SB. cbv zeta in SB.
  set (k := estimate_scaling_factor v exp) in *.
  (* follow the scaling *)
  assert (Q : exists mant2 minus2 plus2 scale2,
    (let '(mant1, minus1, plus1, scale1) :=
       if exp <? 0 then (mant, minus, plus, 2 ^ (- exp)) else (mant * 2 ^ exp, minus * 2 ^ exp, plus * 2 ^ exp, 1) in
     if 0 <=? k then (mant1, minus1, plus1, scale1 * 10 ^ k) else (mant1 * 10 ^ (- k), minus1 * 10 ^ (- k), plus1 * 10 ^ (- k), scale1))
    = (mant2, minus2, plus2, scale2) /\ 0 < mant2 /\ 0 < plus2 /\ 0 < scale2 /\ mant2 + plus2 < 10 * scale2).
  { destruct (exp <? 0) eqn:Ee; [apply Z.ltb_lt in Ee|apply Z.ltb_ge in Ee].
    - assert (E0 : (0 <=? exp) = false) by (apply Z.leb_gt; lia). rewrite E0 in SB.
      pose proof (pow_pos_b 2 (- exp) ltac:(lia) ltac:(lia)) as P2.
      destruct (0 <=? k) eqn:Ek; [apply Z.leb_le in Ek|apply Z.leb_gt in Ek].
      + pose proof (pow_pos_b 10 k ltac:(lia) Ek). eexists _, _, _, _. split; [reflexivity|]. unfold v in SB. nia.
      + pose proof (pow_pos_b 10 (- k) ltac:(lia) ltac:(lia)). eexists _, _, _, _. split; [reflexivity|]. unfold v in SB. nia.
    - assert (E0 : (0 <=? exp) = true) by (apply Z.leb_le; lia). rewrite E0 in SB.
      pose proof (pow_pos_b 2 exp ltac:(lia) Ee) as P2.
      destruct (0 <=? k) eqn:Ek; [apply Z.leb_le in Ek|apply Z.leb_gt in Ek].
      + pose proof (pow_pos_b 10 k ltac:(lia) Ek). eexists _, _, _, _. split; [reflexivity|]. unfold v in SB. nia.
      + pose proof (pow_pos_b 10 (- k) ltac:(lia) ltac:(lia)). eexists _, _, _, _. split; [reflexivity|]. unfold v in SB. nia. }
  destruct Q as (mant2 & minus2 & plus2 & scale2 & EQ & Hm2 & Hp2 & Hs2 & Hlt2).
  destruct (if exp <? 0 then (mant, minus, plus, 2 ^ (- exp)) else (mant * 2 ^ exp, minus * 2 ^ exp, plus * 2 ^ exp, 1)) as [[[mant1 minus1] plus1] scale1].
  rewrite EQ.
  (* the fix-up of the estimate *)
  assert (H3 : exists k3 mant3 minus3 plus3,
    (if lt_rounding inclusive scale2 (mant2 + plus2) then (k + 1, mant2, minus2, plus2) else (k, mant2 * 10, minus2 * 10, plus2 * 10)) = (k3, mant3, minus3, plus3) /\
    0 <= mant3 /\ mant3 < 10 * scale2).
  { destruct (lt_rounding inclusive scale2 (mant2 + plus2)) eqn:El.
    - eexists _, _, _, _. split; [reflexivity|]. lia.
    - eexists _, _, _, _. split; [reflexivity|]. unfold lt_rounding in El.
      destruct inclusive; [apply Z.leb_gt in El|apply Z.ltb_ge in El]; lia. }
  destruct H3 as (k3 & mant3 & minus3 & plus3 & E3 & Hm3 & Hlt3). rewrite E3.
  pose proof (gen_digits_le9 40 inclusive mant3 minus3 plus3 scale2 [] Hm3 Hs2 Hlt3 ltac:(constructor)) as G.
  destruct (gen_digits 40 inclusive mant3 minus3 plus3 scale2 []) as [[[acc mant4] down] up].
  destruct (up && (negb down || (scale2 <=? mant4 * 2))); [|apply Forall_rev; exact G].
  pose proof (round_up_rev_le9 acc G) as R. destruct (round_up_rev acc) as [acc' carry].
  destruct carry; [constructor; [lia|apply Forall_rev; exact R]|apply Forall_rev; exact R].
Qed.

(** ** every finite double prints *)
Lemma digit_char_mapped d : 0 <= d <= 9 -> mapped (digit_char d) = true.
Proof.
  intros H. assert (d = 0 \/ d = 1 \/ d = 2 \/ d = 3 \/ d = 4 \/ d = 5 \/ d = 6 \/ d = 7 \/ d = 8 \/ d = 9) by lia.
  repeat (destruct H0 as [->|H0]; [reflexivity|]). subst d. reflexivity.
Qed.

Theorem finite_numbers_are_printable sg m e : bounded Float64.prec Float64.emax m e = true ->
  exists s, to_bn_num (S754_finite sg m e) = Some s.
Proof.
  intros Hb. unfold to_bn_num. fold mapped.
  assert (Hall : forallb mapped (f64_to_string (S754_finite sg m e)) = true).
  { cbn [f64_to_string]. pose proof (format_shortest_le9 m e Hb) as L. destruct (format_shortest m e) as [ds k].
    apply forallb_forall. intros c Hc. apply in_app_or in Hc as [Hc|Hc].
    - destruct sg; [destruct Hc as [<-|[]]; reflexivity|destruct Hc].
    - assert (Hcs : forall c0, In c0 (map digit_char ds) -> mapped c0 = true).
      { intros c0 H0. apply in_map_iff in H0 as (d & <- & Hd). unfold le9 in L. rewrite Forall_forall in L. apply digit_char_mapped, L, Hd. }
      assert (Hz : forall n c0, In c0 (zeros n) -> mapped c0 = true) by (intros n c0 H0; apply repeat_spec in H0; subst c0; reflexivity).
      unfold digits_to_dec_str in Hc. destruct (k <=? 0).
      + cbn [app In] in Hc. destruct Hc as [<-|[<-|Hc]]; try reflexivity. apply in_app_or in Hc as [Hc|Hc]; [eapply Hz; exact Hc|apply Hcs; exact Hc].
      + destruct (k <? Z.of_nat (length ds)).
        * apply in_app_or in Hc as [Hc|Hc]; [apply Hcs; eapply in_firstn_l; exact Hc|].
          destruct Hc as [<-|Hc]; [reflexivity|apply Hcs; eapply in_skipn_l; exact Hc].
        * apply in_app_or in Hc as [Hc|Hc]; [apply Hcs; exact Hc|eapply Hz; exact Hc]. }
  rewrite Hall. eauto.
Qed.

(** together with NumShape.v: a finite binary64 number prints, as plain decimal text that reads as a number *)
Theorem finite_numbers_print_as_plain_decimal sg m e : bounded Float64.prec Float64.emax m e = true ->
  exists s, to_bn_num (S754_finite sg m e) = Some s /\ plain_ascii (f64_to_string (S754_finite sg m e)) /\
            s = map_chars print_char_map (f64_to_string (S754_finite sg m e)) /\
            exists y, parse_f64 (map_chars builtins_bn_to_en s) = Some y.
Proof.
  intros Hb. destruct (finite_numbers_are_printable sg m e Hb) as [s Hs]. exists s. split; [exact Hs|].
  destruct (printable_is_plain _ _ Hs) as [P1 P2]. split; [exact P1|]. split; [exact P2|].
  exact (printed_text_reads_as_a_number _ _ Hs).
Qed.
