(** C06 at the level of whole index paths: after x[i1]..[in] = v,
    - reading ANY path that leads to the written container (the same path, or a path through any alias of any container
      on the way) and then the written index yields v,
    - reading any path that does not go through the written cell yields what it yielded before,
    for all heaps (cyclic and shared ones included), all roots, all depths.  The only paths excepted are those that pass
    through the written cell itself on their way (possible only in a cyclic structure, x[0] = x; x[0][0] = 5), and for
    those the example at the end shows that the exception is real. *)
From Pakhi Require Import Base Float64 Syntax Tables Lexer Interp.
From Pakhi.Proofs Require Import Assoc Alloc GCMark ListOps HeapRW Unfold.
From Coq Require Import Lia.
Local Open Scope nat_scope.

(* a cell of the heap: position i of list a, or key k of record a *)
Inductive cell := CL (a i : nat) | CR (a : nat) (k : text).

(* the write x[..] = v performs on the heap once the path is resolved *)
Definition write (h : heap) (w : cell) (v : value) : heap :=
  match w with
  | CL a i => match nth_error (h_lists h) a with Some l => put_list h a (list_set l i v) | None => h end
  | CR a k => match nth_error (h_recs h) a with Some r => put_rec h a (alist_set k v r) | None => h end
  end.

(* reading [path] from [c] never reads cell [w] *)
Fixpoint avoids (h : heap) (w : cell) (c : value) (path : list index) : Prop :=
  match path with
  | [] => True
  | ix :: rest =>
    match c, ix with
    | VList b, IxNum x =>
        match nth_error (h_lists h) b with
        | Some l => match valid_index x (length l) with
                    | Some j => CL b j <> w /\ avoids h w (nth j l VNil) rest
                    | None => True
                    end
        | None => True
        end
    | VRec b, IxKey k =>
        match nth_error (h_recs h) b with
        | Some r => CR b k <> w /\ match alist_get k r with Some v => avoids h w v rest | None => True end
        | None => True
        end
    | _, _ => True
    end
  end.

Lemma resolve_app h : forall q c r, resolve h c (q ++ r) = match resolve h c q with Some t => resolve h t r | None => None end.
Proof.
  induction q as [|ix q IH]; intros c r; [reflexivity|].
  cbn [app resolve]. destruct c; try reflexivity; destruct ix; try reflexivity.
  - destruct (nth_error (h_lists h) a) as [l|]; [|reflexivity].
    destruct (valid_index x (length l)) as [j|]; [|reflexivity]. apply IH.
  - destruct (nth_error (h_recs h) a) as [r0|]; [|reflexivity].
    destruct (alist_get k r0) as [v0|]; [|reflexivity]. apply IH.
Qed.

(** every path that does not read the written cell reads what it read before *)
Theorem untouched_paths_read_the_same h w v : forall q c, avoids h w c q -> resolve (write h w v) c q = resolve h c q.
Proof.
  induction q as [|ix q IH]; intros c Ha; [reflexivity|].
  cbn [resolve avoids] in *. destruct c; try reflexivity; destruct ix; try reflexivity.
  - (* list a, number x *)
    destruct (nth_error (h_lists h) a) as [l|] eqn:El.
    + destruct (valid_index x (length l)) as [j|] eqn:Ev.
      * destruct Ha as [Hne Ha].
        destruct w as [a0 i0|a0 k0]; cbn [write].
        -- destruct (nth_error (h_lists h) a0) as [l0|] eqn:E0.
           ++ cbn [put_list h_lists]. destruct (Nat.eq_dec a0 a) as [->|Hn].
              ** rewrite nth_error_list_set_same by (apply nth_error_Some; congruence).
                 rewrite E0 in El. injection El as ->. rewrite list_set_length, Ev.
                 rewrite nth_list_set_neq by (intros ->; apply Hne; reflexivity).
                 specialize (IH _ Ha). cbn [write] in IH. rewrite E0 in IH. exact IH.
              ** rewrite nth_error_list_set_other by exact Hn. rewrite El, Ev.
                 specialize (IH _ Ha). cbn [write] in IH. rewrite E0 in IH. exact IH.
           ++ rewrite El, Ev. specialize (IH _ Ha). cbn [write] in IH. rewrite E0 in IH. exact IH.
        -- destruct (nth_error (h_recs h) a0) as [r0|] eqn:E0.
           ++ cbn [put_rec h_lists]. rewrite El, Ev. specialize (IH _ Ha). cbn [write] in IH. rewrite E0 in IH. exact IH.
           ++ rewrite El, Ev. specialize (IH _ Ha). cbn [write] in IH. rewrite E0 in IH. exact IH.
      * (* invalid index before: invalid after (the length of every list is unchanged) *)
        destruct w as [a0 i0|a0 k0]; cbn [write].
        -- destruct (nth_error (h_lists h) a0) as [l0|] eqn:E0; [|rewrite El, Ev; reflexivity].
           cbn [put_list h_lists]. destruct (Nat.eq_dec a0 a) as [->|Hn].
           ++ rewrite nth_error_list_set_same by (apply nth_error_Some; congruence).
              rewrite E0 in El. injection El as ->. rewrite list_set_length, Ev. reflexivity.
           ++ rewrite nth_error_list_set_other by exact Hn. rewrite El, Ev. reflexivity.
        -- destruct (nth_error (h_recs h) a0) as [r0|]; cbn [put_rec h_lists]; rewrite El, Ev; reflexivity.
    + destruct w as [a0 i0|a0 k0]; cbn [write].
      * destruct (nth_error (h_lists h) a0) as [l0|] eqn:E0; [|rewrite El; reflexivity].
        cbn [put_list h_lists]. destruct (Nat.eq_dec a0 a) as [->|Hn]; [congruence|].
        rewrite nth_error_list_set_other by exact Hn. rewrite El. reflexivity.
      * destruct (nth_error (h_recs h) a0) as [r0|]; cbn [put_rec h_lists]; rewrite El; reflexivity.
  - (* record a, key k *)
    destruct (nth_error (h_recs h) a) as [r|] eqn:Er.
    + destruct Ha as [Hne Ha].
      destruct w as [a0 i0|a0 k0]; cbn [write].
      * destruct (nth_error (h_lists h) a0) as [l0|] eqn:E0.
        -- cbn [put_list h_recs]. rewrite Er. destruct (alist_get k r) as [v0|]; [|reflexivity].
           specialize (IH _ Ha). cbn [write] in IH. rewrite E0 in IH. exact IH.
        -- rewrite Er. destruct (alist_get k r) as [v0|]; [|reflexivity].
           specialize (IH _ Ha). cbn [write] in IH. rewrite E0 in IH. exact IH.
      * destruct (nth_error (h_recs h) a0) as [r0|] eqn:E0.
        -- cbn [put_rec h_recs]. destruct (Nat.eq_dec a0 a) as [->|Hn].
           ++ rewrite nth_error_list_set_same by (apply nth_error_Some; congruence).
              rewrite E0 in Er. injection Er as ->.
              rewrite alist_get_set_other by (intros ->; apply Hne; reflexivity).
              destruct (alist_get k r) as [v0|]; [|reflexivity].
              specialize (IH _ Ha). cbn [write] in IH. rewrite E0 in IH. exact IH.
           ++ rewrite nth_error_list_set_other by exact Hn. rewrite Er.
              destruct (alist_get k r) as [v0|]; [|reflexivity].
              specialize (IH _ Ha). cbn [write] in IH. rewrite E0 in IH. exact IH.
        -- rewrite Er. destruct (alist_get k r) as [v0|]; [|reflexivity].
           specialize (IH _ Ha). cbn [write] in IH. rewrite E0 in IH. exact IH.
    + destruct w as [a0 i0|a0 k0]; cbn [write].
      * destruct (nth_error (h_lists h) a0) as [l0|]; cbn [put_list h_recs]; rewrite Er; reflexivity.
      * destruct (nth_error (h_recs h) a0) as [r0|] eqn:E0; [|rewrite Er; reflexivity].
        cbn [put_rec h_recs]. destruct (Nat.eq_dec a0 a) as [->|Hn]; [congruence|].
        rewrite nth_error_list_set_other by exact Hn. rewrite Er. reflexivity.
Qed.

(* the index that selects cell w in its container *)
Definition selects (h : heap) (w : cell) (t : value) (ix : index) : Prop :=
  match w, t, ix with
  | CL a i, VList b, IxNum x => b = a /\ exists l, nth_error (h_lists h) a = Some l /\ valid_index x (length l) = Some i
  | CR a k, VRec b, IxKey k' => b = a /\ k' = k /\ exists r, nth_error (h_recs h) a = Some r
  | _, _, _ => False
  end.

(** reading the written cell through ANY path that leads to its container yields the written value *)
Theorem written_cell_reads_v h w v t ix : selects h w t ix ->
  forall c q, resolve h c q = Some t -> avoids h w c q -> resolve (write h w v) c (q ++ [ix]) = Some v.
Proof.
  intros Hs c q Hr Ha. rewrite resolve_app. rewrite (untouched_paths_read_the_same h w v q c Ha), Hr.
  destruct w as [a i|a k]; destruct t; try contradiction; destruct ix; try contradiction; cbn [selects] in Hs.
  - destruct Hs as (-> & l & El & Ev). cbn [write resolve]. rewrite El. cbn [put_list h_lists].
    assert (La : a < length (h_lists h)) by (apply nth_error_Some; congruence).
    rewrite nth_error_list_set_same by exact La. rewrite list_set_length, Ev.
    rewrite nth_list_set_eq; [reflexivity|]. apply (valid_index_spec x). exact Ev.
  - destruct Hs as (-> & -> & r & Er). cbn [write resolve]. rewrite Er. cbn [put_rec h_recs].
    assert (La : a < length (h_recs h)) by (apply nth_error_Some; congruence).
    rewrite nth_error_list_set_same by exact La. rewrite alist_get_set_same. reflexivity.
Qed.

(** the indexed assignment of the model is such a write *)
Theorem indexed_assignment_is_a_cell_write : forall pre m c ix v p m',
  assign_path m c (pre ++ [ix]) v p = Ok m' ->
  exists t w, resolve (m_heap m) c pre = Some t /\ selects (m_heap m) w t ix /\ m' = set_heap m (write (m_heap m) w v).
Proof.
  intros pre m c ix v p m' H. apply assign_path_spec in H. destruct H as (t & Hr & Ht).
  exists t. destruct t; try contradiction; destruct ix; try contradiction.
  - destruct Ht as (l & i & El & Ev & ->). exists (CL a i). split; [exact Hr|]. split.
    + cbn [selects]. split; [reflexivity|]. exists l. auto.
    + cbn [write]. rewrite El. reflexivity.
  - destruct Ht as (r & Er & ->). exists (CR a k). split; [exact Hr|]. split.
    + cbn [selects]. split; [reflexivity|]. split; [reflexivity|]. exists r. exact Er.
    + cbn [write]. rewrite Er. reflexivity.
Qed.

(** x[i1]..[in] = v, then read: through the same path, through every alias, and everywhere else *)
Theorem write_then_read_any_path : forall pre m c ix v p m',
  assign_path m c (pre ++ [ix]) v p = Ok m' ->
  exists t w, resolve (m_heap m) c pre = Some t /\
    (* any path from any root to the written container, then the written index: v *)
    (forall c2 q, resolve (m_heap m) c2 q = Some t -> avoids (m_heap m) w c2 q -> resolve (m_heap m') c2 (q ++ [ix]) = Some v) /\
    (* any path from any root that does not read the written cell: as before *)
    (forall c2 q, avoids (m_heap m) w c2 q -> resolve (m_heap m') c2 q = resolve (m_heap m) c2 q) /\
    (* nothing but the heap changes *)
    same_but_heap m m'.
Proof.
  intros pre m c ix v p m' H. destruct (indexed_assignment_is_a_cell_write _ _ _ _ _ _ _ H) as (t & w & Hr & Hs & ->).
  exists t, w. split; [exact Hr|]. split; [|split].
  - intros c2 q H2 Ha. cbn [m_heap set_heap]. apply (written_cell_reads_v _ _ _ _ _ Hs _ _ H2 Ha).
  - intros c2 q Ha. cbn [m_heap set_heap]. apply untouched_paths_read_the_same. exact Ha.
  - unfold same_but_heap. cbn. auto 10.
Qed.

(* the excepted paths are really excepted: in a list that contains itself, x[0][0] = 5 replaces x[0], so reading x[0][0]
   afterwards indexes the number 5 *)
Example path_through_the_written_cell :
  let h := mkHeap [[VList 0; VBool true]] [] [] [] 1 in
  let five := VStr [53%N] in
  resolve h (VList 0) [IxNum f_zero] = Some (VList 0) /\
  ~ avoids h (CL 0 0) (VList 0) [IxNum f_zero] /\
  resolve (write h (CL 0 0) five) (VList 0) [IxNum f_zero; IxNum f_zero] = None /\
  resolve (write h (CL 0 0) five) (VList 0) [IxNum f_zero] = Some five.
Proof. vm_compute. repeat split; try reflexivity. intros [H _]. apply H. reflexivity. Qed.

(** the read side: the expression x[i1]..[in] reads exactly the path [resolve] follows.  Stated for index expressions
    that evaluate without changing the state at every fuel (literals and variables do); the general expression is
    covered by the evaluator itself, whose EIndex case is the single step below. *)
Section Read.
Variable code : list fstmt.

Definition index_value (ix : index) : value := match ix with IxNum x => VNum x | IxKey k => VStr k end.
Definition index_chain (b : expr) (is : list (expr * pos)) : expr := fold_left (fun e ip => EIndex e (fst ip) (snd ip)) is b.

Definition stable (e : expr) (m : machine) (v : value) : Prop := forall fuel, eval code (S fuel) e m = Ok (v, m).

Theorem index_chain_reads_the_path : forall is path b m c t,
  stable b m c -> Forall2 (fun ip ix => stable (fst ip) m (index_value ix)) is path ->
  resolve (m_heap m) c path = Some t ->
  forall fuel, eval code (S (length is + fuel)) (index_chain b is) m = Ok (t, m).
Proof.
  induction is as [|ip is IH] using rev_ind; intros path b m c t Hb Hf Hr fuel.
  - inversion Hf; subst. cbn in Hr. injection Hr as <-. apply Hb.
  - apply Forall2_app_inv_l in Hf. destruct Hf as (p1 & p2 & Hf1 & Hf2 & ->).
    inversion Hf2 as [|? ix ? ? Hi Hnil]; subst. inversion Hnil; subst.
    rewrite resolve_app in Hr. destruct (resolve (m_heap m) c p1) as [t1|] eqn:E1; [|discriminate].
    unfold index_chain. rewrite fold_left_app. cbn [fold_left]. fold (index_chain b is).
    rewrite app_length. cbn [length]. replace (S (length is + 1 + fuel)) with (S (S (length is + fuel))) by lia.
    rewrite eval_S. unfold eval_step.
    rewrite (IH p1 b m c t1 Hb Hf1 E1 fuel). cbn [bind].
    replace (S (length is + fuel)) with (S (length is + fuel)) by reflexivity.
    rewrite (Hi (length is + fuel)). cbn [bind].
    cbn [resolve] in Hr. destruct t1; try discriminate; destruct ix; try discriminate; cbn [index_value].
    + unfold get_list. destruct (nth_error (h_lists (m_heap m)) a) as [l|]; [|discriminate]. cbn [bind].
      destruct (valid_index x (length l)) as [j|]; [|discriminate]. injection Hr as <-. reflexivity.
    + unfold get_rec. destruct (nth_error (h_recs (m_heap m)) a) as [r|]; [|discriminate]. cbn [bind].
      destruct (alist_get k r) as [v0|]; [|discriminate]. injection Hr as <-. reflexivity.
Qed.

(* literals and variables are stable index expressions *)
Lemma num_literal_stable x p m : stable (ENum x p) m (VNum x).
Proof. intros fuel. rewrite eval_S. reflexivity. Qed.
Lemma str_literal_stable s p m : stable (EStr s p) m (VStr s).
Proof. intros fuel. rewrite eval_S. reflexivity. Qed.
Lemma variable_stable x p m v : lookup_var x (m_scopes m) = Some v -> stable (EVar x p) m v.
Proof. intros H fuel. rewrite eval_S. unfold eval_step. rewrite H. reflexivity. Qed.
End Read.

(** the statement x[i1]..[in] = e as a whole: evaluate e, evaluate the indexes, follow all but the last through the heap
    as it is then, write the one cell, go on to the next statement *)
Section Statement.
Variable code : list fstmt.

Lemma eval_indexes_nonempty (ev : expr -> machine -> outcome (value * machine)) : forall is m path m2,
  eval_indexes ev is m = Ok (path, m2) -> is <> [] -> path <> [].
Proof.
  intros is m path m2 H Hne. destruct is as [|i r]; [congruence|]. cbn [eval_indexes] in H.
  destruct (ev i m) as [[iv m1]| | |]; try discriminate. cbn [bind] in H.
  destruct iv; try discriminate.
  unfold get_list in H. destruct (nth_error (h_lists (m_heap m1)) a) as [l|]; try discriminate. cbn [bind] in H.
  destruct l as [|[] ?]; try discriminate;
    destruct (eval_indexes ev r m1) as [[p m3]| | |]; try discriminate; cbn [bind] in H; inversion H; subst; discriminate.
Qed.

Theorem indexed_assignment_statement : forall fuel m x xp i0 idx e p m',
  stmt_at code (m_pc m) = Some (FAssign AReassign x xp (i0 :: idx) (Some e) p) ->
  interp code (S fuel) m = Ok m' ->
  exists v m1 c pre ix m2 t w,
    eval code fuel e m = Ok (v, m1) /\ lookup_var x (m_scopes m1) <> None /\
    eval_indexes (eval code fuel) (i0 :: idx) m1 = Ok (pre ++ [ix], m2) /\
    (* the container is the one x denotes AFTER the index expressions have been evaluated *)
    lookup_var x (m_scopes m2) = Some c /\
    resolve (m_heap m2) c pre = Some t /\ selects (m_heap m2) w t ix /\
    m' = next (set_heap m2 (write (m_heap m2) w v)).
Proof.
  intros fuel m x xp i0 idx e p m' Hs H. rewrite interp_S in H. unfold interp_step in H. rewrite Hs in H.
  destruct (eval code fuel e m) as [[v m1]| | |] eqn:Ee; try discriminate. cbn [bind] in H.
  destruct (lookup_var x (m_scopes m1)) as [c0|] eqn:El; [|unfold rt_err, fail_here, unexpected_at in H; destruct (stmt_at code (m_pc m1)); discriminate].
  destruct (eval_indexes (eval code fuel) (i0 :: idx) m1) as [[path m2]| | |] eqn:Ei; try discriminate. cbn [bind] in H.
  destruct (here code m2) as [p2| | |]; try discriminate. cbn [bind] in H.
  destruct (lookup_var x (m_scopes m2)) as [c|] eqn:El2; [|discriminate].
  destruct (assign_path m2 c path v p2) as [m3| | |] eqn:Ea; try discriminate. cbn [bind] in H. injection H as <-.
  assert (Hne : path <> []) by (eapply eval_indexes_nonempty; [exact Ei|discriminate]).
  destruct (exists_last Hne) as (pre & ix & ->).
  destruct (indexed_assignment_is_a_cell_write _ _ _ _ _ _ _ Ea) as (t & w & Hr & Hsel & ->).
  exists v, m1, c, pre, ix, m2, t, w. repeat split; auto. congruence.
Qed.
End Statement.
