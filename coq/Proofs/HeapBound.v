(** C08: the heap stays bounded.  Allocation accounting through every expression, built-in, statement and call
    ([hstep], via the frame theorem of HeapPre.v): the free lists only shrink (from the front), an arena grows only after
    its free list has run empty, and every slot taken or added is paid for by at least one unit of the allocation counter.
    A collection leaves at most as many occupied slots as there are reachable containers.  Together: at every statement
    boundary of a run under the interpreter's own trigger the arenas are no longer than
    max (initial length, R + threshold + A), where R bounds the containers reachable at boundaries and A the allocation of
    one top-level statement -- whatever the number of statements executed (loop iterations included). *)
From Pakhi Require Import Base Float64 Syntax Tables Lexer Interp.
From Pakhi.Proofs Require Import Unfold GCMark GCSweep Alloc WF WFOps NoPanic SimDefs HeapPre GCInvisible.
From Coq Require Import Lia.
Local Open Scope nat_scope.

Definition hstep (h h' : heap) : Prop :=
  exists pl pr, h_free_lists h = pl ++ h_free_lists h' /\ h_free_recs h = pr ++ h_free_recs h' /\
  length (h_lists h) <= length (h_lists h') /\ length (h_recs h) <= length (h_recs h') /\
  length (h_lists h') + length pl + length (h_recs h') + length pr + h_alloc h <= h_alloc h' + length (h_lists h) + length (h_recs h) /\
  (length (h_lists h) < length (h_lists h') -> h_free_lists h' = []) /\
  (length (h_recs h) < length (h_recs h') -> h_free_recs h' = []).

Ltac hstep_tac w1 w2 := unfold hstep; exists w1, w2; simpl;
  split; [reflexivity|]; split; [reflexivity|]; split; [lia|]; split; [lia|]; split; [lia|]; split; intros; try lia; try reflexivity.
Lemma hstep_refl h : hstep h h.
Proof. hstep_tac (@nil nat) (@nil nat). Qed.

Lemma app_nil_suffix {A} (p l : list A) : [] = p ++ l -> l = [].
Proof. destruct p; simpl; intros H; [auto|discriminate]. Qed.

Lemma hstep_trans a b c : hstep a b -> hstep b c -> hstep a c.
Proof.
  intros (p1 & q1 & E1 & F1 & L1 & R1 & C1 & G1 & K1) (p2 & q2 & E2 & F2 & L2 & R2 & C2 & G2 & K2).
  exists (p1 ++ p2), (q1 ++ q2). rewrite !app_length.
  split; [rewrite E1, E2, app_assoc; reflexivity|].
  split; [rewrite F1, F2, app_assoc; reflexivity|].
  split; [lia|]. split; [lia|]. split; [lia|]. split.
  - intros H. destruct (Nat.lt_ge_cases (length (h_lists b)) (length (h_lists c))) as [Hlt|Hge]; [auto|].
    assert (Hb : h_free_lists b = []) by (apply G1; lia). rewrite Hb in E2. apply app_nil_suffix in E2. exact E2.
  - intros H. destruct (Nat.lt_ge_cases (length (h_recs b)) (length (h_recs c))) as [Hlt|Hge]; [auto|].
    assert (Hb : h_free_recs b = []) by (apply K1; lia). rewrite Hb in F2. apply app_nil_suffix in F2. exact F2.
Qed.

Lemma hstep_alloc_list h l : hstep h (snd (alloc_list h l)).
Proof.
  unfold alloc_list. destruct (h_free_lists h) as [|a fr] eqn:E.
  - unfold hstep. exists [], []. simpl. rewrite E, app_length. simpl.
    split; [reflexivity|]. split; [reflexivity|]. split; [lia|]. split; [lia|]. split; [lia|]. split; intros; try lia; reflexivity.
  - unfold hstep. exists [a], []. simpl. rewrite E, list_set_length'. simpl.
    split; [reflexivity|]. split; [reflexivity|]. split; [lia|]. split; [lia|]. split; [lia|]. split; intros; lia.
Qed.
Lemma hstep_alloc_rec h l : hstep h (snd (alloc_rec h l)).
Proof.
  unfold alloc_rec. destruct (h_free_recs h) as [|a fr] eqn:E.
  - unfold hstep. exists [], []. simpl. rewrite E, app_length. simpl.
    split; [reflexivity|]. split; [reflexivity|]. split; [lia|]. split; [lia|]. split; [lia|]. split; intros; try lia; reflexivity.
  - unfold hstep. exists [], [a]. simpl. rewrite E, list_set_length'. simpl.
    split; [reflexivity|]. split; [reflexivity|]. split; [lia|]. split; [lia|]. split; [lia|]. split; intros; lia.
Qed.
Lemma hstep_put_list h a l : hstep h (put_list h a l).
Proof. unfold put_list. unfold hstep. exists [], []. simpl. rewrite list_set_length'.
  split; [reflexivity|]. split; [reflexivity|]. split; [lia|]. split; [lia|]. split; [lia|]. split; intros; lia. Qed.
Lemma hstep_put_rec h a l : hstep h (put_rec h a l).
Proof. unfold put_rec. unfold hstep. exists [], []. simpl. rewrite list_set_length'.
  split; [reflexivity|]. split; [reflexivity|]. split; [lia|]. split; [lia|]. split; [lia|]. split; intros; lia. Qed.

(** every statement -- calls of any depth included -- is one [hstep] *)
Theorem interp_hstep code fuel m m' : interp code fuel m = Ok m' -> hstep (m_heap m) (m_heap m').
Proof.
  apply (interp_heap_pre hstep hstep_refl hstep_trans hstep_alloc_list hstep_alloc_rec hstep_put_list hstep_put_rec).
Qed.
Theorem eval_hstep code fuel e m v m' : eval code fuel e m = Ok (v, m') -> hstep (m_heap m) (m_heap m').
Proof.
  intros H. destruct (heap_pre_fuel hstep hstep_refl hstep_trans hstep_alloc_list hstep_alloc_rec hstep_put_list hstep_put_rec code fuel) as (He & _ & _).
  specialize (He e m). rewrite H in He. exact He.
Qed.

(** ** after a collection: occupied slots are reachable slots *)
Lemma filter_notin_count (l : list nat) n :
  n <= length (filter (fun a => negb (existsb (Nat.eqb a) l)) (seq 0 n)) + length l.
Proof.
  assert (P : forall (f : nat -> bool) (s : list nat), length s = length (filter f s) + length (filter (fun a => negb (f a)) s)).
  { intros f s. induction s as [|x s IH]; simpl; auto. destruct (f x); simpl; lia. }
  pose proof (P (fun a => existsb (Nat.eqb a) l) (seq 0 n)) as H. rewrite seq_length in H.
  assert (K : length (filter (fun a => existsb (Nat.eqb a) l) (seq 0 n)) <= length l).
  { apply NoDup_incl_length; [apply NoDup_filter, seq_NoDup|].
    intros x Hx. apply filter_In in Hx as [_ Hx]. apply existsb_exists in Hx as (y & Hy & Hxy). apply Nat.eqb_eq in Hxy. subst. exact Hy. }
  lia.
Qed.

Theorem collect_occupied_le_live_lists h ss h' live : wf_heap h -> wf_scopes h ss -> collect ss h = Ok h' ->
  (forall a, reach h (is_root ss) (NL a) -> In a live) ->
  length (h_lists h') - length (h_free_lists h') <= length live.
Proof.
  intros Wh Ws Hc Hl. destruct (collect_correct h ss Wh Ws) as (h2 & E & P). rewrite E in Hc. injection Hc as <-.
  set (occ := filter (fun a => negb (existsb (Nat.eqb a) (h_free_lists h2))) (seq 0 (length (h_lists h2)))).
  pose proof (filter_notin_count (h_free_lists h2) (length (h_lists h2))) as Hcount. fold occ in Hcount.
  assert (K : length occ <= length live).
  { apply NoDup_incl_length; [apply NoDup_filter, seq_NoDup|].
    intros a Ha. apply filter_In in Ha as [Hr Hn]. apply in_seq in Hr. apply Hl.
    destruct (gc_mark_correct h ss Wh Ws) as (mk & _ & _ & Hm).
    destruct (marked mk (NL a)) eqn:Hmk; [apply Hm; exact Hmk|]. exfalso.
    assert (Hnr : ~ reach h (is_root ss) (NL a)) by (intros Hre; apply Hm in Hre; congruence).
    rewrite (cp_len_lists _ _ _ P) in Hr.
    destruct (cp_free_list _ _ _ P a (proj2 Hr) Hnr) as [_ Hin].
    apply Bool.negb_true_iff in Hn. assert (existsb (Nat.eqb a) (h_free_lists h2) = true); [|congruence].
    apply existsb_exists. exists a. split; [exact Hin|apply Nat.eqb_refl]. }
  lia.
Qed.

Theorem collect_occupied_le_live_recs h ss h' live : wf_heap h -> wf_scopes h ss -> collect ss h = Ok h' ->
  (forall a, reach h (is_root ss) (NR a) -> In a live) ->
  length (h_recs h') - length (h_free_recs h') <= length live.
Proof.
  intros Wh Ws Hc Hl. destruct (collect_correct h ss Wh Ws) as (h2 & E & P). rewrite E in Hc. injection Hc as <-.
  set (occ := filter (fun a => negb (existsb (Nat.eqb a) (h_free_recs h2))) (seq 0 (length (h_recs h2)))).
  pose proof (filter_notin_count (h_free_recs h2) (length (h_recs h2))) as Hcount. fold occ in Hcount.
  assert (K : length occ <= length live).
  { apply NoDup_incl_length; [apply NoDup_filter, seq_NoDup|].
    intros a Ha. apply filter_In in Ha as [Hr Hn]. apply in_seq in Hr. apply Hl.
    destruct (gc_mark_correct h ss Wh Ws) as (mk & _ & _ & Hm).
    destruct (marked mk (NR a)) eqn:Hmk; [apply Hm; exact Hmk|]. exfalso.
    assert (Hnr : ~ reach h (is_root ss) (NR a)) by (intros Hre; apply Hm in Hre; congruence).
    rewrite (cp_len_recs _ _ _ P) in Hr.
    destruct (cp_free_rec _ _ _ P a (proj2 Hr) Hnr) as [_ Hin].
    apply Bool.negb_true_iff in Hn. assert (existsb (Nat.eqb a) (h_free_recs h2) = true); [|congruence].
    apply existsb_exists. exists a. split; [exact Hin|apply Nat.eqb_refl]. }
  lia.
Qed.

(** ** the run: arenas bounded at every statement boundary *)
Section Bound.
Variable code : list fstmt.
Hypothesis Hcode : code_ok code.
Notation mwf := (mwf code).

(* the states at which [run] starts a statement (sched = None: the interpreter's own trigger) *)
Inductive tstate (m0 : machine) : machine -> Prop :=
| ts_init : tstate m0 m0
| ts_step m f b m1 m2 : tstate m0 m -> interp code f m = Ok m1 -> boundary None b m1 = Ok m2 -> tstate m0 m2.

Lemma boundary_mwf sched b m1 m2 : mwf m1 -> boundary sched b m1 = Ok m2 -> mwf m2.
Proof.
  intros W. unfold boundary. destruct (should_collect sched b m1).
  - pose proof (collect_ok code (m_scopes m1) (m_heap m1) (w_h code m1 W) (w_sc code m1 W)) as Ck.
    destruct (collect (m_scopes m1) (m_heap m1)) as [h'| | |]; try discriminate. simpl in Ck. destruct Ck as (K1 & K2 & K3 & K4).
    intros H. injection H as <-. apply mwf_reset; auto.
  - intros H. injection H as <-. destruct sched; [|exact W].
    destruct m1; simpl. apply (mwf_reset code _ _ _ W (w_h code _ W)). apply hle_refl.
Qed.

Lemma tstate_mwf m0 m : mwf m0 -> tstate m0 m -> mwf m.
Proof.
  intros W0 T. induction T as [|m f b m1 m2 T IH Hi Hb]; [exact W0|].
  destruct (interp_keeps_invariants code Hcode f m m1 IH Hi) as [W1 _]. eapply boundary_mwf; eauto.
Qed.

Definition live_lists_le (m : machine) (R : nat) : Prop :=
  exists live, length live <= R /\ forall a, reach (m_heap m) (is_root (m_scopes m)) (NL a) -> In a live.
Definition live_recs_le (m : machine) (R : nat) : Prop :=
  exists live, length live <= R /\ forall a, reach (m_heap m) (is_root (m_scopes m)) (NR a) -> In a live.

Lemma NoDup_app_r {A} (p l : list A) : NoDup (p ++ l) -> NoDup l.
Proof. induction p; simpl; auto. intros H. inversion H; auto. Qed.

Theorem list_arena_bounded m0 R A :
  mwf m0 -> NoDup (h_free_lists (m_heap m0)) -> h_alloc (m_heap m0) < gc_threshold ->
  length (h_lists (m_heap m0)) <= length (h_free_lists (m_heap m0)) + R + h_alloc (m_heap m0) ->
  (forall m f m1, tstate m0 m -> interp code f m = Ok m1 ->
                  h_alloc (m_heap m1) <= h_alloc (m_heap m) + A /\ live_lists_le m1 R) ->
  forall m, tstate m0 m ->
    length (h_lists (m_heap m)) <= Nat.max (length (h_lists (m_heap m0))) (R + gc_threshold + A).
Proof.
  intros W0 N0 A0 U0 Prof m T.
  set (B := Nat.max (length (h_lists (m_heap m0))) (R + gc_threshold + A)).
  assert (J : NoDup (h_free_lists (m_heap m)) /\ h_alloc (m_heap m) < gc_threshold /\
              length (h_lists (m_heap m)) <= length (h_free_lists (m_heap m)) + R + h_alloc (m_heap m) /\
              length (h_lists (m_heap m)) <= B).
  { induction T as [|m f b m1 m2 T IH Hi Hb].
    - repeat split; auto. unfold B. lia.
    - destruct IH as (Nd & Al & Us & Le).
      pose proof (tstate_mwf m0 m W0 T) as W.
      destruct (interp_keeps_invariants code Hcode f m m1 W Hi) as [W1 _].
      destruct (Prof m f m1 T Hi) as [HA (live & Hlive & Hreach)].
      destruct (interp_hstep code f m m1 Hi) as (pl & pr & E & F & L & Rr & C & G & K).
      assert (Nd1 : NoDup (h_free_lists (m_heap m1))) by (rewrite E in Nd; eapply NoDup_app_r; eauto).
      assert (Xl := f_equal (@length nat) E). rewrite app_length in Xl.
      assert (Us1 : length (h_lists (m_heap m1)) <= length (h_free_lists (m_heap m1)) + R + h_alloc (m_heap m1)) by lia.
      assert (Le1 : length (h_lists (m_heap m1)) <= B).
      { destruct (Nat.lt_ge_cases (length (h_lists (m_heap m))) (length (h_lists (m_heap m1)))) as [Hlt|Hge].
        - rewrite (G Hlt) in Us1. simpl in Us1. unfold B. lia.
        - lia. }
      unfold boundary in Hb. unfold should_collect in Hb.
      destruct (gc_threshold <=? h_alloc (m_heap m1)) eqn:Ht.
      + pose proof (hok_wf_heap code _ (w_h code m1 W1)) as Wh. pose proof (sok_wf_scopes code _ _ (w_sc code m1 W1)) as Ws.
        destruct (collect_correct _ _ Wh Ws) as (h' & Ec & P). rewrite Ec in Hb. injection Hb as <-. simpl.
        pose proof (collect_occupied_le_live_lists _ _ _ live Wh Ws Ec Hreach) as Occ.
        pose proof gc_threshold_positive as Tp.
        repeat split.
        * apply (cp_nodup_list _ _ _ P Nd1).
        * exact Tp.
        * lia.
        * rewrite (cp_len_lists _ _ _ P). exact Le1.
      + injection Hb as <-. apply Nat.leb_gt in Ht. repeat split; auto. }
  apply J.
Qed.
Theorem rec_arena_bounded m0 R A :
  mwf m0 -> NoDup (h_free_recs (m_heap m0)) -> h_alloc (m_heap m0) < gc_threshold ->
  length (h_recs (m_heap m0)) <= length (h_free_recs (m_heap m0)) + R + h_alloc (m_heap m0) ->
  (forall m f m1, tstate m0 m -> interp code f m = Ok m1 ->
                  h_alloc (m_heap m1) <= h_alloc (m_heap m) + A /\ live_recs_le m1 R) ->
  forall m, tstate m0 m ->
    length (h_recs (m_heap m)) <= Nat.max (length (h_recs (m_heap m0))) (R + gc_threshold + A).
Proof.
  intros W0 N0 A0 U0 Prof m T.
  set (B := Nat.max (length (h_recs (m_heap m0))) (R + gc_threshold + A)).
  assert (J : NoDup (h_free_recs (m_heap m)) /\ h_alloc (m_heap m) < gc_threshold /\
              length (h_recs (m_heap m)) <= length (h_free_recs (m_heap m)) + R + h_alloc (m_heap m) /\
              length (h_recs (m_heap m)) <= B).
  { induction T as [|m f b m1 m2 T IH Hi Hb].
    - repeat split; auto. unfold B. lia.
    - destruct IH as (Nd & Al & Us & Le).
      pose proof (tstate_mwf m0 m W0 T) as W.
      destruct (interp_keeps_invariants code Hcode f m m1 W Hi) as [W1 _].
      destruct (Prof m f m1 T Hi) as [HA (live & Hlive & Hreach)].
      destruct (interp_hstep code f m m1 Hi) as (pl & pr & E & F & L & Rr & C & G & K).
      assert (Nd1 : NoDup (h_free_recs (m_heap m1))) by (rewrite F in Nd; eapply NoDup_app_r; eauto).
      assert (Xl := f_equal (@length nat) F). rewrite app_length in Xl.
      assert (Us1 : length (h_recs (m_heap m1)) <= length (h_free_recs (m_heap m1)) + R + h_alloc (m_heap m1)) by lia.
      assert (Le1 : length (h_recs (m_heap m1)) <= B).
      { destruct (Nat.lt_ge_cases (length (h_recs (m_heap m))) (length (h_recs (m_heap m1)))) as [Hlt|Hge].
        - rewrite (K Hlt) in Us1. simpl in Us1. unfold B. lia.
        - lia. }
      unfold boundary in Hb. unfold should_collect in Hb.
      destruct (gc_threshold <=? h_alloc (m_heap m1)) eqn:Ht.
      + pose proof (hok_wf_heap code _ (w_h code m1 W1)) as Wh. pose proof (sok_wf_scopes code _ _ (w_sc code m1 W1)) as Ws.
        destruct (collect_correct _ _ Wh Ws) as (h' & Ec & P). rewrite Ec in Hb. injection Hb as <-. simpl.
        pose proof (collect_occupied_le_live_recs _ _ _ live Wh Ws Ec Hreach) as Occ.
        pose proof gc_threshold_positive as Tp.
        repeat split.
        * apply (cp_nodup_rec _ _ _ P Nd1).
        * exact Tp.
        * lia.
        * rewrite (cp_len_recs _ _ _ P). exact Le1.
      + injection Hb as <-. apply Nat.leb_gt in Ht. repeat split; auto. }
  apply J.
Qed.

Lemma boundary_total sched b m1 : mwf m1 -> exists m2, boundary sched b m1 = Ok m2.
Proof.
  intros W. unfold boundary. destruct (should_collect sched b m1); [|eexists; reflexivity].
  pose proof (hok_wf_heap code _ (w_h code m1 W)) as Wh. pose proof (sok_wf_scopes code _ _ (w_sc code m1 W)) as Ws.
  destruct (collect_correct _ _ Wh Ws) as (h' & Ec & P). rewrite Ec. eexists. reflexivity.
Qed.

(* every machine that [run] returns -- with whatever fuel it is cut off, so: every statement boundary of the run, and
   the state at which it stops -- is a [tstate] *)
Lemma run_tstate m0 : mwf m0 -> forall fuel b m, tstate m0 m -> tstate m0 (snd (run code fuel None b m)).
Proof.
  intros W0. induction fuel as [|f IH]; intros b m T; [exact T|].
  rewrite run_S. destruct (stmt_at code (m_pc m)) as [s|]; [|exact T].
  destruct (is_eos s); [exact T|].
  destruct (interp code f m) as [m1| | |] eqn:Hi; try exact T.
  pose proof (tstate_mwf m0 m W0 T) as W.
  destruct (interp_keeps_invariants code Hcode f m m1 W Hi) as [W1 _].
  destruct (boundary_total None b m1 W1) as (m2 & Hb). rewrite Hb. apply IH. eapply ts_step; eauto.
Qed.
End Bound.

(** The statement on [run] itself, from the initial machine: whatever the fuel at which the run is observed (that is, at
    every statement boundary, however many loop iterations have been executed), both arenas are within a bound that does
    not mention the fuel. *)
Theorem heap_bounded_run code platform w R A : code_ok code -> code <> [] ->
  (forall m f m1, tstate code (init_machine platform w) m -> interp code f m = Ok m1 ->
                  h_alloc (m_heap m1) <= h_alloc (m_heap m) + A /\ live_lists_le m1 R /\ live_recs_le m1 R) ->
  forall fuel, let m := snd (run code fuel None 0 (init_machine platform w)) in
    length (h_lists (m_heap m)) <= R + gc_threshold + A /\ length (h_recs (m_heap m)) <= R + gc_threshold + A.
Proof.
  intros Hc Hne Prof fuel m.
  pose proof (mwf_init code Hc platform w Hne) as W0.
  assert (T : tstate code (init_machine platform w) m) by (apply run_tstate; [exact Hc|exact W0|apply ts_init]).
  pose proof gc_threshold_positive as Tp.
  split.
  - change (R + gc_threshold + A) with (Nat.max (length (h_lists (m_heap (init_machine platform w)))) (R + gc_threshold + A)).
    apply (list_arena_bounded code Hc (init_machine platform w) R A W0); simpl; try lia; [constructor| |exact T].
    intros m' f m1 T' Hi. destruct (Prof m' f m1 T' Hi) as (P1 & P2 & P3). split; assumption.
  - change (R + gc_threshold + A) with (Nat.max (length (h_recs (m_heap (init_machine platform w)))) (R + gc_threshold + A)).
    apply (rec_arena_bounded code Hc (init_machine platform w) R A W0); simpl; try lia; [constructor| |exact T].
    intros m' f m1 T' Hi. destruct (Prof m' f m1 T' Hi) as (P1 & P2 & P3). split; assumption.
Qed.
