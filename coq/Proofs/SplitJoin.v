(** C17: split and join on code-point lists. *)
From Pakhi Require Import Base Float64 Syntax Tables Lexer Interp.
From Coq Require Import Lia.
Local Open Scope nat_scope.

Lemma starts_with_app s p : starts_with s p = true -> s = p ++ skipn (length p) s.
Proof.
  revert s; induction p as [|c p IH]; intros s H; simpl in *; auto.
  destruct s as [|d s]; [discriminate|]. apply andb_true_iff in H as [H1 H2]. apply N.eqb_eq in H1. subst d.
  simpl. f_equal. apply IH. exact H2.
Qed.

Lemma split_go_nonempty fuel s sep cur : split_go fuel s sep cur <> [].
Proof.
  revert s cur; induction fuel as [|f IH]; intros s cur; simpl; [discriminate|].
  destruct s as [|c r]; [discriminate|]. destruct (starts_with (c :: r) sep); [discriminate|apply IH].
Qed.

Lemma str_join_cons x r sep : r <> [] -> str_join (x :: r) sep = x ++ sep ++ str_join r sep.
Proof. destruct r; [congruence|reflexivity]. Qed.

Lemma join_split_go fuel : forall s sep cur, sep <> [] -> length s < fuel ->
  str_join (split_go fuel s sep cur) sep = rev cur ++ s.
Proof.
  induction fuel as [|f IH]; intros s sep cur Hsep Hlen; [lia|].
  simpl. destruct s as [|c r].
  - simpl. rewrite app_nil_r. reflexivity.
  - destruct (starts_with (c :: r) sep) eqn:E.
    + rewrite str_join_cons by apply split_go_nonempty.
      assert (Hlt : length (skipn (length sep) (c :: r)) < f).
      { rewrite skipn_length. destruct sep; [congruence|]. simpl in *. lia. }
      rewrite (IH _ sep [] Hsep Hlt). simpl.
      rewrite (starts_with_app _ _ E) at 2. reflexivity.
    + rewrite IH; [|exact Hsep|simpl in Hlen; lia]. simpl. rewrite <- app_assoc. reflexivity.
Qed.

(** joining the result of a split with the same non-empty separator gives back the string *)
Theorem join_split s sep : sep <> [] -> str_join (str_split s sep) sep = s.
Proof.
  intros Hsep. unfold str_split. destruct sep as [|c sep]; [congruence|].
  rewrite join_split_go; [reflexivity|discriminate|lia].
Qed.

(** splitting by the empty string yields the characters *)
Theorem split_empty_sep s : str_split s [] = map (fun c => [c]) s.
Proof. reflexivity. Qed.

(* the empty separator: joining the characters back *)
Lemma join_chars s : str_join (map (fun c => [c]) s) [] = s.
Proof.
  induction s as [|c s IH]; simpl; auto. destruct s as [|d s]; simpl in *; auto. f_equal. exact IH.
Qed.

(** split after join, for a one-character separator that occurs in no element *)
Lemma split_go_no_sep fuel : forall x c cur rest,
  ~ In c x -> length (x ++ rest) < fuel ->
  split_go fuel (x ++ rest) [c] cur = split_go (fuel - length x) rest [c] (rev x ++ cur).
Proof.
  induction fuel as [|f IH]; intros x c cur rest Hx Hlen; [lia|].
  destruct x as [|d x]; [reflexivity|].
  simpl. simpl in Hlen.
  assert (Hd : N.eqb c d = false) by (apply N.eqb_neq; intros ->; apply Hx; left; reflexivity).
  rewrite Hd. simpl.
  rewrite IH; [|intros Hin; apply Hx; right; exact Hin|lia].
  rewrite <- app_assoc. reflexivity.
Qed.

Theorem split_join_char c : forall l, l <> [] -> Forall (fun x => ~ In c x) l ->
  str_split (str_join l [c]) [c] = l.
Proof.
  intros l Hne Hall. unfold str_split.
  assert (G : forall fuel l, l <> [] -> Forall (fun x => ~ In c x) l -> length (str_join l [c]) < fuel ->
              split_go fuel (str_join l [c]) [c] [] = l).
  { clear l Hne Hall. induction fuel as [fuel IHf] using lt_wf_ind. intros l Hne Hall Hlen.
    destruct l as [|x r]; [congruence|]. inversion Hall as [|? ? Hx Hr]; subst.
    destruct r as [|y r].
    - simpl in *. replace x with (x ++ []) at 1 by apply app_nil_r.
      rewrite split_go_no_sep; [|exact Hx|rewrite app_nil_r; exact Hlen].
      destruct (fuel - length x) eqn:E; [lia|]. simpl. rewrite app_nil_r, rev_involutive. reflexivity.
    - assert (Hj : str_join (x :: y :: r) [c] = x ++ [c] ++ str_join (y :: r) [c]) by (apply str_join_cons; discriminate).
      rewrite Hj in *.
      rewrite split_go_no_sep; [|exact Hx|exact Hlen].
      rewrite !app_length in Hlen. cbn [length] in Hlen.
      destruct (fuel - length x) as [|f] eqn:E; [lia|].
      cbn [split_go app starts_with]. rewrite N.eqb_refl. cbn [andb].
      assert (Hnil : forall t, starts_with t [] = true) by (intros [|? ?]; reflexivity).
      rewrite Hnil. cbn [skipn length].
      rewrite app_nil_r, rev_involutive. f_equal.
      apply IHf; [lia|discriminate|exact Hr|lia]. }
  apply G; auto.
Qed.

(* the statement "split (join l sep) sep = l whenever no element contains sep" is false as worded for separators
   that can straddle an inserted separator and its neighbours *)
Theorem split_join_refuted :
  exists (l : list text) (sep : text), l <> [] /\ sep <> [] /\
    Forall (fun x => forall pre post, x <> pre ++ sep ++ post) l /\ str_split (str_join l sep) sep <> l.
Proof.
  exists [[97%N]; []], [97%N; 97%N]. split; [discriminate|]. split; [discriminate|]. split.
  - repeat constructor.
    + intros pre post H. apply (f_equal (@length N)) in H. rewrite !app_length in H. simpl in H. lia.
    + intros pre post H. apply (f_equal (@length N)) in H. rewrite !app_length in H. simpl in H. lia.
  - vm_compute. discriminate.
Qed.
