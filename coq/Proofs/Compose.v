(** C19 / C14 / C11: whole runs under the generalised relation of Sim2Defs.v, and its three instances.
    [run_sim2]: program A (B renamed by [rho], positions through [pi], at offset [off]) from a machine related to B's
    ends like B -- same output after [o1], same world, errors of the same kind at [pi] of B's location -- under any two
    collection schedules.  Instances: [compose] (P1;P2 from the state P1 left behind, against P2 alone from the initial
    state: C19), [rename_invisible] (a consistently renamed, re-positioned program: C14's name half, C11's line half). *)
From Pakhi Require Import Base Float64 Syntax Tables Lexer Parser Interp.
From Pakhi.Proofs Require Import Unfold Output GCMark GCSweep WF WFOps NoPanic SimDefs Sim Sim2Defs Sim2 GCInvisible.
From Coq Require Import Lia.
Local Open Scope nat_scope.

(** ** cutting the bijection down on both sides *)
Definition restrict2 (p : ren) (KA KB : node -> Prop) : ren :=
  mkRen (fun a b => rl p a b /\ KA (NL a) /\ KB (NL b)) (fun a b => rr p a b /\ KA (NR a) /\ KB (NR b)).
Lemma restrict2_bij p (KA KB : node -> Prop) : bij p -> bij (restrict2 p KA KB).
Proof.
  intros [A B C D]. constructor; simpl.
  - intros a b b' [H _] [H' _]. eauto.
  - intros a a' b [H _] [H' _]. eauto.
  - intros a b b' [H _] [H' _]. eauto.
  - intros a a' b [H _] [H' _]. eauto.
Qed.

Section Restrict.
Variable rho : text -> text.
Variable off : nat.
Notation vrel2 := (vrel2 rho off).
Notation erel2 := (erel2 rho off).

Lemma vrel2_restrict p (KA KB : node -> Prop) v1 v2 : vrel2 p v1 v2 ->
  (forall n, node_of v1 = Some n -> KA n) -> (forall n, node_of v2 = Some n -> KB n) -> vrel2 (restrict2 p KA KB) v1 v2.
Proof. destruct v1, v2; simpl; auto; intros H K1 K2; split; auto. Qed.
Lemma vrels2_restrict p (KA KB : node -> Prop) l1 l2 : Forall2 (vrel2 p) l1 l2 ->
  (forall v n, In v l1 -> node_of v = Some n -> KA n) -> (forall v n, In v l2 -> node_of v = Some n -> KB n) ->
  Forall2 (vrel2 (restrict2 p KA KB)) l1 l2.
Proof.
  induction 1 as [|v1 v2 l1 l2 Hv F IH]; intros K1 K2; constructor.
  - apply vrel2_restrict; auto; intros n Hn; [eapply K1|eapply K2]; try (left; reflexivity); exact Hn.
  - apply IH; intros v n Hin; [apply K1|apply K2]; right; exact Hin.
Qed.
Lemma erels2_restrict p (KA KB : node -> Prop) l1 l2 : Forall2 (erel2 p) l1 l2 ->
  (forall v n, In v (map snd l1) -> node_of v = Some n -> KA n) -> (forall v n, In v (map snd l2) -> node_of v = Some n -> KB n) ->
  Forall2 (erel2 (restrict2 p KA KB)) l1 l2.
Proof.
  induction 1 as [|[k1 v1] [k2 v2] l1 l2 [Hk Hv] F IH]; intros K1 K2; constructor.
  - split; auto. apply vrel2_restrict; auto; intros n Hn; [eapply K1|eapply K2]; try (left; reflexivity); exact Hn.
  - apply IH; intros v n Hin; [apply K1|apply K2]; right; exact Hin.
Qed.
End Restrict.

Lemma alist_get_In {A} k (l : list (text * A)) v : alist_get k l = Some v -> exists k', In (k', v) l.
Proof.
  induction l as [|[k2 v2] l IH]; simpl; [discriminate|]. destruct (text_eqb k k2).
  - intros H. injection H as <-. exists k2. left. reflexivity.
  - intros H. destruct (IH H) as (k' & Hin). exists k'. right. exact Hin.
Qed.

Section Run2.
Variable rho : text -> text.
Variable pi : pos -> pos.
Variable off : nat.
Variable N : text -> Prop.
Variable o1 : list chunk.
Variables codeA codeB : list fstmt.
Hypothesis HcA : code_ok codeA.
Hypothesis HcB : code_ok codeB.
Hypothesis rho_inj : forall x y, rho x = rho y -> x = y.
Hypothesis rho_builtin : forall x, is_builtin (rho x) = is_builtin x.
Hypothesis rho_builtin_fix : forall x, is_builtin x = true -> rho x = x.
Hypothesis Hcode : forall pc, stmt_at codeA (pc + off) = option_map (smap rho pi) (stmt_at codeB pc).
Hypothesis Hlen : length codeA = length codeB + off.
Hypothesis Hlast : stmt_pos (last codeA (FEOS (mkPos 0 []))) = pi (stmt_pos (last codeB (FEOS (mkPos 0 [])))).
Hypothesis Hnames : forall pc s, stmt_at codeB pc = Some s -> Forall N (snames s).

Notation vrel2 := (vrel2 rho off).
Notation erel2 := (erel2 rho off).
Notation hrel2 := (hrel2 rho off).
Notation srel := (srel rho off N).
Notation mrel2 := (mrel2 rho off N o1).

(* both sides of a scope relation hold roots *)
Lemma srel_roots p (KA KB : node -> Prop) ssA ssB : Forall2 (srel p) ssA ssB ->
  (forall n, is_root ssA n -> KA n) -> (forall n, is_root ssB n -> KB n) ->
  Forall2 (srel (restrict2 p KA KB)) ssA ssB.
Proof.
  intros F. induction F as [|sA sB rA rB Hs Hr IH]; intros K1 K2; constructor.
  - intros x Hx. specialize (Hs x Hx). unfold orelv in *.
    destruct (alist_get (rho x) sA) as [vA|] eqn:EA, (alist_get x sB) as [vB|] eqn:EB; auto.
    apply vrel2_restrict; auto.
    + intros n Hn. apply K1. destruct (alist_get_In _ _ _ EA) as (k' & Hin).
      eapply (scope_value_root (sA :: rA) sA (k', vA)); [left; reflexivity|exact Hin|exact Hn].
    + intros n Hn. apply K2. destruct (alist_get_In _ _ _ EB) as (k' & Hin).
      eapply (scope_value_root (sB :: rB) sB (k', vB)); [left; reflexivity|exact Hin|exact Hn].
  - apply IH.
    + intros n (v & Hv & Hn). apply K1. exists v. split; [|exact Hn]. unfold root_values in *. simpl. apply in_or_app. right. exact Hv.
    + intros n (v & Hv & Hn). apply K2. exists v. split; [|exact Hn]. unfold root_values in *. simpl. apply in_or_app. right. exact Hv.
Qed.

Lemma collect_left2 p mA mB hA' : bij p -> mrel2 p mA mB -> wf_heap (m_heap mA) -> wf_scopes (m_heap mA) (m_scopes mA) ->
  collect (m_scopes mA) (m_heap mA) = Ok hA' ->
  exists q, bij q /\ mrel2 q (set_heap mA hA') mB.
Proof.
  intros Hb Hm Wh Ws Hc.
  destruct (collect_correct _ _ Wh Ws) as (h' & Ec & P). rewrite Ec in Hc. injection Hc as <-.
  set (ss := m_scopes mA) in *. set (h1 := m_heap mA) in *.
  set (keep := reach h1 (is_root ss)).
  exists (restrict2 p keep (fun _ => True)). split; [apply restrict2_bij; exact Hb|].
  destruct Hm as [A B C D E F G I].
  constructor; simpl; auto.
  { apply srel_roots; auto. intros n Hn. apply reach_root. exact Hn. }
  fold h1 in F. destruct F as [Fl Fr F1 F2 F3 F4 (N1 & N2 & N3 & N4)].
  constructor; simpl.
  - intros a b (R & Hk & _). destruct (Fl a b R) as (l1 & l2 & E1 & E2 & Fo). exists l1, l2.
    split; [eapply nth_error_nth_eq; [apply (cp_len_lists _ _ _ P)|apply (cp_keep_list _ _ _ P a Hk)|exact E1]|].
    split; [exact E2|].
    apply vrels2_restrict; auto. intros v n Hv Hn. eapply reach_step; [exact Hk|]. exists v. split; [|exact Hn].
    simpl. rewrite (nth_error_nth _ _ [] E1). exact Hv.
  - intros a b (R & Hk & _). destruct (Fr a b R) as (l1 & l2 & E1 & E2 & Fo). exists l1, l2.
    split; [eapply nth_error_nth_eq; [apply (cp_len_recs _ _ _ P)|apply (cp_keep_rec _ _ _ P a Hk)|exact E1]|].
    split; [exact E2|].
    apply erels2_restrict; auto. intros v n Hv Hn. eapply reach_step; [exact Hk|]. exists v. split; [|exact Hn].
    simpl. rewrite (nth_error_nth _ _ [] E1). exact Hv.
  - intros a Ha. rewrite (cp_len_lists _ _ _ P). destruct (cp_only_list _ _ _ P a Ha) as [Hin|[Hlt Hn]].
    + destruct (F1 a Hin) as [L Nr]. split; [exact L|]. intros b [R _]. eapply Nr; eauto.
    + split; [exact Hlt|]. intros b (_ & Hk & _). apply Hn. exact Hk.
  - intros b Hb2. destruct (F2 b Hb2) as [L Nr]. split; [exact L|]. intros a [R _]. eapply Nr; eauto.
  - intros a Ha. rewrite (cp_len_recs _ _ _ P). destruct (cp_only_rec _ _ _ P a Ha) as [Hin|[Hlt Hn]].
    + destruct (F3 a Hin) as [L Nr]. split; [exact L|]. intros b [R _]. eapply Nr; eauto.
    + split; [exact Hlt|]. intros b (_ & Hk & _). apply Hn. exact Hk.
  - intros b Hb2. destruct (F4 b Hb2) as [L Nr]. split; [exact L|]. intros a [R _]. eapply Nr; eauto.
  - repeat split; auto; [apply (cp_nodup_list _ _ _ P N1)|apply (cp_nodup_rec _ _ _ P N3)].
Qed.

Lemma collect_right2 p mA mB hB' : bij p -> mrel2 p mA mB -> wf_heap (m_heap mB) -> wf_scopes (m_heap mB) (m_scopes mB) ->
  collect (m_scopes mB) (m_heap mB) = Ok hB' ->
  exists q, bij q /\ mrel2 q mA (set_heap mB hB').
Proof.
  intros Hb Hm Wh Ws Hc.
  destruct (collect_correct _ _ Wh Ws) as (h' & Ec & P). rewrite Ec in Hc. injection Hc as <-.
  set (ss := m_scopes mB) in *. set (h2 := m_heap mB) in *.
  set (keep := reach h2 (is_root ss)).
  exists (restrict2 p (fun _ => True) keep). split; [apply restrict2_bij; exact Hb|].
  destruct Hm as [A B C D E F G I].
  constructor; simpl; auto.
  { apply srel_roots; auto. intros n Hn. apply reach_root. exact Hn. }
  fold h2 in F. destruct F as [Fl Fr F1 F2 F3 F4 (N1 & N2 & N3 & N4)].
  constructor; simpl.
  - intros a b (R & _ & Hk). destruct (Fl a b R) as (l1 & l2 & E1 & E2 & Fo). exists l1, l2.
    split; [exact E1|].
    split; [eapply nth_error_nth_eq; [apply (cp_len_lists _ _ _ P)|apply (cp_keep_list _ _ _ P b Hk)|exact E2]|].
    apply vrels2_restrict; auto. intros v n Hv Hn. eapply reach_step; [exact Hk|]. exists v. split; [|exact Hn].
    simpl. rewrite (nth_error_nth _ _ [] E2). exact Hv.
  - intros a b (R & _ & Hk). destruct (Fr a b R) as (l1 & l2 & E1 & E2 & Fo). exists l1, l2.
    split; [exact E1|].
    split; [eapply nth_error_nth_eq; [apply (cp_len_recs _ _ _ P)|apply (cp_keep_rec _ _ _ P b Hk)|exact E2]|].
    apply erels2_restrict; auto. intros v n Hv Hn. eapply reach_step; [exact Hk|]. exists v. split; [|exact Hn].
    simpl. rewrite (nth_error_nth _ _ [] E2). exact Hv.
  - intros a Ha. destruct (F1 a Ha) as [L Nr]. split; [exact L|]. intros b [R _]. eapply Nr; eauto.
  - intros b Hb2. rewrite (cp_len_lists _ _ _ P). destruct (cp_only_list _ _ _ P b Hb2) as [Hin|[Hlt Hn]].
    + destruct (F2 b Hin) as [L Nr]. split; [exact L|]. intros a [R _]. eapply Nr; eauto.
    + split; [exact Hlt|]. intros a (_ & _ & Hk). apply Hn. exact Hk.
  - intros a Ha. destruct (F3 a Ha) as [L Nr]. split; [exact L|]. intros b [R _]. eapply Nr; eauto.
  - intros b Hb2. rewrite (cp_len_recs _ _ _ P). destruct (cp_only_rec _ _ _ P b Hb2) as [Hin|[Hlt Hn]].
    + destruct (F4 b Hin) as [L Nr]. split; [exact L|]. intros a [R _]. eapply Nr; eauto.
    + split; [exact Hlt|]. intros a (_ & _ & Hk). apply Hn. exact Hk.
  - repeat split; auto; [apply (cp_nodup_list _ _ _ P N2)|apply (cp_nodup_rec _ _ _ P N4)].
Qed.

Lemma hrel2_reset_l p h1 h2 : hrel2 p h1 h2 -> hrel2 p (reset_alloc h1) h2.
Proof. intros [A B C D E F G]. constructor; simpl; auto. Qed.
Lemma hrel2_reset_r p h1 h2 : hrel2 p h1 h2 -> hrel2 p h1 (reset_alloc h2).
Proof. intros [A B C D E F G]. constructor; simpl; auto. Qed.

Lemma boundary_left2 p sched b mA mB : bij p -> mrel2 p mA mB -> mwf codeA mA ->
  exists mA', boundary sched b mA = Ok mA' /\ mwf codeA mA' /\ exists q, bij q /\ mrel2 q mA' mB.
Proof.
  intros Hb Hm W. unfold boundary. destruct (should_collect sched b mA).
  - pose proof (hok_wf_heap codeA _ (w_h codeA mA W)) as Wh. pose proof (sok_wf_scopes codeA _ _ (w_sc codeA mA W)) as Ws.
    destruct (collect_correct _ _ Wh Ws) as (h' & Ec & P). rewrite Ec.
    eexists. split; [reflexivity|].
    pose proof (collect_ok codeA (m_scopes mA) (m_heap mA) (w_h codeA mA W) (w_sc codeA mA W)) as Ck. rewrite Ec in Ck. simpl in Ck.
    destruct Ck as (K1 & K2 & K3 & K4).
    split; [apply mwf_reset; auto|].
    destruct (collect_left2 p mA mB h' Hb Hm Wh Ws Ec) as (q & Hbq & Hq). exists q. split; [exact Hbq|].
    destruct Hq as [A B C D E F G I]. simpl in *. constructor; simpl; auto. apply hrel2_reset_l. exact F.
  - eexists. split; [reflexivity|]. destruct sched.
    + split.
      * destruct mA; simpl. apply (mwf_reset codeA _ _ _ W (w_h codeA _ W)). apply hle_refl.
      * exists p. split; [exact Hb|]. destruct Hm as [A B C D E F G I]. constructor; simpl; auto. apply hrel2_reset_l. exact F.
    + split; [exact W|]. exists p. split; assumption.
Qed.

Lemma boundary_right2 p sched b mA mB : bij p -> mrel2 p mA mB -> mwf codeB mB ->
  exists mB', boundary sched b mB = Ok mB' /\ mwf codeB mB' /\ exists q, bij q /\ mrel2 q mA mB'.
Proof.
  intros Hb Hm W. unfold boundary. destruct (should_collect sched b mB).
  - pose proof (hok_wf_heap codeB _ (w_h codeB mB W)) as Wh. pose proof (sok_wf_scopes codeB _ _ (w_sc codeB mB W)) as Ws.
    destruct (collect_correct _ _ Wh Ws) as (h' & Ec & P). rewrite Ec.
    eexists. split; [reflexivity|].
    pose proof (collect_ok codeB (m_scopes mB) (m_heap mB) (w_h codeB mB W) (w_sc codeB mB W)) as Ck. rewrite Ec in Ck. simpl in Ck.
    destruct Ck as (K1 & K2 & K3 & K4).
    split; [apply mwf_reset; auto|].
    destruct (collect_right2 p mA mB h' Hb Hm Wh Ws Ec) as (q & Hbq & Hq). exists q. split; [exact Hbq|].
    destruct Hq as [A B C D E F G I]. simpl in *. constructor; simpl; auto. apply hrel2_reset_r. exact F.
  - eexists. split; [reflexivity|]. destruct sched.
    + split.
      * destruct mB; simpl. apply (mwf_reset codeB _ _ _ W (w_h codeB _ W)). apply hle_refl.
      * exists p. split; [exact Hb|]. destruct Hm as [A B C D E F G I]. constructor; simpl; auto. apply hrel2_reset_r. exact F.
    + split; [exact W|]. exists p. split; assumption.
Qed.

Definition errel2 := errel pi o1.
Definition same_end2 (rA rB : outcome machine) : Prop :=
  orel2 errel2 (fun nA nB : machine => m_out nA = m_out nB ++ o1 /\ m_world nA = m_world nB) rA rB.

Lemma is_eos_smap s : is_eos (smap rho pi s) = is_eos s.
Proof. destruct s; reflexivity. Qed.

Theorem run_sim2 : forall fuel sA sB bA bB p mA mB, bij p -> mrel2 p mA mB -> mwf codeA mA -> mwf codeB mB ->
  same_end2 (fst (run codeA fuel sA bA mA)) (fst (run codeB fuel sB bB mB)).
Proof.
  induction fuel as [|f IH]; intros sA sB bA bB p mA mB Hb Hm W1 W2; [exact I|].
  rewrite !run_S. rewrite (m2_pc _ _ _ _ _ _ _ Hm), Hcode.
  destruct (stmt_at codeB (m_pc mB)) as [s|]; cbn [option_map]; [|exact eq_refl].
  rewrite is_eos_smap.
  destruct (is_eos s); [simpl; split; apply Hm|].
  destruct (sim2_fuel rho pi off N o1 codeA codeB rho_inj rho_builtin rho_builtin_fix Hcode Hlen Hlast Hnames f) as (_ & _ & Hi).
  specialize (Hi p mA mB Hb Hm).
  pose proof (interp_keeps_invariants codeA HcA f mA) as K1. pose proof (interp_keeps_invariants codeB HcB f mB) as K2.
  destruct (interp codeA f mA) as [n1|e1|t1|], (interp codeB f mB) as [n2|e2|t2|]; simpl in Hi; try contradiction; try exact I; try exact Hi.
  2: { destruct (boundary sA bA n1) as [n1'| | |]; try exact I. unfold same_end2. destruct (fst (run codeA f sA (S bA) n1')); exact I. }
  destruct Hi as (q & _ & Hbq & Hq). unfold Pm2 in Hq.
  destruct (K1 n1 W1 eq_refl) as [V1 _]. destruct (K2 n2 W2 eq_refl) as [V2 _].
  destruct (boundary_left2 q sA bA n1 n2 Hbq Hq V1) as (n1' & E1 & V1' & q1 & Hbq1 & Hq1). rewrite E1.
  destruct (boundary_right2 q1 sB bB n1' n2 Hbq1 Hq1 V2) as (n2' & E2 & V2' & q2 & Hbq2 & Hq2). rewrite E2.
  eapply IH; eauto.
Qed.
End Run2.

(** ** renaming preserves well-formedness of the statement vector *)
Lemma expr_ok_xmap rho pi : forall e, expr_ok (xmap rho pi e) = expr_ok e.
Proof.
  fix IH 1. intros e.
  assert (L : forall es, forallb expr_ok (map (xmap rho pi) es) = forallb expr_ok es).
  { induction es as [|a es IHes]; simpl; [reflexivity|]. rewrite (IH a), IHes. reflexivity. }
  destruct e; simpl; auto; rewrite ?map_length, ?L, ?IH; reflexivity.
Qed.
Lemma forallb_expr_ok_map rho pi es : forallb expr_ok (map (xmap rho pi) es) = forallb expr_ok es.
Proof. induction es as [|a es IH]; simpl; [reflexivity|]. rewrite expr_ok_xmap, IH. reflexivity. Qed.
Lemma stmt_ok_smap rho pi s : stmt_ok (smap rho pi s) = stmt_ok s.
Proof.
  destruct s; simpl; try apply expr_ok_xmap; auto.
  destruct k, init; simpl; rewrite ?(forallb_expr_ok_map rho pi idx), ?expr_ok_xmap; reflexivity.
Qed.
Lemma code_ok_map rho pi code : code_ok code -> code_ok (map (smap rho pi) code).
Proof.
  intros [H1 H2]. split.
  - rewrite forallb_forall in *. intros s Hs. apply in_map_iff in Hs as (s0 & <- & Hs0). rewrite stmt_ok_smap. apply H1. exact Hs0.
  - intros pc s Hs He. unfold stmt_at in *. rewrite nth_error_map in Hs. rewrite map_length.
    destruct (nth_error code pc) as [s0|] eqn:E; simpl in Hs; [|discriminate]. injection Hs as <-.
    rewrite is_eos_smap in He. eapply H2; eauto.
Qed.

(** ** instance: a consistently renamed and re-positioned program (C14: names; C11: line and file metadata) *)
Definition all_names (x : text) : Prop := True.

Theorem rename_invisible rho pi code platform w fuel sA sB :
  code_ok code -> code <> [] ->
  (forall x y, rho x = rho y -> x = y) -> (forall x, is_builtin (rho x) = is_builtin x) -> (forall x, is_builtin x = true -> rho x = x) ->
  rho platform_const = platform_const ->
  same_end2 pi [] (fst (run (map (smap rho pi) code) fuel sA 0 (init_machine platform w))) (fst (run code fuel sB 0 (init_machine platform w))).
Proof.
  intros Hc Hne Hinj Hbi Hfix Hpl.
  set (p0 := mkRen (fun _ _ => False) (fun _ _ => False)).
  apply (run_sim2 rho pi 0 all_names [] (map (smap rho pi) code) code (code_ok_map rho pi code Hc) Hc Hinj Hbi Hfix) with (p := p0).
  - intros pc. rewrite Nat.add_0_r. unfold stmt_at. apply nth_error_map.
  - rewrite map_length. lia.
  - destruct code as [|s0 code']; [congruence|].
    assert (G : forall (l : list fstmt) d d', l <> [] -> last (map (smap rho pi) l) d = smap rho pi (last l d')).
    { induction l as [|a l IHl]; intros d d' Hl; [congruence|]. destruct l as [|b l]; [reflexivity|].
      change (last (smap rho pi a :: map (smap rho pi) (b :: l)) d) with (last (map (smap rho pi) (b :: l)) d).
      change (last (a :: b :: l) d') with (last (b :: l) d'). apply IHl. discriminate. }
    rewrite (G (s0 :: code') _ (FEOS (mkPos 0 []))); [apply stmt_pos_smap|discriminate].
  - intros pc s Hs. apply Forall_forall. intros x _. exact I.
  - constructor; simpl; intros; contradiction.
  - constructor; simpl; auto.
    { constructor; [|constructor]. intros x _. unfold orelv. simpl.
      destruct (text_eqb x platform_const) eqn:E.
      - apply text_eqb_eq in E. subst x. rewrite Hpl, text_eqb_refl. simpl. reflexivity.
      - destruct (text_eqb (rho x) platform_const) eqn:E2; [|exact I].
        apply text_eqb_eq in E2. rewrite <- Hpl in E2. apply Hinj in E2. subst x. rewrite text_eqb_refl in E. discriminate. }
    { constructor; simpl; try (intros; contradiction). repeat split; constructor. }
  - apply mwf_init; [apply code_ok_map; exact Hc|]. destruct code; [congruence|discriminate].
  - apply mwf_init; assumption.
Qed.

(** ** instance: P1;P2 from the state P1 left behind, against P2 alone (C19) *)
Lemma last_app_ne {A} (l l' : list A) d d' : l' <> [] -> last (l ++ l') d = last l' d'.
Proof.
  intros Hne. induction l as [|a l IH]; simpl.
  - destruct l' as [|b l']; [congruence|]. clear Hne. revert b. induction l' as [|c l' IHl]; intros b; [reflexivity|]. apply (IHl c).
  - destruct (l ++ l') eqn:E; [destruct l, l'; simpl in E; congruence|]. exact IH.
Qed.
Lemma last_map_ne {A B} (f : A -> B) (l : list A) d d' : l <> [] -> last (map f l) d = f (last l d').
Proof.
  induction l as [|a l IHl]; intros Hl; [congruence|]. destruct l as [|b l]; [reflexivity|].
  change (last (f a :: map f (b :: l)) d) with (last (map f (b :: l)) d).
  change (last (a :: b :: l) d') with (last (b :: l) d'). apply IHl. discriminate.
Qed.

Definition idn (x : text) : text := x.

Theorem compose (N : text -> Prop) c1 c2 pi mA platform fuel sA sB bA :
  let codeA := c1 ++ map (smap idn pi) c2 in
  code_ok codeA -> code_ok c2 -> c2 <> [] ->
  (* the state P1 left behind: control stacks neutral, one (global) scope, at the first statement of P2 *)
  mwf codeA mA -> m_pc mA = length c1 -> m_loops mA = [] -> m_ret mA = [] -> m_loop_base mA = 0 ->
  NoDup (h_free_lists (m_heap mA)) -> NoDup (h_free_recs (m_heap mA)) ->
  (* P1 and P2 share no names: P2 mentions names of N only, and of those P1's global scope binds just the platform constant *)
  (forall pc s, stmt_at c2 pc = Some s -> Forall N (snames s)) ->
  (exists g, m_scopes mA = [g] /\ alist_get platform_const g = Some (VStr platform) /\
             forall x, N x -> x <> platform_const -> alist_get x g = None) ->
  same_end2 pi (m_out mA) (fst (run codeA fuel sA bA mA)) (fst (run c2 fuel sB 0 (init_machine platform (m_world mA)))).
Proof.
  intros codeA HcA HcB Hne W Hpc Hlp Hret Hlb Nd1 Nd2 Hnames (g & Hsc & Hplat & Hnone).
  set (p0 := mkRen (fun _ _ => False) (fun _ _ => False)).
  apply (run_sim2 idn pi (length c1) N (m_out mA) codeA c2 HcA HcB) with (p := p0); auto.
  - intros pc. unfold codeA, stmt_at. rewrite nth_error_app2 by lia. replace (pc + length c1 - length c1) with pc by lia. apply nth_error_map.
  - unfold codeA. rewrite app_length, map_length. lia.
  - unfold codeA. rewrite (last_app_ne c1 (map (smap idn pi) c2) _ (FEOS (mkPos 0 []))); [|destruct c2; [congruence|discriminate]].
    rewrite (last_map_ne (smap idn pi) c2 _ (FEOS (mkPos 0 []))) by exact Hne. apply stmt_pos_smap.
  - constructor; simpl; intros; contradiction.
  - constructor; simpl.
    + rewrite Hpc. reflexivity.
    + rewrite Hsc. constructor; [|constructor]. intros x Hx. unfold orelv, idn. simpl.
      destruct (text_eqb x platform_const) eqn:E.
      * apply text_eqb_eq in E. subst x. rewrite Hplat. simpl. reflexivity.
      * rewrite Hnone; auto. intros ->. rewrite text_eqb_refl in E. discriminate.
    + rewrite Hlp. constructor.
    + exact Hlb.
    + rewrite Hret. reflexivity.
    + pose proof (w_h codeA mA W) as [_ _ Hfl Hfr]. constructor; simpl; try (intros; contradiction).
      * intros a Ha. rewrite Forall_forall in Hfl. split; [apply Hfl; exact Ha|intros b []].
      * intros a Ha. rewrite Forall_forall in Hfr. split; [apply Hfr; exact Ha|intros b []].
      * repeat split; auto; constructor.
    + reflexivity.
    + reflexivity.
  - apply mwf_init; [exact HcB|exact Hne].
Qed.

(** ** the renaming of a module import is such a renaming: every name that is not a built-in function or the platform
    constant becomes alias/name *)
Definition qualify (alias x : text) : text :=
  if is_builtin x || text_eqb x platform_const then x else alias ++ [c_slash] ++ x.

Definition has_slash (n : text) : bool := existsb (N.eqb c_slash) n.
Lemma builtins_have_no_slash : forallb (fun n => negb (has_slash n)) builtin_names = true.
Proof. vm_compute. reflexivity. Qed.
Lemma platform_has_no_slash : has_slash platform_const = false.
Proof. vm_compute. reflexivity. Qed.
Lemma platform_not_builtin : is_builtin platform_const = false.
Proof. vm_compute. reflexivity. Qed.

Lemma is_builtin_no_slash x : is_builtin x = true -> has_slash x = false.
Proof.
  unfold is_builtin. intros H. apply existsb_exists in H as (n & Hn & E). apply text_eqb_eq in E. subst n.
  pose proof builtins_have_no_slash as B. rewrite forallb_forall in B. specialize (B x Hn). apply Bool.negb_true_iff in B. exact B.
Qed.
Lemma qualified_has_slash alias x : has_slash (alias ++ [c_slash] ++ x) = true.
Proof. unfold has_slash. rewrite existsb_app. apply Bool.orb_true_iff. right. reflexivity. Qed.

Lemma qualify_builtin alias x : is_builtin (qualify alias x) = is_builtin x.
Proof.
  unfold qualify. destruct (is_builtin x) eqn:B; simpl; [exact B|].
  destruct (text_eqb x platform_const); [exact B|].
  destruct (is_builtin (alias ++ [c_slash] ++ x)) eqn:B2; [|simpl in B2; rewrite B2; reflexivity].
  apply is_builtin_no_slash in B2. rewrite qualified_has_slash in B2. discriminate.
Qed.
Lemma qualify_builtin_fix alias x : is_builtin x = true -> qualify alias x = x.
Proof. intros B. unfold qualify. rewrite B. reflexivity. Qed.
Lemma qualify_platform alias : qualify alias platform_const = platform_const.
Proof. unfold qualify. rewrite text_eqb_refl, Bool.orb_true_r. reflexivity. Qed.
Lemma qualify_inj alias x y : qualify alias x = qualify alias y -> x = y.
Proof.
  unfold qualify.
  assert (Ex : forall z, is_builtin z || text_eqb z platform_const = true -> has_slash z = false).
  { intros z Hz. apply Bool.orb_true_iff in Hz as [Hz|Hz]; [apply is_builtin_no_slash; exact Hz|].
    apply text_eqb_eq in Hz. subst z. apply platform_has_no_slash. }
  destruct (is_builtin x || text_eqb x platform_const) eqn:Bx, (is_builtin y || text_eqb y platform_const) eqn:By; intros E.
  - exact E.
  - apply Ex in Bx. rewrite E, qualified_has_slash in Bx. discriminate.
  - apply Ex in By. rewrite <- E, qualified_has_slash in By. discriminate.
  - apply app_inv_head in E. injection E as E. exact E.
Qed.

(* a module's code qualified by any alias (and carrying any line/file metadata) runs like the original *)
Theorem module_qualification_invisible alias pi code platform w fuel sA sB : code_ok code -> code <> [] ->
  same_end2 pi [] (fst (run (map (smap (qualify alias) pi) code) fuel sA 0 (init_machine platform w))) (fst (run code fuel sB 0 (init_machine platform w))).
Proof.
  intros Hc Hne. apply rename_invisible; auto.
  - apply qualify_inj.
  - apply qualify_builtin.
  - apply qualify_builtin_fix.
Qed.
