(** C06 / C07 / C08: the allocator reuses reclaimed slots before the arena grows, counts every allocation,
    and never hands out a container that is reachable from a variable. *)
From Pakhi Require Import Base Float64 Syntax Tables Lexer Interp.
From Pakhi.Proofs Require Import GCMark GCSweep.
From Coq Require Import Lia.
Local Open Scope nat_scope.

Lemma reach_in_range h ss n : wf_heap h -> wf_scopes h ss -> reach h (is_root ss) n -> in_range h n.
Proof.
  intros Hh Hs Hr. induction Hr as [k [v [Hv Hk]]|k c Hr IH [v [Hv Hc]]].
  - unfold wf_scopes in Hs. rewrite Forall_forall in Hs. specialize (Hs v Hv). unfold wf_val in Hs. rewrite Hk in Hs. exact Hs.
  - pose proof (children_wf h k Hh) as Hw. rewrite Forall_forall in Hw. specialize (Hw v Hv). unfold wf_val in Hw. rewrite Hc in Hw. exact Hw.
Qed.

Lemma nth_list_set_eq {A} (l : list A) i v d : i < length l -> nth i (list_set l i v) d = v.
Proof. revert i; induction l as [|x t IH]; intros [|j] H; simpl in *; try lia; auto. apply IH; lia. Qed.
Lemma nth_list_set_neq {A} (l : list A) i j v d : i <> j -> nth j (list_set l i v) d = nth j l d.
Proof. revert i j; induction l as [|x t IH]; intros [|i] [|j] H; simpl; auto; try congruence. Qed.

(** reclaimed storage is reused before the heap grows *)
Theorem alloc_list_reuses h l a fr :
  h_free_lists h = a :: fr -> a < length (h_lists h) ->
  let '(a', h') := alloc_list h l in
  a' = a /\ length (h_lists h') = length (h_lists h) /\ h_free_lists h' = fr /\
  nth a (h_lists h') [] = l /\ (forall b, b <> a -> nth b (h_lists h') [] = nth b (h_lists h) []) /\
  h_recs h' = h_recs h /\ h_free_recs h' = h_free_recs h.
Proof.
  intros Hf Ha. unfold alloc_list. rewrite Hf. cbn.
  repeat split; auto.
  - apply list_set_length.
  - apply nth_list_set_eq; exact Ha.
  - intros b Hb. apply nth_list_set_neq. congruence.
Qed.

Theorem alloc_list_grows_only_when_no_free_slot h l :
  h_free_lists h = [] ->
  let '(a', h') := alloc_list h l in
  a' = length (h_lists h) /\ h_lists h' = h_lists h ++ [l] /\ h_free_lists h' = [] /\
  h_recs h' = h_recs h /\ h_free_recs h' = h_free_recs h.
Proof. intros Hf. unfold alloc_list. rewrite Hf. cbn. auto. Qed.

Theorem alloc_rec_reuses h r a fr :
  h_free_recs h = a :: fr -> a < length (h_recs h) ->
  let '(a', h') := alloc_rec h r in
  a' = a /\ length (h_recs h') = length (h_recs h) /\ h_free_recs h' = fr /\
  nth a (h_recs h') [] = r /\ (forall b, b <> a -> nth b (h_recs h') [] = nth b (h_recs h) []) /\
  h_lists h' = h_lists h /\ h_free_lists h' = h_free_lists h.
Proof.
  intros Hf Ha. unfold alloc_rec. rewrite Hf. cbn.
  repeat split; auto.
  - apply list_set_length.
  - apply nth_list_set_eq; exact Ha.
  - intros b Hb. apply nth_list_set_neq. congruence.
Qed.

Theorem alloc_rec_grows_only_when_no_free_slot h r :
  h_free_recs h = [] ->
  let '(a', h') := alloc_rec h r in
  a' = length (h_recs h) /\ h_recs h' = h_recs h ++ [r] /\ h_free_recs h' = [] /\
  h_lists h' = h_lists h /\ h_free_lists h' = h_free_lists h.
Proof. intros Hf. unfold alloc_rec. rewrite Hf. cbn. auto. Qed.

(** every allocation -- also of an empty container -- advances the counter that triggers collection *)
Theorem alloc_counts h l r :
  h_alloc h < h_alloc (snd (alloc_list h l)) /\ h_alloc h < h_alloc (snd (alloc_rec h r)).
Proof.
  unfold alloc_list, alloc_rec.
  destruct (h_free_lists h); destruct (h_free_recs h); cbn; lia.
Qed.

(** the address handed out is never one that a variable can reach: live data is not overwritten *)
Theorem alloc_list_fresh h ss l :
  wf_heap h -> wf_scopes h ss -> free_ok h ss ->
  ~ reach h (is_root ss) (NL (fst (alloc_list h l))).
Proof.
  intros Hh Hs (N1 & N2 & F1 & F2). unfold alloc_list.
  destruct (h_free_lists h) as [|a fr] eqn:E; cbn.
  - intros Hr. apply (reach_in_range h ss _ Hh Hs) in Hr. simpl in Hr. lia.
  - apply F1. left. reflexivity.
Qed.

Theorem alloc_rec_fresh h ss r :
  wf_heap h -> wf_scopes h ss -> free_ok h ss ->
  ~ reach h (is_root ss) (NR (fst (alloc_rec h r))).
Proof.
  intros Hh Hs (N1 & N2 & F1 & F2). unfold alloc_rec.
  destruct (h_free_recs h) as [|a fr] eqn:E; cbn.
  - intros Hr. apply (reach_in_range h ss _ Hh Hs) in Hr. simpl in Hr. lia.
  - apply F2. left. reflexivity.
Qed.

(** the trigger: with the native schedule a collection is due exactly when the counter reached the threshold,
    and the threshold is a positive constant of the source *)
Theorem collect_when_due boundary m :
  should_collect None boundary m = true <-> gc_threshold <= h_alloc (m_heap m).
Proof. unfold should_collect. apply Nat.leb_le. Qed.

Lemma gc_threshold_positive : 0 < gc_threshold.
Proof. vm_compute. lia. Qed.
