(** Finding D29 as a theorem about the model (a witness, checked by computation): an import name that extends another
    import name of the same file by '/...' is rejected as cyclic although nothing is cyclic -- the second fragment alone
    loads, the two fragments one after the other do not. *)
From Pakhi Require Import Base Float64 Syntax Tables Lexer Parser.
From Pakhi.Proofs Require Import Modules.
From Coq Require Import List NArith. Import ListNotations.

Definition d29_util : text := [2472; 2494; 2478; 32; 2478; 2494; 2472; 32; 61; 32; 2539; 59; 10]%N.
Definition d29_p1 : text := [2478; 2465; 2495; 2441; 2482; 32; 2453; 32; 61; 32; 34; 117; 116; 105; 108; 46; 112; 97; 107; 104; 105; 34; 59; 10; 2470; 2503; 2454; 2494; 2451; 32; 2453; 47; 2478; 2494; 2472; 59; 10]%N.
Definition d29_p2 : text := [2478; 2465; 2495; 2441; 2482; 32; 2453; 47; 2454; 32; 61; 32; 34; 117; 116; 105; 108; 46; 112; 97; 107; 104; 105; 34; 59; 10; 2470; 2503; 2454; 2494; 2451; 32; 2453; 47; 2454; 47; 2478; 2494; 2472; 59; 10]%N.
Definition d29_fs (p : text) : option text := if text_eqb p [117; 116; 105; 108; 46; 112; 97; 107; 104; 105]%N then Some d29_util else None.
Definition d29_main : text := [109; 46; 112; 97; 107; 104; 105]%N.
Definition d29_cwd : text := [47; 119]%N.

Definition loads (r : outcome (list fstmt)) : bool := match r with Ok _ => true | _ => false end.
Definition is_cyclic_error (r : outcome (list fstmt)) : bool :=
  match r with Err e => match e_tag e with TagCyclic => true | _ => false end | _ => false end.

Theorem slash_import_name_refutes_composition :
  loads (front d29_fs d29_cwd d29_main 2000 d29_p1) = true /\
  loads (front d29_fs d29_cwd d29_main 2000 d29_p2) = true /\
  is_cyclic_error (front d29_fs d29_cwd d29_main 2000 (d29_p1 ++ d29_p2)) = true.
Proof. vm_compute. repeat split. Qed.
