(** C10, part 2: on success the tokens, in order, account for every non-blank character of the source exactly once,
    and every token carries the 1-based number of the line it is written on -- also after strings and comments that
    span lines. *)
From Pakhi Require Import Base Float64 Syntax Tables Lexer.
From Pakhi.Proofs Require Import TableFacts LexTotal LexLayout.
From Coq Require Import Lia.
Local Open Scope nat_scope.

(* the source text of a token: its lexeme; for a string literal the lexeme is the contents, the text has the quotes *)
Definition token_text (t : token) : text :=
  match t_kind t with TStr _ => [c_quote] ++ t_lexeme t ++ [c_quote] | _ => t_lexeme t end.

(* [accounts rest pos line ts]: [rest] (which starts at offset [pos], on line [line]) is exactly: blanks, the text of
   the first token, blanks, the text of the second token, ..., blanks; spans and line numbers are the true ones *)
Fixpoint accounts (file : text) (rest : text) (pos : nat) (line : N) (ts : list (token * (nat * nat))) : Prop :=
  match ts with
  | [] => False
  | (t, (st, ln)) :: ts' =>
      match ts' with
      | [] => forallb is_blank rest = true /\ t = eot file /\ st = pos + length rest /\ ln = 0
      | _ => exists blanks tail,
               rest = blanks ++ token_text t ++ tail /\ forallb is_blank blanks = true /\
               st = pos + length blanks /\ ln = length (token_text t) /\
               t_line t = (line + count_newlines blanks)%N /\ t_file t = file /\
               accounts file tail (st + ln) (line + count_newlines blanks + count_newlines (token_text t))%N ts'
      end
  end.

Local Opaque lexer_digits single_ops double_ops keywords numeric_ranges minus_binary_after ident_extra_chars.

Definition nl : N := 10%N.
Definition no_newline (s : text) : Prop := Forall (fun c => c <> nl) s.

Lemma count_newlines_cons c s : count_newlines (c :: s) = ((if N.eqb c 10 then 1 else 0) + count_newlines s)%N.
Proof.
  unfold count_newlines. cbn [filter]. unfold c_newline. rewrite (N.eqb_sym 10 c). destruct (N.eqb c 10); cbn [length]; [rewrite Nat2N.inj_succ; lia|reflexivity].
Qed.

Lemma count_newlines_none s : no_newline s -> count_newlines s = 0%N.
Proof.
  unfold no_newline. induction 1 as [|c s Hc Hs IH]; [reflexivity|].
  rewrite count_newlines_cons, IH. apply N.eqb_neq in Hc. unfold nl in Hc. rewrite Hc. reflexivity.
Qed.

Lemma count_newlines_app a b : count_newlines (a ++ b) = (count_newlines a + count_newlines b)%N.
Proof. unfold count_newlines. rewrite filter_app, app_length, Nat2N.inj_add. reflexivity. Qed.


(* table facts: no token-starting or identifier character is a newline *)
Lemma tables_no_newline :
  forallb (fun e => negb (N.eqb (fst e) 10)) lexer_digits && forallb (fun e => negb (N.eqb (fst e) 10)) single_ops &&
  forallb (fun e => negb (N.eqb (fst e) 10) && negb (N.eqb (fst (fst (snd e))) 10)) double_ops &&
  forallb (fun c => negb (N.eqb c 10)) ident_extra_chars = true.
Proof. vm_compute. reflexivity. Qed.

Lemma assoc_not_nl {A} c (tbl : list (N * A)) v : forallb (fun e => negb (N.eqb (fst e) 10)) tbl = true -> assoc_N c tbl = Some v -> c <> nl.
Proof.
  intros Hall H. apply assoc_N_In in H. rewrite forallb_forall in Hall. specialize (Hall _ H). simpl in Hall.
  apply negb_true_iff, N.eqb_neq in Hall. exact Hall.
Qed.

Lemma tables_no_newline_split :
  forallb (fun e : N * Z => negb (N.eqb (fst e) 10)) lexer_digits = true /\
  forallb (fun e : N * tkind => negb (N.eqb (fst e) 10)) single_ops = true /\
  forallb (fun e : N * (N * tkind * tkind) => negb (N.eqb (fst e) 10) && negb (N.eqb (fst (fst (snd e))) 10)) double_ops = true /\
  forallb (fun c : N => negb (N.eqb c 10)) ident_extra_chars = true.
Proof.
  pose proof tables_no_newline as T. apply andb_true_iff in T as [T T4]. apply andb_true_iff in T as [T T3]. apply andb_true_iff in T as [T1 T2]. auto.
Qed.

Lemma digits_not_nl c d : assoc_N c lexer_digits = Some d -> c <> nl.
Proof. destruct tables_no_newline_split as (H & _). apply assoc_not_nl. exact H. Qed.
Lemma single_not_nl c k : assoc_N c single_ops = Some k -> c <> nl.
Proof. destruct tables_no_newline_split as (_ & H & _). apply assoc_not_nl. exact H. Qed.
Lemma double_not_nl c d k2 k1 : assoc_N c double_ops = Some (d, k2, k1) -> c <> nl /\ d <> nl.
Proof.
  destruct tables_no_newline_split as (_ & _ & Hd & _).
  intros Ha. apply assoc_N_In in Ha. rewrite forallb_forall in Hd. specialize (Hd _ Ha). simpl in Hd.
  apply andb_true_iff in Hd as [Hd1 Hd2]. apply negb_true_iff, N.eqb_neq in Hd1. apply negb_true_iff, N.eqb_neq in Hd2.
  split; assumption.
Qed.
Lemma ident_char_not_nl c : is_valid_identifier_char c = true -> c <> nl.
Proof.
  destruct tables_no_newline_split as (_ & _ & _ & Hi).
  unfold is_valid_identifier_char. intros Hv Hc. subst c. apply orb_true_iff in Hv as [Hv|Hv].
  - unfold mem_N in Hv. apply existsb_exists in Hv as [x [Hx He]]. apply N.eqb_eq in He. subst x.
    rewrite forallb_forall in Hi. specialize (Hi _ Hx). discriminate Hi.
  - discriminate Hv.
Qed.

(* pieces of consume *)
Lemma num_scan_text rest : forall in_frac line file s n, num_scan rest in_frac line file = Ok (s, n) -> no_newline (firstn n rest).
Proof.
  induction rest as [|c r IH]; intros in_frac line file s n H; simpl in H.
  - injection H as _ <-. constructor.
  - destruct (N.eqb c c_dot) eqn:Ed.
    + destruct in_frac; [discriminate|].
      destruct (num_scan r true line file) as [[s' n']| | |] eqn:E; simpl in H; try discriminate. injection H as _ <-.
      simpl. constructor; [apply N.eqb_eq in Ed; subst c; discriminate|eapply IH; exact E].
    + destruct (is_numeric c); [|injection H as _ <-; constructor].
      destruct (assoc_N c lexer_digits) eqn:Ea; [|discriminate].
      destruct (num_scan r in_frac line file) as [[s' n']| | |] eqn:E; simpl in H; try discriminate. injection H as _ <-.
      simpl. constructor; [eapply digits_not_nl; exact Ea|eapply IH; exact E].
Qed.

Lemma consume_num_text rest line file v n : consume_num rest line file = Ok (v, n) -> no_newline (firstn n rest).
Proof.
  unfold consume_num, consume_num_tail. destruct rest as [|c r].
  - destruct (num_scan [] false line file) as [[s k]| | |] eqn:E; cbn [bind]; try discriminate.
    destruct (parse_f64 _); [|discriminate]. intros H; injection H as _ <-. rewrite firstn_nil. constructor.
  - destruct (N.eqb c c_minus) eqn:Ec.
    + destruct (num_scan r false line file) as [[s k]| | |] eqn:E; cbn [bind]; try discriminate.
      destruct (parse_f64 _); [|discriminate]. intros H; injection H as _ <-.
      simpl. constructor; [apply N.eqb_eq in Ec; subst c; discriminate|eapply num_scan_text; exact E].
    + destruct (num_scan (c :: r) false line file) as [[s k]| | |] eqn:E; cbn [bind]; try discriminate.
      destruct (parse_f64 _); [|discriminate]. intros H; injection H as _ <-. simpl. eapply num_scan_text; exact E.
Qed.

Lemma string_scan_text rest : forall s, string_scan rest = (s, true) -> exists tail, rest = s ++ c_quote :: tail.
Proof.
  induction rest as [|c r IH]; intros s H; simpl in H; [discriminate|].
  destruct (N.eqb c c_quote) eqn:E.
  - injection H as <-. apply N.eqb_eq in E. subst c. exists r. reflexivity.
  - destruct (string_scan r) as [s' cl] eqn:Es. injection H as <- ->. destruct (IH s' eq_refl) as [tail ->]. exists tail. reflexivity.
Qed.

Lemma comment_scan_lines fuel : forall rest n l, comment_scan fuel rest = Some (n, l) -> l = count_newlines (firstn n rest).
Proof.
  induction fuel as [|f IH]; intros rest n l H; simpl in H; [discriminate|].
  destruct rest as [|c r]; [discriminate|].
  destruct (N.eqb c c_hash) eqn:Eh.
  - injection H as <- <-. apply N.eqb_eq in Eh. subst c. reflexivity.
  - destruct (andb _ _) eqn:Eesc.
    + apply andb_true_iff in Eesc as [Eb Eh2]. destruct r as [|d r']; [discriminate|].
      apply N.eqb_eq in Eb. apply N.eqb_eq in Eh2. subst c d.
      simpl in H. destruct (comment_scan f r') as [[n' l']|] eqn:E; [|discriminate]. injection H as <- <-.
      apply IH in E. subst l'. simpl firstn. rewrite !count_newlines_cons. reflexivity.
    + destruct (comment_scan f r) as [[n' l']|] eqn:E; [|discriminate]. injection H as <- <-.
      apply IH in E. subst l'. simpl firstn. rewrite count_newlines_cons. unfold c_newline.
      destruct (N.eqb c 10); lia.
Qed.

Lemma ident_scan_text rest : exists tail, rest = ident_scan rest ++ tail /\ no_newline (ident_scan rest).
Proof.
  induction rest as [|c r IH]; simpl; [exists []; split; [reflexivity|constructor]|].
  destruct (is_valid_identifier_char c) eqn:E; [|exists (c :: r); split; [reflexivity|constructor]].
  destruct IH as [tail [H1 H2]]. exists tail. split; [simpl; f_equal; exact H1|constructor; [apply ident_char_not_nl; exact E|exact H2]].
Qed.

Lemma firstn_exact {A} (a b : list A) : firstn (length a) (a ++ b) = a.
Proof. rewrite firstn_app, firstn_all, Nat.sub_diag. simpl. apply app_nil_r. Qed.
Lemma skipn_exact {A} (a b : list A) : skipn (length a) (a ++ b) = b.
Proof. rewrite skipn_app, skipn_all, Nat.sub_diag. reflexivity. Qed.

(** one step: either a blank, or a token whose text is exactly the consumed characters, stamped with the current
    line, the line counter advanced by the newlines inside it *)
Theorem consume_accounts rest line file prev t n l : rest <> [] ->
  consume rest line file prev = Ok (t, n, l) ->
  match t with
  | None => exists c r, rest = c :: r /\ is_blank c = true /\ n = 1 /\ l = count_newlines [c]
  | Some tk => firstn n rest = token_text tk /\ n = length (token_text tk) /\ t_line tk = line /\ t_file tk = file /\
               l = count_newlines (token_text tk) /\ tk <> eot file
  end.
Proof.
  intros Hne H. destruct rest as [|c r]; [congruence|]. clear Hne.
  pose proof (consume_spec (c :: r) line file prev ltac:(discriminate)) as Hspec. rewrite H in Hspec. cbn beta iota in Hspec.
  unfold consume in H.
  destruct (orb _ _) eqn:Hhead.
  { destruct (orb (is_numeric c) _).
    - destruct (consume_num (c :: r) line file) as [[v k]| | |] eqn:E; cbn [bind] in H; try discriminate.
      injection H as <- <- <-. unfold token_text. cbn [t_kind tok t_lexeme t_line t_file].
      pose proof (consume_num_text _ _ _ _ _ E) as Hn.
      repeat split; try reflexivity.
      + rewrite firstn_length. lia.
      + symmetry. apply count_newlines_none. exact Hn.
      + discriminate.
    - destruct r as [|d r']; [|destruct (N.eqb d c_gt) eqn:Eg].
      + injection H as <- <- <-. unfold token_text; cbn. repeat split; try reflexivity; try discriminate.
        apply orb_true_iff in Hhead as [Hh|Hh]; [apply N.eqb_eq in Hh; subst c; reflexivity|].
        destruct (assoc_N c lexer_digits) eqn:Ea; [|discriminate]. pose proof (digits_not_nl _ _ Ea) as Hc.
        rewrite count_newlines_cons. apply N.eqb_neq in Hc. unfold nl in Hc. rewrite Hc. reflexivity.
      + injection H as <- <- <-. unfold token_text; cbn. apply N.eqb_eq in Eg. subst d.
        repeat split; try reflexivity; try discriminate.
        apply orb_true_iff in Hhead as [Hh|Hh]; [apply N.eqb_eq in Hh; subst c; reflexivity|].
        destruct (assoc_N c lexer_digits) eqn:Ea; [|discriminate]. pose proof (digits_not_nl _ _ Ea) as Hc.
        rewrite !count_newlines_cons. apply N.eqb_neq in Hc. unfold nl in Hc. rewrite Hc. reflexivity.
      + injection H as <- <- <-. unfold token_text; cbn. repeat split; try reflexivity; try discriminate.
        apply orb_true_iff in Hhead as [Hh|Hh]; [apply N.eqb_eq in Hh; subst c; reflexivity|].
        destruct (assoc_N c lexer_digits) eqn:Ea; [|discriminate]. pose proof (digits_not_nl _ _ Ea) as Hc.
        rewrite count_newlines_cons. apply N.eqb_neq in Hc. unfold nl in Hc. rewrite Hc. reflexivity. }
  destruct (assoc_N c single_ops) as [k|] eqn:Es.
  { injection H as <- <- <-. pose proof (single_not_nl _ _ Es) as Hc. unfold token_text.
    assert (Hk : match k with TStr _ => False | _ => True end).
    { (* no single-character operator is a string token *) exact (single_ops_not_string c k Es). }
    destruct k; try contradiction; cbn; repeat split; try reflexivity; try discriminate;
      rewrite count_newlines_cons; apply N.eqb_neq in Hc; unfold nl in Hc; rewrite Hc; reflexivity. }
  destruct (assoc_N c double_ops) as [[[d k2] k1]|] eqn:Ed.
  { destruct (double_not_nl _ _ _ _ Ed) as [Hc Hd]. pose proof (double_ops_not_string c d k2 k1 Ed) as [Hk2 Hk1].
    destruct r as [|x r'].
    - injection H as <- <- <-. unfold token_text. destruct k1; try contradiction; cbn; repeat split; try reflexivity; try discriminate;
        rewrite count_newlines_cons; apply N.eqb_neq in Hc; unfold nl in Hc; rewrite Hc; reflexivity.
    - destruct (N.eqb x d) eqn:Ex.
      + apply N.eqb_eq in Ex. subst x. injection H as <- <- <-. unfold token_text.
        destruct k2; try contradiction; cbn; repeat split; try reflexivity; try discriminate;
          rewrite !count_newlines_cons; apply N.eqb_neq in Hc; apply N.eqb_neq in Hd; unfold nl in Hc, Hd; rewrite Hc, Hd; reflexivity.
      + injection H as <- <- <-. unfold token_text. destruct k1; try contradiction; cbn; repeat split; try reflexivity; try discriminate;
          rewrite count_newlines_cons; apply N.eqb_neq in Hc; unfold nl in Hc; rewrite Hc; reflexivity. }
  destruct (N.eqb c c_hash) eqn:Eh.
  { destruct (comment_scan (S (length r)) r) as [[k lc]|] eqn:E; [|discriminate].
    injection H as <- <- <-. apply N.eqb_eq in Eh. subst c.
    pose proof (comment_scan_len _ _ _ _ E) as Hl. pose proof (comment_scan_lines _ _ _ _ E) as Hlines.
    unfold token_text. cbn [t_kind tok t_lexeme t_line t_file].
    repeat split; try reflexivity; try discriminate.
    - cbn [firstn length]. rewrite firstn_length. lia.
    - simpl firstn. rewrite count_newlines_cons. subst lc. reflexivity. }
  destruct (N.eqb c c_quote) eqn:Eq.
  { destruct (string_scan r) as [s closed] eqn:E. destruct closed; [|discriminate].
    injection H as <- <- <-. apply N.eqb_eq in Eq. subst c.
    destruct (string_scan_text _ _ E) as [tail ->].
    unfold token_text. cbn [t_kind tok t_lexeme t_line t_file].
    repeat split; try reflexivity; try discriminate.
    - change ([c_quote] ++ s ++ [c_quote]) with (c_quote :: (s ++ [c_quote])).
      change (firstn (S (S (length s))) (c_quote :: s ++ c_quote :: tail)) with (c_quote :: firstn (S (length s)) (s ++ c_quote :: tail)).
      f_equal.
      replace (s ++ c_quote :: tail) with ((s ++ [c_quote]) ++ tail) by (rewrite <- app_assoc; reflexivity).
      replace (S (length s)) with (length (s ++ [c_quote])) by (rewrite app_length; simpl; lia).
      apply firstn_exact.
    - simpl. rewrite app_length. simpl. lia.
    - change ([c_quote] ++ s ++ [c_quote]) with (c_quote :: (s ++ [c_quote])).
      rewrite count_newlines_cons, count_newlines_app. change (count_newlines [c_quote]) with 0%N. change (N.eqb c_quote 10) with false. cbv iota. rewrite N.add_0_l, N.add_0_r. reflexivity. }
  destruct (mem_N c [32%N; 13%N; 9%N]) eqn:Eb.
  { injection H as <- <- <-. exists c, r.
    unfold mem_N in Eb. cbn [existsb] in Eb. unfold is_blank.
    rewrite count_newlines_cons. change (count_newlines []) with 0%N.
    destruct (N.eqb c 32) eqn:E32; [apply N.eqb_eq in E32; subst c; repeat split; reflexivity|].
    destruct (N.eqb c 13) eqn:E13; [apply N.eqb_eq in E13; subst c; repeat split; reflexivity|].
    destruct (N.eqb c 9) eqn:E9; [apply N.eqb_eq in E9; subst c; repeat split; reflexivity|].
    discriminate Eb. }
  destruct (N.eqb c c_newline) eqn:En.
  { injection H as <- <- <-. exists c, r. apply N.eqb_eq in En. subst c. repeat split; reflexivity. }
  destruct (ident_scan (c :: r)) as [|i id] eqn:Ei; [discriminate|].
  destruct (ident_scan_text (c :: r)) as [tail [Ht Hnn]]. rewrite Ei in Ht, Hnn.
  assert (Hkw : forall k, assoc_text (i :: id) keywords = Some k -> match k with TStr _ => False | TEOT => False | _ => True end)
    by (intros k Hk; exact (keywords_not_string (i :: id) k Hk)).
  destruct (assoc_text (i :: id) keywords) as [k|] eqn:Ek; injection H as <- <- <-.
  - specialize (Hkw k eq_refl). unfold token_text.
    destruct k; try contradiction; cbn [t_kind tok t_lexeme t_line t_file]; repeat split; try reflexivity; try discriminate;
      try (rewrite Ht; apply (firstn_exact (i :: id) tail)); try (symmetry; apply count_newlines_none; exact Hnn).
  - unfold token_text. cbn [t_kind tok t_lexeme t_line t_file]. repeat split; try reflexivity; try discriminate.
    + rewrite Ht. apply (firstn_exact (i :: id) tail).
    + symmetry. apply count_newlines_none; exact Hnn.
Qed.

Lemma lex_loop_nonempty fuel : forall rest pos line file prev ts, lex_loop fuel rest pos line file prev = Ok ts -> ts <> [].
Proof.
  induction fuel as [|f IH]; intros rest pos line file prev ts H.
  - destruct rest; simpl in H; [injection H as <-; discriminate|discriminate].
  - destruct rest as [|c r]; [simpl in H; injection H as <-; discriminate|].
    cbn [lex_loop] in H. destruct (consume (c :: r) line file prev) as [[[t n] l]| | |]; cbn [bind] in H; try discriminate.
    destruct t as [tk|]; [|eapply IH; exact H].
    destruct (lex_loop f _ _ _ _ _) as [ts0| | |]; cbn [bind] in H; try discriminate. injection H as <-. discriminate.
Qed.

Lemma accounts_line_eq file rest pos l1 l2 ts : l1 = l2 -> accounts file rest pos l1 ts -> accounts file rest pos l2 ts.
Proof. intros ->. auto. Qed.

Lemma nl_cons_blank c blanks : (count_newlines [c] + count_newlines blanks = count_newlines (c :: blanks))%N.
Proof. rewrite (count_newlines_cons c blanks), (count_newlines_cons c []). change (count_newlines []) with 0%N. lia. Qed.

Lemma accounts_blank_cons file c r pos line ts : is_blank c = true ->
  accounts file r (pos + 1) (line + count_newlines [c])%N ts -> accounts file (c :: r) pos line ts.
Proof.
  intros Hb H. destruct ts as [|[t [st ln]] ts']; [exact H|]. cbn [accounts] in *.
  destruct ts' as [|x ts''].
  - destruct H as (Hr & -> & -> & ->). repeat split; auto.
    + simpl. rewrite Hb, Hr. reflexivity.
    + simpl. lia.
  - destruct H as (blanks & tail & -> & Hbl & -> & -> & Hline & Hfile & Hacc).
    exists (c :: blanks), tail. split; [reflexivity|]. split; [simpl; rewrite Hb, Hbl; reflexivity|].
    split; [simpl; lia|]. split; [reflexivity|]. pose proof (nl_cons_blank c blanks) as Hnl. unfold char, text in *.
    split; [rewrite Hline, <- Hnl, N.add_assoc; reflexivity|]. split; [exact Hfile|].
    replace (pos + length (c :: blanks) + length (token_text t)) with (pos + 1 + length blanks + length (token_text t)) by (simpl; lia).
    eapply accounts_line_eq; [|exact Hacc]. rewrite <- Hnl, N.add_assoc. reflexivity.
Qed.

Theorem lex_loop_accounts fuel : forall rest pos line file prev ts,
  lex_loop fuel rest pos line file prev = Ok ts -> accounts file rest pos line ts.
Proof.
  induction fuel as [|f IH]; intros rest pos line file prev ts H.
  - destruct rest; simpl in H; [|discriminate]. injection H as <-. simpl. repeat split; auto.
  - destruct rest as [|c r]; [simpl in H; injection H as <-; simpl; repeat split; auto|].
    cbn [lex_loop] in H.
    destruct (consume (c :: r) line file prev) as [[[t n] l]| | |] eqn:E; cbn [bind] in H; try discriminate.
    pose proof (consume_accounts (c :: r) line file prev t n l ltac:(discriminate) E) as Hc.
    destruct t as [tk|].
    + destruct (lex_loop f (skipn n (c :: r)) (pos + n) (line + l)%N file (Some (t_kind tk))) as [ts0| | |] eqn:E0; cbn [bind] in H; try discriminate.
      injection H as <-.
      pose proof (lex_loop_nonempty _ _ _ _ _ _ _ E0) as Hne.
      apply IH in E0. destruct Hc as (Htext & Hn & Hline & Hfile & Hl & Hneot).
      cbn [accounts]. destruct ts0 as [|x ts1]; [congruence|].
      exists [], (skipn n (c :: r)).
      split; [cbn [app]; rewrite <- Htext; symmetry; apply firstn_skipn|].
      split; [reflexivity|]. split; [cbn [length]; lia|]. split; [exact Hn|].
      split; [rewrite Hline; change (count_newlines []) with 0%N; rewrite N.add_0_r; reflexivity|]. split; [exact Hfile|].
      replace (pos + length (@nil N) + n) with (pos + n) by (cbn [length]; lia).
      eapply accounts_line_eq; [|exact E0]. change (count_newlines []) with 0%N. rewrite Hl, N.add_0_r. reflexivity.
    + destruct Hc as (c0 & r0 & Hr & Hb & -> & ->). injection Hr as <- <-.
      apply IH in H. cbn [skipn] in H. apply accounts_blank_cons; assumption.
Qed.

(** On success the tokens, in order, account for every non-blank character of the source exactly once -- string contents
    verbatim, a comment as one token --, end with a single end marker, and every token before it carries the 1-based
    number of the line it is written on *)
Theorem lexer_accounts_for_source src file ts :
  tokenize_spans src file = Ok ts -> accounts file src 0 1%N ts.
Proof. unfold tokenize_spans. apply lex_loop_accounts. Qed.

(* line numbers: the line of a token is 1 + the number of newlines before its first character *)
Lemma accounts_lines file : forall ts rest pos line, accounts file rest pos line ts ->
  forall t st ln, In (t, (st, ln)) ts -> t <> eot file ->
  pos <= st /\ t_line t = (line + count_newlines (firstn (st - pos) rest))%N /\ firstn ln (skipn (st - pos) rest) = token_text t.
Proof.
  induction ts as [|[t0 [st0 ln0]] ts' IH]; intros rest pos line Hacc t st ln Hin Hneot; [destruct Hin|].
  cbn [accounts] in Hacc. destruct ts' as [|x ts''].
  - destruct Hacc as (_ & -> & _ & _). destruct Hin as [Hin|[]]. injection Hin as <- _ _. congruence.
  - destruct Hacc as (blanks & tail & -> & Hbl & -> & -> & Hline & Hfile & Hacc).
    destruct Hin as [Hin|Hin].
    + injection Hin as <- <- <-. split; [lia|].
      replace (pos + length blanks - pos) with (length blanks) by lia. split.
      * rewrite firstn_exact. exact Hline.
      * rewrite skipn_exact. apply firstn_exact.
    + destruct (IH _ _ _ Hacc t st ln Hin Hneot) as (Hle & Hl & Htxt).
      split; [lia|].
      replace (st - pos) with (length (blanks ++ token_text t0) + (st - (pos + length blanks + length (token_text t0)))) by (rewrite app_length; lia).
      rewrite app_assoc. split.
      * rewrite Hl. rewrite firstn_app_2, count_newlines_app, count_newlines_app. lia.
      * rewrite skipn_app, skipn_all2 by lia. rewrite Nat.add_comm, Nat.add_sub. simpl. exact Htxt.
Qed.

Theorem lexer_lines_and_spans src file ts t st ln :
  tokenize_spans src file = Ok ts -> In (t, (st, ln)) ts -> t <> eot file ->
  t_line t = (1 + count_newlines (firstn st src))%N /\ firstn ln (skipn st src) = token_text t.
Proof.
  intros H Hin Hne. apply lexer_accounts_for_source in H.
  destruct (accounts_lines file ts src 0 1%N H t st ln Hin Hne) as (_ & Hl & Ht).
  rewrite Nat.sub_0_r in *. split; assumption.
Qed.
