(** C14 / C15: the token-level module mechanism of the parser model. *)
From Pakhi Require Import Base Float64 Syntax Tables Lexer Parser.
From Pakhi.Proofs Require Import Assoc.
From Coq Require Import Lia.
Local Open Scope nat_scope.

Definition exempt (t : token) : bool := is_builtin (t_lexeme t) || text_eqb (t_lexeme t) platform_const_parser.

(* what the renaming does to one token, given whether the previous token was the import keyword *)
Definition rename_tok (alias : text) (prev_import : bool) (t : token) : token :=
  if tk_is (t_kind t) TIdent then
    if negb prev_import && exempt t then t
    else mkTok (t_kind t) (alias ++ [c_slash] ++ t_lexeme t) (t_line t) (t_file t)
  else t.

Lemma prepend_names_cons t r alias pi :
  prepend_names (t :: r) alias pi = rename_tok alias pi t :: prepend_names r alias (tk_is (t_kind t) TImport).
Proof. reflexivity. Qed.

(** the renaming touches exactly identifier tokens that are not built-in functions or the platform constant (an
    import name is always renamed); strings, keywords, numbers, operators are never touched; positions are kept *)
Theorem prepend_names_spec alias : forall ts pi,
  length (prepend_names ts alias pi) = length ts /\
  forall i t, nth_error ts i = Some t ->
    exists t', nth_error (prepend_names ts alias pi) i = Some t' /\
      t_kind t' = t_kind t /\ t_line t' = t_line t /\ t_file t' = t_file t /\
      (tk_is (t_kind t) TIdent = false -> t' = t) /\
      (t_lexeme t' = t_lexeme t \/ t_lexeme t' = alias ++ [c_slash] ++ t_lexeme t).
Proof.
  induction ts as [|t0 r IH]; intros pi.
  - split; [reflexivity|]. intros [|i] t H; discriminate.
  - rewrite prepend_names_cons. split; [simpl; f_equal; apply IH|].
    intros [|i] t H; simpl in H.
    + injection H as <-. exists (rename_tok alias pi t0). split; [reflexivity|].
      unfold rename_tok. destruct (tk_is (t_kind t0) TIdent) eqn:E.
      * destruct (negb pi && exempt t0); simpl; repeat split; auto; discriminate.
      * repeat split; auto.
    + apply (proj2 (IH (tk_is (t_kind t0) TImport))) in H. exact H.
Qed.

(* built-in functions and constants stay unqualified inside modules (unless the name is used as an import name) *)
Theorem builtins_stay_unqualified alias t : tk_is (t_kind t) TIdent = true -> exempt t = true ->
  rename_tok alias false t = t.
Proof. intros Hk He. unfold rename_tok. rewrite Hk, He. reflexivity. Qed.

(* every other identifier n becomes alias/n *)
Theorem identifiers_are_qualified alias t pi : tk_is (t_kind t) TIdent = true -> exempt t = false ->
  t_lexeme (rename_tok alias pi t) = alias ++ [c_slash] ++ t_lexeme t.
Proof. intros Hk He. unfold rename_tok. rewrite Hk, He. rewrite andb_false_r. reflexivity. Qed.

(* the renaming is injective: different names of a module stay different *)
Theorem qualify_injective (alias x y : text) : alias ++ [c_slash] ++ x = alias ++ [c_slash] ++ y -> x = y.
Proof. intros H. apply app_inv_head in H. apply app_inv_head in H. exact H. Qed.

(* no capture: a qualified name is never equal to a name that does not start with "alias/" ... *)
Theorem qualified_differs_from_unqualified (alias x y : text) :
  firstn (length alias + 1) y <> alias ++ [c_slash] -> alias ++ [c_slash] ++ x <> y.
Proof.
  intros H E. apply H. rewrite <- E. rewrite app_assoc.
  replace (length alias + 1) with (length (alias ++ [c_slash])) by (rewrite app_length; simpl; lia).
  rewrite firstn_app, firstn_all, Nat.sub_diag. simpl. apply app_nil_r.
Qed.

(* ... and two modules imported under different slash-free names have disjoint name sets *)
Lemma split_at_slash (a b x y : text) : ~ In c_slash a -> ~ In c_slash b -> a ++ c_slash :: x = b ++ c_slash :: y -> a = b /\ x = y.
Proof.
  revert b. induction a as [|c a IH]; intros b Ha Hb E.
  - destruct b as [|d b]; simpl in E.
    + injection E as ->. auto.
    + injection E as <- _. exfalso. apply Hb. left. reflexivity.
  - destruct b as [|d b]; simpl in E.
    + injection E as -> _. exfalso. apply Ha. left. reflexivity.
    + injection E as <- E. destruct (IH b) as [-> ->]; auto.
      * intros Hin. apply Ha. right. exact Hin.
      * intros Hin. apply Hb. right. exact Hin.
Qed.

Theorem different_aliases_disjoint (a b x y : text) : ~ In c_slash a -> ~ In c_slash b -> a <> b ->
  a ++ [c_slash] ++ x <> b ++ [c_slash] ++ y.
Proof. intros Ha Hb Hne E. simpl in E. apply split_at_slash in E as [-> _]; auto. Qed.

(* nested imports compose: inside a module imported as A, a module imported as B has its names under A/B/ *)
Theorem nested_qualification (a b x : text) : a ++ [c_slash] ++ (b ++ [c_slash] ++ x) = (a ++ [c_slash] ++ b) ++ [c_slash] ++ x.
Proof. rewrite <- !app_assoc. reflexivity. Qed.

(** _ডাইরেক্টরি: every such identifier of a file becomes the string "directory of that file", before the renaming *)
Theorem dirname_expanded cwd ts loc ts' : expand_dirname cwd ts loc = Ok ts' ->
  length ts' = length ts /\
  forall i t, nth_error ts i = Some t ->
    (tk_is (t_kind t) TIdent && text_eqb (t_lexeme t) dirname_const = false -> nth_error ts' i = Some t) /\
    (tk_is (t_kind t) TIdent && text_eqb (t_lexeme t) dirname_const = true ->
       exists d, dir_string cwd loc = Ok d /\ nth_error ts' i = Some (mkTok (TStr d) d (t_line t) (t_file t))).
Proof.
  unfold expand_dirname. destruct (existsb _ ts) eqn:Ex.
  - destruct (dir_string cwd loc) as [d| | |]; cbn [bind]; try discriminate. intros H; injection H as <-.
    split; [apply map_length|]. intros i t Ht. rewrite nth_error_map, Ht. simpl. split; intros E; rewrite E; eauto.
  - intros H; injection H as <-. split; [reflexivity|]. intros i t Ht. split; [auto|].
    intros E. exfalso. rewrite <- Bool.not_true_iff_false in Ex. apply Ex. apply existsb_exists.
    exists t. split; [eapply nth_error_In; eauto|exact E].
Qed.

(** C15: the import statement *)
Section Import.
Variable fs : text -> option text.
Variable cwd main_path : text.

(* files that led to this import: the main module and the modules whose import names are the '/'-prefixes of [alias] *)
Definition import_chain (alias : text) (mods : list (text * text)) : list text :=
  same_file_key main_path ::
  flat_map (fun pre => match assoc_text pre mods with Some f => [f] | None => [] end) (slash_prefixes [] alias).

(* the state after the import name, '=' and the path tokens have been read: [s1] rests on the ';' *)
Definition import_tail (alias module_path : text) (s1 : pstate) : outcome pstate :=
  if negb (ends_with module_path module_ext) then syntax_here s1 else
  let final := module_file_path main_path module_path in
  if existsb (text_eqb (same_file_key final)) (import_chain alias (ps_mods s1)) then cyclic_err else
  match fs final with
  | None => Err (mkErr0 ERuntime 0 [] TagGeneric)
  | Some src =>
      do toks <- tokenize src final;
      do toks <- expand_dirname cwd toks final;
      let toks := prepend_names toks alias false in
      let ins := filter (fun t => negb (tk_is (t_kind t) TEOT)) toks in
      let tl := last ins (eot []) in
      if tk_is (t_kind tl) TImport then Err (mkErr0 ESyntax (t_line tl) (t_file tl) TagGeneric) else
      match ps_rest s1 with
      | semi :: after =>
          let new_rest := semi :: ins ++ after in
          Ok (mkPs new_rest (ps_prev s1) (last new_rest (ps_last s1)) ((alias, same_file_key final) :: ps_mods s1))
      | [] => Panic SiteVecRange
      end
  end.

(* a module whose file is one of the files that led to this import (a file importing itself included) is rejected with
   the cyclic-dependency error -- before the file is even read, hence before any of its statements exists *)
Theorem cyclic_import_rejected alias module_path s1 :
  ends_with module_path module_ext = true ->
  In (same_file_key (module_file_path main_path module_path)) (import_chain alias (ps_mods s1)) ->
  import_tail alias module_path s1 = cyclic_err.
Proof.
  intros He Hin. unfold import_tail. rewrite He. cbn [negb].
  assert (E : existsb (text_eqb (same_file_key (module_file_path main_path module_path))) (import_chain alias (ps_mods s1)) = true).
  { apply existsb_exists. eexists. split; [exact Hin|apply text_eqb_refl]. }
  rewrite E. reflexivity.
Qed.

(* a path without the .pakhi extension and a missing file are error values *)
Theorem bad_extension_is_error alias module_path s1 : ends_with module_path module_ext = false ->
  import_tail alias module_path s1 = syntax_here s1.
Proof. intros He. unfold import_tail. rewrite He. reflexivity. Qed.

Theorem missing_file_is_error alias module_path s1 :
  ends_with module_path module_ext = true ->
  existsb (text_eqb (same_file_key (module_file_path main_path module_path))) (import_chain alias (ps_mods s1)) = false ->
  fs (module_file_path main_path module_path) = None ->
  import_tail alias module_path s1 = Err (mkErr0 ERuntime 0 [] TagGeneric).
Proof. intros He Hc Hf. unfold import_tail. rewrite He, Hc, Hf. reflexivity. Qed.

(* an accepted import splices the module's tokens right after the import's ';', in place, once, and records its file *)
Theorem import_splices_in_place alias module_path s1 s2 :
  import_tail alias module_path s1 = Ok s2 ->
  exists semi after src toks toks',
    ps_rest s1 = semi :: after /\ fs (module_file_path main_path module_path) = Some src /\
    tokenize src (module_file_path main_path module_path) = Ok toks /\
    expand_dirname cwd toks (module_file_path main_path module_path) = Ok toks' /\
    ps_rest s2 = semi :: filter (fun t => negb (tk_is (t_kind t) TEOT)) (prepend_names toks' alias false) ++ after /\
    tk_is (t_kind (last (filter (fun t => negb (tk_is (t_kind t) TEOT)) (prepend_names toks' alias false)) (eot []))) TImport = false /\
    ps_mods s2 = (alias, same_file_key (module_file_path main_path module_path)) :: ps_mods s1.
Proof.
  unfold import_tail. destruct (negb (ends_with module_path module_ext)).
  { unfold syntax_here. destruct (at_end s1); discriminate. }
  destruct (existsb _ _); [discriminate|].
  destruct (fs (module_file_path main_path module_path)) as [src|] eqn:Ef; [|discriminate].
  destruct (tokenize src _) as [toks| | |] eqn:Et; cbn [bind]; try discriminate.
  destruct (expand_dirname cwd toks _) as [toks'| | |] eqn:Ed; cbn [bind]; try discriminate.
  cbv zeta. destruct (tk_is (t_kind (last _ _)) TImport) eqn:El; [discriminate|].
  destruct (ps_rest s1) as [|semi after] eqn:Er; [discriminate|].
  intros H; injection H as <-. exists semi, after, src, toks, toks'. cbn. auto 10.
Qed.

(* the model's named_module_import is this tail after reading the path *)
Lemma named_module_import_unfold fuel alias s :
  named_module_import fs cwd main_path fuel alias s =
  (let s := adv (adv s) in
   do '(module_path, s1) <- (match hk s with
                             | TStr p => import_path_rest fuel p (adv s)
                             | _ => syntax_here s
                             end);
   import_tail alias module_path s1).
Proof. reflexivity. Qed.
End Import.
