(** C07 (and the address half of C19): two machines that differ only in *where* their containers live -- which arena
    slots hold them, what the free lists look like, what garbage lies around, how large the arenas are, what the
    allocation counters say -- cannot be told apart by any program.  This file defines the relation (a partial
    bijection between list addresses and between record addresses, values related through it, heaps related on its
    domain, free slots outside it) and proves that every heap primitive respects it.  Sim.v lifts it through the
    evaluator, the statements and the run loop. *)
From Pakhi Require Import Base Float64 Syntax Tables Lexer Interp.
From Coq Require Import Lia.
Local Open Scope nat_scope.

Record ren := mkRen { rl : nat -> nat -> Prop; rr : nat -> nat -> Prop }.
Definition ren_le (p q : ren) : Prop := (forall a b, rl p a b -> rl q a b) /\ (forall a b, rr p a b -> rr q a b).
Record bij (p : ren) : Prop := {
  bl_fun : forall a b b', rl p a b -> rl p a b' -> b = b';
  bl_inj : forall a a' b, rl p a b -> rl p a' b -> a = a';
  br_fun : forall a b b', rr p a b -> rr p a b' -> b = b';
  br_inj : forall a a' b, rr p a b -> rr p a' b -> a = a' }.

Lemma ren_le_refl p : ren_le p p. Proof. split; auto. Qed.
Lemma ren_le_trans p q r : ren_le p q -> ren_le q r -> ren_le p r.
Proof. intros [A B] [C D]. split; auto. Qed.

Definition vrel (p : ren) (v1 v2 : value) : Prop :=
  match v1, v2 with
  | VNum x, VNum y => x = y
  | VBool x, VBool y => x = y
  | VStr x, VStr y => x = y
  | VList a, VList b => rl p a b
  | VRec a, VRec b => rr p a b
  | VFun s ps, VFun s' ps' => s = s' /\ ps = ps'
  | VNil, VNil => True
  | _, _ => False
  end.
Definition erel (p : ren) (kv1 kv2 : text * value) : Prop := fst kv1 = fst kv2 /\ vrel p (snd kv1) (snd kv2).

Record hrel (p : ren) (h1 h2 : heap) : Prop := {
  hr_l : forall a b, rl p a b -> exists l1 l2, nth_error (h_lists h1) a = Some l1 /\ nth_error (h_lists h2) b = Some l2 /\ Forall2 (vrel p) l1 l2;
  hr_r : forall a b, rr p a b -> exists r1 r2, nth_error (h_recs h1) a = Some r1 /\ nth_error (h_recs h2) b = Some r2 /\ Forall2 (erel p) r1 r2;
  hr_fl1 : forall a, In a (h_free_lists h1) -> a < length (h_lists h1) /\ forall b, ~ rl p a b;
  hr_fl2 : forall b, In b (h_free_lists h2) -> b < length (h_lists h2) /\ forall a, ~ rl p a b;
  hr_fr1 : forall a, In a (h_free_recs h1) -> a < length (h_recs h1) /\ forall b, ~ rr p a b;
  hr_fr2 : forall b, In b (h_free_recs h2) -> b < length (h_recs h2) /\ forall a, ~ rr p a b;
  hr_nd : NoDup (h_free_lists h1) /\ NoDup (h_free_lists h2) /\ NoDup (h_free_recs h1) /\ NoDup (h_free_recs h2) }.

Record mrel (p : ren) (m1 m2 : machine) : Prop := {
  mr_pc : m_pc m1 = m_pc m2;
  mr_sc : Forall2 (Forall2 (erel p)) (m_scopes m1) (m_scopes m2);
  mr_lp : m_loops m1 = m_loops m2;
  mr_lb : m_loop_base m1 = m_loop_base m2;
  mr_ret : m_ret m1 = m_ret m2;
  mr_h : hrel p (m_heap m1) (m_heap m2);
  mr_out : m_out m1 = m_out m2;
  mr_w : m_world m1 = m_world m2 }.

(** ** monotonicity in the renaming *)
Lemma vrel_mono p q v1 v2 : ren_le p q -> vrel p v1 v2 -> vrel q v1 v2.
Proof. intros [A B]. destruct v1, v2; simpl; auto. Qed.
Lemma erel_mono p q e1 e2 : ren_le p q -> erel p e1 e2 -> erel q e1 e2.
Proof. intros H [A B]. split; auto. eapply vrel_mono; eauto. Qed.
Lemma Forall2_impl {A B} (R S : A -> B -> Prop) l1 l2 : (forall a b, R a b -> S a b) -> Forall2 R l1 l2 -> Forall2 S l1 l2.
Proof. intros H F. induction F; constructor; auto. Qed.
Lemma vrels_mono p q l1 l2 : ren_le p q -> Forall2 (vrel p) l1 l2 -> Forall2 (vrel q) l1 l2.
Proof. intros H. apply Forall2_impl. intros a b. apply vrel_mono. exact H. Qed.
Lemma erels_mono p q l1 l2 : ren_le p q -> Forall2 (erel p) l1 l2 -> Forall2 (erel q) l1 l2.
Proof. intros H. apply Forall2_impl. intros a b. apply erel_mono. exact H. Qed.
Lemma scopes_mono p q s1 s2 : ren_le p q -> Forall2 (Forall2 (erel p)) s1 s2 -> Forall2 (Forall2 (erel q)) s1 s2.
Proof. intros H. apply Forall2_impl. intros a b. apply erels_mono. exact H. Qed.

(** ** values *)
Lemma value_eqb_rel p v1 v2 w1 w2 : bij p -> vrel p v1 v2 -> vrel p w1 w2 -> value_eqb v1 w1 = value_eqb v2 w2.
Proof.
  intros B Hv Hw. destruct v1, v2; simpl in Hv; try contradiction; destruct w1, w2; simpl in Hw; try contradiction; subst; simpl; auto.
  - destruct (Nat.eqb a a1) eqn:E1, (Nat.eqb a0 a2) eqn:E2; auto.
    + apply Nat.eqb_eq in E1. subst. apply Nat.eqb_neq in E2. exfalso. apply E2. eapply bl_fun; eauto.
    + apply Nat.eqb_eq in E2. subst. apply Nat.eqb_neq in E1. exfalso. apply E1. eapply bl_inj; eauto.
  - destruct (Nat.eqb a a1) eqn:E1, (Nat.eqb a0 a2) eqn:E2; auto.
    + apply Nat.eqb_eq in E1. subst. apply Nat.eqb_neq in E2. exfalso. apply E2. eapply br_fun; eauto.
    + apply Nat.eqb_eq in E2. subst. apply Nat.eqb_neq in E1. exfalso. apply E1. eapply br_inj; eauto.
  - destruct Hv as [-> ->]. destruct Hw as [-> ->]. reflexivity.
Qed.

Lemma type_name_rel p v1 v2 : vrel p v1 v2 -> type_name v1 = type_name v2.
Proof. destruct v1, v2; simpl; try contradiction; auto. Qed.

Lemma vrel_refl_scalar p v : (forall a, v <> VList a) -> (forall a, v <> VRec a) -> vrel p v v.
Proof. intros A B. destruct v; simpl; auto; [exfalso; eapply A; reflexivity|exfalso; eapply B; reflexivity]. Qed.

Lemma map_VStr_rel p (l : list text) : Forall2 (vrel p) (map VStr l) (map VStr l).
Proof. induction l; simpl; constructor; simpl; auto. Qed.

(** ** Forall2 over the list operations of the model *)
Lemma Forall2_length' {A B} (R : A -> B -> Prop) l1 l2 : Forall2 R l1 l2 -> length l1 = length l2.
Proof. induction 1; simpl; auto. Qed.
Lemma Forall2_list_set {A B} (R : A -> B -> Prop) l1 l2 i x y : Forall2 R l1 l2 -> R x y -> Forall2 R (list_set l1 i x) (list_set l2 i y).
Proof. intros F Hxy. revert i. induction F; intros [|i]; simpl; constructor; auto. Qed.
Lemma Forall2_insert_at {A B} (R : A -> B -> Prop) l1 l2 i x y : Forall2 R l1 l2 -> R x y -> Forall2 R (insert_at l1 i x) (insert_at l2 i y).
Proof. intros F Hxy. revert i. induction F; intros [|i]; simpl; repeat constructor; auto. Qed.
Lemma Forall2_remove_at {A B} (R : A -> B -> Prop) l1 l2 i : Forall2 R l1 l2 -> Forall2 R (remove_at l1 i) (remove_at l2 i).
Proof. intros F. revert i. induction F; intros [|i]; simpl; try constructor; auto. Qed.
Lemma Forall2_removelast {A B} (R : A -> B -> Prop) l1 l2 : Forall2 R l1 l2 -> Forall2 R (removelast l1) (removelast l2).
Proof. intros F. induction F; simpl; [constructor|]. destruct F; [constructor|]. constructor; auto. Qed.
Lemma Forall2_nth {A B} (R : A -> B -> Prop) l1 l2 i d1 d2 : Forall2 R l1 l2 -> R d1 d2 -> R (nth i l1 d1) (nth i l2 d2).
Proof. intros F Hd. revert i. induction F; intros [|i]; simpl; auto. Qed.
Lemma Forall2_skipn {A B} (R : A -> B -> Prop) l1 l2 n : Forall2 R l1 l2 -> Forall2 R (skipn n l1) (skipn n l2).
Proof. intros F. revert n. induction F; intros [|n]; simpl; try constructor; auto. Qed.
Lemma Forall2_truncate {A B} (R : A -> B -> Prop) l1 l2 n : Forall2 R l1 l2 -> Forall2 R (truncate n l1) (truncate n l2).
Proof. intros F. unfold truncate. rewrite (Forall2_length' _ _ _ F). apply Forall2_skipn. exact F. Qed.
Lemma Forall2_tl {A B} (R : A -> B -> Prop) l1 l2 : Forall2 R l1 l2 -> Forall2 R (tl l1) (tl l2).
Proof. intros F. destruct F; simpl; auto. Qed.

(** ** association lists and scopes *)
Lemma alist_get_rel p k l1 l2 : Forall2 (erel p) l1 l2 ->
  match alist_get k l1, alist_get k l2 with
  | Some v1, Some v2 => vrel p v1 v2
  | None, None => True
  | _, _ => False
  end.
Proof.
  intros F. induction F as [|[k1 v1] [k2 v2] l1 l2 [Hk Hv] F IH]; simpl; auto.
  simpl in Hk. subst k2. destruct (text_eqb k k1); auto.
Qed.
Lemma alist_has_rel p k l1 l2 : Forall2 (erel p) l1 l2 -> alist_has k l1 = alist_has k l2.
Proof. intros F. unfold alist_has. pose proof (alist_get_rel p k l1 l2 F) as H. destruct (alist_get k l1), (alist_get k l2); auto; contradiction. Qed.
Lemma alist_set_rel p k v1 v2 l1 l2 : Forall2 (erel p) l1 l2 -> vrel p v1 v2 -> Forall2 (erel p) (alist_set k v1 l1) (alist_set k v2 l2).
Proof.
  intros F Hv. induction F as [|[k1 w1] [k2 w2] l1 l2 [Hk Hw] F IH]; simpl.
  - repeat constructor; auto.
  - simpl in Hk. subst k2. destruct (text_eqb k k1); constructor; auto; split; auto.
Qed.

Lemma lookup_var_rel p x s1 s2 : Forall2 (Forall2 (erel p)) s1 s2 ->
  match lookup_var x s1, lookup_var x s2 with
  | Some v1, Some v2 => vrel p v1 v2
  | None, None => True
  | _, _ => False
  end.
Proof.
  intros F. induction F as [|a b s1 s2 Hab F IH]; simpl; auto.
  pose proof (alist_get_rel p x a b Hab) as H. destruct (alist_get x a), (alist_get x b); auto; contradiction.
Qed.

Lemma assign_var_rel p x v1 v2 s1 s2 : Forall2 (Forall2 (erel p)) s1 s2 -> vrel p v1 v2 ->
  match assign_var x v1 s1, assign_var x v2 s2 with
  | Some t1, Some t2 => Forall2 (Forall2 (erel p)) t1 t2
  | None, None => True
  | _, _ => False
  end.
Proof.
  intros F Hv. induction F as [|a b s1 s2 Hab F IH]; simpl; auto.
  rewrite (alist_has_rel p x a b Hab). destruct (alist_has x b).
  - constructor; auto. apply alist_set_rel; auto.
  - destruct (assign_var x v1 s1), (assign_var x v2 s2); auto; try contradiction.
Qed.

(** ** heap primitives *)
Lemma get_list_rel p h1 h2 a b : hrel p h1 h2 -> rl p a b ->
  exists l1 l2, get_list h1 a = Ok l1 /\ get_list h2 b = Ok l2 /\ Forall2 (vrel p) l1 l2.
Proof. intros H R. destruct (hr_l _ _ _ H a b R) as (l1 & l2 & E1 & E2 & F). exists l1, l2. unfold get_list. rewrite E1, E2. auto. Qed.
Lemma get_rec_rel p h1 h2 a b : hrel p h1 h2 -> rr p a b ->
  exists l1 l2, get_rec h1 a = Ok l1 /\ get_rec h2 b = Ok l2 /\ Forall2 (erel p) l1 l2.
Proof. intros H R. destruct (hr_r _ _ _ H a b R) as (l1 & l2 & E1 & E2 & F). exists l1, l2. unfold get_rec. rewrite E1, E2. auto. Qed.

Lemma nth_error_list_set_eq {A} (l : list A) i v : i < length l -> nth_error (list_set l i v) i = Some v.
Proof. revert i. induction l; intros [|i] H; simpl in *; try lia; auto. apply IHl. lia. Qed.
Lemma nth_error_list_set_neq {A} (l : list A) i j v : i <> j -> nth_error (list_set l i v) j = nth_error l j.
Proof. revert i j. induction l; intros [|i] [|j] H; simpl; auto; try congruence. Qed.
Lemma list_set_length' {A} (l : list A) i v : length (list_set l i v) = length l.
Proof. revert i; induction l; intros [|i]; simpl; auto. Qed.
Lemma nth_error_lt {A} (l : list A) i x : nth_error l i = Some x -> i < length l.
Proof. intros H. apply nth_error_Some. congruence. Qed.

Lemma hrel_put_list p h1 h2 a b l1 l2 : bij p -> hrel p h1 h2 -> rl p a b -> Forall2 (vrel p) l1 l2 ->
  hrel p (put_list h1 a l1) (put_list h2 b l2).
Proof.
  intros B H R F. destruct (hr_l _ _ _ H a b R) as (o1 & o2 & E1 & E2 & _).
  apply nth_error_lt in E1. apply nth_error_lt in E2.
  constructor; simpl; try rewrite !list_set_length'; try apply H.
  intros a' b' R'. destruct (Nat.eq_dec a' a) as [->|Na].
  - assert (b' = b) by (eapply bl_fun; eauto). subst b'.
    exists l1, l2. rewrite !nth_error_list_set_eq by assumption. auto.
  - assert (b' <> b) by (intros ->; apply Na; eapply bl_inj; eauto).
    rewrite !nth_error_list_set_neq by congruence. apply H. exact R'.
Qed.

Lemma hrel_put_rec p h1 h2 a b l1 l2 : bij p -> hrel p h1 h2 -> rr p a b -> Forall2 (erel p) l1 l2 ->
  hrel p (put_rec h1 a l1) (put_rec h2 b l2).
Proof.
  intros B H R F. destruct (hr_r _ _ _ H a b R) as (o1 & o2 & E1 & E2 & _).
  apply nth_error_lt in E1. apply nth_error_lt in E2.
  constructor; simpl; try rewrite !list_set_length'; try apply H.
  intros a' b' R'. destruct (Nat.eq_dec a' a) as [->|Na].
  - assert (b' = b) by (eapply br_fun; eauto). subst b'.
    exists l1, l2. rewrite !nth_error_list_set_eq by assumption. auto.
  - assert (b' <> b) by (intros ->; apply Na; eapply br_inj; eauto).
    rewrite !nth_error_list_set_neq by congruence. apply H. exact R'.
Qed.

(* one-sided description of an allocation *)
Lemma alloc_list_spec h l a h' : (forall x, In x (h_free_lists h) -> x < length (h_lists h)) -> NoDup (h_free_lists h) ->
  alloc_list h l = (a, h') ->
  nth_error (h_lists h') a = Some l /\ (forall x, x <> a -> nth_error (h_lists h') x = nth_error (h_lists h) x) /\
  (In a (h_free_lists h) \/ a = length (h_lists h)) /\
  (forall x, In x (h_free_lists h') -> In x (h_free_lists h) /\ x <> a) /\ NoDup (h_free_lists h') /\
  length (h_lists h) <= length (h_lists h') /\
  h_recs h' = h_recs h /\ h_free_recs h' = h_free_recs h.
Proof.
  intros Hr Hn. unfold alloc_list. destruct (h_free_lists h) as [|x fr] eqn:E; intros H; injection H as <- <-; simpl.
  - split; [rewrite nth_error_app2 by lia; rewrite Nat.sub_diag; reflexivity|].
    split.
    { intros x Hx. destruct (Nat.lt_ge_cases x (length (h_lists h))) as [L|G].
      * rewrite nth_error_app1 by lia. reflexivity.
      * transitivity (@None (list value)); [apply nth_error_None; rewrite app_length; simpl; lia|symmetry; apply nth_error_None; lia]. }
    split; [right; reflexivity|]. split; [intros x []|]. split; [constructor|]. split; [rewrite app_length; lia|]. split; reflexivity.
  - assert (Hx : x < length (h_lists h)) by (apply Hr; left; reflexivity).
    inversion Hn as [|x' fr' Hnotin Hnd]; subst.
    split; [apply nth_error_list_set_eq; assumption|].
    split; [intros y Hy; apply nth_error_list_set_neq; congruence|].
    split; [left; left; reflexivity|].
    split; [intros y Hy; split; [right; exact Hy|intros ->; contradiction]|].
    split; [exact Hnd|]. split; [rewrite list_set_length'; lia|]. split; reflexivity.
Qed.

Lemma alloc_rec_spec h l a h' : (forall x, In x (h_free_recs h) -> x < length (h_recs h)) -> NoDup (h_free_recs h) ->
  alloc_rec h l = (a, h') ->
  nth_error (h_recs h') a = Some l /\ (forall x, x <> a -> nth_error (h_recs h') x = nth_error (h_recs h) x) /\
  (In a (h_free_recs h) \/ a = length (h_recs h)) /\
  (forall x, In x (h_free_recs h') -> In x (h_free_recs h) /\ x <> a) /\ NoDup (h_free_recs h') /\
  length (h_recs h) <= length (h_recs h') /\
  h_lists h' = h_lists h /\ h_free_lists h' = h_free_lists h.
Proof.
  intros Hr Hn. unfold alloc_rec. destruct (h_free_recs h) as [|x fr] eqn:E; intros H; injection H as <- <-; simpl.
  - split; [rewrite nth_error_app2 by lia; rewrite Nat.sub_diag; reflexivity|].
    split.
    { intros x Hx. destruct (Nat.lt_ge_cases x (length (h_recs h))) as [L|G].
      * rewrite nth_error_app1 by lia. reflexivity.
      * transitivity (@None (list (text * value))); [apply nth_error_None; rewrite app_length; simpl; lia|symmetry; apply nth_error_None; lia]. }
    split; [right; reflexivity|]. split; [intros x []|]. split; [constructor|]. split; [rewrite app_length; lia|]. split; reflexivity.
  - assert (Hx : x < length (h_recs h)) by (apply Hr; left; reflexivity).
    inversion Hn as [|x' fr' Hnotin Hnd]; subst.
    split; [apply nth_error_list_set_eq; assumption|].
    split; [intros y Hy; apply nth_error_list_set_neq; congruence|].
    split; [left; left; reflexivity|].
    split; [intros y Hy; split; [right; exact Hy|intros ->; contradiction]|].
    split; [exact Hnd|]. split; [rewrite list_set_length'; lia|]. split; reflexivity.
Qed.

(* extend the renaming by one fresh pair of list addresses / record addresses *)
Definition ext_l (p : ren) (a b : nat) : ren := mkRen (fun x y => rl p x y \/ (x = a /\ y = b)) (rr p).
Definition ext_r (p : ren) (a b : nat) : ren := mkRen (rl p) (fun x y => rr p x y \/ (x = a /\ y = b)).

Lemma ext_l_le p a b : ren_le p (ext_l p a b). Proof. split; simpl; auto. Qed.
Lemma ext_r_le p a b : ren_le p (ext_r p a b). Proof. split; simpl; auto. Qed.
Lemma ext_l_bij p a b : bij p -> (forall y, ~ rl p a y) -> (forall x, ~ rl p x b) -> bij (ext_l p a b).
Proof.
  intros B Fa Fb. constructor; simpl; try apply B.
  - intros x y y' [H|[-> ->]] [H'|[E ->]]; auto.
    + eapply bl_fun; eauto. + subst. exfalso. eapply Fa; eauto. + exfalso. eapply Fa; eauto.
  - intros x x' y [H|[-> ->]] [H'|[-> E]]; auto.
    + eapply bl_inj; eauto. + subst. exfalso. eapply Fb; eauto. + exfalso. eapply Fb; eauto.
Qed.
Lemma ext_r_bij p a b : bij p -> (forall y, ~ rr p a y) -> (forall x, ~ rr p x b) -> bij (ext_r p a b).
Proof.
  intros B Fa Fb. constructor; simpl; try apply B.
  - intros x y y' [H|[-> ->]] [H'|[E ->]]; auto.
    + eapply br_fun; eauto. + subst. exfalso. eapply Fa; eauto. + exfalso. eapply Fa; eauto.
  - intros x x' y [H|[-> ->]] [H'|[-> E]]; auto.
    + eapply br_inj; eauto. + subst. exfalso. eapply Fb; eauto. + exfalso. eapply Fb; eauto.
Qed.

Lemma hrel_fresh_l1 p h1 h2 a : hrel p h1 h2 -> In a (h_free_lists h1) \/ a = length (h_lists h1) -> forall y, ~ rl p a y.
Proof.
  intros H [Hin| ->] y R; [eapply (hr_fl1 _ _ _ H); eauto|].
  destruct (hr_l _ _ _ H _ _ R) as (l1 & _ & E & _). apply nth_error_lt in E. lia.
Qed.
Lemma hrel_fresh_l2 p h1 h2 b : hrel p h1 h2 -> In b (h_free_lists h2) \/ b = length (h_lists h2) -> forall x, ~ rl p x b.
Proof.
  intros H [Hin| ->] x R; [eapply (hr_fl2 _ _ _ H); eauto|].
  destruct (hr_l _ _ _ H _ _ R) as (_ & l2 & _ & E & _). apply nth_error_lt in E. lia.
Qed.
Lemma hrel_fresh_r1 p h1 h2 a : hrel p h1 h2 -> In a (h_free_recs h1) \/ a = length (h_recs h1) -> forall y, ~ rr p a y.
Proof.
  intros H [Hin| ->] y R; [eapply (hr_fr1 _ _ _ H); eauto|].
  destruct (hr_r _ _ _ H _ _ R) as (l1 & _ & E & _). apply nth_error_lt in E. lia.
Qed.
Lemma hrel_fresh_r2 p h1 h2 b : hrel p h1 h2 -> In b (h_free_recs h2) \/ b = length (h_recs h2) -> forall x, ~ rr p x b.
Proof.
  intros H [Hin| ->] x R; [eapply (hr_fr2 _ _ _ H); eauto|].
  destruct (hr_r _ _ _ H _ _ R) as (_ & l2 & _ & E & _). apply nth_error_lt in E. lia.
Qed.

(** allocation on both sides: the two fresh slots become related *)
Lemma hrel_alloc_list p h1 h2 l1 l2 a1 g1 a2 g2 : bij p -> hrel p h1 h2 -> Forall2 (vrel p) l1 l2 ->
  alloc_list h1 l1 = (a1, g1) -> alloc_list h2 l2 = (a2, g2) ->
  let q := ext_l p a1 a2 in ren_le p q /\ bij q /\ rl q a1 a2 /\ hrel q g1 g2.
Proof.
  intros B H F E1 E2 q.
  destruct (hr_nd _ _ _ H) as (N1 & N2 & N3 & N4).
  destruct (alloc_list_spec _ _ _ _ (fun x Hx => proj1 (hr_fl1 _ _ _ H x Hx)) N1 E1) as (S1 & O1 & Fr1 & Fl1 & Nd1 & Le1 & Rc1 & Fc1).
  destruct (alloc_list_spec _ _ _ _ (fun x Hx => proj1 (hr_fl2 _ _ _ H x Hx)) N2 E2) as (S2 & O2 & Fr2 & Fl2 & Nd2 & Le2 & Rc2 & Fc2).
  pose proof (hrel_fresh_l1 _ _ _ _ H Fr1) as Fa. pose proof (hrel_fresh_l2 _ _ _ _ H Fr2) as Fb.
  assert (Hle : ren_le p q) by apply ext_l_le.
  split; [exact Hle|]. split; [apply ext_l_bij; auto|]. split; [simpl; auto|].
  constructor.
  - intros x y [R|[-> ->]].
    + destruct (hr_l _ _ _ H _ _ R) as (o1 & o2 & X1 & X2 & Fo).
      exists o1, o2. rewrite O1, O2; [|intros ->; eapply Fb; eauto|intros ->; eapply Fa; eauto].
      repeat split; auto. eapply vrels_mono; eauto.
    + exists l1, l2. repeat split; auto. eapply vrels_mono; eauto.
  - rewrite Rc1, Rc2. intros x y R. destruct (hr_r _ _ _ H _ _ R) as (o1 & o2 & X1 & X2 & Fo).
    exists o1, o2. repeat split; auto. eapply erels_mono; eauto.
  - intros x Hx. destruct (Fl1 x Hx) as [Hin Hne]. destruct (hr_fl1 _ _ _ H x Hin) as [L Nr]. split; [lia|].
    intros y [R|[-> _]]; [eapply Nr; eauto|congruence].
  - intros y Hy. destruct (Fl2 y Hy) as [Hin Hne]. destruct (hr_fl2 _ _ _ H y Hin) as [L Nr]. split; [lia|].
    intros x [R|[_ ->]]; [eapply Nr; eauto|congruence].
  - rewrite Rc1, Fc1. apply H.
  - rewrite Rc2, Fc2. apply H.
  - rewrite Fc1, Fc2. auto.
Qed.

Lemma hrel_alloc_rec p h1 h2 l1 l2 a1 g1 a2 g2 : bij p -> hrel p h1 h2 -> Forall2 (erel p) l1 l2 ->
  alloc_rec h1 l1 = (a1, g1) -> alloc_rec h2 l2 = (a2, g2) ->
  let q := ext_r p a1 a2 in ren_le p q /\ bij q /\ rr q a1 a2 /\ hrel q g1 g2.
Proof.
  intros B H F E1 E2 q.
  destruct (hr_nd _ _ _ H) as (N1 & N2 & N3 & N4).
  destruct (alloc_rec_spec _ _ _ _ (fun x Hx => proj1 (hr_fr1 _ _ _ H x Hx)) N3 E1) as (S1 & O1 & Fr1 & Fl1 & Nd1 & Le1 & Rc1 & Fc1).
  destruct (alloc_rec_spec _ _ _ _ (fun x Hx => proj1 (hr_fr2 _ _ _ H x Hx)) N4 E2) as (S2 & O2 & Fr2 & Fl2 & Nd2 & Le2 & Rc2 & Fc2).
  pose proof (hrel_fresh_r1 _ _ _ _ H Fr1) as Fa. pose proof (hrel_fresh_r2 _ _ _ _ H Fr2) as Fb.
  assert (Hle : ren_le p q) by apply ext_r_le.
  split; [exact Hle|]. split; [apply ext_r_bij; auto|]. split; [simpl; auto|].
  constructor.
  - rewrite Rc1, Rc2. intros x y R. destruct (hr_l _ _ _ H _ _ R) as (o1 & o2 & X1 & X2 & Fo).
    exists o1, o2. repeat split; auto. eapply vrels_mono; eauto.
  - intros x y [R|[-> ->]].
    + destruct (hr_r _ _ _ H _ _ R) as (o1 & o2 & X1 & X2 & Fo).
      exists o1, o2. rewrite O1, O2; [|intros ->; eapply Fb; eauto|intros ->; eapply Fa; eauto].
      repeat split; auto. eapply erels_mono; eauto.
    + exists l1, l2. repeat split; auto. eapply erels_mono; eauto.
  - rewrite Rc1, Fc1. apply H.
  - rewrite Rc2, Fc2. apply H.
  - intros x Hx. destruct (Fl1 x Hx) as [Hin Hne]. destruct (hr_fr1 _ _ _ H x Hin) as [L Nr]. split; [lia|].
    intros y [R|[-> _]]; [eapply Nr; eauto|congruence].
  - intros y Hy. destruct (Fl2 y Hy) as [Hin Hne]. destruct (hr_fr2 _ _ _ H y Hin) as [L Nr]. split; [lia|].
    intros x [R|[_ ->]]; [eapply Nr; eauto|congruence].
  - rewrite Fc1, Fc2. auto.
Qed.
