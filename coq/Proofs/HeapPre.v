(** A generic frame theorem for the heap: any preorder on heaps that the four heap primitives of the interpreter
    respect (allocation of a list / of a record, replacing the contents of a list slot / of a record slot) is respected
    by every expression, every built-in, every statement and every call, for every fuel.  Used by C08 (allocation
    accounting: HeapBound.v). *)
From Pakhi Require Import Base Float64 Syntax Tables Lexer Interp.
From Coq Require Import Lia.
Local Open Scope nat_scope.

Section HeapPre.
Variable Q : heap -> heap -> Prop.
Hypothesis Qrefl : forall h, Q h h.
Hypothesis Qtrans : forall a b c, Q a b -> Q b c -> Q a c.
Hypothesis Qalloc_list : forall h l, Q h (snd (alloc_list h l)).
Hypothesis Qalloc_rec : forall h r, Q h (snd (alloc_rec h r)).
Hypothesis Qput_list : forall h a l, Q h (put_list h a l).
Hypothesis Qput_rec : forall h a r, Q h (put_rec h a r).

Definition R_h {A} (h : heap) (proj : A -> machine) (x : outcome A) : Prop :=
  match x with Ok a => Q h (m_heap (proj a)) | _ => True end.

Lemma Rh_bind {A B} h (pa : A -> machine) (pb : B -> machine) (x : outcome A) (f : A -> outcome B) :
  R_h h pa x -> (forall a, x = Ok a -> R_h (m_heap (pa a)) pb (f a)) -> R_h h pb (bind x f).
Proof.
  intros Hx Hf. destruct x as [a|e|s|]; simpl in *; auto.
  specialize (Hf a eq_refl). destruct (f a) as [b|e|s|]; simpl in *; auto. eapply Qtrans; eauto.
Qed.

Variable code : list fstmt.

Lemma Rh_fail_here {A} h k m (p : A -> machine) : R_h h p (fail_here code k m).
Proof. unfold fail_here, unexpected_at. destruct (stmt_at code (m_pc m)); exact I. Qed.
Lemma Rh_fail_at {A} h k q m (p : A -> machine) : R_h h p (fail_at k q m).
Proof. exact I. Qed.
Lemma Rh_unexpected {A} h m (p : A -> machine) : R_h h p (unexpected_at m).
Proof. exact I. Qed.

Definition snd2 {A} (x : A * machine) : machine := snd x.

Section Loops.
Variable ev : expr -> machine -> outcome (value * machine).
Hypothesis Hev : forall e m, R_h (m_heap m) snd2 (ev e m).

Lemma eval_list_h es : forall m, R_h (m_heap m) snd2 (eval_list ev es m).
Proof.
  induction es as [|e r IH]; intros m; simpl; [apply Qrefl|].
  eapply Rh_bind; [apply Hev|]. intros [v m1] _. simpl.
  eapply Rh_bind; [apply IH|]. intros [vs m2] _. simpl. apply Qrefl.
Qed.

Lemma eval_rec_h ks : forall vs acc m, R_h (m_heap m) snd2 (eval_rec ev ks vs acc m).
Proof.
  induction ks as [|k ks IH]; intros vs acc m; simpl; [apply Qrefl|].
  eapply Rh_bind; [apply Hev|]. intros [kv m1] _. simpl.
  destruct kv; try apply IH.
  destruct vs as [|v vs]; [exact I|].
  eapply Rh_bind; [apply Hev|]. intros [vv m2] _. simpl. apply IH.
Qed.

Lemma bind_args_h ps : forall args env m, R_h (m_heap m) snd2 (bind_args ev ps args env m).
Proof.
  induction ps as [|p ps IH]; intros args env m; simpl; [apply Qrefl|].
  destruct args as [|a args]; [apply IH|].
  eapply Rh_bind; [apply Hev|]. intros [v m1] _. simpl. apply IH.
Qed.
End Loops.

Lemma builtin_h op args m : R_h (m_heap m) snd2 (builtin_op code op args m).
Proof.
  unfold builtin_op.
  assert (Hf : R_h (m_heap m) snd2 (@rt_err code (value * machine) m)) by apply Rh_fail_here.
  repeat match goal with
  | |- R_h _ _ (if Nat.eqb ?a ?b then _ else _) => destruct (Nat.eqb a b)
  end;
  repeat match goal with
  | |- R_h _ _ (Ok (_, set_heap _ (put_list _ _ _))) => apply Qput_list
  | |- R_h _ _ (Ok (_, set_world _ _)) => apply Qrefl
  | |- R_h _ _ (Ok (_, ?mm)) => apply Qrefl
  | |- R_h _ _ (rt_err _ _) => exact Hf
  | |- R_h _ _ (Panic _) => exact I
  | |- R_h _ _ (Err _) => exact I
  | |- R_h _ _ (match ?x with _ => _ end) => is_var x; destruct x
  | |- R_h _ _ (bind (get_list ?h ?a) _) => unfold get_list; destruct (nth_error (h_lists h) a); cbn [bind]
  | |- R_h _ _ (bind (here _ ?mm) _) => unfold here; destruct (stmt_at code (m_pc mm)); cbn [bind]
  | |- R_h _ _ (match fs_get ?a ?b with _ => _ end) => destruct (fs_get a b) as [[?| |]|]
  | |- R_h _ _ (if ?c then _ else _) => destruct c
  | |- R_h _ _ (match valid_index ?a ?b with _ => _ end) => destruct (valid_index a b)
  | |- R_h _ _ (match parse_f64 ?a with _ => _ end) => destruct (parse_f64 a)
  | |- R_h _ _ (match w_stdin ?a with _ => _ end) => destruct (w_stdin a)
  | |- R_h _ _ (match mkdirs ?a ?b with _ => _ end) => destruct (mkdirs a b)
  | |- R_h _ _ (let '(_, _) := alloc_list ?a ?b in _) =>
        let H := fresh in pose proof (Qalloc_list a b) as H; destruct (alloc_list a b); simpl in H; simpl; exact H
  | |- R_h _ _ (let p := _ in _) => cbv zeta
  end.
Qed.

Lemma call_builtin_h name p args m : R_h (m_heap m) snd2 (call_builtin code name p args m).
Proof. unfold call_builtin. destruct (assoc_text name builtin_ops); [apply builtin_h|exact I]. Qed.

Lemma emit_all_heap cs : forall m, m_heap (emit_all m cs) = m_heap m.
Proof. unfold emit_all. induction cs as [|c cs IH]; intros m; simpl; auto. rewrite IH. reflexivity. Qed.

Lemma do_print_h eol v m : R_h (m_heap m) (fun x => x) (do_print code eol v m).
Proof.
  unfold do_print. cbv zeta.
  destruct v; try apply Rh_fail_here.
  - destruct (to_bn_num x); [|apply Rh_fail_here]. simpl. apply Qrefl.
  - simpl. apply Qrefl.
  - simpl. apply Qrefl.
  - destruct (printable (depth_fuel m) (m_heap m) (VList a)) as [ok| | |]; cbn [bind R_h]; auto.
    destruct ok; [|apply Rh_fail_here].
    destruct (render_nested (depth_fuel m) (m_heap m) (VList a)) as [cs| | |]; cbn [bind R_h]; auto.
    simpl. rewrite emit_all_heap. apply Qrefl.
  - destruct (printable (depth_fuel m) (m_heap m) (VRec a)) as [ok| | |]; cbn [bind R_h]; auto.
    destruct ok; [|apply Rh_fail_here].
    destruct (render_nested (depth_fuel m) (m_heap m) (VRec a)) as [cs| | |]; cbn [bind R_h]; auto.
    simpl. rewrite emit_all_heap. apply Qrefl.
Qed.

Lemma assign_path_h path : forall m c v p, R_h (m_heap m) (fun x => x) (assign_path m c path v p).
Proof.
  induction path as [|ix rest IH]; intros m c v p; simpl; [exact I|].
  destruct c; destruct ix; try exact I.
  - unfold get_list. destruct (nth_error _ _) as [l|]; cbn [bind]; [|exact I].
    destruct (valid_index _ _); [|exact I]. destruct rest; [simpl; apply Qput_list|apply IH].
  - unfold get_rec. destruct (nth_error _ _) as [r|]; cbn [bind]; [|exact I].
    destruct rest; [simpl; apply Qput_rec|]. destruct (alist_get k r); [apply IH|exact I].
Qed.

Lemma skip_then_h {A} h m pc (k : nat -> outcome A) (p : A -> machine) :
  (forall pc2, R_h h p (k pc2)) -> R_h h p (bind (skip_block_from code m pc) k).
Proof. intros Hk. destruct (skip_block_from code m pc) as [pc2|e|s|]; simpl; auto. Qed.

Lemma skip_chain_h m k : forall pc, R_h (m_heap m) (fun x => x) (skip_chain code m k pc).
Proof.
  induction k as [|k IHk]; intros pc; [exact I|]. cbn [skip_chain].
  apply skip_then_h. intros pc2. destruct (stmt_at code pc2) as [[]|]; try (simpl; apply Qrefl). apply IHk.
Qed.

Section Steps.
Variable ev : expr -> machine -> outcome (value * machine).
Variable cl : machine -> outcome machine.
Variable ip : machine -> outcome machine.
Hypothesis Hev : forall e m, R_h (m_heap m) snd2 (ev e m).
Hypothesis Hcl : forall m, R_h (m_heap m) (fun x => x) (cl m).
Hypothesis Hip : forall m, R_h (m_heap m) (fun x => x) (ip m).

Lemma eval_indexes_h is : forall m, R_h (m_heap m) snd2 (eval_indexes ev is m).
Proof.
  induction is as [|i1 r IH]; intros m0; simpl; [apply Qrefl|].
  eapply Rh_bind; [apply Hev|]. intros [iv m2] _. simpl.
  destruct iv; try exact I.
  unfold get_list. destruct (nth_error _ _) as [l|]; cbn [bind]; [|exact I].
  destruct l as [|[ | | | | | | ] ?]; try exact I;
    (eapply Rh_bind; [apply IH|]; intros [pp m3] _; simpl; apply Qrefl).
Qed.

Lemma eval_step_h e m : R_h (m_heap m) snd2 (eval_step code ev cl e m).
Proof.
  destruct e; cbn [eval_step]; try apply Qrefl.
  - destruct (lookup_var x (m_scopes m)); [apply Qrefl|apply Rh_fail_here].
  - eapply Rh_bind; [apply eval_list_h; exact Hev|]. intros [vs m1] _. simpl.
    pose proof (Qalloc_list (m_heap m1) vs) as H. destruct (alloc_list _ _). exact H.
  - eapply Rh_bind; [apply eval_rec_h; exact Hev|]. intros [r m1] _. simpl.
    pose proof (Qalloc_rec (m_heap m1) r) as H. destruct (alloc_rec _ _). exact H.
  - apply Hev.
  - eapply Rh_bind; [apply Hev|]. intros [v m1] _. simpl. destruct v; destruct o; try exact I; apply Qrefl.
  - destruct o;
    (eapply Rh_bind; [apply Hev|]; intros [v1 m1] _; simpl;
     eapply Rh_bind; [apply Hev|]; intros [v2 m2] _; simpl;
     try (destruct v1; destruct v2; try exact I; try apply Qrefl)).
    all: try (unfold get_list; destruct (nth_error _ _); cbn [bind]; [|exact I]; destruct (nth_error _ _); cbn [bind]; [|exact I]; try exact I).
    match goal with |- context [alloc_list ?h ?l] => pose proof (Qalloc_list h l) as H; destruct (alloc_list h l); exact H end.
  - destruct e; try apply Rh_fail_here.
    destruct (is_builtin x).
    + eapply Rh_bind; [apply eval_list_h; exact Hev|]. intros [vs m1] _. simpl. apply call_builtin_h.
    + eapply Rh_bind with (pa := fun _ => m).
      { destruct (lookup_var x (m_scopes m)) as [fv|]; [apply Qrefl|apply Rh_fail_here]. }
      intros fv _. cbn beta.
      destruct fv; try exact I.
      eapply Rh_bind; [apply bind_args_h; exact Hev|]. intros [env m1] _. simpl.
      destruct (stmt_at code start) as [s0|]; [|exact I].
      destruct s0; try exact I.
      eapply (Rh_bind _ (fun x => x)); [exact (Hcl _)|].
      intros m3 _. simpl.
      destruct (stmt_at code (m_pc m3)) as [s3|]; [|apply Rh_fail_here].
      destruct s3; try apply Rh_fail_here.
      destruct (m_ret m3); [exact I|].
      pose proof (Hev e m3) as Hr. destruct (ev e m3) as [[rv m4]| | |]; simpl in *; auto.
      destruct (length (m_scopes m4) <? length (m_scopes m)); simpl; auto.
  - eapply Rh_bind; [apply Hev|]. intros [av m1] _. simpl.
    eapply Rh_bind; [apply Hev|]. intros [iv m2] _. simpl.
    destruct av; destruct iv; try exact I.
    + unfold get_list. destruct (nth_error _ _); cbn [bind]; [|exact I]. destruct (valid_index _ _); [apply Qrefl|exact I].
    + unfold get_rec. destruct (nth_error _ _); cbn [bind]; [|exact I]. destruct (alist_get _ _); [apply Qrefl|exact I].
Qed.

Lemma interp_step_h m : R_h (m_heap m) (fun x => x) (interp_step code ev m).
Proof.
  unfold interp_step. destruct (stmt_at code (m_pc m)) as [s|]; [|exact I].
  destruct s.
  - eapply Rh_bind; [apply Hev|]. intros [v m1] _. simpl. apply do_print_h.
  - eapply Rh_bind; [apply Hev|]. intros [v m1] _. simpl. apply do_print_h.
  - destruct k.
    + destruct init.
      * eapply Rh_bind; [apply Hev|]. intros [v m1] _. simpl. unfold declare. destruct (m_scopes m1); simpl; auto.
      * unfold declare. destruct (m_scopes m); simpl; auto.
    + destruct init; [|exact I].
      eapply Rh_bind; [apply Hev|]. intros [v m1] _. simpl.
      destruct idx.
      * destruct (assign_var x v (m_scopes m1)); [apply Qrefl|apply Rh_fail_here].
      * destruct (lookup_var x (m_scopes m1)) as [c|]; [|apply Rh_fail_here].
        eapply Rh_bind; [apply eval_indexes_h|]. intros [path m2] _. simpl.
        unfold here. destruct (stmt_at code (m_pc m2)); cbn [bind]; [|exact I].
        destruct (lookup_var x (m_scopes m2)) as [c2|]; [|exact I].
        eapply (Rh_bind _ (fun x => x)); [apply assign_path_h|]. intros m3 _. simpl. apply Qrefl.
  - eapply Rh_bind; [apply Hev|]. intros [v m1] _. simpl. apply Qrefl.
  - simpl. apply Qrefl.
  - destruct (length (m_scopes m) <=? 1); [apply Rh_fail_here|simpl; apply Qrefl].
  - destruct (stmt_at code (S (m_pc m))) as [s1|]; [|exact I].
    destruct s1; try exact I.
    destruct e; try exact I. destruct e; try exact I.
    match goal with |- context [match ?n with Some _ => _ | None => _ end] => destruct n end; [|exact I].
    unfold declare. destruct (m_scopes m); simpl; auto.
    apply skip_then_h. intros pc2. destruct (stmt_at code pc2) as [s2|]; [|exact I].
    destruct s2; try exact I. simpl. apply Qrefl.
  - apply Rh_fail_here.
  - eapply Rh_bind; [apply Hev|]. intros [v m1] _. simpl.
    destruct v; try exact I. destruct b; [simpl; apply Qrefl|].
    apply skip_then_h. intros pc2. destruct (stmt_at code pc2) as [[]|]; simpl; apply Qrefl.
  - destruct (stmt_at code (S (m_pc m))) as [s1|]; [|exact I]. destruct s1; try exact I.
    apply skip_then_h. intros pc2. destruct (stmt_at code pc2) as [[]|]; try exact I. simpl. apply Qrefl.
  - destruct (length (m_loops m) <=? m_loop_base m); [apply Rh_fail_here|]. destruct (m_loops m); simpl; auto.
  - destruct (length (m_loops m) <=? m_loop_base m); [apply Rh_fail_here|]. destruct (m_loops m); simpl; auto.
  - apply skip_chain_h.
  - apply Rh_fail_here.
Qed.

Lemma call_loop_step_h m : R_h (m_heap m) (fun x => x) (call_loop_step code ip cl m).
Proof.
  unfold call_loop_step. destruct (stmt_at code (m_pc m)) as [s|]; [|exact I].
  destruct s; try (eapply (Rh_bind _ (fun x => x) (fun x => x)); [apply Hip|intros m1 _; apply Hcl]).
  simpl. apply Qrefl.
Qed.
End Steps.

Theorem heap_pre_fuel : forall f,
  (forall e m, R_h (m_heap m) snd2 (eval code f e m)) /\
  (forall m, R_h (m_heap m) (fun x => x) (call_loop code f m)) /\
  (forall m, R_h (m_heap m) (fun x => x) (interp code f m)).
Proof.
  induction f as [|f (IHe & IHl & IHi)]; [repeat split; intros; exact I|].
  split; [|split].
  - intros e m. apply eval_step_h; assumption.
  - intros m. apply call_loop_step_h; assumption.
  - intros m. apply interp_step_h; assumption.
Qed.

Theorem interp_heap_pre fuel m m' : interp code fuel m = Ok m' -> Q (m_heap m) (m_heap m').
Proof. intros H. destruct (heap_pre_fuel fuel) as (_ & _ & Hi). specialize (Hi m). rewrite H in Hi. exact Hi. Qed.
End HeapPre.
