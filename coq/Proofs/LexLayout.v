(** C11 (and C10's line numbers): blanks are inert for the tokenizer; line numbers are metadata. *)
From Pakhi Require Import Base Float64 Syntax Tables Lexer Parser.
From Pakhi.Proofs Require Import TableFacts LexTotal.
From Coq Require Import Lia.
Local Open Scope nat_scope.
Local Opaque lexer_digits single_ops double_ops keywords numeric_ranges minus_binary_after ident_extra_chars.

Definition is_blank (c : N) : bool := orb (orb (orb (N.eqb c 32) (N.eqb c 9)) (N.eqb c 13)) (N.eqb c 10).

(* a blank is none of the characters that start a token *)
Lemma blank_tables_ok :
  forallb (fun c => match assoc_N c lexer_digits with Some _ => false | None => true end &&
                    match assoc_N c single_ops with Some _ => false | None => true end &&
                    match assoc_N c double_ops with Some _ => false | None => true end) [32; 9; 13; 10]%N = true.
Proof. vm_compute. reflexivity. Qed.

Lemma blank_cases c : is_blank c = true -> c = 32%N \/ c = 9%N \/ c = 13%N \/ c = 10%N.
Proof.
  unfold is_blank. intros H.
  destruct (N.eqb c 32) eqn:E1; [apply N.eqb_eq in E1; auto|].
  destruct (N.eqb c 9) eqn:E2; [apply N.eqb_eq in E2; auto|].
  destruct (N.eqb c 13) eqn:E3; [apply N.eqb_eq in E3; auto|].
  destruct (N.eqb c 10) eqn:E4; [apply N.eqb_eq in E4; auto|]. discriminate H.
Qed.

(** a blank produces no token, consumes exactly itself, and only a newline advances the line counter *)
Theorem consume_blank c r line file prev : is_blank c = true ->
  consume (c :: r) line file prev = Ok (None, 1, if N.eqb c 10 then 1%N else 0%N).
Proof.
  intros Hb. pose proof blank_tables_ok as Ht. cbn [forallb] in Ht.
  repeat (apply andb_true_iff in Ht as [? Ht]).
  destruct (blank_cases c Hb) as [-> | [-> | [-> | ->]]]; unfold consume;
    repeat match goal with
    | H : (match assoc_N ?k ?t with Some _ => false | None => true end && _ && _) = true |- _ =>
        apply andb_true_iff in H as [H ?]; apply andb_true_iff in H as [H ?]
    end;
    repeat match goal with
    | H : match assoc_N ?k ?t with Some _ => false | None => true end = true |- _ =>
        destruct (assoc_N k t) eqn:?; [discriminate H|clear H]
    end;
    repeat match goal with H : assoc_N _ _ = None |- _ => rewrite H end; reflexivity.
Qed.

(* what a token is, apart from where it is written *)
Definition strip (t : token) : tkind * text := (t_kind t, t_lexeme t).

(* one step of the tokenizer does not depend on the current line number, except for the line it stamps on the token
   and on an error *)
Definition same_step (a b : outcome (option token * nat * N)) : Prop :=
  match a, b with
  | Ok (ta, na, la), Ok (tb, nb, lb) => option_map strip ta = option_map strip tb /\ na = nb /\ la = lb
  | Err _, Err _ => True
  | Panic _, Panic _ => True
  | OutOfFuel, OutOfFuel => True
  | _, _ => False
  end.

Lemma num_scan_line rest : forall in_frac l1 l2 file,
  match num_scan rest in_frac l1 file, num_scan rest in_frac l2 file with
  | Ok a, Ok b => a = b
  | Err _, Err _ => True
  | _, _ => False
  end.
Proof.
  induction rest as [|c r IH]; intros in_frac l1 l2 file; simpl; auto.
  destruct (N.eqb c c_dot).
  - destruct in_frac; auto. specialize (IH true l1 l2 file).
    destruct (num_scan r true l1 file) as [[? ?]| | |], (num_scan r true l2 file) as [[? ?]| | |]; simpl; auto; try contradiction. congruence.
  - destruct (is_numeric c); auto. destruct (assoc_N c lexer_digits); auto. specialize (IH in_frac l1 l2 file).
    destruct (num_scan r in_frac l1 file) as [[? ?]| | |], (num_scan r in_frac l2 file) as [[? ?]| | |]; simpl; auto; try contradiction. congruence.
Qed.

Lemma consume_num_line rest l1 l2 file :
  match consume_num rest l1 file, consume_num rest l2 file with
  | Ok a, Ok b => a = b
  | Err _, Err _ => True
  | _, _ => False
  end.
Proof.
  unfold consume_num.
  assert (G : forall sign body k, match consume_num_tail sign body k l1 file, consume_num_tail sign body k l2 file with
                                  | Ok a, Ok b => a = b | Err _, Err _ => True | _, _ => False end).
  { intros sign body k. unfold consume_num_tail. pose proof (num_scan_line body false l1 l2 file) as H.
    destruct (num_scan body false l1 file) as [[s1 n1]| | |], (num_scan body false l2 file) as [[s2 n2]| | |]; simpl; auto; try contradiction.
    injection H as -> ->. destruct (parse_f64 _); auto. }
  destruct rest as [|c r]; [apply G|]. destruct (N.eqb c c_minus); apply G.
Qed.

Theorem consume_line_irrelevant rest l1 l2 file prev :
  same_step (consume rest l1 file prev) (consume rest l2 file prev).
Proof.
  destruct rest as [|c r]; [exact I|]. unfold consume.
  destruct (orb _ _).
  { destruct (orb (is_numeric c) _).
    - pose proof (consume_num_line (c :: r) l1 l2 file) as H.
      destruct (consume_num (c :: r) l1 file) as [[v1 n1]| | |], (consume_num (c :: r) l2 file) as [[v2 n2]| | |]; simpl; auto; try contradiction.
      injection H as -> ->. auto.
    - destruct (match r with d :: _ => N.eqb d c_gt | [] => false end); simpl; auto. }
  destruct (assoc_N c single_ops); [simpl; auto|].
  destruct (assoc_N c double_ops) as [[[d k2] k1]|].
  { destruct (match r with x :: _ => N.eqb x d | [] => false end); simpl; auto. }
  destruct (N.eqb c c_hash).
  { destruct (comment_scan (S (length r)) r) as [[n l]|]; simpl; auto. }
  destruct (N.eqb c c_quote).
  { destruct (string_scan r) as [s closed]. destruct closed; simpl; auto. }
  destruct (mem_N c [32%N; 13%N; 9%N]); [simpl; auto|].
  destruct (N.eqb c c_newline); [simpl; auto|].
  destruct (ident_scan (c :: r)) as [|i id]; [simpl; auto|].
  destruct (assoc_text (i :: id) keywords); simpl; auto.
Qed.

(* whole token streams: kinds and lexemes do not depend on the line and position counters *)
Definition same_tokens (a b : outcome (list (token * (nat * nat)))) : Prop :=
  match a, b with
  | Ok ta, Ok tb => map (fun x => strip (fst x)) ta = map (fun x => strip (fst x)) tb
  | Err _, Err _ => True
  | Panic _, Panic _ => True
  | OutOfFuel, OutOfFuel => True
  | _, _ => False
  end.

Theorem lex_loop_counters_irrelevant fuel : forall rest p1 p2 l1 l2 file prev,
  same_tokens (lex_loop fuel rest p1 l1 file prev) (lex_loop fuel rest p2 l2 file prev).
Proof.
  induction fuel as [|f IH]; intros rest p1 p2 l1 l2 file prev.
  - destruct rest; simpl; auto.
  - destruct rest as [|c r]; [simpl; reflexivity|]. cbn [lex_loop].
    pose proof (consume_line_irrelevant (c :: r) l1 l2 file prev) as Hs.
    destruct (consume (c :: r) l1 file prev) as [[[t1 n1] d1]| | |], (consume (c :: r) l2 file prev) as [[[t2 n2] d2]| | |];
      simpl in Hs; try contradiction; cbn [bind]; auto.
    destruct Hs as (Ht & -> & ->).
    destruct t1 as [tk1|], t2 as [tk2|]; simpl in Ht; try discriminate.
    + injection Ht as Hk Hl.
      specialize (IH (skipn n2 (c :: r)) (p1 + n2) (p2 + n2) (N.add l1 d2) (N.add l2 d2) file (Some (t_kind tk1))).
      rewrite <- Hk.
      destruct (lex_loop f _ (p1 + n2) _ file _) as [ts1| | |], (lex_loop f _ (p2 + n2) _ file _) as [ts2| | |]; simpl in *; auto; try contradiction.
      unfold strip at 1 3. rewrite Hk, Hl. f_equal. exact IH.
    + apply IH.
Qed.

(** Leading blanks (any number, any kind: space, tab, CR, newline) are inert: the same tokens follow *)
Theorem leading_blanks_inert blanks : forallb is_blank blanks = true -> forall fuel rest pos line file prev,
  same_tokens (lex_loop (length blanks + fuel) (blanks ++ rest) pos line file prev) (lex_loop fuel rest pos line file prev).
Proof.
  induction blanks as [|b bs IH]; intros Hb fuel rest pos line file prev.
  - simpl. destruct (lex_loop fuel rest pos line file prev); simpl; auto.
  - simpl in Hb. apply andb_true_iff in Hb as [Hb1 Hb2].
    cbn [length app Nat.add lex_loop]. rewrite (consume_blank b (bs ++ rest) line file prev Hb1). cbn [bind skipn].
    specialize (IH Hb2 fuel rest (pos + 1) (N.add line (if N.eqb b 10 then 1%N else 0%N)) file prev).
    pose proof (lex_loop_counters_irrelevant fuel rest (pos + 1) pos (N.add line (if N.eqb b 10 then 1%N else 0%N)) line file prev) as Hc.
    destruct (lex_loop (length bs + fuel) (bs ++ rest) (pos + 1) _ file prev) as [t1| | |],
             (lex_loop fuel rest (pos + 1) _ file prev) as [t2| | |], (lex_loop fuel rest pos line file prev) as [t3| | |];
      simpl in *; auto; try contradiction; congruence.
Qed.

(** In particular a binary operator needs no surrounding blanks: after an operand-ending token, '-' directly followed by
    a digit is the operator, whatever follows *)
Theorem minus_after_operand_is_binary d r line file k :
  mem_N (tk_tag k) minus_binary_after = true -> N.eqb d c_gt = false ->
  consume (c_minus :: d :: r) line file (Some k) = Ok (Some (tok TMinus [c_minus] line file), 1, 0%N).
Proof.
  intros Hk Hd. unfold consume.
  assert (Hm : (N.eqb c_minus c_minus || match assoc_N c_minus lexer_digits with Some _ => true | None => false end) = true) by reflexivity.
  rewrite Hm.
  assert (Hnn : is_numeric c_minus = false) by (vm_compute; reflexivity).
  rewrite Hnn. unfold after_operand. rewrite Hk. rewrite andb_false_r. cbn [orb]. rewrite Hd. reflexivity.
Qed.

(* the operand-ending kinds of the source: number, string, identifier, boolean, ')' and ']' *)
Theorem operand_ending_kinds : forall x s b,
  mem_N (tk_tag (TNum x)) minus_binary_after = true /\ mem_N (tk_tag (TStr s)) minus_binary_after = true /\
  mem_N (tk_tag TIdent) minus_binary_after = true /\ mem_N (tk_tag (TBool b)) minus_binary_after = true /\
  mem_N (tk_tag TRParen) minus_binary_after = true /\ mem_N (tk_tag TRSquare) minus_binary_after = true.
Proof. intros. vm_compute. repeat split. Qed.

(** Comments are inert for the parser: a comment token is dropped and the next statement is what is parsed *)
Theorem parser_drops_comments fs cwd main_path fuel s p : pos_here s = Ok p -> tk_is (hk s) TComment = true ->
  pstmt fs cwd main_path (S fuel) s = pstmt fs cwd main_path fuel (adv s).
Proof.
  intros Hp Hk. cbn [pstmt]. rewrite Hp. cbn [bind]. destruct (hk s); try discriminate. reflexivity.
Qed.
